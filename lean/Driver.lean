import Demeter.Drv.Basic
import Demeter.Drv.Uni
open Demeter Demeter.Drv

def allHandlers : List (String × Handler) := uniHandlers

def dispatch (line : String) : String :=
  match (line.splitOn " ") with
  | [] => "ERR empty"
  | fn :: args =>
    match allHandlers.lookup fn with
    | none => s!"ERR unknown-fn {fn}"
    | some h => match h args.toArray with
      | .ok s => s
      | .error e => s!"ERR {e}"

partial def loop (hin hout : IO.FS.Stream) : IO Unit := do
  let line ← hin.getLine
  if line.isEmpty then return ()
  let line := (line.dropEndWhile (fun c => c == (Char.ofNat 10) || c == (Char.ofNat 13))).toString
  hout.putStrLn (dispatch line)
  loop hin hout

def main : IO Unit := do
  let hin ← IO.getStdin
  let hout ← IO.getStdout
  loop hin hout
  hout.flush
