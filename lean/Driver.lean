import Demeter.Drv.Json
import Demeter.Drv.Uni
open Demeter Demeter.Drv
def main : IO Unit := serve uniHandlers uniJHandlers
