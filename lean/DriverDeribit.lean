import Demeter.Drv.Json
import Demeter.Drv.Deribit
open Demeter Demeter.Drv
def main : IO Unit := serve deribitHandlers deribitJHandlers
