/-
  Demeter.Uni.Mirror — the token-order mirror: the same market with token0 and token1 exchanged.
  Ticks are negated (so a range `[lower, upper]` becomes `[-upper, -lower]`), per-token quantities are swapped,
  base/quote-denominated quantities (prices, wallet, values) stay as they are.
-/
import Demeter.Uni.Step
namespace Demeter.Uni
open Demeter

def mPool (p : Pool) : Pool :=
  { tok0 := p.tok1, tok1 := p.tok0, d0 := p.d1, d1 := p.d0, feeRate := p.feeRate, spacing := p.spacing,
    q0 := !p.q0, decFac := 1 / p.decFac }

def mPos (p : Pos) : Pos :=
  { p with lower := -p.upper, upper := -p.lower, pending0 := p.pending1, pending1 := p.pending0 }

def mRow (r : Row) : Row := { r with closeTick := -r.closeTick, in0 := r.in1, in1 := r.in0 }

def mState (s : State) : State :=
  { s with positions := s.positions.map mPos, lastTick := s.lastTick.map (fun t => -t), row := s.row.map mRow }

/-- the economic state: everything but the (write-only) action log -/
def stripLog (s : State) : State := { s with actions := [] }

/-- the mirror law of the numeric kernel: `ms` maps a sqrt price of the pool to the sqrt price of its mirror
    (for the concrete kernel `ms s ≈ 2^192 / s`, and the law holds only approximately — see C09_kernel_*) -/
structure KernMirror (K K' : Kern) (p : Pool) (ms : Nat → Nat) : Prop where
  cx : K'.cx = K.cx
  priceToSqrt : ∀ x, K'.priceToSqrt (mPool p) x = (K.priceToSqrt p x).map ms
  sqrtToPrice : ∀ s, K'.sqrtToPrice (mPool p) (ms s) = K.sqrtToPrice p s
  tickToPrice : ∀ t, K'.tickToPrice (mPool p) (-t) = K.tickToPrice p t
  newPos : ∀ s lo up a0 a1, K'.newPos (mPool p) (ms s) (-up) (-lo) a1 a0 =
    (K.newPos p s lo up a0 a1).map (fun r => (r.2.1, r.1, r.2.2))
  amounts : ∀ s lo up l d, K'.amounts (mPool p) (ms s) (-up) (-lo) l d = (K.amounts p s lo up l d).map (fun r => (r.2, r.1))
  tickToSqrt : ∀ t, K'.tickToSqrt (-t) = (K.tickToSqrt t).map ms

/-- the mirrored form of an operation that is expressed in base/quote terms (no caller-chosen pool price) -/
def mOp : Op → Op
  | .addRaw a0 a1 lo up sq => .addRaw a1 a0 (-up) (-lo) sq
  | .addByTick lo up b q sq t trim => .addByTick (-up) (-lo) b q sq (t.map (fun x => -x)) trim
  | .addByPrice lp up lt ut q b => .addByPrice lp up (-lt) (-ut) q b
  | .remove lo up l c sq rd => .remove (-up) (-lo) l c sq rd
  | .collect lo up m0 m1 rd tu => .collect (-up) (-lo) m1 m0 rd tu
  | .removeAll => .removeAll
  | .swap a f t p log => .swap a f t p log
  | .buy a p => .buy a p
  | .sell a p => .sell a p
  | .evenRebalance p => .evenRebalance p
  | .addByValue lo up v trim o => .addByValue (-up) (-lo) v trim o
  | .transferOut lo up => .transferOut (-up) (-lo)
  | .transferIn lo up => .transferIn (-up) (-lo)

/-- operations covered by the exact orchestration theorem: everything whose arguments are amounts, prices,
    values or positions, without a caller-chosen pool price and without the float-ratio helpers -/
def Op.mirrorable : Op → Bool
  | .addRaw _ _ _ _ sq => sq.isNone
  | .addByTick _ _ _ _ sq t _ => sq.isNone && t.isNone
  | .addByPrice .. => true
  | .remove _ _ _ _ sq _ => sq.isNone
  | .collect .. => true
  | .removeAll => true
  | .swap .. => true
  | .buy .. => true
  | .sell .. => true
  | .evenRebalance .. => true
  | .addByValue .. => false
  | .transferOut .. => true
  | .transferIn .. => true

/-- results: the two leading numbers of an add are the position key -/
def mKeyResult : List Rat → List Rat
  | [lo, up, x, y, l] => [-up, -lo, x, y, l]
  | v => v

def mResult : Op → List Rat → List Rat
  | .addRaw .., [lo, up, u0, u1, l] => [-up, -lo, u1, u0, l]
  | .addByTick .., v => mKeyResult v
  | .addByPrice .., v => mKeyResult v
  | _, v => v

end Demeter.Uni
