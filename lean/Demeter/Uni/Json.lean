/-
  JSON codecs for the Uniswap market state (harness ⇄ driver). Numbers travel as strings.
-/
import Demeter.Drv.Json
import Demeter.Uni.Basic
namespace Demeter.Uni
open Lean Demeter Demeter.Drv

def poolOfJ (j : Json) : Except String Pool := do
  pure { tok0 := ← jStr j "tok0", tok1 := ← jStr j "tok1", d0 := ← jNat j "d0", d1 := ← jNat j "d1",
         feeRate := ← jRat j "fee_rate", spacing := ← jNat j "spacing", q0 := ← jBool j "q0",
         decFac := ← jRat j "dec_fac" }

def posOfJ (j : Json) : Except String Pos := do
  pure { lower := ← jInt j "lower", upper := ← jInt j "upper", pending0 := ← jRat j "p0", pending1 := ← jRat j "p1",
         liq := ← jInt j "liq", liqDec := (jBool j "ld").toOption.getD false, lowerPrice := ← jRat j "lp", upperPrice := ← jRat j "up", initPrice := ← jRat j "ip",
         transferred := ← jBool j "tr" }

def posToJ (p : Pos) : Json :=
  Json.mkObj [("lower", intJ p.lower), ("upper", intJ p.upper), ("p0", ratJ p.pending0), ("p1", ratJ p.pending1),
    ("liq", intJ p.liq), ("ld", .bool p.liqDec), ("lp", ratJ p.lowerPrice), ("up", ratJ p.upperPrice), ("ip", ratJ p.initPrice),
    ("tr", .bool p.transferred)]

def rowOfJ (j : Json) : Except String Row := do
  pure { closeTick := ← jInt j "tick", curLiq := ← jRat j "liq", in0 := ← jRat j "in0", in1 := ← jRat j "in1",
         price := ← jRat j "price" }

def rowToJ (r : Row) : Json :=
  Json.mkObj [("tick", intJ r.closeTick), ("liq", ratJ r.curLiq), ("in0", ratJ r.in0), ("in1", ratJ r.in1),
    ("price", ratJ r.price)]

def optJ {α : Type} (f : α → Json) : Option α → Json
  | none => .null
  | some a => f a

def jOptInt (j : Json) (k : String) : Except String (Option Int) :=
  match jOpt j k with
  | none => pure none
  | some _ => do pure (some (← jInt j k))

def jOptNat (j : Json) (k : String) : Except String (Option Nat) :=
  match jOpt j k with
  | none => pure none
  | some _ => do pure (some (← jNat j k))

def jOptRat (j : Json) (k : String) : Except String (Option Rat) :=
  match jOpt j k with
  | none => pure none
  | some _ => do pure (some (← jRat j k))

def walletOfJ (a : Array Json) : Except String Wallet :=
  a.toList.mapM (fun e => match e with
    | .arr #[.str k, v] => do pure (k, ← jRatOf v)
    | _ => throw s!"wallet entry: {e.compress}")

def walletToJ (w : Wallet) : Json := .arr (w.map (fun (k, v) => Json.arr #[.str k, ratJ v])).toArray

def actOfJ (j : Json) : Except String Act := do
  let ns ← jArr j "nums"
  pure { kind := ← jStr j "kind", nums := ← ns.toList.mapM jRatOf }

def actToJ (a : Act) : Json := Json.mkObj [("kind", .str a.kind), ("nums", .arr (a.nums.map ratJ).toArray)]

def stateOfJ (j : Json) : Except String State := do
  let ps ← jArr j "positions"
  let row ← match jOpt j "row" with
    | none => pure none
    | some r => do pure (some (← rowOfJ r))
  let acts ← match jOpt j "actions" with
    | some (.arr a) => a.toList.mapM actOfJ
    | _ => pure []
  pure { positions := ← ps.toList.mapM posOfJ, lastTick := ← jOptInt j "last", row := row, ts := ← jOptNat j "ts",
         isOpen := ← jBool j "open", hasUpdate := ← jBool j "upd", wallet := ← walletOfJ (← jArr j "wallet"),
         allowNeg := ← jBool j "neg", actions := acts }

def stateToJ (s : State) : Json :=
  Json.mkObj [("positions", .arr (s.positions.map posToJ).toArray), ("last", optJ intJ s.lastTick),
    ("row", optJ rowToJ s.row), ("ts", optJ natJ s.ts), ("open", .bool s.isOpen), ("upd", .bool s.hasUpdate),
    ("wallet", walletToJ s.wallet), ("neg", .bool s.allowNeg), ("actions", .arr (s.actions.map actToJ).toArray)]

end Demeter.Uni
