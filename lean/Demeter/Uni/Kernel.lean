/-
  Demeter.Uni.Kernel — the numeric kernel the code actually uses: helper.py's price ⇄ sqrt-price ⇄ tick
  conversions and core.py's `new_position` / `get_token_amounts` on top of `Demeter.LiqMath`/`TickMath`.
  `sq` is `Decimal ** 2` (not correctly rounded in CPython: `dpowNat 35 · 2` in the driver, `x*x` for theorems).
-/
import Demeter.Uni.Basic
namespace Demeter.Uni
open Demeter

def q96R : Rat := ((Q96 : Nat) : Rat)

/-- `get_sqrt_ratio_at_tick` with its assertion -/
def sqrtAtE (t : Int) : Except Err Nat := if tickOk t then .ok (sqrtAt t) else .error .assertion

/-- `base_unit_price_to_sqrt_price_x96` -/
def priceToSqrtStd (cx : NumCtx) (pool : Pool) (price : Rat) : Except Err Nat :=
  if pool.q0 && price == 0 then .error .divByZero else
  let p := if pool.q0 then cx.div 1 price else price
  let atomic := cx.div p pool.decFac
  if atomic < 0 then .error .invalidOp else
  .ok (truncInt (cx.mul (cx.dsqrt atomic) q96R)).toNat

/-- `sqrt_price ** 2 * Decimal(10 ** (d0 - d1))`, then `Decimal(1 / pool_price)` when token0 is the quote token -/
def poolPriceToBase (cx : NumCtx) (sq : Rat → Rat) (pool : Pool) (s : Nat) : Except Err Rat :=
  let sp := cx.div (s : Rat) q96R
  let pp := cx.mul (sq sp) pool.decFac
  if pool.q0 then (if pp = 0 then .error .divByZero else .ok (cx.div 1 pp)) else .ok pp

/-- `sqrt_price_x96_to_base_unit_price` -/
def sqrtToPriceStd (cx : NumCtx) (sq : Rat → Rat) (pool : Pool) (s : Nat) : Except Err Rat :=
  poolPriceToBase cx sq pool s

/-- `tick_to_base_unit_price` -/
def tickToPriceStd (cx : NumCtx) (sq : Rat → Rat) (pool : Pool) (t : Int) : Except Err Rat :=
  match sqrtAtE t with
  | .error e => .error e
  | .ok s => poolPriceToBase cx sq pool s

/-- `get_amount0` for an integer-valued liquidity that is a Python `int` (`dec = false`: exact product) or a
    `Decimal` (`dec = true`: `liquidity * 2**96` and `* (sqrtB - sqrtA)` are rounded) -/
def amount0Gen (cx : NumCtx) (sa sb : Nat) (l : Int) (dec : Bool) (decimals : Nat) : Rat :=
  let (sa, sb) := sortPair sa sb
  let prod : Rat := if dec then cx.mul (cx.mul (l : Rat) q96R) (((sb - sa : Nat) : Rat))
                    else (((l * (Q96 : Nat) * ((sb - sa : Nat) : Int) : Int)) : Rat)
  cx.div (cx.div (cx.div prod (sb : Rat)) (sa : Rat)) ((pow10 decimals : Nat) : Rat)

def amount1Gen (cx : NumCtx) (sa sb : Nat) (l : Int) (dec : Bool) (decimals : Nat) : Rat :=
  let (sa, sb) := sortPair sa sb
  let prod : Rat := if dec then cx.mul (l : Rat) (((sb - sa : Nat) : Rat))
                    else (((l * ((sb - sa : Nat) : Int) : Int)) : Rat)
  cx.div (cx.div prod q96R) ((pow10 decimals : Nat) : Rat)

/-- `get_amounts` -/
def amountsGen (cx : NumCtx) (s : Nat) (ta tb : Int) (l : Int) (dec : Bool) (d0 d1 : Nat) : Except Err (Rat × Rat) :=
  match sqrtAtE ta, sqrtAtE tb with
  | .error e, _ => .error e
  | _, .error e => .error e
  | .ok sa0, .ok sb0 =>
    let (sa, sb) := sortPair sa0 sb0
    if s ≤ sa then .ok (amount0Gen cx sa sb l dec d0, 0)
    else if s < sb then .ok (amount0Gen cx s sb l dec d0, amount1Gen cx sa s l dec d1)
    else .ok (0, amount1Gen cx sa sb l dec d1)

/-- `V3CoreLib.get_token_amounts` -/
def tokenAmountsStd (cx : NumCtx) (pool : Pool) (s : Nat) (ta tb : Int) (l : Int) (dec : Bool) : Except Err (Rat × Rat) :=
  if l = 0 then .ok (0, 0) else amountsGen cx s ta tb l dec pool.d0 pool.d1

/-- `V3CoreLib.new_position`: `get_liquidity` (asserts the ticks, ZeroDivisionError on an empty range), then the
    amounts that liquidity needs -/
def newPosStd (cx : NumCtx) (pool : Pool) (s : Nat) (ta tb : Int) (a0 a1 : Rat) : Except Err (Rat × Rat × Int) :=
  if !tickOk ta || !tickOk tb then .error .assertion else
  match getLiquidity cx s ta tb a0 a1 pool.d0 pool.d1 with
  | none => .error .zeroDiv
  | some l =>
    match amountsGen cx s ta tb l false pool.d0 pool.d1 with
    | .error e => .error e
    | .ok u => .ok (u.1, u.2, l)

/-- the kernel of the code -/
def Kern.std (cx : NumCtx) (sq : Rat → Rat) : Kern :=
  { cx := cx
    priceToSqrt := priceToSqrtStd cx
    sqrtToPrice := sqrtToPriceStd cx sq
    tickToPrice := tickToPriceStd cx sq
    newPos := newPosStd cx
    amounts := tokenAmountsStd cx
    tickToSqrt := sqrtAtE }

/-- CPython semantics: 35-digit context, `** 2` as libmpdec computes it -/
def Kern.py : Kern := Kern.std NumCtx.py (fun x => dpowNat 35 x 2)

end Demeter.Uni
