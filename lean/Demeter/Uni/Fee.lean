/-
  Demeter.Uni.Fee — `V3CoreLib.update_fee` (uniswap/core.py), `UniLpMarket.set_market_status` (last_tick
  bookkeeping, own liquidity added to the pool's), `UniLpMarket.update`, and the part of `Actuator.run`'s
  bar loop that concerns one Uniswap market (refresh; strategy operations; second refresh when a write
  happened; fee update; after-bar operations).
-/
import Demeter.Uni.Basic
import Demeter.Gen.ConstsUni
namespace Demeter.Uni
open Demeter

/-- `in_range(tick)` of `update_fee`: 1 above (`tick ≥ upper`), −1 below (`tick < lower`), 0 inside -/
def inRange (lower upper t : Int) : Int := if t ≥ upper then 1 else if t < lower then -1 else 0

/-- `list.sort()` on the four ticks: insertion sort -/
def insertSorted (x : Int) : List Int → List Int
  | [] => [x]
  | y :: ys => if x ≤ y then x :: y :: ys else y :: insertSorted x ys

def sortInts : List Int → List Int
  | [] => []
  | x :: xs => insertSorted x (sortInts xs)

def intAbs (x : Int) : Int := if x < 0 then -x else x

/-- what `update_fee` decides before touching the position -/
inductive FeeCase
  | skip                       -- `return` (same side, or the crossing has no in-range part)
  | full                       -- both closes inside: `calc_amounts(DECIMAL_1)`
  | part (num den : Int)       -- crossing: `Decimal(in_range_delta) / Decimal(price_delta)`
  | nanError                   -- `last_tick` is nan and the close is outside: `int(nan)` raises ValueError
deriving DecidableEq, Repr

def feeCase (last : Option Int) (close lower upper : Int) : FeeCase :=
  let now := inRange lower upper close
  match last with
  | none => if now = 0 then .full else .nanError       -- in_range(nan) = 0
  | some lt =>
    let lst := inRange lower upper lt
    if now = lst then (if now = 0 then .full else .skip)
    else
      let r := sortInts [lower, upper, lt, close]
      let r1 := r.getD 1 0
      let r2 := r.getD 2 0
      if r2 = r1 then .skip else .part (r2 - r1) (intAbs (lt - close))

/-- `from_atomic_unit(x, d) = Decimal(int(x)) / Decimal(10 ** d)` -/
def fromAtomic (cx : NumCtx) (x : Rat) (d : Nat) : Rat := cx.div (truncInt x) ((pow10 d : Nat) : Rat)

/-- `calc_amounts(weight)` -/
def calcAmounts (cx : NumCtx) (pool : Pool) (row : Row) (p : Pos) (w : Rat) : Except Err Pos :=
  if row.curLiq = 0 then .error (if p.liq = 0 then .invalidOp else .divByZero)
  else
    let share := cx.div (p.liq : Rat) row.curLiq
    let f0 := cx.mul (cx.mul (cx.mul w (fromAtomic cx row.in0 pool.d0)) share) pool.feeRate
    let f1 := cx.mul (cx.mul (cx.mul w (fromAtomic cx row.in1 pool.d1)) share) pool.feeRate
    .ok { p with pending0 := cx.add p.pending0 f0, pending1 := cx.add p.pending1 f1 }

/-- `V3CoreLib.update_fee(last_tick, pool, pos, position, state)` -/
def updateFee (cx : NumCtx) (pool : Pool) (last : Option Int) (row : Row) (p : Pos) : Except Err Pos :=
  match feeCase last row.closeTick p.lower p.upper with
  | .skip => .ok p
  | .full => calcAmounts cx pool row p 1
  | .nanError => .error .value
  | .part n d =>
    let w := cx.div (n : Rat) (d : Rat)
    if w > Gen.uniWeightAlarm then .error .runtime else calcAmounts cx pool row p w

/-- the loop of `__update_fee`: positions before a failing one keep their accrual -/
def updateLoop (cx : NumCtx) (pool : Pool) (last : Option Int) (row : Row) : List Pos → List Pos × Option Err
  | [] => ([], none)
  | p :: ps =>
    match updateFee cx pool last row p with
    | .error e => (p :: ps, some e)
    | .ok p' =>
      let r := updateLoop cx pool last row ps
      (p' :: r.1, r.2)

/-- `UniLpMarket.update()` -/
def update (cx : NumCtx) (pool : Pool) (s : State) : State × Option Err :=
  match s.positions, s.row with
  | [], _ => (s, none)
  | _, none => (s, some .attribute)
  | ps, some row =>
    let r := updateLoop cx pool s.lastTick row ps
    ({ s with positions := r.1 }, r.2)

/-- `UniLpMarket.set_market_status(MarketStatus(ts, data), price)`; `raw` = the data row of the bar,
    `opn` = `data is None or ts in data.index`.
    `last_tick` moves to the close of the status being replaced — except on a repeated refresh of the same
    bar (same timestamp, `last_tick` already valid), which keeps it. -/
def setStatus (cx : NumCtx) (s : State) (raw : Row) (ts : Option Nat) (opn : Bool) : State :=
  let sameBar := ts.isSome && ts == s.ts && s.lastTick.isSome
  { s with
    isOpen := opn
    hasUpdate := false
    lastTick := if sameBar then s.lastTick else s.row.map (·.closeTick)
    row := some { raw with curLiq := cx.add raw.curLiq ((sumLiq s.positions : Int) : Rat) }
    ts := ts }

/-- the code before the repair: every refresh overwrites `last_tick` (kept to state what was wrong) -/
def setStatusOld (cx : NumCtx) (s : State) (raw : Row) (ts : Option Nat) (opn : Bool) : State :=
  { s with
    isOpen := opn
    hasUpdate := false
    lastTick := s.row.map (·.closeTick)
    row := some { raw with curLiq := cx.add raw.curLiq ((sumLiq s.positions : Int) : Rat) }
    ts := ts }

/-! ### the bar loop (one market) -/

/-- one bar of `Actuator.run` seen from the market, up to the call of `update()`:
    refresh; `pre` = what before_bar / triggers / on_bar did; second refresh iff a write set `has_update`.
    The operations are arbitrary state transformers here (the concrete ones are in `Demeter/Uni/Ops.lean`). -/
def barPrep (refresh : State → Row → Option Nat → Bool → State)
    (s : State) (k : Nat) (raw : Row) (pre : State → State) : State :=
  let s1 := refresh s raw (some k) true
  let s2 := pre s1
  if s2.hasUpdate then refresh s2 raw (some k) true else s2

/-- the whole bar: `update()`, then `post` = what after_bar did. Returns the error of `update()` if it
    raised (the run stops there). -/
def barStep (cx : NumCtx) (pool : Pool) (refresh : State → Row → Option Nat → Bool → State)
    (s : State) (k : Nat) (raw : Row) (pre post : State → State) : State × Option Err :=
  let r := update cx pool (barPrep refresh s k raw pre)
  match r.2 with
  | some e => (r.1, some e)
  | none => (post r.1, none)

structure Bar where
  raw : Row
  pre : State → State
  post : State → State

/-- bars `k, k+1, …` -/
def runFrom (cx : NumCtx) (pool : Pool) (refresh : State → Row → Option Nat → Bool → State) :
    Nat → State → List Bar → State × Option Err
  | _, s, [] => (s, none)
  | k, s, b :: bs =>
    let r := barStep cx pool refresh s k b.raw b.pre b.post
    match r.2 with
    | some e => (r.1, some e)
    | none => runFrom cx pool refresh (k + 1) r.1 bs

/-- the states handed to `update()`, bar by bar (what the fee computation sees) -/
def prepTrace (cx : NumCtx) (pool : Pool) (refresh : State → Row → Option Nat → Bool → State) :
    Nat → State → List Bar → List State
  | _, _, [] => []
  | k, s, b :: bs =>
    let r := barStep cx pool refresh s k b.raw b.pre b.post
    barPrep refresh s k b.raw b.pre ::
      (match r.2 with
       | some _ => []
       | none => prepTrace cx pool refresh (k + 1) r.1 bs)

/-- state at the start of the loop of `Actuator.run`: the pre-loop refresh on the first bar's row, then
    `init` = what `Strategy.initialize()` did -/
def runStart (refresh : State → Row → Option Nat → Bool → State) (s : State) (init : State → State)
    (bars : List Bar) : State :=
  match bars with
  | [] => s
  | b :: _ => init (refresh s b.raw (some 0) true)

/-- `Actuator.run` -/
def run (cx : NumCtx) (pool : Pool) (refresh : State → Row → Option Nat → Bool → State)
    (s : State) (init : State → State) (bars : List Bar) : State × Option Err :=
  runFrom cx pool refresh 0 (runStart refresh s init bars) bars

end Demeter.Uni
