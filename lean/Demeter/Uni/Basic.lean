/-
  Demeter.Uni.Basic — state of `UniLpMarket` (demeter/uniswap/market.py) together with the broker wallet it
  moves funds through, Python exceptions as values, and the numeric kernel (`Kern`) the orchestration code
  calls into (price ⇄ sqrt-price conversions, `V3CoreLib.new_position`, `get_token_amounts`).

  The kernel is a parameter so that (a) statements that do not depend on arithmetic hold for every kernel,
  (b) the token-order property (C09) can relate two kernels by a mirror law.  `Demeter/Uni/Kernel.lean`
  gives the kernel the code actually uses.
-/
import Demeter.Wallet
import Demeter.LiqMath
namespace Demeter.Uni
open Demeter

/-- Python exception classes the Uniswap market can raise -/
inductive Err
  | demeter        -- DemeterError
  | assertion      -- AssertionError (require / Asset.sub / get_sqrt_ratio_at_tick)
  | zeroDiv        -- ZeroDivisionError (integer division in liquidity math)
  | key            -- KeyError (unknown position)
  | invalidOp      -- decimal.InvalidOperation (NaN comparison, 0/0)
  | divByZero      -- decimal.DivisionByZero
  | notImpl        -- NotImplementedError
  | runtime        -- RuntimeError("weight must <=1")
  | attribute      -- AttributeError (no market status yet)
  | value          -- ValueError (int(nan))
deriving DecidableEq, Repr, Inhabited

def Err.name : Err → String
  | .demeter => "DemeterError"
  | .assertion => "AssertionError"
  | .zeroDiv => "ZeroDivisionError"
  | .key => "KeyError"
  | .invalidOp => "InvalidOperation"
  | .divByZero => "DivisionByZero"
  | .notImpl => "NotImplementedError"
  | .runtime => "RuntimeError"
  | .attribute => "AttributeError"
  | .value => "ValueError"

/-- `UniV3Pool` -/
structure Pool where
  tok0 : String
  tok1 : String
  d0 : Nat
  d1 : Nat
  feeRate : Rat
  spacing : Nat
  /-- `is_token0_quote` -/
  q0 : Bool
  /-- `Decimal(10 ** (d0 - d1))` as Python evaluates it (an exact integer when `d0 ≥ d1`, otherwise the
      binary double nearest to `10^(d0-d1)`) -/
  decFac : Rat
deriving DecidableEq, Repr, Inhabited

def Pool.baseTok (p : Pool) : String := if p.q0 then p.tok1 else p.tok0
def Pool.quoteTok (p : Pool) : String := if p.q0 then p.tok0 else p.tok1
def Pool.baseDec (p : Pool) : Nat := if p.q0 then p.d1 else p.d0
def Pool.quoteDec (p : Pool) : Nat := if p.q0 then p.d0 else p.d1

/-- `_convert_pair`: (token0, token1) ⇄ (base, quote); an involution -/
def Pool.conv {α : Type} (p : Pool) (x0 x1 : α) : α × α := if p.q0 then (x1, x0) else (x0, x1)

/-- `PositionInfo` (the dict key) + `Position` (the value) -/
structure Pos where
  lower : Int
  upper : Int
  pending0 : Rat
  pending1 : Rat
  liq : Int
  /-- `liquidity` is held as a `Decimal` (after a partial removal through the public API, whose decorator turns
      the `int` argument into a `Decimal`): products with it are rounded by the context -/
  liqDec : Bool := false
  lowerPrice : Rat
  upperPrice : Rat
  initPrice : Rat
  transferred : Bool
deriving DecidableEq, Repr, Inhabited

/-- one row of pool data = `market_status.data` -/
structure Row where
  closeTick : Int
  curLiq : Rat
  in0 : Rat
  in1 : Rat
  price : Rat
deriving DecidableEq, Repr, Inhabited

/-- an entry of the action log: the class name and the numbers it carries -/
structure Act where
  kind : String
  nums : List Rat
deriving DecidableEq, Repr, Inhabited

/-- market + wallet + action log -/
structure State where
  /-- `_positions` in dict order; keys `(lower, upper)` are distinct -/
  positions : List Pos
  /-- `last_tick`; `none` = `nan` of a fresh market -/
  lastTick : Option Int
  /-- `_market_status.data`; `none` = the empty Series of a fresh market -/
  row : Option Row
  /-- `_market_status.timestamp` as a bar number -/
  ts : Option Nat
  isOpen : Bool
  hasUpdate : Bool
  wallet : Wallet
  /-- `Broker.allow_negative_balance` -/
  allowNeg : Bool
  actions : List Act
deriving DecidableEq, Repr, Inhabited

/-- the observable part the "state intact" property talks about (`has_update` is bookkeeping of the bar loop) -/
structure Obs where
  positions : List Pos
  lastTick : Option Int
  row : Option Row
  ts : Option Nat
  isOpen : Bool
  wallet : Wallet
  actions : List Act
deriving DecidableEq, Repr

def State.obs (s : State) : Obs :=
  { positions := s.positions, lastTick := s.lastTick, row := s.row, ts := s.ts, isOpen := s.isOpen,
    wallet := s.wallet, actions := s.actions }

/-! ### positions dict -/

def Pos.hasKey (p : Pos) (lo up : Int) : Bool := p.lower == lo && p.upper == up

def findPos (ps : List Pos) (lo up : Int) : Option Pos := ps.find? (·.hasKey lo up)

/-- `d[key] = f(d[key])` for an existing key (in place) -/
def mapPos (ps : List Pos) (lo up : Int) (f : Pos → Pos) : List Pos :=
  ps.map (fun p => if p.hasKey lo up then f p else p)

/-- `del d[key]` -/
def erasePos (ps : List Pos) (lo up : Int) : List Pos := ps.filter (fun p => !p.hasKey lo up)

/-- `sum(p.liquidity for p in positions.values())` -/
def sumLiq : List Pos → Int
  | [] => 0
  | p :: ps => p.liq + sumLiq ps

/-! ### the numeric kernel -/

structure Kern where
  cx : NumCtx
  /-- `base_unit_price_to_sqrt_price_x96(price, d0, d1, is_token0_quote)`; errors: price = 0 -/
  priceToSqrt : Pool → Rat → Except Err Nat
  /-- `sqrt_price_x96_to_base_unit_price` -/
  sqrtToPrice : Pool → Nat → Except Err Rat
  /-- `tick_to_base_unit_price` (asserts the tick bound) -/
  tickToPrice : Pool → Int → Except Err Rat
  /-- `V3CoreLib.new_position`: used0, used1, liquidity -/
  newPos : Pool → Nat → Int → Int → Rat → Rat → Except Err (Rat × Rat × Int)
  /-- `V3CoreLib.get_token_amounts` / `close_position` (sqrt price, lower, upper, liquidity, liquidity is a Decimal) -/
  amounts : Pool → Nat → Int → Int → Int → Bool → Except Err (Rat × Rat)
  /-- `tick_to_sqrt_price_x96` -/
  tickToSqrt : Int → Except Err Nat

/-- wallet errors as Python raises them: `Asset.sub` → AssertionError, missing token → DemeterError -/
def debit (cx : NumCtx) (w : Wallet) (tok : String) (amount : Rat) (allowNeg : Bool) : Except Err Wallet :=
  match Wallet.debit cx w tok amount allowNeg with
  | .ok w' => .ok w'
  | .error .insufficient => .error .assertion
  | .error .unknownToken => .error .demeter

/-- `Broker.get_token_balance` -/
def balanceOf (w : Wallet) (tok : String) : Except Err Rat :=
  match AList.get? w tok with
  | some b => .ok b
  | none => .error .demeter

end Demeter.Uni
