/-
  JSON handlers of the Uniswap market model (driver `driver`).
-/
import Demeter.Uni.Json
import Demeter.Uni.Fee
namespace Demeter.Uni
open Lean Demeter Demeter.Drv

def feeCaseTag : FeeCase → String
  | .skip => "skip" | .full => "full" | .part _ _ => "part" | .nanError => "nan"

def errJ (e : Err) : Json := .str e.name

def feeHandlers : List (String × JHandler) := [
  ("uni.updateFee", fun j => do
    let cx := jCtx j
    let pool ← poolOfJ (← jObj j "pool")
    let last ← jOptInt j "last"
    let row ← rowOfJ (← jObj j "row")
    let p ← posOfJ (← jObj j "pos")
    let tag := feeCaseTag (feeCase last row.closeTick p.lower p.upper)
    match updateFee cx pool last row p with
    | .ok p' => pure (Json.mkObj [("pos", posToJ p'), ("case", .str tag)])
    | .error e => pure (Json.mkObj [("error", errJ e), ("case", .str tag)])),
  ("uni.update", fun j => do
    let cx := jCtx j
    let pool ← poolOfJ (← jObj j "pool")
    let s ← stateOfJ (← jObj j "state")
    let r := update cx pool s
    pure (Json.mkObj [("state", stateToJ r.1), ("error", optJ errJ r.2)])),
  ("uni.setStatus", fun j => do
    let cx := jCtx j
    let s ← stateOfJ (← jObj j "state")
    let raw ← rowOfJ (← jObj j "raw")
    let ts ← jOptNat j "ts"
    let opn ← jBool j "open"
    pure (Json.mkObj [("state", stateToJ (setStatus cx s raw ts opn))]))
]

end Demeter.Uni
