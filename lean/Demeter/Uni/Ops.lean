/-
  Demeter.Uni.Ops — the operations of `UniLpMarket` (demeter/uniswap/market.py) on `State`, in the order the
  code performs its checks and mutations.  Every operation returns the outcome *and* the state it leaves
  behind (also when it raises).

  Float-valued helper results (`math.log` tick estimates, `estimate_ratio`) are oracle inputs of the
  operations that use them: the harness passes the value the real function returned.
-/
import Demeter.Uni.Basic
namespace Demeter.Uni
open Demeter

/-- outcome (value or exception) and the state afterwards -/
abbrev Res := Except Err (List Rat) × State

def fail (e : Err) (s : State) : Res := (.error e, s)

/-- `write_func` epilogue -/
def markUpdate (s : State) : State := { s with hasUpdate := true }

def record (s : State) (a : Act) : State := { s with actions := s.actions ++ [a] }

/-- `market_status.data.price` (AttributeError on a market that never got a status) -/
def priceOf (s : State) : Except Err Rat :=
  match s.row with
  | some r => .ok r.price
  | none => .error .attribute

/-- Python `%` for a positive modulus -/
def pyMod (a : Int) (m : Nat) : Int := a % (m : Int)

/-- `get_token_balance_with_unit` for the action records: the balance, 0 if the token is unknown cannot happen
    after a successful wallet movement; a missing token raises DemeterError -/
def balOr (w : Wallet) (tok : String) : Except Err Rat := balanceOf w tok

/-- the `sqrt_price_x96` argument, or (`-1`) the square root price of the market price -/
def resolveSqrt (K : Kern) (pool : Pool) (s : State) : Option Nat → Except Err Nat
  | some x => .ok x
  | none => match priceOf s with
    | .error e => .error e
    | .ok p => K.priceToSqrt pool p

/-- an amount argument, or (`None`) the wallet balance of the token -/
def orBalance (w : Wallet) (tok : String) : Option Rat → Except Err Rat
  | some b => .ok b
  | none => balanceOf w tok

/-- `price if price else …`: zero counts as not given -/
def givenPrice : Option Rat → Option Rat
  | some p => if p != 0 then some p else none
  | none => none

/-- `price if price else self.market_status.data.price` -/
def orMarketPrice (s : State) : Option Rat → Except Err Rat
  | some p => .ok p
  | none => priceOf s

/-! ### `_add_liquidity_by_tick` -/

/-- `Position(DECIMAL_0, DECIMAL_0, liquidity, lower_price, upper_price, init_price)` -/
def mkPos (lower upper liq : Int) (lp up ip : Rat) : Pos :=
  { lower := lower, upper := upper, pending0 := 0, pending1 := 0, liq := liq, liqDec := false,
    lowerPrice := lp, upperPrice := up, initPrice := ip, transferred := false }

/-- the `Position` object for a key that is not in the dict yet (`none` if it is) -/
def newEntity (K : Kern) (pool : Pool) (s : State) (lower upper liq : Int) (sqrt : Nat) : Except Err (Option Pos) :=
  match findPos s.positions lower upper with
  | some _ => .ok none
  | none =>
    match K.tickToPrice pool lower, K.tickToPrice pool upper, K.sqrtToPrice pool sqrt with
    | .ok lp, .ok up, .ok ip =>
      .ok (some (if pool.q0 then mkPos lower upper liq up lp ip else mkPos lower upper liq lp up ip))
    | .error e, _, _ => .error e
    | _, .error e, _ => .error e
    | _, _, .error e => .error e

/-- the positions dict after the add -/
def addToPositions (ps : List Pos) (lower upper liq : Int) : Option Pos → List Pos
  | none => mapPos ps lower upper (fun p => { p with liq := p.liq + liq })
  | some p => ps ++ [p]

/-- the two wallet debits of an add; the first is undone (the wallet is simply not replaced) if the second is refused -/
def debit2 (cx : NumCtx) (w : Wallet) (k1 : String) (a1 : Rat) (k2 : String) (a2 : Rat) (neg : Bool) : Except Err Wallet :=
  match debit cx w k1 a1 neg with
  | .error e => .error e
  | .ok w1 => debit cx w1 k2 a2 neg

/-- The repaired order: every check and every computation that can raise first; then the two wallet debits
    (the first is undone if the second is refused); only then the positions dict. -/
def addRaw (K : Kern) (pool : Pool) (s : State) (a0 a1 : Rat) (lower upper : Int) (sqrt? : Option Nat) :
    Except Err (Int × Int × Rat × Rat × Int) × State :=
  if !s.isOpen then (.error .demeter, s) else
  if !(pyMod lower pool.spacing == 0 && pyMod upper pool.spacing == 0) then (.error .assertion, s) else
  match resolveSqrt K pool s sqrt? with
  | .error e => (.error e, s)
  | .ok sqrt =>
  if lower > upper then (.error .demeter, s) else
  if a0 < 0 || a1 < 0 then (.error .demeter, s) else
  match K.newPos pool sqrt lower upper a0 a1 with
  | .error e => (.error e, s)
  | .ok (u0, u1, liq) =>
    -- the entity of a new position is prepared before anything is changed
    match newEntity K pool s lower upper liq sqrt with
    | .error e => (.error e, s)
    | .ok ent =>
      match debit2 K.cx s.wallet pool.tok0 u0 pool.tok1 u1 s.allowNeg with
      | .error e => (.error e, s)          -- also when only token1 is refused: token0's balance is restored
      | .ok w2 =>
        (.ok (lower, upper, u0, u1, liq),
          markUpdate { s with wallet := w2, positions := addToPositions s.positions lower upper liq ent })

/-- the code before the repair: positions first, then the debits, nothing undone (kept to state what was wrong) -/
def addRawOld (K : Kern) (pool : Pool) (s : State) (a0 a1 : Rat) (lower upper : Int) (sqrt? : Option Nat) :
    Except Err (Int × Int × Rat × Rat × Int) × State :=
  if !s.isOpen then (.error .demeter, s) else
  if !(pyMod lower pool.spacing == 0 && pyMod upper pool.spacing == 0) then (.error .assertion, s) else
  match resolveSqrt K pool s sqrt? with
  | .error e => (.error e, s)
  | .ok sqrt =>
  if lower > upper then (.error .demeter, s) else
  match K.newPos pool sqrt lower upper a0 a1 with
  | .error e => (.error e, s)
  | .ok (u0, u1, liq) =>
    match newEntity K pool s lower upper liq sqrt with
    | .error e => (.error e, s)
    | .ok ent =>
      let s1 := { s with positions := addToPositions s.positions lower upper liq ent }
      match debit K.cx s1.wallet pool.tok0 u0 s.allowNeg with
      | .error e => (.error e, s1)
      | .ok w1 =>
        match debit K.cx w1 pool.tok1 u1 s.allowNeg with
        | .error e => (.error e, { s1 with wallet := w1 })
        | .ok w2 => (.ok (lower, upper, u0, u1, liq), markUpdate { s1 with wallet := w2 })

/-- numbers of an `AddLiquidityAction` -/
def addAct (baseAfter quoteAfter baseMax quoteMax lowerP upperP baseUsed quoteUsed : Rat) (liq : Int) : Act :=
  { kind := "AddLiquidityAction",
    nums := [baseAfter, quoteAfter, baseMax, quoteMax, lowerP, upperP, baseUsed, quoteUsed, (liq : Rat)] }

/-- common tail of `add_liquidity` and `add_liquidity_by_tick`: call `_add_liquidity_by_tick`, log, return
    `(lower, upper, base_used, quote_used, liquidity)` -/
def addAndLog (K : Kern) (pool : Pool) (s : State) (baseMax quoteMax : Rat) (lower upper : Int)
    (sqrt? : Option Nat) (lowerP upperP : Rat) : Res :=
  let (a0, a1) := pool.conv baseMax quoteMax
  match addRaw K pool s a0 a1 lower upper sqrt? with
  | (.error e, s') => (.error e, s')
  | (.ok (lo, up, u0, u1, liq), s') =>
    let (bu, qu) := pool.conv u0 u1
    match balanceOf s'.wallet pool.baseTok, balanceOf s'.wallet pool.quoteTok with
    | .ok bb, .ok qb =>
      (.ok [(lo : Rat), (up : Rat), bu, qu, (liq : Rat)],
        record s' (addAct bb qb baseMax quoteMax lowerP upperP bu qu liq))
    | .error e, _ => (.error e, s')
    | _, .error e => (.error e, s')

/-- `if sqrt_price_x96 == -1 and tick != -1: sqrt_price_x96 = tick_to_sqrt_price_x96(tick)` -/
def sqrtOrTick (K : Kern) : Option Nat → Option Int → Except Err (Option Nat)
  | some x, _ => .ok (some x)
  | none, some t => match K.tickToSqrt t with
    | .ok x => .ok (some x)
    | .error e => .error e
  | none, none => .ok none

/-- `add_liquidity_by_tick(lower, upper, base_max, quote_max, sqrt_price_x96, tick, trim_tick)` -/
def addByTick (K : Kern) (pool : Pool) (s : State) (lower upper : Int) (baseMax? quoteMax? : Option Rat)
    (sqrt? : Option Nat) (tick? : Option Int) (trim : Bool) : Res :=
  let lower := if trim then nearestUsable lower pool.spacing else lower
  let upper := if trim then nearestUsable upper pool.spacing else upper
  let (lower, upper) := if lower > upper then (upper, lower) else (lower, upper)
  match sqrtOrTick K sqrt? tick? with
  | .error e => fail e s
  | .ok sq =>
    match orBalance s.wallet pool.baseTok baseMax? with
    | .error e => fail e s
    | .ok b =>
      match orBalance s.wallet pool.quoteTok quoteMax? with
      | .error e => fail e s
      | .ok q =>
        -- the action's lower/upper quote price: tick_to_price of the final ticks (evaluated after the add; it
        -- cannot raise then because new_position has asserted the ticks)
        let lp := match K.tickToPrice pool lower with | .ok x => x | .error _ => 0
        let up := match K.tickToPrice pool upper with | .ok x => x | .error _ => 0
        addAndLog K pool s b q lower upper sq lp up

/-- `add_liquidity(lower_quote_price, upper_quote_price, quote_max, base_max)`; `lt`, `ut` are the oracle values of
    `base_unit_price_to_tick` for the two prices -/
def addByPrice (K : Kern) (pool : Pool) (s : State) (lowerP upperP : Rat) (lt ut : Int)
    (quoteMax? baseMax? : Option Rat) : Res :=
  match orBalance s.wallet pool.baseTok baseMax? with
  | .error e => fail e s
  | .ok b =>
    match orBalance s.wallet pool.quoteTok quoteMax? with
    | .error e => fail e s
    | .ok q =>
      let (lower, upper) := if pool.q0 then (ut, lt) else (lt, ut)
      let lower := nearestUsable lower pool.spacing
      let upper := nearestUsable upper pool.spacing
      addAndLog K pool s b q lower upper none lowerP upperP

/-! ### remove / collect -/

/-- `max and max < 0` -/
def negGiven : Option Rat → Bool
  | some x => x != 0 && decide (x < 0)
  | none => false

/-- `max if max is not None and max < pending else pending` -/
def capAt : Option Rat → Rat → Rat
  | some m, pending => if m < pending then m else pending
  | none, pending => pending

/-- the wallet after `__collect_fee` -/
def collectWallet (cx : NumCtx) (pool : Pool) (w : Wallet) (toUser : Bool) (f0 f1 : Rat) : Wallet :=
  if toUser then Wallet.credit cx (Wallet.credit cx w pool.tok0 f0) pool.tok1 f1 else w

/-- the position after `__collect_fee` -/
def collectPos (cx : NumCtx) (p : Pos) (f0 f1 : Rat) : Pos :=
  { p with pending0 := cx.sub p.pending0 f0, pending1 := cx.sub p.pending1 f1 }

/-- `pending0 == 0 and pending1 == 0 and liquidity == 0 and remove_dry_pool` -/
def isDry (p : Pos) (removeDry : Bool) : Bool := p.pending0 == 0 && p.pending1 == 0 && p.liq == 0 && removeDry

/-- state right after `__collect_fee` (position reduced, wallet credited, `has_update` set) -/
def collectCore (K : Kern) (pool : Pool) (s : State) (lower upper : Int) (p : Pos) (f0 f1 : Rat) (toUser : Bool) : State :=
  markUpdate { s with positions := mapPos s.positions lower upper (fun _ => collectPos K.cx p f0 f1),
                      wallet := collectWallet K.cx pool s.wallet toUser f0 f1 }

/-- … then the action record and the deletion of a dry position -/
def collectFinish (K : Kern) (pool : Pool) (s : State) (lower upper : Int) (p : Pos) (f0 f1 : Rat)
    (removeDry toUser : Bool) (bb qb : Rat) : State :=
  let s2 := record (collectCore K pool s lower upper p f0 f1 toUser)
    { kind := "CollectFeeAction", nums := [bb, qb, (pool.conv f0 f1).1, (pool.conv f0 f1).2] }
  if isDry (collectPos K.cx p f0 f1) removeDry then { s2 with positions := erasePos s2.positions lower upper } else s2

/-- `__collect_fee` + the rest of `collect_fee` -/
def collect (K : Kern) (pool : Pool) (s : State) (lower upper : Int) (max0? max1? : Option Rat)
    (removeDry toUser : Bool) : Res :=
  if negGiven max0? || negGiven max1? then fail .demeter s else
  match findPos s.positions lower upper with
  | none => fail .key s
  | some p =>
    if p.transferred then fail .demeter s else
    if !s.isOpen then fail .demeter s else
    match balanceOf (collectWallet K.cx pool s.wallet toUser (capAt max0? p.pending0) (capAt max1? p.pending1)) pool.baseTok,
          balanceOf (collectWallet K.cx pool s.wallet toUser (capAt max0? p.pending0) (capAt max1? p.pending1)) pool.quoteTok with
    | .ok bb, .ok qb =>
      (.ok [(pool.conv (capAt max0? p.pending0) (capAt max1? p.pending1)).1, (pool.conv (capAt max0? p.pending0) (capAt max1? p.pending1)).2],
        collectFinish K pool s lower upper p (capAt max0? p.pending0) (capAt max1? p.pending1) removeDry toUser bb qb)
    | .error e, _ => (.error e, collectCore K pool s lower upper p (capAt max0? p.pending0) (capAt max1? p.pending1) toUser)
    | _, .error e => (.error e, collectCore K pool s lower upper p (capAt max0? p.pending0) (capAt max1? p.pending1) toUser)

/-- `liquidity and liquidity < 0` -/
def negLiq : Option Int → Bool
  | some l => decide (l < 0)
  | none => false

def isTransferred (ps : List Pos) (lower upper : Int) : Bool :=
  match findPos ps lower upper with
  | some p => p.transferred
  | none => false

/-- `delta_liquidity` and whether it is a Decimal -/
def removeDelta : Option Int → Pos → Int × Bool
  | some l, p => if l < p.liq then (l, true) else (p.liq, p.liqDec)
  | none, p => (p.liq, p.liqDec)

/-- the position after `__remove_liquidity` -/
def removePos (cx : NumCtx) (p : Pos) (delta : Int) (deltaDec : Bool) (g0 g1 : Rat) : Pos :=
  { p with liq := p.liq - delta, liqDec := p.liqDec || deltaDec,
           pending0 := cx.add p.pending0 g0, pending1 := cx.add p.pending1 g1 }

/-- state right after `__remove_liquidity` -/
def removeCore (K : Kern) (s : State) (lower upper : Int) (p : Pos) (delta : Int) (deltaDec : Bool) (g0 g1 : Rat) : State :=
  markUpdate { s with positions := mapPos s.positions lower upper (fun _ => removePos K.cx p delta deltaDec g0 g1) }

def removeAct (pool : Pool) (p' : Pos) (delta : Int) (g0 g1 bb qb : Rat) : Act :=
  { kind := "RemoveLiquidityAction",
    nums := [bb, qb, (pool.conv g0 g1).1, (pool.conv g0 g1).2, (delta : Rat), (p'.liq : Rat)] }

/-- `remove_liquidity` up to (and including) the action record: `__remove_liquidity` + `RemoveLiquidityAction`.
    The `int` liquidity argument reaches the code as a `Decimal` (float_param_formatter). -/
def removeNoCollect (K : Kern) (pool : Pool) (s : State) (lower upper : Int) (liq? : Option Int) (sqrt? : Option Nat) : Res :=
  if negLiq liq? then fail .demeter s else
  if isTransferred s.positions lower upper then fail .demeter s else
  if !s.isOpen then fail .demeter s else
  match resolveSqrt K pool s sqrt? with
  | .error e => fail e s
  | .ok sqrt =>
    match findPos s.positions lower upper with
    | none => fail .key s
    | some p =>
      match K.amounts pool sqrt lower upper (removeDelta liq? p).1 (removeDelta liq? p).2 with
      | .error e => fail e s
      | .ok (g0, g1) =>
        match balanceOf s.wallet pool.baseTok, balanceOf s.wallet pool.quoteTok with
        | .ok bb, .ok qb =>
          (.ok [(pool.conv g0 g1).1, (pool.conv g0 g1).2],
            record (removeCore K s lower upper p (removeDelta liq? p).1 (removeDelta liq? p).2 g0 g1)
              (removeAct pool (removePos K.cx p (removeDelta liq? p).1 (removeDelta liq? p).2 g0 g1) (removeDelta liq? p).1 g0 g1 bb qb))
        | .error e, _ => (.error e, removeCore K s lower upper p (removeDelta liq? p).1 (removeDelta liq? p).2 g0 g1)
        | _, .error e => (.error e, removeCore K s lower upper p (removeDelta liq? p).1 (removeDelta liq? p).2 g0 g1)

/-- `remove_liquidity(position, liquidity, collect, sqrt_price_x96, remove_dry_pool)`:
    `if collect: return self.collect_fee(position, remove_dry_pool=remove_dry_pool)` -/
def remove (K : Kern) (pool : Pool) (s : State) (lower upper : Int) (liq? : Option Int) (doCollect : Bool)
    (sqrt? : Option Nat) (removeDry : Bool) : Res :=
  match removeNoCollect K pool s lower upper liq? sqrt? with
  | (.error e, s') => (.error e, s')
  | (.ok v, s2) => if doCollect then collect K pool s2 lower upper none none removeDry true else (.ok v, s2)

/-- `remove_all_liquidity`: `remove_liquidity(key)` for every key that is not transferred out, in dict order;
    stops at the first exception -/
def removeAllLoop (K : Kern) (pool : Pool) : List (Int × Int) → State → Res
  | [], s => (.ok [], s)
  | (lo, up) :: ks, s =>
    match remove K pool s lo up none true none true with
    | (.error e, s') => (.error e, s')
    | (.ok _, s') => removeAllLoop K pool ks s'

def removeAll (K : Kern) (pool : Pool) (s : State) : Res :=
  removeAllLoop K pool ((s.positions.filter (fun p => !p.transferred)).map (fun p => (p.lower, p.upper))) s

/-! ### swaps -/

/-- the execution price of `swap`: the given one, else the market price (base → quote) or its reciprocal -/
def swapPrice (K : Kern) (pool : Pool) (s : State) (fromTok : String) : Option Rat → Except Err Rat
  | some p => .ok p
  | none => match priceOf s with
    | .error e => .error e
    | .ok mp => if fromTok == pool.baseTok then .ok mp
                else if mp = 0 then .error .divByZero else .ok (K.cx.div 1 mp)

/-- `swap(from_amount, from_token, to_token, price, throw_action)`; `price = 0` counts as "not given" (`if price`).
    A negative amount is refused (it would run the swap backwards without a fee). -/
def swap (K : Kern) (pool : Pool) (s : State) (amount : Rat) (fromTok toTok : String) (price? : Option Rat)
    (log : Bool) : Except Err (Rat × Rat) × State :=
  if fromTok == toTok then (.error .demeter, s) else
  if !(fromTok == pool.quoteTok || fromTok == pool.baseTok) || !(toTok == pool.quoteTok || toTok == pool.baseTok)
  then (.error .demeter, s) else
  if amount < 0 then (.error .demeter, s) else
  match swapPrice K pool s fromTok (givenPrice price?) with
  | .error e => (.error e, s)
  | .ok price =>
    let fee := K.cx.mul amount pool.feeRate
    let toAmt := K.cx.mul (K.cx.sub amount fee) price
    match debit K.cx s.wallet fromTok amount s.allowNeg with
    | .error e => (.error e, s)
    | .ok w1 =>
      let s1 := { s with wallet := Wallet.credit K.cx w1 toTok toAmt }
      let s2 := if log then record s1 { kind := "SwapAction", nums := [amount, price, fee, toAmt] } else s1
      (.ok (fee, toAmt), s2)

/-- `buy(base_token_amount, price)` -/
def buy (K : Kern) (pool : Pool) (s : State) (amount : Rat) (price? : Option Rat) : Res :=
  if amount = 0 then (.ok [0, 0, 0], s) else
  match orMarketPrice s (givenPrice price?) with
  | .error e => fail e s
  | .ok price =>
    if K.cx.sub 1 pool.feeRate = 0 then fail .divByZero s else
    let qWithFee := K.cx.div (K.cx.mul amount price) (K.cx.sub 1 pool.feeRate)
    if price = 0 then fail .divByZero s else
    match swap K pool s qWithFee pool.quoteTok pool.baseTok (some (K.cx.div 1 price)) false with
    | (.error e, s') => (.error e, s')
    | (.ok (fee, got), s') =>
      match balanceOf s'.wallet pool.baseTok, balanceOf s'.wallet pool.quoteTok with
      | .ok bb, .ok qb =>
        (.ok [fee, qWithFee, got], record s' { kind := "BuyAction", nums := [bb, qb, amount, price, fee, got, qWithFee] })
      | .error e, _ => (.error e, s')
      | _, .error e => (.error e, s')

/-- `sell(base_token_amount, price)` -/
def sell (K : Kern) (pool : Pool) (s : State) (amount : Rat) (price? : Option Rat) : Res :=
  if amount = 0 then (.ok [0, 0, 0], s) else
  match orMarketPrice s (givenPrice price?) with
  | .error e => fail e s
  | .ok price =>
    match swap K pool s amount pool.baseTok pool.quoteTok (some price) false with
    | (.error e, s') => (.error e, s')
    | (.ok (fee, got), s') =>
      match balanceOf s'.wallet pool.baseTok, balanceOf s'.wallet pool.quoteTok with
      | .ok bb, .ok qb =>
        (.ok [fee, amount, got], record s' { kind := "SellAction", nums := [bb, qb, amount, price, fee, amount, got] })
      | .error e, _ => (.error e, s')
      | _, .error e => (.error e, s')

/-- `even_rebalance(price)` -/
def evenRebalance (K : Kern) (pool : Pool) (s : State) (price? : Option Rat) : Res :=
  match orMarketPrice s price? with
  | .error e => fail e s
  | .ok price =>
    match balanceOf s.wallet pool.quoteTok with
    | .error e => fail e s
    | .ok q =>
      match balanceOf s.wallet pool.baseTok with
      | .error e => fail e s
      | .ok b =>
        if price = 0 then fail (if q = 0 then .invalidOp else .divByZero) s else
        let qb := K.cx.div q price
        let deltaBase := K.cx.div (K.cx.sub qb b) (K.cx.add 2 pool.feeRate)
        if deltaBase ≥ 0 then
          match buy K pool s deltaBase none with
          | (.error e, s') => (.error e, s')
          | (.ok _, s') => (.ok [], s')
        else
          let deltaQuote := K.cx.div (K.cx.sub b qb) (K.cx.sub 2 pool.feeRate)
          if deltaQuote ≥ 0 then
            match sell K pool s deltaQuote none with
            | (.error e, s') => (.error e, s')
            | (.ok _, s') => (.ok [], s')
          else (.ok [], s)

/-! ### transfers -/

def transferOut (s : State) (lower upper : Int) : Res :=
  match findPos s.positions lower upper with
  | some p => if !p.transferred then
      (.ok [], { s with positions := mapPos s.positions lower upper (fun p => { p with transferred := true }) })
    else fail .demeter s
  | none => fail .demeter s

def transferIn (s : State) (lower upper : Int) : Res :=
  match findPos s.positions lower upper with
  | some p => if p.transferred then
      (.ok [], { s with positions := mapPos s.positions lower upper (fun p => { p with transferred := false }) })
    else fail .demeter s
  | none => fail .demeter s

end Demeter.Uni
