/-
  JSON form of `Op` and the handlers for operations and views.
-/
import Demeter.Uni.Json
import Demeter.Uni.Step
import Demeter.Uni.Kernel
import Demeter.Gen.ConstsUni
namespace Demeter.Uni
open Lean Demeter Demeter.Drv

def opOfJ (j : Json) : Except String Op := do
  let k ← jStr j "op"
  match k with
  | "add_raw" => pure (.addRaw (← jRat j "a0") (← jRat j "a1") (← jInt j "lower") (← jInt j "upper") (← jOptNat j "sqrt"))
  | "add_by_tick" => pure (.addByTick (← jInt j "lower") (← jInt j "upper") (← jOptRat j "base") (← jOptRat j "quote")
      (← jOptNat j "sqrt") (← jOptInt j "tick") (← jBool j "trim"))
  | "add" => pure (.addByPrice (← jRat j "lower_price") (← jRat j "upper_price") (← jInt j "lt") (← jInt j "ut")
      (← jOptRat j "quote") (← jOptRat j "base"))
  | "remove" => pure (.remove (← jInt j "lower") (← jInt j "upper") (← jOptInt j "liq") (← jBool j "collect")
      (← jOptNat j "sqrt") (← jBool j "remove_dry"))
  | "collect" => pure (.collect (← jInt j "lower") (← jInt j "upper") (← jOptRat j "max0") (← jOptRat j "max1")
      (← jBool j "remove_dry") (← jBool j "to_user"))
  | "remove_all" => pure .removeAll
  | "swap" => pure (.swap (← jRat j "amount") (← jStr j "from") (← jStr j "to") (← jOptRat j "price") (← jBool j "log"))
  | "buy" => pure (.buy (← jRat j "amount") (← jOptRat j "price"))
  | "sell" => pure (.sell (← jRat j "amount") (← jOptRat j "price"))
  | "even_rebalance" => pure (.evenRebalance (← jOptRat j "price"))
  | "add_by_value" => pure (.addByValue (← jInt j "lower") (← jInt j "upper") (← jOptRat j "value") (← jBool j "trim")
      { tickEst := ← jInt j "tick_est", ratioAmt := ← jRat j "ratio_amt" })
  | "transfer_out" => pure (.transferOut (← jInt j "lower") (← jInt j "upper"))
  | "transfer_in" => pure (.transferIn (← jInt j "lower") (← jInt j "upper"))
  | _ => throw s!"unknown op {k}"

def kernOfJ (j : Json) : Kern :=
  match j.getObjVal? "ctx" with
  | .ok (.str "exact") => Kern.std { rnd := id, dsqrt := dsqrt35 } (fun x => x * x)
  | _ => Kern.py

def balanceToJ (b : Balance) : Json :=
  Json.mkObj [("net_value", ratJ b.netValue), ("liquidity_value", ratJ b.liquidityValue),
    ("base_uncollected", ratJ b.baseUncollected), ("quote_uncollected", ratJ b.quoteUncollected),
    ("base_in_position", ratJ b.baseInPosition), ("quote_in_position", ratJ b.quoteInPosition),
    ("position_count", natJ b.positionCount)]

def exceptJ {α : Type} (f : α → Json) : Except Err α → Json
  | .ok a => Json.mkObj [("ok", f a)]
  | .error e => Json.mkObj [("error", .str e.name)]

def opHandlers : List (String × JHandler) := [
  ("uni.step", fun j => do
    let K := kernOfJ j
    let pool ← poolOfJ (← jObj j "pool")
    let s ← stateOfJ (← jObj j "state")
    let op ← opOfJ (← jObj j "op")
    let r := step K pool Gen.uniMinError s op
    match r.1 with
    | .ok v => pure (Json.mkObj [("outcome", .str "ok"), ("result", .arr (v.map ratJ).toArray), ("state", stateToJ r.2)])
    | .error e => pure (Json.mkObj [("outcome", .str e.name), ("state", stateToJ r.2)])),
  ("uni.balance", fun j => do
    let K := kernOfJ j
    let pool ← poolOfJ (← jObj j "pool")
    let s ← stateOfJ (← jObj j "state")
    pure (exceptJ balanceToJ (getMarketBalance K pool s))),
  ("uni.positionStatus", fun j => do
    let K := kernOfJ j
    let pool ← poolOfJ (← jObj j "pool")
    let s ← stateOfJ (← jObj j "state")
    pure (exceptJ (fun v => Json.arr (v.map ratJ).toArray) (getPositionStatus K pool s (← jInt j "lower") (← jInt j "upper")))),
  ("uni.estimateAmount", fun j => do
    let K := kernOfJ j
    let pool ← poolOfJ (← jObj j "pool")
    let s ← stateOfJ (← jObj j "state")
    pure (exceptJ (fun (v : Rat × Rat) => Json.arr #[ratJ v.1, ratJ v.2])
      (estimateAmount K pool s (← jRat j "value") (← jInt j "lower") (← jInt j "upper") (← jRat j "tick_real") (← jRat j "ratio_amt")))),
  ("uni.estimateLiquidity", fun j => do
    let K := kernOfJ j
    let pool ← poolOfJ (← jObj j "pool")
    let s ← stateOfJ (← jObj j "state")
    pure (exceptJ (fun (v : Int × Rat × Rat) => Json.arr #[intJ v.1, ratJ v.2.1, ratJ v.2.2])
      (estimateLiquidity K pool s (← jRat j "value") (← jInt j "lower") (← jInt j "upper") (← jInt j "est")
        (← jRat j "tick_real") (← jRat j "ratio_amt")))),
  ("uni.priceToSqrt", fun j => do
    let K := kernOfJ j
    let pool ← poolOfJ (← jObj j "pool")
    pure (exceptJ natJ (K.priceToSqrt pool (← jRat j "price")))),
  ("uni.tickToPrice", fun j => do
    let K := kernOfJ j
    let pool ← poolOfJ (← jObj j "pool")
    pure (exceptJ ratJ (K.tickToPrice pool (← jInt j "tick"))))
]

end Demeter.Uni
