/-
  Demeter.Uni.Step — one operation of the market's public interface as a value, and `step`.
-/
import Demeter.Uni.Views
namespace Demeter.Uni
open Demeter

inductive Op
  | addRaw (a0 a1 : Rat) (lower upper : Int) (sqrt? : Option Nat)
  | addByTick (lower upper : Int) (baseMax? quoteMax? : Option Rat) (sqrt? : Option Nat) (tick? : Option Int) (trim : Bool)
  | addByPrice (lowerP upperP : Rat) (lt ut : Int) (quoteMax? baseMax? : Option Rat)
  | remove (lower upper : Int) (liq? : Option Int) (collect : Bool) (sqrt? : Option Nat) (removeDry : Bool)
  | collect (lower upper : Int) (max0? max1? : Option Rat) (removeDry toUser : Bool)
  | removeAll
  | swap (amount : Rat) (fromTok toTok : String) (price? : Option Rat) (log : Bool)
  | buy (amount : Rat) (price? : Option Rat)
  | sell (amount : Rat) (price? : Option Rat)
  | evenRebalance (price? : Option Rat)
  | addByValue (lower upper : Int) (value? : Option Rat) (trim : Bool) (o : ByValueOracle)
  | transferOut (lower upper : Int)
  | transferIn (lower upper : Int)

def Op.tag : Op → String
  | .addRaw .. => "_add_liquidity_by_tick" | .addByTick .. => "add_liquidity_by_tick" | .addByPrice .. => "add_liquidity"
  | .remove .. => "remove_liquidity" | .collect .. => "collect_fee" | .removeAll => "remove_all_liquidity"
  | .swap .. => "swap" | .buy .. => "buy" | .sell .. => "sell" | .evenRebalance .. => "even_rebalance"
  | .addByValue .. => "add_liquidity_by_value" | .transferOut .. => "transfer_position_out"
  | .transferIn .. => "transfer_position_in"

/-- `minError` = helper.py's `MIN_ERROR` -/
def step (K : Kern) (pool : Pool) (minError : Rat) (s : State) : Op → Res
  | .addRaw a0 a1 lo up sq =>
    match addRaw K pool s a0 a1 lo up sq with
    | (.error e, s') => (.error e, s')
    | (.ok (l, u, u0, u1, liq), s') => (.ok [(l : Rat), (u : Rat), u0, u1, (liq : Rat)], s')
  | .addByTick lo up b q sq t trim => addByTick K pool s lo up b q sq t trim
  | .addByPrice lp up lt ut q b => addByPrice K pool s lp up lt ut q b
  | .remove lo up l c sq rd => remove K pool s lo up l c sq rd
  | .collect lo up m0 m1 rd tu => collect K pool s lo up m0 m1 rd tu
  | .removeAll => removeAll K pool s
  | .swap a f t p log =>
    match swap K pool s a f t p log with
    | (.error e, s') => (.error e, s')
    | (.ok (fee, got), s') => (.ok [fee, got], s')
  | .buy a p => buy K pool s a p
  | .sell a p => sell K pool s a p
  | .evenRebalance p => evenRebalance K pool s p
  | .addByValue lo up v trim o => addByValue K pool minError s lo up v trim o
  | .transferOut lo up => transferOut s lo up
  | .transferIn lo up => transferIn s lo up

/-- a list of operations executed one after the other; an exception does not stop the caller here (a strategy
    may catch it), the state simply is what the failing call left behind -/
def runOps (K : Kern) (pool : Pool) (minError : Rat) : State → List Op → State
  | s, [] => s
  | s, op :: ops => runOps K pool minError (step K pool minError s op).2 ops

end Demeter.Uni
