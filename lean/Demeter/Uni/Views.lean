/-
  Demeter.Uni.Views — read-only functions of `UniLpMarket` (valuation, position status, the estimate helpers)
  and `add_liquidity_by_value`, which is built from them plus `swap` and `add_liquidity_by_tick`.
-/
import Demeter.Uni.Ops
namespace Demeter.Uni
open Demeter

/-- `_get_value(amount0, amount1, pool_price) = base * price + quote` -/
def getValue (cx : NumCtx) (pool : Pool) (a0 a1 price : Rat) : Rat :=
  let (b, q) := pool.conv a0 a1
  cx.add (cx.mul b price) q

/-- `UniLpBalance` -/
structure Balance where
  netValue : Rat
  liquidityValue : Rat
  baseUncollected : Rat
  quoteUncollected : Rat
  baseInPosition : Rat
  quoteInPosition : Rat
  positionCount : Nat
deriving DecidableEq, Repr

/-- the accumulation loop of `get_market_balance` over the positions that are not transferred out:
    (base fee, quote fee, deposit0, deposit1) -/
def balanceLoop (K : Kern) (pool : Pool) (sqrt : Nat) :
    List Pos → (Rat × Rat × Rat × Rat) → Except Err (Rat × Rat × Rat × Rat)
  | [], acc => .ok acc
  | p :: ps, (bf, qf, d0, d1) =>
    if p.transferred then balanceLoop K pool sqrt ps (bf, qf, d0, d1) else
    let (pb, pq) := pool.conv p.pending0 p.pending1
    match K.amounts pool sqrt p.lower p.upper p.liq p.liqDec with
    | .error e => .error e
    | .ok (a0, a1) =>
      balanceLoop K pool sqrt ps (K.cx.add bf pb, K.cx.add qf pq, K.cx.add d0 a0, K.cx.add d1 a1)

/-- `get_market_balance()` -/
def getMarketBalance (K : Kern) (pool : Pool) (s : State) : Except Err Balance :=
  match priceOf s with
  | .error e => .error e
  | .ok price =>
    match K.priceToSqrt pool price with
    | .error e => .error e
    | .ok sqrt =>
      match balanceLoop K pool sqrt s.positions (0, 0, 0, 0) with
      | .error e => .error e
      | .ok (bf, qf, d0, d1) =>
        let (lb, lq) := pool.conv d0 d1
        let liqVal := K.cx.add (K.cx.mul lb price) (K.cx.mul lq 1)
        let feeVal := K.cx.add (K.cx.mul bf price) (K.cx.mul qf 1)
        .ok { netValue := K.cx.add feeVal liqVal, liquidityValue := liqVal, baseUncollected := bf,
              quoteUncollected := qf, baseInPosition := lb, quoteInPosition := lq,
              positionCount := (s.positions.filter (fun p => !p.transferred)).length }

/-- `get_position_amount(key)` -/
def getPositionAmount (K : Kern) (pool : Pool) (s : State) (lower upper : Int) : Except Err (Rat × Rat) :=
  match findPos s.positions lower upper with
  | none => .ok (0, 0)
  | some p =>
    match priceOf s with
    | .error e => .error e
    | .ok price =>
      match K.priceToSqrt pool price with
      | .error e => .error e
      | .ok sqrt => K.amounts pool sqrt lower upper p.liq p.liqDec

/-- `get_position_status(key)`: liquidity, liq amounts, liq value, pending amounts, pending value, total amounts,
    total value, H, L, P -/
def getPositionStatus (K : Kern) (pool : Pool) (s : State) (lower upper : Int) : Except Err (List Rat) :=
  match findPos s.positions lower upper with
  | none => .error .assertion
  | some p =>
    match priceOf s with
    | .error e => .error e
    | .ok price =>
      match getPositionAmount K pool s lower upper with
      | .error e => .error e
      | .ok (l0, l1) =>
        let a0 := K.cx.add l0 p.pending0
        let a1 := K.cx.add l1 p.pending1
        if p.initPrice = 0 then .error (if p.upperPrice = 0 then .invalidOp else .divByZero) else
        .ok [(p.liq : Rat), l0, l1, getValue K.cx pool l0 l1 price, p.pending0, p.pending1,
             getValue K.cx pool p.pending0 p.pending1 price, a0, a1, getValue K.cx pool a0 a1 price,
             K.cx.div p.upperPrice p.initPrice, K.cx.div p.lowerPrice p.initPrice, K.cx.div price p.initPrice]

/-- `estimate_amount(value, lower, upper)`; oracles: `tickReal = base_unit_price_to_real_tick(price)` (the exact
    value of the float) and `ratioAmt = Decimal(estimate_ratio(tickReal, lower, upper) * 10 ** (d1 - d0))` -/
def estimateAmount (K : Kern) (pool : Pool) (s : State) (value : Rat) (lower upper : Int)
    (tickReal : Rat) (ratioAmt : Rat) : Except Err (Rat × Rat) :=
  match priceOf s with
  | .error e => .error e
  | .ok price =>
    if !(decide ((lower : Rat) < tickReal) && decide (tickReal < (upper : Rat))) then .error .demeter else
    if pool.q0 && price = 0 then .error (if ratioAmt = 0 then .invalidOp else .divByZero) else
    let rv := if pool.q0 then K.cx.div ratioAmt price else K.cx.mul ratioAmt price
    if K.cx.add rv 1 = 0 then .error (if value = 0 then .invalidOp else .divByZero) else
    let v1 := K.cx.div value (K.cx.add rv 1)
    let v0 := K.cx.sub value v1
    if price = 0 then .error .divByZero else
    let a0 := if pool.q0 then v0 else K.cx.div v0 price
    let a1 := if !pool.q0 then v1 else K.cx.div v1 price
    .ok (a0, a1)

/-- `Decimal // int`: the integer part of the exact quotient; more than 35 digits → InvalidOperation -/
def decFloorDiv (a : Rat) (b : Rat) : Except Err Int :=
  if b = 0 then .error (if a = 0 then .invalidOp else .divByZero) else
  let q := truncInt (a / b)
  if q.natAbs ≥ pow10 35 then .error .invalidOp else .ok q

/-- `estimate_liquidity(value, position)` (repaired: the one-sided branches follow the token order).
    oracles: `est` = the float log estimate inside `sqrt_price_x96_to_tick`; `tickReal`, `ratioAmt` as above. -/
def estimateLiquidity (K : Kern) (pool : Pool) (s : State) (value : Rat) (lower upper : Int)
    (est : Int) (tickReal : Rat) (ratioAmt : Rat) : Except Err (Int × Rat × Rat) :=
  match priceOf s with
  | .error e => .error e
  | .ok price =>
    match K.priceToSqrt pool price with
    | .error e => .error e
    | .ok sqrt =>
      let cur := tickOfSqrt 64 est sqrt
      match K.tickToSqrt lower, K.tickToSqrt upper with
      | .error e, _ => .error e
      | _, .error e => .error e
      | .ok ls, .ok us =>
        let (sa, sb) := sortPair ls us
        if cur ≤ lower then
          -- entirely token0
          if !pool.q0 && price = 0 then .error (if value = 0 then .invalidOp else .divByZero) else
          let a0 := if pool.q0 then value else K.cx.div value price
          let inter := mulDiv sa sb Q96
          match decFloorDiv (K.cx.mul (K.cx.mul a0 ((pow10 pool.d0 : Nat) : Rat)) (inter : Rat)) (((sb - sa : Nat) : Rat)) with
          | .error e => .error e
          | .ok l => .ok (l, a0, 0)
        else if cur ≥ upper then
          -- entirely token1
          if pool.q0 && price = 0 then .error (if value = 0 then .invalidOp else .divByZero) else
          let a1 := if pool.q0 then K.cx.div value price else value
          match decFloorDiv (K.cx.mul (K.cx.mul a1 ((pow10 pool.d1 : Nat) : Rat)) q96R') (((sb - sa : Nat) : Rat)) with
          | .error e => .error e
          | .ok l => .ok (l, 0, a1)
        else
          match estimateAmount K pool s value lower upper tickReal ratioAmt with
          | .error e => .error e
          | .ok (a0, a1) =>
            match K.newPos pool sqrt lower upper a0 a1 with
            | .error e => .error e
            | .ok (_, _, l) => .ok (l, a0, a1)
where q96R' : Rat := ((Q96 : Nat) : Rat)

/-- `get_swap_value_with_part_balance_used(from_val, to_val, total_after, fee_rate, final_ratio)` -/
def swapValuePart (cx : NumCtx) (fromV toV total fee ratio : Rat) : Except Err (Rat × Rat × Rat) :=
  if total > cx.add fromV toV then .error .demeter else
  let den := cx.add (cx.sub ratio (cx.mul ratio fee)) 1
  let num := cx.sub (cx.sub total (cx.mul ratio toV)) toV
  if den = 0 then .error (if num = 0 then .invalidOp else .divByZero) else
  let swapV := cx.div num den
  let noFee := cx.sub total (cx.mul swapV fee)
  if cx.add ratio 1 = 0 then .error (if noFee = 0 then .invalidOp else .divByZero) else
  let toAfter := cx.div noFee (cx.add ratio 1)
  .ok (cx.sub noFee toAfter, toAfter, swapV)

/-- `MIN_ERROR` of helper.py is a generated constant; passed in so that this file stays free of Gen imports -/
structure ByValueOracle where
  /-- `base_unit_price_to_tick(price)` before `nearest_usable_tick` -/
  tickEst : Int
  /-- `Decimal(estimate_ratio(tick, lower, upper) * 10 ** (d1 - d0))` -/
  ratioAmt : Rat

/-- `if cond: fee, _ = self.swap(amount, from, to)`, otherwise fee 0 -/
def optSwapFee (K : Kern) (pool : Pool) (s : State) (doIt : Bool) (amount : Rat) (fromTok toTok : String) :
    Except Err Rat × State :=
  if doIt then
    match swap K pool s amount fromTok toTok none true with
    | (.error e, s') => (.error e, s')
    | (.ok (fee, _), s') => (.ok fee, s')
  else (.ok 0, s)

/-- the rebalancing swap of the in-range branches: `swap(v, quote, base)` or `swap(v / price, base, quote)` -/
def swapValue (K : Kern) (pool : Pool) (s : State) (quoteToBase : Bool) (v price : Rat) : Except Err (Rat × Rat) × State :=
  if quoteToBase then swap K pool s v pool.quoteTok pool.baseTok none true
  else if price = 0 then (.error .divByZero, s)
  else swap K pool s (K.cx.div v price) pool.baseTok pool.quoteTok none true

/-- `base_value, quote_value = _convert_pair(v0, v1); add_liquidity_by_tick(lower, upper, base_value / price, quote_value)` -/
def addValues (K : Kern) (pool : Pool) (s : State) (lower upper : Int) (price t0v t1v : Rat) : Res :=
  if price = 0 then fail .divByZero s else
  addByTick K pool s lower upper (some (K.cx.div (pool.conv t0v t1v).1 price)) (some (pool.conv t0v t1v).2) none none true

/-- the branch of `add_liquidity_by_value` with the price inside the range -/
def addByValueInRange (K : Kern) (pool : Pool) (s : State) (lower upper tick : Int) (price value ratioAmt : Rat) : Res :=
  let cx := K.cx
  if !(lower < tick && tick < upper) then fail .demeter s else
  if pool.q0 && price = 0 then fail .divByZero s else
  let rv := if pool.q0 then cx.div ratioAmt price else cx.mul ratioAmt price
  if cx.add rv 1 = 0 then fail .divByZero s else
  let v1 := cx.div value (cx.add rv 1)
  let v0 := cx.sub value v1
  match balanceOf s.wallet pool.tok0, balanceOf s.wallet pool.tok1 with
  | .error e, _ => fail e s
  | _, .error e => fail e s
  | .ok b0, .ok b1 =>
    let bv0 := cx.mul b0 (pool.conv price 1).1
    let bv1 := cx.mul b1 (pool.conv price 1).2
    if v0 ≤ bv0 && v1 ≤ bv1 then addValues K pool s lower upper price v0 v1
    else if v0 > bv0 && v1 > bv1 then fail .demeter s
    else if v0 < bv0 && v1 > bv1 then
      match swapValuePart cx bv0 bv1 value pool.feeRate rv with
      | .error e => fail e s
      | .ok (a0, a1, sv) =>
        match swapValue K pool s pool.q0 sv price with
        | (.error e, s') => (.error e, s')
        | (.ok _, s') => addValues K pool s' lower upper price a0 a1
    else if v0 > bv0 && v1 < bv1 then
      if rv = 0 then fail .divByZero s else
      match swapValuePart cx bv1 bv0 value pool.feeRate (cx.div 1 rv) with
      | .error e => fail e s
      | .ok (a1, a0, sv) =>
        match swapValue K pool s (!pool.q0) sv price with
        | (.error e, s') => (.error e, s')
        | (.ok _, s') => addValues K pool s' lower upper price a0 a1
    else fail .notImpl s

/-- `add_liquidity_by_value(lower, upper, value_to_use, trim_tick)` -/
def addByValue (K : Kern) (pool : Pool) (minError : Rat) (s : State) (lower upper : Int) (value? : Option Rat)
    (trim : Bool) (o : ByValueOracle) : Res :=
  let lower := if trim then nearestUsable lower pool.spacing else lower
  let upper := if trim then nearestUsable upper pool.spacing else upper
  match priceOf s with
  | .error e => fail e s
  | .ok price =>
    let tick := nearestUsable o.tickEst pool.spacing
    match balanceOf s.wallet pool.quoteTok with
    | .error e => fail e s
    | .ok qBal =>
      match balanceOf s.wallet pool.baseTok with
      | .error e => fail e s
      | .ok bBal =>
        let cx := K.cx
        let balance := cx.add qBal (cx.mul bBal price)
        let value := match value? with | some v => v | none => balance
        if value > balance then fail .demeter s else
        if lower ≥ upper then fail .demeter s else
        if (pool.q0 && tick > upper) || (!pool.q0 && tick < lower) then
          -- all base
          if price = 0 then fail (if value = 0 then .invalidOp else .divByZero) s else
          let baseAmt := cx.div value price
          let diff := cx.sub baseAmt bBal
          match optSwapFee K pool s (diff > minError) (cx.mul diff price) pool.quoteTok pool.baseTok with
          | (.error e, s') => (.error e, s')
          | (.ok feeQ, s') =>
            addByTick K pool s' lower upper (some (cx.sub baseAmt (cx.div feeQ price))) (some 0) none none true
        else if (pool.q0 && tick < lower) || (!pool.q0 && tick > upper) then
          -- all quote
          let diff := cx.sub value qBal
          if diff > 0 && price = 0 then fail .divByZero s else
          match optSwapFee K pool s (diff > 0) (cx.div diff price) pool.baseTok pool.quoteTok with
          | (.error e, s') => (.error e, s')
          | (.ok feeB, s') =>
            addByTick K pool s' lower upper (some 0) (some (cx.sub value (cx.mul feeB price))) none none true
        else addByValueInRange K pool s lower upper tick price value o.ratioAmt

end Demeter.Uni
