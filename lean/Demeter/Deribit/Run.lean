/-
  Demeter.Deribit.Run — the slice of `Actuator.run` (core/actuator.py) that a Deribit market sees in one bar:
    set_market_status (is_open flag, book of the bar's hour, price)  →  strategy operations  →
    second set_market_status iff a write_func succeeded (has_update)  →  update() (expiry on the hourly grid)  →
    get_market_balance() for the account row.
-/
import Demeter.Deribit
namespace Demeter.Deribit
open Demeter

/-- what the data frames give the market at one bar -/
structure Bar where
  now      : Int            -- timestamp, minutes
  flagOpen : Bool           -- `timestamp in market._data.index`
  book     : List Instr     -- `_data.loc[timestamp.floor("1h")]` (empty when the hour is missing)
  price    : Rat            -- `token_prices.loc[timestamp][token]`
  priceDec : Bool           -- Decimal (through `Actuator.set_price`) or float
  ops      : List Op        -- what the strategy does in `on_bar`
deriving Repr

/-- `set_market_status` with `data.data is None` -/
def setStatus (s : DState) (b : Bar) : DState :=
  { s with now := b.now, flagOpen := b.flagOpen, book := b.book, price := b.price, priceDec := b.priceDec }

/-- does a successful call set `has_update`? only `write_func`s (buy, sell) do -/
def Op.isWrite : Op → Bool
  | .buy _ => true
  | .sell _ => true
  | _ => false

/-- the strategy's calls; exceptions are caught by the caller; returns outcomes, state, has_update -/
def runOpsO (cx : DCtx) (c : TokenCfg) : DState → List Op → List Outcome × DState × Bool
  | s, [] => ([], s, false)
  | s, o :: os =>
    let (r, s') := step cx c s o
    let (rs, s'', u) := runOpsO cx c s' os
    (r :: rs, s'', u || (o.isWrite && r.toBool))

structure BarResult where
  outcomes : List Outcome
  state    : DState
  balance  : Option Balance

def runBar (cx : DCtx) (c : TokenCfg) (s : DState) (b : Bar) : BarResult :=
  let s1 := setStatus s b
  let (outs, s2, upd) := runOpsO cx c s1 b.ops
  let s3 := if upd then setStatus s2 b else s2
  let s4 := update cx c s3
  let (o, s5) := getMarketBalance cx c s4
  { outcomes := outs, state := s5,
    balance := match o with
      | .ok (.balance bal) => bal
      | _ => none }

/-- The bar with the strategy's other hooks: `b.ops` are the calls made in `before_bar` / `on_bar` (before `update()`), `after` the
    calls made in `after_bar` (after `update()`, before the bar's account row), `notify` the calls made from `Strategy.notify`, which
    runs after the account row and only when the bar recorded at least one action. -/
def runBarX (cx : DCtx) (c : TokenCfg) (s : DState) (b : Bar) (after notify : List Op) : BarResult :=
  let s1 := setStatus s b
  let (outs, s2, upd) := runOpsO cx c s1 b.ops
  let s3 := if upd then setStatus s2 b else s2
  let s4 := update cx c s3
  let (outsA, s4a, _) := runOpsO cx c s4 after
  let (o, s5) := getMarketBalance cx c s4a
  let fire := s5.actions.length != s.actions.length
  let (outsN, s6, _) := if fire then runOpsO cx c s5 notify else ([], s5, false)
  { outcomes := outs ++ outsA ++ outsN, state := s6,
    balance := match o with
      | .ok (.balance bal) => bal
      | _ => none }

/-- before the loop `Actuator.run` sets the first bar's status and takes the initial account status
    (which caches the market balance when the first bar is on the hourly grid) -/
def runInit (cx : DCtx) (c : TokenCfg) (s : DState) (b : Bar) : DState :=
  (getMarketBalance cx c (setStatus s b)).2

/-- the loop proper -/
def runBars (cx : DCtx) (c : TokenCfg) : DState → List Bar → DState
  | s, [] => s
  | s, b :: bs => runBars cx c (runBar cx c s b).state bs

/-- `Actuator.run` as this market sees it -/
def runAll (cx : DCtx) (c : TokenCfg) (s : DState) (bs : List Bar) : DState :=
  match bs with
  | [] => s
  | b :: _ => runBars cx c (runInit cx c s b) bs

end Demeter.Deribit
