/-
  Demeter.Deribit.Frame — where a bar's `is_open` flag and book come from: the market's option frame `_data`, indexed by
  (time, instrument_name).
    * `Market.set_market_status`:            `self.is_open = data.timestamp in self._data.index` (level 0 of the index)
    * `DeribitOptionMarket.set_market_status`: `tmr_idx = timestamp.floor("1h")`; the book is `_data.loc[tmr_idx]` when that hour is in
      the index and an empty frame otherwise.
  (For an interval above one hour `_data` is the resampled frame; its timestamps are the coarse bars that kept at least one row.)
-/
import Demeter.Deribit.Run
namespace Demeter.Deribit
open Demeter

/-- `_data`: the rows (instrument order) carried by each timestamp, minutes -/
abbrev Frame := List (Int × List Instr)

/-- `_data.loc[t]`: every row whose time index is `t` -/
def Frame.rows (d : Frame) (t : Int) : List Instr := (d.filter (fun r => r.1 == t)).flatMap (fun r => r.2)

/-- `t in _data.index`: some row carries the timestamp -/
def Frame.has (d : Frame) (t : Int) : Bool := !(d.rows t).isEmpty

/-- `timestamp.floor("1h")` -/
def floorHour (t : Int) : Int := t - t % (Gen.deribitFreqMinutes : Int)

/-- the bar `set_market_status(timestamp, data=None)` makes of the frame -/
def barOfFrame (d : Frame) (now : Int) (price : Rat) (priceDec : Bool) (ops : List Op) : Bar :=
  { now := now, flagOpen := d.has now, book := d.rows (floorHour now), price := price, priceDec := priceDec, ops := ops }

end Demeter.Deribit
