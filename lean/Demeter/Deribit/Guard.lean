/-
  Demeter.Deribit.Guard — the raising path of `check_option_exercise`.

  `_deliver_option` divides the price difference by the underlying price.  `payoffRatio` (Demeter/Deribit.lean) writes that
  division with the total `/` of `Rat`; the code has no such totalisation: with an underlying price of 0
    * on a Decimal price (`InstrumentStatus(underlying_price=price[token])`, prices set through `Actuator.set_price`)
      `Decimal(diff) / Decimal(0)` raises `decimal.DivisionByZero` (the difference of an in-the-money position is not 0);
    * on a float (numpy) price the quotient is `inf` (a RuntimeWarning, no exception), `amount * Decimal(inf)` is `Infinity`, and
      `round_decimal` (`quantize`) raises `decimal.InvalidOperation`.
  The exception leaves `check_option_exercise` in the middle of its first loop: the due positions in front of the offending one
  have been paid and their Deliver records emitted, NOTHING has been removed (the removal loop is never reached), and the
  exception propagates out of `update()` (and ends `Actuator.run`).

  `exerciseE` / `updateE` / `stepE` are `exercise` / `update` / `step` with exactly that behaviour; the driver answers with them.
  `exercise` is the path on which nothing raises (`Proofs/C16/Guard.lean`: `C16_update_total_iff_guard`).
-/
import Demeter.Deribit
namespace Demeter.Deribit
open Demeter

/-- what the division of `_deliver_option` raises for this quote, if anything -/
def payoffErr (q : Quote) : Option Err :=
  if q.under = 0 then some (if q.dec then .divisionByZero else .invalidOperation) else none

/-- what settling position `p` raises: only an in-the-money position reaches `_deliver_option` -/
def settleErr (s : DState) (p : Position) : Option Err :=
  let q := settleQuote s p.name
  match itm p q.under with
  | none => none
  | some _ => payoffErr q

/-- the positions the first loop gets through before it raises, and the exception: `none` when it does not raise -/
def raisesAt (s : DState) : List (String × Position) → Option (List (String × Position) × Err)
  | [] => none
  | (k, p) :: ps =>
    match (if s.now ≥ p.expiry then settleErr s p else none) with
    | some e => some ([], e)
    | none =>
      match raisesAt s ps with
      | some (pre, e) => some ((k, p) :: pre, e)
      | none => none

/-- `check_option_exercise` with the exception of the payoff division: the state left behind is the first loop's work on the
    positions in front of the offending one — cash and Deliver records — with every position still there -/
def exerciseE (cx : DCtx) (c : TokenCfg) (s : DState) : Outcome × DState :=
  match raisesAt s s.positions with
  | none => (.ok .unit, exercise cx c s)
  | some (pre, e) =>
    let r := exerciseLoop cx c s pre (s.cash, s.actions, [])
    (.error e, { s with cash := r.1, actions := r.2.1 })

/-- `update()` -/
def updateE (cx : DCtx) (c : TokenCfg) (s : DState) : Outcome × DState :=
  if s.onGrid then exerciseE cx c s else (.ok .unit, s)

/-- one operation, `update()` with its exception -/
def stepE (cx : DCtx) (c : TokenCfg) (s : DState) : Op → Outcome × DState
  | .update => updateE cx c s
  | o => step cx c s o

end Demeter.Deribit
