/-
  Demeter.AaveRisk — risk logic and liquidation of the Aave v3 market (component `aaverisk`, properties C11 and C12).
-/
import Demeter.AaveRisk.Basic
import Demeter.AaveRisk.Liquidate
import Demeter.AaveRisk.Ops
