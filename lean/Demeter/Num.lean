/-
  Demeter.Num — number helpers shared by every model file (core Lean only).

  * `Rat` is the value domain of Python's `decimal.Decimal`; the rounding that CPython applies after
    every `+ − × ÷` under `getcontext().prec = 35` is `round35` (round-half-even to 35 significant digits).
  * `NumCtx` carries that rounding as a parameter: `NumCtx.exact` (identity) is what the theorems talk
    about, `NumCtx.py` is what the driver runs so that its answers coincide with CPython's.
  * decimal strings ⇄ `Rat`, IEEE-754 binary64 ⇄ `Rat`.
-/
namespace Demeter

/-- `10 ^ k` -/
@[inline] def pow10 (k : Nat) : Nat := 10 ^ k

/-- floor(log10 n) for n > 0 (0 for n = 0) -/
def ilog10 (n : Nat) : Nat :=
  if n = 0 then 0 else
  let k := (n.log2 * 1233) / 4096
  if pow10 (k + 1) ≤ n then k + 1 else k

/-- number of decimal digits of `n` (1 for 0, as Python's `len(str(n))`) -/
def ndigits (n : Nat) : Nat := ilog10 n + 1

/-- round-half-even of the non-negative rational `n / d` (d > 0) to an integer -/
def roundHalfEvenNat (n d : Nat) : Nat :=
  let q := n / d
  let r := n % d
  if 2 * r < d then q
  else if 2 * r > d then q + 1
  else if q % 2 = 0 then q else q + 1

/-- round-half-up (away from zero on ties) of `n / d` -/
def roundHalfUpNat (n d : Nat) : Nat :=
  let q := n / d
  let r := n % d
  if 2 * r < d then q else q + 1

/-- scale `n/d` by `10^(-e)`: returns numerator and denominator of `(n/d) / 10^e` for integer `e` -/
@[inline] def scale10 (n d : Nat) (e : Int) : Nat × Nat :=
  if e ≥ 0 then (n, d * pow10 e.toNat) else (n * pow10 (-e).toNat, d)

/-- exponent `e` such that `10^(p-1) ≤ (n/d) / 10^e < 10^p`, for `n, d > 0`. -/
def sigExp (p : Nat) (n d : Nat) : Int :=
  -- |x| lies in [10^(a-b-1), 10^(a-b+1)) where a, b are the digit counts of n and d
  let e0 : Int := (ndigits n : Int) - (ndigits d : Int) - (p : Int)
  -- candidate e0 gives (n/d)/10^e0 in [10^(p-1), 10^(p+1)); fix by comparing with 10^p
  let (sn, sd) := scale10 n d e0
  if sn ≥ sd * pow10 p then e0 + 1 else e0

/-- round-half-even to `p` significant decimal digits — the rounding of `decimal.Decimal` arithmetic. -/
def roundSig (p : Nat) (x : Rat) : Rat :=
  if x.num = 0 then 0 else
  let n := x.num.natAbs
  let d := x.den
  let e := sigExp p n d
  let (sn, sd) := scale10 n d e
  let q := roundHalfEvenNat sn sd
  let m : Rat := if e ≥ 0 then ((q * pow10 e.toNat : Nat) : Rat) else mkRat q (pow10 (-e).toNat)
  if x.num < 0 then -m else m

/-- Python's process-wide decimal precision, set by `import demeter` (uniswap/helper.py). -/
def round35 (x : Rat) : Rat := roundSig 35 x

/-- floor of the square root of a non-negative rational scaled to `p` significant digits, correctly
    rounded half-even: `Decimal.sqrt` under precision `p`. The exact square root is either rational
    with a short expansion or irrational, so a tie cannot occur unless exact. -/
def sqrtSig (p : Nat) (x : Rat) : Rat :=
  if x.num ≤ 0 then 0 else
  let n := x.num.natAbs
  let d := x.den
  -- choose an even-power scaling 10^(2k) so that sqrt(n/d * 10^(2k)) has at least p+2 digits
  let a : Int := (ndigits n : Int) - (ndigits d : Int)
  let k : Int := (p : Int) + 2 - a / 2
  let (sn, sd) := scale10 n d (-(2 * k))
  -- s = floor(sqrt(sn/sd)) ; exactness flag
  let t := sn / sd
  let s := Nat.sqrt t
  let exact := (s * s * sd == sn)
  -- represent sqrt(x) ≈ (s + δ) / 10^k with 0 ≤ δ < 1; sticky bit if not exact
  -- round (2s + (if exact then 0 else 1)) / 2 / 10^k to p digits: sticky makes it never a tie unless exact
  let num2 : Nat := 2 * s + (if exact then 0 else 1)
  let y : Rat := if k ≥ 0 then mkRat num2 (2 * pow10 k.toNat) else ((num2 * pow10 (-k).toNat : Nat) : Rat) / 2
  roundSig p y

def dsqrt35 (x : Rat) : Rat := sqrtSig 35 x

/-- The arithmetic context: what happens to the exact result of every Decimal operation. -/
structure NumCtx where
  rnd   : Rat → Rat
  dsqrt : Rat → Rat

/-- context used by the driver: CPython `Decimal` with `prec = 35` -/
def NumCtx.py : NumCtx := { rnd := round35, dsqrt := dsqrt35 }

namespace NumCtx
variable (cx : NumCtx)
@[inline] def add (a b : Rat) : Rat := cx.rnd (a + b)
@[inline] def sub (a b : Rat) : Rat := cx.rnd (a - b)
@[inline] def mul (a b : Rat) : Rat := cx.rnd (a * b)
@[inline] def div (a b : Rat) : Rat := cx.rnd (a / b)
end NumCtx

/-- `Decimal ** n` for a non-negative integer exponent as libmpdec computes it: left-to-right
    square-and-multiply under working precision `p + ndigits n + 2`, final rounding to `p`.  -/
def dpowNat (p : Nat) (x : Rat) (n : Nat) : Rat :=
  if n = 0 then 1 else
  let wp := p + ndigits n + 2
  let bits := n.log2   -- index of the top bit
  let rec go (i : Nat) (acc : Rat) : Rat :=
    match i with
    | 0 => acc
    | i + 1 =>
      let acc := roundSig wp (acc * acc)
      let acc := if n.testBit i then roundSig wp (acc * x) else acc
      go i acc
  roundSig p (go bits x)

/-! ### quantize -/

/-- `Decimal.quantize(Decimal(10) ** -k, ROUND_HALF_EVEN)` -/
def quantHalfEven (k : Nat) (x : Rat) : Rat :=
  let n := x.num.natAbs * pow10 k
  let q := roundHalfEvenNat n x.den
  let m := mkRat q (pow10 k)
  if x.num < 0 then -m else m

/-- `ROUND_HALF_UP` -/
def quantHalfUp (k : Nat) (x : Rat) : Rat :=
  let n := x.num.natAbs * pow10 k
  let q := roundHalfUpNat n x.den
  let m := mkRat q (pow10 k)
  if x.num < 0 then -m else m

/-- `ROUND_DOWN` (toward zero) -/
def quantDown (k : Nat) (x : Rat) : Rat :=
  let n := x.num.natAbs * pow10 k
  let m := mkRat (n / x.den) (pow10 k)
  if x.num < 0 then -m else m

/-- Python `int(x)` on a Decimal / Fraction: truncation toward zero -/
def truncInt (x : Rat) : Int := Int.tdiv x.num x.den

/-! ### decimal strings -/

private def digitsToNat (s : List Char) : Option Nat :=
  s.foldlM (fun acc c => if c.isDigit then some (acc * 10 + (c.toNat - '0'.toNat)) else none) 0

/-- parse `[-+]digits[.digits][(e|E)[-+]digits]` or `n/d` into a rational -/
def parseRat (s : String) : Option Rat :=
  match s.splitOn "/" with
  | [a, b] => do
    let n ← a.trimAscii.toString.toInt?
    let d ← b.trimAscii.toString.toNat?
    if d = 0 then none else some (mkRat n d)
  | [_] =>
    let cs := s.trimAscii.toString.toList
    let (neg, cs) := match cs with
      | '-' :: r => (true, r)
      | '+' :: r => (false, r)
      | r => (false, r)
    let (mant, exp) := match cs.span (fun c => c != 'e' && c != 'E') with
      | (m, []) => (m, ([] : List Char))
      | (m, _ :: e) => (m, e)
    let (ip, fp) := match mant.span (· != '.') with
      | (i, []) => (i, ([] : List Char))
      | (i, _ :: f) => (i, f)
    if ip.isEmpty && fp.isEmpty then none else do
    let iv ← digitsToNat ip
    let fv ← digitsToNat fp
    let ev : Int ← if exp.isEmpty then some 0 else (String.ofList exp).toInt?
    let m : Nat := iv * pow10 fp.length + fv
    let e : Int := ev - fp.length
    let r : Rat := if e ≥ 0 then ((m * pow10 e.toNat : Nat) : Rat) else mkRat m (pow10 (-e).toNat)
    some (if neg then -r else r)
  | _ => none

/-- does `d` have only prime factors 2 and 5? returns the smallest `k` with `d ∣ 10^k` -/
def decExp? (d : Nat) : Option Nat :=
  let rec strip (fuel d p c : Nat) : Nat × Nat :=
    match fuel with
    | 0 => (d, c)
    | fuel + 1 => if d % p = 0 && d > 1 then strip fuel (d / p) p (c + 1) else (d, c)
  let (d2, c2) := strip (d.log2 + 1) d 2 0
  let (d5, c5) := strip (d.log2 + 1) d2 5 0
  if d5 = 1 then some (max c2 c5) else none

/-- canonical printing: a plain decimal string without exponent or trailing zeros when the value is a
    terminating decimal, otherwise `n/d`. -/
def showRat (x : Rat) : String :=
  if x.den = 1 then toString x.num else
  match decExp? x.den with
  | some k =>
    let n := x.num.natAbs * (pow10 k / x.den)
    let ip := n / pow10 k
    let fp := n % pow10 k
    let fs := toString fp
    let fs := String.ofList (List.replicate (k - fs.length) '0') ++ fs
    (if x.num < 0 then "-" else "") ++ toString ip ++ "." ++ fs
  | none => toString x.num ++ "/" ++ toString x.den

/-! ### IEEE-754 binary64 ⇄ Rat -/

/-- exact rational value of a finite double; `none` for inf/nan -/
def floatToRat? (f : Float) : Option Rat :=
  let b := f.toBits.toNat
  let sign := b >>> 63
  let ex := (b >>> 52) % 2048
  let man := b % (2 ^ 52)
  if ex = 2047 then none else
  let (m, e) : Nat × Int := if ex = 0 then (man, -1074) else (man + 2 ^ 52, (ex : Int) - 1075)
  let r : Rat := if e ≥ 0 then ((m * 2 ^ e.toNat : Nat) : Rat) else mkRat m (2 ^ (-e).toNat)
  some (if sign = 1 then -r else r)

/-- nearest double (ties to even) of a rational; overflow gives ±inf -/
def ratToFloat (x : Rat) : Float :=
  if x.num = 0 then 0.0 else
  let n := x.num.natAbs
  let d := x.den
  -- find e with 2^52 ≤ n/d / 2^e < 2^53
  let e0 : Int := (n.log2 : Int) - (d.log2 : Int) - 52
  let sc (e : Int) : Nat × Nat := if e ≥ 0 then (n, d * 2 ^ e.toNat) else (n * 2 ^ (-e).toNat, d)
  let e1 : Int :=
    let (sn, sd) := sc e0
    if sn ≥ sd * 2 ^ 53 then e0 + 1 else if sn < sd * 2 ^ 52 then e0 - 1 else e0
  -- subnormals: exponent cannot go below -1074
  let e : Int := if e1 < -1074 then -1074 else e1
  let (sn, sd) := sc e
  let q := roundHalfEvenNat sn sd
  -- q may be 2^53 after rounding; Float.ofScientific is decimal so go through bits
  let (q, e) := if q = 2 ^ 53 then (2 ^ 52, e + 1) else (q, e)
  let bits : Nat :=
    if e + 1075 ≥ 2047 then 2047 * 2 ^ 52          -- inf
    else if q < 2 ^ 52 then q                         -- subnormal (e = -1074)
    else ((e + 1075).toNat) * 2 ^ 52 + (q - 2 ^ 52)
  let bits := if x.num < 0 then bits + 2 ^ 63 else bits
  Float.ofBits (UInt64.ofNat bits)

end Demeter
