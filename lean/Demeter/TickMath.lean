/-
  Demeter.TickMath — model of demeter/uniswap/liquitidy_math.py:get_sqrt_ratio_at_tick and of the tick helpers
  of demeter/uniswap/helper.py.  Integer arithmetic only; the multiplier table is generated from the source.
-/
import Demeter.Gen.TickTable
import Demeter.Num
namespace Demeter
open Gen

/-- the fold over the (mask, multiplier) table: `if abs_tick & mask != 0: ratio = (ratio * c) >> 128` -/
def tickFold (absTick : Nat) : List (Nat × Nat) → Nat → Nat
  | [], r => r
  | (mask, c) :: rest, r =>
    tickFold absTick rest (if absTick &&& mask != 0 then (r * c) >>> tickShift else r)

/-- Q128.128 ratio before the final round-up shift -/
def tickRatio (tick : Int) : Nat :=
  let a := tick.natAbs
  let r0 := if a &&& 1 != 0 then tickStartOdd else tickStartEven
  let r := tickFold a tickTable r0
  if tick > 0 then tickUintMax / r else r

/-- `get_sqrt_ratio_at_tick` (the code asserts `|tick| ≤ 887272`; callers of the model check `tickOk`) -/
def sqrtAt (tick : Int) : Nat :=
  let r := tickRatio tick
  (r >>> tickFinalShift) + (if r % tickFinalMod = 0 then 0 else 1)

def tickOk (tick : Int) : Bool := tick.natAbs ≤ tickBound

def minTick : Int := -(tickBound : Int)
def maxTick : Int := (tickBound : Int)

/-- What `sqrt_price_x96_to_tick` does with its float logarithm `est = math.log(sqrt_price, SQRT_1p0001)`:
    the repaired code floors the estimate and then corrects it by integer comparisons against
    `get_sqrt_ratio_at_tick`, so the result is the floor tick whatever the estimate was (within `fuel`). -/
def tickCorrectDown : Nat → Int → Nat → Int
  | 0, t, _ => t
  | fuel + 1, t, x => if t > minTick ∧ x < sqrtAt t then tickCorrectDown fuel (t - 1) x else t

def tickCorrectUp : Nat → Int → Nat → Int
  | 0, t, _ => t
  | fuel + 1, t, x => if t < maxTick ∧ sqrtAt (t + 1) ≤ x then tickCorrectUp fuel (t + 1) x else t

/-- clamp an estimate into the valid tick range -/
def clampTick (t : Int) : Int := if t < minTick then minTick else if t > maxTick then maxTick else t

def tickOfSqrt (fuel : Nat) (est : Int) (x : Nat) : Int :=
  let t0 := clampTick est
  let t1 := tickCorrectDown fuel t0 x
  tickCorrectUp fuel t1 x

/-- Python `round(a / b)` for integers with `b > 0`, assuming the float quotient is exact enough:
    round-half-even of the rational `a / b`. -/
def roundDivHalfEven (a : Int) (b : Nat) : Int :=
  let q := roundHalfEvenNat a.natAbs b
  if a < 0 then -(q : Int) else q

/-- `nearest_usable_tick` -/
def nearestUsable (tick : Int) (spacing : Nat) : Int :=
  let rounded := roundDivHalfEven tick spacing * spacing
  if rounded < minTick then rounded + spacing
  else if rounded > maxTick then rounded - spacing
  else rounded

end Demeter
