/-
  Demeter.Uni — model of the Uniswap v3 LP market (demeter/uniswap/market.py, core.py, helper.py).
-/
import Demeter.Uni.Basic
import Demeter.Uni.Fee
import Demeter.Uni.Json
import Demeter.Uni.Handlers
import Demeter.Uni.Kernel
import Demeter.Uni.Ops
import Demeter.Uni.Views
import Demeter.Uni.Step
import Demeter.Uni.OpJson
namespace Demeter.Uni
open Demeter.Drv

def jHandlers : List (String × JHandler) := feeHandlers ++ opHandlers

end Demeter.Uni
