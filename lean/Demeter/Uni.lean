/-
  Demeter.Uni — model of the Uniswap v3 LP market (demeter/uniswap/market.py, core.py, helper.py).
-/
import Demeter.Uni.Basic
import Demeter.Uni.Fee
import Demeter.Uni.Json
import Demeter.Uni.Handlers
namespace Demeter.Uni
open Demeter.Drv

def jHandlers : List (String × JHandler) := feeHandlers

end Demeter.Uni
