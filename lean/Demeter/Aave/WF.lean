/-
  Demeter.Aave.WF — the hypothesis of "`update()` never raises" as a *computable* check on one bar and one state, so that the
  harness can have it evaluated (by the driver, `aave_step` answers `wf` for every `update`) on every state it generates:

    * `envOKB`  : every token the bar lists has a price and a risk-table row, and non-zero indices;
    * `rowOKB`  : for one token: indices and price positive, LTV / liquidation threshold / bonus not negative;
    * `updWF`   : `envOKB`, every held token `rowOKB`, no negative scaled balance, a supply used as collateral has a positive
                  liquidation threshold.
-/
import Demeter.Aave.Basic
namespace Demeter.Aave
open Demeter

def rowOKB (env : Env) (k : String) : Bool :=
  match AList.get? env.status k, AList.get? env.price k, AList.get? env.risk k with
  | some st, some p, some r =>
    decide (0 < st.liqIdx) && decide (0 < st.varIdx) && decide (0 < p) && decide (0 ≤ r.ltv) && decide (0 ≤ r.lt) &&
      decide (0 ≤ r.bonus)
  | _, _, _ => false

def ltPosB (env : Env) (k : String) : Bool :=
  match AList.get? env.risk k with
  | some r => decide (0 < r.lt)
  | none => false

def envOKB (env : Env) : Bool :=
  env.status.all (fun p => (AList.get? env.price p.1).isSome && (AList.get? env.risk p.1).isSome &&
    decide (p.2.liqIdx ≠ 0) && decide (p.2.varIdx ≠ 0))

def supplyOKB (env : Env) (p : String × SupplyInfo) : Bool :=
  decide (0 ≤ p.2.base) && rowOKB env p.1 && (!p.2.coll || ltPosB env p.1)

def borrowOKB (env : Env) (p : String × BorrowInfo) : Bool := decide (0 ≤ p.2.base) && rowOKB env p.1

/-- well-formed bar and positions: what `C04_aave_update_completes` asks for -/
def updWF (env : Env) (s : St) : Bool :=
  envOKB env && s.supplies.all (supplyOKB env) && s.borrows.all (borrowOKB env)

end Demeter.Aave
