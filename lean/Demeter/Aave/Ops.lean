/-
  Demeter.Aave.Ops — the write operations of `AaveV3Market` (supply, change_collateral, withdraw, borrow,
  repay, `__sub_supply_amount`, `__sub_borrow_amount`) in the order the code performs its checks,
  mutations and cache resets.
-/
import Demeter.Aave.Views
namespace Demeter.Aave
open Demeter M

variable (cx : ACtx) (env : Env)

/-! ### small state primitives -/

/-- `write_func`: refuse when the market is closed -/
def guardOpen : M Unit := require env.isOpen .closed
/-- `write_func`: `instance.has_update = True` after the call returned -/
def setUpdated : M Unit := modify (fun s => { s with hasUpdate := true })
/-- `_record_action` -/
def record (a : Action) : M Unit := modify (fun s => { s with actions := s.actions ++ [a] })

def resetSupAmt : M Unit := modify (fun s => { s with supAmtC := .fresh })
def resetColl : M Unit := modify (fun s => { s with collC := .fresh })
def resetSup : M Unit := modify (fun s => { s with supC := .fresh })
def resetBorAmt : M Unit := modify (fun s => { s with borAmtC := .fresh })
def resetBor : M Unit := modify (fun s => { s with borC := .fresh })

/-- `self._supplies[tok] = info` / field assignment on the stored object -/
def putSupply (tok : String) (info : SupplyInfo) : M Unit :=
  modify (fun s => { s with supplies := AList.set s.supplies tok info })
def delSupply (tok : String) : M Unit :=
  modify (fun s => { s with supplies := AList.erase s.supplies tok })
def putBorrow (tok : String) (info : BorrowInfo) : M Unit :=
  modify (fun s => { s with borrows := AList.set s.borrows tok info })
def delBorrow (tok : String) : M Unit :=
  modify (fun s => { s with borrows := AList.erase s.borrows tok })

/-- `broker.subtract_from_balance` (the broker's `allow_negative_balance` is False) -/
def walletDebit (tok : String) (amount : Rat) : M Unit := fun s =>
  match Wallet.debit cx.toNumCtx s.wallet tok amount false with
  | .ok w => (.ok (), { s with wallet := w })
  | .error .insufficient => (.error .insufficient, s)
  | .error .unknownToken => (.error .walletUnknown, s)

/-- `broker.add_to_balance` -/
def walletCredit (tok : String) (amount : Rat) : M Unit :=
  modify (fun s => { s with wallet := Wallet.credit cx.toNumCtx s.wallet tok amount })

/-- `try: m  finally: fin` -/
def finally' {α : Type} (m : M α) (fin : M Unit) : M α := fun s =>
  match m s with
  | (r, s1) =>
    match fin s1 with
    | (.ok (), s2) => (r, s2)
    | (.error e, s2) => (.error e, s2)

def lookupSupply (tok : String) : M SupplyInfo := do
  let s ← get
  ofRes (optRes (AList.get? s.supplies tok) .keySupply)

def lookupBorrow (tok : String) : M BorrowInfo := do
  let s ← get
  ofRes (optRes (AList.get? s.borrows tok) .keyBorrow)

/-! ### supply -/

/-- `supply(token, amount, collateral)` -/
def supply (tok : String) (amount : Rat) (coll : Bool) : M Unit := do
  guardOpen env
  require (amount > 0) .zeroAmount
  if coll then do
    let r ← ofRes (env.riskOf tok)
    require r.canColl .cannotCollateral
  else pure ()
  let st ← ofRes (env.statusOf tok)
  let poolAmt ← ofRes (divE cx amount st.liqIdx)
  let s ← get
  let old := AList.get? s.supplies tok
  match old with
  | some info => require (info.coll == coll) .flagMismatch
  | none => pure ()
  walletDebit cx tok amount
  let info : SupplyInfo := match old with
    | some info => { info with base := cx.add info.base poolAmt }
    | none => { base := cx.add 0 poolAmt, coll := coll, beginIdx := st.liqIdx }
  putSupply tok info
  resetSupAmt; resetSup; resetColl
  record (.supply tok amount coll (cx.mul info.base st.liqIdx))
  setUpdated

/-! ### change_collateral -/

def changeCollateral (tok : String) (coll : Bool) : M Unit := do
  guardOpen env
  let info ← lookupSupply tok
  if info.coll == coll then setUpdated
  else do
    putSupply tok { info with coll := coll }
    resetColl; resetSup
    if !coll then do
      let hf ← healthFactor cx env
      if hf.ltR Gen.aaveHfThreshold then do
        putSupply tok info
        resetColl; resetSup
        throw .hfLow
      else pure ()
    else pure ()
    setUpdated

/-! ### `__sub_supply_amount`, `__sub_borrow_amount` -/

def subSupplyAmount (tok : String) (amount : Rat) : M Rat := do
  let s ← get
  match AList.get? s.supplies tok with
  | none => if amount = 0 then pure 0 else throw .subMissing
  | some info => do
    let st ← ofRes (env.statusOf tok)
    let d ← ofRes (divE cx amount st.liqIdx)
    let nb := subBase cx info.base d
    putSupply tok { info with base := nb }
    if info.coll then resetColl else pure ()
    resetSupAmt; resetSup
    if nb = 0 then do
      if info.coll then resetColl else pure ()
      delSupply tok
      pure 0
    else pure nb

def subBorrowAmount (tok : String) (amount : Rat) : M Rat := do
  let s ← get
  match AList.get? s.borrows tok with
  | none => if amount = 0 then pure 0 else throw .subMissing
  | some info => do
    let st ← ofRes (env.statusOf tok)
    let d ← ofRes (divE cx amount st.varIdx)
    let nb := subBase cx info.base d
    putBorrow tok { info with base := nb }
    resetBorAmt; resetBor
    if nb = 0 then do
      delBorrow tok
      pure 0
    else pure nb

/-! ### withdraw -/

/-- the trial deduction of `withdraw`: health factor as it would be after the withdrawal; the deduction and
    the two caches computed from it are undone whatever `health_factor` does -/
def trialHealthFactor (tok : String) (info : SupplyInfo) (trialBase : Rat) : M XRat := do
  putSupply tok { info with base := trialBase }
  resetSupAmt; resetColl
  finally' (healthFactor cx env) (do putSupply tok info; resetSupAmt; resetColl)

def withdraw (tok : String) (amount? : Option Rat) : M Unit := do
  guardOpen env
  let st ← ofRes (env.statusOf tok)
  let sv ← getSupply cx env tok
  let amount := amount?.getD sv.amount
  require (amount > 0) .zeroAmount
  require (amount ≤ sv.amount) .exceedBalance
  let info ← lookupSupply tok
  if info.coll then do
    let d ← ofRes (divE cx amount st.liqIdx)
    let hf ← trialHealthFactor cx env tok info (cx.sub info.base d)
    require (!(hf.ltR Gen.aaveHfThreshold)) .hfLow
  else pure ()
  let fin ← subSupplyAmount cx env tok amount
  walletCredit cx tok amount
  record (.withdraw tok amount (cx.mul fin st.liqIdx))
  setUpdated

/-! ### borrow -/

/-- `x / max_ltv` where `max_ltv` may be `inf` -/
def divX (a : Rat) (b : XRat) : Res Rat :=
  match b with
  | .inf => .ok 0
  | .fin r => divE cx a r

def borrow (tok : String) (amount? : Option Rat) : M Unit := do
  guardOpen env
  let amount ← match amount? with
    | some a => pure a
    | none => maxBorrowAmount cx env tok
  require (amount > 0) .zeroAmount
  let st ← ofRes (env.statusOf tok)
  let r ← ofRes (env.riskOf tok)
  require r.canBorrow .borrowDisabled
  let cv ← collateralValue cx env
  let collBal := dsum cx (vals cv)
  require (collBal ≠ 0) .collZero
  let ml ← maxLtv cx env
  require ml.ne0 .ltvZero
  let hf ← healthFactor cx env
  require (hf.gtR Gen.aaveHfThreshold) .hfLow
  let p ← ofRes (env.priceOf tok)
  let value := cx.mul amount p
  let bv ← borrowsView cx env
  let needed ← ofRes (divX cx (cx.add (dsum cx ((vals bv).map (·.value))) value) ml)
  require (needed ≤ collBal) .cannotCover
  let base ← ofRes (divE cx amount st.varIdx)
  let s ← get
  let info : BorrowInfo := match AList.get? s.borrows tok with
    | some info => { info with base := cx.add info.base base }
    | none => { base := cx.add 0 base, beginIdx := st.varIdx }
  putBorrow tok info
  walletCredit cx tok amount
  resetBorAmt; resetBor
  record (.borrow tok amount (cx.mul info.base st.varIdx))
  setUpdated

/-! ### repay -/

/-- `_get_swap_amount(from, to, amount)` with `swap_fee = 0` -/
def swapAmount (fromTok toTok : String) (amount : Rat) : Res Rat := do
  let pf ← env.priceOf fromTok
  let pt ← env.priceOf toTok
  divE cx (cx.mul (cx.mul amount 1) pf) pt

def repay (tok : String) (amount? : Option Rat) (withColl : Bool) (collTok? : Option String) : M Unit := do
  guardOpen env
  let st ← ofRes (env.statusOf tok)
  let bv ← getBorrow cx env tok
  let amount0 := amount?.getD bv.amount
  let ctok := collTok?.getD tok
  let payback ← if withColl then do
      let sv ← suppliesView cx env
      require (AList.contains sv ctok) .notSupplied
      let sv ← suppliesView cx env
      let c ← ofRes (optRes (AList.get? sv ctok) .keyCache)
      require c.coll .notCollateral
      let need ← ofRes (swapAmount cx env tok ctok amount0)
      let sup ← getSupply cx env ctok
      if need > sup.amount then ofRes (swapAmount cx env ctok tok sup.amount) else pure amount0
    else pure amount0
  let pbBase ← ofRes (divE cx payback st.varIdx)
  require (pbBase > 0) .zeroAmount
  let info ← lookupBorrow tok
  require (info.base > 0) .noDebt
  let rr ← ofRes (quantE Gen.aaveRepayRoundDigits (cx.sub info.base pbBase))
  require (rr ≥ 0) .exceedDebt
  if withColl then do
    let inColl ← ofRes (swapAmount cx env tok ctok payback)
    let _ ← subSupplyAmount cx env ctok inColl
    pure ()
  else walletDebit cx tok payback
  let debt ← subBorrowAmount cx env tok payback
  record (.repay tok payback (cx.mul debt st.varIdx))
  setUpdated

end Demeter.Aave
