/-
  Demeter.Aave.Ops — the write operations of `AaveV3Market` (supply, change_collateral, withdraw, borrow,
  repay, `__sub_supply_amount`, `__sub_borrow_amount`) in the order the code performs its checks,
  mutations and cache resets.  Consecutive assignments / `reset()` calls between which nothing can raise and
  nothing is read are one `modify`.
-/
import Demeter.Aave.Views
namespace Demeter.Aave
open Demeter M

variable (cx : ACtx) (env : Env)

/-! ### small state primitives -/

/-- `write_func`: refuse when the market is closed -/
def guardOpen : M Unit := require env.isOpen .closed
/-- `write_func`: `instance.has_update = True` after the call returned -/
def setUpdated : M Unit := modify (fun s => { s with hasUpdate := true })
/-- `_record_action` -/
def record (a : Action) : M Unit := modify (fun s => { s with actions := s.actions ++ [a] })

/-- `broker.subtract_from_balance` (the broker's `allow_negative_balance` is False) -/
def walletDebit (tok : String) (amount : Rat) : M Unit := fun s =>
  match Wallet.debit cx.toNumCtx s.wallet tok amount false with
  | .ok w => (.ok (), { s with wallet := w })
  | .error .insufficient => (.error .insufficient, s)
  | .error .unknownToken => (.error .walletUnknown, s)

/-- `broker.add_to_balance` -/
def walletCredit (tok : String) (amount : Rat) : M Unit :=
  modify (fun s => { s with wallet := Wallet.credit cx.toNumCtx s.wallet tok amount })

/-- `try: m  finally: fin` for a `fin` that cannot raise -/
def finally' {α : Type} (m : M α) (fin : St → St) : M α := fun s =>
  match m s with
  | (r, s1) => (r, fin s1)

def lookupSupply (tok : String) : M SupplyInfo := queryPos (fun sup _ => optRes (AList.get? sup tok) .keySupply)
def lookupBorrow (tok : String) : M BorrowInfo := queryPos (fun _ bor => optRes (AList.get? bor tok) .keyBorrow)

/-! ### supply -/

/-- `_supplies[tok] = info` (new entry or `base_amount +=`) followed by the three `reset()`s of `supply` -/
def commitSupply (tok : String) (info : SupplyInfo) : M Unit :=
  modify (fun s => { s with supplies := AList.set s.supplies tok info, supAmtC := .fresh, supC := .fresh, collC := .fresh })

/-- `if collateral: require(risk[token].usageAsCollateralEnabled, …)` -/
def checkCanCollateral (tok : String) (coll : Bool) : M Unit :=
  if coll then do
    let r ← ofRes (env.riskOf tok)
    require r.canColl .cannotCollateral
  else pure ()

/-- `if token in self._supplies: require(self._supplies[token].collateral == collateral, …)` -/
def checkFlag (old : Option SupplyInfo) (coll : Bool) : M Unit :=
  match old with
  | some info => require (info.coll == coll) .flagMismatch
  | none => pure ()

/-- the entry `supply` writes: `base_amount += pool_amount` on the existing one, or a new one -/
def supplyEntry (old : Option SupplyInfo) (poolAmt : Rat) (coll : Bool) (idx : Rat) : SupplyInfo :=
  match old with
  | some info => { info with base := cx.add info.base poolAmt }
  | none => { base := cx.add 0 poolAmt, coll := coll, beginIdx := idx }

/-- `supply(token, amount, collateral)` -/
def supply (tok : String) (amount : Rat) (coll : Bool) : M Unit := do
  guardOpen env
  require (amount > 0) .zeroAmount
  checkCanCollateral env tok coll
  let st ← ofRes (env.statusOf tok)
  let poolAmt ← ofRes (divE cx amount st.liqIdx)
  let old ← queryPos (fun sup _ => .ok (AList.get? sup tok))
  checkFlag old coll
  walletDebit cx tok amount
  commitSupply tok (supplyEntry cx old poolAmt coll st.liqIdx)
  record (.supply tok amount coll (cx.mul (supplyEntry cx old poolAmt coll st.liqIdx).base st.liqIdx))
  setUpdated

/-! ### change_collateral -/

/-- `_supplies[tok].collateral = c` + `_collaterals_amount_cache.reset()` + `_supplies_cache.reset()` -/
def commitFlag (tok : String) (info : SupplyInfo) : M Unit :=
  modify (fun s => { s with supplies := AList.set s.supplies tok info, collC := .fresh, supC := .fresh })

/-- `try: m  except Exception: fin; raise` for a `fin` that cannot raise: the state is repaired only on the failure path -/
def onError {α : Type} (m : M α) (fin : St → St) : M α := fun s =>
  match m s with
  | (.ok a, s1) => (.ok a, s1)
  | (.error e, s1) => (.error e, fin s1)

/-- `change_collateral(token, collateral)` as repaired: switching a flag *on* needs `usageAsCollateralEnabled` (the rule of
    `supply`, checked before anything is written); when the health-factor read itself raises, the flag is written back and
    the two caches are reset again before the exception leaves the call. -/
def changeCollateral (tok : String) (coll : Bool) : M Unit := do
  guardOpen env
  let info ← lookupSupply tok
  if info.coll == coll then setUpdated
  else do
    checkCanCollateral env tok coll
    commitFlag tok { info with coll := coll }
    if !coll then do
      let hf ← onError (healthFactor cx env) (fun s => (commitFlag tok info s).2)
      if hf.ltR Gen.aaveHfThreshold then do
        commitFlag tok info
        throw .hfLow
      else pure ()
    else pure ()
    setUpdated

/-! ### `__sub_supply_amount`, `__sub_borrow_amount` -/

/-- the assignments and resets of `__sub_supply_amount` once the new scaled balance `nb` is known -/
def commitSubSupply (tok : String) (info : SupplyInfo) (nb : Rat) : M Unit :=
  modify (fun s => { s with
    supplies := if nb = 0 then AList.erase s.supplies tok else AList.set s.supplies tok { info with base := nb },
    collC := if info.coll then .fresh else s.collC,
    supAmtC := .fresh, supC := .fresh })

def subSupplyAmount (tok : String) (amount : Rat) : M Rat := do
  let old ← queryPos (fun sup _ => .ok (AList.get? sup tok))
  match old with
  | none => if amount = 0 then pure 0 else throw .subMissing
  | some info => do
    let st ← ofRes (env.statusOf tok)
    let d ← ofRes (divE cx amount st.liqIdx)
    let nb := subBase cx info.base d
    commitSubSupply tok info nb
    pure nb

def commitSubBorrow (tok : String) (info : BorrowInfo) (nb : Rat) : M Unit :=
  modify (fun s => { s with
    borrows := if nb = 0 then AList.erase s.borrows tok else AList.set s.borrows tok { info with base := nb },
    borAmtC := .fresh, borC := .fresh })

def subBorrowAmount (tok : String) (amount : Rat) : M Rat := do
  let old ← queryPos (fun _ bor => .ok (AList.get? bor tok))
  match old with
  | none => if amount = 0 then pure 0 else throw .subMissing
  | some info => do
    let st ← ofRes (env.statusOf tok)
    let d ← ofRes (divE cx amount st.varIdx)
    let nb := subBase cx info.base d
    commitSubBorrow tok info nb
    pure nb

/-! ### withdraw -/

/-- `base_amount = v` + `_supplies_amount_cache.reset()` + `_collaterals_amount_cache.reset()` -/
def trialSet (tok : String) (info : SupplyInfo) (s : St) : St :=
  { s with supplies := AList.set s.supplies tok info, supAmtC := .fresh, collC := .fresh }

/-- the trial deduction of `withdraw`: health factor as it would be after the withdrawal; the deduction and
    the two caches computed from it are undone whatever `health_factor` does (`try … finally`) -/
def trialHealthFactor (tok : String) (info : SupplyInfo) (trialBase : Rat) : M XRat := do
  modify (trialSet tok { info with base := trialBase })
  finally' (healthFactor cx env) (trialSet tok info)

/-- the `if self._supplies[token].collateral:` block of `withdraw` -/
def checkWithdrawHf (tok : String) (info : SupplyInfo) (amount idx : Rat) : M Unit :=
  if info.coll then do
    let d ← ofRes (divE cx amount idx)
    let hf ← trialHealthFactor cx env tok info (cx.sub info.base d)
    require (!(hf.ltR Gen.aaveHfThreshold)) .hfLow
  else pure ()

def withdraw (tok : String) (amount? : Option Rat) : M Unit := do
  guardOpen env
  let st ← ofRes (env.statusOf tok)
  let sv ← getSupply cx env tok
  let amount := amount?.getD sv.amount
  require (amount > 0) .zeroAmount
  require (amount ≤ sv.amount) .exceedBalance
  let info ← lookupSupply tok
  checkWithdrawHf cx env tok info amount st.liqIdx
  let fin ← subSupplyAmount cx env tok amount
  walletCredit cx tok amount
  record (.withdraw tok amount (cx.mul fin st.liqIdx))
  setUpdated

/-! ### borrow -/

/-- `x / max_ltv` where `max_ltv` may be `inf` -/
def divX (a : Rat) (b : XRat) : Res Rat :=
  match b with
  | .inf => .ok 0
  | .fin r => divE cx a r

/-- `_borrows[tok] = info` (new entry or `base_amount +=`), the wallet credit and the two `reset()`s of `borrow` -/
def commitBorrow (tok : String) (info : BorrowInfo) (amount : Rat) : M Unit :=
  modify (fun s => { s with borrows := AList.set s.borrows tok info,
                            wallet := Wallet.credit cx.toNumCtx s.wallet tok amount,
                            borAmtC := .fresh, borC := .fresh })

/-- `if amount is None: amount = self.get_max_borrow_amount(token)` -/
def borrowAmountOf (tok : String) (amount? : Option Rat) : M Rat :=
  match amount? with
  | some a => pure a
  | none => maxBorrowAmount cx env tok

/-- the entry `borrow` writes -/
def borrowEntry (old : Option BorrowInfo) (base idx : Rat) : BorrowInfo :=
  match old with
  | some info => { info with base := cx.add info.base base }
  | none => { base := cx.add 0 base, beginIdx := idx }

def borrow (tok : String) (amount? : Option Rat) : M Unit := do
  guardOpen env
  let amount ← borrowAmountOf cx env tok amount?
  require (amount > 0) .zeroAmount
  let st ← ofRes (env.statusOf tok)
  let r ← ofRes (env.riskOf tok)
  require r.canBorrow .borrowDisabled
  let cv ← collateralValue cx env
  let collBal := dsum cx (vals cv)
  require (collBal ≠ 0) .collZero
  let ml ← maxLtv cx env
  require ml.ne0 .ltvZero
  let hf ← healthFactor cx env
  require (hf.gtR Gen.aaveHfThreshold) .hfLow
  let p ← ofRes (env.priceOf tok)
  let value := cx.mul amount p
  let bv ← borrowsView cx env
  let needed ← ofRes (divX cx (cx.add (dsum cx ((vals bv).map (·.value))) value) ml)
  require (needed ≤ collBal) .cannotCover
  let base ← ofRes (divE cx amount st.varIdx)
  let old ← queryPos (fun _ bor => .ok (AList.get? bor tok))
  commitBorrow cx tok (borrowEntry cx old base st.varIdx) amount
  record (.borrow tok amount (cx.mul (borrowEntry cx old base st.varIdx).base st.varIdx))
  setUpdated

/-! ### repay -/

/-- `_get_swap_amount(from, to, amount)` with `swap_fee = 0` -/
def swapAmount (fromTok toTok : String) (amount : Rat) : Res Rat := do
  let pf ← env.priceOf fromTok
  let pt ← env.priceOf toTok
  divE cx (cx.mul (cx.mul amount 1) pf) pt

/-- the `if repay_with_collateral:` block: checks, and the pay-back amount capped by the collateral held -/
def repayCollateralCap (tok ctok : String) (amount0 : Rat) : M Rat := do
  let sv ← suppliesView cx env
  require (AList.contains sv ctok) .notSupplied
  let sv ← suppliesView cx env
  let c ← ofRes (optRes (AList.get? sv ctok) .keyCache)
  require c.coll .notCollateral
  let need ← ofRes (swapAmount cx env tok ctok amount0)
  let sup ← getSupply cx env ctok
  if need > sup.amount then ofRes (swapAmount cx env ctok tok sup.amount) else pure amount0

/-- the amount to pay back: as asked, or capped by the collateral when repaying with collateral -/
def repayAmountOf (tok ctok : String) (amount0 : Rat) (withColl : Bool) : M Rat :=
  if withColl then repayCollateralCap cx env tok ctok amount0 else pure amount0

/-- where the repayment comes from: the collateral supply (`__sub_supply_amount`) or the wallet -/
def takeRepayment (tok ctok : String) (payback : Rat) (withColl : Bool) : M Unit :=
  if withColl then do
    let inColl ← ofRes (swapAmount cx env tok ctok payback)
    let _ ← subSupplyAmount cx env ctok inColl
    pure ()
  else walletDebit cx tok payback

def repay (tok : String) (amount? : Option Rat) (withColl : Bool) (collTok? : Option String) : M Unit := do
  guardOpen env
  let st ← ofRes (env.statusOf tok)
  let bv ← getBorrow cx env tok
  let amount0 := amount?.getD bv.amount
  let ctok := collTok?.getD tok
  let payback ← repayAmountOf cx env tok ctok amount0 withColl
  let pbBase ← ofRes (divE cx payback st.varIdx)
  require (pbBase > 0) .zeroAmount
  let info ← lookupBorrow tok
  require (info.base > 0) .noDebt
  let rr ← ofRes (quantE Gen.aaveRepayRoundDigits (cx.sub info.base pbBase))
  require (rr ≥ 0) .exceedDebt
  takeRepayment cx env tok ctok payback withColl
  let debt ← subBorrowAmount cx env tok payback
  record (.repay tok payback (cx.mul debt st.varIdx))
  setUpdated

end Demeter.Aave
