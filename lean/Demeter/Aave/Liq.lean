/-
  Demeter.Aave.Liq — `_liquidate` / `_do_liquidate` as state transitions (what `update()` does at the end
  of a bar).  The *amount* theorems about liquidation belong to C12 (component `aaverisk`); this file only
  has to move the state, the caches and the action log the way the code does.
-/
import Demeter.Aave.Ops
namespace Demeter.Aave
open Demeter M

variable (cx : ACtx) (env : Env)

/-- choose the debt: smallest value (`>=`, so the last of equal ones) among the not yet visited keys;
    the start value is never compared against the first candidate -/
def pickDebt (bv : AList String BorrowV) (done : List String) : Option String × Rat :=
  bv.foldl (fun (acc : Option String × Rat) p =>
    if (acc.1.isNone || acc.2 ≥ p.2.value) && !done.contains p.1 then (some p.1, p.2.value) else acc)
    (none, Gen.aaveLiqSentinel)

/-- choose the collateral: biggest value (`<=`, so the last of equal ones) among the collateral supplies -/
def pickColl (sv : AList String SupplyV) : Option String × Rat :=
  sv.foldl (fun (acc : Option String × Rat) p =>
    if p.2.coll && acc.2 ≤ p.2.value then (some p.1, p.2.value) else acc) (none, 0)

/-- `except AssertionError: pass` -/
def catchAssertion (m : M Unit) : M Unit := fun s =>
  match m s with
  | (.error e, s') => if e.isAssertion then (.ok (), s') else (.error e, s')
  | r => r

/-- `_supplies[c].base_amount = nb` and `del _supplies[c]` when it reached zero — **no cache is reset here** -/
def liqSeize (ctok : String) (info : SupplyInfo) (nb : Rat) : M Unit :=
  modify (fun s => { s with
    supplies := if nb = 0 then AList.erase s.supplies ctok else AList.set s.supplies ctok { info with base := nb } })

/-- the five `reset()` calls at the end of `_do_liquidate` -/
def resetAll : M Unit :=
  modify (fun s => { s with borAmtC := .fresh, borC := .fresh, supAmtC := .fresh, supC := .fresh, collC := .fresh })

/-- `self.get_borrow(key).amount if key in self._borrows else DECIMAL_0` -/
def liqDebtOf (dtok : String) : M Rat := do
  let hasDebt ← queryPos (fun _ bor => .ok (AList.contains bor dtok))
  if hasDebt then do
    let b ← getBorrow cx env dtok
    pure b.amount
  else pure 0

/-- `risk[c].reserveLiquidationThreshold != 0 and self._supplies[c].collateral` (short-circuit) -/
def liqEnabled (ctok : String) (cr : Risk) : M Bool :=
  if cr.lt ≠ 0 then do
    let info ← lookupSupply ctok
    pure info.coll
  else pure false

/-- collateral to seize and debt to repay: the bonus-inflated counter-value of the debt, or everything the
    user has with the repayment scaled down -/
def liqAmounts (pd pc actual userBal bonus : Rat) : Res (Rat × Rat) := do
  let should ← divE cx (cx.mul pd actual) pc
  let onePlus := cx.add 1 bonus
  let maxColl := cx.mul should onePlus
  if maxColl > userBal then do
    let d ← divE cx (cx.mul pc userBal) (cx.mul pd onePlus)
    pure (userBal, if d < actual then d else actual)        -- `min(actual, d)`: scaled down, never up
  else pure (maxColl, actual)

/-- the mutations of `_do_liquidate`: seize, then repay, then the five resets -/
def liqCommit (ctok : String) (info : SupplyInfo) (nb : Rat) (dtok : String) (debtLiq : Rat) : M Rat := do
  liqSeize ctok info nb
  let remaining ← subBorrowAmount cx env dtok debtLiq
  resetAll
  pure remaining

/-- `_do_liquidate(collateral_token, delt_token, delt_value_to_cover)` -/
def doLiquidate (ctok? : Option String) (dtok? : Option String) (toCover : Rat) : M Unit := do
  let oldHf ← healthFactor cx env
  let dtok ← ofRes (optRes dtok? .noneToken)
  let dst ← ofRes (env.statusOf dtok)
  let ctok ← ofRes (optRes ctok? .noneToken)
  let cst ← ofRes (env.statusOf ctok)
  let borrowIndex := dst.varIdx
  let supplyIndex := cst.liqIdx
  let cr ← ofRes (env.riskOf ctok)
  let varDebt ← liqDebtOf cx env dtok
  let closeFactor := if oldHf.gtR Gen.aaveCloseFactorHf then Gen.aaveCloseFactorDefault else Gen.aaveCloseFactorMax
  let maxLiq := cx.mul varDebt closeFactor
  let actual := if toCover > maxLiq then maxLiq else toCover
  let enabled ← liqEnabled ctok cr
  require enabled .liqNotEnabled
  require (varDebt ≠ 0) .liqNoDebt
  let info ← lookupSupply ctok
  let userBal := cx.mul info.base cst.liqIdx
  let pd ← ofRes (env.priceOf dtok)
  let pc ← ofRes (env.priceOf ctok)
  let amts ← ofRes (liqAmounts cx pd pc actual userBal cr.bonus)
  require (varDebt ≥ amts.2) .liqDebtExceeds          -- raised before anything is changed
  let dBase ← ofRes (divE cx amts.1 supplyIndex)
  let nb := subBase cx info.base dBase
  let remaining ← liqCommit cx env ctok info nb dtok amts.2
  let hfAfter ← healthFactor cx env
  let collBaseAfter ← queryPos (fun sup _ => .ok (match AList.get? sup ctok with
    | some i => i.base
    | none => 0))
  record (.liquidation ctok dtok toCover amts.1 amts.2 oldHf hfAfter
            (cx.mul collBaseAfter supplyIndex) (cx.mul remaining borrowIndex))

/-- the `while 0 < health_factor < 1` loop; `fuel` = number of debts + 1 (every round marks one more debt
    as visited and stops when none is left) -/
def liquidateLoop : Nat → List String → XRat → M Unit
  | 0, _, _ => pure ()
  | fuel + 1, done, hf =>
    if hf.gtR 0 && hf.ltR Gen.aaveHfThreshold then do
      let bv ← borrowsView cx env
      let sv ← suppliesView cx env
      let (dk, dv) := pickDebt bv done
      let (ck, _) := pickColl sv
      match dk with
      | none => pure ()
      | some d => do
        catchAssertion (doLiquidate cx env ck (some d) dv)
        let hf' ← healthFactor cx env
        liquidateLoop fuel (done ++ [d]) hf'
    else pure ()

/-- `_liquidate()` = `update()` -/
def liquidate : M Unit := do
  guardOpen env
  let hf ← healthFactor cx env
  let n ← queryPos (fun _ bor => .ok bor.length)
  liquidateLoop cx env (n + 1) [] hf
  setUpdated

end Demeter.Aave
