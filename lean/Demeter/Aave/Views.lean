/-
  Demeter.Aave.Views — every public read of `AaveV3Market` as an operation on the state: a read may fill
  one or more of the five caches (and leaves a partially filled cache behind when a lookup raises midway).
-/
import Demeter.Aave.Basic
namespace Demeter.Aave
open Demeter M

variable (cx : ACtx) (env : Env)

/-! ### per-entry formulas -/

/-- `get_amount(base, liquidity_index) * price` -/
def supValOf (k : String) (v : SupplyInfo) : Res Rat := do
  let st ← env.statusOf k
  let p ← env.priceOf k
  pure (cx.mul (cx.mul v.base st.liqIdx) p)

/-- `get_amount(base, variable_borrow_index) * price` -/
def borValOf (k : String) (v : BorrowInfo) : Res Rat := do
  let st ← env.statusOf k
  let p ← env.priceOf k
  pure (cx.mul (cx.mul v.base st.varIdx) p)

/-- `values = {k: f(k, v) for k, v in d.items()}` followed by `cache.set(k, x)` for every pair: the first
    component tells whether (and how) the computation raised — the caller then stores nothing -/
def fillLoop {ν μ : Type} (f : String → ν → Res μ) : List (String × ν) → Cache μ → Option Err × Cache μ
  | [], c => (none, c)
  | (k, v) :: rest, c =>
    match f k v with
    | .error e => (some e, c)
    | .ok x => fillLoop f rest (c.set k x)

/-! ### the value dictionaries -/

/-- `supplies_value` -/
def suppliesValue : M (AList String Rat) := fun s =>
  if s.supAmtC.empty then
    match fillLoop (supValOf cx env) s.supplies s.supAmtC with
    | (some e, _) => (.error e, s)        -- nothing is stored unless every entry could be computed
    | (none, c) => (.ok c.val, { s with supAmtC := c })
  else (.ok s.supAmtC.val, s)

/-- `borrows_value` -/
def borrowsValue : M (AList String Rat) := fun s =>
  if s.borAmtC.empty then
    match fillLoop (borValOf cx env) s.borrows s.borAmtC with
    | (some e, _) => (.error e, s)
    | (none, c) => (.ok c.val, { s with borAmtC := c })
  else (.ok s.borAmtC.val, s)

/-- the collateral entries of `_supplies` -/
def collEntries (sup : AList String SupplyInfo) : AList String SupplyInfo := sup.filter (·.2.coll)

/-- `collateral_value`: `self.supplies_value[k]` for every collateral supply (the first such access fills
    `_supplies_amount_cache`) -/
def collateralValue : M (AList String Rat) := fun s =>
  if s.collC.empty then
    match collEntries s.supplies with
    | [] => (.ok s.collC.val, s)
    | cs =>
      match suppliesValue cx env s with
      | (.error e, s1) => (.error e, s1)
      | (.ok vs, s1) =>
        match fillLoop (fun k (_ : SupplyInfo) => optRes (AList.get? vs k) .keyCache) cs s1.collC with
        | (some e, _) => (.error e, s1)
        | (none, c) => (.ok c.val, { s1 with collC := c })
  else (.ok s.collC.val, s)

def totalSupplyValue : M Rat := do
  let vs ← suppliesValue cx env
  pure (dsum cx (vals vs))

def totalCollateralValue : M Rat := do
  let vs ← collateralValue cx env
  pure (dsum cx (vals vs))

def totalBorrowsValue : M Rat := do
  let vs ← borrowsValue cx env
  pure (dsum cx (vals vs))

/-! ### `Supply` / `Borrow` objects -/

/-- the `Supply(...)` constructor call of `get_supply`, given the value dictionary -/
def supplyOf (k : String) (info : SupplyInfo) (vs : AList String Rat) : Res SupplyV := do
  let st ← env.statusOf k
  let value ← optRes (AList.get? vs k) .keyCache
  pure { base := info.base, coll := info.coll, amount := cx.mul info.base st.liqIdx,
         apy := rateToApy cx st.liqRate, value := value, beginIdx := info.beginIdx }

def borrowOf (k : String) (info : BorrowInfo) (vs : AList String Rat) : Res BorrowV := do
  let st ← env.statusOf k
  let value ← optRes (AList.get? vs k) .keyCache
  pure { base := info.base, amount := cx.mul info.base st.varIdx,
         apy := rateToApy cx st.varRate, value := value, beginIdx := info.beginIdx }

/-- `get_supply(token)` -/
def getSupply (k : String) : M SupplyV := do
  let info ← queryPos (fun sup _ => optRes (AList.get? sup k) .keySupply)
  let _ ← ofRes (env.statusOf k)          -- `amount=` and `apy=` are evaluated before `value=`
  let vs ← suppliesValue cx env
  ofRes (supplyOf cx env k info vs)

/-- `get_borrow(token)` -/
def getBorrow (k : String) : M BorrowV := do
  let info ← queryPos (fun _ bor => optRes (AList.get? bor k) .keyBorrow)
  let _ ← ofRes (env.statusOf k)
  let vs ← borrowsValue cx env
  ofRes (borrowOf cx env k info vs)

/-- `for key in self._supplies.keys(): self._supplies_cache.set(key, self.get_supply(key))` -/
def fillSupLoop : List String → M Unit
  | [] => pure ()
  | k :: rest => do
    let v ← getSupply cx env k
    modify (fun s => { s with supC := s.supC.set k v })
    fillSupLoop rest

def fillBorLoop : List String → M Unit
  | [] => pure ()
  | k :: rest => do
    let v ← getBorrow cx env k
    modify (fun s => { s with borC := s.borC.set k v })
    fillBorLoop rest

/-- `supplies` -/
def suppliesView : M (AList String SupplyV) := fun s =>
  if s.supC.empty then
    match fillSupLoop cx env (keys s.supplies) s with
    | (.error e, s1) => (.error e, { s1 with supC := s.supC })   -- the objects built so far are dropped
    | (.ok (), s1) => (.ok s1.supC.val, s1)
  else (.ok s.supC.val, s)

/-- `borrows` -/
def borrowsView : M (AList String BorrowV) := fun s =>
  if s.borC.empty then
    match fillBorLoop cx env (keys s.borrows) s with
    | (.error e, s1) => (.error e, { s1 with borC := s.borC })
    | (.ok (), s1) => (.ok s1.borC.val, s1)
  else (.ok s.borC.val, s)

/-! ### risk figures (pure in the value dictionaries) -/

/-- `safe_div` -/
def safeDiv (a b : Rat) : XRat := if b ≠ 0 then .fin (cx.div a b) else .inf

/-- `AaveV3CoreLib.health_factor` -/
def hfOf (colls bors : AList String Rat) : Res XRat := do
  let terms ← colls.mapM (fun p => do let r ← env.riskOf p.1; pure (cx.mul p.2 r.lt))
  pure (safeDiv cx (dsum cx terms) (dsum cx (vals bors)))

/-- `AaveV3CoreLib.max_ltv` -/
def maxLtvOf (colls : AList String Rat) : Res XRat := do
  let all ← colls.foldlM (fun acc p => do let r ← env.riskOf p.1; pure (cx.add acc (cx.mul p.2 r.ltv))) (0 : Rat)
  pure (safeDiv cx all (dsum cx (vals colls)))

/-- `AaveV3CoreLib.total_liquidation_threshold` -/
def liqThresholdOf (colls : AList String Rat) : Res XRat := do
  let acc ← colls.foldlM (fun (acc : Rat × Rat) p => do
      let r ← env.riskOf p.1
      pure (cx.add acc.1 p.2, cx.add acc.2 (cx.mul p.2 r.lt))) ((0 : Rat), (0 : Rat))
  pure (safeDiv cx acc.2 acc.1)

/-- `AaveV3CoreLib.get_apy` -/
def apyOf (amounts rates : AList String Rat) : Res Rat :=
  if amounts.isEmpty then .ok 0 else do
    let terms ← amounts.mapM (fun p => do
      let r ← optRes (AList.get? rates p.1) .keyCache
      pure (cx.mul p.2 (rateToApy cx r)))
    let a := dsum cx terms
    let b := dsum cx (vals amounts)
    pure (if b ≠ 0 then cx.div a b else 0)

/-- `health_factor` -/
def healthFactor : M XRat := do
  let cv ← collateralValue cx env
  let bv ← borrowsValue cx env
  ofRes (hfOf cx env cv bv)

/-- `max_ltv` -/
def maxLtv : M XRat := do
  let cv ← collateralValue cx env
  ofRes (maxLtvOf cx env cv)

/-- `liquidation_threshold` -/
def liquidationThreshold : M XRat := do
  let cv ← collateralValue cx env
  ofRes (liqThresholdOf cx env cv)

/-- `ltv` -/
def ltvView : M XRat := do
  let ts ← totalSupplyValue cx env
  if ts = 0 then pure .inf else do
    let tb ← totalBorrowsValue cx env
    let ts2 ← totalSupplyValue cx env
    pure (.fin (cx.div tb ts2))

/-- `supply_apy` (iterates `self.supplies.keys()`, so it fills `_supplies_cache`) -/
def supplyApy : M Rat := do
  let sv ← suppliesView cx env
  let rates ← ofRes ((keys sv).mapM (fun k => do let st ← env.statusOf k; pure (k, st.liqRate)))
  let amounts ← suppliesValue cx env
  ofRes (apyOf cx amounts rates)

/-- `borrow_apy` (iterates `self._borrows.keys()`) -/
def borrowApy : M Rat := do
  let rates ← queryPos (fun _ bor => (keys bor).mapM (fun k => do let st ← env.statusOf k; pure (k, st.varRate)))
  let amounts ← borrowsValue cx env
  ofRes (apyOf cx amounts rates)

/-- `safe_div_zero(sa * ts - ba * tb, ts - tb)` -/
def netApyOf (sa ts ba tb : Rat) : Rat :=
  let a := cx.sub (cx.mul sa ts) (cx.mul ba tb)
  let b := cx.sub ts tb
  if b ≠ 0 then cx.div a b else 0

/-- `total_apy` -/
def totalApy : M Rat := do
  let ts ← totalSupplyValue cx env
  let tb ← totalBorrowsValue cx env
  let sa ← supplyApy cx env
  let ba ← borrowApy cx env
  pure (netApyOf cx sa ts ba tb)

/-- `AaveBalance` -/
structure Balance where
  netValue : Rat
  suppliesCount : Nat
  borrowsCount : Nat
  liqThreshold : XRat
  healthFactor : XRat
  borrowsValue : Rat
  suppliesValue : Rat
  collateralsValue : Rat
  maxLtv : XRat
  ltv : XRat
  supplyApy : Rat
  borrowApy : Rat
  netApy : Rat
  deriving DecidableEq, Repr

def balQuant (x : Rat) : Res Rat := quantE Gen.aaveBalanceQuantDigits x

/-- `safe_rounding` -/
def safeRounding (x : XRat) : Res XRat :=
  match x with
  | .inf => .ok .inf
  | .fin r => do let q ← balQuant r; pure (.fin q)

/-- `get_market_balance` -/
def marketBalance : M Balance := do
  let ts ← totalSupplyValue cx env
  let ts ← ofRes (balQuant ts)
  let tb ← totalBorrowsValue cx env
  let tb ← ofRes (balQuant tb)
  let net := cx.sub ts tb
  let sa ← supplyApy cx env
  let sa ← ofRes (balQuant sa)
  let ba ← borrowApy cx env
  let ba ← ofRes (balQuant ba)
  let netApy := netApyOf cx sa ts ba tb
  let cnt ← queryPos (fun sup bor => .ok (sup.length, bor.length))
  let lt ← liquidationThreshold cx env
  let lt ← ofRes (safeRounding lt)
  let hf ← healthFactor cx env
  let hf ← ofRes (safeRounding hf)
  let tc ← totalCollateralValue cx env
  let tc ← ofRes (balQuant tc)
  let ml ← maxLtv cx env
  let ml ← ofRes (safeRounding ml)
  let ltv ← ltvView cx env
  pure { netValue := net, suppliesCount := cnt.1, borrowsCount := cnt.2,
         liqThreshold := lt, healthFactor := hf, borrowsValue := tb, suppliesValue := ts,
         collateralsValue := tc, maxLtv := ml, ltv := ltv, supplyApy := sa, borrowApy := ba, netApy := netApy }

/-- `get_max_borrow_amount(token)` (used by `borrow(amount=None)`) -/
def maxBorrowAmount (k : String) : M Rat := do
  let cv ← collateralValue cx env
  let bv ← borrowsValue cx env
  let ml ← ofRes (maxLtvOf cx env cv)
  let tb := dsum cx (vals bv)
  let tc := dsum cx (vals cv)
  match ml with
  | .inf => throw .invalidOp                 -- `Decimal(0) * Decimal("inf")`
  | .fin l =>
    let v := cx.mul (cx.sub (cx.mul tc l) tb) Gen.aaveMaxBorrowUi
    let p ← ofRes (env.priceOf k)
    ofRes (divE cx v p)

end Demeter.Aave
