/-
  Demeter.Aave.Spec — every derived view **recomputed from scratch**: pure functions of the raw positions
  (`_supplies`, `_borrows`), the bar's indices/rates/prices and the risk table.  No cache is read or written.
  C13 states that each public read returns exactly these values; C01 uses `specNetValue`.
-/
import Demeter.Aave.Views
namespace Demeter.Aave
open Demeter

variable (cx : ACtx) (env : Env)

/-- apply `f` to every entry of a dict, in order; the first failing lookup raises -/
def scratchMap {ν μ : Type} (f : String → ν → Res μ) : AList String ν → Res (AList String μ)
  | [] => .ok []
  | (k, v) :: rest => do
    let x ← f k v
    let r ← scratchMap f rest
    pure ((k, x) :: r)

/-- per-token supply values: `base × liquidity_index × price` -/
def specSupAmt (sup : AList String SupplyInfo) : Res (AList String Rat) := scratchMap (supValOf cx env) sup

/-- per-token debt values: `base × variable_borrow_index × price` -/
def specBorAmt (bor : AList String BorrowInfo) : Res (AList String Rat) := scratchMap (borValOf cx env) bor

/-- values of the supplies flagged as collateral -/
def specColl (sup : AList String SupplyInfo) : Res (AList String Rat) :=
  scratchMap (supValOf cx env) (collEntries sup)

/-- one `Supply` object from the raw entry -/
def specSupplyOf (k : String) (info : SupplyInfo) : Res SupplyV := do
  let st ← env.statusOf k
  let value ← supValOf cx env k info
  pure { base := info.base, coll := info.coll, amount := cx.mul info.base st.liqIdx,
         apy := rateToApy cx st.liqRate, value := value, beginIdx := info.beginIdx }

def specBorrowOf (k : String) (info : BorrowInfo) : Res BorrowV := do
  let st ← env.statusOf k
  let value ← borValOf cx env k info
  pure { base := info.base, amount := cx.mul info.base st.varIdx,
         apy := rateToApy cx st.varRate, value := value, beginIdx := info.beginIdx }

/-- the listed supplies with amounts, values, apys and collateral flags -/
def specSupplies (sup : AList String SupplyInfo) : Res (AList String SupplyV) := scratchMap (specSupplyOf cx env) sup
def specBorrows (bor : AList String BorrowInfo) : Res (AList String BorrowV) := scratchMap (specBorrowOf cx env) bor

def specGetSupply (sup : AList String SupplyInfo) (k : String) : Res SupplyV := do
  let info ← optRes (AList.get? sup k) .keySupply
  specSupplyOf cx env k info

def specGetBorrow (bor : AList String BorrowInfo) (k : String) : Res BorrowV := do
  let info ← optRes (AList.get? bor k) .keyBorrow
  specBorrowOf cx env k info

def specTotalSupply (sup : AList String SupplyInfo) : Res Rat := do
  let vs ← specSupAmt cx env sup
  pure (dsum cx (vals vs))

def specTotalColl (sup : AList String SupplyInfo) : Res Rat := do
  let vs ← specColl cx env sup
  pure (dsum cx (vals vs))

def specTotalBorrows (bor : AList String BorrowInfo) : Res Rat := do
  let vs ← specBorAmt cx env bor
  pure (dsum cx (vals vs))

def specHealthFactor (sup : AList String SupplyInfo) (bor : AList String BorrowInfo) : Res XRat := do
  let cv ← specColl cx env sup
  let bv ← specBorAmt cx env bor
  hfOf cx env cv bv

def specMaxLtv (sup : AList String SupplyInfo) : Res XRat := do
  let cv ← specColl cx env sup
  maxLtvOf cx env cv

def specLiqThreshold (sup : AList String SupplyInfo) : Res XRat := do
  let cv ← specColl cx env sup
  liqThresholdOf cx env cv

def specLtv (sup : AList String SupplyInfo) (bor : AList String BorrowInfo) : Res XRat := do
  let ts ← specTotalSupply cx env sup
  if ts = 0 then pure .inf else do
    let tb ← specTotalBorrows cx env bor
    let ts2 ← specTotalSupply cx env sup
    pure (.fin (cx.div tb ts2))

/-- weighted APY of the listed supplies -/
def specSupplyApy (sup : AList String SupplyInfo) : Res Rat := do
  let svs ← specSupplies cx env sup
  let rates ← (keys svs).mapM (fun k => do let st ← env.statusOf k; pure (k, st.liqRate))
  let amounts ← specSupAmt cx env sup
  apyOf cx amounts rates

def specBorrowApy (bor : AList String BorrowInfo) : Res Rat := do
  let rates ← (keys bor).mapM (fun k => do let st ← env.statusOf k; pure (k, st.varRate))
  let amounts ← specBorAmt cx env bor
  apyOf cx amounts rates

def specTotalApy (sup : AList String SupplyInfo) (bor : AList String BorrowInfo) : Res Rat := do
  let ts ← specTotalSupply cx env sup
  let tb ← specTotalBorrows cx env bor
  let sa ← specSupplyApy cx env sup
  let ba ← specBorrowApy cx env bor
  pure (netApyOf cx sa ts ba tb)

/-- `get_market_balance()` from scratch -/
def specBalance (sup : AList String SupplyInfo) (bor : AList String BorrowInfo) : Res Balance := do
  let ts ← specTotalSupply cx env sup
  let ts ← balQuant ts
  let tb ← specTotalBorrows cx env bor
  let tb ← balQuant tb
  let net := cx.sub ts tb
  let sa ← specSupplyApy cx env sup
  let sa ← balQuant sa
  let ba ← specBorrowApy cx env bor
  let ba ← balQuant ba
  let netApy := netApyOf cx sa ts ba tb
  let cnt ← (.ok (sup.length, bor.length) : Res (Nat × Nat))
  let lt ← specLiqThreshold cx env sup
  let lt ← safeRounding lt
  let hf ← specHealthFactor cx env sup bor
  let hf ← safeRounding hf
  let tc ← specTotalColl cx env sup
  let tc ← balQuant tc
  let ml ← specMaxLtv cx env sup
  let ml ← safeRounding ml
  let ltv ← specLtv cx env sup bor
  pure { netValue := net, suppliesCount := cnt.1, borrowsCount := cnt.2,
         liqThreshold := lt, healthFactor := hf, borrowsValue := tb, suppliesValue := ts,
         collateralsValue := tc, maxLtv := ml, ltv := ltv, supplyApy := sa, borrowApy := ba, netApy := netApy }

/-- `get_max_borrow_amount(token)` from scratch -/
def specMaxBorrowAmount (sup : AList String SupplyInfo) (bor : AList String BorrowInfo) (k : String) : Res Rat := do
  let cv ← specColl cx env sup
  let bv ← specBorAmt cx env bor
  let ml ← maxLtvOf cx env cv
  let tb := dsum cx (vals bv)
  let tc := dsum cx (vals cv)
  match ml with
  | .inf => .error .invalidOp
  | .fin l =>
    let v := cx.mul (cx.sub (cx.mul tc l) tb) Gen.aaveMaxBorrowUi
    do
      let p ← env.priceOf k
      divE cx v p

/-- the market's net value before the 4-dp quantisation: Σ supplies − Σ debts, from raw positions -/
def specNetValueRaw (sup : AList String SupplyInfo) (bor : AList String BorrowInfo) : Res Rat := do
  let ts ← specTotalSupply cx env sup
  let tb ← specTotalBorrows cx env bor
  pure (cx.sub ts tb)

end Demeter.Aave
