/-
  Demeter.Aave.Basic — state, environment, error classes and the little state/exception monad of the
  Aave v3 market model (`/repo/demeter/aave/market.py`).

  * `Env`   = what `set_market_status` installs for one bar: `_market_status.data` (per-token indices and rates),
              `_price_status`, plus the risk-parameter table and `is_open`.
  * `St`    = `_supplies`, `_borrows` (insertion-ordered dicts), the **five `DictCache`s as state**, the broker
              wallet, the action log and `has_update`.
  * `M α`   = `St → Except Err α × St`: a raised exception keeps the state the code left behind.
-/
import Demeter.Num
import Demeter.Wallet
import Demeter.Gen.ConstsAave
namespace Demeter.Aave
open Demeter

/-- arithmetic context plus `Decimal ** int` (not correctly rounded in CPython: `dpowNat` in the driver) -/
structure ACtx extends NumCtx where
  dpow : Rat → Nat → Rat

def ACtx.py : ACtx := { NumCtx.py with dpow := dpowNat 35 }

/-- Python exception raised, by call site / cause (the class is `Err.cls`). -/
inductive Err
  | closed              -- DemeterError: market is not open (write_func)
  | keyStatus           -- KeyError: `_market_status.data[token]`
  | keyPrice            -- KeyError: `_price_status[token]`
  | keyRisk             -- KeyError: `_risk_parameters.loc[token]`
  | keySupply           -- KeyError: `_supplies[token]`
  | keyBorrow           -- KeyError: `_borrows[token]`
  | keyCache            -- KeyError: lookup in a cache dict
  | divZero             -- decimal.DivisionByZero / InvalidOperation: division by a zero index or price
  | quantize            -- decimal.InvalidOperation: quantize result does not fit the precision
  | invalidOp           -- decimal.InvalidOperation: 0 * inf in get_max_borrow_value
  | cannotCollateral    -- AssertionError: "Can not supplied as collateral"
  | flagMismatch        -- AssertionError: "Collateral different from existing supply"
  | insufficient        -- AssertionError: Asset.sub "insufficient balance"
  | walletUnknown       -- DemeterError: token doesn't exist in assets dict
  | zeroAmount          -- AssertionError: "invalid amount"
  | exceedBalance       -- AssertionError: "not enough available user balance"
  | hfLow               -- AssertionError: "health factor lower than liquidation threshold"
  | borrowDisabled      -- AssertionError: "borrow is not enabled"
  | collZero            -- AssertionError: "collateral balance is zero"
  | ltvZero             -- AssertionError: "ltv validation failed"
  | cannotCover         -- AssertionError: "collateral cannot cover new borrow"
  | notSupplied         -- AssertionError: "token is not in supply" (repay with collateral)
  | notCollateral       -- AssertionError: "token is not in collateral" (repay with collateral)
  | noDebt              -- AssertionError: "no debt of selected type"
  | exceedDebt          -- AssertionError: "amount exceed debt"
  | subMissing          -- DemeterError: "not exist in supplies/borrows" (__sub_*_amount)
  | noneToken           -- AttributeError: `None.name`
  | liqNotEnabled       -- AssertionError: "collateral cannot be liquidated"
  | liqNoDebt           -- AssertionError: "specified currency not borrowed by user"
  | liqDebtExceeds      -- DemeterError: "variable_delt < actual_debt_to_liquidate"
  deriving DecidableEq, Repr

/-- Python class name of the exception -/
def Err.cls : Err → String
  | .closed | .walletUnknown | .subMissing | .liqDebtExceeds => "DemeterError"
  | .keyStatus | .keyPrice | .keyRisk | .keySupply | .keyBorrow | .keyCache => "KeyError"
  | .divZero | .quantize | .invalidOp => "ArithmeticError"
  | .noneToken => "AttributeError"
  | _ => "AssertionError"

def Err.tag : Err → String
  | .closed => "closed" | .keyStatus => "keyStatus" | .keyPrice => "keyPrice" | .keyRisk => "keyRisk"
  | .keySupply => "keySupply" | .keyBorrow => "keyBorrow" | .keyCache => "keyCache" | .divZero => "divZero"
  | .quantize => "quantize" | .invalidOp => "invalidOp" | .cannotCollateral => "cannotCollateral" | .flagMismatch => "flagMismatch"
  | .insufficient => "insufficient" | .walletUnknown => "walletUnknown" | .zeroAmount => "zeroAmount"
  | .exceedBalance => "exceedBalance" | .hfLow => "hfLow" | .borrowDisabled => "borrowDisabled"
  | .collZero => "collZero" | .ltvZero => "ltvZero" | .cannotCover => "cannotCover"
  | .notSupplied => "notSupplied" | .notCollateral => "notCollateral" | .noDebt => "noDebt"
  | .exceedDebt => "exceedDebt" | .subMissing => "subMissing" | .noneToken => "noneToken"
  | .liqNotEnabled => "liqNotEnabled" | .liqNoDebt => "liqNoDebt" | .liqDebtExceeds => "liqDebtExceeds"

/-- `except AssertionError` in `_liquidate` -/
def Err.isAssertion (e : Err) : Bool := e.cls == "AssertionError"

abbrev Res (α : Type) := Except Err α

/-- `Decimal` values that may be `Decimal("inf")` (`safe_div`) -/
inductive XRat
  | fin (r : Rat)
  | inf
  deriving DecidableEq, Repr

namespace XRat
/-- `x < r` -/
def ltR : XRat → Rat → Bool
  | fin a, r => a < r
  | inf, _ => false
/-- `x > r` -/
def gtR : XRat → Rat → Bool
  | fin a, r => a > r
  | inf, _ => true
/-- `x != 0` -/
def ne0 : XRat → Bool
  | fin a => a ≠ 0
  | inf => true
end XRat

/-! ### environment of one bar -/

/-- one token's columns of `_market_status.data` -/
structure TokStatus where
  liqRate : Rat
  varRate : Rat
  liqIdx  : Rat
  varIdx  : Rat
  deriving DecidableEq, Repr

/-- one row of the risk-parameter table (the columns the code reads) -/
structure Risk where
  canColl   : Bool     -- usageAsCollateralEnabled
  ltv       : Rat      -- baseLTVasCollateral
  lt        : Rat      -- reserveLiquidationThreshold
  bonus     : Rat      -- reserveLiquidationBonus
  canBorrow : Bool     -- borrowingEnabled
  deriving DecidableEq, Repr

structure Env where
  status : AList String TokStatus
  price  : AList String Rat
  risk   : AList String Risk
  isOpen : Bool
  deriving Repr

/-! ### state -/

/-- `SupplyInfo` -/
structure SupplyInfo where
  base     : Rat
  coll     : Bool
  beginIdx : Rat
  deriving DecidableEq, Repr

/-- `BorrowInfo` -/
structure BorrowInfo where
  base     : Rat
  beginIdx : Rat
  deriving DecidableEq, Repr

/-- `Supply` (the view object; `token` is the key) -/
structure SupplyV where
  base     : Rat
  coll     : Bool
  amount   : Rat
  apy      : Rat
  value    : Rat
  beginIdx : Rat
  deriving DecidableEq, Repr

/-- `Borrow` (view object) -/
structure BorrowV where
  base     : Rat
  amount   : Rat
  apy      : Rat
  value    : Rat
  beginIdx : Rat
  deriving DecidableEq, Repr

/-- `DictCache` -/
structure Cache (ν : Type) where
  empty : Bool
  val   : AList String ν
  deriving DecidableEq, Repr

namespace Cache
variable {ν : Type}
/-- `DictCache()` / `reset()` -/
def fresh : Cache ν := { empty := true, val := [] }
/-- `set(k, v)` -/
def set (c : Cache ν) (k : String) (v : ν) : Cache ν := { empty := false, val := AList.set c.val k v }
end Cache

/-- records passed to `_record_action` -/
inductive Action
  | supply (token : String) (amount : Rat) (coll : Bool) (after : Rat)
  | withdraw (token : String) (amount : Rat) (after : Rat)
  | borrow (token : String) (amount : Rat) (after : Rat)
  | repay (token : String) (amount : Rat) (after : Rat)
  | liquidation (collTok debtTok : String) (toCover collUsed debtLiq : Rat) (hfBefore hfAfter : XRat)
      (collAfter debtAfter : Rat)
  deriving DecidableEq, Repr

structure St where
  supplies  : AList String SupplyInfo
  borrows   : AList String BorrowInfo
  collC     : Cache Rat        -- _collaterals_amount_cache
  supAmtC   : Cache Rat        -- _supplies_amount_cache
  supC      : Cache SupplyV    -- _supplies_cache
  borAmtC   : Cache Rat        -- _borrows_amount_cache
  borC      : Cache BorrowV    -- _borrows_cache
  wallet    : Wallet
  actions   : List Action
  hasUpdate : Bool
  deriving Repr

/-- what C04 calls "the state": positions, debts, wallet, action log -/
structure Core where
  supplies : AList String SupplyInfo
  borrows  : AList String BorrowInfo
  wallet   : Wallet
  actions  : List Action
  deriving DecidableEq, Repr

def St.core (s : St) : Core := ⟨s.supplies, s.borrows, s.wallet, s.actions⟩

def St.init : St :=
  { supplies := [], borrows := [], collC := .fresh, supAmtC := .fresh, supC := .fresh, borAmtC := .fresh,
    borC := .fresh, wallet := [], actions := [], hasUpdate := false }

/-! ### the monad -/

/-- a computation that may raise; the state survives the raise -/
def M (α : Type) := St → Res α × St

namespace M
variable {α β : Type}
@[inline] def pure' (a : α) : M α := fun s => (.ok a, s)
@[inline] def bind' (m : M α) (f : α → M β) : M β := fun s =>
  match m s with
  | (.ok a, s') => f a s'
  | (.error e, s') => (.error e, s')
instance : Monad M where
  pure := pure'
  bind := bind'
/-- `raise` -/
@[inline] def throw (e : Err) : M α := fun s => (.error e, s)
@[inline] def get : M St := fun s => (.ok s, s)
@[inline] def modify (f : St → St) : M Unit := fun s => (.ok (), f s)
/-- lift a pure computation that may raise -/
@[inline] def ofRes (r : Res α) : M α := fun s => (r, s)
/-- a read of the raw positions only (`self._supplies`, `self._borrows`); nothing changes -/
@[inline] def queryPos (q : AList String SupplyInfo → AList String BorrowInfo → Res α) : M α :=
  fun s => (q s.supplies s.borrows, s)
/-- `require(cond, msg)` -/
@[inline] def require (c : Bool) (e : Err) : M Unit := fun s => if c then (.ok (), s) else (.error e, s)
end M

def optRes {α : Type} (o : Option α) (e : Err) : Res α :=
  match o with
  | some a => .ok a
  | none => .error e

/-! ### environment lookups (`KeyError` when the token is not there) -/

def Env.statusOf (env : Env) (k : String) : Res TokStatus := optRes (AList.get? env.status k) .keyStatus
def Env.priceOf (env : Env) (k : String) : Res Rat := optRes (AList.get? env.price k) .keyPrice
def Env.riskOf (env : Env) (k : String) : Res Risk := optRes (AList.get? env.risk k) .keyRisk

/-- `a / b` on Decimals with a zero divisor raising -/
def divE (cx : ACtx) (a b : Rat) : Res Rat := if b = 0 then .error .divZero else .ok (cx.div a b)

/-- `x.quantize(Decimal(10) ** -k)` under the context precision: `InvalidOperation` when the coefficient of
    the result needs more than `prec` digits -/
def quantE (k : Nat) (x : Rat) : Res Rat :=
  let q := quantHalfEven k x
  if ratAbs q * (pow10 k : Nat) < (pow10 Gen.decimalPrec : Nat) then .ok q else .error .quantize

/-- `sum(values)`: Python starts from int 0 and adds left to right, every `+` rounded -/
def dsum (cx : ACtx) (xs : List Rat) : Rat := xs.foldl (fun acc x => cx.add acc x) 0

/-- `AaveV3CoreLib.rate_to_apy` -/
def rateToApy (cx : ACtx) (rate : Rat) : Rat :=
  cx.sub (cx.dpow (cx.add 1 (cx.div rate Gen.aaveSecondsInYear)) Gen.aaveSecondsInYear) 1

/-- `helper.sub_base_amount`: residue below `MIN_TOKEN_VALUE` (a float: its exact binary value) becomes 0 -/
def subBase (cx : ACtx) (old v : Rat) : Rat :=
  let n := cx.sub old v
  if n < Gen.aaveMinTokenValue then 0 else n

/-- values of a dict in iteration order -/
def vals {ν : Type} (m : AList String ν) : List ν := m.map (·.2)
def keys {ν : Type} (m : AList String ν) : List String := m.map (·.1)

end Demeter.Aave
