/-
  Demeter.Trigger — the trigger classes of demeter/strategy/trigger.py and the part of the bar loop that
  evaluates and retires them (demeter/core/actuator.py:431-438).

  Time is an `Int` number of seconds since a minute-aligned epoch chosen by the caller (the harness uses the
  midnight before the first bar).  `to_minute` floors to a multiple of 60.  A bar grid is any strictly
  increasing list of times; the arithmetic grids (start, interval, length) of the real loop are an instance.

  The model mirrors the code *as repaired* (see /verif/known_findings.jsonl, property C18):
    * `AtTimesTrigger.when`   : `snapshot.timestamp in self._time`
    * `PeriodTrigger.when`    : due times that fell between two bars are skipped (`while next < now: next += delta`)
    * `PeriodsTrigger.when`   : every period that is due is advanced, the answer is the disjunction
    * `_check_time_delta`     : rejects non-positive periods as well as fractions of a minute
  What still raises in the code raises in the model: `max([])` in `is_out_date` of an `AtTimesTrigger` /
  `TimeRangesTrigger` built from an empty list (ValueError) and `self._next_matches[0]` of a `PeriodsTrigger`
  built from an empty list (IndexError).
-/
import Demeter.Gen.ConstsCore
namespace Demeter.Core

/-- Python exception classes the bar loop can meet -/
inductive PyErr
  | typeError | valueError | indexError | keyError | demeterError
  | diverges     -- not an exception: the call does not return (a `notify` hook that answers every delivery with a new accepted operation)
deriving DecidableEq, Repr, Inhabited

def PyErr.name : PyErr → String
  | .typeError => "TypeError"
  | .valueError => "ValueError"
  | .indexError => "IndexError"
  | .keyError => "KeyError"
  | .demeterError => "DemeterError"
  | .diverges => "(does not return)"

/-- `to_minute(time)`: drop the seconds -/
def toMinute (s : Int) : Int := s - s % Gen.coreMinuteSec

/-- what the user passes to a trigger constructor (times in seconds, before `to_minute`) -/
inductive TrigSpec
  | base                                                   -- `Trigger(do)`: never fires
  | atTime (s : Int)
  | atTimes (ss : List Int)
  | range (s e : Int)
  | ranges (rs : List (Int × Int))
  | period (δ : Int) (imm : Bool) (pend : Int)
  | periods (δs : List Int) (imm : Bool) (pend : Int)
deriving DecidableEq, Repr, Inhabited

/-- a trigger object: constructor parameters after normalisation, plus the mutable fields.
    `period … next`: `_next_match` (`none` = `None`).  `periods … nexts`: `_next_matches`, which is either all
    `None` (`none`) or all set (`some l`, `l.length = δs.length`). -/
inductive TrigKind
  | base
  | atTime (t : Int)
  | atTimes (ts : List Int)
  | range (s e : Int)
  | ranges (rs : List (Int × Int))
  | period (δ : Int) (imm : Bool) (pend : Int) (next : Option Int)
  | periods (δs : List Int) (imm : Bool) (pend : Int) (nexts : Option (List Int))
deriving DecidableEq, Repr, Inhabited

/-- `_check_time_delta`: `True` = raises DemeterError("min time span is 1 minute") -/
def badDelta (δ : Int) : Bool := δ % Gen.coreTrigDeltaMod != 0 || decide (δ ≤ Gen.coreTrigDeltaLow)

/-- the constructors (`__init__`) -/
def TrigSpec.make : TrigSpec → Except PyErr TrigKind
  | .base => .ok .base
  | .atTime s => .ok (.atTime (toMinute s))
  | .atTimes ss => .ok (.atTimes (ss.map toMinute))
  | .range s e => .ok (.range (toMinute s) (toMinute e))
  | .ranges rs => .ok (.ranges (rs.map fun r => (toMinute r.1, toMinute r.2)))
  | .period δ imm pend => if badDelta δ then .error .demeterError else .ok (.period δ imm pend none)
  | .periods δs imm pend => if δs.any badDelta then .error .demeterError else .ok (.periods δs imm pend none)

/-- `max(xs)` of a Python list; `none` = ValueError on the empty list -/
def listMax : List Int → Option Int
  | [] => none
  | x :: xs => match listMax xs with
    | none => some x
    | some m => some (if x < m then m else x)

/-- `while next < now: next += delta`, with a fuel argument (structural recursion) -/
def advanceFuel : Nat → Int → Int → Int → Int
  | 0, _, next, _ => next
  | f + 1, δ, next, now => if next < now then advanceFuel f δ (next + δ) now else next

/-- the loop with enough fuel: every iteration adds `delta ≥ 1` (the constructor guarantees `0 < delta`), so
    `now - next` iterations suffice (`advance_spec` in Proofs/Lemmas/CoreTrigger.lean).  For `delta ≤ 0` the Python loop
    would not terminate; the constructor makes that unreachable and no theorem relies on the value returned here. -/
def advance (δ next now : Int) : Int := advanceFuel (now - next).toNat δ next now

/-- one period of a Period(s)Trigger on one bar: skip what fell between bars, fire if due now -/
def stepOne (now δ next : Int) : Bool × Int :=
  let n := advance δ next now
  if n = now then (true, n + δ) else (false, n)

/-- the loop of `PeriodsTrigger.when` over `range(len(self._deltas))` -/
def stepAll (now : Int) : List Int → List Int → Bool × List Int
  | δ :: δs, n :: ns =>
    let r := stepOne now δ n
    let rest := stepAll now δs ns
    (r.1 || rest.1, r.2 :: rest.2)
  | _, ns => (false, ns)

/-- exception raised by `when`, if any (it depends on the constructor arguments only) -/
def whenErr : TrigKind → Option PyErr
  | .periods [] _ _ _ => some .indexError            -- `self._next_matches[0]` on an empty list
  | _ => none

/-- `when(snapshot)`: the answer and the object afterwards -/
def whenT (now : Int) : TrigKind → Bool × TrigKind
  | .base => (false, .base)
  | .atTime t => (now == t, .atTime t)
  | .atTimes ts => (ts.contains now, .atTimes ts)
  | .range s e => (decide (s ≤ now) && decide (now < e), .range s e)
  | .ranges rs => (rs.any (fun r => decide (r.1 ≤ now) && decide (now < r.2)), .ranges rs)
  | .period δ imm pend none => (imm, .period δ imm pend (some (now + δ + pend)))
  | .period δ imm pend (some n) =>
    let r := stepOne now δ n
    (r.1, .period δ imm pend (some r.2))
  | .periods δs imm pend none => (imm, .periods δs imm pend (some (δs.map fun d => now + d + pend)))
  | .periods δs imm pend (some ns) =>
    let r := stepAll now δs ns
    (r.1, .periods δs imm pend (some r.2))

/-- exception raised by `is_out_date`, if any -/
def outErr : TrigKind → Option PyErr
  | .atTimes [] => some .valueError
  | .ranges [] => some .valueError
  | _ => none

/-- `is_out_date(t)` -/
def outOfDate (now : Int) : TrigKind → Bool
  | .atTime t => decide (t ≤ now)
  | .atTimes ts => match listMax ts with
    | some m => decide (m ≤ now)
    | none => false
  | .range _ e => decide (e ≤ now)
  | .ranges rs => match listMax (rs.map (·.2)) with
    | some m => decide (m ≤ now)
    | none => false
  | _ => false

/-- `reset()`: `PeriodTrigger` / `PeriodsTrigger` forget their next due time(s), the other classes keep no state
    (`Trigger.reset` is a no-op) -/
def TrigKind.reset : TrigKind → TrigKind
  | .period δ imm pend _ => .period δ imm pend none
  | .periods δs imm pend _ => .periods δs imm pend none
  | k => k

/-- an installed trigger: position in `strategy.triggers` at installation, the extra keyword arguments
    (an opaque payload the harness serialises), the object -/
structure Trig where
  id : Nat
  kw : String
  k : TrigKind
deriving DecidableEq, Repr, Inhabited

def Trig.reset (t : Trig) : Trig := { t with k := t.k.reset }

/-- one call of the action: bar time, which trigger, the keyword arguments it received -/
structure Fire where
  ts : Int
  id : Nat
  kw : String
deriving DecidableEq, Repr, Inhabited

/-- `for trigger in triggers: if trigger.when(snapshot): trigger.do(snapshot)` — calls made, objects
    afterwards, and the exception that ended the loop (the calls before it have happened) -/
def fireLoop (now : Int) : List Trig → List Fire × List Trig × Option PyErr
  | [] => ([], [], none)
  | t :: rest =>
    match whenErr t.k with
    | some e => ([], t :: rest, some e)
    | none =>
      let r := whenT now t.k
      let t' : Trig := { t with k := r.2 }
      let out := fireLoop now rest
      ((if r.1 then [⟨now, t.id, t.kw⟩] else []) ++ out.1, t' :: out.2.1, out.2.2)

/-- `[x for x in triggers if not x.is_out_date(now)]` -/
def retire (now : Int) : List Trig → List Trig × Option PyErr
  | [] => ([], none)
  | t :: rest =>
    match outErr t.k with
    | some e => (t :: rest, some e)
    | none =>
      let out := retire now rest
      (if outOfDate now t.k then out.1 else t :: out.1, out.2)

/-- the trigger part of one bar -/
def trigPhase (now : Int) (trigs : List Trig) : List Fire × List Trig × Option PyErr :=
  let r := fireLoop now trigs
  match r.2.2 with
  | some e => (r.1, r.2.1, some e)
  | none =>
    let q := retire now r.2.1
    (r.1, q.1, q.2)

/-- the trigger part of a whole run over the bar times `bars` -/
def trigRun : List Int → List Trig → List Fire × List Trig × Option PyErr
  | [], trigs => ([], trigs, none)
  | t :: bars, trigs =>
    let r := trigPhase t trigs
    match r.2.2 with
    | some e => (r.1, r.2.1, some e)
    | none =>
      let out := trigRun bars r.2.1
      (r.1 ++ out.1, out.2.1, out.2.2)

/-- install constructed triggers: ids are list positions -/
def installFrom (i : Nat) : List (String × TrigKind) → List Trig
  | [] => []
  | (kw, k) :: rest => ⟨i, kw, k⟩ :: installFrom (i + 1) rest

def install (l : List (String × TrigKind)) : List Trig := installFrom 0 l

/-! ### what each specification denotes -/

/-- `x = base + k·δ` for some `k ≥ 1` (decidable form; see `onLat_iff` in Proofs/C18) -/
def onLat (δ base x : Int) : Bool := decide (0 < δ) && (x - base) % δ == 0 && decide (δ ≤ x - base)

/-- the set of times a specification denotes, for a trigger whose first evaluation is at `t0` -/
def denotes (t0 : Int) : TrigSpec → Int → Bool
  | .base, _ => false
  | .atTime s, t => t == toMinute s
  | .atTimes ss, t => (ss.map toMinute).contains t
  | .range s e, t => decide (toMinute s ≤ t) && decide (t < toMinute e)
  | .ranges rs, t => rs.any fun r => decide (toMinute r.1 ≤ t) && decide (t < toMinute r.2)
  | .period δ imm pend, t => (imm && t == t0) || (decide (t0 < t) && onLat δ (t0 + pend) t)
  | .periods δs imm pend, t => (imm && t == t0) || (decide (t0 < t) && δs.any fun δ => onLat δ (t0 + pend) t)

/-- the arithmetic bar grid `start, start+Δ, …` of `n` bars -/
def grid (start Δ : Int) (n : Nat) : List Int := (List.range n).map fun (i : Nat) => start + (i : Int) * Δ

end Demeter.Core
