/-
  Demeter.Trigger — the trigger classes of demeter/strategy/trigger.py and the part of the bar loop that
  evaluates and retires them (demeter/core/actuator.py:431-438).

  Time is an `Int` number of seconds since a minute-aligned epoch chosen by the caller (the harness uses the
  midnight before the first bar).  `to_minute` floors to a multiple of 60.  A bar grid is any strictly
  increasing list of times; the arithmetic grids (start, interval, length) of the real loop are an instance.

  The model mirrors the code *as repaired* (see /verif/known_findings.jsonl, property C18):
    * `AtTimesTrigger.when`   : `snapshot.timestamp in self._time`
    * `PeriodTrigger.when`    : due times that fell between two bars are skipped (`while next < now: next += delta`)
    * `PeriodsTrigger.when`   : every period that is due is advanced, the answer is the disjunction
    * `_check_time_delta`     : rejects non-positive periods as well as fractions of a minute
  What still raises in the code raises in the model: `max([])` in `is_out_date` of an `AtTimesTrigger` /
  `TimeRangesTrigger` built from an empty list (ValueError) and `self._next_matches[0]` of a `PeriodsTrigger`
  built from an empty list (IndexError).
-/
import Demeter.Gen.ConstsCore
namespace Demeter.Core

/-- Python exception classes the bar loop can meet -/
inductive PyErr
  | typeError | valueError | indexError | keyError | demeterError
  | diverges     -- not an exception: the call does not return (a `notify` hook that answers every delivery with a new accepted operation)
  | hookError          -- an exception class of the strategy's own that is not a `RuntimeError`, raised by a hook and not caught by it
  | hookRuntimeError   -- a `RuntimeError` subclass raised by a hook (`DemeterError` is one: an uncaught refusal of an operation)
deriving DecidableEq, Repr, Inhabited

def PyErr.name : PyErr → String
  | .typeError => "TypeError"
  | .valueError => "ValueError"
  | .indexError => "IndexError"
  | .keyError => "KeyError"
  | .demeterError => "DemeterError"
  | .diverges => "(does not return)"
  | .hookError => "HookError"
  | .hookRuntimeError => "HookRuntimeError"

/-- `isinstance(e, RuntimeError)`: what the `except RuntimeError` clause around the bar loop catches (`DemeterError(RuntimeError)`, _typing.py) -/
def PyErr.isRuntime : PyErr → Bool
  | .demeterError => Gen.coreDemeterErrorIsRuntimeError
  | .hookRuntimeError => true
  | _ => false

/-- `to_minute(time)`: drop the seconds -/
def toMinute (s : Int) : Int := s - s % Gen.coreMinuteSec

/-- what the user passes to a trigger constructor (times in seconds, before `to_minute`) -/
inductive TrigSpec
  | base                                                   -- `Trigger(do)`: never fires
  | atTime (s : Int)
  | atTimes (ss : List Int)
  | range (s e : Int)
  | ranges (rs : List (Int × Int))
  | period (δ : Int) (imm : Bool) (pend : Int)
  | periods (δs : List Int) (imm : Bool) (pend : Int)
deriving DecidableEq, Repr, Inhabited

/-- a trigger object: constructor parameters after normalisation, plus the mutable fields.
    `period … next`: `_next_match` (`none` = `None`).  `periods … nexts`: `_next_matches`, which is either all
    `None` (`none`) or all set (`some l`, `l.length = δs.length`). -/
inductive TrigKind
  | base
  | atTime (t : Int)
  | atTimes (ts : List Int)
  | range (s e : Int)
  | ranges (rs : List (Int × Int))
  | period (δ : Int) (imm : Bool) (pend : Int) (next : Option Int)
  | periods (δs : List Int) (imm : Bool) (pend : Int) (nexts : Option (List Int))
deriving DecidableEq, Repr, Inhabited

/-- `_check_time_delta`: `True` = raises DemeterError("min time span is 1 minute") -/
def badDelta (δ : Int) : Bool := δ % Gen.coreTrigDeltaMod != 0 || decide (δ ≤ Gen.coreTrigDeltaLow)

/-- the constructors (`__init__`) -/
def TrigSpec.make : TrigSpec → Except PyErr TrigKind
  | .base => .ok .base
  | .atTime s => .ok (.atTime (toMinute s))
  | .atTimes ss => .ok (.atTimes (ss.map toMinute))
  | .range s e => .ok (.range (toMinute s) (toMinute e))
  | .ranges rs => .ok (.ranges (rs.map fun r => (toMinute r.1, toMinute r.2)))
  | .period δ imm pend => if badDelta δ then .error .demeterError else .ok (.period δ imm pend none)
  | .periods δs imm pend => if δs.any badDelta then .error .demeterError else .ok (.periods δs imm pend none)

/-- `max(xs)` of a Python list; `none` = ValueError on the empty list -/
def listMax : List Int → Option Int
  | [] => none
  | x :: xs => match listMax xs with
    | none => some x
    | some m => some (if x < m then m else x)

/-- `while next < now: next += delta`, with a fuel argument (structural recursion) -/
def advanceFuel : Nat → Int → Int → Int → Int
  | 0, _, next, _ => next
  | f + 1, δ, next, now => if next < now then advanceFuel f δ (next + δ) now else next

/-- the loop with enough fuel: every iteration adds `delta ≥ 1` (the constructor guarantees `0 < delta`), so
    `now - next` iterations suffice (`advance_spec` in Proofs/Lemmas/CoreTrigger.lean).  For `delta ≤ 0` the Python loop
    would not terminate; the constructor makes that unreachable and no theorem relies on the value returned here. -/
def advance (δ next now : Int) : Int := advanceFuel (now - next).toNat δ next now

/-- one period of a Period(s)Trigger on one bar: skip what fell between bars, fire if due now -/
def stepOne (now δ next : Int) : Bool × Int :=
  let n := advance δ next now
  if n = now then (true, n + δ) else (false, n)

/-- the loop of `PeriodsTrigger.when` over `range(len(self._deltas))` -/
def stepAll (now : Int) : List Int → List Int → Bool × List Int
  | δ :: δs, n :: ns =>
    let r := stepOne now δ n
    let rest := stepAll now δs ns
    (r.1 || rest.1, r.2 :: rest.2)
  | _, ns => (false, ns)

/-- exception raised by `when`, if any (it depends on the constructor arguments only) -/
def whenErr : TrigKind → Option PyErr
  | .periods [] _ _ _ => some .indexError            -- `self._next_matches[0]` on an empty list
  | _ => none

/-- `when(snapshot)`: the answer and the object afterwards -/
def whenT (now : Int) : TrigKind → Bool × TrigKind
  | .base => (false, .base)
  | .atTime t => (now == t, .atTime t)
  | .atTimes ts => (ts.contains now, .atTimes ts)
  | .range s e => (decide (s ≤ now) && decide (now < e), .range s e)
  | .ranges rs => (rs.any (fun r => decide (r.1 ≤ now) && decide (now < r.2)), .ranges rs)
  | .period δ imm pend none => (imm, .period δ imm pend (some (now + δ + pend)))
  | .period δ imm pend (some n) =>
    let r := stepOne now δ n
    (r.1, .period δ imm pend (some r.2))
  | .periods δs imm pend none => (imm, .periods δs imm pend (some (δs.map fun d => now + d + pend)))
  | .periods δs imm pend (some ns) =>
    let r := stepAll now δs ns
    (r.1, .periods δs imm pend (some r.2))

/-- exception raised by `is_out_date`, if any -/
def outErr : TrigKind → Option PyErr
  | .atTimes [] => some .valueError
  | .ranges [] => some .valueError
  | _ => none

/-- `is_out_date(t)` -/
def outOfDate (now : Int) : TrigKind → Bool
  | .atTime t => decide (t ≤ now)
  | .atTimes ts => match listMax ts with
    | some m => decide (m ≤ now)
    | none => false
  | .range _ e => decide (e ≤ now)
  | .ranges rs => match listMax (rs.map (·.2)) with
    | some m => decide (m ≤ now)
    | none => false
  | _ => false

/-- `reset()`: `PeriodTrigger` / `PeriodsTrigger` forget their next due time(s), the other classes keep no state
    (`Trigger.reset` is a no-op) -/
def TrigKind.reset : TrigKind → TrigKind
  | .period δ imm pend _ => .period δ imm pend none
  | .periods δs imm pend _ => .periods δs imm pend none
  | k => k

/-- an installed trigger: position in `strategy.triggers` at installation, the extra keyword arguments
    (an opaque payload the harness serialises), the object -/
structure Trig where
  id : Nat
  kw : String
  k : TrigKind
deriving DecidableEq, Repr, Inhabited

def Trig.reset (t : Trig) : Trig := { t with k := t.k.reset }

/-- one call of the action: bar time, which trigger, the keyword arguments it received -/
structure Fire where
  ts : Int
  id : Nat
  kw : String
deriving DecidableEq, Repr, Inhabited

/-- `for trigger in triggers: if trigger.when(snapshot): trigger.do(snapshot)` — calls made, objects
    afterwards, and the exception that ended the loop (the calls before it have happened) -/
def fireLoop (now : Int) : List Trig → List Fire × List Trig × Option PyErr
  | [] => ([], [], none)
  | t :: rest =>
    match whenErr t.k with
    | some e => ([], t :: rest, some e)
    | none =>
      let r := whenT now t.k
      let t' : Trig := { t with k := r.2 }
      let out := fireLoop now rest
      ((if r.1 then [⟨now, t.id, t.kw⟩] else []) ++ out.1, t' :: out.2.1, out.2.2)

/-- `[x for x in triggers if not x.is_out_date(now)]` -/
def retire (now : Int) : List Trig → List Trig × Option PyErr
  | [] => ([], none)
  | t :: rest =>
    match outErr t.k with
    | some e => (t :: rest, some e)
    | none =>
      let out := retire now rest
      (if outOfDate now t.k then out.1 else t :: out.1, out.2)

/-- the trigger part of one bar -/
def trigPhase (now : Int) (trigs : List Trig) : List Fire × List Trig × Option PyErr :=
  let r := fireLoop now trigs
  match r.2.2 with
  | some e => (r.1, r.2.1, some e)
  | none =>
    let q := retire now r.2.1
    (r.1, q.1, q.2)

/-- the trigger part of a whole run over the bar times `bars` -/
def trigRun : List Int → List Trig → List Fire × List Trig × Option PyErr
  | [], trigs => ([], trigs, none)
  | t :: bars, trigs =>
    let r := trigPhase t trigs
    match r.2.2 with
    | some e => (r.1, r.2.1, some e)
    | none =>
      let out := trigRun bars r.2.1
      (r.1 ++ out.1, out.2.1, out.2.2)

/-! ### hooks that change `strategy.triggers` while the loop runs over it

  `for trigger in self._strategy.triggers:` (actuator.py) iterates the LIVE list: CPython's list iterator keeps the list object and
  an index, and every step is `if index < len(list): x = list[index]; index += 1`.  A `do` callback that appends to the list or removes
  from it therefore changes what the remaining steps see:

    * an appended trigger is reached later in the same loop — it is evaluated on the very bar it was installed on;
    * removing an element AT OR BEFORE the cursor (the trigger that is running, or one visited earlier) moves everything behind it one
      slot down while the index goes on: the element that followed the running trigger is never fetched on this bar — its `when` is not
      called, it does not fire even if the bar is one of its times, and a period trigger's schedule is not touched;
    * removing an element ahead of the cursor just takes it out.

  Ids identify objects (`list.remove` compares with `==`, which is identity for triggers); a script removes a trigger only if it is
  installed (`if t in self.triggers: self.triggers.remove(t)`), so removal of an absent id does nothing; an object is never installed twice at
  the same time (appended triggers are new objects).  `list.insert` and rebinding `strategy.triggers` inside a `do` callback are not modelled. -/

/-- what a hook does to `strategy.triggers` -/
inductive TMut
  | add (t : Trig)      -- `self.triggers.append(t)`
  | del (id : Nat)      -- `if t in self.triggers: self.triggers.remove(t)`
deriving DecidableEq, Repr, Inhabited

/-- `list.remove`: the first element with this id goes -/
def eraseId (id : Nat) : List Trig → List Trig
  | [] => []
  | t :: l => if t.id = id then l else t :: eraseId id l

def applyMut : TMut → List Trig → List Trig
  | .add t, l => l ++ [t]
  | .del id, l => eraseId id l

def applyMuts : List TMut → List Trig → List Trig
  | [], l => l
  | m :: ms, l => applyMuts ms (applyMut m l)

/-- the loop of the code, index by index: `i` is the iterator's index, the list is `strategy.triggers` as it is now, `mut id` is what the
    action of trigger `id` does to the list on this bar.  A `do` that installs a trigger which fires at once and installs another one … never
    lets the loop end: the model follows `fuel` steps and answers `diverges` if the index is still inside the list then. -/
def dynLoop (mu : Nat → List TMut) (now : Int) : Nat → Nat → List Trig → List Fire × List Trig × Option PyErr
  | 0, i, l => ([], l, if i < l.length then some .diverges else none)
  | fuel + 1, i, l =>
    match l[i]? with
    | none => ([], l, none)
    | some t =>
      match whenErr t.k with
      | some e => ([], l, some e)
      | none =>
        let r := whenT now t.k
        let l1 := l.set i { t with k := r.2 }
        if r.1 then
          let q := dynLoop mu now fuel (i + 1) (applyMuts (mu t.id) l1)
          (⟨now, t.id, t.kw⟩ :: q.1, q.2.1, q.2.2)
        else dynLoop mu now fuel (i + 1) l1

/-- the trigger part of one bar when the actions may change the list: `extra` further steps are followed beyond the length the list has when
    the loop starts -/
def trigPhaseD (mu : Nat → List TMut) (extra : Nat) (now : Int) (trigs : List Trig) : List Fire × List Trig × Option PyErr :=
  let r := dynLoop mu now (trigs.length + extra) 0 trigs
  match r.2.2 with
  | some e => (r.1, r.2.1, some e)
  | none =>
    let q := retire now r.2.1
    (r.1, q.1, q.2)

/-- a whole run: `mu row id` is what the action of trigger `id` does to the list on bar number `row`.  Also returned: the ids installed
    after the retirement of every bar (what `on_bar` finds in `self.triggers`). -/
def trigRunD (mu : Nat → Nat → List TMut) (extra : Nat) : Nat → List Int → List Trig → List Fire × List (List Nat) × List Trig × Option PyErr
  | _, [], trigs => ([], [], trigs, none)
  | row, t :: bars, trigs =>
    let r := trigPhaseD (mu row) extra t trigs
    match r.2.2 with
    | some e => (r.1, [], r.2.1, some e)
    | none =>
      let out := trigRunD mu extra (row + 1) bars r.2.1
      (r.1 ++ out.1, r.2.1.map (·.id) :: out.2.1, out.2.2.1, out.2.2.2)

/-- **the cursor reading of the same loop.**  `done`: the slots the iterator has passed, `todo`: the slots ahead of it, `debt`: how many
    slots the index is beyond the end of the list (only when nothing is ahead).  Visiting takes the head of `todo`; an append goes to the
    end of `todo` — unless the index is beyond the end, then the new element lands in a slot the iterator has passed already and is never
    fetched on this bar; a removal among `done` lets the head of `todo` slide into a passed slot unevaluated (or, with nothing ahead, puts
    the index beyond the end); a removal ahead takes the element out.  `Proofs/C18/Dynamic.lean` proves `dynLoop` equal to this. -/
structure Cursor where
  done : List Trig
  todo : List Trig
  debt : Nat
deriving Repr, Inhabited

def Cursor.list (c : Cursor) : List Trig := c.done ++ c.todo

def Cursor.mut : TMut → Cursor → Cursor
  | .add t, c => if c.debt = 0 then { c with todo := c.todo ++ [t] } else { c with done := c.done ++ [t], debt := c.debt - 1 }
  | .del id, c =>
    if c.done.any (·.id == id) then
      match c.todo with
      | [] => { c with done := eraseId id c.done, debt := c.debt + 1 }
      | u :: rest => { c with done := eraseId id c.done ++ [u], todo := rest }
    else { c with todo := eraseId id c.todo }

def Cursor.muts : List TMut → Cursor → Cursor
  | [], c => c
  | m :: ms, c => Cursor.muts ms (Cursor.mut m c)

def cursorLoop (mu : Nat → List TMut) (now : Int) : Nat → Cursor → List Fire × Cursor × Option PyErr
  | 0, c => ([], c, if c.todo.isEmpty then none else some .diverges)
  | fuel + 1, c =>
    match c.todo with
    | [] => ([], c, none)
    | t :: rest =>
      match whenErr t.k with
      | some e => ([], c, some e)
      | none =>
        let r := whenT now t.k
        let c1 : Cursor := { c with done := c.done ++ [{ t with k := r.2 }], todo := rest }
        if r.1 then
          let q := cursorLoop mu now fuel (Cursor.muts (mu t.id) c1)
          (⟨now, t.id, t.kw⟩ :: q.1, q.2.1, q.2.2)
        else cursorLoop mu now fuel c1

/-- install constructed triggers: ids are list positions -/
def installFrom (i : Nat) : List (String × TrigKind) → List Trig
  | [] => []
  | (kw, k) :: rest => ⟨i, kw, k⟩ :: installFrom (i + 1) rest

def install (l : List (String × TrigKind)) : List Trig := installFrom 0 l

/-! ### what each specification denotes -/

/-- `x = base + k·δ` for some `k ≥ 1` (decidable form; see `onLat_iff` in Proofs/C18) -/
def onLat (δ base x : Int) : Bool := decide (0 < δ) && (x - base) % δ == 0 && decide (δ ≤ x - base)

/-- the set of times a specification denotes, for a trigger whose first evaluation is at `t0` -/
def denotes (t0 : Int) : TrigSpec → Int → Bool
  | .base, _ => false
  | .atTime s, t => t == toMinute s
  | .atTimes ss, t => (ss.map toMinute).contains t
  | .range s e, t => decide (toMinute s ≤ t) && decide (t < toMinute e)
  | .ranges rs, t => rs.any fun r => decide (toMinute r.1 ≤ t) && decide (t < toMinute r.2)
  | .period δ imm pend, t => (imm && t == t0) || (decide (t0 < t) && onLat δ (t0 + pend) t)
  | .periods δs imm pend, t => (imm && t == t0) || (decide (t0 < t) && δs.any fun δ => onLat δ (t0 + pend) t)

/-- the arithmetic bar grid `start, start+Δ, …` of `n` bars -/
def grid (start Δ : Int) (n : Nat) : List Int := (List.range n).map fun (i : Nat) => start + (i : Int) * Δ

end Demeter.Core
