/-
  Demeter.Manager — model of demeter/core/backtest.py (`_start`, `BacktestManager.run`) together with the two places
  outside it that decide whether a backtest works on its own objects: `Actuator.set_price` (price frame) and the
  Deribit helper `get_new_order_list` (the market's own write path into order-book lists).

  A strategy, together with the Actuator and the markets that drive it, is an arbitrary transformer of the objects it
  is handed.  Those objects come in layers that are copied by different means:

  * `M` — the configured market objects, with the references between them (a SqueethMarket holds its UniLpMarket);
  * `C` — the column structure of the data frames (what `Strategy.add_column` changes): private under a shallow copy;
  * `V` — the values of the frames' cells (`df.loc[…] = x`, `df.iloc[…] = x`): private under a shallow copy only
          with pandas copy-on-write;
  * `N` — the state of the Python objects stored *inside* cells (Deribit order books are lists of `[price, amount]`):
          reached through a cell, duplicated by no DataFrame copy, shallow or deep — only by copying the cells;
  * `P` — the price frame `BacktestData.prices`.

  What a strategy leaves behind in them and what its `finalize()` observes (`O`: account history, final positions) are
  arbitrary functions of what it found.  The manager's data flow — which objects are shared between strategies, which
  are copies — is modelled exactly; process scheduling is the parameter `assign` (which worker executes which task).
-/
import Demeter.Gen.ConstsManager
namespace Demeter.Manager

/-- the data a backtest is handed besides the markets: `BacktestData`, layer by layer -/
structure Data (C V N P : Type) where
  /-- column structure of the frames -/
  cols : C
  /-- values of the frames' cells -/
  vals : V
  /-- Python objects nested inside cells (order-book lists) -/
  cells : N
  /-- the price frame -/
  prices : P
deriving Repr, DecidableEq

/-- one full backtest of one strategy: `Actuator.run()` on the attached markets `m` and the data `d` -/
structure Strat (M C V N P O : Type) where
  /-- what the run leaves in the market objects and — by the strategy's own writes — in every layer of the data it was
      handed (added columns, overwritten values, in-place writes into nested lists, writes into `self.prices`), and what
      `finalize()` observes -/
  run : M → Data C V N P → M × Data C V N P × O
  /-- the depth the market's own fill path takes out of the order-book lists during that run (`buy`/`sell` write
      `get_new_order_list(instrument.asks, used)` back): it reaches the frame's lists only if that helper decrements the
      lists it was given instead of a deep copy -/
  fills : M → Data C V N P → N → N

/-- how `_start` copies `config.markets` -/
inductive MarketsCopy
  /-- the configured objects themselves are attached to the broker -/
  | none
  /-- `market = copy.deepcopy(market)` one by one: an object several markets refer to is duplicated per market -/
  | each
  /-- `copy.deepcopy(config.markets)`: one copy of the whole object graph -/
  | whole
deriving Repr, DecidableEq

/-- when `Actuator.set_price` keeps a frame of its own (`prices = prices.map(to_decimal)`) -/
inductive PriceCopy
  /-- unconditionally -/
  | always
  /-- only if the conversion is needed; a frame whose cells are Decimal already is adopted as it is -/
  | unlessDecimal
  /-- never: the caller's frame is adopted -/
  | never
deriving Repr, DecidableEq

def MarketsCopy.ofCode : Nat → MarketsCopy
  | 0 => .none
  | 1 => .each
  | _ => .whole

def PriceCopy.ofCode : Nat → PriceCopy
  | 0 => .always
  | 1 => .unlessDecimal
  | _ => .never

/-- does `set_price` adopt the caller's frame, given whether its cells are all Decimal -/
def PriceCopy.adopts : PriceCopy → Bool → Bool
  | .always, _ => false
  | .unlessDecimal, isDec => isDec
  | .never, _ => true

/-- which copies the code makes -/
structure Mode where
  /-- `_start`: how the configured markets are copied before `broker.add_market` -/
  markets : MarketsCopy
  /-- `_start`: `market.data = <shared frame>.copy(deep=False)` (false: the shared frame itself) -/
  dataView : Bool
  /-- pandas copy-on-write (always on from pandas 3): nothing written through a shallow copy reaches the original.
      Without it a column *added* to the view still stays local, but values overwritten in place are shared. -/
  cow : Bool
  /-- `_start`: the objects nested in cells of that frame are deep-copied as well -/
  cellsCopied : Bool
  /-- deribit `get_new_order_list` decrements a deep copy of the order list it is given -/
  orderListCopied : Bool
  /-- `Actuator.set_price` -/
  prices : PriceCopy
deriving Repr, DecidableEq

/-- the code as it is now: every flag is read from the source on every run (tools/consts_manager.py) -/
def Mode.current (cow : Bool) : Mode :=
  { markets := .ofCode Gen.managerMarketsCopy, dataView := Gen.managerDataView, cow := cow,
    cellsCopied := Gen.managerCellsCopied, orderListCopied := Gen.deribitOrderListDeepCopied,
    prices := .ofCode Gen.actuatorPriceCopy }

/-- the code before the repairs: nothing in `_start` is a copy -/
def Mode.original (cow : Bool) : Mode :=
  { markets := .none, dataView := false, cow := cow, cellsCopied := false, orderListCopied := true, prices := .always }

/-- what is known about the objects besides their state -/
structure Env (M P : Type) where
  /-- are all cells of the price frame Decimal already (`all(isinstance(v, Decimal) …)`) -/
  isDec : P → Bool
  /-- the object graph after copying every market separately: objects shared between markets are duplicated, so a
      market that refers to another configured market refers to a private, unattached copy of it -/
  sever : M → M

/-- the market objects a backtest is attached to -/
def attached {M P : Type} (env : Env M P) (md : Mode) (cfg : M) : M :=
  match md.markets with
  | .each => env.sever cfg
  | _ => cfg

/-- `_start(config, data, strategy, bk_config)`: state of the configuration's market objects afterwards, state of the
    shared data afterwards (layer by layer: a layer the backtest got a private copy of is as before), the strategy's
    observation -/
def start {M C V N P O : Type} (env : Env M P) (md : Mode) (s : Strat M C V N P O) (cfg : M) (d : Data C V N P) :
    M × Data C V N P × O :=
  let m0 := attached env md cfg
  let r := s.run m0 d
  (match md.markets with | .none => r.1 | _ => cfg,
   { cols := if md.dataView then d.cols else r.2.1.cols,
     vals := if md.dataView && md.cow then d.vals else r.2.1.vals,
     cells := if md.cellsCopied then d.cells
              else if md.orderListCopied then r.2.1.cells else s.fills m0 d r.2.1.cells,
     prices := if md.prices.adopts (env.isDec d.prices) then r.2.1.prices else d.prices },
   r.2.2)

/-- sequential path: `for strategy in self.strategies: _start_with_param_data(self.config, self.data, strategy, …)` —
    the same `config` and `data` objects are handed to every call -/
def runSeq {M C V N P O : Type} (env : Env M P) (md : Mode) : M → Data C V N P → List (Strat M C V N P O) → List O
  | _, _, [] => []
  | cfg, d, s :: rest =>
    let r := start env md s cfg d
    r.2.2 :: runSeq env md r.1 r.2.1 rest

/-- pooled path on Linux/macOS (`set_start_method("fork")`, `Pool(processes=threads)`).  Task `i` is executed by worker
    `assign i` (scheduling: arbitrary).  `apply_async` pickles `(config, strategy, bk_config)` in the parent, whose
    objects never change, so every task starts from a copy of the original configuration (one pickle: references
    between the markets survive); `global_data` is inherited by fork, one copy per worker process, and stays alive
    across the tasks that worker executes (`w k` = data of worker `k`). -/
def runPool {M C V N P O : Type} (env : Env M P) (md : Mode) (cfg : M) (assign : Nat → Nat) :
    (Nat → Data C V N P) → Nat → List (Strat M C V N P O) → List O
  | _, _, [] => []
  | w, i, s :: rest =>
    let k := assign i
    let r := start env md s cfg (w k)
    r.2.2 :: runPool env md cfg assign (fun j => if j = k then r.2.1 else w j) (i + 1) rest

/-- pooled path on Windows: `data` is an argument of the task, pickled per task like the configuration -/
def runPoolArgs {M C V N P O : Type} (env : Env M P) (md : Mode) (cfg : M) (d : Data C V N P)
    (strats : List (Strat M C V N P O)) : List O :=
  strats.map (fun s => (start env md s cfg d).2.2)

/-- outcome of `BacktestManager.run()`: the observations in the order of `strategies`, or the exception class -/
inductive Outcome (O : Type)
  | done (obs : List O)
  | raised (cls : String)

/-- `BacktestManager.run()`.  `cpu` = `cpu_count()`, `windows` = `"Windows" in platform.system()`, `ctxSet` = a
    multiprocessing start method has already been fixed in this process (a second forked `run()` raises),
    `cfg`/`d` = `None` when not set. -/
def managerRun {M C V N P O : Type} (env : Env M P) (md : Mode) (threads cpu : Nat) (windows ctxSet : Bool)
    (assign : Nat → Nat) (cfg : Option M) (d : Option (Data C V N P)) (strats : List (Strat M C V N P O)) : Outcome O :=
  match cfg, d with
  | none, _ => .raised "RuntimeError"            -- "Config has not set"
  | some _, none => .raised "RuntimeError"       -- "Data has not set"
  | some cfg, some d =>
    if strats.length < 1 then .done []
    else if strats.length = 1 ∨ threads = 1 then .done (runSeq env md cfg d strats)
    else if threads > cpu then .raised "TypeError"   -- `"Threads should lower than " + cpu_count()`: str + int
    else if windows then
      if threads = 0 then .raised "ValueError"       -- Pool(processes=0)
      else .done (runPoolArgs env md cfg d strats)
    else if ctxSet then .raised "RuntimeError"       -- set_start_method("fork"): context has already been set
    else if threads = 0 then .raised "ValueError"    -- Pool(processes=0)
    else .done (runPool env md cfg assign (fun _ => d) 0 strats)

/-- the specification: every strategy alone, run by a plain Actuator on the fresh configuration and the original data -/
def spec {M C V N P O : Type} (cfg : M) (d : Data C V N P) (strats : List (Strat M C V N P O)) : List O :=
  strats.map (fun s => (s.run cfg d).2.2)

/-! ### the projection the driver runs: what does each strategy find in the objects it is handed -/

/-- market objects: positions on the first / second market, are the references between the markets intact -/
abbrev PM := Nat × Nat × Bool
/-- counters per data layer: columns added, values overwritten, depth missing from order-book lists, price cells overwritten
    together with "the frame has the `USD` column `set_price` adds (an `int` cell)" -/
abbrev PData := Data Nat Nat Nat (Nat × Bool)

/-- what a scripted strategy does to each layer -/
structure Effect where
  posA : Nat
  posB : Nat
  cols : Nat
  vals : Nat
  /-- depth taken out of nested lists by the strategy's own in-place writes -/
  cellsUser : Nat
  /-- depth taken by the market's fill path for its trades -/
  cellsFill : Nat
  prices : Nat

/-- a scripted strategy: adds its effect to every layer and observes what it *found* -/
def probeStrat (e : Effect) : Strat PM Nat Nat Nat (Nat × Bool) (PM × PData) where
  run m d := ((m.1 + e.posA, m.2.1 + e.posB, m.2.2),
              { cols := d.cols + e.cols, vals := d.vals + e.vals, cells := d.cells + e.cellsUser,
                prices := (d.prices.1 + e.prices, true) },      -- `prices[USD.name] = 1` on the frame the actuator keeps
              (m, d))
  fills _ _ n := n + e.cellsFill

/-- environment of the projection: the price frame is all-Decimal if it was given so and nobody has added the `USD`
    column to it yet; copying the markets one by one breaks the references iff there are any (`linked`) -/
def probeEnv (priceDec linked : Bool) : Env PM (Nat × Bool) where
  isDec p := priceDec && !p.2
  sever m := (m.1, m.2.1, m.2.2 && !linked)

end Demeter.Manager
