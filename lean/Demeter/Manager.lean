/-
  Demeter.Manager — model of demeter/core/backtest.py (`_start`, `BacktestManager.run`) together with the two places
  outside it that decide whether a backtest works on its own objects: `Actuator.set_price` (price frame) and the
  Deribit helper `get_new_order_list` (the market's own write path into order-book lists).

  A strategy, together with the Actuator and the markets that drive it, is an arbitrary transformer of the objects it
  is handed.  Those objects come in layers that are copied by different means:

  * `M` — the configured market objects, with the references between them (a SqueethMarket holds its UniLpMarket);
  * `C` — the column structure of the data frames (what `Strategy.add_column` changes): private under a shallow copy;
  * `V` — the values of the frames' cells (`df.loc[…] = x`, `df.iloc[…] = x`): private under a shallow copy only
          with pandas copy-on-write;
  * `N` — the state of the Python objects stored *inside* cells (Deribit order books are lists of `[price, amount]`):
          reached through a cell, duplicated by no DataFrame copy, shallow or deep — only by copying the cells;
  * `P` — the price frame `BacktestData.prices`.

  What a strategy leaves behind in them and what its `finalize()` observes (`O`: account history, final positions) are
  arbitrary functions of what it found.  The manager's data flow — which objects are shared between strategies, which
  are copies — is modelled exactly; process scheduling is the parameter `assign` (which worker executes which task).

  A backtest may also end in an exception (second half of the file: `FStrat`, `managerRunF`): what `run()` does then —
  go on with the next strategy or let the exception out — is read from the source like the copies (`FailMode.current`).
-/
import Demeter.Gen.ConstsManager
namespace Demeter.Manager

/-- the data a backtest is handed besides the markets: `BacktestData`, layer by layer -/
structure Data (C V N P : Type) where
  /-- column structure of the frames -/
  cols : C
  /-- values of the frames' cells -/
  vals : V
  /-- Python objects nested inside cells (order-book lists) -/
  cells : N
  /-- the price frame -/
  prices : P
deriving Repr, DecidableEq

/-- one full backtest of one strategy: `Actuator.run()` on the attached markets `m` and the data `d` -/
structure Strat (M C V N P O : Type) where
  /-- what the run leaves in the market objects and — by the strategy's own writes — in every layer of the data it was
      handed (added columns, overwritten values, in-place writes into nested lists, writes into `self.prices`), and what
      `finalize()` observes -/
  run : M → Data C V N P → M × Data C V N P × O
  /-- the depth the market's own fill path takes out of the order-book lists during that run (`buy`/`sell` write
      `get_new_order_list(instrument.asks, used)` back): it reaches the frame's lists only if that helper decrements the
      lists it was given instead of a deep copy -/
  fills : M → Data C V N P → N → N

/-- how `_start` copies `config.markets` -/
inductive MarketsCopy
  /-- the configured objects themselves are attached to the broker -/
  | none
  /-- `market = copy.deepcopy(market)` one by one: an object several markets refer to is duplicated per market -/
  | each
  /-- `copy.deepcopy(config.markets)`: one copy of the whole object graph -/
  | whole
deriving Repr, DecidableEq

/-- when `Actuator.set_price` keeps a frame of its own (`prices = prices.map(to_decimal)`) -/
inductive PriceCopy
  /-- unconditionally -/
  | always
  /-- only if the conversion is needed; a frame whose cells are Decimal already is adopted as it is -/
  | unlessDecimal
  /-- never: the caller's frame is adopted -/
  | never
deriving Repr, DecidableEq

def MarketsCopy.ofCode : Nat → MarketsCopy
  | 0 => .none
  | 1 => .each
  | _ => .whole

def PriceCopy.ofCode : Nat → PriceCopy
  | 0 => .always
  | 1 => .unlessDecimal
  | _ => .never

/-- does `set_price` adopt the caller's frame, given whether its cells are all Decimal -/
def PriceCopy.adopts : PriceCopy → Bool → Bool
  | .always, _ => false
  | .unlessDecimal, isDec => isDec
  | .never, _ => true

/-- which copies the code makes -/
structure Mode where
  /-- `_start`: how the configured markets are copied before `broker.add_market` -/
  markets : MarketsCopy
  /-- `_start`: `market.data = <shared frame>.copy(deep=False)` (false: the shared frame itself) -/
  dataView : Bool
  /-- pandas copy-on-write (always on from pandas 3): nothing written through a shallow copy reaches the original.
      Without it a column *added* to the view still stays local, but values overwritten in place are shared. -/
  cow : Bool
  /-- `_start`: the objects nested in cells of that frame are deep-copied as well.  Precisely what `_own_frame` does (and what
      the source flag `managerCellsCopied` recognises, text for text): for every column of dtype `object` that holds at least one
      `list`, `dict` or `set` cell, every cell of that column is replaced by its `copy.deepcopy`.  So `N`, in every theorem
      that uses this flag, is the state of the objects nested in cells **of columns that hold a list, dict or set cell** —
      all that demeter's own loaders produce (the Deribit `asks` / `bids` lists of `[price, amount]`).  A column whose mutable
      cells are all of other classes (tuples holding lists, numpy arrays, deques, user objects) is handed out uncopied: for
      a frame with such a column the flag to read the theorems with is `cellsCopied := false`
      (`C19_order_list_copy_partial` with its hypothesis `CellsIntact`; witness `C19_fails_when_nested_cells_are_shared`).
      The harness measures the boundary on `_own_frame` itself on every run (`own_frame_probe`, one column per class). -/
  cellsCopied : Bool
  /-- deribit `get_new_order_list` decrements a deep copy of the order list it is given -/
  orderListCopied : Bool
  /-- `Actuator.set_price` -/
  prices : PriceCopy
deriving Repr, DecidableEq

/-- the code as it is now: every flag is read from the source on every run (tools/consts_manager.py) -/
def Mode.current (cow : Bool) : Mode :=
  { markets := .ofCode Gen.managerMarketsCopy, dataView := Gen.managerDataView, cow := cow,
    cellsCopied := Gen.managerCellsCopied, orderListCopied := Gen.deribitOrderListDeepCopied,
    prices := .ofCode Gen.actuatorPriceCopy }

/-- the code before the repairs: nothing in `_start` is a copy -/
def Mode.original (cow : Bool) : Mode :=
  { markets := .none, dataView := false, cow := cow, cellsCopied := false, orderListCopied := true, prices := .always }

/-- what is known about the objects besides their state -/
structure Env (M P : Type) where
  /-- are all cells of the price frame Decimal already (`all(isinstance(v, Decimal) …)`) -/
  isDec : P → Bool
  /-- the object graph after copying every market separately: objects shared between markets are duplicated, so a
      market that refers to another configured market refers to a private, unattached copy of it -/
  sever : M → M

/-- the market objects a backtest is attached to -/
def attached {M P : Type} (env : Env M P) (md : Mode) (cfg : M) : M :=
  match md.markets with
  | .each => env.sever cfg
  | _ => cfg

/-- `_start(config, data, strategy, bk_config)`: state of the configuration's market objects afterwards, state of the
    shared data afterwards (layer by layer: a layer the backtest got a private copy of is as before), the strategy's
    observation -/
def start {M C V N P O : Type} (env : Env M P) (md : Mode) (s : Strat M C V N P O) (cfg : M) (d : Data C V N P) :
    M × Data C V N P × O :=
  let m0 := attached env md cfg
  let r := s.run m0 d
  (match md.markets with | .none => r.1 | _ => cfg,
   { cols := if md.dataView then d.cols else r.2.1.cols,
     vals := if md.dataView && md.cow then d.vals else r.2.1.vals,
     cells := if md.cellsCopied then d.cells
              else if md.orderListCopied then r.2.1.cells else s.fills m0 d r.2.1.cells,
     prices := if md.prices.adopts (env.isDec d.prices) then r.2.1.prices else d.prices },
   r.2.2)

/-- sequential path: `for strategy in self.strategies: _start_with_param_data(self.config, self.data, strategy, …)` —
    the same `config` and `data` objects are handed to every call -/
def runSeq {M C V N P O : Type} (env : Env M P) (md : Mode) : M → Data C V N P → List (Strat M C V N P O) → List O
  | _, _, [] => []
  | cfg, d, s :: rest =>
    let r := start env md s cfg d
    r.2.2 :: runSeq env md r.1 r.2.1 rest

/-- pooled path on Linux/macOS (`set_start_method("fork")`, `Pool(processes=threads)`).  Task `i` is executed by worker
    `assign i` (scheduling: arbitrary).  `apply_async` pickles `(config, strategy, bk_config)` in the parent, whose
    objects never change, so every task starts from a copy of the original configuration (one pickle: references
    between the markets survive); `global_data` is inherited by fork, one copy per worker process, and stays alive
    across the tasks that worker executes (`w k` = data of worker `k`). -/
def runPool {M C V N P O : Type} (env : Env M P) (md : Mode) (cfg : M) (assign : Nat → Nat) :
    (Nat → Data C V N P) → Nat → List (Strat M C V N P O) → List O
  | _, _, [] => []
  | w, i, s :: rest =>
    let k := assign i
    let r := start env md s cfg (w k)
    r.2.2 :: runPool env md cfg assign (fun j => if j = k then r.2.1 else w j) (i + 1) rest

/-- pooled path on Windows: `data` is an argument of the task, pickled per task like the configuration -/
def runPoolArgs {M C V N P O : Type} (env : Env M P) (md : Mode) (cfg : M) (d : Data C V N P)
    (strats : List (Strat M C V N P O)) : List O :=
  strats.map (fun s => (start env md s cfg d).2.2)

/-- outcome of `BacktestManager.run()`: the observations in the order of `strategies`, or the exception class -/
inductive Outcome (O : Type)
  | done (obs : List O)
  | raised (cls : String)

/-- `BacktestManager.run()`.  `cpu` = `cpu_count()`, `windows` = `"Windows" in platform.system()`, `ctxSet` = a
    multiprocessing start method has already been fixed in this process (a second forked `run()` raises),
    `cfg`/`d` = `None` when not set. -/
def managerRun {M C V N P O : Type} (env : Env M P) (md : Mode) (threads cpu : Nat) (windows ctxSet : Bool)
    (assign : Nat → Nat) (cfg : Option M) (d : Option (Data C V N P)) (strats : List (Strat M C V N P O)) : Outcome O :=
  match cfg, d with
  | none, _ => .raised "RuntimeError"            -- "Config has not set"
  | some _, none => .raised "RuntimeError"       -- "Data has not set"
  | some cfg, some d =>
    if strats.length < 1 then .done []
    else if strats.length = 1 ∨ threads = 1 then .done (runSeq env md cfg d strats)
    else if threads > cpu then .raised "TypeError"   -- `"Threads should lower than " + cpu_count()`: str + int
    else if windows then
      if threads = 0 then .raised "ValueError"       -- Pool(processes=0)
      else .done (runPoolArgs env md cfg d strats)
    else if ctxSet then .raised "RuntimeError"       -- set_start_method("fork"): context has already been set
    else if threads = 0 then .raised "ValueError"    -- Pool(processes=0)
    else .done (runPool env md cfg assign (fun _ => d) 0 strats)

/-- the specification: every strategy alone, run by a plain Actuator on the fresh configuration and the original data -/
def spec {M C V N P O : Type} (cfg : M) (d : Data C V N P) (strats : List (Strat M C V N P O)) : List O :=
  strats.map (fun s => (s.run cfg d).2.2)

/-! ### backtests that fail

A backtest may end in an exception (raised by a strategy callback or by a market, caught by nobody inside
`Actuator.run()`): then `finalize()` is not reached and the backtest has no result.  What it left in the objects it
was handed until then is still what `run` says; whether it fails may depend on what it was handed (`fails`).
"Exception" is the class `Exception`: `KeyboardInterrupt`/`SystemExit` end the whole program on either path and are
outside the model.

How `BacktestManager.run()` treats such a backtest is read from the source (tools/consts_manager.py):

* in-process loop — `try: _start_with_param_data(…) except Exception as e: e_callback(e)`: the failure is reported and
  the loop goes on (`catchesInProcess`); without the handler the exception leaves `run()` and the strategies after the
  failing one never start;
* pooled branches — a failing task never touches the other tasks (the worker hands the exception back as the task's
  result, `error_callback` reports it, the worker process lives on and keeps its `global_data`); `[x.wait() for x in
  tasks]` waits for all of them (`forkPoolWaits`, `argsPoolWaits`: one flag per branch), whereas `x.get()` re-raises the first failure inside the `with Pool`
  block, whose exit terminates the workers: tasks not finished by then have no result. -/

/-- a backtest that may end in an exception -/
structure FStrat (M C V N P O : Type) extends Strat M C V N P O where
  /-- does `Actuator.run()` on these objects end in an uncaught exception (no `finalize()`, no result) -/
  fails : M → Data C V N P → Bool

/-- a backtest that never fails -/
def Strat.neverFails {M C V N P O : Type} (s : Strat M C V N P O) : FStrat M C V N P O :=
  { s with fails := fun _ _ => false }

/-- how `run()` treats a failing backtest -/
structure FailMode where
  /-- the in-process loop catches a backtest's exception per strategy, reports it and goes on -/
  catchesInProcess : Bool
  /-- the forked pool (Linux/macOS branch) collects its tasks with `.wait()` (false: `.get()`, which re-raises) -/
  forkPoolWaits : Bool
  /-- the same for the pool whose tasks get the data as an argument (Windows branch) -/
  argsPoolWaits : Bool
deriving Repr, DecidableEq

/-- the code as it is now: both flags are read from the source on every run -/
def FailMode.current : FailMode :=
  { catchesInProcess := Gen.managerCatchesInProcessFailure, forkPoolWaits := Gen.managerForkPoolWaitsForTasks,
    argsPoolWaits := Gen.managerArgsPoolWaitsForTasks }

/-- the code before the repair: `actuator = _start_with_param_data(…); e_callback(actuator)` without a handler -/
def FailMode.beforeRepair : FailMode := { catchesInProcess := false, forkPoolWaits := true, argsPoolWaits := true }

/-- `_start` of a backtest that may fail: the objects are left as `start` says, the result is `none` if it fails on the
    objects it was handed (the attached markets, the data) -/
def startF {M C V N P O : Type} (env : Env M P) (md : Mode) (s : FStrat M C V N P O) (cfg : M) (d : Data C V N P) :
    M × Data C V N P × Option O :=
  let r := start env md s.toStrat cfg d
  (r.1, r.2.1, if s.fails (attached env md cfg) d then none else some r.2.2)

/-- sequential path.  Per strategy its result, `none` = no result.  Without the handler (`catches = false`) the first
    failure ends the loop: the strategies after it never start. -/
def runSeqF {M C V N P O : Type} (env : Env M P) (md : Mode) (catches : Bool) :
    M → Data C V N P → List (FStrat M C V N P O) → List (Option O)
  | _, _, [] => []
  | cfg, d, s :: rest =>
    let r := startF env md s cfg d
    if s.fails (attached env md cfg) d && !catches then none :: rest.map (fun _ => none)
    else r.2.2 :: runSeqF env md catches r.1 r.2.1 rest

/-- pooled path after fork: every task is executed whatever the other tasks do; the worker that executed a failing task
    goes on with the data that task left -/
def runPoolF {M C V N P O : Type} (env : Env M P) (md : Mode) (cfg : M) (assign : Nat → Nat) :
    (Nat → Data C V N P) → Nat → List (FStrat M C V N P O) → List (Option O)
  | _, _, [] => []
  | w, i, s :: rest =>
    let k := assign i
    let r := startF env md s cfg (w k)
    r.2.2 :: runPoolF env md cfg assign (fun j => if j = k then r.2.1 else w j) (i + 1) rest

/-- pooled path with the data pickled per task (Windows branch) -/
def runPoolArgsF {M C V N P O : Type} (env : Env M P) (md : Mode) (cfg : M) (d : Data C V N P)
    (strats : List (FStrat M C V N P O)) : List (Option O) :=
  strats.map (fun s => (startF env md s cfg d).2.2)

/-- outcome of `BacktestManager.run()` when backtests may fail -/
inductive FOutcome (O : Type)
  /-- `run()` returned.  Per strategy, in the order of `strategies`: what its `finalize()` observed; `none`: its backtest
      ended in an exception (reported through `e_callback`) -/
  | done (res : List (Option O))
  /-- `run()` re-raised the exception of a backtest.  `res` as before, `none` also for the strategies that never started
      or whose worker was terminated -/
  | aborted (res : List (Option O))
  /-- `run()` raised before any backtest started -/
  | raised (cls : String)
deriving Repr, DecidableEq

/-- the per-strategy results, if any backtest was started -/
def FOutcome.results {O : Type} : FOutcome O → Option (List (Option O))
  | .done res => some res
  | .aborted res => some res
  | .raised _ => none

/-- the in-process loop as a whole: without the handler a failure leaves `run()` -/
def seqOutcome {O : Type} (catches : Bool) (res : List (Option O)) : FOutcome O :=
  if !catches && res.any Option.isNone then .aborted res else .done res

/-- the tasks before the first failing one (all of them if none fails) -/
def firstFailure {O : Type} : List (Option O) → Nat
  | [] => 0
  | none :: _ => 0
  | some _ :: rest => firstFailure rest + 1

/-- collecting the pool's tasks in submission order.  `.wait()`: all of them complete.  `.get()`: the first failing task
    `i` re-raises, the block's exit terminates the workers; tasks `j < i` have completed, a task `j > i` has a result only
    if it happened to be finished by then (`finished j`: scheduling, arbitrary). -/
def poolOutcome {O : Type} (waits : Bool) (finished : Nat → Bool) (res : List (Option O)) : FOutcome O :=
  if waits || !res.any Option.isNone then .done res
  else
    let i := firstFailure res
    .aborted ((List.range res.length).zipWith (fun j r => if j ≤ i || finished j then r else none) res)

/-- `BacktestManager.run()` with backtests that may fail: the dispatch of `managerRun`, every path with its treatment of
    failures.  `finished` matters only when the tasks are fetched with `.get()`. -/
def managerRunF {M C V N P O : Type} (env : Env M P) (md : Mode) (fm : FailMode) (threads cpu : Nat) (windows ctxSet : Bool)
    (assign : Nat → Nat) (finished : Nat → Bool) (cfg : Option M) (d : Option (Data C V N P))
    (strats : List (FStrat M C V N P O)) : FOutcome O :=
  match cfg, d with
  | none, _ => .raised "RuntimeError"
  | some _, none => .raised "RuntimeError"
  | some cfg, some d =>
    if strats.length < 1 then .done []
    else if strats.length = 1 ∨ threads = 1 then seqOutcome fm.catchesInProcess (runSeqF env md fm.catchesInProcess cfg d strats)
    else if threads > cpu then .raised "TypeError"
    else if windows then
      if threads = 0 then .raised "ValueError"
      else poolOutcome fm.argsPoolWaits finished (runPoolArgsF env md cfg d strats)
    else if ctxSet then .raised "RuntimeError"
    else if threads = 0 then .raised "ValueError"
    else poolOutcome fm.forkPoolWaits finished (runPoolF env md cfg assign (fun _ => d) 0 strats)

/-- the specification: every strategy alone, run by a plain Actuator on the fresh configuration and the original data —
    its result, or none if that backtest fails -/
def specF {M C V N P O : Type} (cfg : M) (d : Data C V N P) (strats : List (FStrat M C V N P O)) : List (Option O) :=
  strats.map (fun s => if s.fails cfg d then none else some (s.run cfg d).2.2)

/-! ### process-wide state

Besides the objects it is handed, a backtest runs inside an interpreter process whose state outlives it: the decimal
context (`getcontext()`: precision, rounding, traps, exponent range — per thread, and every backtest of a process runs
on the same thread), class-level attributes (`Snapshot.market_status` was one dict shared by every `Snapshot` of the
process until it became a per-instance field), module globals, caches.  `G` is that state.  A backtest — the strategy
together with the Actuator and the market code it drives — may read it (its behaviour is a function of the `G` it
finds) and may leave it changed, also when it fails.

Which backtests share a process: on the in-process path all of them, one after the other, in the caller's process
(state `g` when `run()` is called, and whatever the last backtest leaves stays behind for the caller); on the forked
path every worker starts as a copy of the caller's process (`g`) and keeps its own state across the tasks it executes;
a spawned worker (Windows) starts from the state of a fresh interpreter that has imported the caller's modules
(`gSpawn`) and likewise keeps it across its tasks. -/

/-- a backtest inside a process: what it does given the process state it finds, and the process state it leaves -/
structure GStrat (G M C V N P O : Type) where
  /-- the backtest as a transformer of the objects it is handed, given the process state at its start -/
  strat : G → FStrat M C V N P O
  /-- the process state when the backtest is over (finished or failed), given the state found, the attached markets and the data -/
  leaves : G → M → Data C V N P → G

/-- a backtest that neither reads nor writes the process state -/
def FStrat.stateless {G M C V N P O : Type} (s : FStrat M C V N P O) : GStrat G M C V N P O :=
  { strat := fun _ => s, leaves := fun g _ _ => g }

/-- the part of the process state the framework itself writes: `Actuator.__get_snapshot` stores the status of every market
    into `snapshot.market_status` on every bar.  If that dict is a class-level default of `Snapshot` it is one object for
    the whole process and what the backtest's last bar published stays behind (`perInstance = false`; `publish` = the
    state with those statuses in it); as a per-instance field it dies with the snapshot.  The flag is read from the
    source (`Gen.snapshotHoldsNoSharedObject`). -/
def GStrat.underActuator {G M C V N P O : Type} (perInstance : Bool) (publish : G → M → Data C V N P → G)
    (s : GStrat G M C V N P O) : GStrat G M C V N P O :=
  { strat := s.strat, leaves := fun g m d => if perInstance then s.leaves g m d else publish (s.leaves g m d) m d }

/-- `_start` inside a process whose state is `g`: the state the process is left in, then what `startF` says -/
def startG {G M C V N P O : Type} (env : Env M P) (md : Mode) (s : GStrat G M C V N P O) (g : G) (cfg : M) (d : Data C V N P) :
    G × M × Data C V N P × Option O :=
  (s.leaves g (attached env md cfg) d, startF env md (s.strat g) cfg d)

/-- sequential path inside one process: the process state is threaded through the backtests like the configuration and the data -/
def runSeqG {G M C V N P O : Type} (env : Env M P) (md : Mode) (catches : Bool) :
    G → M → Data C V N P → List (GStrat G M C V N P O) → List (Option O)
  | _, _, _, [] => []
  | g, cfg, d, s :: rest =>
    let r := startG env md s g cfg d
    if (s.strat g).fails (attached env md cfg) d && !catches then none :: rest.map (fun _ => none)
    else r.2.2.2 :: runSeqG env md catches r.1 r.2.1 r.2.2.1 rest

/-- the state the caller's process is left in by the in-process loop (all backtests started: the handler is in place) -/
def seqLeaves {G M C V N P O : Type} (env : Env M P) (md : Mode) :
    G → M → Data C V N P → List (GStrat G M C V N P O) → G
  | g, _, _, [] => g
  | g, cfg, d, s :: rest =>
    let r := startG env md s g cfg d
    seqLeaves env md r.1 r.2.1 r.2.2.1 rest

/-- forked pool: worker `k` owns a process state and the inherited data (`w k`), both alive across the tasks it executes -/
def runPoolG {G M C V N P O : Type} (env : Env M P) (md : Mode) (cfg : M) (assign : Nat → Nat) :
    (Nat → G × Data C V N P) → Nat → List (GStrat G M C V N P O) → List (Option O)
  | _, _, [] => []
  | w, i, s :: rest =>
    let k := assign i
    let r := startG env md s (w k).1 cfg (w k).2
    r.2.2.2 :: runPoolG env md cfg assign (fun j => if j = k then (r.1, r.2.2.1) else w j) (i + 1) rest

/-- pool whose tasks get the data as an argument: the data is private per task, the worker's process state is not -/
def runPoolArgsG {G M C V N P O : Type} (env : Env M P) (md : Mode) (cfg : M) (d : Data C V N P) (assign : Nat → Nat) :
    (Nat → G) → Nat → List (GStrat G M C V N P O) → List (Option O)
  | _, _, [] => []
  | wg, i, s :: rest =>
    let k := assign i
    let r := startG env md s (wg k) cfg d
    r.2.2.2 :: runPoolArgsG env md cfg d assign (fun j => if j = k then r.1 else wg j) (i + 1) rest

/-- `BacktestManager.run()` called in a process whose state is `g`; `gSpawn` = state of a freshly spawned worker -/
def managerRunG {G M C V N P O : Type} (env : Env M P) (md : Mode) (fm : FailMode) (threads cpu : Nat) (windows ctxSet : Bool)
    (assign : Nat → Nat) (finished : Nat → Bool) (g gSpawn : G) (cfg : Option M) (d : Option (Data C V N P))
    (strats : List (GStrat G M C V N P O)) : FOutcome O :=
  match cfg, d with
  | none, _ => .raised "RuntimeError"
  | some _, none => .raised "RuntimeError"
  | some cfg, some d =>
    if strats.length < 1 then .done []
    else if strats.length = 1 ∨ threads = 1 then seqOutcome fm.catchesInProcess (runSeqG env md fm.catchesInProcess g cfg d strats)
    else if threads > cpu then .raised "TypeError"
    else if windows then
      if threads = 0 then .raised "ValueError"
      else poolOutcome fm.argsPoolWaits finished (runPoolArgsG env md cfg d assign (fun _ => gSpawn) 0 strats)
    else if ctxSet then .raised "RuntimeError"
    else if threads = 0 then .raised "ValueError"
    else poolOutcome fm.forkPoolWaits finished (runPoolG env md cfg assign (fun _ => (g, d)) 0 strats)

/-- the specification: every strategy alone in a process of its own whose state is `g` -/
def specG {G M C V N P O : Type} (g : G) (cfg : M) (d : Data C V N P) (strats : List (GStrat G M C V N P O)) : List (Option O) :=
  specF cfg d (strats.map (fun s => s.strat g))

/-! ### the projection the driver runs: what does each strategy find in the objects it is handed -/

/-- market objects: positions on the first / second market, are the references between the markets intact -/
abbrev PM := Nat × Nat × Bool
/-- counters per data layer: columns added, values overwritten, depth missing from order-book lists, price cells overwritten
    together with "the frame has the `USD` column `set_price` adds (an `int` cell)" -/
abbrev PData := Data Nat Nat Nat (Nat × Bool)

/-- what a scripted strategy does to each layer -/
structure Effect where
  posA : Nat
  posB : Nat
  cols : Nat
  vals : Nat
  /-- depth taken out of nested lists by the strategy's own in-place writes -/
  cellsUser : Nat
  /-- depth taken by the market's fill path for its trades -/
  cellsFill : Nat
  prices : Nat

/-- a scripted strategy: adds its effect to every layer and observes what it *found* -/
def probeStrat (e : Effect) : Strat PM Nat Nat Nat (Nat × Bool) (PM × PData) where
  run m d := ((m.1 + e.posA, m.2.1 + e.posB, m.2.2),
              { cols := d.cols + e.cols, vals := d.vals + e.vals, cells := d.cells + e.cellsUser,
                prices := (d.prices.1 + e.prices, true) },      -- `prices[USD.name] = 1` on the frame the actuator keeps
              (m, d))
  fills _ _ n := n + e.cellsFill

/-- environment of the projection: the price frame is all-Decimal if it was given so and nobody has added the `USD`
    column to it yet; copying the markets one by one breaks the references iff there are any (`linked`) -/
def probeEnv (priceDec linked : Bool) : Env PM (Nat × Bool) where
  isDec p := priceDec && !p.2
  sever m := (m.1, m.2.1, m.2.2 && !linked)

/-- a scripted strategy that may fail: always (`always`), or only if it finds something it did not expect in the
    objects it was handed — a position on the first market, an added column (`ifDisturbed`) -/
def probeFStrat (e : Effect) (always : Bool) (ifDisturbed : Bool := false) : FStrat PM Nat Nat Nat (Nat × Bool) (PM × PData) :=
  { probeStrat e with fails := fun m d => always || (ifDisturbed && (m.1 != 0 || d.cols != 0)) }

/-- a scripted backtest inside a process whose state is a counter (how often somebody changed the decimal context, how many
    statuses were published into a class-level dict): it adds `gWrite` to it and observes, besides what `probeStrat` observes,
    the process state it *found* -/
def probeGStrat (e : Effect) (always : Bool) (gWrite : Nat) : GStrat Nat PM Nat Nat Nat (Nat × Bool) ((PM × PData) × Nat) where
  strat g :=
    { run := fun m d => let r := (probeStrat e).run m d; (r.1, r.2.1, (r.2.2, g)),
      fills := (probeStrat e).fills,
      fails := fun _ _ => always }
  leaves g _ _ := g + gWrite

end Demeter.Manager
