/-
  Demeter.Manager — model of demeter/core/backtest.py (`_start`, `BacktestManager.run`).

  A strategy, together with the Actuator that drives it, is an arbitrary transformer of the objects it is handed:
  the market objects attached to its broker (`M`) and the `BacktestData` object (`D`); what it leaves behind in them
  and what its `finalize()` observes (`O`: account history, final positions) are arbitrary functions of what it
  found.  The manager's data flow — which objects are shared between strategies, which are copies — is modelled
  exactly; process scheduling is the parameter `assign` (which worker executes which task: arbitrary).
-/
import Demeter.Gen.ConstsMetrics
namespace Demeter.Manager

/-- one full backtest of one strategy: `Actuator.run()` on the attached markets `m` and the data `d` -/
structure Strat (M D O : Type) where
  run : M → D → M × D × O

/-- how `_start` attaches the configuration's market objects to the fresh broker:
    `shared` — the objects themselves (the code before the repair);
    `copied` — `copy.deepcopy(market)` (the code now) -/
inductive Attach
  | shared
  | copied
deriving Repr, DecidableEq

/-- the code as it is now: read from the source of `_start` on every run (tools/consts_metrics.py) -/
def Attach.current : Attach := if Gen.managerCopiesMarkets then .copied else .shared

/-- `_start(config, data, strategy, bk_config)`: state of the configuration's market objects afterwards, state of
    the data object afterwards, the strategy's observation -/
def start {M D O : Type} (a : Attach) (s : Strat M D O) (cfg : M) (d : D) : M × D × O :=
  let r := s.run cfg d
  match a with
  | .shared => (r.1, r.2.1, r.2.2)
  | .copied => (cfg, r.2.1, r.2.2)

/-- sequential path: `for strategy in self.strategies: _start_with_param_data(self.config, self.data, strategy, …)` —
    the same `config` and `data` objects are handed to every call -/
def runSeq {M D O : Type} (a : Attach) : M → D → List (Strat M D O) → List O
  | _, _, [] => []
  | cfg, d, s :: rest =>
    let r := start a s cfg d
    r.2.2 :: runSeq a r.1 r.2.1 rest

/-- pooled path (`Pool(processes=threads)`, start method fork).  Task `i` is executed by worker `assign i`
    (scheduling: arbitrary).  `apply_async` pickles `(config, strategy, bk_config)` in the parent, whose objects never
    change, so every task starts from a copy of the original configuration; `global_data` is inherited by fork, one
    copy per worker process, and stays alive across the tasks that worker executes (`w k` = data object of worker `k`). -/
def runPool {M D O : Type} (a : Attach) (cfg : M) (assign : Nat → Nat) : (Nat → D) → Nat → List (Strat M D O) → List O
  | _, _, [] => []
  | w, i, s :: rest =>
    let k := assign i
    let r := start a s cfg (w k)
    r.2.2 :: runPool a cfg assign (fun j => if j = k then r.2.1 else w j) (i + 1) rest

/-- outcome of `BacktestManager.run()`: the observations in the order of `strategies`, or the exception class -/
inductive Outcome (O : Type)
  | done (obs : List O)
  | raised (cls : String)

/-- `BacktestManager.run()`.  `cpu` = `cpu_count()`, `ctxSet` = a multiprocessing start method has already been fixed
    in this process (a second pooled `run()` raises), `cfg`/`d` = `None` when not set. -/
def managerRun {M D O : Type} (a : Attach) (threads cpu : Nat) (ctxSet : Bool) (assign : Nat → Nat)
    (cfg : Option M) (d : Option D) (strats : List (Strat M D O)) : Outcome O :=
  match cfg, d with
  | none, _ => .raised "RuntimeError"            -- "Config has not set"
  | some _, none => .raised "RuntimeError"       -- "Data has not set"
  | some cfg, some d =>
    if strats.length < 1 then .done []
    else if strats.length = 1 ∨ threads = 1 then .done (runSeq a cfg d strats)
    else if threads > cpu then .raised "TypeError"   -- `"Threads should lower than " + cpu_count()`: str + int
    else if ctxSet then .raised "RuntimeError"       -- set_start_method("fork"): context has already been set
    else if threads = 0 then .raised "ValueError"    -- Pool(processes=0)
    else .done (runPool a cfg assign (fun _ => d) 0 strats)

/-- the specification: every strategy alone on a fresh configuration and the original data -/
def spec {M D O : Type} (cfg : M) (d : D) (strats : List (Strat M D O)) : List O :=
  strats.map (fun s => (s.run cfg d).2.2)

/-! ### the projection the driver runs: number of open positions per market -/

/-- a scripted strategy that opens `da` positions on the first and `db` on the second market and observes the totals -/
def countStrat (da db : Nat) : Strat (Nat × Nat) Unit (Nat × Nat) where
  run m d := ((m.1 + da, m.2 + db), d, (m.1 + da, m.2 + db))

end Demeter.Manager
