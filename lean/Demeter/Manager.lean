/-
  Demeter.Manager — model of demeter/core/backtest.py (`_start`, `BacktestManager.run`).

  A strategy, together with the Actuator that drives it, is an arbitrary transformer of the objects it is handed:
  the market objects attached to its broker (`M`) and the `BacktestData` frames (`D`); what it leaves behind in them
  and what its `finalize()` observes (`O`: account history, final positions) are arbitrary functions of what it
  found.  The manager's data flow — which objects are shared between strategies, which are copies — is modelled
  exactly; process scheduling is the parameter `assign` (which worker executes which task: arbitrary).
-/
import Demeter.Gen.ConstsMetrics
namespace Demeter.Manager

/-- one full backtest of one strategy: `Actuator.run()` on the attached markets `m` and the data frames `d`;
    the middle component is what the run writes into the frames it was handed (added columns, overwritten values) -/
structure Strat (M D O : Type) where
  run : M → D → M × D × O

/-- how `_start` hands the shared objects to a backtest -/
structure Mode where
  /-- `market = copy.deepcopy(market)` before `broker.add_market(market)` (false: the configured objects themselves) -/
  marketsCopied : Bool
  /-- `market.data = data.data[…].copy(deep=False)` (false: the shared frame itself) -/
  dataView : Bool
  /-- pandas copy-on-write (always on from pandas 3): nothing written through a shallow copy reaches the original.
      Without it a column *added* to the view still stays local, but values overwritten in place are shared. -/
  cow : Bool
deriving Repr, DecidableEq

/-- the code as it is now: both flags are read from the source of `_start` on every run (tools/consts_metrics.py) -/
def Mode.current (cow : Bool) : Mode :=
  { marketsCopied := Gen.managerCopiesMarkets, dataView := Gen.managerDataView, cow := cow }

/-- the code before the two repairs -/
def Mode.original (cow : Bool) : Mode := { marketsCopied := false, dataView := false, cow := cow }

/-- `_start(config, data, strategy, bk_config)`: state of the configuration's market objects afterwards, state of
    the shared data frames afterwards, the strategy's observation -/
def start {M D O : Type} (md : Mode) (s : Strat M D O) (cfg : M) (d : D) : M × D × O :=
  let r := s.run cfg d
  (if md.marketsCopied then cfg else r.1, if md.dataView && md.cow then d else r.2.1, r.2.2)

/-- sequential path: `for strategy in self.strategies: _start_with_param_data(self.config, self.data, strategy, …)` —
    the same `config` and `data` objects are handed to every call -/
def runSeq {M D O : Type} (md : Mode) : M → D → List (Strat M D O) → List O
  | _, _, [] => []
  | cfg, d, s :: rest =>
    let r := start md s cfg d
    r.2.2 :: runSeq md r.1 r.2.1 rest

/-- pooled path on Linux/macOS (`set_start_method("fork")`, `Pool(processes=threads)`).  Task `i` is executed by worker
    `assign i` (scheduling: arbitrary).  `apply_async` pickles `(config, strategy, bk_config)` in the parent, whose
    objects never change, so every task starts from a copy of the original configuration; `global_data` is inherited
    by fork, one copy per worker process, and stays alive across the tasks that worker executes (`w k` = data of worker `k`). -/
def runPool {M D O : Type} (md : Mode) (cfg : M) (assign : Nat → Nat) : (Nat → D) → Nat → List (Strat M D O) → List O
  | _, _, [] => []
  | w, i, s :: rest =>
    let k := assign i
    let r := start md s cfg (w k)
    r.2.2 :: runPool md cfg assign (fun j => if j = k then r.2.1 else w j) (i + 1) rest

/-- pooled path on Windows: `data` is an argument of the task, pickled per task like the configuration -/
def runPoolArgs {M D O : Type} (md : Mode) (cfg : M) (d : D) (strats : List (Strat M D O)) : List O :=
  strats.map (fun s => (start md s cfg d).2.2)

/-- outcome of `BacktestManager.run()`: the observations in the order of `strategies`, or the exception class -/
inductive Outcome (O : Type)
  | done (obs : List O)
  | raised (cls : String)

/-- `BacktestManager.run()`.  `cpu` = `cpu_count()`, `windows` = `"Windows" in platform.system()`, `ctxSet` = a
    multiprocessing start method has already been fixed in this process (a second forked `run()` raises),
    `cfg`/`d` = `None` when not set. -/
def managerRun {M D O : Type} (md : Mode) (threads cpu : Nat) (windows ctxSet : Bool) (assign : Nat → Nat)
    (cfg : Option M) (d : Option D) (strats : List (Strat M D O)) : Outcome O :=
  match cfg, d with
  | none, _ => .raised "RuntimeError"            -- "Config has not set"
  | some _, none => .raised "RuntimeError"       -- "Data has not set"
  | some cfg, some d =>
    if strats.length < 1 then .done []
    else if strats.length = 1 ∨ threads = 1 then .done (runSeq md cfg d strats)
    else if threads > cpu then .raised "TypeError"   -- `"Threads should lower than " + cpu_count()`: str + int
    else if windows then
      if threads = 0 then .raised "ValueError"       -- Pool(processes=0)
      else .done (runPoolArgs md cfg d strats)
    else if ctxSet then .raised "RuntimeError"       -- set_start_method("fork"): context has already been set
    else if threads = 0 then .raised "ValueError"    -- Pool(processes=0)
    else .done (runPool md cfg assign (fun _ => d) 0 strats)

/-- the specification: every strategy alone on a fresh configuration and the original data -/
def spec {M D O : Type} (cfg : M) (d : D) (strats : List (Strat M D O)) : List O :=
  strats.map (fun s => (s.run cfg d).2.2)

/-! ### the projection the driver runs: number of open positions per market, number of indicator columns -/

/-- a scripted strategy that opens `da` positions on the first and `db` on the second market, adds `dc` columns to the
    data frame it was handed, and observes the totals it ends with -/
def countStrat (da db dc : Nat) : Strat (Nat × Nat) Nat (Nat × Nat × Nat) where
  run m d := ((m.1 + da, m.2 + db), d + dc, (m.1 + da, m.2 + db, d + dc))

end Demeter.Manager
