/-
  Demeter.Squeeth.Views — `SqueethMarket.get_market_balance` and the part of `UniLpMarket.get_market_balance`
  that decides which positions the pool counts (`transferred` ones are skipped).
-/
import Demeter.Squeeth
namespace Demeter.Squeeth
open Demeter Gen

structure Balance where
  netValue : Rat
  collEth : Rat
  collValue : Rat
  long : Rat
  short : Rat
  shortEth : Rat
  net : Rat
  ratio : Rat
  count : Nat
deriving DecidableEq, Repr

/-- Python `sum(xs)`: left fold from the int 0 -/
def dsum (cx : NumCtx) (xs : List Rat) : Rat := xs.foldl (fun a x => cx.add a x) 0

/-- `sum(self._get_effective_collateral_in_eth(VaultKey(v.id)) for v in self.vault.values())` -/
def sumEffColl (cx : NumCtx) (e : Env) (s : State) : List Nat → Rat → Except Err Rat
  | [], acc => .ok acc
  | k :: rest, acc =>
    match effColl cx e s k with
    | .error er => .error er
    | .ok c => sumEffColl cx e s rest (cx.add acc c)

/-- `SqueethMarket.get_market_balance` -/
def marketBalance (cx : NumCtx) (e : Env) (s : State) : Except Err Balance :=
  let pO := cx.mul e.osqth e.weth          -- price[oSQTH] in USD: mark price from the squeeth data row
  match AList.get? s.wallet sqOsqthName with
  | none => .error (.demeter "no-token")
  | some long =>
    let short := dsum cx (s.vaults.map (·.2.short))
    let shortValue := cx.mul short pO
    match sumEffColl cx e s (s.vaults.map (·.1)) 0 with
    | .error er => .error er
    | .ok collEth =>
      let collValue := cx.mul collEth e.weth
      let shortEth := cx.div (cx.mul (cx.mul short e.nf) (twap e .weth)) sqIndexScale
      .ok { netValue := cx.sub collValue shortValue, collEth := collEth, collValue := collValue, long := long,
            short := short, shortEth := shortEth, net := cx.sub long short,
            ratio := if shortEth ≠ 0 then cx.div collEth shortEth else 0, count := s.vaults.length }

/-- accumulators of the loop in `UniLpMarket.get_market_balance` (base = oSQTH = token1, quote = WETH = token0) -/
structure UniAcc where
  baseFee : Rat := 0
  quoteFee : Rat := 0
  dep0 : Rat := 0
  dep1 : Rat := 0

def uniAccStep (cx : NumCtx) (sqrtP : Nat) (a : UniAcc) (kp : PosKey × UPos) : UniAcc :=
  if kp.2.transferred then a
  else
    let t := closePosition cx sqrtP kp.1.1 kp.1.2 kp.2.liquidity sqWethDecimals sqOsqthDecimals
    { baseFee := cx.add a.baseFee kp.2.pending1, quoteFee := cx.add a.quoteFee kp.2.pending0,
      dep0 := cx.add a.dep0 t.1, dep1 := cx.add a.dep1 t.2 }

/-- `UniLpMarket.get_market_balance().net_value` (in WETH) -/
def uniNetValue (cx : NumCtx) (e : Env) (s : State) : Rat :=
  let a := s.positions.foldl (uniAccStep cx (uniSqrtP cx e.uniPrice)) {}
  let liquidityValue := cx.add (cx.mul a.dep1 e.uniPrice) (cx.mul a.dep0 1)
  let feeValue := cx.add (cx.mul a.baseFee e.uniPrice) (cx.mul a.quoteFee 1)
  cx.add feeValue liquidityValue

def uniCount (s : State) : Nat := (s.positions.filter (fun kp => !kp.2.transferred)).length

end Demeter.Squeeth
