/-
  Demeter.Metrics — model of demeter/result/metrics (calculator.py, core.py) over `Rat`.

  The code computes with float64 (numpy / pandas).  The model is the exact-rational semantics of the same
  formulas and algorithms; `sqrt` and `pow` are oracle parameters (`Orc`), which may answer `none` for a
  non-finite float (nan / ±inf).  Outcome classes:
    .ok v                      a finite value
    .error .nonfinite         the code returns nan / ±inf (numpy scalar arithmetic does not raise)
    .error .zeroDiv a Python-float division by zero (durations and intervals are Python floats)
    .error .index / "ValueError" / "DemeterError" / "None"   as raised / returned by the code
  Calling convention modelled: net values and returns are numpy float64 (as inside `performance_metrics`),
  durations / intervals are Python floats.
-/
import Demeter.Num
import Demeter.Gen.ConstsMetrics
namespace Demeter.Metrics

/-- outcome classes other than a finite value -/
inductive Err
  | nonfinite     -- the code returns nan / ±inf (numpy scalar arithmetic warns, it does not raise)
  | zeroDiv       -- ZeroDivisionError (Python-float division)
  | index         -- IndexError
  | value         -- ValueError (np.cov on series of different lengths)
  | demeter       -- DemeterError
  | noneRet       -- the function falls through and returns None
deriving Repr, DecidableEq

def Err.name : Err → String
  | .nonfinite => "nonfinite"
  | .zeroDiv => "ZeroDivisionError"
  | .index => "IndexError"
  | .value => "ValueError"
  | .demeter => "DemeterError"
  | .noneRet => "None"

abbrev R := Except Err

/-- libm / numpy functions treated as parameters; `none` = the float result is nan or ±inf -/
structure Orc where
  pow : Rat → Rat → Option Rat
  sqrt : Rat → Option Rat

def ofOpt (o : Option Rat) : R Rat :=
  match o with
  | some v => .ok v
  | none => .error .nonfinite

/-- `arr[i]` for an index known to be in range (0 otherwise; every read below is guarded by the loop bounds) -/
def nth (xs : List Rat) (i : Nat) : Rat := xs.getD i 0

def prod : List Rat → Rat
  | [] => 1
  | x :: r => x * prod r

def sum : List Rat → Rat
  | [] => 0
  | x :: r => x + sum r

/-! ### max drawdown: the code's scan (`_withdraw_with_high_low` + `max_draw_down`) -/

/-- loop state of `_withdraw_with_high_low`: `i_high`, `g_withdraw`, `g_high`, `g_low` -/
structure HL where
  iHigh : Nat
  g : Rat
  gHigh : Nat
  gLow : Nat
deriving Repr, DecidableEq

/-- one iteration of `for i in range(1, len(arr))` -/
def hlStep (xs : List Rat) (s : HL) (i : Nat) : HL :=
  let iHigh := if nth xs s.iHigh < nth xs (i - 1) then i - 1 else s.iHigh
  if 0 < nth xs iHigh then
    let dp := (nth xs iHigh - nth xs i) / nth xs iHigh
    if s.g < dp then { iHigh := iHigh, g := dp, gHigh := iHigh, gLow := i }
    else { s with iHigh := iHigh }
  else { s with iHigh := iHigh }

/-- initial `(i_high, g_withdraw, g_high, g_low)`; the three `g_…` start values are read from the source -/
def hlInit : HL :=
  { iHigh := 0, g := Gen.metricsMddInit.getD 0, gHigh := Gen.metricsMddInitHigh.toNat, gLow := Gen.metricsMddInitLow.toNat }

/-- state after the iterations `i = 1 … k` -/
def hlRun (xs : List Rat) (k : Nat) : HL := (List.range' 1 k).foldl (hlStep xs) hlInit

def withdrawHighLow (xs : List Rat) : HL := hlRun xs (xs.length - 1)

/-- `max_draw_down`: `(nv[idx_h] - nv[idx_l]) / nv[idx_h]` on the indices the scan returns -/
def maxDrawDown (xs : List Rat) : R Rat :=
  if xs.length = 0 then .error .index else
  let s := withdrawHighLow xs
  if nth xs s.gHigh = 0 then .error .nonfinite
  else .ok ((nth xs s.gHigh - nth xs s.gLow) / nth xs s.gHigh)

/-! #### the scan as it was before the repair (kept to state the defect; not used by the driver's `mdd`) -/

structure HLOld where
  iHigh : Nat
  g : Option Rat      -- none = -inf
  gHigh : Int
  gLow : Int
deriving Repr, DecidableEq

def hlStepOld (xs : List Rat) (s : HLOld) (i : Nat) : HLOld :=
  let iHigh := if nth xs s.iHigh < nth xs (i - 1) then i - 1 else s.iHigh
  let dp := nth xs iHigh - nth xs i
  let better := match s.g with
    | none => true
    | some g => g < dp
  if better then { iHigh := iHigh, g := some dp, gHigh := iHigh, gLow := i }
  else { s with iHigh := iHigh }

/-- Python's `iloc[k]` with a negative index counting from the end -/
def iloc (xs : List Rat) (k : Int) : Rat :=
  if k < 0 then nth xs (xs.length - (-k).toNat) else nth xs k.toNat

def maxDrawDownOld (xs : List Rat) : R Rat :=
  if xs.length = 0 then .error .index else
  let s := (List.range' 1 (xs.length - 1)).foldl (hlStepOld xs) { iHigh := 0, g := none, gHigh := -1, gLow := -1 }
  if iloc xs s.gHigh = 0 then .error .nonfinite
  else .ok ((iloc xs s.gHigh - iloc xs s.gLow) / iloc xs s.gHigh)

/-! ### max drawdown: the definition -/

/-- relative decline from position `i` to position `j` -/
def dd (xs : List Rat) (i j : Nat) : Rat := (nth xs i - nth xs j) / nth xs i

/-- largest relative decline from the value `x` to one of the later values `ys` (0 if none falls) -/
def maxDecl (x : Rat) : List Rat → Rat
  | [] => 0
  | y :: r => max ((x - y) / x) (maxDecl x r)

/-- the definition: the largest relative decline from any point to any later point (what the code's
    `max_draw_down_benchmark` spells out), 0 when nothing ever falls -/
def mddSpec : List Rat → Rat
  | [] => 0
  | x :: r => max (maxDecl x r) (mddSpec r)

/-- the same, said with the running peak: at every point the decline from the highest value so far -/
def mddPeak (peak : Rat) : List Rat → Rat
  | [] => 0
  | x :: r =>
    let p := max peak x
    max ((p - x) / p) (mddPeak p r)

/-! ### returns -/

def returnValue (init final : Rat) : Rat := final - init

/-- `final / init - 1 if init > 0 else np.inf` -/
def returnRate (init final : Rat) : R Rat :=
  if 0 < init then .ok (final / init - 1) else .error .nonfinite

def multiplesFrom (prev : Rat) : List Rat → List Rat
  | [] => []
  | x :: r => (if prev = 0 then 1 else x / prev) :: multiplesFrom x r

/-- `(nv / nv.shift(1)).fillna(1).replace([inf, -inf], 1)` -/
def returnMultiple : List Rat → List Rat
  | [] => []
  | x :: r => 1 :: multiplesFrom x r

def ratesFrom (prev : Rat) : List Rat → List Rat
  | [] => []
  | x :: r => (if prev = 0 then 0 else x / prev - 1) :: ratesFrom x r

/-- `nv.pct_change().fillna(0).replace([inf, -inf], 0)`; pandas computes `nv / nv.shift(1) - 1` -/
def returnRateSeries : List Rat → List Rat
  | [] => []
  | x :: r => 0 :: ratesFrom x r

inductive Interest | single | compound | other
deriving Repr, DecidableEq

/-- the optional inputs of `annualized_return` -/
structure AnnArgs where
  init : Option Rat := none
  final : Option Rat := none
  rates : Option (List Rat) := none
  nets : Option (List Rat) := none

def daysPerYear : Rat := Gen.metricsDaysPerYear

/-- `base ** (365 / duration) - 1` -/
def compoundOf (o : Orc) (d base : Rat) : R Rat :=
  if d = 0 then .error .zeroDiv else
  match o.pow base (daysPerYear / d) with
  | some p => .ok (p - 1)
  | none => .error .nonfinite

def annualizedReturn (o : Orc) (it : Interest) (d : Rat) (a : AnnArgs) : R Rat :=
  match it with
  | .single =>
    match a.init, a.final, a.nets, a.rates with
    | some i, some f, _, _ =>
      if i = 0 ∨ d = 0 then .error .nonfinite else .ok (((f - i) / i) / (d / daysPerYear))
    | _, _, some xs, _ =>
      if xs.length = 0 then .error .index else
      let x0 := nth xs 0
      let xl := nth xs (xs.length - 1)
      if x0 = 0 ∨ d = 0 then .error .nonfinite else .ok ((xl - x0) / x0 / (d / daysPerYear))
    | _, _, none, some _ => .error .demeter
    | _, _, none, none => .error .demeter
  | .compound =>
    match a.init, a.final, a.nets, a.rates with
    | some i, some f, _, _ =>
      if d = 0 then .error .zeroDiv else
      if i = 0 then .error .nonfinite else compoundOf o d (f / i)
    | _, _, some xs, _ => compoundOf o d (prod (returnMultiple xs))
    | _, _, none, some rs => compoundOf o d (prod (rs.map (· + 1)))
    | _, _, none, none => .error .demeter
  | .other => .error .noneRet

/-! ### volatility, Sharpe, alpha / beta -/

def mean (xs : List Rat) : Rat := sum xs / xs.length

/-- sum of products of deviations from the means (numerator of covariance / variance) -/
def devProd (xs ys : List Rat) : Rat :=
  let mx := mean xs
  let my := mean ys
  sum (List.zipWith (fun x y => (x - mx) * (y - my)) xs ys)

/-- sample covariance, `ddof = 1` (`np.cov`, and `Series.std()**2` when `ys = xs`); nan for fewer than two points -/
def cov (xs ys : List Rat) : R Rat :=
  if xs.length ≠ ys.length then .error .value
  else if xs.length ≤ 1 then .error .nonfinite
  else .ok (devProd xs ys / ((xs.length : Rat) - 1))

def sampleVar (xs : List Rat) : R Rat := cov xs xs

/-- `Series.std()` -/
def stdDev (o : Orc) (xs : List Rat) : R Rat :=
  match sampleVar xs with
  | .ok v => ofOpt (o.sqrt v)
  | .error e => .error e

/-- `returns.std() * np.sqrt(365 / interval_in_day)` -/
def volatility (o : Orc) (returns : List Rat) (interval : Rat) : R Rat :=
  if interval = 0 then .error .zeroDiv else
  match stdDev o returns, o.sqrt (Gen.metricsVolDaysPerYear / interval) with
  | .ok s, some q => .ok (s * q)
  | .error e, _ => .error e
  | .ok _, none => .error .nonfinite

/-- `(v / v.shift(1)).dropna()`: the first element and every `0/0` (nan) are dropped; `x/0` with `x ≠ 0`
    is ±inf and stays in the series (`none`) -/
def ratiosFrom (prev : Rat) : List Rat → List (Option Rat)
  | [] => []
  | x :: r =>
    if prev = 0 then (if x = 0 then ratiosFrom x r else none :: ratiosFrom x r)
    else some (x / prev) :: ratiosFrom x r

def shiftRatios : List Rat → List (Option Rat)
  | [] => []
  | x :: r => ratiosFrom x r

/-- the series if it has no inf in it -/
def allSome : List (Option Rat) → Option (List Rat)
  | [] => some []
  | none :: _ => none
  | some v :: r => (allSome r).map (fun t => v :: t)

def sharpeRatio (o : Orc) (interval duration : Rat) (values : List Rat) (rf : Rat) : R Rat :=
  match allSome (shiftRatios values) with
  | none => if duration = 0 ∨ interval = 0 then .error .zeroDiv else .error .nonfinite
  | some returns =>
    match annualizedReturn o .compound duration { rates := some (returns.map (· - 1)) } with
    | .error .nonfinite =>
      if interval = 0 then .error .zeroDiv else .error .nonfinite
    | .error e => .error e
    | .ok m =>
      match volatility o returns interval with
      | .error e => .error e
      | .ok s => if s = 0 then .error .nonfinite else .ok ((m - rf) / s)

/-- a metric value as reported: finite, or nan/inf -/
abbrev Val := Option Rat

/-- a nan/inf result stays a value (of the returned tuple / of the dict); any exception aborts the call -/
def soft (r : R Rat) : R Val :=
  match r with
  | .ok v => .ok (some v)
  | .error .nonfinite => .ok none
  | .error e => .error e

/-- `cov = np.cov(p, b); beta = cov[0, 1] / cov[1, 1]`: computed **before** the two APRs and independent of them.
    nan/inf (`none`) when the matrix is nan (fewer than two returns) or the benchmark variance is 0 -/
def betaOf (p b : List Rat) : R Val :=
  match soft (cov p b), soft (cov b b) with
  | .ok (some c01), .ok (some c11) => if c11 = 0 then .ok none else .ok (some (c01 / c11))
  | .ok _, .ok _ => .ok none
  | .error e, _ => .error e
  | _, .error e => .error e

/-- `alpha = portfolio_apy - beta * benchmark_apy`: finite only when all three are -/
def alphaOf (pa ba beta : Val) : Val :=
  match pa, ba, beta with
  | some pa, some ba, some beta => some (pa - beta * ba)
  | _, _, _ => none

/-- `alpha_beta`: returns `(alpha, beta)`.  The code computes beta first (from the covariance matrix of the two ratio
    series), then the two APRs, then alpha: an APR whose `pow` overflows makes **alpha** inf/nan and leaves **beta** as
    it is — each component is a `Val` of its own. -/
def alphaBeta (o : Orc) (values bench : List Rat) (duration : Rat) : R (Val × Val) :=
  let ps := shiftRatios values
  let bs := shiftRatios bench
  if ps.length ≠ bs.length then .error .value else
  if duration = 0 then .error .zeroDiv else
  match allSome ps, allSome bs with
  | some p, some b =>
    match betaOf p b,
          soft (annualizedReturn o .compound duration { rates := some (p.map (· - 1)) }),
          soft (annualizedReturn o .compound duration { rates := some (b.map (· - 1)) }) with
    | .ok beta, .ok pa, .ok ba => .ok (alphaOf pa ba beta, beta)
    | .error e, _, _ => .error e
    | _, .error e, _ => .error e
    | _, _, .error e => .error e
  | _, _ => .ok (none, none)    -- an inf in a ratio series: np.cov answers nan, and so are beta and alpha

/-! ### performance_metrics -/

structure Perf where
  startVal : Rat
  endVal : Rat
  intervalInDay : Rat
  durationInDay : Rat
  returnValue : Rat
  returnRate : Val
  annualized : Val
  mdd : Val
  sharpe : Val
  volatility : Val
  alpha : Val
  beta : Val
  benchRate : Val
  benchApr : Val

/-- benchmark part, after `alpha_beta`: `benchmark.iloc[0]`, `iloc[-1]`, `return_rate`, `annualized_return` -/
def perfBenchRest (o : Orc) (d : Rat) (b : List Rat) (alpha beta : Val) : R (Val × Val × Val × Val) :=
  if b.length = 0 then .error .index else
  let b0 := nth b 0
  let bl := nth b (b.length - 1)
  match soft (returnRate b0 bl), soft (annualizedReturn o .compound d { init := some b0, final := some bl }) with
  | .ok br, .ok ba => .ok (alpha, beta, br, ba)
  | .error e, _ => .error e
  | _, .error e => .error e

/-- `(alpha, beta, benchmark_return, benchmark_apr)`; all nan without a benchmark -/
def perfBench (o : Orc) (values : List Rat) (d : Rat) (bench : Option (List Rat)) : R (Val × Val × Val × Val) :=
  match bench with
  | none => .ok (none, none, none, none)
  | some b =>
    match alphaBeta o values b d with
    | .ok (a, be) => perfBenchRest o d b a be
    | .error e => .error e

/-- `values.pct_change().dropna()` is the ratio series minus one; then `volatility` -/
def perfVolatility (o : Orc) (values : List Rat) (interval : Rat) : R Rat :=
  match allSome (shiftRatios values) with
  | none => if interval = 0 then .error .zeroDiv else .error .nonfinite
  | some rs => volatility o (rs.map (· - 1)) interval

/-- `performance_metrics`; `t0 t1 tEnd`: first, second and last index entries in nanoseconds.  The entries are
    evaluated in the code's order, the first exception aborts the call. -/
def performanceMetrics (o : Orc) (t0 t1 tEnd : Int) (values : List Rat) (rf : Rat) (bench : Option (List Rat)) : R Perf :=
  if values.length < 2 then .error .index else
  let init := nth values 0
  let final := nth values (values.length - 1)
  let interval : Int := t1 - t0
  let intervalInDay : Rat := (interval : Rat) / Gen.metricsNsPerSec / Gen.metricsSecPerDay
  let durationInDay : Rat := ((tEnd - t0 + interval : Int) : Rat) / Gen.metricsNsPerSec / Gen.metricsSecPerDay
  match perfBench o values durationInDay bench,
        soft (returnRate init final),
        soft (annualizedReturn o .compound durationInDay { init := some init, final := some final }),
        soft (maxDrawDown values),
        soft (sharpeRatio o intervalInDay durationInDay values rf),
        soft (perfVolatility o values intervalInDay) with
  | .ok (alpha, beta, bRate, bApr), .ok rr, .ok ann, .ok mdd, .ok sh, .ok vol =>
    .ok { startVal := init, endVal := final, intervalInDay := intervalInDay, durationInDay := durationInDay,
          returnValue := returnValue init final, returnRate := rr, annualized := ann, mdd := mdd, sharpe := sh,
          volatility := vol, alpha := alpha, beta := beta, benchRate := bRate, benchApr := bApr }
  | .error e, _, _, _, _, _ => .error e
  | _, .error e, _, _, _, _ => .error e
  | _, _, .error e, _, _, _ => .error e
  | _, _, _, .error e, _, _ => .error e
  | _, _, _, _, .error e, _ => .error e
  | _, _, _, _, _, .error e => .error e

/-- the signature's default: `annualized_risk_free_rate=0.03` (the double's exact value, read from the source) -/
def defaultRiskFree : Rat := Gen.metricsDefaultRiskFree

/-- `performance_metrics(values, [rf], benchmark=…)`: `rf = none` is a call that leaves the risk-free rate to its default -/
def performanceMetricsOpt (o : Orc) (t0 t1 tEnd : Int) (values : List Rat) (rf : Option Rat) (bench : Option (List Rat)) : R Perf :=
  performanceMetrics o t0 t1 tEnd values (rf.getD defaultRiskFree) bench

end Demeter.Metrics
