/-
  Demeter.LiqMath — model of the LiquidityAmounts part of demeter/uniswap/liquitidy_math.py.
  `get_liquidity*` are integer functions; `get_amount0/1` return Decimals (rounded by the context).
-/
import Demeter.TickMath
namespace Demeter

def Q96 : Nat := 2 ^ 96

/-- `mul_div a b d = a * b // d` (Python floor division; operands are non-negative here) -/
def mulDiv (a b d : Nat) : Nat := a * b / d

def sortPair (a b : Nat) : Nat × Nat := if a > b then (b, a) else (a, b)

/-- `get_liquidity_for_amount0` -/
def liqForAmount0 (sa sb amount : Nat) : Nat :=
  let (sa, sb) := sortPair sa sb
  let inter := mulDiv sa sb Q96
  mulDiv amount inter (sb - sa)

/-- `get_liquidity_for_amount1` -/
def liqForAmount1 (sa sb amount : Nat) : Nat :=
  let (sa, sb) := sortPair sa sb
  mulDiv amount Q96 (sb - sa)

/-- `to_wei`: `int(amount * 10**decimals)` — Decimal product rounded by the context, then truncated -/
def toWei (cx : NumCtx) (amount : Rat) (decimals : Nat) : Int :=
  truncInt (cx.mul amount (pow10 decimals : Nat))

/-- `get_liquidity` on already converted wei amounts and sqrt prices (sa ≤ sb after sorting) -/
def getLiquidityWei (s sa sb a0 a1 : Nat) : Nat :=
  let (sa, sb) := sortPair sa sb
  if s ≤ sa then liqForAmount0 sa sb a0
  else if s < sb then
    let l0 := liqForAmount0 s sb a0
    let l1 := liqForAmount1 sa s a1
    if l0 < l1 then l0 else l1
  else liqForAmount1 sa sb a1

/-- exact rational token0 amount in wei for liquidity `l` between `sa ≤ sb`:
    `l * 2^96 * (sb - sa) / sb / sa` -/
def amount0Wei (sa sb l : Nat) : Rat :=
  let (sa, sb) := sortPair sa sb
  ((l * Q96 * (sb - sa) : Nat) : Rat) / sb / sa

def amount1Wei (sa sb l : Nat) : Rat :=
  let (sa, sb) := sortPair sa sb
  ((l * (sb - sa) : Nat) : Rat) / Q96

/-- `get_amount0`: `(Decimal(l*2^96*(sb-sa)) / sb / sa) / 10**decimals` with context rounding at each step.
    `Decimal(int)` is exact; each `/` rounds. -/
def getAmount0 (cx : NumCtx) (sa sb l decimals : Nat) : Rat :=
  let (sa, sb) := sortPair sa sb
  cx.div (cx.div (cx.div ((l * Q96 * (sb - sa) : Nat) : Rat) sb) sa) (pow10 decimals : Nat)

def getAmount1 (cx : NumCtx) (sa sb l decimals : Nat) : Rat :=
  let (sa, sb) := sortPair sa sb
  cx.div (cx.div ((l * (sb - sa) : Nat) : Rat) Q96) (pow10 decimals : Nat)

/-- `get_amounts` given the two boundary sqrt prices -/
def getAmountsS (cx : NumCtx) (s sa sb l d0 d1 : Nat) : Rat × Rat :=
  let (sa, sb) := sortPair sa sb
  if s ≤ sa then (getAmount0 cx sa sb l d0, 0)
  else if s < sb then (getAmount0 cx s sb l d0, getAmount1 cx sa s l d1)
  else (0, getAmount1 cx sa sb l d1)

def getAmounts (cx : NumCtx) (s : Nat) (ta tb : Int) (l d0 d1 : Nat) : Rat × Rat :=
  getAmountsS cx s (sqrtAt ta) (sqrtAt tb) l d0 d1

/-- `get_liquidity`; `none` = the `ZeroDivisionError` the code raises when both ticks have the same sqrt price -/
def getLiquidity (cx : NumCtx) (s : Nat) (ta tb : Int) (a0 a1 : Rat) (d0 d1 : Nat) : Option Int :=
  let w0 := toWei cx a0 d0
  let w1 := toWei cx a1 d1
  -- Python ints may be negative if a negative amount is offered; floor division then applies
  let (sa, sb) := sortPair (sqrtAt ta) (sqrtAt tb)
  let l0 (x y : Nat) (w : Int) : Int := (w * (mulDiv x y Q96 : Nat)) / ((y - x : Nat) : Int)
  let l1 (x y : Nat) (w : Int) : Int := (w * (Q96 : Nat)) / ((y - x : Nat) : Int)
  if sa = sb then none
  else if s ≤ sa then some (l0 sa sb w0)
  else if s < sb then
    let a := l0 s sb w0
    let b := l1 sa s w1
    some (if a < b then a else b)
  else some (l1 sa sb w1)

/-- `V3CoreLib.new_position`: liquidity from the offered amounts, then the amounts that liquidity uses -/
def newPosition (cx : NumCtx) (s : Nat) (ta tb : Int) (a0 a1 : Rat) (d0 d1 : Nat) : Option (Rat × Rat × Int) :=
  match getLiquidity cx s ta tb a0 a1 d0 d1 with
  | none => none
  | some l =>
    let u := getAmounts cx s ta tb l.toNat d0 d1
    some (u.1, u.2, l)

/-- `V3CoreLib.close_position` / `get_token_amounts` (with its `liquidity == 0` shortcut) -/
def closePosition (cx : NumCtx) (s : Nat) (ta tb : Int) (l : Nat) (d0 d1 : Nat) : Rat × Rat :=
  if l = 0 then (0, 0) else getAmounts cx s ta tb l d0 d1

end Demeter
