/-
  Demeter.PyFloat — the (hand-written, trusted) meaning of Python `float` operations in the FLOAT MODE of `tools/py2lean.py`.
  Core Lean only.

  A Python `float` is a value of an abstract number type `α` that has `+ − × ÷`, unary minus, `<`, `≤` (decidable) and a zero;
  what is not a field operation comes in through `FloatOps α`.  The generated definitions are written once over `α` and are used
  twice, like the hand-written GMX v2 model: at `α = Rat` (exact rational reading: what the theorems are about) and at `α = Float`
  (IEEE binary64: what is compared with CPython bit for bit by `tools/py2lean_diff.py`).

    a + b, a - b, a * b, -a   ↦  the operation of `α`                     (IEEE: never raise)
    a / b                     ↦  `fdiv`: `ZeroDivisionError` iff `b == 0`   (CPython float_div)
    abs(a)                    ↦  `fabs`: `-a` if `a < 0` else `a`           (the VALUE of CPython's fabs; for `a = -0.0` CPython returns `0.0`
                                  and this returns `-0.0` — the same number, `0.0 == -0.0`; nothing in the translated subset tells them apart
                                  except the sign of a later zero)
    a ** b                    ↦  `fpow`: CPython's float_pow — see there
    a < b, a <= b, …          ↦  the order of `α`                           (IEEE: false when an operand is NaN, as in CPython)
    int literal 0 among floats ↦ the zero of `α`                             (`0 + x`, `0 < x`: CPython converts the int exactly)
-/
import Demeter.PyPrelude
namespace Demeter.Py

/-- the operations of a Python `float` that are not field operations -/
structure FloatOps (α : Type) where
  /-- `x == 0` -/
  isZero : α → Bool
  /-- the value of `x ** y` where CPython returns a float (C `pow` of the platform libm for ordinary operands: an oracle) -/
  pow : α → α → α
  /-- `math.isfinite(x)` -/
  isFinite : α → Bool
  /-- `y == math.floor(y)` for a finite `y` -/
  isIntegral : α → Bool

section
variable {α : Type} [Add α] [Sub α] [Mul α] [Div α] [Neg α] [LT α] [LE α] [OfNat α 0] [DecidableLT α] [DecidableLE α]

/-- `a / b` on floats -/
def fdiv (o : FloatOps α) (a b : α) : M α := if o.isZero b then .error .ZeroDivisionError else .ok (a / b)

/-- `abs(a)` on floats (its value; see the header for `-0.0`) -/
def fabs (a : α) : α := if a < 0 then -a else a

/-- does CPython's `x ** y` raise `OverflowError`: both operands finite, the C result is not -/
def powOverflows (o : FloatOps α) (x y : α) : Bool := o.isFinite x && o.isFinite y && !o.isFinite (o.pow x y)

/-- `x ** y` on floats, as CPython's `float_pow` decides it, in its order:
    a zero base with a finite negative exponent raises `ZeroDivisionError`; a finite negative base with a finite non-integral exponent gives a
    `complex` (outside the translated subset: `Unsupported`); finite operands whose C `pow` is not finite raise `OverflowError`
    ("Numerical result out of range"); otherwise the float `o.pow x y` (NaN / infinite operands propagate without an exception) -/
def fpow (o : FloatOps α) (x y : α) : M α :=
  if o.isZero x ∧ y < 0 ∧ o.isFinite y then .error .ZeroDivisionError
  else if x < 0 ∧ o.isFinite x ∧ o.isFinite y ∧ ¬ o.isIntegral y then .error (.Unsupported "negative float ** non-integral float is a complex")
  else if powOverflows o x y then .error (.Raised "OverflowError")
  else .ok (o.pow x y)

end

/-- IEEE binary64 instantiation (what CPython computes with) -/
def floatOps64 : FloatOps Float :=
  { isZero := fun x => x == 0.0,
    pow := Float.pow,
    isFinite := Float.isFinite,
    isIntegral := fun y => y == y.floor }

end Demeter.Py
