/-
  Demeter.TickPrice — model of the price ⇄ tick helpers of demeter/uniswap/helper.py:

    _from_x96, _to_x96, sqrt_price_x96_to_base_unit_price, base_unit_price_to_sqrt_price_x96,
    tick_to_base_unit_price, base_unit_price_to_tick, sqrt_price_x96_to_tick (composition used by C06 (e)).

  Everything is `Decimal` arithmetic under the process-wide context (prec 35): each `/` and `*` is rounded by
  `cx.rnd`; `Decimal ** 2` is libmpdec's integer power (`tn.sq`, = `dpowNat 35 · 2` in the driver: rounded at 38 and
  then at 35 digits); `Decimal(10 ** (d0 - d1))` is exact for `d0 ≥ d1` and otherwise the *binary64* value of the float
  `10 ** negative` (`tn.fac`); `Decimal.sqrt` is `cx.dsqrt`; `int(x)` truncates; `base_unit_price_to_tick` ends in
  `math.floor(math.log(sqrt_price, SQRT_1p0001))` — a libm computation, modelled as the oracle `tn.lg`.
  Exceptions are explicit (`Except` with the Python exception class name).
-/
import Demeter.TickMath
namespace Demeter

/-- the arithmetic the helpers use: Decimal context, `Decimal ** 2`, `Decimal(10 ** e)`, float log oracle -/
structure TickNum where
  cx  : NumCtx
  /-- `x ** 2` on a Decimal -/
  sq  : Rat → Rat
  /-- `Decimal(10 ** e)`: exact `10^e` for `e ≥ 0`; for `e < 0` Python computes the float `10 ** e` (libm `pow`) and
      `Decimal(float)` is its exact binary value -/
  fac : Int → Rat
  /-- `math.floor(math.log(x, SQRT_1p0001))` for a positive Decimal `x` (converted to the nearest double) -/
  lg  : Rat → Int

def q96Rat : Rat := ((2 ^ 96 : Nat) : Rat)

/-- `_from_x96`: `Decimal(number) / Q96` -/
def fromX96 (tn : TickNum) (n : Nat) : Rat := tn.cx.div (n : Rat) q96Rat

/-- `_to_x96`: `int(sqrt_price * Q96)` -/
def toX96 (tn : TickNum) (sp : Rat) : Int := truncInt (tn.cx.mul sp q96Rat)

/-- `Decimal(1 / x) if is_token0_quote else x`  (and `1 / price if is_token0_quote else price`) -/
def invIf (tn : TickNum) (q0 : Bool) (x : Rat) : Except String Rat :=
  if q0 then (if x = 0 then .error "DivisionByZero" else .ok (tn.cx.div 1 x)) else .ok x

/-- `sqrt_price_x96_to_base_unit_price` -/
def sqrtX96ToPrice (tn : TickNum) (sx : Nat) (d0 d1 : Nat) (q0 : Bool) : Except String Rat :=
  let sp := fromX96 tn sx
  let pool := tn.cx.mul (tn.sq sp) (tn.fac ((d0 : Int) - (d1 : Int)))
  invIf tn q0 pool

/-- `tick_to_base_unit_price` (same arithmetic on `get_sqrt_ratio_at_tick(tick)`, which asserts the range) -/
def tickToPrice (tn : TickNum) (t : Int) (d0 d1 : Nat) (q0 : Bool) : Except String Rat :=
  if !tickOk t then .error "AssertionError" else sqrtX96ToPrice tn (sqrtAt t) d0 d1 q0

/-- the Decimal `sqrt_price` both inverse helpers compute:
    `Decimal.sqrt((1/price if q0 else price) / Decimal(10 ** (d0 - d1)))` -/
def priceToSqrt (tn : TickNum) (price : Rat) (d0 d1 : Nat) (q0 : Bool) : Except String Rat :=
  match invIf tn q0 price with
  | .error e => .error e
  | .ok p =>
    let atomic := tn.cx.div p (tn.fac ((d0 : Int) - (d1 : Int)))
    if atomic < 0 then .error "InvalidOperation" else .ok (tn.cx.dsqrt atomic)

/-- `base_unit_price_to_sqrt_price_x96` -/
def priceToSqrtX96 (tn : TickNum) (price : Rat) (d0 d1 : Nat) (q0 : Bool) : Except String Int :=
  match priceToSqrt tn price d0 d1 q0 with
  | .error e => .error e
  | .ok sp => .ok (toX96 tn sp)

/-- `base_unit_price_to_tick`: the float logarithm of the Decimal sqrt price, floored — *not* corrected by integer
    comparisons (unlike `sqrt_price_x96_to_tick`) -/
def priceToTick (tn : TickNum) (price : Rat) (d0 d1 : Nat) (q0 : Bool) : Except String Int :=
  match priceToSqrt tn price d0 d1 q0 with
  | .error e => .error e
  | .ok sp => if sp ≤ 0 then .error "ValueError" else .ok (tn.lg sp)

/-- `sqrt_price_x96_to_tick(base_unit_price_to_sqrt_price_x96(price, …))`: the oracle-free route from a price to
    a tick (`est` = whatever the float logarithm inside `sqrt_price_x96_to_tick` produced) -/
def priceToTickX96 (tn : TickNum) (fuel : Nat) (est : Int) (price : Rat) (d0 d1 : Nat) (q0 : Bool) :
    Except String Int :=
  match priceToSqrtX96 tn price d0 d1 q0 with
  | .error e => .error e
  | .ok x => .ok (tickOfSqrt fuel est x.toNat)

/-! ### the driver's instantiation: CPython -/

/-- `Decimal(10 ** e)` as CPython computes it -/
def facPy (e : Int) : Rat :=
  if e ≥ 0 then ((10 ^ e.toNat : Nat) : Rat)
  else match floatToRat? (Float.pow 10.0 (Float.ofInt e)) with
    | some r => r
    | none => 0

/-- `SQRT_1p0001 = math.sqrt(Decimal(1.0001))` -/
def sqrt1p0001F : Float := Float.sqrt 1.0001

/-- `math.floor(math.log(x, SQRT_1p0001))`: `log(float(x)) / log(base)` in binary64, floored -/
def lgPy (x : Rat) : Int :=
  let l := Float.log (ratToFloat x) / Float.log sqrt1p0001F
  (Float.floor l).toInt64.toInt

def TickNum.py : TickNum :=
  { cx := NumCtx.py, sq := fun x => dpowNat 35 x 2, fac := facPy, lg := lgPy }

end Demeter
