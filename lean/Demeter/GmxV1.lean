/-
  Demeter.GmxV1 — model of `demeter/gmx/market.py` (GMX v1 GLP market): `buy_glp`, `sell_glp`, `_add_liquidity`,
  `_remove_liquidity`, `buy_usdg`, `sell_usdg`, `get_fee_basis_points`, `get_target_amount`, `_collect_swap_fee`,
  `_update_fee`, `get_market_balance`.

  The code computes with `decimal.Decimal` (35 significant digits): every `+ − × ÷` goes through `cx`; the three
  `quantize(Decimal("0"), ROUND_DOWN)` steps are `quantDown 0` and raise `InvalidOperation` when the integer
  has more digits than the context precision.  Exceptions are values (`Err`); a function that can raise returns
  the state the code leaves behind next to the error, so "a rejected call changes nothing" is a theorem about
  the control flow written here (order of checks and mutations as in the source), not a convention.
-/
import Demeter.Num
import Demeter.Wallet
import Demeter.Gen.ConstsGmx
namespace Demeter.GmxV1
open Demeter

/-- exception classes the modelled code can raise -/
inductive Err
  | demeter        -- DemeterError (negative amount, more GLP than held, token not in the wallet)
  | assertion      -- AssertionError("insufficient balance") from Asset.sub
  | key            -- KeyError: no such column in the data row
  | divZero        -- decimal.DivisionByZero (x / 0, x ≠ 0)
  | invalidOp      -- decimal.InvalidOperation (0 / 0, quantize overflow)
deriving DecidableEq, Repr

def Err.name : Err → String
  | .demeter => "DemeterError"
  | .assertion => "AssertionError"
  | .key => "KeyError"
  | .divZero => "DivisionByZero"
  | .invalidOp => "InvalidOperation"

/-- per-token columns of one data row: `{name}_price`, `{name}_usdg`, `{name}_weight` -/
structure TokenRow where
  name : String
  price : Rat
  usdg : Rat
  weight : Rat
deriving Repr, DecidableEq

/-- one bar of market data (`market_status.data`) plus the market's token set -/
structure Env where
  rows : List TokenRow        -- columns present in the row, keyed by lower-case token name
  tokenSet : List String      -- `GmxMarket._tokens` (names); their weights are summed
  glpSupply : Rat             -- `glp`
  aum : Rat                   -- `aum`
  usdgSupply : Rat            -- `usdg`
  interval : Rat              -- `interval`
  glpPrice : Rat              -- `glp_price`
  wavaxPrice : Rat            -- `wavax_price`
deriving Repr

inductive Action
  | buy (token : String) (tokenAmount mintAmount : Rat)     -- BuyGlpAction
  | sell (token : String) (glpAmount tokenOut : Rat)         -- SellGlpAction
deriving Repr, DecidableEq

/-- `GmxMarket.glp_amount`, `.reward`, the broker wallet and the action log -/
structure State where
  glp : Rat
  reward : Rat
  wallet : Wallet
  actions : List Action
deriving Repr, DecidableEq

def Env.row? (env : Env) (tok : String) : Option TokenRow := env.rows.find? (fun r => r.name = tok)

/-- `Decimal` division: `x / 0` raises DivisionByZero, `0 / 0` InvalidOperation -/
def ddiv (cx : NumCtx) (a b : Rat) : Except Err Rat :=
  if b = 0 then (if a = 0 then .error .invalidOp else .error .divZero) else .ok (cx.div a b)

/-- `x.quantize(Decimal("0"), rounding=ROUND_DOWN)`; InvalidOperation when the result needs more than `prec` digits -/
def qdown (x : Rat) : Except Err Rat :=
  let q := quantDown 0 x
  if q.num.natAbs ≥ 10 ^ Gen.decimalPrec then .error .invalidOp else .ok q

/-- `get_target_amount`: `weight * supply / total_token_weights` (weights are integers, their sum is exact) -/
def targetAmount (cx : NumCtx) (env : Env) (tok : String) : Except Err Rat := do
  let total ← env.tokenSet.foldlM (fun acc t => match env.row? t with
    | some r => .ok (acc + r.weight)
    | none => .error Err.key) (0 : Rat)
  match env.row? tok with
  | none => .error .key
  | some r => ddiv cx (cx.mul r.weight env.usdgSupply) total

/-- which branch `get_fee_basis_points` took -/
inductive FeeBranch | targetZero | rebateZero | rebate | tax | taxCapped
deriving DecidableEq, Repr

def FeeBranch.name : FeeBranch → String
  | .targetZero => "target0" | .rebateZero => "rebate-to-0" | .rebate => "rebate" | .tax => "tax" | .taxCapped => "tax-capped"

/-- `a - b if a > b else b - a` -/
def absDiff (cx : NumCtx) (a b : Rat) : Rat := if a > b then cx.sub a b else cx.sub b a

/-- `next_amount` of `get_fee_basis_points` -/
def nextAmount (cx : NumCtx) (initial usdgAmount : Rat) (increase : Bool) : Rat :=
  if increase then cx.add initial usdgAmount
  else if usdgAmount > initial then 0 else cx.sub initial usdgAmount

/-- the rebate / tax part of `get_fee_basis_points`, given both distances from the (non-zero) target -/
def feeFromDiffs (cx : NumCtx) (initialDiff nextDiff target : Rat) : Rat × FeeBranch :=
  let base : Rat := Gen.gmxMintBurnFeeBps
  let tax : Rat := Gen.gmxTaxBps
  if nextDiff < initialDiff then
    let rebate := cx.div (cx.mul tax initialDiff) target
    if rebate > base then (0, .rebateZero) else (cx.sub base rebate, .rebate)
  else
    let avg := cx.div (cx.add initialDiff nextDiff) 2
    if avg > target then
      (base + (truncInt (cx.div (cx.mul tax target) target) : Rat), .taxCapped)
    else
      (base + (truncInt (cx.div (cx.mul tax avg) target) : Rat), .tax)

/-- `get_fee_basis_points` given the target amount -/
def feeBpsCore (cx : NumCtx) (initial usdgAmount target : Rat) (increase : Bool) : Rat × FeeBranch :=
  if target = 0 then ((Gen.gmxMintBurnFeeBps : Rat), .targetZero) else
  let next := nextAmount cx initial usdgAmount increase
  feeFromDiffs cx (absDiff cx initial target) (absDiff cx next target) target

/-- `get_fee_basis_points(token, usdg_amount, increase)` -/
def feeBps (cx : NumCtx) (env : Env) (tok : String) (usdgAmount : Rat) (increase : Bool) : Except Err (Rat × FeeBranch) :=
  match env.row? tok with
  | none => .error .key
  | some r => do
    let target ← targetAmount cx env tok
    pure (feeBpsCore cx r.usdg usdgAmount target increase)

/-- `_collect_swap_fee` -/
def afterFee (cx : NumCtx) (amount fee : Rat) : Rat :=
  cx.sub amount (cx.div (cx.mul amount fee) (Gen.gmxBpsDivisor : Rat))

/-- `Vault.adjustForDecimals` (`_adjust_for_decimals`): `amount * 10**decimalMul / 10**decimalDiv` -/
def adjustDecimals (cx : NumCtx) (amount : Rat) (decDiv decMul : Nat) : Rat :=
  cx.div (cx.mul amount ((10 : Rat) ^ decMul)) ((10 : Rat) ^ decDiv)

/-- `amount * 10**decimal * price / 10**30` rounded down to an integer (token wei × price), then adjusted from the
    token's decimals to USDG's 18 and rounded down again -/
def toUsdg (cx : NumCtx) (amount : Rat) (dec : Nat) (price : Rat) : Except Err Rat := do
  let u ← qdown (cx.div (cx.mul (cx.mul amount ((10 : Rat) ^ dec)) price) (Gen.gmxBuyUsdgDivisor : Rat))
  qdown (adjustDecimals cx u dec Gen.gmxUsdgDecimals)

/-- `buy_usdg`: USDG (wei) minted for `amount` tokens, and the fee in basis points -/
def buyUsdg (cx : NumCtx) (env : Env) (tok : String) (dec : Nat) (amount : Rat) : Except Err (Rat × Rat × FeeBranch) :=
  match env.row? tok with
  | none => .error .key
  | some r => do
    let usdg0 ← toUsdg cx amount dec r.price
    let (fee, br) ← feeBps cx env tok usdg0 true
    let after := afterFee cx amount fee
    let mint ← toUsdg cx after dec r.price
    pure (mint, fee, br)

/-- `aum / Decimal(10**12)` rounded down -/
def aumInUsdg (cx : NumCtx) (env : Env) (divisor : Nat) : Except Err Rat :=
  qdown (cx.div env.aum (divisor : Rat))

/-- `_add_liquidity`: GLP (wei) minted -/
def addLiquidity (cx : NumCtx) (env : Env) (tok : String) (dec : Nat) (amount : Rat) : Except Err (Rat × Rat × FeeBranch) := do
  let aumU ← aumInUsdg cx env Gen.gmxAumDivisorAdd
  let (usdg, fee, br) ← buyUsdg cx env tok dec amount
  let m ← ddiv cx (cx.mul usdg env.glpSupply) aumU
  let m ← qdown m
  pure (m, fee, br)

/-- `sell_usdg`: token amount (token wei, not rounded) redeemed for `usdg`: `get_redemption_amount` (USDG / price, adjusted
    from USDG's 18 decimals to the token's) less the fee -/
def sellUsdg (cx : NumCtx) (env : Env) (tok : String) (dec : Nat) (usdg : Rat) : Except Err (Rat × Rat × FeeBranch) :=
  match env.row? tok with
  | none => .error .key
  | some r => do
    let price := cx.div r.price (Gen.gmxPricePrecision : Rat)
    let redemption ← ddiv cx usdg price
    let redemption := adjustDecimals cx redemption Gen.gmxUsdgDecimals dec
    let (fee, br) ← feeBps cx env tok usdg false
    pure (afterFee cx redemption fee, fee, br)

/-- `_remove_liquidity`: tokens paid out for `glpAmount` GLP -/
def removeLiquidity (cx : NumCtx) (env : Env) (tok : String) (dec : Nat) (glpAmount : Rat) : Except Err (Rat × Rat × FeeBranch) := do
  let aumU ← aumInUsdg cx env Gen.gmxAumDivisorRemove
  let perSupply ← ddiv cx (cx.mul glpAmount ((10 : Rat) ^ Gen.gmxGlpDecimals)) env.glpSupply
  let usdg ← qdown (cx.mul perSupply aumU)
  let (out, fee, br) ← sellUsdg cx env tok dec usdg
  pure (cx.div out ((10 : Rat) ^ dec), fee, br)

/-- wallet key of a token: `TokenInfo.name` is upper-cased, the data columns are lower-case -/
def walletKey (tok : String) : String := tok.toUpper

/-- `buy_glp(token, amount)` (after the repair: argument check, pure computation, wallet debit, then holding and log) -/
def buyGlp (cx : NumCtx) (env : Env) (s : State) (tok : String) (dec : Nat) (amount : Rat) (allowNeg : Bool := false) :
    Except Err Rat × State :=
  if amount < 0 then (.error .demeter, s) else
  match addLiquidity cx env tok dec amount with
  | .error e => (.error e, s)
  | .ok (mint, _, _) =>
    match Wallet.debit cx s.wallet (walletKey tok) amount allowNeg with
    | .error .insufficient => (.error .assertion, s)
    | .error .unknownToken => (.error .demeter, s)
    | .ok w =>
      let g := cx.div mint ((10 : Rat) ^ Gen.gmxGlpDecimals)
      (.ok g, { s with wallet := w, glp := cx.add s.glp g, actions := s.actions ++ [.buy (walletKey tok) amount mint] })

/-- `sell_glp(token, glp_amount)`; `glp_amount = 0` sells the whole holding -/
def sellGlp (cx : NumCtx) (env : Env) (s : State) (tok : String) (dec : Nat) (glpAmount : Rat) : Except Err Rat × State :=
  let g := if glpAmount = 0 then s.glp else glpAmount
  if g < 0 then (.error .demeter, s) else
  if g > s.glp then (.error .demeter, s) else
  match removeLiquidity cx env tok dec g with
  | .error e => (.error e, s)
  | .ok (out, _, _) =>
    (.ok out, { s with glp := cx.sub s.glp g, wallet := Wallet.credit cx s.wallet (walletKey tok) out,
                       actions := s.actions ++ [.sell (walletKey tok) g out] })

/-- `update()` = `_update_fee()`: `reward += interval * 60 * glp_amount / supply` -/
def update (cx : NumCtx) (env : Env) (s : State) : Except Err Rat × State :=
  let blockReward := cx.mul env.interval (Gen.gmxRewardSeconds : Rat)
  match ddiv cx (cx.mul blockReward s.glp) env.glpSupply with
  | .error e => (.error e, s)
  | .ok r => (.ok r, { s with reward := cx.add s.reward r })

/-- `get_market_balance().net_value` -/
def netValue (cx : NumCtx) (env : Env) (s : State) : Rat :=
  cx.add (cx.mul s.glp env.glpPrice) (cx.div (cx.mul s.reward env.wavaxPrice) (Gen.gmxPricePrecision : Rat))

inductive Op
  | buy (tok : String) (dec : Nat) (amount : Rat)
  | sell (tok : String) (dec : Nat) (glpAmount : Rat)
  | update
deriving Repr

/-- `allowNeg` = `broker.allow_negative_balance` (default `False`, the setting the value theorems are about) -/
def step (cx : NumCtx) (env : Env) (s : State) (op : Op) (allowNeg : Bool := false) : Except Err Rat × State :=
  match op with
  | .buy t d a => buyGlp cx env s t d a allowNeg
  | .sell t d g => sellGlp cx env s t d g
  | .update => update cx env s

/-! ### the Vault's rule: integer reference model of `VaultUtils.getFeeBasisPoints` / `Vault.getTargetUsdgAmount`
    (gmx-contracts, Solidity `uint256` arithmetic, every division rounds down) -/

/-- `getTargetUsdgAmount`: `weight * usdg.totalSupply() / totalTokenWeights` (0 when the supply is 0) -/
def vaultTarget (weight supply totalWeights : Nat) : Nat :=
  if supply = 0 then 0 else weight * supply / totalWeights

/-- `getFeeBasisPoints(token, usdgDelta, feeBasisPoints, taxBasisPoints, increment)` with dynamic fees -/
def vaultFeeBps (initial usdgDelta target feeBps taxBps : Nat) (increment : Bool) : Nat :=
  let next := if increment then initial + usdgDelta else (if usdgDelta > initial then 0 else initial - usdgDelta)
  if target = 0 then feeBps else
  let initialDiff := if initial > target then initial - target else target - initial
  let nextDiff := if next > target then next - target else target - next
  if nextDiff < initialDiff then
    let rebate := taxBps * initialDiff / target
    if rebate > feeBps then 0 else feeBps - rebate
  else
    let avg := (initialDiff + nextDiff) / 2
    let avg := if avg > target then target else avg
    feeBps + taxBps * avg / target

end Demeter.GmxV1
