/-
  Demeter.Broker — `Broker.get_account_status`, `swap_by_from`, `swap_by_to` (demeter/broker/broker.py).
  Markets enter the valuation only through `get_market_balance().net_value` and their quote token, so a market
  is the pair (quote token, reported net value) here; the per-market valuations are modelled in the market files.
-/
import Demeter.Wallet
namespace Demeter

/-- what `get_account_status` reads of one market -/
structure MarketNV where
  name  : String
  quote : String
  nv    : Rat
deriving Repr, DecidableEq

abbrev Prices := AList String Rat

inductive BrokerErr | keyError | assertion | negativeAmount | zeroDiv | insufficient | unknownToken
deriving DecidableEq, Repr

/-- the loop over `self.markets.items()`: `market_sum += ms.net_value` or `ms.net_value * prices[quote]`
    (left-to-right, every partial sum rounded by the Decimal context). `none` = `KeyError` from `prices[...]`. -/
def marketSum (cx : NumCtx) (acctQuote : String) (prices : Prices) : List MarketNV → Rat → Option Rat
  | [], acc => some acc
  | m :: rest, acc =>
    if m.quote = acctQuote then marketSum cx acctQuote prices rest (cx.add acc m.nv)
    else match AList.get? prices m.quote with
      | some p => marketSum cx acctQuote prices rest (cx.add acc (cx.mul m.nv p))
      | none => none

/-- `sum([v * prices[k.name] for k, v in asset_balances.items()])`: Python's `sum` starts from int 0 -/
def assetSum (cx : NumCtx) (prices : Prices) : Wallet → Rat → Option Rat
  | [], acc => some acc
  | (tok, bal) :: rest, acc =>
    match AList.get? prices tok with
    | some p => assetSum cx prices rest (cx.add acc (cx.mul bal p))
    | none => none

structure AccountStatus where
  assetValue : Rat
  netValue   : Rat
deriving Repr, DecidableEq

/-- `Broker.get_account_status` (the markets' balances already evaluated, in dict order) -/
def accountStatus (cx : NumCtx) (acctQuote : String) (prices : Prices) (markets : List MarketNV) (w : Wallet) :
    Option AccountStatus :=
  match marketSum cx acctQuote prices markets 0 with
  | none => none
  | some ms =>
    match assetSum cx prices w 0 with
    | none => none
    | some as => some { assetValue := as, netValue := cx.add as ms }

/-- the independent valuation the property states: wallet balances at the bar's prices plus each market's position
    value converted into the account's quote token — a plain sum, every holding once. -/
def convFactor (acctQuote : String) (prices : Prices) (m : MarketNV) : Option Rat :=
  if m.quote = acctQuote then some 1 else AList.get? prices m.quote

def specMarkets (acctQuote : String) (prices : Prices) : List MarketNV → Option Rat
  | [] => some 0
  | m :: rest => do
    let c ← convFactor acctQuote prices m
    let r ← specMarkets acctQuote prices rest
    pure (m.nv * c + r)

def specWallet (prices : Prices) : Wallet → Option Rat
  | [] => some 0
  | (tok, bal) :: rest => do
    let p ← AList.get? prices tok
    let r ← specWallet prices rest
    pure (bal * p + r)

def specNetValue (acctQuote : String) (prices : Prices) (markets : List MarketNV) (w : Wallet) : Option Rat := do
  let a ← specWallet prices w
  let m ← specMarkets acctQuote prices markets
  pure (a + m)

/-! ### swaps -/

structure SwapResult where
  wallet     : Wallet
  fromAmount : Rat
  toAmount   : Rat
  fee        : Rat
deriving Repr

/-- `Broker.swap_by_from`; the state returned with an error is the state the code leaves behind -/
def swapByFrom (cx : NumCtx) (w : Wallet) (allowNeg : Bool) (fromTok toTok : String) (amount : Rat)
    (prices : Prices) (feeRate : Rat) : Except (BrokerErr × Wallet) SwapResult :=
  if ¬ (0 ≤ feeRate ∧ feeRate < 1) then .error (.assertion, w) else
  if amount < 0 then .error (.negativeAmount, w) else
  match AList.get? prices fromTok with
  | none => .error (.keyError, w)
  | some pf =>
    let fromValue := cx.mul amount pf
    let fromValueNoFee := cx.mul fromValue (cx.sub 1 feeRate)
    match AList.get? prices toTok with
    | none => .error (.keyError, w)
    | some pt =>
      if pt = 0 then .error (.zeroDiv, w) else   -- decimal.DivisionByZero / InvalidOperation
      let toAmount := cx.div fromValueNoFee pt
      match Wallet.debit cx w fromTok amount allowNeg with
      | .error .insufficient => .error (.insufficient, w)
      | .error .unknownToken => .error (.unknownToken, w)
      | .ok w1 =>
        .ok { wallet := Wallet.credit cx w1 toTok toAmount, fromAmount := amount, toAmount := toAmount,
              fee := cx.mul amount feeRate }

/-- `Broker.swap_by_to` -/
def swapByTo (cx : NumCtx) (w : Wallet) (allowNeg : Bool) (fromTok toTok : String) (amount : Rat)
    (prices : Prices) (feeRate : Rat) : Except (BrokerErr × Wallet) SwapResult :=
  if ¬ (0 ≤ feeRate ∧ feeRate < 1) then .error (.assertion, w) else
  if amount < 0 then .error (.negativeAmount, w) else
  match AList.get? prices toTok with
  | none => .error (.keyError, w)
  | some pt =>
    let toValue := cx.mul amount pt
    let toValueWithFee := cx.div toValue (cx.sub 1 feeRate)
    match AList.get? prices fromTok with
    | none => .error (.keyError, w)
    | some pf =>
      if pf = 0 then .error (.zeroDiv, w) else
      let fromAmount := cx.div toValueWithFee pf
      match Wallet.debit cx w fromTok fromAmount allowNeg with
      | .error .insufficient => .error (.insufficient, w)
      | .error .unknownToken => .error (.unknownToken, w)
      | .ok w1 =>
        .ok { wallet := Wallet.credit cx w1 toTok amount, fromAmount := fromAmount, toAmount := amount,
              fee := cx.mul fromAmount feeRate }

/-! ### the amount as Python hands it over

Since fix 83dd7db `swap_by_from` / `swap_by_to` are `@float_param_formatter` like `add_to_balance` / `subtract_from_balance`:
`object_to_decimal` turns a `float` or `int` argument into `Decimal(str(x))` before the body runs, so the body's checks,
the debit, the credit and the action record all see one `Decimal`.  (Before the fix the debit used `Decimal(str(x))`,
the credit `Decimal(x)` — the exact binary value — and `amount * fee_rate` raised `TypeError` after both had happened.) -/

/-- a numeric argument: a `Decimal`, an `int`, or a finite `float` given by the value of its shortest repr
    (`str(x)`), which is what `object_to_decimal` keeps of it -/
inductive PyAmount
  | dec (r : Rat)
  | int (n : Int)
  | float (shortestRepr : Rat)
deriving Repr, DecidableEq

/-- `demeter.utils.object_to_decimal` -/
def objectToDecimal : PyAmount → Rat
  | .dec r => r
  | .int n => (n : Rat)
  | .float s => s

/-- the pre-fix body run on an unconverted argument with an action-record callback attached: a `float` amount gets
    through the checks, the debit and the credit, and the call raises `TypeError` while the record is built — the
    error comes back with the *mutated* wallet.  Kept only for the witness `C04_broker_swap_float_defect_before_fix`. -/
def swapByFromUnformatted (cx : NumCtx) (w : Wallet) (allowNeg : Bool) (fromTok toTok : String) (a : PyAmount)
    (exactBinary : Rat) (prices : Prices) (feeRate : Rat) : Except (String × Wallet) SwapResult :=
  match a with
  | .float s =>
    -- `Decimal(amount)` (exact binary value) prices the credit, `subtract_from_balance` (formatted) debits `Decimal(str(x))`
    match swapByFrom cx w allowNeg fromTok toTok exactBinary prices feeRate with
    | .error (e, w') => .error (reprStr e, w')
    | .ok r =>
      match Wallet.debit cx w fromTok s allowNeg with
      | .error e => .error (reprStr e, w)
      | .ok w1 => .error ("TypeError", Wallet.credit cx w1 toTok r.toAmount)
  | _ =>
    match swapByFrom cx w allowNeg fromTok toTok (objectToDecimal a) prices feeRate with
    | .error (e, w') => .error (reprStr e, w')
    | .ok r => .ok r

/-- `Broker.swap_by_from` as called: argument conversion, then the body -/
def swapByFromArg (cx : NumCtx) (w : Wallet) (allowNeg : Bool) (fromTok toTok : String) (a : PyAmount)
    (prices : Prices) (feeRate : Rat) : Except (BrokerErr × Wallet) SwapResult :=
  swapByFrom cx w allowNeg fromTok toTok (objectToDecimal a) prices feeRate

/-- `Broker.swap_by_to` as called -/
def swapByToArg (cx : NumCtx) (w : Wallet) (allowNeg : Bool) (fromTok toTok : String) (a : PyAmount)
    (prices : Prices) (feeRate : Rat) : Except (BrokerErr × Wallet) SwapResult :=
  swapByTo cx w allowNeg fromTok toTok (objectToDecimal a) prices feeRate

end Demeter
