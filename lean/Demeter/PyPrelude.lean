/-
  Demeter.PyPrelude — the (hand-written, trusted) meaning of the Python operations that `tools/py2lean.py`
  emits.  Core Lean only.  Everything the translator generates lives in `namespace Demeter.Py` and is a
  `do`-block in the monad `M = Except Err`: a Python exception is an `Except.error`.

  Python `int`      ↦ `Int`            (unbounded, `//` and `%` are FLOOR division: `Int.fdiv` / `Int.fmod`)
  `decimal.Decimal` ↦ `Rat`            (finite values only; every `+ - * /` and unary `-`/`abs` rounds through `cx : NumCtx`)
  `bool`            ↦ `Prop` in conditions, `Bool` (`decide`) as a value
  `dict[key, Decimal]` ↦ `List (String × Rat)` in insertion order, keys distinct (the tie theorems assume it)
-/
import Demeter.Num
import Demeter.Gen.Consts
namespace Demeter.Py

/-- exception classes the translated subset can raise -/
inductive Err
  | ZeroDivisionError          -- int `//` or `%` by zero
  | DivisionByZero             -- decimal.DivisionByZero: `x / 0` with `x ≠ 0`
  | InvalidOperation           -- decimal.InvalidOperation: `0 / 0`
  | AssertionError
  | KeyError
  | ValueError                 -- negative shift count, `max([])`
  | TypeError                  -- `None` used as a value (`None < x`, `None + x`)
  | IndexError                 -- `xs[i]` outside the list
  | Raised (cls : String)      -- `raise Cls(...)`
  | Unsupported (what : String) -- execution leaves the translated subset (e.g. `int ** negative` is a float)
  deriving DecidableEq, Repr

abbrev M := Except Err

/-- `a // b` on ints -/
def floordiv (a b : Int) : M Int := if b = 0 then .error .ZeroDivisionError else .ok (Int.fdiv a b)
/-- `a % b` on ints -/
def mod (a b : Int) : M Int := if b = 0 then .error .ZeroDivisionError else .ok (Int.fmod a b)
/-- `a ** e` on ints (a negative exponent gives a float: outside the subset) -/
def ipow (a e : Int) : M Int :=
  if e < 0 then .error (.Unsupported "int ** negative int is a float") else .ok (a ^ e.toNat)
/-- `a >> n` (arithmetic shift = floor division by `2^n`) -/
def shr (a n : Int) : M Int := if n < 0 then .error .ValueError else .ok (a >>> n.toNat)
/-- `a << n` for a constant `n ≥ 0` -/
def shlc (a : Int) (n : Nat) : Int := a * 2 ^ n
/-- `a << n` -/
def shl (a n : Int) : M Int := if n < 0 then .error .ValueError else .ok (shlc a n.toNat)

/-- `a & b` on ints (two's complement, as CPython): `-[n+1]` is the complement of `n` -/
def band : Int → Int → Int
  | .ofNat m, .ofNat n => ((m &&& n : Nat) : Int)
  | .ofNat m, .negSucc n => ((m - (m &&& n) : Nat) : Int)        -- m AND NOT n
  | .negSucc m, .ofNat n => ((n - (n &&& m) : Nat) : Int)
  | .negSucc m, .negSucc n => .negSucc (m ||| n)                 -- NOT m AND NOT n = NOT (m OR n)

/-- `a | b` on ints (two's complement) -/
def bor : Int → Int → Int
  | .ofNat m, .ofNat n => ((m ||| n : Nat) : Int)
  | .ofNat m, .negSucc n => .negSucc (n - (n &&& m))             -- m OR NOT n = NOT (n AND NOT m)
  | .negSucc m, .ofNat n => .negSucc (m - (m &&& n))
  | .negSucc m, .negSucc n => .negSucc (m &&& n)

/-- `abs(a)` on ints -/
def iabs (a : Int) : Int := (a.natAbs : Int)

/-- `a / b` on Decimals: rounds through the context; a zero divisor raises -/
def ddiv (cx : NumCtx) (a b : Rat) : M Rat :=
  if b = 0 then (if a = 0 then .error .InvalidOperation else .error .DivisionByZero) else .ok (cx.div a b)
/-- unary minus on a Decimal rounds to the context precision -/
def dneg (cx : NumCtx) (a : Rat) : Rat := cx.rnd (-a)
/-- `abs` on a Decimal rounds to the context precision -/
def dabs (cx : NumCtx) (a : Rat) : Rat := cx.rnd (if a < 0 then -a else a)
/-- unary plus on a Decimal rounds to the context precision -/
def dpos (cx : NumCtx) (a : Rat) : Rat := cx.rnd a

/-- `d[k]` on an insertion-ordered dict -/
def lookup {α : Type} (d : List (String × α)) (k : String) : M α :=
  match d.find? (fun p => p.1 == k) with
  | some p => .ok p.2
  | none => .error .KeyError

/-- `k in d` -/
def hasKey {α : Type} (d : List (String × α)) (k : String) : Bool := d.any (fun p => p.1 == k)

/-- an `Optional` used as a value -/
def unwrap {α : Type} : Option α → M α
  | some a => .ok a
  | none => .error .TypeError

/-- `datetime(t.year, t.month, t.day, t.hour, t.minute)` of a time counted in whole seconds from a minute-aligned epoch: seconds dropped -/
def floorMinute (t : Int) : Int := t - Int.fmod t 60

/-- `max(xs)` of a list; `ValueError` on the empty list.  (the value is what matters: for numbers every maximal element is the same number) -/
def listMax : List Int → M Int
  | [] => .error .ValueError
  | [x] => .ok x
  | x :: y :: l => do
    let m ← listMax (y :: l)
    pure (if x < m then m else x)

/-- insertion of `x` into an ascending list, before the first element that is not smaller -/
def insertAsc (x : Int) : List Int → List Int
  | [] => [x]
  | y :: ys => if x ≤ y then x :: y :: ys else y :: insertAsc x ys

/-- `sorted(xs)` / `xs.sort()` on a list of ints: the ascending rearrangement (ints compare by value, so every correct sorting algorithm returns
    this list; written as an insertion sort) -/
def sorted : List Int → List Int
  | [] => []
  | x :: xs => insertAsc x (sorted xs)

/-- `xs[i]`: a negative index counts from the end; outside the list it raises `IndexError` -/
def index {α : Type} (xs : List α) (i : Int) : M α :=
  let j : Int := if i < 0 then i + (xs.length : Int) else i
  if j < 0 then .error .IndexError else
  match xs[j.toNat]? with
  | some v => .ok v
  | none => .error .IndexError

/-- `range(a, b)`: the ints `a, a+1, …, b-1` (empty when `b ≤ a`) -/
def range (a b : Int) : List Int := (List.range (b - a).toNat).map (fun (k : Nat) => a + (k : Int))

/-- `while cond: body` over the loop state `σ` with a fuel bound (structural recursion): when the fuel runs out while the condition still holds
    the result is `Unsupported` — a tie theorem about a translated loop states how much fuel suffices -/
def whileFuel {σ : Type} (cond : σ → M Bool) (body : σ → M σ) : Nat → σ → M σ
  | 0, s => do
    if (← cond s) then throw (.Unsupported "out of fuel") else pure s
  | f + 1, s => do
    if (← cond s) then whileFuel cond body f (← body s) else pure s

/-- a Decimal that may be `Decimal("inf")` -/
inductive XDec
  | fin (r : Rat)
  | inf
  deriving DecidableEq, Repr

/-- `sum(xs)` of Decimals: starts from the int 0 and adds left to right; every `+` rounds (also the first, `0 + x`) -/
def dsum (cx : NumCtx) (xs : List Rat) : Rat := xs.foldl (fun acc x => cx.add acc x) 0

/-- `rounding=` of `Decimal.quantize` -/
inductive Rounding | halfUp | halfEven | down
  deriving DecidableEq, Repr

/-- `10 ** e` as a rational -/
def tenPow (e : Int) : Rat := if e ≥ 0 then ((pow10 e.toNat : Nat) : Rat) else 1 / ((pow10 (-e).toNat : Nat) : Rat)

/-- the value of `x.quantize(Decimal(f"1e{e}"), rounding=mode)`: the multiple of `10^e` nearest to `x` -/
def quantValue (mode : Rounding) (x : Rat) (e : Int) : Rat :=
  let q (k : Nat) (y : Rat) : Rat := match mode with
    | .halfUp => quantHalfUp k y
    | .halfEven => quantHalfEven k y
    | .down => quantDown k y
  if e ≤ 0 then q (-e).toNat x else q 0 (x / tenPow e) * tenPow e

/-- `x.quantize(...)`: `InvalidOperation` when the coefficient of the result needs more than `prec` digits -/
def quantize (mode : Rounding) (x : Rat) (e : Int) : M Rat :=
  let v := quantValue mode x e
  let coeff := v / tenPow e          -- an integer
  if coeff.num.natAbs ≥ 10 ^ Gen.decimalPrec then .error .InvalidOperation else .ok v

end Demeter.Py
