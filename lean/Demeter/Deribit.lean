/-
  Demeter.Deribit — model of demeter/deribit/market.py (DeribitOptionMarket), helper.py (round_decimal,
  get_new_order_list) and the Order/OptionPosition bookkeeping of _typing.py.

  Numbers.  `Decimal` values are `Rat` + the rounding of the `NumCtx`.  The order book holds Python floats
  (prices, mark, underlying, greeks) and ints-or-floats (sizes): a float is carried as its exact rational
  value; the four things the code does with floats are parameters of `DCtx`:
    * `toF x`    — `float(x)` of a Decimal/int: the nearest double
    * `fsub a b` — float subtraction, `fdiv a b` — float division, `fadd a b` — float addition
    * `reprD f`  — `Decimal(str(f))`: the shortest decimal that reads back as `f`
  `DCtx.ieee` (driver) implements them with IEEE-754 binary64 through Lean's `Float`; `DCtx.ideal n`
  treats floats as real numbers (theorems).
-/
import Demeter.Num
import Demeter.Wallet
import Demeter.Gen.ConstsDeribit
namespace Demeter.Deribit
open Demeter

/-! ### float context -/

structure DCtx where
  num   : NumCtx
  toF   : Rat → Rat
  fsub  : Rat → Rat → Rat
  fdiv  : Rat → Rat → Rat
  reprD : Rat → Rat
  fadd  : Rat → Rat → Rat

/-- floats as real numbers -/
def DCtx.ideal (n : NumCtx) : DCtx :=
  { num := n, toF := id, fsub := fun a b => a - b, fdiv := fun a b => a / b, reprD := id,
    fadd := fun a b => a + b }

/-- exact value of a double, 0 for inf/nan (never produced from the finite inputs the harness sends) -/
def f2r (f : Float) : Rat := (floatToRat? f).getD 0

/-- the two `k`-significant-digit decimals enclosing the positive rational `n/d` -/
def sigNeighbours (k : Nat) (n d : Nat) : Rat × Rat :=
  let e := sigExp k n d
  let (sn, sd) := scale10 n d e
  let q := sn / sd
  let mk (q : Nat) : Rat := if e ≥ 0 then ((q * pow10 e.toNat : Nat) : Rat) else mkRat q (pow10 (-e).toNat)
  (mk q, if sn % sd = 0 then mk q else mk (q + 1))

/-- `Decimal(repr(f))` for the double whose exact value is `x`: the shortest decimal that rounds to `f`
    (closest to `f` if both neighbours of that length do) — Python's `float.__repr__` / numpy's `str`. -/
def shortestRepr (x : Rat) : Rat :=
  if x.num = 0 then 0 else
  let f := ratToFloat x
  let n := x.num.natAbs
  let d := x.den
  let ax : Rat := if x.num < 0 then -x else x
  let rec go (fuel k : Nat) : Rat :=
    match fuel with
    | 0 => ax
    | fuel + 1 =>
      let (lo, hi) := sigNeighbours k n d
      let okLo := ratToFloat (if x.num < 0 then -lo else lo) == f
      let okHi := ratToFloat (if x.num < 0 then -hi else hi) == f
      if okLo && okHi then (if ax - lo ≤ hi - ax then lo else hi)
      else if okLo then lo
      else if okHi then hi
      else go fuel (k + 1)
  let r := go 17 1
  if x.num < 0 then -r else r

/-- IEEE-754 binary64 as CPython computes -/
def DCtx.ieee (n : NumCtx) : DCtx :=
  { num := n
    toF := fun x => f2r (ratToFloat x)
    fsub := fun a b => f2r (ratToFloat a - ratToFloat b)
    fdiv := fun a b => f2r (ratToFloat a / ratToFloat b)
    reprD := shortestRepr
    fadd := fun a b => f2r (ratToFloat a + ratToFloat b) }

/-! ### configuration (TOKEN_CONFIGS) -/

structure TokenCfg where
  token       : String
  tradeFee    : Rat
  deliveryFee : Rat
  tradeExp    : Int     -- min_trade_decimal
  feeExp      : Int     -- min_fee_decimal
deriving DecidableEq, Repr

def ethCfg : TokenCfg :=
  { token := "ETH", tradeFee := Gen.deribitEthTradeFeeRate, deliveryFee := Gen.deribitEthDeliveryFeeRate,
    tradeExp := Gen.deribitEthMinTradeDecimal, feeExp := Gen.deribitEthMinFeeDecimal }
def btcCfg : TokenCfg :=
  { token := "BTC", tradeFee := Gen.deribitBtcTradeFeeRate, deliveryFee := Gen.deribitBtcDeliveryFeeRate,
    tradeExp := Gen.deribitBtcMinTradeDecimal, feeExp := Gen.deribitBtcMinFeeDecimal }

def maxFeeRate : Rat := Gen.deribitMaxFeeRate
def matchErr : Rat := Gen.deribitPriceMatchError

/-- `10 ** e` for an integer exponent -/
def tenPow (e : Int) : Rat := if e ≥ 0 then ((pow10 e.toNat : Nat) : Rat) else 1 / ((pow10 (-e).toNat : Nat) : Rat)

/-- `round_decimal(num, exponent)`: quantize to `10^exponent`, ROUND_HALF_UP -/
def roundDec (e : Int) (x : Rat) : Rat :=
  if e ≤ 0 then quantHalfUp (-e).toNat x
  else quantHalfUp 0 (x / tenPow e) * tenPow e

/-- `DeribitTokenConfig.min_amount` -/
def TokenCfg.minAmount (c : TokenCfg) : Rat := tenPow c.tradeExp

/-- `__get_trade_amount` -/
def tradeAmount (c : TokenCfg) (amount : Rat) : Rat :=
  if amount < c.minAmount then c.minAmount else roundDec c.tradeExp amount

/-- `get_trade_fee` -/
def tradeFee (cx : DCtx) (c : TokenCfg) (amount premium : Rat) : Rat :=
  roundDec c.feeExp (min (cx.num.mul c.tradeFee amount) (cx.num.mul maxFeeRate premium))

/-- `get_deliver_fee` -/
def deliverFee (cx : DCtx) (c : TokenCfg) (amount premium : Rat) : Rat :=
  roundDec c.feeExp (min (cx.num.mul c.deliveryFee amount) (cx.num.mul maxFeeRate premium))

/-! ### order book, positions, actions -/

/-- one `[price, size]` entry of asks/bids; `isFloat` = the Python type of the size (JSON `5` vs `5.0`) -/
structure Level where
  price   : Rat
  size    : Rat
  isFloat : Bool
deriving DecidableEq, Repr

inductive Kind | call | put
deriving DecidableEq, Repr

/-- one row of `market_status.data` -/
structure Instr where
  name       : String
  stateOpen  : Bool        -- `state == "open"`
  kind       : Kind
  strike     : Rat
  expiry     : Int         -- minutes
  mark       : Rat
  underlying : Rat
  delta      : Rat
  gamma      : Rat
  asks       : List Level
  bids       : List Level
deriving DecidableEq, Repr

structure Position where
  name     : String
  expiry   : Int
  strike   : Rat
  kind     : Kind
  amount   : Rat
  avgBuy   : Rat
  buyAmt   : Rat
  avgSell  : Rat
  sellAmt  : Rat
deriving DecidableEq, Repr

/-- `Order(price, amount)` -/
structure Fill where
  price  : Rat
  amount : Rat
deriving DecidableEq, Repr

structure TradeRec where
  name : String
  kind : Kind
  avgPrice : Rat
  amount : Rat
  premium : Rat
  markD : Rat
  underD : Rat
  fee : Rat
  orders : List Fill
deriving DecidableEq, Repr

structure SettleRec where
  name : String
  kind : Kind
  markR : Rat
  amount : Rat
  premium : Rat
  strike : Rat
  underR : Rat
deriving DecidableEq, Repr

inductive Action
  | buy (r : TradeRec)
  | sell (r : TradeRec)
  | deposit (token : String) (amount : Rat)
  | withdraw (token : String) (amount : Rat)
  | deliver (r : SettleRec) (deliverAmt fee income : Rat)
  | expired (r : SettleRec)
deriving DecidableEq, Repr

/-- `OptionMarketBalance` -/
structure Balance where
  netValue : Rat
  cash     : Rat
  premium  : Rat
  delta    : Rat
  gamma    : Rat
deriving DecidableEq, Repr

/-- everything the properties observe of one Deribit market + the broker wallet it draws on.
    `has_update` is not part of the state (excluded by C04). -/
structure DState where
  cash      : Rat                       -- `market.balance`
  positions : AList String Position     -- `market.positions` (dict order)
  book      : List Instr                -- `market_status.data` rows
  wallet    : Wallet                    -- `broker._assets`
  allowNeg  : Bool                      -- `broker.allow_negative_balance`
  actions   : List Action               -- what `_record_action` has emitted
  cache     : Option Balance            -- `_balance_cache`
  flagOpen  : Bool                      -- `Market.is_open` (timestamp has data)
  now       : Int                       -- `market_status.timestamp`, minutes
  price     : Rat                       -- `_price_status[token]`
  priceDec  : Bool                      -- is that price a Decimal (Actuator.set_price converts) or a float
deriving DecidableEq, Repr

inductive Err
  | demeter (cause : String)
  | insufficientBalance
  | typeError
  | assertion
  | divisionByZero
  | invalidOperation
deriving DecidableEq, Repr

def Err.cls : Err → String
  | .demeter _ => "DemeterError"
  | .insufficientBalance => "InsufficientBalanceError"
  | .typeError => "TypeError"
  | .assertion => "AssertionError"
  | .divisionByZero => "DivisionByZero"
  | .invalidOperation => "InvalidOperation"

def Err.cause : Err → String
  | .demeter c => c
  | .insufficientBalance => "insufficient-cash"
  | .typeError => "type-error"
  | .assertion => "wallet-insufficient"
  | .divisionByZero => "division-by-zero"
  | .invalidOperation => "invalid-operation"

/-- `_is_open()`: the timestamp is on the hourly grid -/
def DState.onGrid (s : DState) : Bool := s.now % (Gen.deribitFreqMinutes : Int) == 0

def findInstr (book : List Instr) (name : String) : Option Instr := book.find? (fun i => i.name = name)

/-! ### `normalize_order_list`: one side the way an exchange shows it -/

/-- is price `a` strictly better than `b` on this side (asks: lower, bids: higher) -/
def better (asc : Bool) (a b : Rat) : Bool := if asc then decide (a < b) else decide (b < a)

/-- stable insertion (`sorted` is stable, also with `reverse=True`): `l`, which came earlier in the data than
    everything in the list, goes in front of the first level that is not strictly better -/
def insLevel (asc : Bool) (l : Level) : List Level → List Level
  | [] => [l]
  | x :: xs => if better asc x.price l.price then x :: insLevel asc l xs else l :: x :: xs

/-- `sorted(orders, key=lambda x: x[0], reverse=not ascending)` -/
def sortSide (asc : Bool) : List Level → List Level
  | [] => []
  | l :: ls => insLevel asc l (sortSide asc ls)

/-- `levels[-1][1] += size`: int + int is exact, anything with a float is a float addition -/
def addSize (cx : DCtx) (a b : Level) : Level :=
  if a.isFloat || b.isFloat then { a with size := cx.fadd (cx.toF a.size) (cx.toF b.size), isFloat := true }
  else { a with size := a.size + b.size }

/-- the merge loop with `cur = levels[-1]` -/
def mergeGo (cx : DCtx) (cur : Level) : List Level → List Level
  | [] => [cur]
  | x :: xs => if cur.price = x.price then mergeGo cx (addSize cx cur x) xs else cur :: mergeGo cx x xs

def mergeSide (cx : DCtx) : List Level → List Level
  | [] => []
  | l :: ls => mergeGo cx l ls

/-- `normalize_order_list(orders, ascending)`: best price first, one level per price -/
def normSide (cx : DCtx) (asc : Bool) (ls : List Level) : List Level := mergeSide cx (sortSide asc ls)

/-- the copy of the instrument row `check_transaction` works on -/
def normInstr (cx : DCtx) (ins : Instr) : Instr :=
  { ins with asks := normSide cx true ins.asks, bids := normSide cx false ins.bids }

/-! ### matching -/

/-- Decimal division with CPython's error classes -/
def decDiv (cx : DCtx) (a b : Rat) : Except Err Rat :=
  if b = 0 then (if a = 0 then .error .invalidOperation else .error .divisionByZero) else .ok (cx.num.div a b)

/-- the orders a buy may touch: all asks, or those strictly below `multiple × Decimal(mark)` -/
def availAsks (cx : DCtx) (ins : Instr) (mult : Option Rat) : List Level :=
  match mult with
  | none => ins.asks
  | some m => ins.asks.filter (fun l => l.price < cx.num.mul m ins.mark)

/-- the orders a sell may touch: all bids, or those strictly above `Decimal(mark) / multiple` -/
def availBids (cx : DCtx) (ins : Instr) (mult : Option Rat) : Except Err (List Level) :=
  match mult with
  | none => .ok ins.bids
  | some m =>
    match decDiv cx ins.mark m with
    | .error e => .error e
    | .ok lo => .ok (ins.bids.filter (fun l => lo < l.price))

def availSide (cx : DCtx) (ins : Instr) (mult : Option Rat) (isBuy : Bool) : Except Err (List Level) :=
  if isBuy then .ok (availAsks cx ins mult) else availBids cx ins mult

/-- `_find_available_orders`: levels within ±0.1 % of the requested price -/
def findAvailable (cx : DCtx) (price : Rat) (ls : List Level) : List Level :=
  ls.filter (fun l => cx.num.mul (cx.num.sub 1 matchErr) price < l.price ∧ l.price < cx.num.mul (cx.num.add 1 matchErr) price)

/-- `sum([Decimal(str(x[1])) for x in orders])`: the sizes as they print, the way the fill loop reads them -/
def sumSizes (cx : DCtx) (ls : List Level) : Rat := ls.foldl (fun acc l => cx.num.add acc (cx.reprD l.size)) 0

structure Req where
  name     : String
  amount   : Rat
  priceTok : Option Rat
  priceUsd : Option Rat
  mult     : Option Rat
deriving DecidableEq, Repr

/-- result of `check_transaction`: rounded amount, the (normalised copy of the) instrument row, the matched level price -/
structure Checked where
  amount : Rat
  ins    : Instr
  price  : Option Rat
deriving DecidableEq, Repr

/-- the price a request asks for: `price_in_token`, else `price_in_usd / Decimal(str(underlying_price))` -/
def reqPrice (cx : DCtx) (ins : Instr) (r : Req) : Except Err (Option Rat) :=
  match r.priceTok, r.priceUsd with
  | some p, _ => .ok (some p)
  | none, some u =>
    match decDiv cx u (cx.reprD ins.underlying) with
    | .ok p => .ok (some p)
    | .error e => .error e
  | none, none => .ok none

/-- `check_transaction` -/
def checkTx (cx : DCtx) (c : TokenCfg) (book : List Instr) (r : Req) (isBuy : Bool) : Except Err Checked :=
  match findInstr book r.name with
  | none => .error (.demeter "not-in-orderbook")
  | some ins0 =>
    -- orders are matched by price: the row's sides are normalised (best first, one level per price) in a copy
    let ins := normInstr cx ins0
    if !ins.stateOpen then .error (.demeter "instrument-not-open")
    else if r.amount < c.minAmount then .error (.demeter "below-min-amount")
    else
      let amount := tradeAmount c r.amount
      match reqPrice cx ins r with
      | .error e => .error e
      | .ok price =>
        match availSide cx ins r.mult isBuy with
        | .error e => .error e
        | .ok avail =>
          match price with
          | some p =>
            match findAvailable cx p avail with
            | [] => .error (.demeter "no-order-at-price")
            | l :: _ =>
              if amount > cx.reprD l.size then .error (.demeter "insufficient-depth")
              else .ok { amount := amount, ins := ins, price := some (cx.reprD l.price) }
          | none =>
            if amount > sumSizes cx avail then .error (.demeter "insufficient-depth")
            else .ok { amount := amount, ins := ins, price := none }

/-- `_deduct_order_amount`, market branch: walk the levels in book order -/
def deductMarket (cx : DCtx) : Rat → List Level → List Fill
  | _, [] => []
  | rem, l :: ls =>
    if l.size = 0 then deductMarket cx rem ls
    else
      let d := min (cx.reprD l.size) rem
      let rem' := cx.num.sub rem d
      let left := cx.fsub (cx.toF l.size) (cx.toF d)
      { price := cx.reprD l.price, amount := d } ::
        (if 0 < left ∨ rem' = 0 then [] else deductMarket cx rem' ls)

/-- `_deduct_order_amount`, limit branch: every level whose printed price equals the matched price -/
def deductLimit (cx : DCtx) (price amount : Rat) : List Level → List Fill
  | [] => []
  | l :: ls =>
    if price = cx.reprD l.price then { price := price, amount := amount } :: deductLimit cx price amount ls
    else deductLimit cx price amount ls

def deduct (cx : DCtx) (amount : Rat) (ls : List Level) (price : Option Rat) : List Fill :=
  match price with
  | some p => deductLimit cx p amount ls
  | none => deductMarket cx amount ls

/-- one iteration of `get_new_order_list`: the first level whose price is `float(fill.price)` shrinks -/
def applyFill (cx : DCtx) (x : Fill) : List Level → List Level
  | [] => []
  | l :: ls =>
    if cx.toF x.price = l.price then
      { l with size := cx.fsub (cx.toF l.size) (cx.toF x.amount), isFloat := true } :: ls
    else l :: applyFill cx x ls

/-- `get_new_order_list(old, used)` -/
def newOrderList (cx : DCtx) (old : List Level) (used : List Fill) : List Level :=
  used.foldl (fun b x => applyFill cx x b) old

/-- `Decimal(sum([Decimal(t.amount) * Decimal(t.price) for t in fills]))` -/
def premiumOf (cx : DCtx) (fs : List Fill) : Rat :=
  fs.foldl (fun acc f => cx.num.add acc (cx.num.mul f.amount f.price)) 0

def amountOf (cx : DCtx) (fs : List Fill) : Rat :=
  fs.foldl (fun acc f => cx.num.add acc f.amount) 0

/-- `Order.get_average_price` -/
def avgPrice (cx : DCtx) (fs : List Fill) : Rat :=
  if amountOf cx fs = 0 then 0 else cx.num.div (premiumOf cx fs) (amountOf cx fs)

def setAsks (book : List Instr) (name : String) (ls : List Level) : List Instr :=
  book.map (fun i => if i.name = name then { i with asks := ls } else i)
def setBids (book : List Instr) (name : String) (ls : List Level) : List Instr :=
  book.map (fun i => if i.name = name then { i with bids := ls } else i)

inductive Res
  | trade (fills : List Fill) (fee : Rat)
  | cashR (v : Rat)
  | balance (b : Option Balance)
  | unit
deriving DecidableEq, Repr

abbrev Outcome := Except Err Res

/-- the position record after buying `ck.amount` at average price `avg`: a fresh record, or the old one
    with the size-weighted average buy price -/
def boughtPosition (cx : DCtx) (old : Option Position) (r : Req) (ck : Checked) (avg : Rat) : Position :=
  match old with
  | none =>
    { name := r.name, expiry := ck.ins.expiry, strike := ck.ins.strike, kind := ck.ins.kind,
      amount := ck.amount, avgBuy := avg, buyAmt := ck.amount, avgSell := 0, sellAmt := 0 }
  | some p =>
    { p with avgBuy := avgPrice cx [⟨avg, ck.amount⟩, ⟨p.avgBuy, p.buyAmt⟩],
             buyAmt := cx.num.add p.buyAmt ck.amount,
             amount := cx.num.add p.amount ck.amount }

/-- the position record after selling `amount` at average price `avg` -/
def soldPosition (cx : DCtx) (p : Position) (amount avg : Rat) : Position :=
  { p with avgSell := avgPrice cx [⟨avg, amount⟩, ⟨p.avgSell, p.sellAmt⟩],
           sellAmt := cx.num.add p.sellAmt amount,
           amount := cx.num.sub p.amount amount }

def tradeRec (cx : DCtx) (r : Req) (ck : Checked) (fills : List Fill) (prem fee : Rat) : TradeRec :=
  { name := r.name, kind := ck.ins.kind, avgPrice := avgPrice cx fills, amount := ck.amount, premium := prem,
    markD := cx.reprD ck.ins.mark, underD := cx.reprD ck.ins.underlying, fee := fee, orders := fills }

/-- `buy` (behind `write_func`) -/
def buy (cx : DCtx) (c : TokenCfg) (s : DState) (r : Req) : Outcome × DState :=
  if !s.flagOpen then (.error (.demeter "market-closed"), s) else
  match checkTx cx c s.book r true with
  | .error e => (.error e, s)
  | .ok ck =>
    let fills := deduct cx ck.amount (availAsks cx ck.ins r.mult) ck.price
    let prem := premiumOf cx fills
    let fee := tradeFee cx c ck.amount prem
    let left := cx.num.sub s.cash (cx.num.add prem fee)
    if left < 0 then (.error .insufficientBalance, s) else
    (.ok (.trade fills fee),
     { s with cash := left
              book := setAsks s.book r.name (newOrderList cx ck.ins.asks fills)
              positions := AList.set s.positions r.name
                (boughtPosition cx (AList.get? s.positions r.name) r ck (avgPrice cx fills))
              cache := none   -- the valuation kept for the closed minutes of the hour is about the holdings before the trade
              actions := s.actions ++ [.buy (tradeRec cx r ck fills prem fee)] })

/-- `sell` (behind `write_func`) -/
def sell (cx : DCtx) (c : TokenCfg) (s : DState) (r : Req) : Outcome × DState :=
  if !s.flagOpen then (.error (.demeter "market-closed"), s) else
  match checkTx cx c s.book r false with
  | .error e => (.error e, s)
  | .ok ck =>
    match AList.get? s.positions r.name with
    | none => (.error (.demeter "not-held"), s)
    | some p =>
      if ck.amount > p.amount then (.error (.demeter "exceeds-holding"), s) else
      match availBids cx ck.ins r.mult with
      | .error e => (.error e, s)
      | .ok bids =>
        let fills := deduct cx ck.amount bids ck.price
        let prem := premiumOf cx fills
        let fee := tradeFee cx c ck.amount prem
        let p' := soldPosition cx p ck.amount (avgPrice cx fills)
        (.ok (.trade fills fee),
         { s with cash := cx.num.add s.cash (cx.num.sub prem fee)
                  book := setBids s.book r.name (newOrderList cx ck.ins.bids fills)
                  positions := if p'.amount ≤ 0 then AList.erase s.positions r.name
                               else AList.set s.positions r.name p'
                  cache := none
                  actions := s.actions ++ [.sell (tradeRec cx r ck fills prem fee)] })

/-- `deposit` (not behind `write_func`) -/
def deposit (cx : DCtx) (c : TokenCfg) (s : DState) (amount : Rat) : Outcome × DState :=
  if amount < 0 then (.error (.demeter "negative-amount"), s) else
  match Wallet.debit cx.num s.wallet c.token amount s.allowNeg with
  | .error .insufficient => (.error .assertion, s)
  | .error .unknownToken => (.error (.demeter "unknown-token"), s)
  | .ok w =>
    let cash := cx.num.add s.cash amount
    (.ok (.cashR cash), { s with wallet := w, cash := cash, actions := s.actions ++ [.deposit c.token amount] })

/-- `withdraw` (not behind `write_func`) -/
def withdraw (cx : DCtx) (c : TokenCfg) (s : DState) (amount : Rat) : Outcome × DState :=
  if amount < 0 then (.error (.demeter "negative-amount"), s) else
  let left := cx.num.sub s.cash amount
  if left < 0 then (.error .insufficientBalance, s) else
  (.ok (.cashR left),
   { s with cash := left, wallet := Wallet.credit cx.num s.wallet c.token amount,
            actions := s.actions ++ [.withdraw c.token amount] })

/-! ### valuation -/

/-- the loop of `get_market_balance`: (premium, delta, gamma) -/
def valueLoop (cx : DCtx) (c : TokenCfg) (book : List Instr) :
    List (String × Position) → Rat × Rat × Rat → Rat × Rat × Rat
  | [], acc => acc
  | (_, p) :: ps, (tp, dl, gm) =>
    match findInstr book p.name with
    | none => valueLoop cx c book ps (tp, dl, gm)
    | some ins =>
      let ip := cx.num.mul p.amount (roundDec c.feeExp ins.mark)
      valueLoop cx c book ps
        (cx.num.add tp ip, cx.num.add dl (cx.num.mul ip (roundDec c.feeExp ins.delta)),
         cx.num.add gm (cx.num.mul ip (roundDec c.feeExp ins.gamma)))

def freshBalance (cx : DCtx) (c : TokenCfg) (s : DState) : Balance :=
  let (tp, dl, gm) := valueLoop cx c s.book s.positions (0, 0, 0)
  { netValue := cx.num.add s.cash tp, cash := s.cash, premium := tp, delta := dl, gamma := gm }

/-- `get_market_balance`: recomputed on the hourly grid and whenever no cached valuation exists yet; otherwise
    (a closed minute of the hour) the cached premium and greeks are kept and the cash part follows `self.balance` -/
def getMarketBalance (cx : DCtx) (c : TokenCfg) (s : DState) : Outcome × DState :=
  if s.onGrid || s.cache.isNone then
    let b := freshBalance cx c s
    (.ok (.balance (some b)), { s with cache := some b })
  else
    match s.cache with
    | none => (.ok (.balance none), s)         -- unreachable
    | some b =>
      if b.cash = s.cash then (.ok (.balance (some b)), s)
      else
        let b' : Balance := { b with netValue := cx.num.add s.cash b.premium, cash := s.cash }
        (.ok (.balance (some b')), { s with cache := some b' })

/-! ### expiry -/

/-- what a position is settled against: mark and underlying of its book row (floats), or — when the
    instrument has left the book — `InstrumentStatus(mark_price=0, underlying_price=price[token])`, whose
    underlying is a Decimal when the prices came through `Actuator.set_price` -/
structure Quote where
  mark  : Rat
  under : Rat
  dec   : Bool        -- underlying is a Decimal: the payoff ratio is computed in Decimal arithmetic
deriving DecidableEq, Repr

def settleQuote (s : DState) (name : String) : Quote :=
  match findInstr s.book name with
  | some ins => { mark := ins.mark, under := ins.underlying, dec := false }
  | none => { mark := 0, under := s.price, dec := s.priceDec }

/-- `(underlying - strike) / underlying` (call) or `(strike - underlying) / underlying` (put) as the code
    computes it: numpy float arithmetic on a book row, Decimal arithmetic on a Decimal price -/
def payoffRatio (cx : DCtx) (q : Quote) (strike : Rat) (isCall : Bool) : Rat :=
  if q.dec then
    let diff := if isCall then cx.num.sub q.under strike else cx.num.sub strike q.under
    cx.num.div diff q.under
  else
    let diff := if isCall then cx.fsub q.under (cx.toF strike) else cx.fsub (cx.toF strike) q.under
    cx.fdiv diff q.under

/-- `_deliver_option`: `some (gross, fee)` when something is paid -/
def deliverOption (cx : DCtx) (c : TokenCfg) (p : Position) (q : Quote) (isCall : Bool) : Option (Rat × Rat) :=
  let fee := deliverFee cx c p.amount (cx.num.mul p.amount (roundDec c.feeExp q.mark))
  let gross := roundDec c.feeExp (cx.num.mul p.amount (payoffRatio cx q p.strike isCall))
  if gross ≤ fee then none else some (gross, fee)

/-- in the money? `put ∧ strike > underlying` or `call ∧ strike < underlying` -/
def itm (p : Position) (under : Rat) : Option Bool :=
  match p.kind with
  | .put => if p.strike > under then some false else none
  | .call => if p.strike < under then some true else none

def settleRec (cx : DCtx) (c : TokenCfg) (key : String) (p : Position) (mark under : Rat) : SettleRec :=
  { name := key, kind := p.kind, markR := roundDec c.feeExp mark, amount := p.amount,
    premium := cx.num.mul p.amount (roundDec c.feeExp mark), strike := p.strike, underR := roundDec c.feeExp under }

/-- what a due position is paid: `some (gross, fee)` when it is in the money and the payoff exceeds the
    delivery fee, `none` otherwise -/
def paidOf (cx : DCtx) (c : TokenCfg) (s : DState) (p : Position) : Option (Rat × Rat) :=
  let q := settleQuote s p.name
  match itm p q.under with
  | none => none
  | some isCall => deliverOption cx c p q isCall

/-- the `DeliverAction` of a paid position -/
def deliverRec (cx : DCtx) (c : TokenCfg) (s : DState) (k : String) (p : Position) (gf : Rat × Rat) : Action :=
  let q := settleQuote s p.name
  .deliver (settleRec cx c k p q.mark q.under) gf.1 gf.2 (cx.num.sub gf.1 gf.2)

/-- the `ExpiredAction` of a removed position -/
def expiredRec (cx : DCtx) (c : TokenCfg) (s : DState) (k : String) (p : Position) : Action :=
  let q : Quote :=
    match findInstr s.book k with
    | some _ => settleQuote s p.name
    | none => { mark := 0, under := s.price, dec := s.priceDec }
  .expired (settleRec cx c k p q.mark q.under)

/-- first loop of `check_option_exercise`: cash and Deliver records for the due positions -/
def exerciseLoop (cx : DCtx) (c : TokenCfg) (s : DState) :
    List (String × Position) → Rat × List Action × List String → Rat × List Action × List String
  | [], acc => acc
  | (k, p) :: ps, (cash, acts, keys) =>
    if s.now ≥ p.expiry then
      match paidOf cx c s p with
      | some gf =>
        exerciseLoop cx c s ps
          (cx.num.add cash (cx.num.sub gf.1 gf.2), acts ++ [deliverRec cx c s k p gf], keys ++ [k])
      | none => exerciseLoop cx c s ps (cash, acts, keys ++ [k])
    else exerciseLoop cx c s ps (cash, acts, keys)

/-- second loop: Expired records, positions deleted -/
def expireLoop (cx : DCtx) (c : TokenCfg) (s : DState) :
    List String → AList String Position × List Action → AList String Position × List Action
  | [], acc => acc
  | k :: ks, (pos, acts) =>
    match AList.get? pos k with
    | none => expireLoop cx c s ks (pos, acts)      -- unreachable: keys come from the dict
    | some p => expireLoop cx c s ks (AList.erase pos k, acts ++ [expiredRec cx c s k p])

/-- `check_option_exercise` -/
def exercise (cx : DCtx) (c : TokenCfg) (s : DState) : DState :=
  let r := exerciseLoop cx c s s.positions (s.cash, s.actions, [])     -- (cash, actions, key_to_remove)
  let e := expireLoop cx c s r.2.2 (s.positions, r.2.1)
  { s with cash := r.1, positions := e.1, actions := e.2 }

/-- `update()` -/
def update (cx : DCtx) (c : TokenCfg) (s : DState) : DState :=
  if s.onGrid then exercise cx c s else s

/-! ### one operation -/

inductive Op
  | buy (r : Req)
  | sell (r : Req)
  | deposit (amount : Rat)
  | withdraw (amount : Rat)
  | balance
  | update
deriving DecidableEq, Repr

def step (cx : DCtx) (c : TokenCfg) (s : DState) : Op → Outcome × DState
  | .buy r => buy cx c s r
  | .sell r => sell cx c s r
  | .deposit a => deposit cx c s a
  | .withdraw a => withdraw cx c s a
  | .balance => getMarketBalance cx c s
  | .update => (.ok .unit, update cx c s)

/-- a sequence of operations within one bar (errors do not stop the strategy) -/
def runOps (cx : DCtx) (c : TokenCfg) (s : DState) : List Op → DState
  | [] => s
  | o :: os => runOps cx c (step cx c s o).2 os

end Demeter.Deribit
