/-
  Demeter.Actuator.Strict — a market that cannot be closed.

  `Market.set_market_status` (broker/market.py) sets `is_open = timestamp in data.index`; a closed market refuses gated operations and its `open`
  callback is skipped — that is what `run` / `runG` model, and it is what happens with a `DeribitOptionMarket`, whose override guards its row lookup.
  The overrides of UniLpMarket, AaveV3Market, SqueethMarket, GmxMarket and GmxV2Market do `self.data.loc[timestamp]` unguarded: on a bar their frame
  has no row for, `__set_market_snapshot` raises `KeyError` out of `run()` — from the refresh before `initialize()` (nothing has been called yet) or
  from the first refresh of a later bar (inside the `try` around the loop: `KeyError` is not a `RuntimeError`, it passes through).  The markets
  registered before the failing one have been refreshed (their `set` calls are in the trace), the failing one and those behind it have not.
  The second refresh (`update=True`) touches only markets with `has_update`, which an accepted gated operation sets — on an open market, whose row
  exists: it cannot fail this way.

  `runStrict` is `runG` with that exit.  Which classes are strict is read from the source (`Gen.coreStrictStatus…`, tools/consts_core.py).
-/
import Demeter.Actuator.Hooks
namespace Demeter.Core

/-- the market classes of the repository -/
inductive MarketClass | uni | aave | squeeth | gmx | gmxV2 | deribit
deriving Repr, DecidableEq

/-- does `set_market_status` of the class raise `KeyError` on a bar without a row (generated from the source) -/
def MarketClass.strict : MarketClass → Bool
  | .uni => Gen.coreStrictStatusUni
  | .aave => Gen.coreStrictStatusAave
  | .squeeth => Gen.coreStrictStatusSqueeth
  | .gmx => Gen.coreStrictStatusGmx
  | .gmxV2 => Gen.coreStrictStatusGmxV2
  | .deribit => Gen.coreStrictStatusDeribit

/-- the status refresh of every market at `ts` up to the first strict market that has no row there: the `set` calls made, and whether one raised -/
def setAllStrictFrom (cfg : Cfg) (ts : Int) (stage : Nat) (i : Nat) : List MarketCfg → List Ev × Bool
  | [] => ([], false)
  | mc :: rest =>
    if mc.strict && !marketOpen cfg mc ts then ([], true)
    else
      let q := setAllStrictFrom cfg ts stage (i + 1) rest
      (setEv cfg ts stage i mc :: q.1, q.2)

/-- some strict market has no row at `ts` -/
def strictFails (cfg : Cfg) (ts : Int) : Bool := cfg.markets.any fun mc => mc.strict && !marketOpen cfg mc ts

/-- the bars before the first one on which a strict market has no row, and that bar -/
def splitAtStrictFail (cfg : Cfg) : List Int → List Int × Option Int
  | [] => ([], none)
  | ts :: bars =>
    if strictFails cfg ts then ([], some ts)
    else let q := splitAtStrictFail cfg bars; (ts :: q.1, q.2)

/-- `Actuator.run` (`_run`) with markets whose `set_market_status` raises on a bar without a row -/
def runStrict (cfg : Cfg) (trigs : List Trig) (g : GScript) : RunResult :=
  match checkBacktest cfg with
  | some e => ⟨[.raised e], [], [], trigs, some e⟩
  | none =>
    match barIndex cfg with
    | [] => ⟨[.raised .indexError], [], [], trigs, some .indexError⟩
    | ts0 :: bars =>
      -- `self.__set_market_snapshot(index_array[0], False)` in front of `initialize()`: the price row is looked up first (it is an argument of
      -- the first market's `set_market_status`)
      match priceAt cfg ts0 with
      | none => ⟨[.raised .keyError], [], [], trigs, some .keyError⟩
      | some _ =>
        if strictFails cfg ts0 then
          ⟨(setAllStrictFrom cfg ts0 0 0 cfg.markets).1 ++ [.raised .keyError], [], [], trigs, some .keyError⟩
        else
          match splitAtStrictFail cfg bars with
          | (_, none) => runG cfg trigs g
          | (good, some bad) =>
            let c := runCore cfg trigs g ts0 good
            let st := c.1.2.1
            match c.1.2.2 with
            | some e =>
              let e' := if c.2 then loopExit st.rows e else e
              ⟨c.1.1 ++ [.raised e'], st.rows, st.all, st.trigs, some e'⟩
            | none =>
              -- the bar `bad`: `current_price = self._token_prices.loc[…]` first, then the refresh
              match priceAt cfg bad with
              | none => ⟨c.1.1 ++ [.raised (loopExit st.rows .keyError)], st.rows, st.all, st.trigs, some (loopExit st.rows .keyError)⟩
              | some _ =>
                ⟨c.1.1 ++ (setAllStrictFrom cfg bad 1 0 cfg.markets).1 ++ [.raised (loopExit st.rows .keyError)], st.rows, st.all, st.trigs,
                 some (loopExit st.rows .keyError)⟩

/-- `Actuator.run` as called -/
def actuatorRunStrict (cfg : Cfg) (trigs : List Trig) (g : GScript) : RunResult := runStrict cfg (startTrigs trigs) g

end Demeter.Core
