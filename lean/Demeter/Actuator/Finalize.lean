/-
  Demeter.Actuator.Finalize — what `Actuator._run` does after the bar loop (demeter/core/actuator.py, behind "main loop finished"):

      self._generate_account_status_df()
      self._strategy.finalize()
      self.notify(self.strategy, self._currents.actions)      # since fix 0438378
      self._currents.actions = []                             # since fix 0438378

  `finalize()` is a hook like any other: it can issue operations.  The markets are in the state the last bar left them in (`is_open` of the
  last refresh), the clock `_currents.timestamp` still shows the last bar, `_currents.actions` is empty (the last bar cleared it).  An operation
  accepted here is recorded by `_record_action_list` — appended to `_action_list` and to `_currents.actions`, stamped with the last bar.
  Before the fix nothing read `_currents.actions` again: the record was in `Actuator.actions` and never reached `notify()`.

  `runG` (Demeter/Actuator/Hooks.lean) ends with the `finalize` call; this file adds what the call does (`FinScript`) and the deliveries
  after it, on top of `runG`, without touching it.  Whether the deliveries happen is the source flag `Gen.coreFinalizeDeliversActions`
  (tools/consts_core.py).
-/
import Demeter.Actuator.Hooks
namespace Demeter.Core

/-- what `finalize()` does: the operations it issues (it catches their refusals), how `notify()` answers the delivery of an action after
    `finalize()`, and how many deliveries of actions created inside those answers the model follows (`runNotify`) -/
structure FinScript where
  ops : List OpSpec
  notify : String → List OpSpec := fun _ => []
  fuel : Nat := 0
deriving Inhabited

/-- the `Script` whose `notify` is the one of a `FinScript` (everything else is never called after the loop) -/
def FinScript.asScript (f : FinScript) : Script :=
  { init := [], before := fun _ => [], fire := fun _ _ => [], openCb := fun _ _ => [], on := fun _ => [], after := fun _ => [],
    upd := fun _ _ => [], notify := fun _ t => f.notify t, fuel := f.fuel }

/-- what happens after the `finalize` call: the outcomes of the operations `finalize()` itself issues (`own`; the `Hook` field of these events
    is a placeholder — `finalize` is not one of the hooks of a bar — and is printed as "finalize" by the driver), the `notify` loop that follows
    (`deliveries`: `notify` events and the outcomes of what the hook does, `Hook.notify`), the state left, and whether the loop ended within the
    model's fuel -/
structure FinTail where
  own : List Ev
  deliveries : List Ev
  st : St
  ended : Bool
deriving Inhabited

/-- `finalize()` and, if `deliver`, `self.notify(self.strategy, self._currents.actions); self._currents.actions = []`, at the last bar `ts`
    from the state `st` the loop left -/
def finalizeTail (deliver : Bool) (f : FinScript) (ts : Int) (st : St) : FinTail :=
  let o := runOps ts .after f.ops st
  if deliver then
    let n := runNotify f.asScript ts 0 (o.2.cur.length + f.fuel) 0 o.2
    ⟨o.1, n.1, { n.2.1 with cur := [] }, n.2.2⟩
  else ⟨o.1, [], o.2, true⟩

/-- the state in which a run reaches `finalize()` and the last bar — `none` if the run ended in an exception before -/
def finalSt (cfg : Cfg) (trigs : List Trig) (g : GScript) : Option (St × Int) :=
  match checkBacktest cfg with
  | some _ => none
  | none =>
    match barIndex cfg with
    | [] => none
    | ts0 :: bars =>
      match priceAt cfg ts0 with
      | none => none
      | some _ =>
        let c := runCore cfg trigs g ts0 bars
        match c.1.2.2 with
        | none => some (c.1.2.1, (ts0 :: bars).getLast?.getD ts0)
        | some _ => none

/-- a whole run: the loop (`runG`, whose trace ends with the `finalize` call) and what follows the call -/
structure FullRun where
  loop : RunResult
  tail : Option FinTail        -- `none`: `finalize()` was not reached
deriving Inhabited

/-- `Actuator.run` for a strategy whose `finalize()` issues operations -/
def runFull (deliver : Bool) (cfg : Cfg) (trigs : List Trig) (g : GScript) (f : FinScript) : FullRun :=
  ⟨runG cfg trigs g, (finalSt cfg trigs g).map fun p => finalizeTail deliver f p.2 p.1⟩

/-- … as the current source does it -/
def actuatorRunFull (cfg : Cfg) (trigs : List Trig) (g : GScript) (f : FinScript) : FullRun :=
  runFull Gen.coreFinalizeDeliversActions cfg (startTrigs trigs) g f

/-- every call of the run, in order -/
def FullRun.trace (r : FullRun) : List Ev :=
  match r.tail with
  | none => r.loop.trace
  | some t => r.loop.trace ++ t.own ++ t.deliveries

/-- `Actuator.actions` after the run -/
def FullRun.actions (r : FullRun) : List Act :=
  match r.tail with
  | none => r.loop.actions
  | some t => t.st.all

/-- `_currents.actions` after the run: records nobody will deliver any more -/
def FullRun.undelivered (r : FullRun) : List Act :=
  match r.tail with
  | none => []
  | some t => t.st.cur

end Demeter.Core
