/-
  Demeter.Actuator.Clock — the clock the action records are stamped from.

  In `Demeter/Actuator.lean` / `Hooks.lean` an operation receives the bar's timestamp as an argument (`doOp ts`), so "a record is stamped with
  the bar in which the operation ran" holds there by construction.  The code has no such argument: `_record_action_list` stamps a record with
  `self._currents.timestamp`, a field the bar loop assigns — once per bar, between the first status refresh and `before_bar()`, and once before
  `initialize()` (demeter/core/actuator.py).  Assign it one statement later (after `before_bar()`), and everything `before_bar` records carries the
  previous bar's timestamp.

  This file replays a call trace with that field made explicit: `clockStep` is what a call does to the field (as the source does it, or as a
  variant of the source would, `ClockCfg`), `clockActions` the action list `_record_action_list` builds from it.  `Proofs/C05/Clock.lean` proves
  that for the source as it is (`ClockCfg.current`, three flags read from the source by tools/consts_core.py) the list is the model's action list,
  for every run; and shows the variant failing.
-/
import Demeter.Actuator.Hooks
namespace Demeter.Core

/-- how the source treats `_currents.timestamp` -/
structure ClockCfg where
  stampFromCurrents : Bool       -- `_record_action_list`: `action.timestamp = self._currents.timestamp`
  setBeforeBeforeBar : Bool      -- bar loop: assigned from the loop variable after the first refresh, before `before_bar()`;
                                 -- `false`: assigned after `before_bar()` has returned (the variant)
  setBeforeInitialize : Bool     -- assigned to the first bar before `initialize()`
deriving Repr, DecidableEq

/-- the source as it is (tools/consts_core.py) -/
def ClockCfg.current : ClockCfg :=
  ⟨Gen.coreActionStampedFromCurrents, Gen.coreClockSetBeforeBeforeBar, Gen.coreClockSetBeforeInitialize⟩

/-- the record a call makes: label and market -/
def Ev.record : Ev → Option (String × Nat)
  | .opOk _ _ m tag => some (tag, m)
  | .opFree _ _ m tag true => some (tag, m)
  | .uact _ m tag => some (tag, m)
  | _ => none

/-- `_currents.timestamp` when the call `e` is made, having been `cur` after the call before it (`none`: not assigned yet — a fresh `Currents()`).
    The assignments sit in front of `initialize()` and in front of `before_bar()`; in the variant the second one sits behind `before_bar()`, i.e. in
    front of the first call after what `before_bar` does (phases 6 … 15 of a bar). -/
def clockStep (c : ClockCfg) (cur : Option Int) (e : Ev) : Option Int :=
  match e with
  | .initialize ts => if c.setBeforeInitialize then some ts else cur
  | .before ts _ _ => if c.setBeforeBeforeBar then some ts else cur
  | e =>
    if !c.setBeforeBeforeBar && decide (6 ≤ e.phase) && decide (e.phase ≤ 15) then
      match e.ts with
      | some t => some t
      | none => cur
    else cur

/-- the field after a stretch of calls -/
def clockAfter (c : ClockCfg) (cur : Option Int) (l : List Ev) : Option Int := l.foldl (clockStep c) cur

/-- the action list `_record_action_list` builds along a call trace: label, stamp (`none` = `None`), market -/
def clockActions (c : ClockCfg) : Option Int → List Ev → List (String × Option Int × Nat)
  | _, [] => []
  | cur, e :: l =>
    match e.record with
    | some (tag, m) => (tag, (if c.stampFromCurrents then clockStep c cur e else e.ts), m) :: clockActions c (clockStep c cur e) l
    | none => clockActions c (clockStep c cur e) l

end Demeter.Core
