/-
  Demeter.Actuator.Causal — the bar loop as a fold over the supplied history, for C02 (no look-ahead).

  `Actuator.run` visits bar k, reads the data of bar k through `.loc[timestamp]` lookups and hands the strategy a snapshot.
  Here a *history* is the list of per-bar inputs (whatever the supplied frames hold for that bar: every market's row and the
  price row), a *view* is what the loop reads at bar k, and one bar of the loop — strategy hooks, triggers, market updates,
  account row, notify — is an arbitrary function `step` of the state so far and the view.  The property is about the views:
  they read rows 0..k only.  The views of the code:

    * the row of bar k                                   (`data.loc[timestamp]`, `token_prices.loc[timestamp]`)
    * Uniswap's `price` column: the close of bar k-1, the open of bar 0 for the first bar      (uniswap/helper.py:429-438)
    * Squeeth's TWAP window: the rows of the last TWAP_PERIOD minutes ending at bar k           (squeeth/market.py:529-533)
    * Deribit's book: the row of the whole hour at or before bar k                              (deribit/market.py:198-207)
    * a resampled frame: bin j holds the first row of the raw bin (`resample(freq).first()`)
-/
import Demeter.Gen.ConstsCore
namespace Demeter.Core

/-- what the loop reads from the supplied history at bar `k` -/
abbrev ViewFn (D V : Type) := List D → Nat → V

/-- the row of bar `k` itself -/
def rowView {D : Type} : ViewFn D (Option D) := fun h k => h[k]?

/-- Uniswap's `price` column: `close.shift(1)`, the first bar filled from its own open tick -/
def shiftView {D E : Type} (openOf closeOf : D → E) : ViewFn D (Option E) := fun h k =>
  match k with
  | 0 => (h[0]?).map openOf
  | j + 1 => (h[j]?).map closeOf

/-- Squeeth's TWAP window `data[now - (TWAP_PERIOD-1) min : now]`: the rows up to bar `k` whose timestamp is at most
    `(TWAP_PERIOD - 1)` minutes before bar `k`'s -/
def twapView {D : Type} (ts : D → Int) : ViewFn D (List D) := fun h k =>
  match h[k]? with
  | none => []
  | some d => (h.take (k + 1)).filter (fun x => decide (ts d - (Gen.coreTwapPeriodMin - 1) * 60 ≤ ts x))

/-- Deribit: the row stamped with the whole hour of bar `k` (none if that hour has no row among bars 0..k) -/
def hourView {D : Type} (ts : D → Int) : ViewFn D (Option D) := fun h k =>
  match h[k]? with
  | none => none
  | some d => (h.take (k + 1)).find? (fun x => ts x == ts d - ts d % 3600)

/-- the same lookup against Deribit's own frame `book` (rows stamped with whole hours, possibly before the first bar):
    `self._data.loc[timestamp.floor("1h")]` at a bar with time `now` -/
def hourLookup {R : Type} (book : List (Int × R)) (now : Int) : Option (Int × R) :=
  book.find? (fun x => x.1 == now - now % 3600)

/-- several things read at once -/
def pairView {D V W : Type} (v : ViewFn D V) (w : ViewFn D W) : ViewFn D (V × W) := fun h k => (v h k, w h k)

/-- resampling with `first()`: coarse bar `j` is the first raw row of bin `j` (`none`: the bin is empty, the row is NaN);
    `bin` maps a raw row to the number of its bin -/
def coarsen {D : Type} (bin : D → Nat) (raw : List D) (n : Nat) : List (Option D) :=
  (List.range n).map (fun j => raw.find? (fun x => bin x == j))

/-- the loop: `step state k view = (state', what bar k outputs)`; the outputs are the account row, the actions recorded and
    the snapshots handed to the strategy in bar `k` -/
structure Loop (D V S O : Type) where
  view : ViewFn D V
  step : S → Nat → V → S × O

def Loop.runFrom {D V S O : Type} (L : Loop D V S O) (h : List D) : Nat → Nat → S → List O
  | 0, _, _ => []
  | n + 1, k, s => (L.step s k (L.view h k)).2 :: L.runFrom h n (k + 1) (L.step s k (L.view h k)).1

/-- one output per bar of the history -/
def Loop.run {D V S O : Type} (L : Loop D V S O) (h : List D) (s0 : S) : List O := L.runFrom h h.length 0 s0

end Demeter.Core
