/-
  Demeter.Actuator.CausalMarkets — the loop of Demeter/Actuator/Causal.lean instantiated with real market models (review finding E-6).

  `Loop` (Causal.lean) is abstract: a view and an arbitrary step.  Here the two halves are composed for the pair of markets of a Squeeth
  backtest — the oSQTH/WETH `UniLpMarket` and the `SqueethMarket` on top of it:

    * the history is the list of supplied minute rows (`PairRow`: the pool frame's ticks / liquidity / volumes and the Squeeth frame's
      norm factor and two prices);
    * the view (`pairMarketView`) is what the code reads at bar k: the row of bar k (`data.loc[timestamp]`), the pool's `price` column
      (`close.shift(1)`, first bar from its own open: `shiftView`), and the TWAP window (`twapView`);
    * the step (`pairStep`) is built from the markets' OWN model functions: `Uni.setStatus` (first refresh) — the strategy's hooks — the
      second refresh iff `has_update` — `Uni.update` (fee accrual) — `Squeeth.step … .update` (liquidations) — with `Squeeth.Env` filled from
      the view: the row's three numbers, `now`, `rows := ` the TWAP window, `uniPrice := ` the shifted price;
    * the strategy is CLOSED-LOOP: `hooks k view state` — the operations it issues on bar k are a function of the bar number, of what it is
      shown of bar k (row, shifted price, window) and of its own state (positions, vaults, wallet); operations are the markets' real `Op`s
      (`Uni.step`, `Squeeth.step`), an operation that raises leaves the state the failing call left (the strategy catches);
    * one wallet (the broker's) is threaded through both markets.

  Nothing in `pairStep` can reach the history except through the view, and the view reads rows 0..k only (Proofs/C02/Markets.lean) — that is
  the composition the abstract `C02_prefix` left open.  Not modelled here: Deribit's hourly book, Aave, GMX (their views `hourView`,
  `rowView` are proved local, their steps are not plugged into a `Loop`); resampling (`coarsen`) in front of the view.
-/
import Demeter.Actuator.Causal
import Demeter.Uni.Step
import Demeter.Uni.Fee
import Demeter.Squeeth
namespace Demeter.Core

/-- one minute of supplied data: the pool frame (before `_add_statistic_column` adds `price`) and the Squeeth frame -/
structure PairRow where
  t : Int                 -- minute
  openTick : Int
  closeTick : Int
  curLiq : Rat
  in0 : Rat
  in1 : Rat
  nf : Rat
  weth : Rat
  osqth : Rat
deriving DecidableEq, Repr, Inhabited

/-- what the loop reads at bar k: (the row of bar k, the tick the `price` column of bar k is computed from), the TWAP window -/
abbrev PairView := (Option PairRow × Option Int) × List PairRow

def pairMarketView : ViewFn PairRow PairView :=
  pairView (pairView rowView (shiftView (fun r => r.openTick) (fun r => r.closeTick))) (twapView (fun r => r.t * 60))

/-- an operation of the strategy on one of the two markets -/
inductive MOp
  | uni (op : Uni.Op)
  | sq (op : Squeeth.Op)

structure PairSt where
  uni : Uni.State
  sq : Squeeth.State
  halted : Option String := none     -- the exception class that ended the run (`update()` raised), if any

/-- the fixed parameters of a run -/
structure PairCfg where
  K : Uni.Kern
  pool : Uni.Pool
  minError : Rat
  priceOf : Int → Rat                -- `_add_statistic_column`: tick ↦ price
  mean : List Rat → Rat              -- ORACLE `calc_twap_price`

def PairCfg.cx (c : PairCfg) : NumCtx := c.K.cx

/-- `market_status.data` of the pool at bar k -/
def uniRowOf (c : PairCfg) (r : PairRow) (tick : Int) : Uni.Row := ⟨r.closeTick, r.curLiq, r.in0, r.in1, c.priceOf tick⟩

/-- a row of `SqueethMarket.data` -/
def sqRowOf (x : PairRow) : Squeeth.Row := ⟨x.t, x.weth, x.osqth⟩

/-- what `SqueethMarket` reads during bar k — all of it from the view -/
def sqEnvOf (c : PairCfg) (r : PairRow) (tick : Int) (win : List PairRow) : Squeeth.Env :=
  { nf := r.nf, weth := r.weth, osqth := r.osqth, now := some r.t, rows := win.map sqRowOf,
    uniPrice := c.priceOf tick, uniOpen := true, mean := c.mean }

/-- one call of a market method by the strategy; the broker's wallet is shared -/
def doMOp (c : PairCfg) (e : Squeeth.Env) (st : PairSt) : MOp → PairSt
  | .uni op =>
    let u := (Uni.step c.K c.pool c.minError st.uni op).2
    { st with uni := u, sq := { st.sq with wallet := u.wallet } }
  | .sq op =>
    let s := (Squeeth.step c.cx e st.sq op).st
    { st with sq := s, uni := { st.uni with wallet := s.wallet } }

def runMOps (c : PairCfg) (e : Squeeth.Env) : List MOp → PairSt → PairSt
  | [], st => st
  | op :: ops, st => runMOps c e ops (doMOp c e st op)

/-- the closed-loop strategy: what `on_bar` does on bar k, given what it is shown and its own state -/
abbrev Hooks := Nat → PairView → PairSt → List MOp

/-- one bar of `Actuator.run` for the two markets -/
def pairStep (c : PairCfg) (hooks : Hooks) (st : PairSt) (k : Nat) (v : PairView) : PairSt × PairSt :=
  match st.halted, v.1.1, v.1.2 with
  | none, some r, some tick =>
    let raw := uniRowOf c r tick
    let e := sqEnvOf c r tick v.2
    let st1 : PairSt := { st with uni := Uni.setStatus c.cx st.uni raw (some k) true }                      -- first refresh
    let st2 := runMOps c e (hooks k v st1) st1                                                             -- the strategy
    let u2 := if st2.uni.hasUpdate then Uni.setStatus c.cx st2.uni raw (some k) true else st2.uni           -- second refresh
    let r3 := Uni.update c.cx c.pool u2                                                                     -- fee accrual
    match r3.2 with
    | some err => let st' : PairSt := { st2 with uni := r3.1, halted := some err.name }; (st', st')
    | none =>
      let s4 := Squeeth.step c.cx e { st2.sq with wallet := r3.1.wallet } .update                           -- liquidations
      let st' : PairSt := { uni := { r3.1 with wallet := s4.st.wallet }, sq := s4.st, halted := s4.err.map Squeeth.Err.cls }
      (st', st')
  | _, _, _ => (st, st)

/-- the loop of Causal.lean for the two markets: the state after every bar is the bar's output -/
def pairLoop (c : PairCfg) (hooks : Hooks) : Loop PairRow PairView PairSt PairSt :=
  { view := pairMarketView, step := pairStep c hooks }

end Demeter.Core
