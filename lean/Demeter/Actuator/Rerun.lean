/-
  Demeter.Actuator.Rerun — `Actuator.run` wrapping `_run` in the order the code has (review finding E-7).

  demeter/core/actuator.py:

      def run(self, …):
          triggers_before_run = list(self._strategy.triggers)        # a NEW list holding the same trigger objects
          try:
              self._run(print_result)
          finally:
              self._strategy.triggers = triggers_before_run

      def _run(self, …):
          …                                                          # reset(), _check_backtest, bar index, first refresh
          self.init_strategy()                                       # strategy.initialize(): may append to strategy.triggers
          for trigger in self._strategy.triggers:                    # whatever is installed NOW — by the caller or by initialize()
              trigger.reset()
          … the bar loop …                                           # `strategy.triggers = [x for x in … if not x.is_out_date(…)]` on every bar:
                                                                     # the name is REBOUND to a new list, the old list object is left alone

  `actuatorRun` / `actuatorRunG` (Demeter/Actuator.lean, Actuator/Hooks.lean) reset the triggers BEFORE `initialize()`; with hooks that only
  issue operations (`Script`) or install NEW objects (`HStmt.tadd` "a new object") that is the same thing.  It is not the same for a strategy
  that builds its trigger objects once and installs THE SAME objects from `initialize()` on every run (fix 7afdd12): those objects carry the
  state the previous run left in them when they are installed, and only a reset AFTER `initialize()` starts them afresh.  Here:

    * `runG2`: `runG` with the reset where the code has it (switched by the generated source flags `coreRunResetsTriggers`: after
      `initialize()`, everything installed; `coreRunResetsGivenTriggersOnly`: before `_run`, the given ones only);
    * a script's `tadd t` in `init` stands for `self.triggers.append(<the object t, in the state t.k>)`: a rerun of "the same strategy object"
      is a run of a script whose `init` installs the same objects in other states (`SameInit`);
    * what `run` hands back: `coreRunSavesTriggerListByCopy` (generated: `list(self._strategy.triggers)` versus the bare reference) selects
      between the copy taken BEFORE `_run` (`trigs`: what the caller installed) and the list OBJECT `strategy.triggers` was bound to when
      `run` was entered — the object `initialize()` and the hooks of the first bar append to until the loop first rebinds the name
      (`listObject`).  With the reference, the triggers `initialize()` installed are still installed after the run and the next run's
      `initialize()` installs them a second time (`Proofs/C02/Rerun2.lean`: `C02_alias_variant_breaks_rerun`).
-/
import Demeter.Actuator.Hooks
namespace Demeter.Core

/-- `for trigger in self._strategy.triggers: trigger.reset()` -/
def resetTrigs (st : St) : St := { st with trigs := st.trigs.map Trig.reset }

/-- first refresh, `initialize()`, then the reset of whatever is installed (not reached when `initialize()` raises) -/
def initG2 (cfg : Cfg) (trigs : List Trig) (g : GScript) (ts0 : Int) : Res :=
  let i := initG cfg (if Gen.coreRunResetsGivenTriggersOnly then trigs.map Trig.reset else trigs) g ts0
  match i.2.2 with
  | some _ => i
  | none => if Gen.coreRunResetsTriggers then (i.1, resetTrigs i.2.1, none) else i

def runCore2 (cfg : Cfg) (trigs : List Trig) (g : GScript) (ts0 : Int) (bars : List Int) : Res × Bool :=
  let i := initG2 cfg trigs g ts0
  match i.2.2 with
  | some _ => (i, false)                       -- `initialize()` raised: outside the `try` around the loop
  | none => (i.andThen (runBarsG cfg g 0 (ts0 :: bars)), true)

/-- `Actuator.run` on a strategy whose `strategy.triggers` holds the objects `trigs` (in whatever state) and whose hooks are `g` -/
def runG2 (cfg : Cfg) (trigs : List Trig) (g : GScript) : RunResult :=
  match checkBacktest cfg with
  | some e => ⟨[.raised e], [], [], trigs, some e⟩
  | none =>
    match barIndex cfg with
    | [] => ⟨[.raised .indexError], [], [], trigs, some .indexError⟩
    | ts0 :: bars =>
      match priceAt cfg ts0 with
      | none => ⟨[.raised .keyError], [], [], trigs, some .keyError⟩
      | some _ =>
        let c := runCore2 cfg trigs g ts0 bars
        let st := c.1.2.1
        match c.1.2.2 with
        | none => ⟨c.1.1 ++ [Ev.finalize ((ts0 :: bars).getLast?.getD ts0)], st.rows, st.all, st.trigs, none⟩
        | some e =>
          let e' := if c.2 then loopExit st.rows e else e
          ⟨c.1.1 ++ [.raised e'], st.rows, st.all, st.trigs, some e'⟩

/-- what a run shows: calls, account rows, actions, outcome -/
def RunResult.obs (r : RunResult) : List Ev × List (Int × Option Int) × List Act × Option PyErr := (r.trace, r.rows, r.actions, r.err)

/-- the CONTENT of the list object that `strategy.triggers` was bound to when `run` was entered, when the run is over.  `initialize()` appends to
    (removes from) that object; so do `before_bar` and the trigger actions of the first bar; the first bar's
    `strategy.triggers = [x for x in strategy.triggers if not …]` binds the name to a new list and nothing touches the old object any more.
    If the run ends before that (an early exit, `initialize()` or a hook of the first bar raises, `is_out_date` raises inside the
    comprehension) the object is the live list at that moment. -/
def listObject (cfg : Cfg) (trigs : List Trig) (g : GScript) : List Trig :=
  match checkBacktest cfg with
  | some _ => trigs
  | none =>
    match barIndex cfg with
    | [] => trigs
    | ts0 :: _ =>
      match priceAt cfg ts0 with
      | none => trigs
      | some price =>
        let i := initG2 cfg trigs g ts0
        match i.2.2 with
        | some _ => i.2.1.trigs
        | none =>
          let s1 := setAllFrom cfg ts0 1 0 cfg.markets
          let b := g.bar 0
          (((Res.ok (s1.1 ++ [.before ts0 0 price]) { i.2.1 with ms := s1.2 }).andThen
            (runStmts ts0 .before b.before)).andThen
            (fun st => fireLoopG b ts0 (st.trigs.length + g.tfuel) 0 st)).2.1.trigs

/-- the objects of `saved`, each in the state the run left it in (`live`: the objects still installed when the run ended; an object that is not —
    retired by the loop, removed by a hook — is given in the state it has in `saved`: exact for the stateless classes, which are the only ones
    the loop retires, and exact up to `reset()` — all a next run that resets can see — otherwise) -/
def handBack2 (saved live : List Trig) : List Trig := handBack saved live

/-- `finally: self._strategy.triggers = triggers_before_run` with `triggers_before_run = list(self._strategy.triggers)` -/
def trigsAfterRun2Copy (cfg : Cfg) (trigs : List Trig) (g : GScript) : List Trig :=
  handBack2 (if Gen.coreRunResetsTriggers || Gen.coreRunResetsGivenTriggersOnly then trigs.map Trig.reset else trigs) (runG2 cfg trigs g).trigsLeft

/-- the same with `triggers_before_run = self._strategy.triggers` (a reference to the list object) -/
def trigsAfterRun2Alias (cfg : Cfg) (trigs : List Trig) (g : GScript) : List Trig :=
  handBack2 (listObject cfg trigs g) (runG2 cfg trigs g).trigsLeft

/-- `strategy.triggers` after `Actuator.run`, as the source has it -/
def trigsAfterRun2 (cfg : Cfg) (trigs : List Trig) (g : GScript) : List Trig :=
  if Gen.coreRunSavesTriggerListByCopy then trigsAfterRun2Copy cfg trigs g else trigsAfterRun2Alias cfg trigs g

/-- two hook bodies that differ only in the STATE of the trigger objects they install (same objects: same id, keyword arguments, constructor
    parameters — equal after `reset()`) -/
def SameStmt : HStmt → HStmt → Prop
  | .tadd t', .tadd t => t'.reset = t.reset
  | .op o', .op o => o' = o
  | .tdel i', .tdel i => i' = i
  | .boom e', .boom e => e' = e
  | _, _ => False

def SameBody : List HStmt → List HStmt → Prop
  | [], [] => True
  | a :: l, b :: m => SameStmt a b ∧ SameBody l m
  | _, _ => False

/-- the same strategy object at a later time: same hooks, `initialize()` installs the same trigger objects (in whatever state they are in) -/
def SameInit (g' g : GScript) : Prop :=
  SameBody g'.init g.init ∧ g'.bar = g.bar ∧ g'.fuel = g.fuel ∧ g'.tfuel = g.tfuel

/-! ### the same strategy object, run again -/

/-- a statement of `initialize()` on the next run: `self.triggers.append(self.t)` appends the object `self.t` — built once, when the strategy was
    made — in the state the previous run left it in (`live`: the objects installed when that run ended; an object no longer installed is, as
    in `handBack2`, taken in the state written in the script: exact for the stateless classes, exact up to `reset()` otherwise) -/
def leftoverStmt (live : List Trig) : HStmt → HStmt
  | .tadd t => .tadd ((live.find? (fun t' => t'.id == t.id)).getD t)
  | s => s

/-- the strategy object after `Actuator.run`: the same hooks; the trigger objects `initialize()` installs carry what the run left in them -/
def strategyAfterRun2 (cfg : Cfg) (trigs : List Trig) (g : GScript) : GScript :=
  { g with init := g.init.map (leftoverStmt (runG2 cfg trigs g).trigsLeft) }

/-- the second `Actuator.run` (fresh Actuator / broker / markets, same data) of the same strategy object -/
def rerun2 (cfg : Cfg) (trigs : List Trig) (g : GScript) : RunResult :=
  runG2 cfg (trigsAfterRun2 cfg trigs g) (strategyAfterRun2 cfg trigs g)

/-- the same second run in the older reading — every trigger of `strategy.triggers` reset when `run` is ENTERED, nothing after `initialize()`
    (`actuatorRunG`): what distinguishes the two orders in the correspondence run -/
def rerun2ResetBeforeInit (cfg : Cfg) (trigs : List Trig) (g : GScript) : RunResult :=
  runG cfg ((trigsAfterRun2 cfg trigs g).map Trig.reset) (strategyAfterRun2 cfg trigs g)

end Demeter.Core
