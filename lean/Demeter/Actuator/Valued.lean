/-
  Demeter.Actuator.Valued — the account rows of a run as *values* (C01's quantifier "at every bar of every backtest").

  `Demeter/Actuator.lean` leaves the effect of every call on wallet and markets uninterpreted and records, for an account
  row, only its timestamp and the price row it was valued with.  Here the uninterpreted part is made explicit as a
  parameter: a type `W` of "wallet and markets" states, the effect `eff e` of every call `e` of the trace on it
  (`set_market_status` installs the bar's row, an accepted operation moves funds, `update()` accrues fees / liquidates /
  settles, `get_account_status` itself may fill a cache, …), and how the broker reads it (`balances`: every market's
  `get_market_balance().net_value` with its quote token, in broker order; `wallet`).  The account row the loop appends at a
  `row` call is then `accountStatus` (Demeter/Broker.lean = `Broker.get_account_status`) of whatever the world is at that call.
-/
import Demeter.Actuator
import Demeter.Broker
namespace Demeter.Core

structure Valuation (W : Type) where
  quote : String                          -- `broker.quote_token`
  eff : Ev → W → W                        -- what a call of the trace does to wallet and markets
  prices : Option Int → Prices            -- the price row `token_prices.loc[ts]`, identified by its source row
  balances : W → List MarketNV            -- `market.get_market_balance()` of every market, in `broker.markets` order
  wallet : W → Wallet                     -- `broker.assets`

/-- wallet and markets after the calls `l` -/
def worldAfter {W : Type} (V : Valuation W) (l : List Ev) (w : W) : W := l.foldl (fun w e => V.eff e w) w

/-- `self._broker.get_account_status(current_price, timestamp)` in the world `w` -/
def acctRow {W : Type} (cx : NumCtx) (V : Valuation W) (src : Option Int) (w : W) : Option AccountStatus :=
  accountStatus cx V.quote (V.prices src) (V.balances w) (V.wallet w)

/-- the account rows of a call trace: at every `row` call the broker values the world as the calls before it left it
    (`none` = `get_account_status` raises `KeyError`: a wallet token or a market's quote token has no price) -/
def valuedRows {W : Type} (cx : NumCtx) (V : Valuation W) : List Ev → W → List (Int × Option AccountStatus)
  | [], _ => []
  | .row ts src :: l, w => (ts, acctRow cx V src w) :: valuedRows cx V l (V.eff (.row ts src) w)
  | e :: l, w => valuedRows cx V l (V.eff e w)

/-- the `row` calls of a trace, each with the calls that precede it -/
def rowSplits : List Ev → List (List Ev × Int × Option Int)
  | [] => []
  | .row ts src :: l => ([], ts, src) :: (rowSplits l).map (fun s => (.row ts src :: s.1, s.2))
  | e :: l => (rowSplits l).map (fun s => (e :: s.1, s.2))

end Demeter.Core
