/-
  Demeter.Actuator.Markets — a CONCRETE interpretation (`Valuation`, Demeter/Actuator/Valued.lean) of the calls of the bar loop:
  the world is the broker's wallet together with the states of real market models, and what a call does is those models' own
  transition functions.

  Markets, in `broker.markets` order:
    0  a Uniswap v3 LP market (any pool)                — `Demeter.Uni.State`, operations `Demeter.Uni.step`, `update()` = fee accrual
    1  the oSQTH/WETH pool the Squeeth market trades with — the `positions` of `Demeter.Squeeth.State` (the container both markets share)
    2  the Squeeth market                               — the `vaults` of the same `Demeter.Squeeth.State`, operations `Demeter.Squeeth.step`
    3  a GMX v1 market (GLP shares + accrued reward)    — `Demeter.GmxV1.State`, operations `Demeter.GmxV1.step`, `update()` = reward accrual
    4  a Deribit option market (cash + options)         — `Demeter.Deribit.DState`, operations `Demeter.Deribit.step`, `update()` = expiry;
       its `get_market_balance` WRITES a cache (`_balance_cache`): the account-row call itself changes the market (`Ev.row`)
    5  an Aave v3 market (supplies − debts, five caches) — `Demeter.Aave.St`, operations `Demeter.Aave.step`, `update()` = liquidation,
       `set_market_status` = `.newBar` (resets the caches), `get_market_balance` = the read `.marketBalance` (fills caches)
  Every market model carries "the" broker wallet as a field of its own state; here there is ONE wallet (`World.wallet`): it is put into a
  market's state before that market's transition runs and taken out of it afterwards.

  What an operation label of the script (`OpSpec.tag`) stands for is a parameter (`uniOp`, `sqOp`): a label decodes to an operation of
  the market it is issued on.  The data rows of the markets and the price rows are functions of the source-row id the loop reads
  (`Ev.set … src`, `Ev.row … src`).

  Modelling limits, stated where they matter: fee accrual of positions in the oSQTH/WETH pool (market 1's `update()`) is not in
  `Demeter.Squeeth` (pending amounts there change through operations only); pool operations on market 1 other than `remove_liquidity`,
  `buy`, `sell` are not in `Demeter.Squeeth.Op`.
-/
import Demeter.Actuator.Valued
import Demeter.Uni.Step
import Demeter.Uni.Fee
import Demeter.Squeeth.Views
import Demeter.GmxV1
import Demeter.Deribit.Run
import Demeter.Aave
namespace Demeter.Core

structure Setup where
  quote : String                          -- `broker.quote_token.name`
  K : Uni.Kern                            -- market 0: numeric kernel (carries its arithmetic context)
  pool : Uni.Pool                         -- market 0: `pool_info`
  minError : Rat
  cx : NumCtx                             -- arithmetic of markets 1 and 2
  uniRow : Option Int → Option Uni.Row    -- market 0's data row, by source row (`none`: no row)
  sqEnv : Option Int → Squeeth.Env        -- what markets 1 and 2 read, by source row
  prices : Option Int → Prices            -- `token_prices.loc[ts]`, by source row
  uniOp : String → Option Uni.Op          -- what a label issued on market 0 stands for
  sqOp : String → Option Squeeth.Op       -- … on markets 1 and 2
  sqQuote : String := "USD"               -- `SqueethMarket.quote_token` (the `Market` default, broker/market.py)
  gmxEnv : Option Int → GmxV1.Env := fun _ => ⟨[], [], 0, 0, 0, 0, 0, 0⟩   -- market 3's data row, by source row
  gmxOp : String → Option GmxV1.Op := fun _ => none                        -- what a label issued on market 3 stands for
  gmxQuote : String := "USD"              -- `GmxMarket.quote_token` (the `Market` default)
  derCx : Deribit.DCtx := Deribit.DCtx.ideal ⟨id, fun x => x⟩     -- market 4: arithmetic (Decimal + float parts)
  derCfg : Deribit.TokenCfg := Deribit.ethCfg                      -- market 4: token configuration; `quote_token` = its token
  derBar : Int → Option Int → Deribit.Bar := fun ts _ => ⟨ts / 60, false, [], 0, false, []⟩   -- what the frames give market 4 at a bar
  derOp : String → Option Deribit.Op := fun _ => none              -- what a label issued on market 4 stands for
  aaveCx : Aave.ACtx := Aave.ACtx.py                               -- market 5: arithmetic
  aaveEnv : Option Int → Aave.Env := fun _ => ⟨[], [], [], false⟩  -- market 5: status row, prices and risk table, by source row
  aaveOp : String → Option Aave.Op := fun _ => none                -- what a label issued on market 5 stands for
  aaveQuote : String := "USD"                                      -- `AaveV3Market.quote_token` (the `Market` default)

structure World where
  wallet : Wallet
  uni : Uni.State            -- its `wallet` field is a scratch copy, overwritten from `wallet` before every use
  sq : Squeeth.State         -- likewise
  env : Squeeth.Env          -- the current status of markets 1 and 2
  gmx : GmxV1.State := ⟨0, 0, [], []⟩                      -- market 3 (its `wallet` field: scratch copy, as above)
  genv : GmxV1.Env := ⟨[], [], 0, 0, 0, 0, 0, 0⟩           -- the current status of market 3
  der : Deribit.DState := ⟨0, [], [], [], false, [], none, false, 0, 0, false⟩   -- market 4 (its `wallet` field: scratch copy)
  aave : Aave.St := ⟨[], [], ⟨true, []⟩, ⟨true, []⟩, ⟨true, []⟩, ⟨true, []⟩, ⟨true, []⟩, [], [], false⟩   -- market 5 (likewise)
  aenv : Aave.Env := ⟨[], [], [], false⟩                                          -- the current status of market 5

/-- market 0 as its methods see it: with the broker's wallet -/
def World.uniIn (w : World) : Uni.State := { w.uni with wallet := w.wallet }
/-- markets 1 and 2 as their methods see them -/
def World.sqIn (w : World) : Squeeth.State := { w.sq with wallet := w.wallet }

/-- market 3 as its methods see it -/
def World.gmxIn (w : World) : GmxV1.State := { w.gmx with wallet := w.wallet }

/-- an operation on market 3 -/
def gmxCall (S : Setup) (w : World) (op : GmxV1.Op) : World :=
  let r := GmxV1.step S.cx w.genv w.gmxIn op
  { w with wallet := r.2.wallet, gmx := r.2 }

/-- market 4 as its methods see it -/
def World.derIn (w : World) : Deribit.DState := { w.der with wallet := w.wallet }

/-- an operation on market 4 -/
def derCall (S : Setup) (w : World) (op : Deribit.Op) : World :=
  let r := Deribit.step S.derCx S.derCfg w.derIn op
  { w with wallet := r.2.wallet, der := r.2 }

/-- market 5 as its methods see it -/
def World.aaveIn (w : World) : Aave.St := { w.aave with wallet := w.wallet }

/-- an operation on market 5 -/
def aaveCall (S : Setup) (w : World) (op : Aave.Op) : World :=
  let r := Aave.step S.aaveCx w.aenv w.aaveIn op
  { w with wallet := r.2.wallet, aave := r.2 }

/-- an operation on market 0 -/
def uniCall (S : Setup) (w : World) (tag : String) : World :=
  match S.uniOp tag with
  | none => w
  | some op =>
    let r := Uni.step S.K S.pool S.minError w.uniIn op
    { w with wallet := r.2.wallet, uni := r.2 }

/-- an operation on market 1 or 2 -/
def sqCall (S : Setup) (w : World) (op : Squeeth.Op) : World :=
  let r := Squeeth.step S.cx w.env w.sqIn op
  { w with wallet := r.st.wallet, sq := r.st }

def opCall (S : Setup) (w : World) (m : Nat) (tag : String) : World :=
  if m = 0 then uniCall S w tag
  else if m = 3 then
    match S.gmxOp tag with
    | none => w
    | some op => gmxCall S w op
  else if m = 4 then
    match S.derOp tag with
    | none => w
    | some op => derCall S w op
  else if m = 5 then
    match S.aaveOp tag with
    | none => w
    | some op => aaveCall S w op
  else match S.sqOp tag with
    | none => w
    | some op => sqCall S w op

/-- `set_market_status` of market `m` with the row `src` -/
def setCall (S : Setup) (w : World) (ts : Int) (m : Nat) (isOpen : Bool) (src : Option Int) : World :=
  if m = 0 then
    match S.uniRow src with
    | some raw => { w with uni := Uni.setStatus S.K.cx w.uni raw (some ts.toNat) isOpen }
    | none => { w with uni := { w.uni with isOpen := isOpen, hasUpdate := false } }
  else if m = 1 then
    match src with
    | some _ => { w with env := { w.env with uniPrice := (S.sqEnv src).uniPrice, uniOpen := isOpen } }
    | none => { w with env := { w.env with uniOpen := isOpen } }
  else if m = 3 then
    match src with
    | some _ => { w with genv := S.gmxEnv src }
    | none => w
  else if m = 4 then { w with der := Deribit.setStatus w.der { S.derBar ts src with flagOpen := isOpen } }
  else if m = 5 then
    { w with aenv := { S.aaveEnv src with isOpen := isOpen },
             aave := (Aave.step S.aaveCx { S.aaveEnv src with isOpen := isOpen } w.aave .newBar).2 }
  else
    match src with
    | some _ => { w with env := { S.sqEnv src with uniPrice := w.env.uniPrice, uniOpen := w.env.uniOpen } }
    | none => w

/-- `market.update()` -/
def updCall (S : Setup) (w : World) (m : Nat) : World :=
  if m = 0 then { w with uni := (Uni.update S.K.cx S.pool w.uni).1 }       -- fee accrual (wallet untouched)
  else if m = 2 then sqCall S w .update                                      -- liquidation of unsafe vaults
  else if m = 3 then gmxCall S w .update                                     -- reward accrual (wallet untouched)
  else if m = 4 then { w with wallet := (Deribit.update S.derCx S.derCfg w.derIn).wallet,
                              der := Deribit.update S.derCx S.derCfg w.derIn }           -- expiry: settlement of due options
  else if m = 5 then aaveCall S w .update                                    -- liquidation of an unhealthy account
  else w

/-- what a call of the trace does to wallet and markets -/
def marketsEff (S : Setup) : Ev → World → World
  | .set ts m _ isOpen src, w => setCall S w ts m isOpen src
  | .update _ m, w => updCall S w m
  | .opOk _ _ m tag, w => opCall S w m tag
  | .opRej _ _ m tag false, w => opCall S w m tag      -- the market's own logic raised: the state is what the failing call left behind
  | .opFree _ _ m tag _, w => opCall S w m tag
  | .row _ _, w => { w with der := (Deribit.getMarketBalance S.derCx S.derCfg w.derIn).2,      -- the valuation fills market 4's cache
                            aave := (Aave.step S.aaveCx w.aenv w.aaveIn (.read .marketBalance)).2 }   -- … and market 5's caches
  | _, w => w                                          -- hook calls, the gate's refusal on a closed market, `uact` (recorded by `update`), rows, notify

/-- a market's `get_market_balance().net_value`; an exception is NOT a value: the theorems carry the guard "the call returns" -/
def nvOfUni (r : Except Uni.Err Uni.Balance) : Rat := match r with | .ok b => b.netValue | .error _ => 0
def nvOfSq (r : Except Squeeth.Err Squeeth.Balance) : Rat := match r with | .ok b => b.netValue | .error _ => 0
def nvOfDer (r : Deribit.Outcome) : Rat := match r with | .ok (.balance (some b)) => b.netValue | _ => 0
def nvOfAave (r : Aave.Res Aave.Val) : Rat := match r with | .ok (.bal b) => b.netValue | _ => 0

def marketsBalances (S : Setup) (w : World) : List MarketNV :=
  [⟨"uni", S.pool.quoteTok, nvOfUni (Uni.getMarketBalance S.K S.pool w.uniIn)⟩,
   ⟨"squeeth-pool", Gen.sqWethName, Squeeth.uniNetValue S.cx w.env w.sqIn⟩,
   ⟨"squeeth", S.sqQuote, nvOfSq (Squeeth.marketBalance S.cx w.env w.sqIn)⟩,
   ⟨"gmx", S.gmxQuote, GmxV1.netValue S.cx w.genv w.gmxIn⟩,
   ⟨"deribit", S.derCfg.token, nvOfDer (Deribit.getMarketBalance S.derCx S.derCfg w.derIn).1⟩,
   ⟨"aave", S.aaveQuote, nvOfAave (Aave.step S.aaveCx w.aenv w.aaveIn (.read .marketBalance)).1⟩]

/-- the concrete interpretation -/
def marketsValuation (S : Setup) : Valuation World :=
  { quote := S.quote, eff := marketsEff S, prices := S.prices, balances := marketsBalances S, wallet := fun w => w.wallet }

/-! ### the script's outcome flags against the market models

  `Demeter/Actuator.lean` takes "does the market accept this operation" from the script (`OpSpec.ok`); the market models decide it from the
  state.  A trace is *coherent* with the models when the two agree at every operation: an accepted one (`opOk`, `opFree … true`) does not
  raise in the world the earlier calls produced, a refused one (`opRej … false`, `opFree … false`) does. -/

/-- does the operation labelled `tag` on market `m` return normally in the world `w` (`none`: the label decodes to nothing) -/
def callOk (S : Setup) (w : World) (m : Nat) (tag : String) : Option Bool :=
  if m = 0 then
    (S.uniOp tag).map fun op => match (Uni.step S.K S.pool S.minError w.uniIn op).1 with | .ok _ => true | .error _ => false
  else if m = 3 then
    (S.gmxOp tag).map fun op => match (GmxV1.step S.cx w.genv w.gmxIn op).1 with | .ok _ => true | .error _ => false
  else if m = 4 then
    (S.derOp tag).map fun op => match (Deribit.step S.derCx S.derCfg w.derIn op).1 with | .ok _ => true | .error _ => false
  else if m = 5 then
    (S.aaveOp tag).map fun op => match (Aave.step S.aaveCx w.aenv w.aaveIn op).1 with | .ok _ => true | .error _ => false
  else
    (S.sqOp tag).map fun op => (Squeeth.step S.cx w.env w.sqIn op).err.isNone

def evCoherent (S : Setup) (w : World) : Ev → Bool
  | .opOk _ _ m tag => callOk S w m tag == some true
  | .opRej _ _ m tag false => callOk S w m tag == some false
  | .opFree _ _ m tag ok => callOk S w m tag == some ok
  | _ => true

/-- every operation of the trace has, in the world it is issued in, the outcome the trace records -/
def coherent (S : Setup) : List Ev → World → Bool
  | [], _ => true
  | e :: l, w => evCoherent S w e && coherent S l (marketsEff S e w)

end Demeter.Core
