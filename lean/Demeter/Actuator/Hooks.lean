/-
  Demeter.Actuator.Hooks — the bar loop of demeter/core/actuator.py (`Actuator.run` / `_run`) for strategies whose hooks do more than
  issue operations: a hook may RAISE (from `initialize`, `before_bar`, a trigger's `do`, a market's `open` callback, `on_bar`, `after_bar`,
  `notify`) and may CHANGE `strategy.triggers` (append a new trigger, remove an installed one) — also from a trigger's `do`, while the
  loop iterates over that very list.

  `Demeter/Actuator.lean` (`run`) is the same loop for hooks that only issue operations; `Proofs/C05/Hooks.lean` proves that the two
  coincide on such scripts (`C05_general_run_of_plain_script_is_run`), so every theorem about `run` is a theorem about `runG` there.

  What the code does when a hook raises (actuator.py, `run` wrapping `_run`):
    * nothing in the loop catches the exception: the calls after the raising statement are not made — no market update, no account row, no
      `notify` for the bar (unless the hook that raised is `notify` itself: the bar's row has been appended before the deliveries start);
    * `_action_list` and `_account_status_list` keep what was recorded up to there (`reset()` runs at the START of a run only), the bar's own
      `_currents.actions` are not cleared;
    * the loop is wrapped in `try … except RuntimeError as e:` whose handler prints the timestamp, builds the account frame
      (`_generate_account_status_df`), saves the result files to the working directory and re-raises `e`; `DemeterError` is a `RuntimeError`.
      With no account row yet (the hook raised on the first bar) `_generate_account_status_df` fails inside pandas with `IndexError`, and THAT
      is what leaves `run()` (generated flag `coreRuntimeErrorHandlerBuildsFrame`).  Exceptions of other classes pass through untouched;
      `initialize()` is called outside the `try`;
    * `run`'s `finally` hands `strategy.triggers` back as it was before the run (`handBack`), whatever happened;
    * the next `run()` starts with `reset()` (lists emptied, a fresh `_currents`), refreshes every market and resets the triggers: in the
      model's terms it is `runG` again — nothing of the failed run is carried over (the broker's balances and the markets' positions are,
      as after any run; operation effects are uninterpreted here).
-/
import Demeter.Actuator
namespace Demeter.Core

/-- one statement of a scripted hook -/
inductive HStmt
  | op (o : OpSpec)            -- a market operation, the refusal of which the hook catches (`doOp`)
  | tadd (t : Trig)            -- `self.triggers.append(t)` (a new object)
  | tdel (id : Nat)            -- `if t in self.triggers: self.triggers.remove(t)`
  | boom (e : PyErr)           -- `raise e`, not caught by the hook
deriving Repr, Inhabited

/-- what the hooks do on one bar -/
structure BarScript where
  before : List HStmt
  fire : Nat → List HStmt          -- trigger id
  openCb : Nat → List HStmt        -- market
  on : List HStmt
  after : List HStmt
  upd : Nat → List String          -- market: what `update()` records
  notify : String → List HStmt     -- label of the action being delivered
deriving Inhabited

structure GScript where
  init : List HStmt
  bar : Nat → BarScript            -- row id
  fuel : Nat := 0                  -- deliveries of actions created inside `notify` that the model follows per bar
  tfuel : Nat := 0                 -- steps of the trigger loop beyond the length of the list at its start
deriving Inhabited

/-- events so far, state, the exception that stopped the calls (if any) -/
abbrev Res := List Ev × St × Option PyErr

/-- sequencing: the continuation runs only if nothing has been raised -/
def Res.andThen (r : Res) (k : St → Res) : Res :=
  match r.2.2 with
  | some _ => r
  | none =>
    let q := k r.2.1
    (r.1 ++ q.1, q.2.1, q.2.2)

def Res.ok (evs : List Ev) (st : St) : Res := (evs, st, none)

def doStmt (ts : Int) (h : Hook) : HStmt → St → Res
  | .op o, st => let r := doOp ts h o st; (r.1, r.2, none)
  | .tadd t, st => ([], { st with trigs := st.trigs ++ [t] }, none)
  | .tdel id, st => ([], { st with trigs := eraseId id st.trigs }, none)
  | .boom e, st => ([], st, some e)

/-- the body of a hook: statement by statement until one raises -/
def runStmts (ts : Int) (h : Hook) : List HStmt → St → Res
  | [], st => ([], st, none)
  | s :: ss, st => (doStmt ts h s st).andThen (runStmts ts h ss)

/-- `for trigger in self._strategy.triggers: if trigger.when(snapshot): trigger.do(snapshot)` over the live list, index by index
    (`dynLoop` of Demeter/Trigger.lean with the actions' operations, list changes and exceptions in between) -/
def fireLoopG (b : BarScript) (ts : Int) : Nat → Nat → St → Res
  | 0, i, st => ([], st, if i < st.trigs.length then some .diverges else none)
  | fuel + 1, i, st =>
    match st.trigs[i]? with
    | none => ([], st, none)
    | some t =>
      match whenErr t.k with
      | some e => ([], st, some e)
      | none =>
        let r := whenT ts t.k
        let st1 : St := { st with trigs := st.trigs.set i { t with k := r.2 } }
        if r.1 then
          ((Res.ok [.fire ts t.id t.kw] st1).andThen (runStmts ts (.fire t.id) (b.fire t.id))).andThen (fireLoopG b ts fuel (i + 1))
        else fireLoopG b ts fuel (i + 1) st1

/-- `self._strategy.triggers = [x for x in self._strategy.triggers if not x.is_out_date(now)]` -/
def retireG (ts : Int) (st : St) : Res :=
  let q := retire ts st.trigs
  ([], { st with trigs := q.1 }, q.2)

def runOpenFromG (b : BarScript) (ts : Int) (i : Nat) : List MarketCfg → St → Res
  | [], st => ([], st, none)
  | mc :: rest, st =>
    if mc.openCb && st.openAt i then
      ((Res.ok [.openCb ts i] st).andThen (runStmts ts (.openCb i) (b.openCb i))).andThen (runOpenFromG b ts (i + 1) rest)
    else runOpenFromG b ts (i + 1) rest st

def runUpdFromG (b : BarScript) (ts : Int) (i : Nat) : List MarketCfg → St → List Ev × St
  | [], st => ([], st)
  | _ :: rest, st =>
    let r := recUpd ts i (b.upd i) st
    let q := runUpdFromG b ts (i + 1) rest r.2
    (.update ts i :: r.1 ++ q.1, q.2)

/-- second refresh, `market.update()` of every market, the `after_bar` call -/
def midG (cfg : Cfg) (b : BarScript) (row : Nat) (ts : Int) (price : Option Int) (st : St) : Res :=
  let s2 := setUpdatedFrom cfg ts 0 cfg.markets st.ms
  let u := runUpdFromG b ts 0 cfg.markets { st with ms := s2.2 }
  (s2.1 ++ u.1 ++ [.after ts row price], u.2, none)

/-- the `notify` loop over the live `_currents.actions` (`runNotify` with hooks that may raise) -/
def runNotifyG (b : BarScript) (ts : Int) : Nat → Nat → St → Res
  | 0, i, st => ([], st, if (st.cur[i]?).isNone then none else some .diverges)
  | fuel + 1, i, st =>
    match st.cur[i]? with
    | none => ([], st, none)
    | some a =>
      ((Res.ok [.notify ts a.tag a.stamp a.m] st).andThen (runStmts ts .notify (b.notify a.tag))).andThen (runNotifyG b ts fuel (i + 1))

/-- one iteration of the loop up to and including `after_bar`: nothing here touches the account history -/
def barHeadG (cfg : Cfg) (b : BarScript) (tfuel : Nat) (row : Nat) (ts : Int) (price : Option Int) (st : St) : Res :=
  let s1 := setAllFrom cfg ts 1 0 cfg.markets
  ((((((((Res.ok (s1.1 ++ [.before ts row price]) { st with ms := s1.2 }).andThen
    (runStmts ts .before b.before)).andThen
    (fun st => fireLoopG b ts (st.trigs.length + tfuel) 0 st)).andThen
    (retireG ts)).andThen
    (runOpenFromG b ts 0 cfg.markets)).andThen
    (fun st => Res.ok [.on ts row price] st)).andThen
    (runStmts ts .on b.on)).andThen
    (midG cfg b row ts price)).andThen
    (runStmts ts .after b.after)

/-- the account row, the `notify` loop, `self._currents.actions = []` -/
def barTailG (b : BarScript) (fuel : Nat) (ts : Int) (price : Option Int) (st : St) : Res :=
  ((Res.ok [.row ts price] { st with rows := st.rows ++ [(ts, price)] }).andThen
    (fun st => runNotifyG b ts (st.cur.length + fuel) 0 st)).andThen
    (fun st => Res.ok [] { st with cur := [] })

def barStepG (cfg : Cfg) (b : BarScript) (fuel tfuel : Nat) (row : Nat) (ts : Int) (st : St) : Res :=
  match priceAt cfg ts with
  | none => ([], st, some .keyError)
  | some price => (barHeadG cfg b tfuel row ts price st).andThen (barTailG b fuel ts price)

def runBarsG (cfg : Cfg) (g : GScript) : Nat → List Int → St → Res
  | _, [], st => ([], st, none)
  | row, ts :: bars, st => (barStepG cfg (g.bar row) g.fuel g.tfuel row ts st).andThen (runBarsG cfg g (row + 1) bars)

/-- what leaves `run()` when `e` came out of the bar loop with the account history `rows`: the `except RuntimeError` handler builds the
    account frame before re-raising, and pandas raises `IndexError` on an empty history -/
def loopExit (rows : List (Int × Option Int)) (e : PyErr) : PyErr :=
  if Gen.coreRuntimeErrorHandlerBuildsFrame && e.isRuntime && rows.isEmpty then .indexError else e

/-- `initialize()` and what it does -/
def initG (cfg : Cfg) (trigs : List Trig) (g : GScript) (ts0 : Int) : Res :=
  let s0 := setAllFrom cfg ts0 0 0 cfg.markets
  (Res.ok (s0.1 ++ [.initialize ts0]) ⟨s0.2, trigs, [], [], []⟩).andThen (runStmts ts0 .init g.init)

/-- the calls of a run (without the closing `finalize` / `raised` marker), the state it leaves, what ended it -/
def runCore (cfg : Cfg) (trigs : List Trig) (g : GScript) (ts0 : Int) (bars : List Int) : Res × Bool :=
  let i := initG cfg trigs g ts0
  match i.2.2 with
  | some _ => (i, false)                       -- `initialize()` raised: outside the `try` around the loop
  | none => (i.andThen (runBarsG cfg g 0 (ts0 :: bars)), true)

/-- `Actuator.run` (`_run`) for a scripted strategy whose hooks may raise and change `strategy.triggers` -/
def runG (cfg : Cfg) (trigs : List Trig) (g : GScript) : RunResult :=
  match checkBacktest cfg with
  | some e => ⟨[.raised e], [], [], trigs, some e⟩
  | none =>
    match barIndex cfg with
    | [] => ⟨[.raised .indexError], [], [], trigs, some .indexError⟩
    | ts0 :: bars =>
      match priceAt cfg ts0 with
      | none => ⟨[.raised .keyError], [], [], trigs, some .keyError⟩
      | some _ =>
        let c := runCore cfg trigs g ts0 bars
        let st := c.1.2.1
        match c.1.2.2 with
        | none => ⟨c.1.1 ++ [Ev.finalize ((ts0 :: bars).getLast?.getD ts0)], st.rows, st.all, st.trigs, none⟩
        | some e =>
          let e' := if c.2 then loopExit st.rows e else e
          ⟨c.1.1 ++ [.raised e'], st.rows, st.all, st.trigs, some e'⟩

/-- `Actuator.run` on a strategy whose trigger objects are `trigs` (in any state a previous run may have left them in) -/
def actuatorRunG (cfg : Cfg) (trigs : List Trig) (g : GScript) : RunResult := runG cfg (startTrigs trigs) g

/-- the strategy's trigger objects after `Actuator.run`: the list as found before the run (`finally`), whatever the hooks installed or
    removed meanwhile and however the run ended -/
def trigsAfterRunG (cfg : Cfg) (trigs : List Trig) (g : GScript) : List Trig :=
  if Gen.coreRunResetsTriggers then handBack (startTrigs trigs) (actuatorRunG cfg trigs g).trigsLeft
  else (actuatorRunG cfg trigs g).trigsLeft

/-! ### scripts -/

def HStmt.opOf : HStmt → Option OpSpec
  | .op o => some o
  | _ => none

/-- a script of `Demeter/Actuator.lean` as a general script -/
def ofScript (sc : Script) : GScript :=
  { init := sc.init.map .op,
    bar := fun row =>
      { before := (sc.before row).map .op, fire := fun i => (sc.fire row i).map .op, openCb := fun m => (sc.openCb row m).map .op,
        on := (sc.on row).map .op, after := (sc.after row).map .op, upd := sc.upd row, notify := fun t => (sc.notify row t).map .op },
    fuel := sc.fuel, tfuel := 0 }

/-- the first `j` statements of a hook body, then `raise e` -/
def cutBody (j : Nat) (e : PyErr) (body : List HStmt) : List HStmt := body.take j ++ [.boom e]

/-- what a hook's body does to `strategy.triggers` (when nothing raises) -/
def HStmt.mutOf : HStmt → Option TMut
  | .tadd t => some (.add t)
  | .tdel id => some (.del id)
  | _ => none

def mutsOf (body : List HStmt) : List TMut := body.filterMap HStmt.mutOf

def HStmt.isBoom : HStmt → Bool
  | .boom _ => true
  | _ => false

end Demeter.Core
