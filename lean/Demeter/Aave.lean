/-
  Demeter.Aave — the Aave v3 market (`demeter/aave/market.py`) as a state machine:
  `step cx env s op = (outcome, state the code leaves behind)`.

  Reads are operations too (they may fill caches); `newBar` is `set_market_status` (the caller supplies the
  next bar's `Env`); `update` is the end-of-bar liquidation.
-/
import Demeter.Aave.Basic
import Demeter.Aave.Views
import Demeter.Aave.Ops
import Demeter.Aave.Liq
import Demeter.Aave.Spec
namespace Demeter.Aave
open Demeter

/-- the public reads -/
inductive View
  | suppliesValue | totalSupplyValue | collateralValue | totalCollateralValue
  | borrowsValue | totalBorrowsValue | supplies | borrows
  | liquidationThreshold | maxLtv | ltv | healthFactor
  | supplyApy | borrowApy | totalApy | marketBalance
  | getSupply (tok : String) | getBorrow (tok : String) | maxBorrowAmount (tok : String)
  deriving DecidableEq, Repr

inductive Op
  | supply (tok : String) (amount : Rat) (coll : Bool)
  | withdraw (tok : String) (amount : Option Rat)
  | borrow (tok : String) (amount : Option Rat)
  | repay (tok : String) (amount : Option Rat) (withColl : Bool) (collTok : Option String)
  | changeCollateral (tok : String) (coll : Bool)
  | update
  | read (v : View)
  | newBar
  deriving DecidableEq, Repr

/-- what a call returns -/
inductive Val
  | unit
  | rat (r : Rat)
  | xrat (x : XRat)
  | amap (m : AList String Rat)
  | smap (m : AList String SupplyV)
  | bmap (m : AList String BorrowV)
  | sup (v : SupplyV)
  | bor (v : BorrowV)
  | bal (b : Balance)
  deriving DecidableEq, Repr

def mapM' {α β : Type} (f : α → β) (m : M α) : M β := fun s =>
  match m s with
  | (.ok a, s') => (.ok (f a), s')
  | (.error e, s') => (.error e, s')

/-- one public read -/
def readView (cx : ACtx) (env : Env) : View → M Val
  | .suppliesValue => mapM' .amap (suppliesValue cx env)
  | .totalSupplyValue => mapM' .rat (totalSupplyValue cx env)
  | .collateralValue => mapM' .amap (collateralValue cx env)
  | .totalCollateralValue => mapM' .rat (totalCollateralValue cx env)
  | .borrowsValue => mapM' .amap (borrowsValue cx env)
  | .totalBorrowsValue => mapM' .rat (totalBorrowsValue cx env)
  | .supplies => mapM' .smap (suppliesView cx env)
  | .borrows => mapM' .bmap (borrowsView cx env)
  | .liquidationThreshold => mapM' .xrat (liquidationThreshold cx env)
  | .maxLtv => mapM' .xrat (maxLtv cx env)
  | .ltv => mapM' .xrat (ltvView cx env)
  | .healthFactor => mapM' .xrat (healthFactor cx env)
  | .supplyApy => mapM' .rat (supplyApy cx env)
  | .borrowApy => mapM' .rat (borrowApy cx env)
  | .totalApy => mapM' .rat (totalApy cx env)
  | .marketBalance => mapM' .bal (marketBalance cx env)
  | .getSupply k => mapM' .sup (getSupply cx env k)
  | .getBorrow k => mapM' .bor (getBorrow cx env k)
  | .maxBorrowAmount k => mapM' .rat (maxBorrowAmount cx env k)

/-- the same view recomputed from scratch from raw positions -/
def specView (cx : ACtx) (env : Env) (sup : AList String SupplyInfo) (bor : AList String BorrowInfo) : View → Res Val
  | .suppliesValue => .amap <$> specSupAmt cx env sup
  | .totalSupplyValue => .rat <$> specTotalSupply cx env sup
  | .collateralValue => .amap <$> specColl cx env sup
  | .totalCollateralValue => .rat <$> specTotalColl cx env sup
  | .borrowsValue => .amap <$> specBorAmt cx env bor
  | .totalBorrowsValue => .rat <$> specTotalBorrows cx env bor
  | .supplies => .smap <$> specSupplies cx env sup
  | .borrows => .bmap <$> specBorrows cx env bor
  | .liquidationThreshold => .xrat <$> specLiqThreshold cx env sup
  | .maxLtv => .xrat <$> specMaxLtv cx env sup
  | .ltv => .xrat <$> specLtv cx env sup bor
  | .healthFactor => .xrat <$> specHealthFactor cx env sup bor
  | .supplyApy => .rat <$> specSupplyApy cx env sup
  | .borrowApy => .rat <$> specBorrowApy cx env bor
  | .totalApy => .rat <$> specTotalApy cx env sup bor
  | .marketBalance => .bal <$> specBalance cx env sup bor
  | .getSupply k => .sup <$> specGetSupply cx env sup k
  | .getBorrow k => .bor <$> specGetBorrow cx env bor k
  | .maxBorrowAmount k => .rat <$> specMaxBorrowAmount cx env sup bor k

/-- `set_market_status`: all five caches are reset and `has_update` cleared (the new `Env` is the caller's) -/
def newBar : M Unit := M.modify (fun s =>
  { s with borAmtC := .fresh, supAmtC := .fresh, collC := .fresh, borC := .fresh, supC := .fresh, hasUpdate := false })

def unitM (m : M Unit) : M Val := mapM' (fun _ => Val.unit) m

/-- one call on the market object -/
def step (cx : ACtx) (env : Env) (s : St) : Op → Res Val × St
  | .supply t a c => unitM (supply cx env t a c) s
  | .withdraw t a => unitM (withdraw cx env t a) s
  | .borrow t a => unitM (borrow cx env t a) s
  | .repay t a w c => unitM (repay cx env t a w c) s
  | .changeCollateral t c => unitM (changeCollateral cx env t c) s
  | .update => unitM (liquidate cx env) s
  | .read v => readView cx env v s
  | .newBar => unitM newBar s

end Demeter.Aave
