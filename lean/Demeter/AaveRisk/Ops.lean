/-
  Demeter.AaveRisk.Ops — the user operations of `AaveV3Market` whose acceptance depends on the risk figures:
  `borrow`, `withdraw`, `change_collateral`, and the helpers `get_max_borrow_amount`, `get_max_withdraw_amount`
  (market.py; `AaveV3CoreLib.get_max_borrow_value`, `get_min_withdraw_kept_amount` in core.py).

  Mirrors the code as repaired: non-positive amounts are refused first (`require(amount > 0)`), `withdraw` undoes its
  trial deduction before raising, `get_max_withdraw_amount` never exceeds the supplied amount.
  A rejected call leaves the portfolio as it was (that is C04's statement, checked there); this model returns the
  portfolio only for accepted calls.
-/
import Demeter.AaveRisk.Basic
namespace Demeter.AaveRisk
open Demeter

/-- why a call was refused (the `require` message / exception site) -/
inductive Cause
  | invalidAmount      -- "invalid amount"
  | borrowDisabled     -- "borrow is not enabled for …"
  | noCollateral       -- "collateral balance is zero"
  | ltvZero            -- "ltv validation failed"
  | hfLow              -- borrow: "health factor lower than liquidation threshold"
  | notCovered         -- "collateral cannot cover new borrow"
  | overBalance        -- "not enough available user balance"
  | hfLowAfter         -- withdraw / change_collateral: "health factor lower than liquidation threshold"
  | notSupplied        -- KeyError: `_supplies[token]`
  | cannotCollateral   -- change_collateral(…, True): "Can not supplied as collateral"
  | arith              -- decimal.DivisionByZero / InvalidOperation
deriving DecidableEq, Repr

def Cause.exc : Cause → Exc
  | .notSupplied => .keyError
  | .arith => .arith
  | _ => .assertion

def Cause.name : Cause → String
  | .invalidAmount => "invalidAmount"
  | .borrowDisabled => "borrowDisabled"
  | .noCollateral => "noCollateral"
  | .ltvZero => "ltvZero"
  | .hfLow => "hfLow"
  | .notCovered => "notCovered"
  | .overBalance => "overBalance"
  | .hfLowAfter => "hfLowAfter"
  | .notSupplied => "notSupplied"
  | .cannotCollateral => "cannotCollateral"
  | .arith => "arith"

/-- `AaveV3CoreLib.get_max_borrow_value` then `/ price` (`get_max_borrow_amount`).
    With no collateral value `max_ltv` is `inf` and `0 * inf` raises `InvalidOperation`. -/
def maxBorrowAmount (cx : NumCtx) (p : Portfolio) (row : Row) : Except Cause Rat :=
  let tc := totalCollateral cx p
  if tc = 0 then .error .arith else
  let m := cx.div (weightedLtv cx p) tc
  let value := cx.mul (cx.sub (cx.mul tc m) (totalDebt cx p)) Gen.arMaxBorrowMargin
  if row.price = 0 then .error .arith else .ok (cx.div value row.price)

/-- `borrows[t].base_amount += x` on an existing entry, or a new entry `BorrowInfo(0, …)` then `+= x` -/
def addDebt (cx : NumCtx) (ds : List Debt) (tok : String) (row : Row) (x : Rat) : List Debt :=
  match findDebt? ds tok with
  | some d => setDebtBase ds tok (cx.add d.base x)
  | none => ds ++ [{ tok := tok, base := cx.add 0 x, row := row }]

/-- `borrow(token, amount)`; `amount? = none` is `amount=None` (borrow the helper's maximum).
    Returns the new portfolio and the amount credited to the wallet. -/
def borrow (cx : NumCtx) (p : Portfolio) (tok : String) (row : Row) (amount? : Option Rat) :
    Except Cause (Portfolio × Rat) := do
  let amount ← match amount? with
    | some a => pure a
    | none => maxBorrowAmount cx p row
  if ¬ (0 < amount) then .error .invalidAmount else
  if row.canBorrow = false then .error .borrowDisabled else
  let cb := totalCollateral cx p
  if cb = 0 then .error .noCollateral else
  let m := cx.div (weightedLtv cx p) cb            -- `max_ltv` (finite because `cb ≠ 0`)
  if m = 0 then .error .ltvZero else
  if (healthFactor cx p).gtB Gen.arHfLiqThreshold = false then .error .hfLow else
  let value := cx.mul amount row.price
  let needed := cx.div (cx.add (totalDebt cx p) value) m
  if ¬ (needed ≤ cb) then .error .notCovered else
  if row.borIndex = 0 then .error .arith else
  let base := cx.div amount row.borIndex
  .ok ({ p with debts := addDebt cx p.debts tok row base }, amount)

/-- the portfolio `withdraw` evaluates the health factor on: `base_amount -= amount / liquidity_index` -/
def withdrawTrial (cx : NumCtx) (p : Portfolio) (s : Supply) (amount : Rat) : Portfolio :=
  { p with supplies := setSupplyBase p.supplies s.tok (cx.sub s.base (cx.div amount s.row.liqIndex)) }

/-- `withdraw(token, amount)`; `amount? = none` withdraws the whole supply.
    Returns the new portfolio and the amount credited to the wallet. -/
def withdraw (cx : NumCtx) (p : Portfolio) (tok : String) (amount? : Option Rat) : Except Cause (Portfolio × Rat) :=
  match findSupply? p.supplies tok with
  | none => .error .notSupplied
  | some s =>
    let amount := match amount? with
      | some a => a
      | none => s.amount cx
    if ¬ (0 < amount) then .error .invalidAmount else
    if ¬ (amount ≤ s.amount cx) then .error .overBalance else
    if s.row.liqIndex = 0 then .error .arith else
    if s.coll = true ∧ (healthFactor cx (withdrawTrial cx p s amount)).ltB Gen.arHfLiqThreshold = true then
      .error .hfLowAfter else
    let newBase := subBase cx s.base (cx.div amount s.row.liqIndex)
    .ok ({ p with supplies := putSupplyBase p.supplies tok newBase }, amount)

/-- `change_collateral(token, flag)` -/
def changeCollateral (cx : NumCtx) (p : Portfolio) (tok : String) (flag : Bool) : Except Cause Portfolio :=
  match findSupply? p.supplies tok with
  | none => .error .notSupplied
  | some s =>
    if s.coll = flag then .ok p else
    -- as repaired: the rule of `supply` — a token the risk table does not admit cannot be switched on
    if flag = true ∧ s.row.canColl = false then .error .cannotCollateral else
    let p' : Portfolio := { p with supplies := setSupplyColl p.supplies tok flag }
    if flag = false ∧ (healthFactor cx p').ltB Gen.arHfLiqThreshold = true then .error .hfLowAfter
    else .ok p'

/-- the loop of `get_min_withdraw_kept_amount`: `Σ LT × value` over the collaterals other than `tok` -/
def othersLt (cx : NumCtx) (p : Portfolio) (tok : String) : Rat :=
  dsum cx (((collaterals p).filter (fun s => decide (s.tok ≠ tok))).map (fun s => cx.mul s.row.lt (s.value cx)))

/-- `AaveV3CoreLib.get_min_withdraw_kept_amount` for a supplied token -/
def minWithdrawKept (cx : NumCtx) (p : Portfolio) (s : Supply) : Except Cause Rat :=
  if s.coll = false then .ok 0 else
  if s.row.lt = 0 then .error .arith else
  let amount := cx.div (cx.sub (cx.mul Gen.arHfLiqThreshold (totalDebt cx p)) (othersLt cx p s.tok)) s.row.lt
  if s.row.price = 0 then .error .arith else .ok (cx.div amount s.row.price)

/-- `get_max_withdraw_amount(token)` (repaired: the kept amount is floored at 0) -/
def maxWithdrawAmount (cx : NumCtx) (p : Portfolio) (tok : String) : Except Cause Rat :=
  match findSupply? p.supplies tok with
  | none => .error .notSupplied
  | some s => do
    let kept ← minWithdrawKept cx p s
    pure (cx.sub (s.amount cx) (if kept > 0 then kept else 0))

end Demeter.AaveRisk
