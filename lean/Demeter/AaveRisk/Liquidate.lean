/-
  Demeter.AaveRisk.Liquidate — `AaveV3Market.update → _liquidate → _do_liquidate` (market.py).

  Mirrors the code as repaired by the `fix:` commits of this component:
    * the seized collateral is scaled with the collateral token's own liquidity index,
    * the loop ends (`break`) once no unvisited debt is left,
    * the first unvisited debt is always a candidate (the `Decimal(10e21)` start value no longer hides
      debts worth more than 10^22),
    * a capped seizure never scales the repayment *up* (`min`), and `variable_delt < actual_debt_to_liquidate`
      is checked before the collateral is touched.
-/
import Demeter.AaveRisk.Basic
import Demeter.Wallet
namespace Demeter.AaveRisk
open Demeter

/-- the fields of `LiquidationAction` -/
structure LiqAction where
  collTok : String
  debtTok : String
  /-- `delt_to_cover` (the value handed in by `_liquidate`) -/
  toCover : Rat
  /-- `collateral_used` -/
  collUsed : Rat
  /-- `variable_delt_liquidated` -/
  debtRepaid : Rat
  hfBefore : XRat
  hfAfter : XRat
  /-- `collateral_after` -/
  collAfter : Rat
  /-- `variable_debt_after` -/
  debtAfter : Rat
  /-- branch tags (not part of the record): close factor was 1/2; seizure was capped by the balance -/
  half : Bool
  capped : Bool
deriving DecidableEq, Repr

/-- the debt-selection loop of `_liquidate`: the smallest value among the unvisited debts, the *last* one on ties
    (`>=`); `none` when every debt has been visited -/
def pickDebt (cx : NumCtx) (ds : List Debt) (visited : List String) : Option (Debt × Rat) :=
  ds.foldl (fun (acc : Option (Debt × Rat)) d =>
    let v := d.value cx
    let better : Bool := match acc with
      | none => true
      | some (_, m) => decide (v ≤ m)
    if better && !visited.contains d.tok then some (d, v) else acc) none

/-- the collateral-selection loop: the largest value among the collateral supplies, the *last* one on ties (`<=`) -/
def pickColl (cx : NumCtx) (ss : List Supply) : Option Supply × Rat :=
  ss.foldl (fun (acc : Option Supply × Rat) s =>
    let v := s.value cx
    if s.coll && decide (acc.2 ≤ v) then (some s, v) else acc) (none, Gen.arLiqCollStart)

inductive StepOut
  /-- the liquidation went through -/
  | done (p : Portfolio) (a : LiqAction)
  /-- `AssertionError` from a `require`: caught by `_liquidate`, nothing was changed -/
  | rejected
  /-- any other exception: propagates out of `update`; `p` is what the code leaves behind -/
  | raised (e : Exc) (p : Portfolio)
deriving Repr

/-- `_do_liquidate(collateral_token, delt_token, delt_value_to_cover)` for entries `c ∈ p.supplies`, `d ∈ p.debts` -/
def doLiquidate (cx : NumCtx) (p : Portfolio) (c : Supply) (d : Debt) (cover : Rat) : StepOut :=
  let oldHf := healthFactor cx p
  let varDebt := d.amount cx
  let half : Bool := oldHf.gtB Gen.arCloseFactorHfThreshold
  let cf := if half then Gen.arDefaultCloseFactor else Gen.arMaxCloseFactor
  let maxLiq := cx.mul varDebt cf
  let toLiq := if cover > maxLiq then maxLiq else cover
  if c.row.lt = 0 ∨ c.coll = false then .rejected            -- "collateral cannot be liquidated"
  else if varDebt = 0 then .rejected                          -- "specified currency not borrowed by user"
  else
  let bal := cx.mul c.base c.row.liqIndex
  if c.row.price = 0 then .raised .arith p else
  let should := cx.div (cx.mul d.row.price toLiq) c.row.price
  let onePlus := cx.add 1 c.row.bonus
  let maxColl := cx.mul should onePlus
  let capped : Bool := decide (maxColl > bal)
  if capped ∧ cx.mul d.row.price onePlus = 0 then .raised .arith p else
  let collUsed := if capped then bal else maxColl
  -- `min(actual_debt_to_liquidate, scaled)`: the repayment is scaled down, never up
  let scaled := cx.div (cx.mul c.row.price bal) (cx.mul d.row.price onePlus)
  let repaid := if capped then (if scaled < toLiq then scaled else toLiq) else toLiq
  if varDebt < repaid then .raised .demeter p else           -- checked before anything is changed
  if c.row.liqIndex = 0 then .raised .arith p else
  let newCollBase := subBase cx c.base (cx.div collUsed c.row.liqIndex)
  let supplies' := putSupplyBase p.supplies c.tok newCollBase
  let p1 : Portfolio := { p with supplies := supplies' }
  if d.row.borIndex = 0 then .raised .arith p1 else
  let newDebtBase := subBase cx d.base (cx.div repaid d.row.borIndex)
  let p2 : Portfolio := { supplies := supplies', debts := putDebtBase p.debts d.tok newDebtBase }
  .done p2 {
    collTok := c.tok, debtTok := d.tok, toCover := cover, collUsed := collUsed, debtRepaid := repaid,
    hfBefore := oldHf, hfAfter := healthFactor cx p2,
    collAfter := cx.mul newCollBase c.row.liqIndex,
    debtAfter := cx.mul newDebtBase d.row.borIndex,
    half := half, capped := capped }

structure LiqResult where
  p : Portfolio
  /-- the `LiquidationAction`s recorded, oldest first -/
  actions : List LiqAction
  /-- `has_liquidated` -/
  visited : List String
  /-- the exception that left `update`, if any -/
  err : Option Exc
  /-- the model's fuel ran out (never happens with fuel = number of debts, `C12_fuel_suffices`) -/
  outOfFuel : Bool
deriving Repr

/-- the `while 0 < health_factor < 1` loop of `_liquidate` -/
def liqLoop (cx : NumCtx) : Nat → Portfolio → List String → List LiqAction → LiqResult
  | fuel, p, vis, acts =>
    let hf := healthFactor cx p
    if !(hf.gtB 0 && hf.ltB Gen.arHfLiqThreshold) then ⟨p, acts, vis, none, false⟩ else
    match pickDebt cx p.debts vis with
    | none => ⟨p, acts, vis, none, false⟩                              -- `break`: every debt visited
    | some (d, v) =>
      match fuel with
      | 0 => ⟨p, acts, vis, none, true⟩
      | fuel + 1 =>
        match (pickColl cx p.supplies).1 with
        | none => ⟨p, acts, vis ++ [d.tok], some .attribute, false⟩   -- `collateral_token.name` on None
        | some c =>
          match doLiquidate cx p c d v with
          | .done p' a => liqLoop cx fuel p' (vis ++ [d.tok]) (acts ++ [a])
          | .rejected => liqLoop cx fuel p (vis ++ [d.tok]) acts
          | .raised e p' => ⟨p', acts, vis ++ [d.tok], some e, false⟩

/-- `AaveV3Market.update()` -/
def liquidate (cx : NumCtx) (p : Portfolio) : LiqResult := liqLoop cx (p.debts.length + 1) p [] []

/-- the broker's wallet next to the market's positions -/
structure Account where
  wallet : Wallet
  pf : Portfolio

/-- `AaveV3Market.update()` seen from the broker: `_liquidate` / `_do_liquidate` never call
    `broker.add_to_balance` / `subtract_from_balance` -/
def update (cx : NumCtx) (acc : Account) : Account × LiqResult :=
  let r := liquidate cx acc.pf
  ({ acc with pf := r.p }, r)

end Demeter.AaveRisk
