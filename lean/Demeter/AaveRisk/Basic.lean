/-
  Demeter.AaveRisk.Basic — the data the risk logic of `AaveV3Market` (demeter/aave/market.py, core.py) reads,
  and the risk figures computed from it.

  The model is *pure*: a portfolio is the pair of dicts `_supplies` / `_borrows` (insertion-ordered lists,
  because `_liquidate`'s tie-breaks follow dict order), and every entry carries the row of its own token
  for the current bar (`market_status.data[token]`, `_price_status[token]`, `risk_parameters.loc[token]`).
  The model's domain is therefore "every token that occurs has a row": a `KeyError` from a token that is
  missing in the bar's data has no counterpart here.  The five `DictCache`s of the class are not part of
  this model (they are C13's subject); every figure below is the recomputation from the raw dicts.
-/
import Demeter.Num
import Demeter.Gen.ConstsAaverisk
namespace Demeter.AaveRisk
open Demeter

/-- one token's data for the current bar -/
structure Row where
  /-- `market_status.data[t].liquidity_index` -/
  liqIndex : Rat
  /-- `market_status.data[t].variable_borrow_index` -/
  borIndex : Rat
  /-- `_price_status[t]` -/
  price : Rat
  /-- `risk_parameters.loc[t].baseLTVasCollateral` -/
  ltv : Rat
  /-- `risk_parameters.loc[t].reserveLiquidationThreshold` -/
  lt : Rat
  /-- `risk_parameters.loc[t].reserveLiquidationBonus` (already `(x - 10000) / 10000`) -/
  bonus : Rat
  /-- `usageAsCollateralEnabled` -/
  canColl : Bool
  /-- `borrowingEnabled` -/
  canBorrow : Bool
deriving DecidableEq, Repr

/-- an entry of `_supplies`: `SupplyInfo(base_amount, collateral, …)` keyed by token -/
structure Supply where
  tok : String
  base : Rat
  coll : Bool
  row : Row
deriving DecidableEq, Repr

/-- an entry of `_borrows`: `BorrowInfo(base_amount, …)` keyed by token -/
structure Debt where
  tok : String
  base : Rat
  row : Row
deriving DecidableEq, Repr

structure Portfolio where
  supplies : List Supply
  debts : List Debt
deriving DecidableEq, Repr

/-- `Decimal` or `Decimal("inf")` (`none`), the result type of `AaveV3CoreLib.safe_div` -/
abbrev XRat := Option Rat

/-- `x < c` for a possibly infinite `x` -/
def XRat.ltB (x : XRat) (c : Rat) : Bool :=
  match x with
  | some v => decide (v < c)
  | none => false

/-- `x > c` for a possibly infinite `x` -/
def XRat.gtB (x : XRat) (c : Rat) : Bool :=
  match x with
  | some v => decide (c < v)
  | none => true

/-- `AaveV3CoreLib.safe_div` -/
def safeDiv (cx : NumCtx) (a b : Rat) : XRat := if b = 0 then none else some (cx.div a b)

/-- Python's `sum(xs)` / `acc = 0; for x in xs: acc += x` on Decimals: left fold, every addition rounded -/
def dsum (cx : NumCtx) (xs : List Rat) : Rat := xs.foldl (fun a x => cx.add a x) 0

/-- `Supply.amount = base_amount * liquidity_index` -/
def Supply.amount (cx : NumCtx) (s : Supply) : Rat := cx.mul s.base s.row.liqIndex
/-- `supplies_value[k] = get_amount(base, liquidity_index) * price` -/
def Supply.value (cx : NumCtx) (s : Supply) : Rat := cx.mul (s.amount cx) s.row.price
/-- `Borrow.amount = base_amount * variable_borrow_index` -/
def Debt.amount (cx : NumCtx) (d : Debt) : Rat := cx.mul d.base d.row.borIndex
/-- `borrows_value[k]` -/
def Debt.value (cx : NumCtx) (d : Debt) : Rat := cx.mul (d.amount cx) d.row.price

/-- the entries of `collateral_value`, in `_supplies` order -/
def collaterals (p : Portfolio) : List Supply := p.supplies.filter (·.coll)

/-- `total_supply_value` -/
def totalSupply (cx : NumCtx) (p : Portfolio) : Rat := dsum cx (p.supplies.map (·.value cx))
/-- `total_collateral_value` = `sum(collateral_value.values())` -/
def totalCollateral (cx : NumCtx) (p : Portfolio) : Rat := dsum cx ((collaterals p).map (·.value cx))
/-- `total_borrows_value` -/
def totalDebt (cx : NumCtx) (p : Portfolio) : Rat := dsum cx (p.debts.map (·.value cx))

/-- `Σ value × reserveLiquidationThreshold` over the collaterals (numerator of the health factor) -/
def weightedLt (cx : NumCtx) (p : Portfolio) : Rat :=
  dsum cx ((collaterals p).map (fun s => cx.mul (s.value cx) s.row.lt))
/-- `Σ value × baseLTVasCollateral` over the collaterals -/
def weightedLtv (cx : NumCtx) (p : Portfolio) : Rat :=
  dsum cx ((collaterals p).map (fun s => cx.mul (s.value cx) s.row.ltv))

/-- `AaveV3Market.health_factor` (`AaveV3CoreLib.health_factor`) -/
def healthFactor (cx : NumCtx) (p : Portfolio) : XRat := safeDiv cx (weightedLt cx p) (totalDebt cx p)
/-- `AaveV3Market.max_ltv` (`AaveV3CoreLib.max_ltv`) -/
def maxLtv (cx : NumCtx) (p : Portfolio) : XRat := safeDiv cx (weightedLtv cx p) (totalCollateral cx p)
/-- `AaveV3Market.liquidation_threshold` (`AaveV3CoreLib.total_liquidation_threshold`) -/
def liqThreshold (cx : NumCtx) (p : Portfolio) : XRat := safeDiv cx (weightedLt cx p) (totalCollateral cx p)
/-- `AaveV3Market.ltv` -/
def ltv (cx : NumCtx) (p : Portfolio) : XRat :=
  if totalSupply cx p = 0 then none else some (cx.div (totalDebt cx p) (totalSupply cx p))
/-- supplies minus debts, in USD (what `get_market_balance().net_value` quantises) -/
def netValue (cx : NumCtx) (p : Portfolio) : Rat := cx.sub (totalSupply cx p) (totalDebt cx p)

/-- `helper.sub_base_amount`: results below `MIN_TOKEN_VALUE` (also negative ones) are snapped to 0 -/
def subBase (cx : NumCtx) (old v : Rat) : Rat :=
  let n := cx.sub old v
  if n < Gen.arMinTokenValue then 0 else n

/-! ### dict operations by key (first match; with unique keys this is Python's dict) -/

def findSupply? (ss : List Supply) (t : String) : Option Supply := ss.find? (fun s => s.tok = t)
def findDebt? (ds : List Debt) (t : String) : Option Debt := ds.find? (fun d => d.tok = t)

/-- `d[k].field = …` on the first entry satisfying `q` -/
def updFirst {α : Type} (q : α → Bool) (f : α → α) : List α → List α
  | [] => []
  | x :: r => if q x then f x :: r else x :: updFirst q f r

def setSupplyBase (ss : List Supply) (t : String) (b : Rat) : List Supply :=
  updFirst (fun s => decide (s.tok = t)) (fun s => { s with base := b }) ss

def setSupplyColl (ss : List Supply) (t : String) (c : Bool) : List Supply :=
  updFirst (fun s => decide (s.tok = t)) (fun s => { s with coll := c }) ss

/-- `del _supplies[t]` -/
def delSupply (ss : List Supply) (t : String) : List Supply := ss.eraseP (fun s => decide (s.tok = t))

def setDebtBase (ds : List Debt) (t : String) (b : Rat) : List Debt :=
  updFirst (fun d => decide (d.tok = t)) (fun d => { d with base := b }) ds

/-- `del _borrows[t]` -/
def delDebt (ds : List Debt) (t : String) : List Debt := ds.eraseP (fun d => decide (d.tok = t))

/-- `base_amount = sub_base_amount(..)` followed by `del` when it became 0 -/
def putSupplyBase (ss : List Supply) (t : String) (b : Rat) : List Supply :=
  if b = 0 then delSupply ss t else setSupplyBase ss t b

def putDebtBase (ds : List Debt) (t : String) (b : Rat) : List Debt :=
  if b = 0 then delDebt ds t else setDebtBase ds t b

/-- `get_supply(t).amount`, 0 when `t` is not supplied -/
def supplyAmountOf (cx : NumCtx) (p : Portfolio) (t : String) : Rat :=
  match findSupply? p.supplies t with
  | some s => s.amount cx
  | none => 0

/-- `get_borrow(t).amount`, 0 when `t` is not borrowed -/
def debtAmountOf (cx : NumCtx) (p : Portfolio) (t : String) : Rat :=
  match findDebt? p.debts t with
  | some d => d.amount cx
  | none => 0

/-- exceptions the modelled code can raise -/
inductive Exc
  /-- `AssertionError` from `require` -/
  | assertion
  /-- `KeyError`: the token has no entry in `_supplies` / `_borrows` -/
  | keyError
  /-- `decimal.DivisionByZero` / `decimal.InvalidOperation` (0/0, 0·inf) -/
  | arith
  /-- `AttributeError` (`None.name`) -/
  | attribute
  /-- `DemeterError` -/
  | demeter
deriving DecidableEq, Repr

def Exc.name : Exc → String
  | .assertion => "AssertionError"
  | .keyError => "KeyError"
  | .arith => "ArithmeticError"
  | .attribute => "AttributeError"
  | .demeter => "DemeterError"

end Demeter.AaveRisk
