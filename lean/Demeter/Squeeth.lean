/-
  Demeter.Squeeth — model of demeter/squeeth/market.py (SqueethMarket: vaults, the 150 % rule, TWAP window,
  LP collateral, liquidation, balance) next to the few UniLpMarket facts it touches (positions map with
  liquidity / pending amounts / `transferred`, remove_liquidity + collect_fee as used by `_redeem_uni_token`).

  The model mirrors the code statement by statement, including "mutate, then check" orders: every operation body
  returns the state the code leaves behind together with the error it raised (`Res`).  The code wraps the public
  vault operations in a transaction (`SqueethMarket._atomic` / `_VaultTransaction`): on error vaults, wallet, pool
  positions and the action list are restored — that wrapper is `atomic` below; `step` is the operation as called,
  `stepBody` the raw body.

  Fixed modelling decisions (see harness/c14.py ASSUMPTIONS):
  * the oSQTH/WETH pool has token0 = WETH = quote token, token1 = oSQTH (mainnet pool and the repo's tests);
    `_get_effective_collateral_in_eth` hard-codes that orientation;
  * `Broker.allow_negative_balance = False` (default);
  * the geometric mean of the TWAP window is an oracle `Env.mean` (float log/pow); which rows enter is modelled;
  * `Vault.id` always equals its key (`Vault(vault_key.id)`), so it is not stored separately.

  The long side (`buy_squeeth` / `sell_squeeth`) is not re-modelled: the two wrappers convert their arguments and call
  `UniLpMarket.buy` / `sell` of the oSQTH/WETH pool, and so does the model — `Demeter.Uni.buy` / `Demeter.Uni.sell` run on the
  pool's view of this state (`uniView`: same wallet, the pool's status row), and wallet + action records are carried back.
-/
import Demeter.LiqMath
import Demeter.Wallet
import Demeter.Uni.Ops
import Demeter.Uni.Kernel
import Demeter.Gen.ConstsSqueeth
namespace Demeter.Squeeth
open Demeter Gen

/-- `PositionInfo(lower_tick, upper_tick)` -/
abbrev PosKey := Int × Int

/-- the `Position` fields the vault logic reads or writes -/
structure UPos where
  liquidity : Nat
  pending0 : Rat
  pending1 : Rat
  transferred : Bool
deriving DecidableEq, Repr

structure Vault where
  coll : Rat
  short : Rat
  nft : Option PosKey
deriving DecidableEq, Repr

/-- action records (`_record_action`), fields in the order of the dataclasses -/
inductive Action
  | addVault (id count : Nat)
  | updShort (id : Nat) (amount after : Rat)
  | updColl (id : Nat) (amount after : Rat)
  | depositLp (id : Nat) (pos : PosKey)
  | withdrawLp (id : Nat) (pos : PosKey)
  | reduceDebt (id : Nat) (pos : PosKey) (wEth wOsqth burn excess bounty shortAfter collAfter : Rat)
  | liquidation (id : Nat) (amount shortAfter pay collAfter : Rat)
  | uniRemove (pos : PosKey) (base quote : Rat) (removed remain : Nat) (baseBal quoteBal : Rat)
  | uniCollect (pos : PosKey) (base quote : Rat) (baseBal quoteBal : Rat)
  /-- a `BuyAction` / `SellAction` of the pool (`Demeter.Uni.Act`): class name and the numbers it carries -/
  | uniTrade (kind : String) (nums : List Rat)
deriving DecidableEq, Repr

structure State where
  wallet : Wallet
  vaults : AList Nat Vault
  maxId : Nat
  positions : AList PosKey UPos
  log : List Action
deriving DecidableEq, Repr

/-- one row of `SqueethMarket.data`: minute offset and the two pool prices -/
structure Row where
  t : Int
  weth : Rat
  osqth : Rat
deriving DecidableEq, Repr

inductive Tok | weth | osqth
deriving DecidableEq, Repr

def Row.price (r : Row) : Tok → Rat
  | .weth => r.weth
  | .osqth => r.osqth

/-- what the markets read during one bar -/
structure Env where
  /-- `_market_status.data`: norm_factor, WETH (eth/usd), OSQTH (osqth/eth) of the current row -/
  nf : Rat
  weth : Rat
  osqth : Rat
  /-- `_market_status.timestamp` in minutes (None in the unit tests) -/
  now : Option Int
  /-- `self.data`, ascending in time -/
  rows : List Row
  /-- the oSQTH/WETH pool's `market_status.data.price` and `is_open` -/
  uniPrice : Rat
  uniOpen : Bool
  /-- ORACLE: `helper.calc_twap_price` (geometric mean through float log/pow) of the selected prices -/
  mean : List Rat → Rat
  /-- the pool's `pool_info.fee_rate` (`UniV3Pool(weth, osqth, 0.3, weth)`: 0.3 % — the mainnet oSQTH/WETH pool) -/
  uniFee : Rat := 3 / 1000

inductive Err
  | demeter (cause : String)
  | key (what : String)
  | assertion (cause : String)
  /-- `TypeError` (an amount that is `None` reaches the pool's arithmetic) -/
  | type (cause : String)
  /-- raised inside `UniLpMarket.buy` / `sell` / `swap` -/
  | uni (e : Uni.Err)
deriving DecidableEq, Repr

def Err.cls : Err → String
  | .demeter _ => "DemeterError"
  | .key _ => "KeyError"
  | .assertion _ => "AssertionError"
  | .type _ => "TypeError"
  | .uni e => e.name

def Err.cause : Err → String
  | .demeter c => c
  | .key c => "key:" ++ c
  | .assertion c => c
  | .type c => c
  | .uni e => "uni:" ++ e.name

/-- outcome of an operation: the error raised (if any), the state left behind, the returned numbers -/
structure Res where
  err : Option Err
  st : State
  out : List Rat := []

def Res.ok (s : State) (out : List Rat := []) : Res := ⟨none, s, out⟩
def Res.fail (e : Err) (s : State) : Res := ⟨some e, s, []⟩

/-- sequencing: an exception ends the operation with the state reached so far -/
def Res.andThen (r : Res) (f : State → Res) : Res :=
  match r.err with
  | some _ => r
  | none => f r.st

def State.record (s : State) (a : Action) : State := { s with log := s.log ++ [a] }
def State.setVault (s : State) (k : Nat) (v : Vault) : State := { s with vaults := AList.set s.vaults k v }
def State.setPos (s : State) (k : PosKey) (p : UPos) : State := { s with positions := AList.set s.positions k p }

/-! ### TWAP window (`get_twap_price`) -/

/-- `start = now - timedelta(minutes=TWAP_PERIOD - 1)`, clamped to `data.index[0]` -/
def winStart (e : Env) (now : Int) : Int :=
  let s := now - ((sqTwapPeriod : Int) - (sqTwapBack : Int))
  match e.rows.head? with
  | some r => if s < r.t then r.t else s
  | none => s

/-- `self.data[start:now]`: label slice of a sorted DatetimeIndex, both ends inclusive -/
def window (e : Env) (now : Int) : List Row :=
  e.rows.filter (fun r => decide (winStart e now ≤ r.t) && decide (r.t ≤ now))

def Env.spot (e : Env) : Tok → Rat
  | .weth => e.weth
  | .osqth => e.osqth

/-- `get_twap_price(token)` -/
def twap (e : Env) (tok : Tok) : Rat :=
  match e.now with
  | none => e.spot tok
  | some now => e.mean ((window e now).map (fun r => r.price tok))

/-! ### the pool's sqrt price and position amounts -/

/-- `base_unit_price_to_sqrt_price_x96(price, 18, 18, is_token0_quote=True)` -/
def uniSqrtP (cx : NumCtx) (price : Rat) : Nat :=
  let p := cx.div 1 price
  let a := cx.div p 1        -- / Decimal(10 ** (18 - 18))
  (truncInt (cx.mul (cx.dsqrt a) ((Q96 : Nat) : Rat))).toNat

/-- `UniLpMarket.get_position_amount`: (token0, token1) = (WETH, oSQTH) in the position's liquidity -/
def posAmount (cx : NumCtx) (e : Env) (s : State) (pos : PosKey) : Rat × Rat :=
  match AList.get? s.positions pos with
  | none => (0, 0)
  | some p => closePosition cx (uniSqrtP cx e.uniPrice) pos.1 pos.2 p.liquidity sqWethDecimals sqOsqthDecimals

/-- the LP part of `_get_effective_collateral_in_eth`: WETH in the position (liquidity + pending) plus its oSQTH
    at the *index* price `norm_factor × twap(ETH) / INDEX_SCALE` -/
def lpCollateral (cx : NumCtx) (e : Env) (p : UPos) (amt : Rat × Rat) : Rat :=
  let w := cx.add amt.1 p.pending0
  let q := cx.add amt.2 p.pending1
  let idx := cx.mul (cx.mul (cx.div q sqIndexScale) e.nf) (twap e .weth)
  cx.add w idx

/-- `_get_effective_collateral_in_eth` -/
def effColl (cx : NumCtx) (e : Env) (s : State) (vk : Nat) : Except Err Rat :=
  match AList.get? s.vaults vk with
  | none => .error (.key "vault")
  | some v =>
    match v.nft with
    | none => .ok v.coll
    | some pos =>
      match AList.get? s.positions pos with
      | none => .error (.key "position")      -- `get_position_amount` answers (0, 0), then `positions[pos]` raises
      | some p => .ok (cx.add (lpCollateral cx e p (posAmount cx e s pos)) v.coll)

/-- `osqth_short_amount * norm_factor * twap_eth_price / INDEX_SCALE` -/
def debtEth (cx : NumCtx) (e : Env) (short : Rat) : Rat :=
  cx.div (cx.mul (cx.mul short e.nf) (twap e .weth)) sqIndexScale

/-- `get_vault_status` → (is_above_water, is_dust) -/
def vaultStatus (cx : NumCtx) (e : Env) (s : State) (vk : Nat) : Except Err (Bool × Bool) :=
  match AList.get? s.vaults vk with
  | none => .error (.key "vault")
  | some v =>
    if v.short = 0 then .ok (true, false)
    else
      match effColl cx e s vk with
      | .error er => .error er
      | .ok total =>
        .ok (decide (cx.mul total sqCrDen ≥ cx.mul (debtEth cx e v.short) sqCrNum), decide (total < sqMinDeposit))

/-- `_check_vault` -/
def checkVault (cx : NumCtx) (e : Env) (s : State) (vk : Nat) : Option Err :=
  match vaultStatus cx e s vk with
  | .error er => some er
  | .ok (safe, dust) =>
    if !safe then some (.demeter "unsafe") else if dust then some (.demeter "dust") else none

def checked (cx : NumCtx) (e : Env) (s : State) (vk : Nat) (out : List Rat := []) : Res :=
  match checkVault cx e s vk with
  | some er => .fail er s
  | none => .ok s out

/-! ### wallet -/

def debitW (cx : NumCtx) (s : State) (tok : String) (amount : Rat) : Except Err State :=
  match Wallet.debit cx s.wallet tok amount false with
  | .ok w => .ok { s with wallet := w }
  | .error .insufficient => .error (.assertion "insufficient")
  | .error .unknownToken => .error (.demeter "no-token")

def creditW (cx : NumCtx) (s : State) (tok : String) (amount : Rat) : State :=
  { s with wallet := Wallet.credit cx s.wallet tok amount }

/-! ### vault operations (bodies as written in the code) -/

/-- `deposit`: the vault is credited before the wallet is debited (the transaction wrapper undoes it on failure) -/
def depositBody (cx : NumCtx) (s : State) (vk : Nat) (eth : Rat) : Res :=
  if eth < 0 then .fail (.demeter "negative-deposit") s
  else
  match AList.get? s.vaults vk with
  | none => .fail (.key "vault") s
  | some v =>
    let c := cx.add v.coll eth
    let s1 := s.setVault vk { v with coll := c }
    match debitW cx s1 sqWethName eth with
    | .error er => .fail er s1
    | .ok s2 => .ok (s2.record (.updColl vk eth c))

/-- `_deposit_uni_position` -/
def depositUniBody (s : State) (vk : Nat) (pos : PosKey) : Res :=
  match AList.get? s.positions pos with
  | none => .fail (.demeter "position-not-in-pool") s
  | some p =>
    if p.liquidity = 0 then .fail (.demeter "no-liquidity") s
    else
      match AList.get? s.vaults vk with
      | none => .fail (.key "vault") s
      | some v =>
        if v.nft.isSome then .fail (.demeter "already-has-nft") s
        else
          let s1 := s.setVault vk { v with nft := some pos }
          -- transfer_position_out
          if p.transferred then .fail (.demeter "already-transferred") s1
          else .ok ((s1.setPos pos { p with transferred := true }).record (.depositLp vk pos))

/-- `_withdraw_collateral` (amount given) -/
def withdrawCollBody (cx : NumCtx) (e : Env) (s : State) (vk : Nat) (amount : Rat) : Res :=
  match AList.get? s.vaults vk with
  | none => .fail (.demeter "vault-not-exist") s
  | some v =>
    let amt := if amount > v.coll then v.coll else amount
    let c := cx.sub v.coll amt
    let s1 := creditW cx (s.setVault vk { v with coll := c }) sqWethName amt
    (checked cx e s1 vk).andThen fun s2 => .ok (s2.record (.updColl vk (cx.sub 0 amt) c))

/-- `withdraw_uni_position` -/
def withdrawUniBody (cx : NumCtx) (e : Env) (s : State) (vk : Nat) (pos : PosKey) : Res :=
  match AList.get? s.vaults vk with
  | none => .fail (.demeter "vault-not-exist") s
  | some v =>
    if v.nft ≠ some pos then .fail (.demeter "not-deposited") s
    else
      let s1 := s.setVault vk { v with nft := none }
      -- transfer_position_in
      match AList.get? s1.positions pos with
      | none => .fail (.demeter "not-transferred") s1
      | some p =>
        if !p.transferred then .fail (.demeter "not-transferred") s1
        else
          let s2 := s1.setPos pos { p with transferred := false }
          (checked cx e s2 vk).andThen fun s3 => .ok (s3.record (.withdrawLp vk pos))

/-- the burn half of `burn_and_withdraw` -/
def burnBody (cx : NumCtx) (s : State) (vk : Nat) (burn : Rat) : Res :=
  match AList.get? s.vaults vk with
  | none => .fail (.demeter "vault-not-exist") s
  | some v =>
    if burn > 0 then
      let removed := if v.short ≥ burn then burn else v.short
      let sh := if v.short ≥ burn then cx.sub v.short burn else 0
      let s1 := s.setVault vk { v with short := sh }
      match debitW cx s1 sqOsqthName removed with
      | .error er => .fail er s1
      | .ok s2 => .ok (s2.record (.updShort vk (cx.sub 0 removed) sh))
    else .ok s

/-- `burn_and_withdraw` -/
def burnWithdrawBody (cx : NumCtx) (e : Env) (s : State) (vk : Nat) (burn withdraw : Rat) : Res :=
  (burnBody cx s vk burn).andThen fun s1 =>
  (if withdraw > 0 then withdrawCollBody cx e s1 vk withdraw else .ok s1).andThen fun s2 =>
  checked cx e s2 vk

/-- the vault an `open_deposit_mint` call works on: the given key, or a fresh vault -/
def openVault (s : State) (vk? : Option Nat) : State × Nat :=
  match vk? with
  | some k => (s, k)
  | none =>
    let id := s.maxId + 1
    let vs := AList.set s.vaults id { coll := 0, short := 0, nft := none }
    (({ s with maxId := id, vaults := vs }).record (.addVault id vs.length), id)

/-- the mint part of `open_deposit_mint` -/
def mintBody (cx : NumCtx) (s : State) (vk : Nat) (mint : Rat) : Res :=
  if mint > 0 then
    match AList.get? s.vaults vk with
    | none => .fail (.key "vault") s
    | some v =>
      let sh := cx.add v.short mint
      .ok ((creditW cx (s.setVault vk { v with short := sh }) sqOsqthName mint).record (.updShort vk mint sh))
  else .ok s

/-- `open_deposit_mint` -/
def openBody (cx : NumCtx) (e : Env) (s : State) (deposit mint : Rat) (vk? : Option Nat) (pos? : Option PosKey) : Res :=
  let (s0, vk) := openVault s vk?
  (mintBody cx s0 vk mint).andThen fun s1 =>
  (if deposit > 0 then depositBody cx s1 vk deposit else .ok s1).andThen fun s2 =>
  (match pos? with
   | some p => depositUniBody s2 vk p
   | none => .ok s2).andThen fun s3 =>
  checked cx e s3 vk [(vk : Rat), mint]

/-! ### the Uniswap side of `_redeem_uni_token` -/

/-- `UniLpMarket.remove_liquidity(pos, collect=...)` followed by `collect_fee(pos, collect_to_user=toUser)`:
    all liquidity goes to the pending amounts, then everything pending is collected and the emptied position is
    deleted.  Returns what `collect_fee` returns, in token order `(amount0, amount1) = (WETH, oSQTH)`. -/
def uniRedeem (cx : NumCtx) (e : Env) (s : State) (pos : PosKey) (toUser : Bool) : Res × Rat × Rat :=
  -- `__remove_liquidity` and `__collect_fee` are @write_func: for an order of the strategy (`toUser`) a closed pool raises before
  -- anything is touched.  `_redeem_uni_token` (the vault's own redemption, `toUser = false`) opens the gate around its two pool
  -- calls and restores it: a liquidation also happens on a bar for which the pool has no data row, at the last known pool price.
  if toUser && !e.uniOpen then (.fail (.demeter "uni-closed") s, 0, 0)
  else
  match AList.get? s.positions pos with
  | none => (.fail (.key "position") s, 0, 0)
  | some p =>
    let t := closePosition cx (uniSqrtP cx e.uniPrice) pos.1 pos.2 p.liquidity sqWethDecimals sqOsqthDecimals
    let p1 : UPos := { p with liquidity := 0, pending0 := cx.add p.pending0 t.1, pending1 := cx.add p.pending1 t.2 }
    let s1 := s.setPos pos p1
    -- RemoveLiquidityAction(base_balance_after = balance(oSQTH), quote_balance_after = balance(WETH), …)
    match AList.get? s1.wallet sqOsqthName, AList.get? s1.wallet sqWethName with
    | some bo, some bw =>
      let s2 := s1.record (.uniRemove pos t.2 t.1 p.liquidity 0 bo bw)
      let f0 := p1.pending0
      let f1 := p1.pending1
      let p2 : UPos := { p1 with pending0 := cx.sub f0 f0, pending1 := cx.sub f1 f1 }
      let s3 := s2.setPos pos p2
      let s4 := if toUser then creditW cx (creditW cx s3 sqWethName f0) sqOsqthName f1 else s3
      match AList.get? s4.wallet sqOsqthName, AList.get? s4.wallet sqWethName with
      | some bo', some bw' =>
        let s5 := s4.record (.uniCollect pos f1 f0 bo' bw')
        let s6 := if p2.pending0 = 0 ∧ p2.pending1 = 0 then { s5 with positions := AList.erase s5.positions pos } else s5
        (.ok s6, f0, f1)
      | _, _ => (.fail (.demeter "no-token") s4, 0, 0)
    | _, _ => (.fail (.demeter "no-token") s1, 0, 0)

/-- `_reduce_debt(vault_key, pay_bounty)`; second component = bounty -/
def reduceDebtBody (cx : NumCtx) (e : Env) (s : State) (vk : Nat) (payBounty : Bool) : Res × Rat :=
  match AList.get? s.vaults vk with
  | none => (.fail (.key "vault") s, 0)
  | some v =>
    match v.nft with
    | none => (.ok s [0, 0, 0, 0], 0)
    | some pos =>
      -- `transfer_position_in(position)`: the vault hands the position back to the pool's books, then redeems it
      match AList.get? s.positions pos with
      | none => (.fail (.demeter "not-transferred") s, 0)
      | some p =>
        if !p.transferred then (.fail (.demeter "not-transferred") s, 0)
        else
        match uniRedeem cx e (s.setPos pos { p with transferred := false }) pos false with
        | (⟨some er, s1, _⟩, _, _) => (.fail er s1, 0)
        | (⟨none, s1, _⟩, f0, f1) =>
          -- `_redeem_uni_token`: collect_fee's (base, quote) answer converted back to (token0, token1) = (WETH, oSQTH)
          let wEth := f0
          let wOsqth := f1
          let bounty0 := if payBounty then cx.mul (cx.add (cx.mul wOsqth (twap e .osqth)) wEth) sqReduceDebtBounty else 0
          let excess := if wOsqth > v.short then cx.sub wOsqth v.short else 0
          let burn := if wOsqth > v.short then v.short else wOsqth
          let c1 := cx.add v.coll wEth
          -- the bounty comes out of the vault's ETH and is capped by it
          let bounty := if bounty0 > c1 then c1 else bounty0
          let v' : Vault := { coll := cx.sub c1 bounty, short := cx.sub v.short burn, nft := none }
          let s2 := s1.setVault vk v'
          let s3 := if excess > 0 then creditW cx s2 sqOsqthName excess else s2
          (.ok (s3.record (.reduceDebt vk pos wEth wOsqth burn excess bounty v'.short v'.coll)) [burn, excess, bounty, wEth], bounty)

/-- `_get_single_liquidation_amount` -/
def singleLiq (cx : NumCtx) (e : Env) (maxIn maxLiq : Rat) : Rat × Rat :=
  let amt := if maxIn > maxLiq then maxLiq else maxIn
  let pay := cx.mul amt (twap e .osqth)
  (amt, cx.add pay (cx.mul pay sqLiquidationBounty))

/-- `_get_liquidation_result` -/
def liquidationResult (cx : NumCtx) (e : Env) (maxAmt short coll : Rat) : Rat × Rat :=
  let r := singleLiq cx e maxAmt (cx.div short sqLiqDivisor)
  let r := if coll ≥ r.2 ∧ cx.sub coll r.2 < sqMinDeposit then singleLiq cx e maxAmt short else r
  if r.2 > coll then (short, coll) else r

/-- `_liquidate(vault, max_debt_amount, norm_factor)` -/
def liquidateInner (cx : NumCtx) (e : Env) (s : State) (vk : Nat) (maxDebt : Rat) : Res :=
  match AList.get? s.vaults vk with
  | none => .fail (.key "vault") s
  | some v =>
    let r := liquidationResult cx e maxDebt v.short v.coll
    if maxDebt < r.1 then .fail (.demeter "need-full-liquidation") s
    else
      let v' : Vault := { v with short := cx.sub v.short r.1, coll := cx.sub v.coll r.2 }
      let s1 := s.setVault vk v'
      match vaultStatus cx e s1 vk with
      | .error er => .fail er s1
      | .ok (_, dust) =>
        if dust then .fail (.demeter "dust-vault-left") s1
        else .ok (s1.record (.liquidation vk r.1 v'.short r.2 v'.coll)) [r.1]

/-- `liquidate` -/
def liquidateBody (cx : NumCtx) (e : Env) (s : State) (vk : Nat) : Res :=
  match AList.get? s.vaults vk with
  | none => .fail (.demeter "vault-not-exist") s
  | some _ =>
    match vaultStatus cx e s vk with
    | .error er => .fail er s
    | .ok (safe, _) =>
      if safe then .fail (.demeter "safe-vault") s
      else
        let rb := reduceDebtBody cx e s vk true
        rb.1.andThen fun s1 =>
          match vaultStatus cx e s1 vk with
          | .error er => .fail er s1
          | .ok (safe1, _) =>
            if safe1 then .ok s1 [0]
            else
              match AList.get? s1.vaults vk with
              | none => .fail (.key "vault") s1
              | some v =>
                let v' : Vault := { v with coll := cx.add v.coll rb.2 }
                liquidateInner cx e (s1.setVault vk v') vk v'.short

/-! ### transactions -/

/-- `SqueethMarket._atomic` (`_VaultTransaction`): an operation that raises leaves vaults, wallet, pool positions
    and action list as they were -/
def atomic (s : State) (r : Res) : Res :=
  match r.err with
  | some er => .fail er s
  | none => r

/-- `liquidate` as called (decorated with `_atomic`) -/
def liquidateOp (cx : NumCtx) (e : Env) (s : State) (vk : Nat) : Res := atomic s (liquidateBody cx e s vk)

/-- public `UniLpMarket.remove_liquidity(pos)` (collect=True): refused while the position is lent to a vault -/
def uniRemoveOp (cx : NumCtx) (e : Env) (s : State) (pos : PosKey) : Res :=
  match AList.get? s.positions pos with
  | some p => if p.transferred then .fail (.demeter "transferred-out") s else (uniRedeem cx e s pos true).1
  | none => (uniRedeem cx e s pos true).1

/-- `update`: `for vk, v in self.vault.items(): if not above water: self.liquidate(vk)` -/
def updateGo (liq : State → Nat → Res) (cx : NumCtx) (e : Env) : List Nat → State → Res
  | [], s => .ok s
  | vk :: rest, s =>
    match vaultStatus cx e s vk with
    | .error er => .fail er s
    | .ok (safe, _) =>
      if safe then updateGo liq cx e rest s
      else (liq s vk).andThen (updateGo liq cx e rest)

/-! ### the long side: `buy_squeeth` / `sell_squeeth` through the pool's `buy` / `sell` -/

/-- `self._squeeth_uni_pool.pool_info`: token0 = WETH = quote token, token1 = oSQTH (see the header) -/
def longPool (e : Env) : Uni.Pool :=
  { tok0 := sqWethName, tok1 := sqOsqthName, d0 := sqWethDecimals, d1 := sqOsqthDecimals, feeRate := e.uniFee, spacing := 60,
    q0 := true, decFac := 1 }

/-- `buy` / `sell` / `swap` read nothing of the kernel but its arithmetic context -/
def longKern (cx : NumCtx) : Uni.Kern := Uni.Kern.std cx (fun x => cx.mul x x)

/-- what `UniLpMarket.buy` / `sell` see of this state: the broker's wallet and the pool's status row (its positions play no part
    in a swap; the action list is collected separately and appended) -/
def uniView (e : Env) (s : State) : Uni.State :=
  { positions := [], lastTick := none, row := some { closeTick := 0, curLiq := 0, in0 := 0, in1 := 0, price := e.uniPrice },
    ts := none, isOpen := e.uniOpen, hasUpdate := false, wallet := s.wallet, allowNeg := false, actions := [] }

/-- back from the pool: the wallet it leaves and the actions it recorded; its exception, if any -/
def fromUni (s : State) (r : Uni.Res) : Res :=
  let s' : State := { s with wallet := r.2.wallet, log := s.log ++ r.2.actions.map (fun a => Action.uniTrade a.kind a.nums) }
  match r.1 with
  | .ok v => .ok s' v
  | .error er => .fail (.uni er) s'

/-- `if osqth_amount is None and eth_amount is not None: osqth_amount = eth_amount / self._market_status.data["OSQTH"]`
    (`Decimal / 0` raises DivisionByZero, `0 / 0` InvalidOperation) -/
def longAmount (cx : NumCtx) (e : Env) : Option Rat → Option Rat → Except Err (Option Rat)
  | none, some eth =>
    if e.osqth = 0 then .error (.uni (if eth = 0 then .invalidOp else .divByZero)) else .ok (some (cx.div eth e.osqth))
  | o, _ => .ok o

/-- `buy_squeeth(osqth_amount, eth_amount)`: → (fee in WETH, WETH spent, oSQTH got).  Neither wrapper nor `buy` / `swap` is a
    `@write_func`: a closed pool does not refuse the trade. -/
def buySqueethOp (cx : NumCtx) (e : Env) (s : State) (osqth? eth? : Option Rat) : Res :=
  match longAmount cx e osqth? eth? with
  | .error er => .fail er s
  | .ok none => .fail (.type "amount-none") s          -- `None * price`
  | .ok (some a) => fromUni s (Uni.buy (longKern cx) (longPool e) (uniView e s) a none)

/-- `sell_squeeth(osqth_amount, eth_amount)`: → (fee in oSQTH, oSQTH sold, WETH got) -/
def sellSqueethOp (cx : NumCtx) (e : Env) (s : State) (osqth? eth? : Option Rat) : Res :=
  match longAmount cx e osqth? eth? with
  | .error er => .fail er s
  | .ok none => .fail (.type "amount-none") s          -- `None < 0` in `swap`
  | .ok (some a) => fromUni s (Uni.sell (longKern cx) (longPool e) (uniView e s) a none)

inductive Op
  | openMint (deposit mint : Rat) (vk : Option Nat) (pos : Option PosKey)
  | deposit (vk : Nat) (eth : Rat)
  | depositUni (vk : Nat) (pos : PosKey)
  | withdrawUni (vk : Nat) (pos : PosKey)
  | burnWithdraw (vk : Nat) (burn withdraw : Rat)
  | liquidate (vk : Nat)
  | update
  | reduceDebt (vk : Nat) (payBounty : Bool)
  | uniRemove (pos : PosKey)
  | buy (osqth eth : Option Rat)
  | sell (osqth eth : Option Rat)
deriving DecidableEq, Repr

/-- the operation bodies as written (what runs inside the transaction wrapper) -/
def stepBody (cx : NumCtx) (e : Env) (s : State) : Op → Res
  | .openMint d m vk pos => openBody cx e s d m vk pos
  | .deposit vk eth => depositBody cx s vk eth
  | .depositUni vk pos => depositUniBody s vk pos
  | .withdrawUni vk pos => withdrawUniBody cx e s vk pos
  | .burnWithdraw vk b w => burnWithdrawBody cx e s vk b w
  | .liquidate vk => liquidateBody cx e s vk
  | .update => updateGo (liquidateOp cx e) cx e (s.vaults.map (·.1)) s
  | .reduceDebt vk pb => (reduceDebtBody cx e s vk pb).1
  | .uniRemove pos => uniRemoveOp cx e s pos
  | .buy o q => buySqueethOp cx e s o q
  | .sell o q => sellSqueethOp cx e s o q

/-- which operations are decorated with `_atomic` in the code: the public vault operations and `_reduce_debt`.
    `update` is a loop of transactions (each `liquidate` is one), `remove_liquidity` belongs to the pool, `buy_squeeth` /
    `sell_squeeth` are plain wrappers of the pool's `buy` / `sell` (which check before they move anything). -/
def Op.isAtomic : Op → Bool
  | .openMint .. | .deposit .. | .depositUni .. | .withdrawUni .. | .burnWithdraw .. | .liquidate .. | .reduceDebt .. => true
  | .update | .uniRemove .. | .buy .. | .sell .. => false

/-- the long side: the two operations that trade with the pool -/
def Op.isTrade : Op → Bool
  | .buy .. | .sell .. => true
  | _ => false

/-- what a call of the operation does -/
def step (cx : NumCtx) (e : Env) (s : State) (op : Op) : Res :=
  if op.isAtomic then atomic s (stepBody cx e s op) else stepBody cx e s op

end Demeter.Squeeth
