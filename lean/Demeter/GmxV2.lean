/-
  Demeter.GmxV2 — model of the GMX v2 GM market: `demeter/gmx/market2.py` (`deposit`, `withdraw`,
  `get_market_balance`) and the pricing code it calls in `demeter/gmx/gmx_v2/` (`ExecuteDepositUtils.get_mint_amount`,
  `calc_token_amount`, `ExecuteWithdrawUtils.getOutputAmount`, `MarketUtils.getTokenAmountsFromGM`,
  `getSwapImpactAmountWithCap`, `usdToMarketTokenAmount`, `SwapPriceUtils.getPriceImpactUsd`, `_getPriceImpactUsd`,
  `getNextPoolAmountsParams`, `getSwapFees`, `PricingUtils.*`).

  The code computes with Python `float`.  The model text is written once over an arbitrary number type `α`
  and used twice: at `α = Rat` (exact rational semantics of the same formulas — what the theorems are about) and at
  `α = Float` (IEEE binary64, what the driver runs to be compared with CPython).  The two operations that are not
  field operations come in through `Ops`: `pow` (`diffUsd ** swapImpactExponentFactor`, a libm call) and the zero test
  that decides where Python raises `ZeroDivisionError`.  The wallet is `Decimal`: `Decimal(float)` is the float's exact
  value (`Ops.toRat`), wallet arithmetic goes through `cx`.
-/
import Demeter.Num
import Demeter.Wallet
namespace Demeter.GmxV2
open Demeter

inductive Err
  | demeter      -- DemeterError (negative amount, more GM than held, token not in the wallet)
  | assertion    -- AssertionError("insufficient balance")
  | zeroDiv      -- ZeroDivisionError (float division by zero)
  | runtime      -- RuntimeError (UsdDeltaExceedsPoolValue / negative sum)
  | overflow     -- OverflowError (float `x ** y` whose result leaves the double range)
deriving DecidableEq, Repr

def Err.name : Err → String
  | .demeter => "DemeterError" | .assertion => "AssertionError" | .zeroDiv => "ZeroDivisionError" | .runtime => "RuntimeError"
  | .overflow => "OverflowError"

/-- the non-field operations of the number type -/
structure Ops (α : Type) where
  isZero : α → Bool          -- `x == 0`
  pow : α → α → α            -- `x ** y`
  toRat : α → Rat            -- exact value (`Decimal(x)`)
  isFinite : α → Bool        -- `math.isfinite(x)`: false for NaN and the infinities (every rational is finite)

/-- `PoolConfig` -/
structure Config (α : Type) where
  impactExponent : α
  impactFactorPos : α
  impactFactorNeg : α
  depositFeePos : α
  depositFeeNeg : α
  withdrawFeePos : α
  withdrawFeeNeg : α

/-- `GmxV2PoolStatus` (one data row) -/
structure Pool (α : Type) where
  longAmount : α
  shortAmount : α
  virtualLong : Option α
  virtualShort : Option α
  poolValue : α
  supply : α
  impactPool : α
  longPrice : α
  shortPrice : α

/-- `LPResult` -/
structure LPResult (α : Type) where
  longAmount : α
  shortAmount : α
  totalUsd : α
  gmAmount : α
  gmUsd : α
  longFee : α
  shortFee : α
  feeUsd : α
  priceImpactUsd : α

/-- `GmxV2Market.amount`, the broker wallet, the action log (deposit = true) -/
structure State (α : Type) where
  amount : α
  wallet : Wallet
  actions : List (Bool × LPResult α)

section
variable {α : Type} [Add α] [Sub α] [Mul α] [Div α] [Neg α] [LT α] [LE α] [OfNat α 0]
  [DecidableLT α] [DecidableLE α]

/-- float division: raises when the divisor is zero -/
def fdiv (o : Ops α) (a b : α) : Except Err α :=
  if o.isZero b then .error .zeroDiv else .ok (a / b)

/-- `abs` -/
def absv (x : α) : α := if x < 0 then -x else x

/-- `Calc.diff` -/
def diff (a b : α) : α := absv (a - b)

/-- `Calc.toSigned` -/
def toSigned (a : α) (isPositive : Bool) : α := if isPositive then a else -a

/-- `PricingUtils.applyImpactFactor`: `diffUsd ** exponent * factor` -/
def applyImpactFactor (o : Ops α) (diffUsd factor exponent : α) : α := o.pow diffUsd exponent * factor

/-- `MarketUtils.getAdjustedSwapImpactFactors` -/
def adjustedFactors (cfg : Config α) : α × α :=
  if cfg.impactFactorPos > cfg.impactFactorNeg then (cfg.impactFactorNeg, cfg.impactFactorNeg)
  else (cfg.impactFactorPos, cfg.impactFactorNeg)

/-- `PoolParams` -/
structure PoolParams (α : Type) where
  a : α
  b : α
  nextA : α
  nextB : α

/-- `SwapPriceUtils.getNextPoolAmountsParams` (incl. `Calc.sumReturnUint256`) -/
def nextPoolParams (amtA amtB priceA priceB deltaA deltaB : α) : Except Err (PoolParams α) :=
  let a := amtA * priceA
  let b := amtB * priceB
  if deltaA < 0 ∧ -deltaA > a then .error .runtime else
  if deltaB < 0 ∧ -deltaB > b then .error .runtime else
  let na := a + deltaA
  if na < 0 then .error .runtime else
  let nb := b + deltaB
  if nb < 0 then .error .runtime else
  .ok { a := a, b := b, nextA := na, nextB := nb }

/-- `SwapPriceUtils._getPriceImpactUsd`; the Bool says whether the same-side branch was taken -/
def impactOfParams (o : Ops α) (cfg : Config α) (p : PoolParams α) : α × Bool :=
  let initialDiff := diff p.a p.b
  let nextDiff := diff p.nextA p.nextB
  let sameSide : Bool := (decide (p.a ≤ p.b)) == (decide (p.nextA ≤ p.nextB))
  if sameSide then
    let hasPos : Bool := decide (nextDiff < initialDiff)
    let (fp, fn) := adjustedFactors cfg
    let factor := if hasPos then fp else fn
    let delta := diff (applyImpactFactor o initialDiff factor cfg.impactExponent)
                      (applyImpactFactor o nextDiff factor cfg.impactExponent)
    (toSigned delta hasPos, true)
  else
    let (fp, fn) := adjustedFactors cfg
    let posImpact := applyImpactFactor o initialDiff fp cfg.impactExponent
    let negImpact := applyImpactFactor o nextDiff fn cfg.impactExponent
    let delta := diff posImpact negImpact
    (toSigned delta (decide (posImpact > negImpact)), false)

/-- CPython's `float ** float` raises `OverflowError` when both operands are finite and the result is not (C `pow` sets ERANGE);
    infinite or NaN operands propagate silently.  Never the case for rationals. -/
def powRaises (o : Ops α) (x y : α) : Bool := o.isFinite x && o.isFinite y && !o.isFinite (o.pow x y)

/-- does one of the two `applyImpactFactor` calls of `_getPriceImpactUsd` raise -/
def impactPowRaises (o : Ops α) (cfg : Config α) (p : PoolParams α) : Bool :=
  powRaises o (diff p.a p.b) cfg.impactExponent || powRaises o (diff p.nextA p.nextB) cfg.impactExponent

/-- `SwapPriceUtils.getPriceImpactUsd` for a deposit (token A = long, virtual inventory included).
    The tag names the branch: `pos` / `neg-real` / `neg-novirt` / `neg-virt`, suffixed `-same` / `-cross`. -/
def priceImpactUsd (o : Ops α) (cfg : Config α) (ps : Pool α) (longUsd shortUsd : α) : Except Err (α × String) := do
  let pp ← nextPoolParams ps.longAmount ps.shortAmount ps.longPrice ps.shortPrice longUsd shortUsd
  if impactPowRaises o cfg pp then throw .overflow
  let (impact, same) := impactOfParams o cfg pp
  let sfx := if same then "-same" else "-cross"
  if impact ≥ 0 then pure (impact, "pos" ++ sfx) else
  match ps.virtualLong, ps.virtualShort with
  | some vl, some vs =>
    let ppv ← nextPoolParams vl vs ps.longPrice ps.shortPrice longUsd shortUsd
    if impactPowRaises o cfg ppv then throw .overflow
    let (iv, _) := impactOfParams o cfg ppv
    if iv < impact then pure (iv, "neg-virt" ++ sfx) else pure (impact, "neg-real" ++ sfx)
  | _, _ => pure (impact, "neg-novirt" ++ sfx)

/-- `MarketUtils.getSwapImpactAmountWithCap` (first component) and whether the cap applied -/
def impactAmountWithCap (o : Ops α) (tokenPrice impactUsd impactPool : α) : Except Err (α × Bool) := do
  let amt ← fdiv o impactUsd tokenPrice
  if impactUsd > 0 then
    if amt > impactPool then pure (impactPool, true) else pure (amt, false)
  else pure (amt, false)

/-- `MarketUtils.usdToMarketTokenAmount`: `supply * usd / poolValue` -/
def usdToGm (o : Ops α) (usd poolValue supply : α) : Except Err α := fdiv o (supply * usd) poolValue

/-- `calc_token_amount`, positive-impact part: GM minted from the impact pool (`mintAmount = 0; mintAmount += …`), and
    whether the cap applied; `(0, false)` when the impact is not positive.  `pool` is what is left of the impact pool for
    this token of the deposit. -/
def positiveImpactMint (o : Ops α) (ps : Pool α) (priceOut impact pool : α) : Except Err (α × Bool) :=
  if impact > 0 then do
    let (posAmt, capped) ← impactAmountWithCap o priceOut impact pool
    let m ← usdToGm o (posAmt * priceOut) ps.poolValue ps.supply
    pure ((0 : α) + m, capped)
  else pure ((0 : α), false)

/-- `calc_token_amount`, negative-impact part: `fees.amountAfterFees -= -negativeImpactAmount`; the contract subtracts
    from a uint256, so a negative impact larger than the deposit reverts (repaired code raises RuntimeError) -/
def afterNegativeImpact (o : Ops α) (ps : Pool α) (priceIn after impact : α) : Except Err α :=
  if impact < 0 then do
    let (negAmt, _) ← impactAmountWithCap o priceIn impact ps.impactPool
    let after' := after - (-negAmt)
    if after' < 0 then throw .runtime else pure after'
  else pure after

/-- `ExecuteDepositUtils.calc_token_amount(…, impactPoolAmount = pool)`: minted GM, fee amount, whether the positive impact
    was capped -/
def calcTokenAmount (o : Ops α) (cfg : Config α) (ps : Pool α) (priceIn priceOut amount impact pool : α) :
    Except Err (α × α × Bool) := do
  let feeFactor := if impact > 0 then cfg.depositFeePos else cfg.depositFeeNeg
  let fee := feeFactor * amount
  let (mint, capped) ← positiveImpactMint o ps priceOut impact pool
  let after ← afterNegativeImpact o ps priceIn (amount - fee) impact
  let m2 ← usdToGm o (after * priceIn) ps.poolValue ps.supply
  pure (mint + m2, fee, capped)

/-- what is left of the impact pool after this token's share of a positive impact has been paid out of it
    (`impact_pool_left -= paid_amount`, repaired code); unchanged when the share is not positive -/
def poolLeft (o : Ops α) (priceOut share pool : α) : Except Err α :=
  if share > 0 then do
    let (paid, _) ← impactAmountWithCap o priceOut share pool
    pure (pool - paid)
  else pure pool

/-- one side of `get_mint_amount` (`if amount > 0:`) given what is left of the impact pool: `none` when nothing of this
    token is deposited; the second component is what is left of the impact pool afterwards (the code computes it for the
    long side only; for the short side it is discarded, and it cannot raise once `calcTokenAmount` has succeeded) -/
def sidePart (o : Ops α) (cfg : Config α) (ps : Pool α) (priceIn priceOut amount usd totalUsd impact pool : α) :
    Except Err (Option (α × α × Bool) × α) :=
  if amount > 0 then do
    let share ← fdiv o (impact * usd) totalUsd
    let r ← calcTokenAmount o cfg ps priceIn priceOut amount share pool
    let left ← poolLeft o priceOut share pool
    pure (some r, left)
  else pure (none, pool)

/-- `ExecuteDepositUtils.get_mint_amount`; the string is the branch tag.  The one impact pool figure of the row serves both
    tokens of the deposit: the short side is capped by what the long side left. -/
def mintAmount (o : Ops α) (cfg : Config α) (ps : Pool α) (longAmt shortAmt : α) : Except Err (LPResult α × String) := do
  let longUsd := longAmt * ps.longPrice
  let shortUsd := shortAmt * ps.shortPrice
  let (impact, tag) ← priceImpactUsd o cfg ps longUsd shortUsd
  let (lp, left) ← sidePart o cfg ps ps.longPrice ps.shortPrice longAmt longUsd (longUsd + shortUsd) impact ps.impactPool
  let (sp, _) ← sidePart o cfg ps ps.shortPrice ps.longPrice shortAmt shortUsd (longUsd + shortUsd) impact left
  let (gm1, longFee, feeUsd1, cap1) := match lp with
    | some (m, f, c) => ((0 : α) + m, f, (0 : α) + f * ps.longPrice, c)
    | none => ((0 : α), (0 : α), (0 : α), false)
  let (gm2, shortFee, feeUsd2, cap2) := match sp with
    | some (m, f, c) => (gm1 + m, f, feeUsd1 + f * ps.shortPrice, c)
    | none => (gm1, (0 : α), feeUsd1, false)
  let gmPrice ← fdiv o ps.poolValue ps.supply
  pure ({ longAmount := longAmt, shortAmount := shortAmt, totalUsd := longUsd + shortUsd, gmAmount := gm2,
          gmUsd := gm2 * gmPrice, longFee := longFee, shortFee := shortFee, feeUsd := feeUsd2, priceImpactUsd := impact },
        tag ++ (if cap1 || cap2 then "-capped" else ""))

/-- `MarketUtils.getTokenAmountsFromGM` -/
def tokenAmountsFromGm (o : Ops α) (ps : Pool α) (gm : α) : Except Err (α × α) := do
  let longPoolUsd := ps.longAmount * ps.longPrice
  let shortPoolUsd := ps.shortAmount * ps.shortPrice
  let total := longPoolUsd + shortPoolUsd
  let gmUsd ← fdiv o (ps.poolValue * gm) ps.supply
  let longOutUsd ← fdiv o (gmUsd * longPoolUsd) total
  let shortOutUsd ← fdiv o (gmUsd * shortPoolUsd) total
  let l ← fdiv o longOutUsd ps.longPrice
  let s ← fdiv o shortOutUsd ps.shortPrice
  pure (l, s)

/-- `ExecuteWithdrawUtils.getOutputAmount` -/
def outputAmount (o : Ops α) (cfg : Config α) (ps : Pool α) (gm : α) : Except Err (LPResult α) := do
  let (l, s) ← tokenAmountsFromGm o ps gm
  let lFee := cfg.withdrawFeeNeg * l
  let sFee := cfg.withdrawFeeNeg * s
  let lOut := l - lFee
  let sOut := s - sFee
  let gmPrice ← fdiv o ps.poolValue ps.supply
  pure { longAmount := lOut, shortAmount := sOut, totalUsd := lOut * ps.longPrice + sOut * ps.shortPrice, gmAmount := gm,
         gmUsd := gm * gmPrice, longFee := lFee, shortFee := sFee, feeUsd := lFee * ps.longPrice + sFee * ps.shortPrice,
         priceImpactUsd := 0 }

/-- `GmxV2Market.deposit`; `allowNeg` is `broker.allow_negative_balance` (default `False`: the setting the value theorems
    are about; with `True` a debit never fails and a missing wallet entry is created).  (After the repairs: finiteness check — NaN compares false with everything and would pass the sign
    checks —, sign check, pricing, both wallet debits — the first is given back when the second fails — and only then the
    holding and the log.) -/
def deposit (o : Ops α) (cx : NumCtx) (cfg : Config α) (ps : Pool α) (longKey shortKey : String)
    (s : State α) (longAmt shortAmt : α) (allowNeg : Bool := false) : Except Err (LPResult α × String) × State α :=
  if !(o.isFinite longAmt && o.isFinite shortAmt) then (.error .demeter, s) else
  if longAmt < 0 ∨ shortAmt < 0 then (.error .demeter, s) else
  match mintAmount o cfg ps longAmt shortAmt with
  | .error e => (.error e, s)
  | .ok (r, tag) =>
    -- a finite amount whose USD value leaves the double range prices to `inf` / `nan`: rejected (035b95e)
    if !o.isFinite r.gmAmount then (.error .demeter, s) else
    let longBalance := AList.get? s.wallet longKey
    match Wallet.debit cx s.wallet longKey (o.toRat r.longAmount) allowNeg with
    | .error .insufficient => (.error .assertion, s)
    | .error .unknownToken => (.error .demeter, s)
    | .ok w1 =>
      match Wallet.debit cx w1 shortKey (o.toRat r.shortAmount) allowNeg with
      | .error e =>
        let w := match longBalance with
          | some b => AList.set w1 longKey b
          | none => w1
        (.error (match e with | .insufficient => .assertion | .unknownToken => .demeter), { s with wallet := w })
      | .ok w2 =>
        (.ok (r, tag), { amount := s.amount + r.gmAmount, wallet := w2, actions := s.actions ++ [(true, r)] })

/-- `GmxV2Market.withdraw(amount)`; `none` = withdraw everything.  (After the repairs: finiteness of the argument, sign, holding,
    pricing, finiteness of the two output amounts, and only then holding, wallet and log.) -/
def withdraw (o : Ops α) (cx : NumCtx) (cfg : Config α) (ps : Pool α) (longKey shortKey : String)
    (s : State α) (amount? : Option α) : Except Err (LPResult α) × State α :=
  let amount := amount?.getD s.amount
  if !o.isFinite amount then (.error .demeter, s) else
  if amount < 0 then (.error .demeter, s) else
  if amount > s.amount then (.error .demeter, s) else
  match outputAmount o cfg ps amount with
  | .error e => (.error e, s)
  | .ok r =>
    -- a held amount whose USD value leaves the double range prices to `inf` / `nan` token amounts: rejected before anything
    -- changes (2f5f4ac), so `toRat` below is only ever applied to finite numbers
    if !(o.isFinite r.longAmount && o.isFinite r.shortAmount) then (.error .demeter, s) else
    let w := Wallet.credit cx s.wallet longKey (o.toRat r.longAmount)
    let w := Wallet.credit cx w shortKey (o.toRat r.shortAmount)
    (.ok r, { amount := s.amount - r.gmAmount, wallet := w, actions := s.actions ++ [(false, r)] })

/-- `GmxV2Market.get_market_balance`: (net_value, gm_amount, long_amount, short_amount) -/
def balance (o : Ops α) (ps : Pool α) (s : State α) : Except Err (α × α × α × α) :=
  if s.amount > 0 then do
    let (l, sh) ← tokenAmountsFromGm o ps s.amount
    let nv ← fdiv o (s.amount * ps.poolValue) ps.supply
    pure (nv, s.amount, l, sh)
  else pure (0, s.amount, 0, 0)

end

/-- exact rational instantiation; `pw` is the power function (an oracle: the theorems hold for every `pw`) -/
def ratOps (pw : Rat → Rat → Rat) : Ops Rat := { isZero := fun x => decide (x = 0), pow := pw, toRat := id, isFinite := fun _ => true }

/-- IEEE binary64 instantiation used by the driver -/
def floatOps : Ops Float :=
  { isZero := fun x => x == 0.0,
    pow := Float.pow,        -- C `pow` of the platform libm, the call CPython's `float ** y` makes; `x ** 2` is not always `x * x` (glibc pow: < 1 ULP, not correctly rounded)
    toRat := fun x => (floatToRat? x).getD 0,
    isFinite := Float.isFinite }

end Demeter.GmxV2
