/-
  Demeter.Actuator — the bar loop of demeter/core/actuator.py (`Actuator.run`, lines 373-486) over abstract markets.

  A market is what the loop can see of it: the time index of its data frame (is_open = "the bar's timestamp is in the
  index", broker/market.py:120), the `has_update` flag (set by every accepted `write_func` operation, cleared by
  `set_market_status`), whether an `open` callback is installed, and — uninterpreted — what its operations and its
  `update()` record.  A row of a frame is identified by its own timestamp, so "which row did the loop read" is a value.

  Times are seconds since a midnight.  The model returns the *call trace* of a run (every hook call, every
  `set_market_status`, `update`, operation outcome, account row and `notify`), the account rows, the action list and the
  exception that ended the run, if any.  The harness records the same trace from a real `Actuator` (harness/c05.py).
-/
import Demeter.Trigger
namespace Demeter.Core

/-! ### frames and resampling (`DataFrame.resample(freq).first()`) -/

/-- midnight of the day of `t` (pandas' default resampling origin `start_day`) -/
def dayStart (t : Int) : Int := t - t % 86400

/-- label of the bin of `t` -/
def binLabel (Δ origin t : Int) : Int := origin + (t - origin) / Δ * Δ

/-- index of `frame.resample(Δ).first()`: every bin label from the bin of the first row to the bin of the last -/
def resampleIdx (Δ : Int) (idx : List Int) : List Int :=
  match idx.head?, idx.getLast? with
  | some a, some b =>
    let lo := binLabel Δ (dayStart a) a
    grid lo Δ (((binLabel Δ (dayStart a) b - lo) / Δ).toNat + 1)
  | _, _ => []

/-- the index a frame has during the run -/
def frameIdx (resample : Bool) (Δ : Int) (idx : List Int) : List Int :=
  if resample then resampleIdx Δ idx else idx

/-- index of `frame.resample(Δ).first().dropna(how="all")`: the labels of the bins that hold at least one row -/
def sparseIdx (Δ : Int) (idx : List Int) : List Int :=
  (resampleIdx Δ idx).filter (fun ts => idx.any (fun t => decide (ts ≤ t) && decide (t < ts + Δ)))

/-- the index a market's frame has during the run (`Market._resample` is the market's own: most keep every bin, an option book drops the empty ones) -/
def marketIdx (resample sparse : Bool) (Δ : Int) (idx : List Int) : List Int :=
  if resample && sparse then sparseIdx Δ idx else frameIdx resample Δ idx

/-- the raw row a lookup at label `ts` returns (`none`: the bin is empty, the row is NaN) -/
def frameSrc (resample : Bool) (Δ : Int) (idx : List Int) (ts : Int) : Option Int :=
  if resample then idx.find? (fun t => decide (ts ≤ t) && decide (t < ts + Δ))
  else if idx.contains ts then some ts else none

/-! ### configuration, script, events -/

structure MarketCfg where
  idx : List Int          -- level 0 of the index of `market.data` as supplied, one entry per row (non-decreasing; strictly increasing
                          -- for a frame with one row per timestamp)
  openCb : Bool           -- `market.open` is set
  sparse : Bool := false  -- the market's own `_resample` drops the bins without a row (`DeribitOptionMarket._resample`:
                          -- `.resample(freq).first().dropna(how="all")`): a hole that covers a whole bar stays a hole, the market is closed there
  strict : Bool := false  -- the market's `set_market_status` looks the bar's row up unguarded (`self.data.loc[timestamp]`: UniLpMarket, AaveV3Market,
                          -- SqueethMarket, GmxMarket, GmxV2Market — `Gen.coreStrictStatus…`): on a bar its frame has no row for it raises KeyError
                          -- instead of being closed (only DeribitOptionMarket guards the lookup).  Read by `Demeter/Actuator/Strict.lean` only:
                          -- `run` / `runG` are the loop for configurations in which no strict market is ever closed on a bar.
deriving Repr, Inhabited

structure Cfg where
  markets : List MarketCfg   -- in `broker.markets` order; the first one is the default market
  priceIdx : List Int        -- time index of the price frame as supplied
  Δ : Int                    -- bar interval in seconds
  resample : Bool            -- `actuator.interval != "1min"` (after `_check_backtest` normalised it)
deriving Repr, Inhabited

/-- an operation a hook issues: on which market, whether the market's own logic accepts it, a label, and whether the method
    is a `write_func` (gated by `is_open`, sets `has_update`: add/remove liquidity, supply, borrow, option trades, …) or not
    (e.g. `UniLpMarket.buy/sell`: recorded like any operation, but neither gated nor followed by a second refresh) -/
structure OpSpec where
  m : Nat
  ok : Bool
  tag : String
  gated : Bool := true
deriving Repr, Inhabited, DecidableEq

/-- the scripted strategy: what each hook does on each bar (row id); `upd`: what `update()` of a market records -/
structure Script where
  init : List OpSpec
  before : Nat → List OpSpec
  fire : Nat → Nat → List OpSpec      -- row, trigger id
  openCb : Nat → Nat → List OpSpec    -- row, market
  on : Nat → List OpSpec
  after : Nat → List OpSpec
  upd : Nat → Nat → List String       -- row, market
  notify : Nat → String → List OpSpec := fun _ _ => []   -- row, label of the action being delivered: what `Strategy.notify` does
  fuel : Nat := 0                     -- how many deliveries of actions created INSIDE `notify` the model follows per bar (see `runNotify`);
                                      -- the actions recorded before the loop starts are always delivered

inductive Hook
  | init | before | fire (id : Nat) | openCb (m : Nat) | on | after | notify
deriving Repr, DecidableEq, Inhabited

inductive Ev
  | set (ts : Int) (m : Nat) (stage : Nat) (isOpen : Bool) (src : Option Int)   -- stage 0: before initialize, 1: first refresh, 2: second
  | initialize (ts : Int)
  | before (ts : Int) (row : Nat) (price : Option Int)
  | fire (ts : Int) (id : Nat) (kw : String)
  | openCb (ts : Int) (m : Nat)
  | on (ts : Int) (row : Nat) (price : Option Int)
  | update (ts : Int) (m : Nat)
  | uact (ts : Int) (m : Nat) (tag : String)
  | after (ts : Int) (row : Nat) (price : Option Int)
  | opOk (ts : Int) (h : Hook) (m : Nat) (tag : String)
  | opRej (ts : Int) (h : Hook) (m : Nat) (tag : String) (closed : Bool)
  | opFree (ts : Int) (h : Hook) (m : Nat) (tag : String) (ok : Bool)            -- an operation that is not a `write_func`
  | row (ts : Int) (price : Option Int)
  | notify (ts : Int) (tag : String) (stamp : Int) (m : Nat)
  | finalize (ts : Int)
  | raised (e : PyErr)
deriving Repr, DecidableEq, Inhabited

/-- an action record: label, the timestamp `_record_action_list` stamped it with, the market -/
structure Act where
  tag : String
  stamp : Int
  m : Nat
deriving Repr, DecidableEq, Inhabited

structure MSt where
  isOpen : Bool
  hasUpdate : Bool
deriving Repr, DecidableEq, Inhabited

structure St where
  ms : List MSt                       -- per market: is_open, has_update
  trigs : List Trig                   -- strategy.triggers
  cur : List Act                      -- _currents.actions
  all : List Act                      -- _action_list
  rows : List (Int × Option Int)      -- _account_status_list: timestamp and the price row it was valued with
deriving Repr, Inhabited

/-- `markets[i].is_open` -/
def St.openAt (st : St) (i : Nat) : Bool :=
  match st.ms[i]? with
  | some s => s.isOpen
  | none => false

/-! ### operations -/

/-- one `write_func` operation issued at `ts` from hook `h` -/
def doOp (ts : Int) (h : Hook) (op : OpSpec) (st : St) : List Ev × St :=
  match st.ms[op.m]? with
  | none => ([], st)
  | some ms =>
    if !op.gated then
      if op.ok then
        ([.opFree ts h op.m op.tag true],
         { st with cur := st.cur ++ [⟨op.tag, ts, op.m⟩], all := st.all ++ [⟨op.tag, ts, op.m⟩] })
      else ([.opFree ts h op.m op.tag false], st)
    else if !ms.isOpen then ([.opRej ts h op.m op.tag true], st)       -- DemeterError("… is not open.")
    else if !op.ok then ([.opRej ts h op.m op.tag false], st)          -- the market raises; nothing recorded, flag untouched
    else ([.opOk ts h op.m op.tag],
          { st with ms := st.ms.set op.m { ms with hasUpdate := true },
                    cur := st.cur ++ [⟨op.tag, ts, op.m⟩],
                    all := st.all ++ [⟨op.tag, ts, op.m⟩] })

def runOps (ts : Int) (h : Hook) : List OpSpec → St → List Ev × St
  | [], st => ([], st)
  | op :: ops, st =>
    let r := doOp ts h op st
    let q := runOps ts h ops r.2
    (r.1 ++ q.1, q.2)

/-! ### `__set_market_snapshot` -/

def marketOpen (cfg : Cfg) (mc : MarketCfg) (ts : Int) : Bool := (marketIdx cfg.resample mc.sparse cfg.Δ mc.idx).contains ts

def setEv (cfg : Cfg) (ts : Int) (stage i : Nat) (mc : MarketCfg) : Ev :=
  .set ts i stage (marketOpen cfg mc ts) (if marketOpen cfg mc ts then frameSrc cfg.resample cfg.Δ mc.idx ts else none)

/-- `update=False`: every market -/
def setAllFrom (cfg : Cfg) (ts : Int) (stage : Nat) (i : Nat) : List MarketCfg → List Ev × List MSt
  | [] => ([], [])
  | mc :: rest =>
    let q := setAllFrom cfg ts stage (i + 1) rest
    (setEv cfg ts stage i mc :: q.1, ⟨marketOpen cfg mc ts, false⟩ :: q.2)

/-- `update=True`: only the markets whose `has_update` is set -/
def setUpdatedFrom (cfg : Cfg) (ts : Int) (i : Nat) : List MarketCfg → List MSt → List Ev × List MSt
  | mc :: rest, s :: ss =>
    let q := setUpdatedFrom cfg ts (i + 1) rest ss
    if s.hasUpdate then (setEv cfg ts 2 i mc :: q.1, ⟨marketOpen cfg mc ts, false⟩ :: q.2)
    else (q.1, s :: q.2)
  | _, ss => ([], ss)

/-! ### the phases of a bar -/

/-- the calls of the trigger actions, each followed by what the action does -/
def runFires (sc : Script) (ts : Int) (row : Nat) : List Fire → St → List Ev × St
  | [], st => ([], st)
  | f :: fs, st =>
    let r := runOps ts (.fire f.id) (sc.fire row f.id) st
    let q := runFires sc ts row fs r.2
    (.fire ts f.id f.kw :: r.1 ++ q.1, q.2)

/-- `for market in markets: if market.is_open and market.open is not None: market.open(snapshot)` -/
def runOpenFrom (sc : Script) (ts : Int) (row : Nat) (i : Nat) : List MarketCfg → St → List Ev × St
  | [], st => ([], st)
  | mc :: rest, st =>
    if mc.openCb && st.openAt i then
      let r := runOps ts (.openCb i) (sc.openCb row i) st
      let q := runOpenFrom sc ts row (i + 1) rest r.2
      (.openCb ts i :: r.1 ++ q.1, q.2)
    else runOpenFrom sc ts row (i + 1) rest st

/-- actions recorded by one market's `update()` (liquidations, expiries, …): not gated, flag untouched -/
def recUpd (ts : Int) (i : Nat) : List String → St → List Ev × St
  | [], st => ([], st)
  | tag :: tags, st =>
    let st' := { st with cur := st.cur ++ [⟨tag, ts, i⟩], all := st.all ++ [⟨tag, ts, i⟩] }
    let q := recUpd ts i tags st'
    (.uact ts i tag :: q.1, q.2)

/-- `for market in markets: market.update()` -/
def runUpdFrom (sc : Script) (ts : Int) (row : Nat) (i : Nat) : List MarketCfg → St → List Ev × St
  | [], st => ([], st)
  | _ :: rest, st =>
    let r := recUpd ts i (sc.upd row i) st
    let q := runUpdFrom sc ts row (i + 1) rest r.2
    (.update ts i :: r.1 ++ q.1, q.2)

/-- `Actuator.notify(strategy, self._currents.actions)`: `for action in actions: strategy.notify(action)` over the LIVE list — the very
    list `_record_action_list` appends to.  An operation accepted inside `Strategy.notify` is therefore appended behind the iterator's
    position and delivered later in the same loop, in the same bar; the list is replaced by a fresh one only after the loop
    (`self._currents.actions = []`).  `i` is the iterator's position.  A hook that answers every delivery with a new accepted operation
    never lets the loop end; the model observes at most `fuel` deliveries (`barParts`: the length of the list when the loop starts plus
    `Script.fuel`) and reports in its third component whether the loop ended
    (`true`) or was cut off (`false`).  A `write_func` accepted here sets `has_update`, which nothing reads before the next bar's first
    refresh clears it: the market status is not refreshed for it. -/
def runNotify (sc : Script) (ts : Int) (row : Nat) : Nat → Nat → St → List Ev × St × Bool
  | 0, i, st => ([], st, (st.cur[i]?).isNone)
  | fuel + 1, i, st =>
    match st.cur[i]? with
    | none => ([], st, true)
    | some a =>
      let r := runOps ts .notify (sc.notify row a.tag) st
      let q := runNotify sc ts row fuel (i + 1) r.2
      (.notify ts a.tag a.stamp a.m :: r.1 ++ q.1, q.2.1, q.2.2)

/-- the price row of a bar: `self._token_prices.loc[ts]`; outer `none` = KeyError -/
def priceAt (cfg : Cfg) (ts : Int) : Option (Option Int) :=
  if (frameIdx cfg.resample cfg.Δ cfg.priceIdx).contains ts then some (frameSrc cfg.resample cfg.Δ cfg.priceIdx ts) else none

/-- what happens in one iteration of the main loop (actuator.py:420-468), phase by phase; each phase yields the calls
    it makes and the state it leaves -/
structure BarParts where
  price : Option Int                          -- current_price = token_prices.loc[ts]
  s1 : List Ev × List MSt                     -- __set_market_snapshot(ts, False)
  b : List Ev × St                            -- what before_bar does
  tp : List Fire × List Trig × Option PyErr   -- trigger evaluation and retirement
  f : List Ev × St                            -- the trigger actions and what they do
  o : List Ev × St                            -- market.open callbacks
  n : List Ev × St                            -- what on_bar does
  s2 : List Ev × List MSt                     -- __set_market_snapshot(ts, True)
  u : List Ev × St                            -- market.update() of every market
  a : List Ev × St                            -- what after_bar does
  nt : List Ev × St × Bool                    -- the `notify` loop over `_currents.actions` and what the hook does

def barParts (cfg : Cfg) (sc : Script) (row : Nat) (ts : Int) (st : St) (price : Option Int) : BarParts :=
  let s1 := setAllFrom cfg ts 1 0 cfg.markets
  let b := runOps ts .before (sc.before row) { st with ms := s1.2 }
  let tp := trigPhase ts b.2.trigs
  let f := runFires sc ts row tp.1 b.2
  let o := runOpenFrom sc ts row 0 cfg.markets { f.2 with trigs := tp.2.1 }
  let n := runOps ts .on (sc.on row) o.2
  let s2 := setUpdatedFrom cfg ts 0 cfg.markets n.2.ms
  let u := runUpdFrom sc ts row 0 cfg.markets { n.2 with ms := s2.2 }
  let a := runOps ts .after (sc.after row) u.2
  let nt := runNotify sc ts row (a.2.cur.length + sc.fuel) 0 a.2
  ⟨price, s1, b, tp, f, o, n, s2, u, a, nt⟩

/-- the calls of a bar that ends normally, in order -/
def BarParts.trace (p : BarParts) (row : Nat) (ts : Int) : List Ev :=
  p.s1.1 ++ .before ts row p.price :: p.b.1 ++ p.f.1 ++ p.o.1 ++ .on ts row p.price :: p.n.1 ++ p.s2.1 ++ p.u.1
    ++ .after ts row p.price :: p.a.1 ++ .row ts p.price :: p.nt.1

/-- account row appended (before the `notify` loop, which does not touch the rows), `_currents.actions` replaced by an empty list after it -/
def BarParts.final (p : BarParts) (ts : Int) : St :=
  { p.nt.2.1 with rows := p.nt.2.1.rows ++ [(ts, p.price)], cur := [] }

/-- one iteration of the main loop -/
def barStep (cfg : Cfg) (sc : Script) (row : Nat) (ts : Int) (st : St) : List Ev × St × Option PyErr :=
  match priceAt cfg ts with
  | none => ([.raised .keyError], st, some .keyError)
  | some price =>
    let p := barParts cfg sc row ts st price
    match p.tp.2.2 with
    | some e =>   -- a trigger raised: the calls made so far have happened
      (p.s1.1 ++ .before ts row price :: p.b.1 ++ p.f.1 ++ [.raised e], { p.f.2 with trigs := p.tp.2.1 }, some e)
    | none =>
      if p.nt.2.2 then (p.trace row ts, p.final ts, none)
      else (p.trace row ts ++ [.raised .diverges], p.final ts, some .diverges)   -- the `notify` loop was still running after `fuel` deliveries

def runBars (cfg : Cfg) (sc : Script) : Nat → List Int → St → List Ev × St × Option PyErr
  | _, [], st => ([], st, none)
  | row, ts :: bars, st =>
    let r := barStep cfg sc row ts st
    match r.2.2 with
    | some e => (r.1, r.2.1, some e)
    | none =>
      let q := runBars cfg sc (row + 1) bars r.2.1
      (r.1 ++ q.1, q.2.1, q.2.2)

/-! ### before the loop -/

/-- `data.index.get_level_values(0).unique()` of a frame whose time index is non-decreasing: a frame may hold several rows per timestamp
    (a Deribit option book has one row per instrument), `idx` lists the timestamp of every ROW; the distinct timestamps are what is left
    when a row with the timestamp of the row before it is dropped -/
def distinctTimes : List Int → List Int
  | [] => []
  | [a] => [a]
  | a :: b :: l => if a = b then distinctTimes (b :: l) else a :: distinctTimes (b :: l)

/-- `get_test_range`: the distinct timestamps of the first market with the largest number of DISTINCT TIMESTAMPS (not rows) -/
def longestIdx : List MarketCfg → List Int
  | [] => []
  | mc :: rest => if (distinctTimes mc.idx).length < (longestIdx rest).length then longestIdx rest else distinctTimes mc.idx

/-- the bar index of the run -/
def barIndex (cfg : Cfg) : List Int := frameIdx cfg.resample cfg.Δ (longestIdx cfg.markets)

/-- `_check_backtest` -/
def checkBacktest (cfg : Cfg) : Option PyErr :=
  if cfg.Δ < Gen.coreBasicIntervalSec then some .demeterError                         -- "interval should be larger than 1 minute"
  else match cfg.markets with
    | [] => some .demeterError                                  -- "No market assigned"
    | d :: _ =>
      match cfg.priceIdx.head?, cfg.priceIdx.getLast?, d.idx.head?, d.idx.getLast? with
      | some p0, some p1, some d0, some d1 =>
        if d0 < p0 || p1 < d1 then some .demeterError           -- "Time range of price doesn't cover market data"
        else none
      | _, _, _, _ => some .indexError

structure RunResult where
  trace : List Ev
  rows : List (Int × Option Int)
  actions : List Act
  trigsLeft : List Trig
  err : Option PyErr
deriving Repr, Inhabited

/-- `Actuator.run` -/
def run (cfg : Cfg) (trigs : List Trig) (sc : Script) : RunResult :=
  match checkBacktest cfg with
  | some e => ⟨[.raised e], [], [], trigs, some e⟩
  | none =>
    match barIndex cfg with
    | [] => ⟨[.raised .indexError], [], [], trigs, some .indexError⟩
    | ts0 :: bars =>
      match priceAt cfg ts0 with
      | none => ⟨[.raised .keyError], [], [], trigs, some .keyError⟩
      | some _ =>
        let s0 := setAllFrom cfg ts0 0 0 cfg.markets
        let st : St := ⟨s0.2, trigs, [], [], []⟩
        let i := runOps ts0 .init sc.init st
        let r := runBars cfg sc 0 (ts0 :: bars) i.2
        let fin := match r.2.2 with
          | none => [Ev.finalize ((ts0 :: bars).getLast?.getD ts0)]
          | some _ => []
        ⟨s0.1 ++ .initialize ts0 :: i.1 ++ r.1 ++ fin, r.2.1.rows, r.2.1.all, r.2.1.trigs, r.2.2⟩

/-! ### `Actuator.run` as called by the user: the strategy's trigger objects outlive the run

  `run` above starts from the trigger objects as given.  `Actuator.run` (actuator.py, `run` wrapping `_run`) first calls `reset()` on
  every trigger of `strategy.triggers` and, when the run is over (normally or not), puts the list it found back, so the objects the
  loop dropped as out of date are installed again; the objects keep whatever state the run left in them.  The generated flag says
  whether the source still does both (tools/consts_core.py). -/

/-- `strategy.triggers` after the run: the list as found, every object in the state the loop left it in (`live`: the objects still
    installed at the end of the loop; a retired object is one of the stateless classes) -/
def handBack (before live : List Trig) : List Trig :=
  before.map fun t => (live.find? (fun t' => t'.id == t.id)).getD t

def startTrigs (trigs : List Trig) : List Trig := if Gen.coreRunResetsTriggers then trigs.map Trig.reset else trigs

/-- `Actuator.run` on a strategy whose trigger objects are `trigs` (in any state a previous run may have left them in) -/
def actuatorRun (cfg : Cfg) (trigs : List Trig) (sc : Script) : RunResult := run cfg (startTrigs trigs) sc

/-- the strategy's trigger objects after `Actuator.run` -/
def trigsAfterRun (cfg : Cfg) (trigs : List Trig) (sc : Script) : List Trig :=
  if Gen.coreRunResetsTriggers then handBack (startTrigs trigs) (actuatorRun cfg trigs sc).trigsLeft
  else (actuatorRun cfg trigs sc).trigsLeft

/-! ### the property as a predicate on a trace (evaluated by the harness on the implementation's trace, proved of `run`) -/

/-- timestamp of an event -/
def Ev.ts : Ev → Option Int
  | .set ts .. | .initialize ts | .before ts .. | .fire ts .. | .openCb ts .. | .on ts .. | .update ts .. | .uact ts ..
  | .after ts .. | .opOk ts .. | .opRej ts .. | .opFree ts .. | .row ts .. | .notify ts .. | .finalize ts => some ts
  | .raised _ => none

def Hook.phase : Hook → Nat
  | .init => 2 | .before => 5 | .fire _ => 6 | .openCb _ => 7 | .on => 9 | .after => 13 | .notify => 15

/-- position of an event in the fixed order of a bar: 0 refresh before initialize, 1 initialize, 2 what initialize does,
    3 first refresh, 4 before_bar, 5 what it does, 6 trigger actions and what they do, 7 open callbacks and what they do,
    8 on_bar, 9 what it does, 10 second refresh, 11 market update (and what it records), 12 after_bar, 13 what it does,
    14 account row, 15 notify (and what the hook does), 16 finalize -/
def Ev.phase : Ev → Nat
  | .set _ _ stage _ _ => if stage = 0 then 0 else if stage = 1 then 3 else 10
  | .initialize _ => 1
  | .before .. => 4
  | .fire .. => 6
  | .openCb .. => 7
  | .on .. => 8
  | .update .. => 11
  | .uact .. => 11
  | .after .. => 12
  | .opOk _ h _ _ => h.phase
  | .opRej _ h _ _ _ => h.phase
  | .opFree _ h _ _ _ => h.phase
  | .row .. => 14
  | .notify .. => 15
  | .finalize _ => 16
  | .raised _ => 17

end Demeter.Core
