def hello := "world"
