/-
  JSON side of the line protocol: a request line `J {"fn": "...", ...}` is answered by one JSON line.
  Numbers travel as strings (decimal or `n/d`) so nothing is lost; see harness/common.py `driver_json`.
-/
import Lean.Data.Json
import Demeter.Drv.Basic
namespace Demeter.Drv
open Lean

abbrev JHandler := Json → Except String Json

def jStr (j : Json) (k : String) : Except String String := do
  match j.getObjVal? k with
  | .ok (.str s) => pure s
  | .ok v => throw s!"field {k}: expected string, got {v.compress}"
  | .error _ => throw s!"field {k} missing"

/-- a number given as a JSON string (decimal / `n/d`) or as a JSON integer -/
def jRatOf (v : Json) : Except String Rat :=
  match v with
  | .str s => match parseRat s with
    | some r => pure r
    | none => throw s!"not a number: {s}"
  | .num n => pure (mkRat n.mantissa (10 ^ n.exponent))
  | _ => throw s!"not a number: {v.compress}"

def jRat (j : Json) (k : String) : Except String Rat := do
  match j.getObjVal? k with
  | .ok v => jRatOf v
  | .error _ => throw s!"field {k} missing"

def jInt (j : Json) (k : String) : Except String Int := do
  let r ← jRat j k
  if r.den = 1 then pure r.num else throw s!"field {k}: not an integer"

def jNat (j : Json) (k : String) : Except String Nat := do
  let i ← jInt j k
  if i < 0 then throw s!"field {k}: negative" else pure i.toNat

def jBool (j : Json) (k : String) : Except String Bool := do
  match j.getObjVal? k with
  | .ok (.bool b) => pure b
  | .ok v => throw s!"field {k}: expected bool, got {v.compress}"
  | .error _ => throw s!"field {k} missing"

def jArr (j : Json) (k : String) : Except String (Array Json) := do
  match j.getObjVal? k with
  | .ok (.arr a) => pure a
  | .ok v => throw s!"field {k}: expected array, got {v.compress}"
  | .error _ => throw s!"field {k} missing"

def jObj (j : Json) (k : String) : Except String Json := do
  match j.getObjVal? k with
  | .ok v => pure v
  | .error _ => throw s!"field {k} missing"

def jOpt (j : Json) (k : String) : Option Json :=
  match j.getObjVal? k with
  | .ok .null => none
  | .ok v => some v
  | .error _ => none

def jCtx (j : Json) : NumCtx :=
  match j.getObjVal? "ctx" with
  | .ok (.str "exact") => { rnd := id, dsqrt := dsqrt35 }
  | _ => NumCtx.py

def ratJ (r : Rat) : Json := .str (showRat r)
def intJ (i : Int) : Json := .str (toString i)
def natJ (n : Nat) : Json := .str (toString n)

/-- dispatch one request line over both protocols -/
def dispatchLine (hs : List (String × Handler)) (js : List (String × JHandler)) (line : String) : String :=
  if line.startsWith "J " then
    match Json.parse (line.drop 2).toString with
    | .error e => (Json.mkObj [("error", .str s!"parse: {e}")]).compress
    | .ok j =>
      match jStr j "fn" with
      | .error e => (Json.mkObj [("error", .str e)]).compress
      | .ok fn =>
        match js.lookup fn with
        | none => (Json.mkObj [("error", .str s!"unknown-fn {fn}")]).compress
        | some h => match h j with
          | .ok r => r.compress
          | .error e => (Json.mkObj [("error", .str e)]).compress
  else
    match line.splitOn " " with
    | [] => "ERR empty"
    | fn :: args =>
      match hs.lookup fn with
      | none => s!"ERR unknown-fn {fn}"
      | some h => match h args.toArray with
        | .ok s => s
        | .error e => s!"ERR {e}"

partial def serveLoop (hs : List (String × Handler)) (js : List (String × JHandler))
    (hin hout : IO.FS.Stream) : IO Unit := do
  let line ← hin.getLine
  if line.isEmpty then return ()
  let line := (line.dropEndWhile (fun c => c == (Char.ofNat 10) || c == (Char.ofNat 13))).toString
  hout.putStrLn (dispatchLine hs js line)
  serveLoop hs js hin hout

/-- `main` of every driver executable -/
def serve (hs : List (String × Handler)) (js : List (String × JHandler)) : IO Unit := do
  let hin ← IO.getStdin
  let hout ← IO.getStdout
  serveLoop hs js hin hout
  hout.flush

end Demeter.Drv
