import Demeter.Drv.Json
namespace Demeter.Drv
open Demeter Lean

def tickHandlers : List (String × Handler) := []
def tickJHandlers : List (String × JHandler) := []

end Demeter.Drv
