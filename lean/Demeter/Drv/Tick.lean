import Demeter.Drv.Json
import Demeter.TickPrice
namespace Demeter.Drv
open Demeter Lean

private def exStr {α} (sh : α → String) : Except String α → Except String String
  | .ok v => .ok (sh v)
  | .error e => .error e

/-- token protocol of `driver_tick` (arithmetic = CPython: `TickNum.py`):
    `tickToPrice t d0 d1 q0`, `sqrtToPrice sx d0 d1 q0`, `priceToSqrt price d0 d1 q0`, `priceToSqrtX96 …`,
    `priceToTick …` (float log computed here), `priceToTickX96 est price d0 d1 q0`, `fac e`, `lg x`, `sqrtAt t` -/
def tickHandlers : List (String × Handler) := [
  ("sqrtAt", fun a => do
    let t ← argInt a 0
    if !tickOk t then throw "AssertionError" else pure (toString (sqrtAt t))),
  ("tickToPrice", fun a => do
    let t ← argInt a 0; let d0 ← argNat a 1; let d1 ← argNat a 2; let q0 ← argBool a 3
    exStr showRat (tickToPrice TickNum.py t d0 d1 q0)),
  ("sqrtToPrice", fun a => do
    let sx ← argNat a 0; let d0 ← argNat a 1; let d1 ← argNat a 2; let q0 ← argBool a 3
    exStr showRat (sqrtX96ToPrice TickNum.py sx d0 d1 q0)),
  ("priceToSqrt", fun a => do
    let p ← argRat a 0; let d0 ← argNat a 1; let d1 ← argNat a 2; let q0 ← argBool a 3
    exStr showRat (priceToSqrt TickNum.py p d0 d1 q0)),
  ("priceToSqrtX96", fun a => do
    let p ← argRat a 0; let d0 ← argNat a 1; let d1 ← argNat a 2; let q0 ← argBool a 3
    exStr toString (priceToSqrtX96 TickNum.py p d0 d1 q0)),
  ("priceToTick", fun a => do
    let p ← argRat a 0; let d0 ← argNat a 1; let d1 ← argNat a 2; let q0 ← argBool a 3
    exStr toString (priceToTick TickNum.py p d0 d1 q0)),
  ("priceToTickX96", fun a => do
    let est ← argInt a 0
    let p ← argRat a 1; let d0 ← argNat a 2; let d1 ← argNat a 3; let q0 ← argBool a 4
    exStr toString (priceToTickX96 TickNum.py 64 est p d0 d1 q0)),
  ("fac", fun a => do
    let e ← argInt a 0
    pure (showRat (facPy e))),
  ("lg", fun a => do
    let x ← argRat a 0
    pure (toString (lgPy x)))
]
def tickJHandlers : List (String × JHandler) := []

end Demeter.Drv
