/-
  Driver plumbing: a request is one line `fn tok tok …` (tokens separated by single spaces; numbers are
  decimal strings or `n/d`), the answer is one line of space-separated tokens or `ERR <msg>`.
-/
import Demeter.Num
namespace Demeter.Drv

abbrev Handler := Array String → Except String String

def argNat (a : Array String) (i : Nat) : Except String Nat :=
  match a[i]? with
  | some s => match s.toNat? with
    | some n => pure n
    | none => throw s!"arg {i}: not a Nat: {s}"
  | none => throw s!"arg {i} missing"

def argInt (a : Array String) (i : Nat) : Except String Int :=
  match a[i]? with
  | some s => match s.toInt? with
    | some n => pure n
    | none => throw s!"arg {i}: not an Int: {s}"
  | none => throw s!"arg {i} missing"

def argRat (a : Array String) (i : Nat) : Except String Rat :=
  match a[i]? with
  | some s => match parseRat s with
    | some n => pure n
    | none => throw s!"arg {i}: not a number: {s}"
  | none => throw s!"arg {i} missing"

def argBool (a : Array String) (i : Nat) : Except String Bool :=
  match a[i]? with
  | some "1" => pure true
  | some "0" => pure false
  | some s => throw s!"arg {i}: not a Bool: {s}"
  | none => throw s!"arg {i} missing"

def argStr (a : Array String) (i : Nat) : Except String String :=
  match a[i]? with
  | some s => pure s
  | none => throw s!"arg {i} missing"

/-- which arithmetic context the request wants: `py` (round35) or `exact` -/
def argCtx (a : Array String) (i : Nat) : Except String NumCtx :=
  match a[i]? with
  | some "py" => pure NumCtx.py
  | some "exact" => pure { rnd := id, dsqrt := dsqrt35 }
  | _ => throw s!"arg {i}: ctx must be py|exact"

def showBool (b : Bool) : String := if b then "1" else "0"

end Demeter.Drv
