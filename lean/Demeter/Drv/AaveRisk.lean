/-
  Driver handlers of component `aaverisk` (JSON protocol): the harness sends the implementation's dumped
  portfolio (`_supplies`, `_borrows` in dict order, each entry with its token's row for the bar) and gets the
  model's answer under `NumCtx.py` (or `exact`).
-/
import Demeter.Drv.Json
import Demeter.AaveRisk
namespace Demeter.Drv
open Demeter Demeter.AaveRisk Lean

namespace AR

def parseRow (j : Json) : Except String Row := do
  pure { liqIndex := ← jRat j "li", borIndex := ← jRat j "bi", price := ← jRat j "p",
         ltv := ← jRat j "ltv", lt := ← jRat j "lt", bonus := ← jRat j "bonus",
         canColl := ← jBool j "cc", canBorrow := ← jBool j "cb" }

def parseSupply (j : Json) : Except String Supply := do
  pure { tok := ← jStr j "tok", base := ← jRat j "base", coll := ← jBool j "coll", row := ← parseRow (← jObj j "row") }

def parseDebt (j : Json) : Except String Debt := do
  pure { tok := ← jStr j "tok", base := ← jRat j "base", row := ← parseRow (← jObj j "row") }

def parsePortfolio (j : Json) : Except String Portfolio := do
  let ss ← (← jArr j "supplies").toList.mapM parseSupply
  let ds ← (← jArr j "debts").toList.mapM parseDebt
  pure { supplies := ss, debts := ds }

def xratJ (x : XRat) : Json := match x with
  | some v => ratJ v
  | none => .str "inf"

def portfolioJ (p : Portfolio) : Json :=
  Json.mkObj [
    ("supplies", .arr (p.supplies.map (fun s => Json.mkObj [("tok", .str s.tok), ("base", ratJ s.base), ("coll", .bool s.coll)])).toArray),
    ("debts", .arr (p.debts.map (fun d => Json.mkObj [("tok", .str d.tok), ("base", ratJ d.base)])).toArray)]

def actionJ (a : LiqAction) : Json :=
  Json.mkObj [("collTok", .str a.collTok), ("debtTok", .str a.debtTok), ("toCover", ratJ a.toCover),
    ("collUsed", ratJ a.collUsed), ("debtRepaid", ratJ a.debtRepaid), ("hfBefore", xratJ a.hfBefore),
    ("hfAfter", xratJ a.hfAfter), ("collAfter", ratJ a.collAfter), ("debtAfter", ratJ a.debtAfter),
    ("half", .bool a.half), ("capped", .bool a.capped)]

def excJ (e : Option Exc) : Json := match e with
  | some e => .str e.name
  | none => .null

def figuresJ (cx : NumCtx) (p : Portfolio) : Json :=
  Json.mkObj [("hf", xratJ (healthFactor cx p)), ("maxLtv", xratJ (maxLtv cx p)),
    ("liqThreshold", xratJ (liqThreshold cx p)), ("ltv", xratJ (ltv cx p)),
    ("totalSupply", ratJ (totalSupply cx p)), ("totalCollateral", ratJ (totalCollateral cx p)),
    ("totalDebt", ratJ (totalDebt cx p)), ("netValue", ratJ (netValue cx p))]

def causeJ (c : Cause) : Json := Json.mkObj [("error", .str c.exc.name), ("cause", .str c.name)]

def optRat (j : Json) (k : String) : Except String (Option Rat) :=
  match jOpt j k with
  | none => pure none
  | some v => do pure (some (← jRatOf v))

end AR

def aaveRiskHandlers : List (String × Handler) := []

def aaveRiskJHandlers : List (String × JHandler) := [
  ("figures", fun j => do
    let p ← AR.parsePortfolio (← jObj j "state")
    pure (AR.figuresJ (jCtx j) p)),
  ("liquidate", fun j => do
    let cx := jCtx j
    let p ← AR.parsePortfolio (← jObj j "state")
    let r := liquidate cx p
    pure (Json.mkObj [("state", AR.portfolioJ r.p), ("actions", .arr (r.actions.map AR.actionJ).toArray),
      ("visited", .arr (r.visited.map Json.str).toArray), ("error", AR.excJ r.err), ("outOfFuel", .bool r.outOfFuel),
      ("before", AR.figuresJ cx p), ("after", AR.figuresJ cx r.p)])),
  ("borrow", fun j => do
    let cx := jCtx j
    let p ← AR.parsePortfolio (← jObj j "state")
    let tok ← jStr j "tok"
    let row ← AR.parseRow (← jObj j "row")
    let amt ← AR.optRat j "amount"
    match borrow cx p tok row amt with
    | .ok (p', a) => pure (Json.mkObj [("ok", .bool true), ("state", AR.portfolioJ p'), ("amount", ratJ a), ("after", AR.figuresJ cx p')])
    | .error c => pure (AR.causeJ c)),
  ("withdraw", fun j => do
    let cx := jCtx j
    let p ← AR.parsePortfolio (← jObj j "state")
    let tok ← jStr j "tok"
    let amt ← AR.optRat j "amount"
    match withdraw cx p tok amt with
    | .ok (p', a) => pure (Json.mkObj [("ok", .bool true), ("state", AR.portfolioJ p'), ("amount", ratJ a), ("after", AR.figuresJ cx p')])
    | .error c => pure (AR.causeJ c)),
  ("changeCollateral", fun j => do
    let cx := jCtx j
    let p ← AR.parsePortfolio (← jObj j "state")
    let tok ← jStr j "tok"
    let flag ← jBool j "flag"
    match changeCollateral cx p tok flag with
    | .ok p' => pure (Json.mkObj [("ok", .bool true), ("state", AR.portfolioJ p'), ("after", AR.figuresJ cx p')])
    | .error c => pure (AR.causeJ c)),
  ("maxBorrow", fun j => do
    let cx := jCtx j
    let p ← AR.parsePortfolio (← jObj j "state")
    let row ← AR.parseRow (← jObj j "row")
    match maxBorrowAmount cx p row with
    | .ok a => pure (Json.mkObj [("ok", .bool true), ("amount", ratJ a)])
    | .error c => pure (AR.causeJ c)),
  ("maxWithdraw", fun j => do
    let cx := jCtx j
    let p ← AR.parsePortfolio (← jObj j "state")
    let tok ← jStr j "tok"
    match maxWithdrawAmount cx p tok with
    | .ok a => pure (Json.mkObj [("ok", .bool true), ("amount", ratJ a)])
    | .error c => pure (AR.causeJ c))
]

end Demeter.Drv
