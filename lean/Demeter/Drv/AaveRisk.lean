import Demeter.Drv.Json
namespace Demeter.Drv
open Demeter Lean

def aaveRiskHandlers : List (String × Handler) := []
def aaveRiskJHandlers : List (String × JHandler) := []

end Demeter.Drv
