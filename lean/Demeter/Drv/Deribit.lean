/-
  driver_deribit — JSON protocol around Demeter.Deribit.
  `{"fn":"step","cfg":"ETH"|"BTC","ctx":"py"|"exact","float":"ieee"|"ideal","state":{…},"op":{…}}`
  → `{"outcome":"ok"|<exception class>,"cause":…,"result":…,"state":{…},"actions":[…]}`
  `{"fn":"bars", …, "state":{…}, "bars":[{"now","flagOpen","book","price","ops":[…]}]}` → per-bar states (C16).
-/
import Demeter.Drv.Json
import Demeter.Deribit
import Demeter.Deribit.Run
import Demeter.Deribit.Guard
import Demeter.Deribit.Frame
namespace Demeter.Drv
open Demeter Demeter.Deribit Lean

namespace DeribitJ

def optRat (j : Json) (k : String) : Except String (Option Rat) :=
  match jOpt j k with
  | none => pure none
  | some v => do let r ← jRatOf v; pure (some r)

def kindOf (s : String) : Except String Kind :=
  if s = "CALL" then pure .call else if s = "PUT" then pure .put else throw s!"kind {s}"
def kindJ : Kind → Json
  | .call => .str "CALL"
  | .put => .str "PUT"

def levelOf (v : Json) : Except String Level :=
  match v with
  | .arr #[p, s, .bool f] => do
    let p ← jRatOf p; let s ← jRatOf s
    pure { price := p, size := s, isFloat := f }
  | _ => throw s!"level: {v.compress}"
def levelJ (l : Level) : Json := .arr #[ratJ l.price, ratJ l.size, .bool l.isFloat]

def levelsOf (j : Json) (k : String) : Except String (List Level) := do
  let a ← jArr j k
  a.toList.mapM levelOf

def instrOf (j : Json) : Except String Instr := do
  let name ← jStr j "name"
  let o ← jBool j "open"
  let kind ← kindOf (← jStr j "kind")
  let strike ← jRat j "strike"
  let expiry ← jInt j "expiry"
  let mark ← jRat j "mark"
  let under ← jRat j "underlying"
  let delta ← jRat j "delta"
  let gamma ← jRat j "gamma"
  let asks ← levelsOf j "asks"
  let bids ← levelsOf j "bids"
  pure { name := name, stateOpen := o, kind := kind, strike := strike, expiry := expiry, mark := mark,
         underlying := under, delta := delta, gamma := gamma, asks := asks, bids := bids }

def instrJ (i : Instr) : Json :=
  Json.mkObj [("name", .str i.name), ("open", .bool i.stateOpen), ("kind", kindJ i.kind), ("strike", ratJ i.strike),
    ("expiry", intJ i.expiry), ("mark", ratJ i.mark), ("underlying", ratJ i.underlying), ("delta", ratJ i.delta),
    ("gamma", ratJ i.gamma), ("asks", .arr (i.asks.map levelJ).toArray), ("bids", .arr (i.bids.map levelJ).toArray)]

def posOf (j : Json) : Except String (String × Position) := do
  let key ← jStr j "key"
  let name ← jStr j "name"
  let expiry ← jInt j "expiry"
  let strike ← jRat j "strike"
  let kind ← kindOf (← jStr j "kind")
  let amount ← jRat j "amount"
  let avgBuy ← jRat j "avgBuy"
  let buyAmt ← jRat j "buyAmt"
  let avgSell ← jRat j "avgSell"
  let sellAmt ← jRat j "sellAmt"
  pure (key, { name := name, expiry := expiry, strike := strike, kind := kind, amount := amount, avgBuy := avgBuy,
               buyAmt := buyAmt, avgSell := avgSell, sellAmt := sellAmt })

def posJ (kp : String × Position) : Json :=
  let p := kp.2
  Json.mkObj [("key", .str kp.1), ("name", .str p.name), ("expiry", intJ p.expiry), ("strike", ratJ p.strike),
    ("kind", kindJ p.kind), ("amount", ratJ p.amount), ("avgBuy", ratJ p.avgBuy), ("buyAmt", ratJ p.buyAmt),
    ("avgSell", ratJ p.avgSell), ("sellAmt", ratJ p.sellAmt)]

def balOf (j : Json) : Except String Balance := do
  pure { netValue := ← jRat j "netValue", cash := ← jRat j "cash", premium := ← jRat j "premium",
         delta := ← jRat j "delta", gamma := ← jRat j "gamma" }
def balJ (b : Balance) : Json :=
  Json.mkObj [("netValue", ratJ b.netValue), ("cash", ratJ b.cash), ("premium", ratJ b.premium),
    ("delta", ratJ b.delta), ("gamma", ratJ b.gamma)]
def optBalJ : Option Balance → Json
  | none => .null
  | some b => balJ b

def walletOf (j : Json) (k : String) : Except String Wallet := do
  let a ← jArr j k
  a.toList.mapM (fun v => match v with
    | .arr #[.str t, b] => do let b ← jRatOf b; pure (t, b)
    | _ => throw s!"wallet entry {v.compress}")
def walletJ (w : Wallet) : Json := .arr (w.map (fun (t, b) => Json.arr #[.str t, ratJ b])).toArray

def bookOf (j : Json) (k : String) : Except String (List Instr) := do
  let a ← jArr j k
  a.toList.mapM instrOf

def stateOf (j : Json) : Except String DState := do
  let cash ← jRat j "cash"
  let ps ← jArr j "positions"
  let positions ← ps.toList.mapM posOf
  let book ← bookOf j "book"
  let wallet ← walletOf j "wallet"
  let allowNeg ← jBool j "allowNeg"
  let cache ← match jOpt j "cache" with
    | none => pure none
    | some c => do let b ← balOf c; pure (some b)
  let flagOpen ← jBool j "flagOpen"
  let now ← jInt j "now"
  let price ← jRat j "price"
  let priceDec ← jBool j "priceDec"
  pure { cash := cash, positions := positions, book := book, wallet := wallet, allowNeg := allowNeg, actions := [],
         cache := cache, flagOpen := flagOpen, now := now, price := price, priceDec := priceDec }

def stateJ (s : DState) : Json :=
  Json.mkObj [("cash", ratJ s.cash), ("positions", .arr (s.positions.map posJ).toArray),
    ("book", .arr (s.book.map instrJ).toArray), ("wallet", walletJ s.wallet), ("allowNeg", .bool s.allowNeg),
    ("cache", optBalJ s.cache), ("flagOpen", .bool s.flagOpen), ("now", intJ s.now), ("price", ratJ s.price), ("priceDec", .bool s.priceDec)]

def fillJ (f : Fill) : Json := .arr #[ratJ f.price, ratJ f.amount]

def tradeJ (t : String) (r : TradeRec) : Json :=
  Json.mkObj [("type", .str t), ("name", .str r.name), ("kind", kindJ r.kind), ("avgPrice", ratJ r.avgPrice),
    ("amount", ratJ r.amount), ("premium", ratJ r.premium), ("mark", ratJ r.markD), ("underlying", ratJ r.underD),
    ("fee", ratJ r.fee), ("orders", .arr (r.orders.map fillJ).toArray)]

def settleFields (r : SettleRec) : List (String × Json) :=
  [("name", .str r.name), ("kind", kindJ r.kind), ("mark", ratJ r.markR), ("amount", ratJ r.amount),
   ("premium", ratJ r.premium), ("strike", ratJ r.strike), ("underlying", ratJ r.underR)]

def actionJ : Action → Json
  | .buy r => tradeJ "buy" r
  | .sell r => tradeJ "sell" r
  | .deposit t a => Json.mkObj [("type", .str "deposit"), ("token", .str t), ("amount", ratJ a)]
  | .withdraw t a => Json.mkObj [("type", .str "withdraw"), ("token", .str t), ("amount", ratJ a)]
  | .deliver r d f i => Json.mkObj ([("type", .str "deliver")] ++ settleFields r ++
      [("deliverAmount", ratJ d), ("fee", ratJ f), ("income", ratJ i)])
  | .expired r => Json.mkObj ([("type", .str "expired")] ++ settleFields r)

def reqOf (j : Json) : Except String Req := do
  pure { name := ← jStr j "name", amount := ← jRat j "amount", priceTok := ← optRat j "priceTok",
         priceUsd := ← optRat j "priceUsd", mult := ← optRat j "mult" }

def opOf (j : Json) : Except String Op := do
  let t ← jStr j "type"
  match t with
  | "buy" => do pure (.buy (← reqOf j))
  | "sell" => do pure (.sell (← reqOf j))
  | "deposit" => do pure (.deposit (← jRat j "amount"))
  | "withdraw" => do pure (.withdraw (← jRat j "amount"))
  | "balance" => pure .balance
  | "update" => pure .update
  | _ => throw s!"op type {t}"

def resJ : Res → Json
  | .trade fs fee => Json.mkObj [("fills", .arr (fs.map fillJ).toArray), ("fee", ratJ fee)]
  | .cashR v => ratJ v
  | .balance b => optBalJ b
  | .unit => .null

def cfgOf (j : Json) : TokenCfg :=
  match j.getObjVal? "cfg" with
  | .ok (.str "BTC") => btcCfg
  | _ => ethCfg

def dctxOf (j : Json) : DCtx :=
  let n := jCtx j
  match j.getObjVal? "float" with
  | .ok (.str "ideal") => DCtx.ideal n
  | _ => DCtx.ieee n

def answer (o : Outcome) (s : DState) : Json :=
  let (oc, cause, res) : String × String × Json :=
    match o with
    | .ok r => ("ok", "", resJ r)
    | .error e => (e.cls, e.cause, .null)
  Json.mkObj [("outcome", .str oc), ("cause", .str cause), ("result", res), ("state", stateJ s),
    ("actions", .arr (s.actions.map actionJ).toArray)]

def stepH : JHandler := fun j => do
  let s ← stateOf (← jObj j "state")
  let op ← opOf (← jObj j "op")
  -- `stepE`: `step` with the exception `update()` raises when a due in-the-money position has underlying price 0
  let (o, s') := stepE (dctxOf j) (cfgOf j) s op
  pure (answer o s')

/-- C16: the bar loop.  `books` is a list of books, each bar `{"now","flagOpen","book":<index>,"price","priceDec","ops":[…]}` -/
def barOf (books : Array (List Instr)) (frame : Option Frame) (j : Json) : Except String Bar := do
  let now ← jInt j "now"
  let price ← jRat j "price"
  let priceDec ← jBool j "priceDec"
  let ops ← (← jArr j "ops").toList.mapM opOf
  match frame with
  | some d =>
    -- `is_open` and the book are the model's own: `timestamp in _data.index`, `_data.loc[timestamp.floor("1h")]`
    pure (barOfFrame d now price priceDec ops)
  | none =>
    let fo ← jBool j "flagOpen"
    let bi ← jNat j "book"
    let book ← match books[bi]? with
      | some b => pure b
      | none => throw s!"book index {bi}"
    pure { now := now, flagOpen := fo, book := book, price := price, priceDec := priceDec, ops := ops }

/-- optional `"frame": [{"t": minute, "book": index into books}]`: the option frame `_data` -/
def frameOf (books : Array (List Instr)) (j : Json) : Except String (Option Frame) :=
  match jOpt j "frame" with
  | some (.arr a) => do
    let es ← a.toList.mapM (fun e => do
      let t ← jInt e "t"
      let bi ← jNat e "book"
      match books[bi]? with
      | some b => pure (t, b)
      | none => throw s!"frame book index {bi}")
    pure (some es)
  | _ => pure none

/-- the optional hook lists of a bar: `opsAfter` (after_bar), `opsNotify` (Strategy.notify) -/
def opsOpt (j : Json) (k : String) : Except String (List Op) :=
  match jOpt j k with
  | some (.arr a) => a.toList.mapM opOf
  | _ => pure []

def barsH : JHandler := fun j => do
  let s ← stateOf (← jObj j "state")
  let books ← (← jArr j "books").mapM (fun b => match b with
    | .arr a => a.toList.mapM instrOf
    | _ => throw "books entry")
  let frame ← frameOf books j
  let bars ← (← jArr j "bars").toList.mapM (fun bj => do
    let b ← barOf books frame bj
    let a ← opsOpt bj "opsAfter"
    let n ← opsOpt bj "opsNotify"
    pure (b, a, n))
  let cx := dctxOf j
  let c := cfgOf j
  -- per bar: outcomes of the ops (all hooks, in execution order; balance reads with their value), state at the end of the bar
  -- (without the book), appended actions, balance reported in the account row
  let rec go (s : DState) (bs : List (Bar × List Op × List Op)) (acc : Array Json) : Array Json :=
    match bs with
    | [] => acc
    | (b, a, n) :: bs =>
      let r := runBarX cx c s b a n
      let item := Json.mkObj [("outcomes", .arr (r.outcomes.map (fun o => match o with
                      | .ok _ => Json.str "ok"
                      | .error e => Json.str e.cls)).toArray),
                    ("results", .arr (r.outcomes.map (fun o => match o with
                      | .ok (.balance bal) => optBalJ bal
                      | _ => Json.null)).toArray),
                    ("state", stateJ { r.state with book := [] }), ("actions", .arr (r.state.actions.map actionJ).toArray),
                    ("balance", optBalJ r.balance)]
      go { r.state with actions := [] } bs (acc.push item)
  let s0 := match bars with
    | [] => s
    | (b, _, _) :: _ => runInit cx c s b
  pure (Json.mkObj [("bars", .arr (go s0 bars #[]))])

/-- `round_decimal`, `repr` helpers exposed for direct differential tests -/
def roundDecH : JHandler := fun j => do
  let e ← jInt j "exp"
  let x ← jRat j "x"
  pure (ratJ (roundDec e x))

def reprH : JHandler := fun j => do
  let x ← jRat j "x"
  pure (ratJ (shortestRepr x))

end DeribitJ

def deribitHandlers : List (String × Handler) := []
def deribitJHandlers : List (String × JHandler) :=
  [("step", DeribitJ.stepH), ("bars", DeribitJ.barsH), ("roundDec", DeribitJ.roundDecH), ("repr", DeribitJ.reprH)]

end Demeter.Drv
