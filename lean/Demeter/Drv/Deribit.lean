import Demeter.Drv.Json
namespace Demeter.Drv
open Demeter Lean

def deribitHandlers : List (String × Handler) := []
def deribitJHandlers : List (String × JHandler) := []

end Demeter.Drv
