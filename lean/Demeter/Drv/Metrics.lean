import Demeter.Drv.Json
namespace Demeter.Drv
open Demeter Lean

def metricsHandlers : List (String × Handler) := []
def metricsJHandlers : List (String × JHandler) := []

end Demeter.Drv
