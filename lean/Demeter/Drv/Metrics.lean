/-
  driver_metrics — JSON handlers around Demeter.Metrics (C20) and Demeter.Manager (C19).
  Oracles: `pow` and `sqrt` are evaluated with Lean `Float` (libm `pow`, IEEE `sqrt`) on the nearest doubles
  of the exact rational arguments; a nan/inf answer is `none`.
-/
import Demeter.Drv.Json
import Demeter.Metrics
import Demeter.Manager
namespace Demeter.Drv
open Demeter Demeter.Metrics Lean

def metricsOrc : Orc where
  pow b e := floatToRat? (Float.pow (ratToFloat b) (ratToFloat e))
  sqrt x := floatToRat? (Float.sqrt (ratToFloat x))

def jRatList (j : Json) (k : String) : Except String (List Rat) := do
  let a ← jArr j k
  a.toList.mapM jRatOf

def jRatListOpt (j : Json) (k : String) : Except String (Option (List Rat)) :=
  match jOpt j k with
  | none => pure none
  | some (.arr a) => do pure (some (← a.toList.mapM jRatOf))
  | some v => throw s!"field {k}: expected array, got {v.compress}"

def jRatOpt (j : Json) (k : String) : Except String (Option Rat) :=
  match jOpt j k with
  | none => pure none
  | some v => do pure (some (← jRatOf v))

/-- a result for a 1e-9 comparison: rationals with more than ~600 bits are rounded to 60 significant digits
    (sums over quotients of doubles have denominators of 10^5 bits) -/
def bigJ (r : Rat) : Json :=
  if r.den.log2 > 600 || r.num.natAbs.log2 > 1200 then ratJ (roundSig 60 r) else ratJ r

def resJ (r : R Rat) : Json :=
  match r with
  | .ok v => Json.mkObj [("outcome", .str "ok"), ("value", bigJ v)]
  | .error e => Json.mkObj [("outcome", .str e.name)]

def valJ (v : Val) : Json :=
  match v with
  | some x => bigJ x
  | none => .str "nonfinite"

def listJ (l : List Rat) : Json := .arr (l.map bigJ).toArray

def metricsHandlers : List (String × Handler) := []

def metricsJHandlers : List (String × JHandler) := [
  ("mdd", fun j => do
    let xs ← jRatList j "xs"
    let s := withdrawHighLow xs
    -- the quadratic definition and the running-peak form only on request (short series)
    let withSpec := match jOpt j "spec" with | some (.bool true) => true | _ => false
    let extra := if withSpec then
        [("spec", ratJ (mddSpec xs)), ("peak", ratJ (match xs with | [] => 0 | x :: _ => mddPeak x xs))] else []
    pure (Json.mkObj ([("code", resJ (maxDrawDown xs)), ("high", natJ s.gHigh), ("low", natJ s.gLow), ("g", ratJ s.g),
      ("old", resJ (maxDrawDownOld xs))] ++ extra))),
  ("returns", fun j => do
    let xs ← jRatList j "xs"
    pure (Json.mkObj [("multiple", listJ (returnMultiple xs)), ("rates", listJ (returnRateSeries xs)),
      ("prodMultiple", ratJ (prod (returnMultiple xs))),
      ("prodRates", ratJ (prod ((returnRateSeries xs).map (· + 1))))])),
  ("returnRate", fun j => do
    let i ← jRat j "init"; let f ← jRat j "final"
    pure (Json.mkObj [("rate", resJ (returnRate i f)), ("value", ratJ (returnValue i f))])),
  ("annualized", fun j => do
    let it ← jStr j "interest"
    let it := if it == "single" then Interest.single else if it == "compound" then Interest.compound else Interest.other
    let d ← jRat j "d"
    let a : AnnArgs := { init := ← jRatOpt j "init", final := ← jRatOpt j "final",
                         rates := ← jRatListOpt j "rates", nets := ← jRatListOpt j "nets" }
    pure (resJ (annualizedReturn metricsOrc it d a))),
  ("volatility", fun j => do
    let rs ← jRatList j "returns"; let iv ← jRat j "interval"
    pure (Json.mkObj [("vol", resJ (volatility metricsOrc rs iv)), ("var", resJ (sampleVar rs))])),
  ("sharpe", fun j => do
    let xs ← jRatList j "values"; let iv ← jRat j "interval"; let d ← jRat j "duration"; let rf ← jRat j "rf"
    pure (resJ (sharpeRatio metricsOrc iv d xs rf))),
  ("alphabeta", fun j => do
    let xs ← jRatList j "values"; let bs ← jRatList j "bench"; let d ← jRat j "duration"
    -- outcome "nonfinite" when a component is nan/inf; the components are reported separately (beta stays finite when only an
    -- APR overflows)
    match alphaBeta metricsOrc xs bs d with
    | .ok (a, b) => pure (Json.mkObj [("outcome", .str (if a.isSome && b.isSome then "ok" else "nonfinite")),
        ("alpha", valJ a), ("beta", valJ b)])
    | .error e => pure (Json.mkObj [("outcome", .str e.name)])),
  ("perf", fun j => do
    -- no "rf": the call leaves `annualized_risk_free_rate` to its default (read from the source: Gen.metricsDefaultRiskFree)
    let xs ← jRatList j "values"; let rf ← jRatOpt j "rf"
    let t0 ← jInt j "t0"; let t1 ← jInt j "t1"; let te ← jInt j "tEnd"
    let bench ← jRatListOpt j "bench"
    match performanceMetricsOpt metricsOrc t0 t1 te xs rf bench with
    | .error e => pure (Json.mkObj [("outcome", .str e.name)])
    | .ok p => pure (Json.mkObj [("outcome", .str "ok"), ("startVal", ratJ p.startVal), ("endVal", ratJ p.endVal),
        ("intervalInDay", ratJ p.intervalInDay), ("durationInDay", ratJ p.durationInDay),
        ("returnValue", ratJ p.returnValue), ("returnRate", valJ p.returnRate), ("annualized", valJ p.annualized),
        ("mdd", valJ p.mdd), ("sharpe", valJ p.sharpe), ("volatility", valJ p.volatility),
        ("alpha", valJ p.alpha), ("beta", valJ p.beta), ("benchRate", valJ p.benchRate), ("benchApr", valJ p.benchApr)])),
  -- C19: the manager model on the projection "what does each strategy find in the objects it is handed";
  -- `effects` = [[posA, posB, cols, vals, cellsUser, cellsFill, prices], …] in submission order, tasks assigned round-robin to
  -- the workers or all to one worker (the theorems say the assignment is irrelevant for the current code); `fails` = per strategy,
  -- does its backtest end in an exception (missing: nobody fails).  Answer: `outcome` = "ok" (run() returned), "aborted" (run()
  -- re-raised a backtest's exception) or the class run() raised before any backtest; `results` = per strategy, has it a result;
  -- `found` = per strategy null (no result) or [positions on market 1, on market 2, references between markets intact, columns,
  -- values, depth missing, price cells]
  ("manager", fun j => do
    let threads ← jNat j "threads"
    let attach ← jStr j "attach"
    let flag (k : String) (dflt : Bool) : Bool := match jOpt j k with | some (.bool b) => b | _ => dflt
    let cow := flag "cow" true
    let md : Manager.Mode := if attach == "original" then Manager.Mode.original cow else Manager.Mode.current cow
    -- treatment of failing backtests: as the source says now (or as before the repair), unless the request fixes it
    let fm0 : Manager.FailMode := if attach == "original" then Manager.FailMode.beforeRepair else Manager.FailMode.current
    let fm : Manager.FailMode := ⟨flag "catches" fm0.catchesInProcess, flag "forkPoolWaits" fm0.forkPoolWaits,
      flag "argsPoolWaits" fm0.argsPoolWaits⟩
    let effs ← jArr j "effects"
    let fails : List Bool ← match jOpt j "fails" with
      | none => pure []
      | some (.arr a) => a.toList.mapM (fun x => match x with
          | .bool b => pure b
          | _ => throw "fails: expected an array of booleans")
      | some _ => throw "fails: expected an array of booleans"
    if !fails.isEmpty && fails.length != effs.size then throw "fails: one entry per strategy expected"
    let effects ← effs.toList.mapM (fun e => match e with
      | .arr #[a, b, c, v, nu, nf, p] => do
        let n (x : Json) : Except String Nat := do pure (← jRatOf x).num.toNat
        pure (⟨← n a, ← n b, ← n c, ← n v, ← n nu, ← n nf, ← n p⟩ : Manager.Effect)
      | _ => throw "effects: expected [posA, posB, cols, vals, cellsUser, cellsFill, prices]")
    -- process-wide state: `gwrites` = per strategy, how much its backtest leaves changed in the process it ran in (missing: nothing);
    -- every backtest observes the state it finds (`foundG`); the caller's process and spawned workers start at 0
    let natArr (k : String) : Except String (List Nat) := match jOpt j k with
      | none => pure []
      | some (.arr a) => a.toList.mapM (fun x => do pure (← jRatOf x).num.toNat)
      | some _ => throw (k ++ ": expected an array of naturals")
    let gwrites ← natArr "gwrites"
    if !gwrites.isEmpty && gwrites.length != effs.size then throw "gwrites: one entry per strategy expected"
    let assigned ← natArr "assign"
    if !assigned.isEmpty && assigned.length != effs.size then throw "assign: one worker index per strategy expected"
    -- … on top of what the source says the Actuator itself leaves behind (a class-level `Snapshot.market_status`: every backtest writes)
    let strats := effects.zipIdx.map (fun (e, i) =>
      (Manager.probeGStrat e (fails.getD i false) (gwrites.getD i 0)).underActuator Gen.snapshotHoldsNoSharedObject (fun g _ _ => g + 1))
    let cpu := match jOpt j "cpu" with | some (.num n) => n.mantissa.toNat | _ => 1024
    let env := Manager.probeEnv (flag "priceDec" false) (flag "linked" false)
    let cfg : Option Manager.PM := if flag "cfgNone" false then none else some (0, 0, true)
    let dat : Option Manager.PData := if flag "dataNone" false then none else some ⟨0, 0, 0, (0, false)⟩
    -- scheduling: round-robin, or every task on the same worker (`oneWorker`); and, where tasks are fetched with `.get()`, every
    -- later task finished when the first failure re-raises, or none of them (`noneFinished`): where the answers differ the
    -- prediction depends on the schedule (never with the current code)
    -- `assign` = the observed assignment (worker index per task, in submission order), if the request carries one
    let assign : Nat → Nat := if flag "oneWorker" false then (fun _ => 0)
      else if !assigned.isEmpty then (fun i => assigned.getD i 0) else (fun i => i % (max threads 1))
    let finished : Nat → Bool := if flag "noneFinished" false then (fun _ => false) else (fun _ => true)
    let answer (outcome : String) (res : List (Option ((Manager.PM × Manager.PData) × Nat))) : Json :=
      Json.mkObj [("outcome", .str outcome),
        ("results", .arr (res.map (fun r => Json.bool r.isSome)).toArray),
        ("found", .arr (res.map (fun r => match r with
          | none => Json.null
          | some (o, _) => Json.arr #[natJ o.1.1, natJ o.1.2.1, .bool o.1.2.2, natJ o.2.cols, natJ o.2.vals,
              natJ o.2.cells, natJ o.2.prices.1])).toArray),
        ("foundG", .arr (res.map (fun r => match r with
          | none => Json.null
          | some (_, g) => natJ g)).toArray)]
    match Manager.managerRunG env md fm threads cpu (flag "windows" false) (flag "ctxSet" false) assign finished 0 0 cfg dat strats with
    | .done res => pure (answer "ok" res)
    | .aborted res => pure (answer "aborted" res)
    | .raised cls => pure (Json.mkObj [("outcome", .str cls)]))
]

end Demeter.Drv
