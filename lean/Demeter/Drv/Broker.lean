import Demeter.Drv.Json
import Demeter.Broker
namespace Demeter.Drv
open Demeter Lean

def jPairs (j : Json) (k : String) : Except String (AList String Rat) := do
  let a ← jArr j k
  a.toList.mapM fun e => match e with
    | .arr #[.str t, v] => do pure (t, ← jRatOf v)
    | _ => throw s!"field {k}: expected [token, number] pairs"

def jMarkets (j : Json) (k : String) : Except String (List MarketNV) := do
  let a ← jArr j k
  a.toList.mapM fun e => match e with
    | .arr #[.str n, .str q, v] => do pure { name := n, quote := q, nv := ← jRatOf v }
    | _ => throw s!"field {k}: expected [name, quote, nv] triples"

def pairsJ (w : AList String Rat) : Json := .arr (w.map fun (t, v) => Json.arr #[.str t, ratJ v]).toArray

def errName : BrokerErr → String
  | .keyError => "KeyError" | .assertion => "AssertionError" | .zeroDiv => "DivisionByZero"
  | .insufficient => "AssertionError" | .unknownToken => "DemeterError" | .negativeAmount => "DemeterError"

def swapJ (r : Except (BrokerErr × Wallet) SwapResult) : Json :=
  match r with
  | .ok s => Json.mkObj [("wallet", pairsJ s.wallet), ("from_amount", ratJ s.fromAmount), ("to_amount", ratJ s.toAmount), ("fee", ratJ s.fee)]
  | .error (e, w) => Json.mkObj [("error", .str (errName e)), ("cause", .str (reprStr e)), ("wallet", pairsJ w)]

def optRatJ : Option Rat → Json
  | some r => ratJ r
  | none => .null

def brokerHandlers : List (String × Handler) := []
def brokerJHandlers : List (String × JHandler) := [
  ("accountStatus", fun j => do
    let cx := jCtx j
    let q ← jStr j "quote"
    let prices ← jPairs j "prices"
    let ms ← jMarkets j "markets"
    let w ← jPairs j "wallet"
    let spec := specNetValue q prices ms w
    match accountStatus cx q prices ms w with
    | some s => pure (Json.mkObj [("asset_value", ratJ s.assetValue), ("net_value", ratJ s.netValue), ("spec", optRatJ spec)])
    | none => pure (Json.mkObj [("error", .str "KeyError"), ("spec", optRatJ spec)])),
  ("swapByFrom", fun j => do
    let cx := jCtx j
    pure (swapJ (swapByFrom cx (← jPairs j "wallet") (← jBool j "allow_neg") (← jStr j "from") (← jStr j "to")
      (← jRat j "amount") (← jPairs j "prices") (← jRat j "fee_rate")))),
  ("swapByTo", fun j => do
    let cx := jCtx j
    pure (swapJ (swapByTo cx (← jPairs j "wallet") (← jBool j "allow_neg") (← jStr j "from") (← jStr j "to")
      (← jRat j "amount") (← jPairs j "prices") (← jRat j "fee_rate")))),
  ("assetSub", fun j => do
    let cx := jCtx j
    match assetSub cx (← jRat j "balance") (← jRat j "amount") (← jBool j "allow_neg") with
    | some b => pure (Json.mkObj [("balance", ratJ b)])
    | none => pure (Json.mkObj [("error", .str "AssertionError")]))
]
end Demeter.Drv
