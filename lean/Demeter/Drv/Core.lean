import Demeter.Drv.Json
import Demeter.Trigger
import Demeter.Actuator
import Demeter.Actuator.Causal
import Demeter.Actuator.Hooks
import Demeter.Actuator.Rerun
import Demeter.Actuator.Finalize
import Demeter.Actuator.Strict
namespace Demeter.Drv
open Demeter Demeter.Core Lean

namespace CoreDrv

def jIntOf (v : Json) : Except String Int := do
  let r ← jRatOf v
  if r.den = 1 then pure r.num else throw "not an integer"

def jIntArr (j : Json) (k : String) : Except String (List Int) := do
  let a ← jArr j k
  a.toList.mapM jIntOf

def jPairArr (j : Json) (k : String) : Except String (List (Int × Int)) := do
  let a ← jArr j k
  a.toList.mapM fun v => match v with
    | .arr #[x, y] => do pure (← jIntOf x, ← jIntOf y)
    | _ => throw "expected [s, e]"

def jStrD (j : Json) (k : String) (d : String) : String :=
  match j.getObjVal? k with
  | .ok (.str s) => s
  | _ => d

def parseSpec (j : Json) : Except String TrigSpec := do
  match ← jStr j "k" with
  | "base" => pure .base
  | "atTime" => pure (.atTime (← jInt j "s"))
  | "atTimes" => pure (.atTimes (← jIntArr j "ss"))
  | "range" => pure (.range (← jInt j "s") (← jInt j "e"))
  | "ranges" => pure (.ranges (← jPairArr j "rs"))
  | "period" => pure (.period (← jInt j "d") (← jBool j "imm") (← jInt j "pend"))
  | "periods" => pure (.periods (← jIntArr j "ds") (← jBool j "imm") (← jInt j "pend"))
  | k => throw s!"unknown trigger kind {k}"

def errJ : Option PyErr → Json
  | none => .null
  | some e => .str e.name

def intsJ (l : List Int) : Json := .arr (l.map intJ).toArray

/-- construct every spec; the ones that construct are installed in order -/
def buildTrigs (specs : List (String × TrigSpec)) : List Json × List (String × TrigSpec × TrigKind) :=
  specs.foldr (fun (kw, sp) (ms, ok) =>
    match sp.make with
    | .ok k => (Json.null :: ms, (kw, sp, k) :: ok)
    | .error e => (Json.str e.name :: ms, ok)) ([], [])

def trigRunH : JHandler := fun j => do
  let bars ← jIntArr j "bars"
  let specsJ ← jArr j "specs"
  let specs ← specsJ.toList.mapM fun s => do pure (jStrD s "kw" "", ← parseSpec s)
  let (made, ok) := buildTrigs specs
  let trigs := install (ok.map fun (kw, _, k) => (kw, k))
  let (fires, left, err) := trigRun bars trigs
  let t0 := bars.headD 0
  let den := ok.map fun (_, sp, _) => intsJ (bars.filter (denotes t0 sp))
  pure <| Json.mkObj [
    ("make", .arr made.toArray),
    ("fires", .arr (fires.map fun f => Json.arr #[intJ f.ts, natJ f.id, .str f.kw]).toArray),
    ("left", .arr (left.map fun t => natJ t.id).toArray),
    ("err", errJ err),
    ("denoted", .arr den.toArray)]

/-! #### the bar loop -/

def iJ (i : Int) : Json := .num (JsonNumber.fromInt i)
def nJ (n : Nat) : Json := .num (JsonNumber.fromNat n)
def oJ : Option Int → Json
  | none => .null
  | some i => iJ i

def hookJ : Hook → Json
  | .init => "init" | .before => "before" | .fire i => .str s!"fire:{i}" | .openCb m => .str s!"open:{m}"
  | .on => "on" | .after => "after" | .notify => "notify"

def evJ : Ev → Json
  | .set ts m stage o src => .arr #["set", iJ ts, nJ m, nJ stage, .bool o, oJ src]
  | .initialize ts => .arr #["initialize", iJ ts]
  | .before ts row p => .arr #["before", iJ ts, nJ row, oJ p]
  | .fire ts id kw => .arr #["fire", iJ ts, nJ id, .str kw]
  | .openCb ts m => .arr #["open", iJ ts, nJ m]
  | .on ts row p => .arr #["on", iJ ts, nJ row, oJ p]
  | .update ts m => .arr #["update", iJ ts, nJ m]
  | .uact ts m tag => .arr #["uact", iJ ts, nJ m, .str tag]
  | .after ts row p => .arr #["after", iJ ts, nJ row, oJ p]
  | .opOk ts h m tag => .arr #["ok", iJ ts, hookJ h, nJ m, .str tag]
  | .opRej ts h m tag c => .arr #["rej", iJ ts, hookJ h, nJ m, .str tag, .bool c]
  | .opFree ts h m tag ok => .arr #["free", iJ ts, hookJ h, nJ m, .str tag, .bool ok]
  | .row ts p => .arr #["row", iJ ts, oJ p]
  | .notify ts tag stamp m => .arr #["notify", iJ ts, .str tag, iJ stamp, nJ m]
  | .finalize ts => .arr #["finalize", iJ ts]
  | .raised e => .arr #["raised", .str e.name]

def natOf (v : Json) : Except String Nat := do
  let i ← jIntOf v
  if i < 0 then throw "negative" else pure i.toNat

def opOf (v : Json) : Except String OpSpec :=
  match v with
  | .arr #[m, .bool ok, .str tag] => do pure ⟨← natOf m, ok, tag, true⟩
  | .arr #[m, .bool ok, .str tag, .bool gated] => do pure ⟨← natOf m, ok, tag, gated⟩
  | _ => throw s!"bad op {v.compress}"

def opsOf (v : Json) : Except String (List OpSpec) :=
  match v with
  | .arr a => a.toList.mapM opOf
  | _ => throw "ops: expected array"

/-- `[[row, ops], …]` -/
def tbl1 (j : Json) (k : String) : Except String (Nat → List OpSpec) := do
  match jOpt j k with
  | none => pure fun _ => []
  | some (.arr a) =>
    let l ← a.toList.mapM fun v => match v with
      | .arr #[r, ops] => do pure (← natOf r, ← opsOf ops)
      | _ => throw s!"{k}: expected [row, ops]"
    pure fun r => (l.lookup r).getD []
  | _ => throw s!"{k}: expected array"

/-- `[[row, id, ops], …]` -/
def tbl2 (j : Json) (k : String) : Except String (Nat → Nat → List OpSpec) := do
  match jOpt j k with
  | none => pure fun _ _ => []
  | some (.arr a) =>
    let l ← a.toList.mapM fun v => match v with
      | .arr #[r, i, ops] => do pure ((← natOf r, ← natOf i), ← opsOf ops)
      | _ => throw s!"{k}: expected [row, id, ops]"
    pure fun r i => (l.lookup (r, i)).getD []
  | _ => throw s!"{k}: expected array"

/-- `[[row, tag, ops], …]` -/
def tblN (j : Json) (k : String) : Except String (Nat → String → List OpSpec) := do
  match jOpt j k with
  | none => pure fun _ _ => []
  | some (.arr a) =>
    let l ← a.toList.mapM fun v => match v with
      | .arr #[r, .str tag, ops] => do pure ((← natOf r, tag), ← opsOf ops)
      | _ => throw s!"{k}: expected [row, tag, ops]"
    pure fun r t => (l.lookup (r, t)).getD []
  | _ => throw s!"{k}: expected array"

def tblU (j : Json) (k : String) : Except String (Nat → Nat → List String) := do
  match jOpt j k with
  | none => pure fun _ _ => []
  | some (.arr a) =>
    let l ← a.toList.mapM fun v => match v with
      | .arr #[r, i, .arr tags] => do
        let ts ← tags.toList.mapM fun t => match t with
          | .str s => pure s
          | _ => throw "tag: expected string"
        pure ((← natOf r, ← natOf i), ts)
      | _ => throw s!"{k}: expected [row, market, tags]"
    pure fun r i => (l.lookup (r, i)).getD []
  | _ => throw s!"{k}: expected array"

def parseCfg (j : Json) : Except String Cfg := do
  let ms ← jArr j "markets"
  let markets ← ms.toList.mapM fun m => do pure (⟨← jIntArr m "idx", ← jBool m "open", (match jOpt m "sparse" with | some (.bool b) => b | _ => false),
                                                   (match jOpt m "strict" with | some (.bool b) => b | _ => false)⟩ : MarketCfg)
  pure ⟨markets, ← jIntArr j "prices", ← jInt j "delta", ← jBool j "resample"⟩

def runH : JHandler := fun j => do
  let cfg ← parseCfg j
  let specsJ := match jOpt j "specs" with | some (.arr a) => a.toList | _ => []
  let specs ← specsJ.mapM fun s => do pure (jStrD s "kw" "", ← parseSpec s)
  let (made, ok) := buildTrigs specs
  let trigs := install (ok.map fun (kw, _, k) => (kw, k))
  let scj := (jOpt j "script").getD (Json.mkObj [])
  let init ← match jOpt scj "init" with | some v => opsOf v | none => pure []
  let sc : Script := ⟨init, ← tbl1 scj "before", ← tbl2 scj "fire", ← tbl2 scj "open", ← tbl1 scj "on", ← tbl1 scj "after",
                      ← tblU scj "upd", ← tblN scj "notify", (← match jOpt scj "fuel" with | some v => natOf v | none => pure 0)⟩
  let r := run cfg trigs sc
  pure <| Json.mkObj [
    ("make", .arr made.toArray),
    ("trace", .arr (r.trace.map evJ).toArray),
    ("rows", .arr (r.rows.map fun (t, p) => Json.arr #[iJ t, oJ p]).toArray),
    ("actions", .arr (r.actions.map fun a => Json.arr #[.str a.tag, iJ a.stamp, nJ a.m]).toArray),
    ("left", .arr (r.trigsLeft.map fun t => nJ t.id).toArray),
    ("bars", .arr ((barIndex cfg).map iJ).toArray),
    ("err", errJ r.err)]

/-! #### hooks that raise and change `strategy.triggers` (Demeter/Actuator/Hooks.lean) -/

def errOfName : String → Except String PyErr
  | "HookError" => pure .hookError
  | "HookRuntimeError" => pure .hookRuntimeError
  | "DemeterError" => pure .demeterError
  | "ValueError" => pure .valueError
  | "KeyError" => pure .keyError
  | "IndexError" => pure .indexError
  | "TypeError" => pure .typeError
  | n => throw s!"unknown exception class {n}"

/-- a trigger a hook installs: `{"id": n, "kw": …, "k": …}` (the constructor must accept it) -/
def trigOf (v : Json) : Except String Trig := do
  let sp ← parseSpec v
  match sp.make with
  | .ok k => pure ⟨← (do natOf (← v.getObjVal? "id")), jStrD v "kw" "", k⟩
  | .error e => throw s!"installed trigger does not construct: {e.name}"

def stmtOf (v : Json) : Except String HStmt :=
  match v with
  | .arr #[.str "tadd", t] => do pure (.tadd (← trigOf t))
  | .arr #[.str "tdel", i] => do pure (.tdel (← natOf i))
  | .arr #[.str "boom", .str n] => do pure (.boom (← errOfName n))
  | _ => do pure (.op (← opOf v))

def stmtsOf (v : Json) : Except String (List HStmt) :=
  match v with
  | .arr a => a.toList.mapM stmtOf
  | _ => throw "statements: expected array"

def mutOf (v : Json) : Except String TMut :=
  match v with
  | .arr #[.str "add", t] => do pure (.add (← trigOf t))
  | .arr #[.str "del", i] => do pure (.del (← natOf i))
  | _ => throw s!"bad mutation {v.compress}"

def gtbl1 (j : Json) (k : String) : Except String (Nat → List HStmt) := do
  match jOpt j k with
  | none => pure fun _ => []
  | some (.arr a) =>
    let l ← a.toList.mapM fun v => match v with
      | .arr #[r, ops] => do pure (← natOf r, ← stmtsOf ops)
      | _ => throw s!"{k}: expected [row, statements]"
    pure fun r => (l.lookup r).getD []
  | _ => throw s!"{k}: expected array"

def gtbl2 (j : Json) (k : String) : Except String (Nat → Nat → List HStmt) := do
  match jOpt j k with
  | none => pure fun _ _ => []
  | some (.arr a) =>
    let l ← a.toList.mapM fun v => match v with
      | .arr #[r, i, ops] => do pure ((← natOf r, ← natOf i), ← stmtsOf ops)
      | _ => throw s!"{k}: expected [row, id, statements]"
    pure fun r i => (l.lookup (r, i)).getD []
  | _ => throw s!"{k}: expected array"

def gtblN (j : Json) (k : String) : Except String (Nat → String → List HStmt) := do
  match jOpt j k with
  | none => pure fun _ _ => []
  | some (.arr a) =>
    let l ← a.toList.mapM fun v => match v with
      | .arr #[r, .str tag, ops] => do pure ((← natOf r, tag), ← stmtsOf ops)
      | _ => throw s!"{k}: expected [row, tag, statements]"
    pure fun r t => (l.lookup (r, t)).getD []
  | _ => throw s!"{k}: expected array"

def parseGScript (scj : Json) : Except String GScript := do
  let init ← match jOpt scj "init" with | some v => stmtsOf v | none => pure []
  let before ← gtbl1 scj "before"
  let fire ← gtbl2 scj "fire"
  let openCb ← gtbl2 scj "open"
  let on ← gtbl1 scj "on"
  let after ← gtbl1 scj "after"
  let upd ← tblU scj "upd"
  let notify ← gtblN scj "notify"
  let fuel ← match jOpt scj "fuel" with | some v => natOf v | none => pure 0
  let tfuel ← match jOpt scj "tfuel" with | some v => natOf v | none => pure 0
  pure { init := init,
         bar := fun row => { before := before row, fire := fire row, openCb := openCb row, on := on row, after := after row,
                             upd := upd row, notify := notify row },
         fuel := fuel, tfuel := tfuel }

def resultJ (made : List Json) (cfg : Cfg) (r : RunResult) : Json :=
  Json.mkObj [
    ("make", .arr made.toArray),
    ("trace", .arr (r.trace.map evJ).toArray),
    ("rows", .arr (r.rows.map fun (t, p) => Json.arr #[iJ t, oJ p]).toArray),
    ("actions", .arr (r.actions.map fun a => Json.arr #[.str a.tag, iJ a.stamp, nJ a.m]).toArray),
    ("left", .arr (r.trigsLeft.map fun t => nJ t.id).toArray),
    ("bars", .arr ((barIndex cfg).map iJ).toArray),
    ("err", errJ r.err)]

/-- an outcome of an operation issued by `finalize()` itself: the hook is printed as "finalize" (see `FinTail.own`) -/
def evJFin : Ev → Json
  | .opOk ts _ m tag => .arr #["ok", iJ ts, "finalize", nJ m, .str tag]
  | .opRej ts _ m tag c => .arr #["rej", iJ ts, "finalize", nJ m, .str tag, .bool c]
  | .opFree ts _ m tag ok => .arr #["free", iJ ts, "finalize", nJ m, .str tag, .bool ok]
  | e => evJ e

/-- `"fin": [ops]`, `"fin_notify": [[tag, ops], …]`, `"fin_fuel"` of a script: what `finalize()` does (`FinScript`) -/
def parseFin (scj : Json) : Except String (Option FinScript) := do
  match jOpt scj "fin" with
  | none => pure none
  | some v =>
    let ops ← opsOf v
    let l ← match jOpt scj "fin_notify" with
      | some (.arr a) => a.toList.mapM fun v => match v with
        | .arr #[.str tag, o] => do pure (tag, ← opsOf o)
        | _ => throw "fin_notify: expected [tag, ops]"
      | _ => pure []
    let fuel ← match jOpt scj "fin_fuel" with | some v => natOf v | none => pure 0
    pure (some { ops := ops, notify := fun t => (l.lookup t).getD [], fuel := fuel })

/-- the answer for a run with what follows `finalize()`: trace = loop ++ tail, `actions` = `Actuator.actions` after the run, `undelivered` =
    what is left in `_currents.actions` -/
def fullJ (made : List Json) (cfg : Cfg) (r : FullRun) : Json :=
  let base := resultJ made cfg r.loop
  match r.tail with
  | none => base
  | some t =>
    ((base.setObjVal! "trace" (.arr ((r.loop.trace.map evJ) ++ (t.own.map evJFin) ++ (t.deliveries.map evJ)).toArray)).setObjVal!
      "actions" (.arr (r.actions.map fun a => Json.arr #[.str a.tag, iJ a.stamp, nJ a.m]).toArray)).setObjVal!
      "undelivered" (.arr (r.undelivered.map fun a => Json.arr #[.str a.tag, iJ a.stamp, nJ a.m]).toArray)
      |>.setObjVal! "err" (if t.ended then errJ r.loop.err else .str "diverges")

/-- `Actuator.run` for any scripted strategy (`runG`); with `"then": <script>` the same Actuator and strategy object are run a second time
    with that script (`trigsAfterRunG` → `actuatorRunG`) and the second result is answered under `"second"` -/
def runGH : JHandler := fun j => do
  let cfg ← parseCfg j
  let specsJ := match jOpt j "specs" with | some (.arr a) => a.toList | _ => []
  let specs ← specsJ.mapM fun s => do pure (jStrD s "kw" "", ← parseSpec s)
  let (made, ok) := buildTrigs specs
  let trigs := install (ok.map fun (kw, _, k) => (kw, k))
  let g ← parseGScript ((jOpt j "script").getD (Json.mkObj []))
  let fin ← parseFin ((jOpt j "script").getD (Json.mkObj []))
  let answer (trigs : List Trig) (g : GScript) (fin : Option FinScript) : Json :=
    -- a strict market without a row ends the run before `finalize()`; otherwise `runStrict` is `runG`
    let rs := if cfg.markets.any (·.strict) then actuatorRunStrict cfg trigs g else actuatorRunG cfg trigs g
    match fin with
    | none => resultJ made cfg rs
    | some f => if rs.err.isSome then resultJ made cfg rs else fullJ made cfg (actuatorRunFull cfg trigs g f)
  let first := answer trigs g fin
  match jOpt j "then" with
  | none => pure first
  | some scj2 =>
    let g2 ← parseGScript scj2
    let fin2 ← parseFin scj2
    let second := answer (trigsAfterRunG cfg trigs g) g2 fin2
    pure (first.setObjVal! "second" second)

/-- `Actuator.run` in the code's order (`runG2`: `initialize()`, then the reset of everything installed) and the second run of the same strategy
    object (`rerun2`: the list handed back, `initialize()` installing the same objects in the state the first run left them in); under
    `"second_reset_before_init"` what the older model (reset on entry only) answers for that second run -/
def runG2H : JHandler := fun j => do
  let cfg ← parseCfg j
  let specsJ := match jOpt j "specs" with | some (.arr a) => a.toList | _ => []
  let specs ← specsJ.mapM fun s => do pure (jStrD s "kw" "", ← parseSpec s)
  let (made, ok) := buildTrigs specs
  let trigs := install (ok.map fun (kw, _, k) => (kw, k))
  let g ← parseGScript ((jOpt j "script").getD (Json.mkObj []))
  let first := resultJ made cfg (runG2 cfg trigs g)
  let afterIds := Json.arr ((trigsAfterRun2 cfg trigs g).map fun t => nJ t.id).toArray
  pure (((first.setObjVal! "second" (resultJ made cfg (rerun2 cfg trigs g))).setObjVal! "second_reset_before_init"
    (resultJ made cfg (rerun2ResetBeforeInit cfg trigs g))).setObjVal! "handed_back" afterIds)

/-- the trigger loop alone with actions that change the list (`trigRunD`), and the same bars through the cursor reading (`cursorLoop`) -/
def trigRunDynH : JHandler := fun j => do
  let bars ← jIntArr j "bars"
  let specsJ ← jArr j "specs"
  let specs ← specsJ.toList.mapM fun s => do pure (jStrD s "kw" "", ← parseSpec s)
  let (made, ok) := buildTrigs specs
  let trigs := install (ok.map fun (kw, _, k) => (kw, k))
  let extra ← match jOpt j "extra" with | some v => natOf v | none => pure 0
  let l ← match jOpt j "muts" with
    | some (.arr a) => a.toList.mapM fun v => match v with
      | .arr #[r, i, .arr ms] => do pure ((← natOf r, ← natOf i), ← ms.toList.mapM mutOf)
      | _ => throw "muts: expected [row, id, [mutation, …]]"
    | _ => pure []
  let mu : Nat → Nat → List TMut := fun r i => (l.lookup (r, i)).getD []
  let (fires, live, left, err) := trigRunD mu extra 0 bars trigs
  pure <| Json.mkObj [
    ("make", .arr made.toArray),
    ("fires", .arr (fires.map fun f => Json.arr #[intJ f.ts, natJ f.id, .str f.kw]).toArray),
    ("live", .arr (live.map fun ids => Json.arr (ids.map natJ).toArray).toArray),
    ("left", .arr (left.map fun t => natJ t.id).toArray),
    ("err", errJ err)]

/-! #### the views of C02 on a history of bar times (rows are identified by their position / timestamp) -/

def viewsH : JHandler := fun j => do
  let ts ← jIntArr j "ts"
  let hours ← jIntArr j "hours"
  let hist : List (Nat × Int) := ts.zipIdx.map fun (t, i) => (i, t)
  let ks := List.range ts.length
  let shift := ks.map fun k => match shiftView (D := Nat × Int) (fun _ => (none : Option Nat)) (fun d => some d.1) hist k with
    | some (some i) => nJ i
    | _ => Json.null
  let twap := ks.map fun k => Json.arr ((twapView (fun d : Nat × Int => d.2) hist k).map fun d => nJ d.1).toArray
  let book : List (Int × Unit) := hours.map fun t => (t, ())
  let hour := ts.map fun t => match hourLookup book t with
    | some (h, _) => iJ h
    | none => Json.null
  pure <| Json.mkObj [("shift", .arr shift.toArray), ("twap", .arr twap.toArray), ("hour", .arr hour.toArray)]

end CoreDrv

def coreHandlers : List (String × Handler) := []
/-- which market classes raise `KeyError` from `set_market_status` on a bar without a row, as read from the source -/
def strictFlagsH : JHandler := fun _ => do
  pure <| Json.mkObj [("UniLpMarket", .bool MarketClass.uni.strict), ("AaveV3Market", .bool MarketClass.aave.strict),
    ("SqueethMarket", .bool MarketClass.squeeth.strict), ("GmxMarket", .bool MarketClass.gmx.strict),
    ("GmxV2Market", .bool MarketClass.gmxV2.strict), ("DeribitOptionMarket", .bool MarketClass.deribit.strict)]

def coreJHandlers : List (String × JHandler) := [
  ("strict_flags", strictFlagsH),
  ("trig_run", CoreDrv.trigRunH),
  ("run", CoreDrv.runH),
  ("run_g", CoreDrv.runGH),
  ("run_g2", CoreDrv.runG2H),
  ("trig_run_dyn", CoreDrv.trigRunDynH),
  ("views", CoreDrv.viewsH)
]

end Demeter.Drv
