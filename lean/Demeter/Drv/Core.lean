import Demeter.Drv.Json
namespace Demeter.Drv
open Demeter Lean

def coreHandlers : List (String × Handler) := []
def coreJHandlers : List (String × JHandler) := []

end Demeter.Drv
