import Demeter.Drv.Json
import Demeter.Trigger
namespace Demeter.Drv
open Demeter Demeter.Core Lean

namespace CoreDrv

def jIntOf (v : Json) : Except String Int := do
  let r ← jRatOf v
  if r.den = 1 then pure r.num else throw "not an integer"

def jIntArr (j : Json) (k : String) : Except String (List Int) := do
  let a ← jArr j k
  a.toList.mapM jIntOf

def jPairArr (j : Json) (k : String) : Except String (List (Int × Int)) := do
  let a ← jArr j k
  a.toList.mapM fun v => match v with
    | .arr #[x, y] => do pure (← jIntOf x, ← jIntOf y)
    | _ => throw "expected [s, e]"

def jStrD (j : Json) (k : String) (d : String) : String :=
  match j.getObjVal? k with
  | .ok (.str s) => s
  | _ => d

def parseSpec (j : Json) : Except String TrigSpec := do
  match ← jStr j "k" with
  | "base" => pure .base
  | "atTime" => pure (.atTime (← jInt j "s"))
  | "atTimes" => pure (.atTimes (← jIntArr j "ss"))
  | "range" => pure (.range (← jInt j "s") (← jInt j "e"))
  | "ranges" => pure (.ranges (← jPairArr j "rs"))
  | "period" => pure (.period (← jInt j "d") (← jBool j "imm") (← jInt j "pend"))
  | "periods" => pure (.periods (← jIntArr j "ds") (← jBool j "imm") (← jInt j "pend"))
  | k => throw s!"unknown trigger kind {k}"

def errJ : Option PyErr → Json
  | none => .null
  | some e => .str e.name

def intsJ (l : List Int) : Json := .arr (l.map intJ).toArray

/-- construct every spec; the ones that construct are installed in order -/
def buildTrigs (specs : List (String × TrigSpec)) : List Json × List (String × TrigSpec × TrigKind) :=
  specs.foldr (fun (kw, sp) (ms, ok) =>
    match sp.make with
    | .ok k => (Json.null :: ms, (kw, sp, k) :: ok)
    | .error e => (Json.str e.name :: ms, ok)) ([], [])

def trigRunH : JHandler := fun j => do
  let bars ← jIntArr j "bars"
  let specsJ ← jArr j "specs"
  let specs ← specsJ.toList.mapM fun s => do pure (jStrD s "kw" "", ← parseSpec s)
  let (made, ok) := buildTrigs specs
  let trigs := install (ok.map fun (kw, _, k) => (kw, k))
  let (fires, left, err) := trigRun bars trigs
  let t0 := bars.headD 0
  let den := ok.map fun (_, sp, _) => intsJ (bars.filter (denotes t0 sp))
  pure <| Json.mkObj [
    ("make", .arr made.toArray),
    ("fires", .arr (fires.map fun f => Json.arr #[intJ f.ts, natJ f.id, .str f.kw]).toArray),
    ("left", .arr (left.map fun t => natJ t.id).toArray),
    ("err", errJ err),
    ("denoted", .arr den.toArray)]

end CoreDrv

def coreHandlers : List (String × Handler) := []
def coreJHandlers : List (String × JHandler) := [
  ("trig_run", CoreDrv.trigRunH)
]

end Demeter.Drv
