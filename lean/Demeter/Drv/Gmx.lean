import Demeter.Drv.Json
namespace Demeter.Drv
open Demeter Lean

def gmxHandlers : List (String × Handler) := []
def gmxJHandlers : List (String × JHandler) := []

end Demeter.Drv
