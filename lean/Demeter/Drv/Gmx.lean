/-
  driver_gmx — JSON handlers around Demeter.GmxV1 (Decimal, `NumCtx.py` or exact) and Demeter.GmxV2
  (`mode = "float"`: IEEE binary64 via Lean `Float`; `mode = "exact"`: rationals).
  Numbers travel as strings: decimals or `n/d`; floats always as the exact `n/d` of their binary value.
-/
import Demeter.Drv.Json
import Demeter.GmxV1
import Demeter.GmxV2
import Demeter.GmxBars
namespace Demeter.Drv
open Demeter Lean

namespace GmxD

/-- an optional boolean field (absent = false) -/
def jFlag (j : Json) (k : String) : Bool :=
  match j.getObjVal? k with
  | .ok (.bool b) => b
  | _ => false


/-! ### v1 -/
open GmxV1 in
def envOf (j : Json) : Except String GmxV1.Env := do
  let rows ← (← jArr j "rows").toList.mapM (fun r => do
    pure ({ name := ← jStr r "name", price := ← jRat r "price", usdg := ← jRat r "usdg", weight := ← jRat r "weight" } : TokenRow))
  let ts ← (← jArr j "tokenSet").toList.mapM (fun t => match t with
    | .str s => pure s
    | _ => throw "tokenSet: expected strings")
  pure { rows := rows, tokenSet := ts, glpSupply := ← jRat j "glp", aum := ← jRat j "aum", usdgSupply := ← jRat j "usdg",
         interval := ← jRat j "interval", glpPrice := ← jRat j "glp_price", wavaxPrice := ← jRat j "wavax_price" }

def walletOf (j : Json) (k : String) : Except String Wallet := do
  (← jArr j k).toList.mapM (fun p => match p with
    | .arr #[.str t, v] => do pure (t, ← jRatOf v)
    | _ => throw "wallet: expected [name, balance] pairs")

def walletJ (w : Wallet) : Json := .arr (w.map (fun (k, v) => Json.arr #[.str k, ratJ v])).toArray

def state1Of (j : Json) : Except String GmxV1.State := do
  pure { glp := ← jRat j "glp", reward := ← jRat j "reward", wallet := ← walletOf j "wallet", actions := [] }

def action1J : GmxV1.Action → Json
  | .buy t a m => Json.mkObj [("kind", .str "buy"), ("token", .str t), ("token_amount", ratJ a), ("mint_amount", ratJ m)]
  | .sell t g o => Json.mkObj [("kind", .str "sell"), ("token", .str t), ("glp_amount", ratJ g), ("token_out", ratJ o)]

def state1J (s : GmxV1.State) : Json :=
  Json.mkObj [("glp", ratJ s.glp), ("reward", ratJ s.reward), ("wallet", walletJ s.wallet),
              ("actions", .arr (s.actions.map action1J).toArray)]

def op1Of (j : Json) : Except String GmxV1.Op := do
  match ← jStr j "kind" with
  | "buy" => pure (.buy (← jStr j "tok") (← jNat j "dec") (← jRat j "amount"))
  | "sell" => pure (.sell (← jStr j "tok") (← jNat j "dec") (← jRat j "amount"))
  | "update" => pure .update
  | k => throw s!"unknown op {k}"

/-- branch tag of a step: fee branch of the pricing part (recomputed through the model's own functions) -/
def tag1 (cx : NumCtx) (env : GmxV1.Env) (s : GmxV1.State) : GmxV1.Op → String
  | .buy t d a => match GmxV1.addLiquidity cx env t d a with
    | .ok (_, _, br) => br.name
    | .error _ => "-"
  | .sell t d g =>
    let g' := if g = 0 then s.glp else g
    match GmxV1.removeLiquidity cx env t d g' with
    | .ok (_, _, br) => br.name
    | .error _ => "-"
  | .update => "-"

def step1 (j : Json) : Except String Json := do
  let cx := jCtx j
  let env ← envOf (← jObj j "env")
  let s ← state1Of (← jObj j "state")
  let op ← op1Of (← jObj j "op")
  let (r, s') := GmxV1.step cx env s op (jFlag j "allowNeg")
  let tag := tag1 cx env s op
  match r with
  | .ok v => pure (Json.mkObj [("outcome", .str "ok"), ("result", ratJ v), ("state", state1J s'), ("tag", .str tag)])
  | .error e => pure (Json.mkObj [("outcome", .str e.name), ("state", state1J s'), ("tag", .str tag)])

def fee1 (j : Json) : Except String Json := do
  let cx := jCtx j
  let env ← envOf (← jObj j "env")
  let tok ← jStr j "tok"
  let usdg ← jRat j "usdg"
  let inc ← jBool j "increase"
  match GmxV1.feeBps cx env tok usdg inc with
  | .error e => pure (Json.mkObj [("outcome", .str e.name)])
  | .ok (f, br) =>
    let tgt := match GmxV1.targetAmount cx env tok with | .ok t => t | .error _ => 0
    pure (Json.mkObj [("outcome", .str "ok"), ("fee", ratJ f), ("branch", .str br.name), ("target", ratJ tgt)])

def vaultFee1 (j : Json) : Except String Json := do
  let initial ← jNat j "initial"; let delta ← jNat j "delta"
  let weight ← jNat j "weight"; let supply ← jNat j "supply"; let total ← jNat j "total"
  let inc ← jBool j "increase"
  if total = 0 then throw "total weight 0" else
  let t := GmxV1.vaultTarget weight supply total
  pure (Json.mkObj [("target", natJ t), ("fee", natJ (GmxV1.vaultFeeBps initial delta t Gen.gmxMintBurnFeeBps Gen.gmxTaxBps inc))])

def balance1 (j : Json) : Except String Json := do
  let cx := jCtx j
  let env ← envOf (← jObj j "env")
  let s ← state1Of (← jObj j "state")
  pure (Json.mkObj [("net_value", ratJ (GmxV1.netValue cx env s)), ("glp", ratJ s.glp), ("reward", ratJ s.reward)])

/-- whole-run fold: `bars = [{env, ops}]`; per bar the operations are applied in order to the threaded state (the harness puts
    the bar's `update` last, as `Actuator.run` does) and the bar's balance is reported.  `sellFrac` sells `glp × frac`
    (the strategy multiplies two Decimals, so the product is rounded by the context). -/
def run1 (j : Json) : Except String Json := do
  let cx := jCtx j
  let mut s ← state1Of (← jObj j "state")
  let mut out : Array Json := #[]
  for b in (← jArr j "bars") do
    let env ← envOf (← jObj b "env")
    for oj in (← jArr b "ops") do
      let op ← match ← jStr oj "kind" with
        | "sellFrac" => pure (GmxV1.Op.sell (← jStr oj "tok") (← jNat oj "dec") (cx.mul s.glp (← jRat oj "frac")))
        | _ => op1Of oj
      s := (GmxV1.step cx env s op).2
    out := out.push (Json.mkObj [("glp", ratJ s.glp), ("reward", ratJ s.reward), ("wallet", walletJ s.wallet),
                                 ("net_value", ratJ (GmxV1.netValue cx env s)), ("actions", natJ s.actions.length)])
  pure (.arr out)

/-- the live object across bars (`Demeter.GmxBars`): `events = [{"ev":"status","env":…} | {"ev":"op","op":…} | {"ev":"fee",…}]` applied to
    ONE object; answers one entry per event (result / fee / state after a status change).  The token set of the object is the
    `tokenSet` of the request's `env0`. -/
def events1 (j : Json) : Except String Json := do
  let cx := jCtx j
  let mut o : GmxV1.Obj := { row := ← envOf (← jObj j "env0"), st := ← state1Of (← jObj j "state"), allowNeg := jFlag j "allowNeg" }
  let mut out : Array Json := #[]
  for e in (← jArr j "events") do
    match ← jStr e "ev" with
    | "status" =>
      o := (o.apply cx (.setStatus (← envOf (← jObj e "env")))).2
      out := out.push (Json.mkObj [("glp", ratJ o.st.glp), ("reward", ratJ o.st.reward), ("wallet", walletJ o.st.wallet),
                                   ("net_value", ratJ (GmxV1.netValue cx o.row o.st)), ("actions", natJ o.st.actions.length)])
    | "op" =>
      let n0 := o.st.actions.length
      let (a, o') := o.apply cx (.op (← op1Of (← jObj e "op")))
      o := o'
      let sj := state1J { o.st with actions := o.st.actions.drop n0 }
      match a with
      | .value (.ok v) => out := out.push (Json.mkObj [("outcome", .str "ok"), ("result", ratJ v), ("state", sj)])
      | .value (.error er) => out := out.push (Json.mkObj [("outcome", .str er.name), ("state", sj)])
      | _ => throw "op: unexpected answer"
    | "fee" =>
      match (o.apply cx (.fee (← jStr e "tok") (← jRat e "usdg") (← jBool e "increase"))).1 with
      | .feeBps (.ok (f, br)) => out := out.push (Json.mkObj [("outcome", .str "ok"), ("fee", ratJ f), ("branch", .str br.name)])
      | .feeBps (.error er) => out := out.push (Json.mkObj [("outcome", .str er.name)])
      | _ => throw "fee: unexpected answer"
    | "balance" =>
      out := out.push (Json.mkObj [("glp", ratJ o.st.glp), ("reward", ratJ o.st.reward), ("wallet", walletJ o.st.wallet),
                                   ("net_value", ratJ (GmxV1.netValue cx o.row o.st)), ("actions", natJ o.st.actions.length)])
    | k => throw s!"unknown event {k}"
  pure (.arr out)

/-- instance attributes of the live objects known to the model -/
def fields (_ : Json) : Except String Json :=
  pure (Json.mkObj [("v1", .arr (GmxV1.objectFields.map Json.str).toArray), ("v2", .arr (GmxV2.objectFields.map Json.str).toArray)])

/-! ### v2, generic in the number type -/

structure NumIO (α : Type) where
  ofRat : Rat → α
  toJ : α → Json
  special : String → Option α      -- "nan" / "inf" / "-inf" (floats only)

def floatJ (f : Float) : Json :=
  match floatToRat? f with
  | some r => ratJ r
  | none => .str (if f.isNaN then "nan" else if f > 0 then "inf" else "-inf")

def floatSpecial : String → Option Float
  | "nan" => some (0.0 / 0.0)
  | "inf" => some (1.0 / 0.0)
  | "-inf" => some (-1.0 / 0.0)
  | _ => none

def floatIO : NumIO Float := { ofRat := ratToFloat, toJ := floatJ, special := floatSpecial }
def ratIO : NumIO Rat := { ofRat := id, toJ := ratJ, special := fun _ => none }

section
variable {α : Type} [Add α] [Sub α] [Mul α] [Div α] [Neg α] [LT α] [LE α] [OfNat α 0] [DecidableLT α] [DecidableLE α]

/-- a number: the exact n/d of a double, or one of the strings "nan" / "inf" / "-inf" -/
def jNumOf (io : NumIO α) (v : Json) : Except String α :=
  match v with
  | .str s =>
    match io.special s with
    | some x => pure x
    | none => do pure (io.ofRat (← jRatOf v))
  | _ => do pure (io.ofRat (← jRatOf v))

def jNum (io : NumIO α) (j : Json) (k : String) : Except String α :=
  match jOpt j k with
  | none => throw s!"missing {k}"
  | some v => jNumOf io v

def jNumOpt (io : NumIO α) (j : Json) (k : String) : Except String (Option α) :=
  match jOpt j k with
  | none => pure none
  | some v => do pure (some (← jNumOf io v))

def cfgOf (io : NumIO α) (j : Json) : Except String (GmxV2.Config α) := do
  pure { impactExponent := ← jNum io j "swapImpactExponentFactor", impactFactorPos := ← jNum io j "swapImpactFactorPositive",
         impactFactorNeg := ← jNum io j "swapImpactFactorNegative", depositFeePos := ← jNum io j "depositFeeFactorForPositiveImpact",
         depositFeeNeg := ← jNum io j "depositFeeFactorForNegativeImpact", withdrawFeePos := ← jNum io j "withdrawFeeFactorForPositiveImpact",
         withdrawFeeNeg := ← jNum io j "withdrawFeeFactorForNegativeImpact" }

def poolOf (io : NumIO α) (j : Json) : Except String (GmxV2.Pool α) := do
  pure { longAmount := ← jNum io j "longAmount", shortAmount := ← jNum io j "shortAmount",
         virtualLong := ← jNumOpt io j "virtualSwapInventoryLong", virtualShort := ← jNumOpt io j "virtualSwapInventoryShort",
         poolValue := ← jNum io j "poolValue", supply := ← jNum io j "marketTokensSupply", impactPool := ← jNum io j "impactPoolAmount",
         longPrice := ← jNum io j "longPrice", shortPrice := ← jNum io j "shortPrice" }

def lpJ (io : NumIO α) (r : GmxV2.LPResult α) : Json :=
  Json.mkObj [("long_amount", io.toJ r.longAmount), ("short_amount", io.toJ r.shortAmount), ("total_usd", io.toJ r.totalUsd),
              ("gm_amount", io.toJ r.gmAmount), ("gm_usd", io.toJ r.gmUsd), ("long_fee", io.toJ r.longFee),
              ("short_fee", io.toJ r.shortFee), ("fee_usd", io.toJ r.feeUsd), ("price_impact_usd", io.toJ r.priceImpactUsd)]

def state2J (io : NumIO α) (s : GmxV2.State α) : Json :=
  Json.mkObj [("amount", io.toJ s.amount), ("wallet", walletJ s.wallet),
              ("actions", .arr (s.actions.map (fun (d, r) => Json.mkObj [("kind", .str (if d then "deposit" else "withdraw")), ("r", lpJ io r)])).toArray)]

def step2 (io : NumIO α) (o : GmxV2.Ops α) (j : Json) : Except String Json := do
  let cx := jCtx j
  let cfg ← cfgOf io (← jObj j "config")
  let ps ← poolOf io (← jObj j "pool")
  let sj ← jObj j "state"
  let s : GmxV2.State α := { amount := ← jNum io sj "amount", wallet := ← walletOf sj "wallet", actions := [] }
  let lk ← jStr j "longKey"; let sk ← jStr j "shortKey"
  let op ← jObj j "op"
  match ← jStr op "kind" with
  | "deposit" =>
    let (r, s') := GmxV2.deposit o cx cfg ps lk sk s (← jNum io op "long") (← jNum io op "short") (jFlag j "allowNeg")
    match r with
    | .ok (res, tag) => pure (Json.mkObj [("outcome", .str "ok"), ("result", lpJ io res), ("state", state2J io s'), ("tag", .str tag)])
    | .error e => pure (Json.mkObj [("outcome", .str e.name), ("state", state2J io s'), ("tag", .str "-")])
  | "withdraw" =>
    let (r, s') := GmxV2.withdraw o cx cfg ps lk sk s (← jNumOpt io op "amount")
    match r with
    | .ok res => pure (Json.mkObj [("outcome", .str "ok"), ("result", lpJ io res), ("state", state2J io s'), ("tag", .str "-")])
    | .error e => pure (Json.mkObj [("outcome", .str e.name), ("state", state2J io s'), ("tag", .str "-")])
  | "balance" =>
    match GmxV2.balance o ps s with
    | .ok (nv, g, l, sh) => pure (Json.mkObj [("outcome", .str "ok"), ("net_value", io.toJ nv), ("gm_amount", io.toJ g),
                                              ("long_amount", io.toJ l), ("short_amount", io.toJ sh)])
    | .error e => pure (Json.mkObj [("outcome", .str e.name)])
  | k => throw s!"unknown op {k}"

/-- the live v2 object across bars: `events = [{"ev":"status","pool":…} | {"ev":"deposit","long","short"} | {"ev":"withdraw","amount"} |
    {"ev":"balance"}]` applied to ONE object -/
def events2 (io : NumIO α) (ops : GmxV2.Ops α) (j : Json) : Except String Json := do
  let cx := jCtx j
  let sj ← jObj j "state"
  let mut o : GmxV2.Obj α :=
    { cfg := ← cfgOf io (← jObj j "config"), longKey := ← jStr j "longKey", shortKey := ← jStr j "shortKey",
      row := ← poolOf io (← jObj j "pool0"),
      st := { amount := ← jNum io sj "amount", wallet := ← walletOf sj "wallet", actions := [] },
      allowNeg := jFlag j "allowNeg" }
  let mut out : Array Json := #[]
  for e in (← jArr j "events") do
    let n0 := o.st.actions.length
    let tail := fun (o : GmxV2.Obj α) => state2J io { o.st with actions := o.st.actions.drop n0 }
    match ← jStr e "ev" with
    | "status" =>
      o := (o.apply ops cx (.setStatus (← poolOf io (← jObj e "pool")))).2
      out := out.push (Json.mkObj [("state", tail o)])
    | "deposit" =>
      let (a, o') := o.apply ops cx (.deposit (← jNum io e "long") (← jNum io e "short"))
      o := o'
      match a with
      | .deposit (.ok (res, tag)) => out := out.push (Json.mkObj [("outcome", .str "ok"), ("result", lpJ io res), ("state", tail o), ("tag", .str tag)])
      | .deposit (.error er) => out := out.push (Json.mkObj [("outcome", .str er.name), ("state", tail o), ("tag", .str "-")])
      | _ => throw "deposit: unexpected answer"
    | "withdraw" =>
      let (a, o') := o.apply ops cx (.withdraw (← jNumOpt io e "amount"))
      o := o'
      match a with
      | .withdraw (.ok res) => out := out.push (Json.mkObj [("outcome", .str "ok"), ("result", lpJ io res), ("state", tail o), ("tag", .str "-")])
      | .withdraw (.error er) => out := out.push (Json.mkObj [("outcome", .str er.name), ("state", tail o), ("tag", .str "-")])
      | _ => throw "withdraw: unexpected answer"
    | "balance" =>
      match GmxV2.balance ops o.row o.st with
      | .ok (nv, g, l, sh) => out := out.push (Json.mkObj [("outcome", .str "ok"), ("net_value", io.toJ nv), ("gm_amount", io.toJ g),
                                                           ("long_amount", io.toJ l), ("short_amount", io.toJ sh), ("state", tail o)])
      | .error er => out := out.push (Json.mkObj [("outcome", .str er.name), ("state", tail o)])
    | k => throw s!"unknown event {k}"
  pure (.arr out)
end

/-- exact mode: natural-number exponents only (the default exponent is 2) -/
def exactPow (x y : Rat) : Rat := if y.den = 1 ∧ y.num ≥ 0 then x ^ y.num.toNat else 0

def step2Dispatch (j : Json) : Except String Json :=
  match j.getObjVal? "mode" with
  | .ok (.str "exact") => step2 ratIO (GmxV2.ratOps exactPow) j
  | _ => step2 floatIO GmxV2.floatOps j

def events2Dispatch (j : Json) : Except String Json :=
  match j.getObjVal? "mode" with
  | .ok (.str "exact") => events2 ratIO (GmxV2.ratOps exactPow) j
  | _ => events2 floatIO GmxV2.floatOps j

end GmxD

def gmxHandlers : List (String × Handler) := []
def gmxJHandlers : List (String × JHandler) := [
  ("gmx1.step", GmxD.step1),
  ("gmx1.fee", GmxD.fee1),
  ("gmx1.vaultFee", GmxD.vaultFee1),
  ("gmx1.balance", GmxD.balance1),
  ("gmx1.run", GmxD.run1),
  ("gmx2.step", GmxD.step2Dispatch),
  ("gmx1.events", GmxD.events1),
  ("gmx2.events", GmxD.events2Dispatch),
  ("gmx.fields", GmxD.fields)
]

end Demeter.Drv
