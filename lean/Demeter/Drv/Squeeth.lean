/-
  driver_squeeth — JSON protocol around Demeter.Squeeth.

  request  {"fn":"step","ctx":"py"|"exact","state":S,"env":E,"op":O}
  answer   {"err":null|{"cls","cause"},"state":S',"actions":[…],"out":[…],"win":{"weth":[…],"osqth":[…]}}
  S = {"wallet":[[name,bal]…],"vaults":[[id,{"coll","short","nft":null|[lo,hi]}]…],"maxId":n,
       "positions":[[[lo,hi],{"liquidity","p0","p1","transferred"}]…]}            (log starts empty)
  E = {"nf","weth","osqth","now":null|int,"rows":[[t,weth,osqth]…],"uniPrice","uniOpen","uniFee" (optional, default 0.003),
       "oracle":[[[p…],mean]…]}     the geometric means captured from the real calc_twap_price, keyed by window
  The model selects the TWAP window itself; a window that the real code never passed to calc_twap_price is
  answered by {"error":"oracle-miss …"} — that is how the window selection is tied to the code.
-/
import Demeter.Drv.Json
import Demeter.Squeeth
import Demeter.Squeeth.Views
namespace Demeter.Drv
open Demeter Demeter.Squeeth Lean

namespace Sq

def posKeyOf (j : Json) : Except String PosKey :=
  match j with
  | .arr #[a, b] => do
    let x ← jRatOf a; let y ← jRatOf b
    if x.den = 1 ∧ y.den = 1 then pure (x.num, y.num) else throw "tick not an integer"
  | _ => throw s!"not a position key: {j.compress}"

def posKeyJ (k : PosKey) : Json := .arr #[intJ k.1, intJ k.2]

def optPosKey (j : Json) (k : String) : Except String (Option PosKey) :=
  match jOpt j k with
  | none => pure none
  | some v => do pure (some (← posKeyOf v))

def pairArr (j : Json) : Except String (Json × Json) :=
  match j with
  | .arr #[a, b] => pure (a, b)
  | _ => throw s!"not a pair: {j.compress}"

def natOf (j : Json) : Except String Nat := do
  let r ← jRatOf j
  if r.den = 1 ∧ r.num ≥ 0 then pure r.num.toNat else throw s!"not a Nat: {j.compress}"

def stateOf (j : Json) : Except String State := do
  let w ← (← jArr j "wallet").toList.mapM fun x => do
    let (a, b) ← pairArr x
    match a with
    | .str n => pure (n, ← jRatOf b)
    | _ => throw "wallet key"
  let vs ← (← jArr j "vaults").toList.mapM fun x => do
    let (a, b) ← pairArr x
    let v : Vault := { coll := ← jRat b "coll", short := ← jRat b "short", nft := ← optPosKey b "nft" }
    pure (← natOf a, v)
  let ps ← (← jArr j "positions").toList.mapM fun x => do
    let (a, b) ← pairArr x
    let p : UPos := { liquidity := ← jNat b "liquidity", pending0 := ← jRat b "p0", pending1 := ← jRat b "p1",
                      transferred := ← jBool b "transferred" }
    pure (← posKeyOf a, p)
  pure { wallet := w, vaults := vs, maxId := ← jNat j "maxId", positions := ps, log := [] }

def stateJ (s : State) : Json :=
  Json.mkObj [
    ("wallet", .arr (s.wallet.map fun (n, b) => Json.arr #[.str n, ratJ b]).toArray),
    ("vaults", .arr (s.vaults.map fun (k, v) => Json.arr #[natJ k, Json.mkObj [
        ("coll", ratJ v.coll), ("short", ratJ v.short),
        ("nft", match v.nft with | some p => posKeyJ p | none => .null)]]).toArray),
    ("maxId", natJ s.maxId),
    ("positions", .arr (s.positions.map fun (k, p) => Json.arr #[posKeyJ k, Json.mkObj [
        ("liquidity", natJ p.liquidity), ("p0", ratJ p.pending0), ("p1", ratJ p.pending1),
        ("transferred", .bool p.transferred)]]).toArray)]

def actionJ : Action → Json
  | .addVault id c => Json.mkObj [("k", "addVault"), ("id", natJ id), ("n", .arr #[natJ c])]
  | .updShort id a b => Json.mkObj [("k", "updShort"), ("id", natJ id), ("n", .arr #[ratJ a, ratJ b])]
  | .updColl id a b => Json.mkObj [("k", "updColl"), ("id", natJ id), ("n", .arr #[ratJ a, ratJ b])]
  | .depositLp id p => Json.mkObj [("k", "depositLp"), ("id", natJ id), ("pos", posKeyJ p), ("n", .arr #[])]
  | .withdrawLp id p => Json.mkObj [("k", "withdrawLp"), ("id", natJ id), ("pos", posKeyJ p), ("n", .arr #[])]
  | .reduceDebt id p a b c d f g h => Json.mkObj [("k", "reduceDebt"), ("id", natJ id), ("pos", posKeyJ p),
      ("n", .arr #[ratJ a, ratJ b, ratJ c, ratJ d, ratJ f, ratJ g, ratJ h])]
  | .liquidation id a b c d => Json.mkObj [("k", "liquidation"), ("id", natJ id), ("n", .arr #[ratJ a, ratJ b, ratJ c, ratJ d])]
  | .uniRemove p a b c d f g => Json.mkObj [("k", "uniRemove"), ("pos", posKeyJ p),
      ("n", .arr #[ratJ a, ratJ b, natJ c, natJ d, ratJ f, ratJ g])]
  | .uniCollect p a b c d => Json.mkObj [("k", "uniCollect"), ("pos", posKeyJ p), ("n", .arr #[ratJ a, ratJ b, ratJ c, ratJ d])]
  | .uniTrade kind nums => Json.mkObj [("k", .str (if kind == "BuyAction" then "uniBuy" else if kind == "SellAction" then "uniSell" else kind)),
      ("n", .arr (nums.map ratJ).toArray)]

def ratList (j : Json) : Except String (List Rat) :=
  match j with
  | .arr a => a.toList.mapM jRatOf
  | _ => throw "not a list"

/-- the environment and the oracle table -/
def envOf (j : Json) : Except String (Env × List (List Rat × Rat)) := do
  let rows ← (← jArr j "rows").toList.mapM fun x => do
    match x with
    | .arr #[t, a, b] => do
      let tt ← jRatOf t
      pure ({ t := tt.num, weth := ← jRatOf a, osqth := ← jRatOf b } : Row)
    | _ => throw "row"
  let table ← (← jArr j "oracle").toList.mapM fun x => do
    let (a, b) ← pairArr x
    pure (← ratList a, ← jRatOf b)
  let now ← match jOpt j "now" with
    | none => pure none
    | some v => do pure (some (← jRatOf v).num)
  let mean : List Rat → Rat := fun w => match table.find? (fun p => p.1 == w) with
    | some p => p.2
    | none => 0
  let fee ← match jOpt j "uniFee" with
    | none => pure ((3 : Rat) / 1000)
    | some v => jRatOf v
  pure ({ nf := ← jRat j "nf", weth := ← jRat j "weth", osqth := ← jRat j "osqth", now := now, rows := rows,
          uniPrice := ← jRat j "uniPrice", uniOpen := ← jBool j "uniOpen", mean := mean, uniFee := fee }, table)

/-- every window the model may hand to the oracle must have been seen by the real `calc_twap_price` -/
def oracleCheck (e : Env) (table : List (List Rat × Rat)) : Except String Unit :=
  match e.now with
  | none => pure ()
  | some now =>
    let w := window e now
    if w.isEmpty then throw "empty-window"
    else
      let ww := w.map (·.price .weth)
      let wo := w.map (·.price .osqth)
      if !(table.any (fun p => p.1 == ww)) then throw s!"oracle-miss weth window {ww.map showRat}"
      else if !(table.any (fun p => p.1 == wo)) then throw s!"oracle-miss osqth window {wo.map showRat}"
      else pure ()

def optRat (j : Json) (k : String) : Except String (Option Rat) :=
  match jOpt j k with
  | none => pure none
  | some v => do pure (some (← jRatOf v))

def opOf (j : Json) : Except String Op := do
  let k ← jStr j "k"
  match k with
  | "openMint" =>
    let vk ← match jOpt j "vk" with
      | none => pure none
      | some v => do pure (some (← natOf v))
    pure (.openMint (← jRat j "deposit") (← jRat j "mint") vk (← optPosKey j "pos"))
  | "deposit" => pure (.deposit (← jNat j "vk") (← jRat j "eth"))
  | "depositUni" => pure (.depositUni (← jNat j "vk") (← posKeyOf (← jObj j "pos")))
  | "withdrawUni" => pure (.withdrawUni (← jNat j "vk") (← posKeyOf (← jObj j "pos")))
  | "burnWithdraw" => pure (.burnWithdraw (← jNat j "vk") (← jRat j "burn") (← jRat j "withdraw"))
  | "liquidate" => pure (.liquidate (← jNat j "vk"))
  | "update" => pure .update
  | "reduceDebt" => pure (.reduceDebt (← jNat j "vk") (← jBool j "payBounty"))
  | "uniRemove" => pure (.uniRemove (← posKeyOf (← jObj j "pos")))
  | "buy" => pure (.buy (← optRat j "osqth") (← optRat j "eth"))
  | "sell" => pure (.sell (← optRat j "osqth") (← optRat j "eth"))
  | _ => throw s!"unknown op {k}"

def errJ : Option Err → Json
  | none => .null
  | some e => Json.mkObj [("cls", .str e.cls), ("cause", .str e.cause)]

def winJ (e : Env) : Json :=
  match e.now with
  | none => .null
  | some now =>
    let w := window e now
    Json.mkObj [("t", .arr (w.map (fun r => intJ r.t)).toArray),
                ("weth", .arr (w.map (fun r => ratJ r.weth)).toArray),
                ("osqth", .arr (w.map (fun r => ratJ r.osqth)).toArray)]

def exceptJ {α : Type} (f : α → Json) : Except Err α → Json
  | .ok a => Json.mkObj [("ok", f a)]
  | .error e => Json.mkObj [("err", errJ (some e))]

end Sq
open Sq

def squeethHandlers : List (String × Handler) := []

def squeethJHandlers : List (String × JHandler) := [
  ("step", fun j => do
    let cx := jCtx j
    let s ← stateOf (← jObj j "state")
    let (e, table) ← envOf (← jObj j "env")
    oracleCheck e table
    let op ← opOf (← jObj j "op")
    let r := step cx e s op
    pure (Json.mkObj [("err", errJ r.err), ("state", stateJ r.st), ("actions", .arr (r.st.log.map actionJ).toArray),
                      ("out", .arr (r.out.map ratJ).toArray), ("win", winJ e)])),
  -- views on a state: per-vault (effective collateral, status), market balance, pool balance
  ("views", fun j => do
    let cx := jCtx j
    let s ← stateOf (← jObj j "state")
    let (e, table) ← envOf (← jObj j "env")
    oracleCheck e table
    let vs := s.vaults.map fun (k, _) => Json.arr #[natJ k,
      exceptJ ratJ (effColl cx e s k),
      exceptJ (fun (p : Bool × Bool) => Json.arr #[.bool p.1, .bool p.2]) (vaultStatus cx e s k)]
    let bal := exceptJ (fun (b : Balance) => Json.mkObj [
      ("net_value", ratJ b.netValue), ("collateral_amount", ratJ b.collEth), ("collateral_value", ratJ b.collValue),
      ("osqth_long_amount", ratJ b.long), ("osqth_short_amount", ratJ b.short), ("osqth_short_in_eth", ratJ b.shortEth),
      ("osqth_net_amount", ratJ b.net), ("collateral_ratio", ratJ b.ratio), ("vault_count", natJ b.count)])
      (marketBalance cx e s)
    pure (Json.mkObj [("vaults", .arr vs.toArray), ("balance", bal), ("uni_net_value", ratJ (uniNetValue cx e s)),
                      ("uni_count", natJ (uniCount s)),
                      ("twap", Json.mkObj [("weth", ratJ (twap e .weth)), ("osqth", ratJ (twap e .osqth))]),
                      ("sqrtP", natJ (uniSqrtP cx e.uniPrice)), ("win", winJ e)])),
  ("window", fun j => do
    let (e, _) ← envOf (← jObj j "env")
    pure (Json.mkObj [("win", winJ e)]))
]

end Demeter.Drv
