import Demeter.Drv.Json
namespace Demeter.Drv
open Demeter Lean

def squeethHandlers : List (String × Handler) := []
def squeethJHandlers : List (String × JHandler) := []

end Demeter.Drv
