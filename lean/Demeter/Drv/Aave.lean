/-
  Driver handlers of component `aave` (JSON protocol).

  `aave_step`  {ctx, env, state, op}            → {outcome, tag, result, state, wf}  one call on the market object; `wf` = `Aave.updWF env state`,
                                                                                      the computable hypothesis of the `update()` theorems
  `aave_spec`  {ctx, env, supplies, borrows, view} → {outcome, tag, result}          the view recomputed from scratch
-/
import Demeter.Drv.Json
import Demeter.Aave
import Demeter.Aave.WF
namespace Demeter.Drv
open Demeter Demeter.Aave Lean

namespace AaveJ

def pairs {α : Type} (j : Json) (k : String) (f : Json → Except String α) : Except String (AList String α) := do
  let arr ← jArr j k
  arr.toList.mapM (fun e => match e with
    | .arr #[.str key, v] => do let x ← f v; pure (key, x)
    | _ => throw s!"field {k}: expected [key, value] pairs")

def tokStatus (j : Json) : Except String TokStatus := do
  pure { liqRate := ← jRat j "liqRate", varRate := ← jRat j "varRate", liqIdx := ← jRat j "liqIdx", varIdx := ← jRat j "varIdx" }

def risk (j : Json) : Except String Risk := do
  pure { canColl := ← jBool j "canColl", ltv := ← jRat j "ltv", lt := ← jRat j "lt", bonus := ← jRat j "bonus",
         canBorrow := ← jBool j "canBorrow" }

def env (j : Json) : Except String Env := do
  pure { status := ← pairs j "status" tokStatus, price := ← pairs j "price" jRatOf, risk := ← pairs j "risk" risk,
         isOpen := ← jBool j "isOpen" }

def supplyInfo (j : Json) : Except String SupplyInfo := do
  pure { base := ← jRat j "base", coll := ← jBool j "coll", beginIdx := ← jRat j "beginIdx" }

def borrowInfo (j : Json) : Except String BorrowInfo := do
  pure { base := ← jRat j "base", beginIdx := ← jRat j "beginIdx" }

def supplyV (j : Json) : Except String SupplyV := do
  pure { base := ← jRat j "base", coll := ← jBool j "coll", amount := ← jRat j "amount", apy := ← jRat j "apy",
         value := ← jRat j "value", beginIdx := ← jRat j "beginIdx" }

def borrowV (j : Json) : Except String BorrowV := do
  pure { base := ← jRat j "base", amount := ← jRat j "amount", apy := ← jRat j "apy",
         value := ← jRat j "value", beginIdx := ← jRat j "beginIdx" }

def cache {α : Type} (j : Json) (k : String) (f : Json → Except String α) : Except String (Cache α) := do
  let c ← jObj j k
  pure { empty := ← jBool c "empty", val := ← pairs c "val" f }

def state (j : Json) : Except String St := do
  pure { supplies := ← pairs j "supplies" supplyInfo, borrows := ← pairs j "borrows" borrowInfo,
         collC := ← cache j "collC" jRatOf, supAmtC := ← cache j "supAmtC" jRatOf, supC := ← cache j "supC" supplyV,
         borAmtC := ← cache j "borAmtC" jRatOf, borC := ← cache j "borC" borrowV,
         wallet := ← pairs j "wallet" jRatOf, actions := [], hasUpdate := ← jBool j "hasUpdate" }

def optRat (j : Json) (k : String) : Except String (Option Rat) :=
  match jOpt j k with
  | none => pure none
  | some v => do let r ← jRatOf v; pure (some r)

def optStr (j : Json) (k : String) : Except String (Option String) :=
  match jOpt j k with
  | none => pure none
  | some (.str s) => pure (some s)
  | some v => throw s!"field {k}: expected string or null, got {v.compress}"

def view (j : Json) : Except String View := do
  let name ← jStr j "view"
  match name with
  | "suppliesValue" => pure .suppliesValue
  | "totalSupplyValue" => pure .totalSupplyValue
  | "collateralValue" => pure .collateralValue
  | "totalCollateralValue" => pure .totalCollateralValue
  | "borrowsValue" => pure .borrowsValue
  | "totalBorrowsValue" => pure .totalBorrowsValue
  | "supplies" => pure .supplies
  | "borrows" => pure .borrows
  | "liquidationThreshold" => pure .liquidationThreshold
  | "maxLtv" => pure .maxLtv
  | "ltv" => pure .ltv
  | "healthFactor" => pure .healthFactor
  | "supplyApy" => pure .supplyApy
  | "borrowApy" => pure .borrowApy
  | "totalApy" => pure .totalApy
  | "marketBalance" => pure .marketBalance
  | "getSupply" => do pure (.getSupply (← jStr j "tok"))
  | "getBorrow" => do pure (.getBorrow (← jStr j "tok"))
  | "maxBorrowAmount" => do pure (.maxBorrowAmount (← jStr j "tok"))
  | v => throw s!"unknown view {v}"

def op (j : Json) : Except String Op := do
  let kind ← jStr j "kind"
  match kind with
  | "supply" => do pure (.supply (← jStr j "tok") (← jRat j "amount") (← jBool j "coll"))
  | "withdraw" => do pure (.withdraw (← jStr j "tok") (← optRat j "amount"))
  | "borrow" => do pure (.borrow (← jStr j "tok") (← optRat j "amount"))
  | "repay" => do pure (.repay (← jStr j "tok") (← optRat j "amount") (← jBool j "withColl") (← optStr j "collTok"))
  | "changeCollateral" => do pure (.changeCollateral (← jStr j "tok") (← jBool j "coll"))
  | "update" => pure .update
  | "newBar" => pure .newBar
  | "read" => do pure (.read (← view j))
  | k => throw s!"unknown op {k}"

/-! ### encoding -/

def xratJ : XRat → Json
  | .inf => .str "inf"
  | .fin r => ratJ r

def pairsJ {α : Type} (m : AList String α) (f : α → Json) : Json :=
  .arr (m.map (fun p => Json.arr #[.str p.1, f p.2])).toArray

def supplyInfoJ (v : SupplyInfo) : Json :=
  Json.mkObj [("base", ratJ v.base), ("coll", .bool v.coll), ("beginIdx", ratJ v.beginIdx)]
def borrowInfoJ (v : BorrowInfo) : Json :=
  Json.mkObj [("base", ratJ v.base), ("beginIdx", ratJ v.beginIdx)]
def supplyVJ (v : SupplyV) : Json :=
  Json.mkObj [("base", ratJ v.base), ("coll", .bool v.coll), ("amount", ratJ v.amount), ("apy", ratJ v.apy),
              ("value", ratJ v.value), ("beginIdx", ratJ v.beginIdx)]
def borrowVJ (v : BorrowV) : Json :=
  Json.mkObj [("base", ratJ v.base), ("amount", ratJ v.amount), ("apy", ratJ v.apy),
              ("value", ratJ v.value), ("beginIdx", ratJ v.beginIdx)]
def cacheJ {α : Type} (c : Cache α) (f : α → Json) : Json :=
  Json.mkObj [("empty", .bool c.empty), ("val", pairsJ c.val f)]

def actionJ : Action → Json
  | .supply t a c af => Json.mkObj [("kind", "supply"), ("token", .str t), ("amount", ratJ a), ("coll", .bool c), ("after", ratJ af)]
  | .withdraw t a af => Json.mkObj [("kind", "withdraw"), ("token", .str t), ("amount", ratJ a), ("after", ratJ af)]
  | .borrow t a af => Json.mkObj [("kind", "borrow"), ("token", .str t), ("amount", ratJ a), ("after", ratJ af)]
  | .repay t a af => Json.mkObj [("kind", "repay"), ("token", .str t), ("amount", ratJ a), ("after", ratJ af)]
  | .liquidation c d tc cu dl hb ha ca da =>
    Json.mkObj [("kind", "liquidation"), ("collTok", .str c), ("debtTok", .str d), ("toCover", ratJ tc),
                ("collUsed", ratJ cu), ("debtLiq", ratJ dl), ("hfBefore", xratJ hb), ("hfAfter", xratJ ha),
                ("collAfter", ratJ ca), ("debtAfter", ratJ da)]

def stateJ (s : St) : Json :=
  Json.mkObj [("supplies", pairsJ s.supplies supplyInfoJ), ("borrows", pairsJ s.borrows borrowInfoJ),
              ("collC", cacheJ s.collC ratJ), ("supAmtC", cacheJ s.supAmtC ratJ), ("supC", cacheJ s.supC supplyVJ),
              ("borAmtC", cacheJ s.borAmtC ratJ), ("borC", cacheJ s.borC borrowVJ),
              ("wallet", pairsJ s.wallet ratJ), ("actions", .arr (s.actions.map actionJ).toArray),
              ("hasUpdate", .bool s.hasUpdate)]

def balanceJ (b : Balance) : Json :=
  Json.mkObj [("netValue", ratJ b.netValue), ("suppliesCount", natJ b.suppliesCount), ("borrowsCount", natJ b.borrowsCount),
              ("liqThreshold", xratJ b.liqThreshold), ("healthFactor", xratJ b.healthFactor),
              ("borrowsValue", ratJ b.borrowsValue), ("suppliesValue", ratJ b.suppliesValue),
              ("collateralsValue", ratJ b.collateralsValue), ("maxLtv", xratJ b.maxLtv), ("ltv", xratJ b.ltv),
              ("supplyApy", ratJ b.supplyApy), ("borrowApy", ratJ b.borrowApy), ("netApy", ratJ b.netApy)]

def valJ : Val → Json
  | .unit => .null
  | .rat r => ratJ r
  | .xrat x => xratJ x
  | .amap m => pairsJ m ratJ
  | .smap m => pairsJ m supplyVJ
  | .bmap m => pairsJ m borrowVJ
  | .sup v => supplyVJ v
  | .bor v => borrowVJ v
  | .bal b => balanceJ b

def resJ (r : Res Val) : List (String × Json) :=
  match r with
  | .ok v => [("outcome", "ok"), ("tag", "ok"), ("result", valJ v)]
  | .error e => [("outcome", .str e.cls), ("tag", .str e.tag), ("result", .null)]

/-- the driver's arithmetic: CPython Decimal (`py`) or exact rationals (`exact`; `**` still `dpowNat`,
    an exact 31 536 000-th power of a rational is not representable) -/
def actx (j : Json) : ACtx :=
  match j.getObjVal? "ctx" with
  | .ok (.str "exact") => { rnd := id, dsqrt := dsqrt35, dpow := dpowNat 35 }
  | _ => ACtx.py

end AaveJ

def aaveHandlers : List (String × Handler) := []

def aaveJHandlers : List (String × JHandler) := [
  ("aave_step", fun j => do
    let cx := AaveJ.actx j
    let env ← AaveJ.env (← jObj j "env")
    let st ← AaveJ.state (← jObj j "state")
    let op ← AaveJ.op (← jObj j "op")
    let (r, s') := step cx env st op
    pure (Json.mkObj (AaveJ.resJ r ++ [("state", AaveJ.stateJ s'), ("wf", Json.bool (updWF env st))]))),
  ("aave_spec", fun j => do
    let cx := AaveJ.actx j
    let env ← AaveJ.env (← jObj j "env")
    let sup ← AaveJ.pairs j "supplies" AaveJ.supplyInfo
    let bor ← AaveJ.pairs j "borrows" AaveJ.borrowInfo
    let v ← AaveJ.view j
    pure (Json.mkObj (AaveJ.resJ (specView cx env sup bor v)))),
  ("aave_specall", fun j => do
    let cx := AaveJ.actx j
    let env ← AaveJ.env (← jObj j "env")
    let sup ← AaveJ.pairs j "supplies" AaveJ.supplyInfo
    let bor ← AaveJ.pairs j "borrows" AaveJ.borrowInfo
    let toks ← jArr j "toks"
    let toks ← toks.toList.mapM (fun t => match t with
      | .str s => pure s
      | _ => throw "toks: expected strings")
    let one (v : View) : Json := Json.mkObj (AaveJ.resJ (specView cx env sup bor v))
    let views0 : List (String × View) := [
      ("suppliesValue", .suppliesValue), ("totalSupplyValue", .totalSupplyValue), ("collateralValue", .collateralValue),
      ("totalCollateralValue", .totalCollateralValue), ("borrowsValue", .borrowsValue), ("totalBorrowsValue", .totalBorrowsValue),
      ("supplies", .supplies), ("borrows", .borrows), ("liquidationThreshold", .liquidationThreshold), ("maxLtv", .maxLtv),
      ("ltv", .ltv), ("healthFactor", .healthFactor), ("supplyApy", .supplyApy), ("borrowApy", .borrowApy),
      ("totalApy", .totalApy), ("marketBalance", .marketBalance)]
    pure (Json.mkObj (
      views0.map (fun p => (p.1, one p.2)) ++
      [("getSupply", Json.mkObj (toks.map (fun t => (t, one (.getSupply t))))),
       ("getBorrow", Json.mkObj (toks.map (fun t => (t, one (.getBorrow t))))),
       ("maxBorrowAmount", Json.mkObj (toks.map (fun t => (t, one (.maxBorrowAmount t)))))])))
]

end Demeter.Drv
