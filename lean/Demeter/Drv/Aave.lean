import Demeter.Drv.Json
namespace Demeter.Drv
open Demeter Lean

def aaveHandlers : List (String × Handler) := []
def aaveJHandlers : List (String × JHandler) := []

end Demeter.Drv
