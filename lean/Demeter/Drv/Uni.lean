import Demeter.Drv.Json
import Demeter.LiqMath
import Demeter.Uni
namespace Demeter.Drv
open Demeter

def uniHandlers : List (String × Handler) := [
  ("sqrtAt", fun a => do
    let t ← argInt a 0
    if !tickOk t then throw "AssertionError" else pure (toString (sqrtAt t))),
  ("tickOfSqrt", fun a => do
    let est ← argInt a 0
    let x ← argNat a 1
    pure (toString (tickOfSqrt 64 est x))),
  ("nearestUsable", fun a => do
    let t ← argInt a 0
    let s ← argNat a 1
    pure (toString (nearestUsable t s))),
  ("getLiquidity", fun a => do
    let cx ← argCtx a 0
    let s ← argNat a 1; let ta ← argInt a 2; let tb ← argInt a 3
    let a0 ← argRat a 4; let a1 ← argRat a 5; let d0 ← argNat a 6; let d1 ← argNat a 7
    match getLiquidity cx s ta tb a0 a1 d0 d1 with
    | some l => pure (toString l)
    | none => throw "ZeroDivisionError"),
  ("getAmounts", fun a => do
    let cx ← argCtx a 0
    let s ← argNat a 1; let ta ← argInt a 2; let tb ← argInt a 3
    let l ← argNat a 4; let d0 ← argNat a 5; let d1 ← argNat a 6
    let (x, y) := getAmounts cx s ta tb l d0 d1
    pure s!"{showRat x} {showRat y}")
]
def uniJHandlers : List (String × JHandler) := Demeter.Uni.jHandlers

end Demeter.Drv
