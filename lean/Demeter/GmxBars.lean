/-
  Demeter.GmxBars — the GMX markets as *live objects across bars*.

  `Demeter.GmxV1` / `Demeter.GmxV2` model one call on one data row.  A backtest keeps ONE market object alive and moves
  it from bar to bar with `set_market_status` (Actuator: head of every bar), so anything the object remembers between
  calls is state.  This file models exactly what the objects remember today:

  * `GmxMarket`:   `glp_amount`, `reward` (+ the broker's wallet and action log), the token set `_tokens`, and the
                   current row `_market_status.data`;
  * `GmxV2Market`: `amount` (+ wallet, log), `pool_config`, and the current row.

  Nothing else is stored: no quantity derived from a row survives the next `set_market_status`.  `objectFields` lists the
  instance attributes the objects have today; the harness compares the list with `vars(market)` of the live objects, so a
  new attribute (a cache) is reported as a break of the correspondence even before its staleness is observed, and the
  multi-bar runs (`gmx1.events` / `gmx2.events`) observe the staleness itself.
-/
import Demeter.GmxV1
import Demeter.GmxV2
namespace Demeter.GmxV1
open Demeter

/-- `vars(GmxMarket(...))`: `_market_status` is `Obj.row`, `_tokens` its `tokenSet`, `glp_amount`/`reward` the holdings,
    `broker`/`_record_action_callback` the wallet and the log; `glp_decimal`, `mint_burn_fee_basis_points`,
    `tax_basis_points` are the generated constants (the harness checks the live values); the rest (`_data` = the input frame,
    `_market_info`, `_price_status`, `data_path`, `has_update`, `is_open`, `logger`, `open`, `quote_token`) is not read by
    the modelled operations. -/
def objectFields : List String :=
  ["_data", "_market_info", "_market_status", "_price_status", "_record_action_callback", "_tokens", "broker", "data_path",
   "glp_amount", "glp_decimal", "has_update", "is_open", "logger", "mint_burn_fee_basis_points", "open", "quote_token",
   "reward", "tax_basis_points"]

/-- the live object: current row (with the object's token set) and holdings -/
structure Obj where
  row : Env
  st : State
  allowNeg : Bool := false      -- `broker.allow_negative_balance`
deriving Repr

/-- what can happen to the object -/
inductive Event
  | setStatus (row : Env)                            -- `set_market_status`: the columns of the new bar; `_tokens` is kept
  | op (o : Op)                                      -- `buy_glp` / `sell_glp` / `update`
  | fee (tok : String) (usdg : Rat) (inc : Bool)     -- `get_fee_basis_points` (a read)
deriving Repr

/-- answer of an event -/
inductive Answer
  | none
  | value (r : Except Err Rat)
  | feeBps (r : Except Err (Rat × FeeBranch))

/-- `set_market_status(MarketStatus(ts, None))`: `data.data = self.data.loc[ts]` replaces the row, nothing else -/
def Obj.setStatus (o : Obj) (row : Env) : Obj := { o with row := { row with tokenSet := o.row.tokenSet } }

def Obj.apply (cx : NumCtx) (o : Obj) : Event → Answer × Obj
  | .setStatus row => (.none, o.setStatus row)
  | .op p => let (r, s) := step cx o.row o.st p o.allowNeg; (.value r, { o with st := s })
  | .fee t u i => (.feeBps (GmxV1.feeBps cx o.row t u i), o)

/-- the object after a history of events -/
def Obj.run (cx : NumCtx) (o : Obj) (evs : List Event) : Obj := evs.foldl (fun o e => (o.apply cx e).2) o

end Demeter.GmxV1

namespace Demeter.GmxV2
open Demeter

/-- `vars(GmxV2Market(...))`: `_market_status` is `Obj.row`, `amount` the holding, `pool_config` the configuration, `broker` /
    `_record_action_callback` wallet and log, `pool` the two token keys; the rest is not read by the modelled operations -/
def objectFields : List String :=
  ["_data", "_market_info", "_market_status", "_price_status", "_record_action_callback", "amount", "broker", "data_path",
   "has_update", "is_open", "logger", "open", "pool", "pool_config", "quote_token"]

structure Obj (α : Type) where
  cfg : Config α
  longKey : String
  shortKey : String
  row : Pool α
  st : State α
  allowNeg : Bool := false      -- `broker.allow_negative_balance`

inductive Event (α : Type)
  | setStatus (row : Pool α)
  | deposit (long short : α)
  | withdraw (amount : Option α)

inductive Answer (α : Type)
  | none
  | deposit (r : Except Err (LPResult α × String))
  | withdraw (r : Except Err (LPResult α))

section
variable {α : Type} [Add α] [Sub α] [Mul α] [Div α] [Neg α] [LT α] [LE α] [OfNat α 0] [DecidableLT α] [DecidableLE α]

def Obj.apply (ops : Ops α) (cx : NumCtx) (o : Obj α) : Event α → Answer α × Obj α
  | .setStatus row => (.none, { o with row := row })
  | .deposit l s => let (r, st) := GmxV2.deposit ops cx o.cfg o.row o.longKey o.shortKey o.st l s o.allowNeg; (.deposit r, { o with st := st })
  | .withdraw a => let (r, st) := GmxV2.withdraw ops cx o.cfg o.row o.longKey o.shortKey o.st a; (.withdraw r, { o with st := st })

def Obj.run (ops : Ops α) (cx : NumCtx) (o : Obj α) (evs : List (Event α)) : Obj α :=
  evs.foldl (fun o e => (o.apply ops cx e).2) o
end

end Demeter.GmxV2
