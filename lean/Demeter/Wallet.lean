/-
  Demeter.Wallet — `Asset.add/sub` (broker/_typing.py) and the broker's wallet as an insertion-ordered
  association list (`Broker._assets` is a dict; its iteration order is the order of first insertion).
-/
import Demeter.Num
import Demeter.Gen.Consts
namespace Demeter

/-- insertion-ordered maps: Python dicts -/
abbrev AList (κ : Type) (ν : Type) := List (κ × ν)

namespace AList
variable {κ ν : Type} [DecidableEq κ]
def get? (m : AList κ ν) (k : κ) : Option ν := (m.find? (fun p => p.1 = k)).map (·.2)
def contains (m : AList κ ν) (k : κ) : Bool := m.any (fun p => p.1 = k)
/-- `d[k] = v`: replace in place, or append at the end -/
def set : AList κ ν → κ → ν → AList κ ν
  | [], k, v => [(k, v)]
  | (k', v') :: rest, k, v => if k' = k then (k, v) :: rest else (k', v') :: set rest k v
/-- `del d[k]` (no-op if absent) -/
def erase (m : AList κ ν) (k : κ) : AList κ ν := m.filter (fun p => p.1 ≠ k)
end AList

/-- the exact binary value of the float literal `0.00001` that `Asset.sub` compares a Decimal against -/
def assetDust : Rat := Gen.assetSubDust

def ratAbs (x : Rat) : Rat := if x < 0 then -x else x

/-- `Asset.sub`. `none` = `AssertionError("insufficient balance")`. -/
def assetSub (cx : NumCtx) (balance amount : Rat) (allowNeg : Bool) : Option Rat :=
  let base := if balance ≠ 0 then balance else amount
  if base = 0 then some balance
  else if allowNeg then some (cx.sub balance amount)
  else if ratAbs (cx.div (cx.sub balance amount) base) < assetDust then some 0
  else if cx.sub balance amount < 0 then none
  else some (cx.sub balance amount)

/-- `Asset.add` -/
def assetAdd (cx : NumCtx) (balance amount : Rat) : Rat := cx.add balance amount

/-- token names are strings -/
abbrev Wallet := AList String Rat

inductive WalletErr | insufficient | unknownToken
deriving DecidableEq, Repr

/-- `Broker.add_to_balance` -/
def Wallet.credit (cx : NumCtx) (w : Wallet) (tok : String) (amount : Rat) : Wallet :=
  match AList.get? w tok with
  | some b => AList.set w tok (assetAdd cx b amount)
  | none => AList.set w tok (assetAdd cx 0 amount)

/-- `Broker.subtract_from_balance` -/
def Wallet.debit (cx : NumCtx) (w : Wallet) (tok : String) (amount : Rat) (allowNeg : Bool) :
    Except WalletErr Wallet :=
  match AList.get? w tok with
  | some b =>
    match assetSub cx b amount allowNeg with
    | some b' => .ok (AList.set w tok b')
    | none => .error .insufficient
  | none =>
    if allowNeg then .ok (AList.set w tok (0 - amount)) else .error .unknownToken

end Demeter
