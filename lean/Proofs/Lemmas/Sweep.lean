/-
  Binary-splitting exhaustive checker over an integer interval, with its soundness lemma.
  `decide +kernel` on `chkRange p lo d = true` makes the kernel evaluate `p` on `lo … lo + 2^d − 1`
  without deep recursion; no `native_decide`.
-/
namespace Demeter

def chkRange (p : Int → Bool) (lo : Int) : Nat → Bool
  | 0 => p lo
  | d + 1 => chkRange p lo d && chkRange p (lo + (2 ^ d : Nat)) d

theorem chkRange_sound (p : Int → Bool) : ∀ (d : Nat) (lo : Int), chkRange p lo d = true →
    ∀ t, lo ≤ t → t < lo + (2 ^ d : Nat) → p t = true := by
  intro d
  induction d with
  | zero =>
    intro lo h t h1 h2
    have : t = lo := by simp at h2; omega
    subst this; simpa [chkRange] using h
  | succ d ih =>
    intro lo h t h1 h2
    simp only [chkRange, Bool.and_eq_true] at h
    have hp : (2 ^ (d + 1) : Nat) = 2 ^ d + 2 ^ d := by rw [Nat.pow_succ]; omega
    by_cases hlt : t < lo + (2 ^ d : Nat)
    · exact ih lo h.1 t h1 hlt
    · refine ih _ h.2 t (by omega) ?_
      rw [hp] at h2
      push_cast at h2 ⊢
      omega

end Demeter
