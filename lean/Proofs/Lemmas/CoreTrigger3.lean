import Proofs.Lemmas.CoreTrigger2
namespace Demeter.Core

theorem fireLoop_err (now : Int) : ∀ trigs : List Trig, (∃ t ∈ trigs, whenErr t.k ≠ none) → (fireLoop now trigs).2.2 ≠ none
  | [], h => by obtain ⟨t, ht, _⟩ := h; cases ht
  | t :: rest, h => by
    unfold fireLoop
    cases hw : whenErr t.k with
    | some e => simp
    | none =>
      simp only []
      obtain ⟨x, hx, hne⟩ := h
      rcases List.mem_cons.mp hx with rfl | hx'
      · exact absurd hw hne
      · exact fireLoop_err now rest ⟨x, hx', hne⟩

theorem fireLoop_ok' (now : Int) : ∀ trigs : List Trig, (∀ t ∈ trigs, whenErr t.k = none) →
    fireLoop now trigs = (trigs.filterMap (fireOf now), trigs.map (stepTrig now), none)
  | [], _ => rfl
  | t :: rest, h => by
    have ht := h t (List.mem_cons_self ..)
    have ih := fireLoop_ok' now rest (fun x hx => h x (List.mem_cons_of_mem _ hx))
    simp only [fireLoop, ht, ih, List.filterMap_cons, List.map_cons, fireOf, stepTrig]
    by_cases hb : (whenT now t.k).1 = true <;> simp [hb]

theorem retire_err (now : Int) : ∀ trigs : List Trig, (∃ t ∈ trigs, outErr t.k ≠ none) → (retire now trigs).2 ≠ none
  | [], h => by obtain ⟨t, ht, _⟩ := h; cases ht
  | t :: rest, h => by
    unfold retire
    cases hw : outErr t.k with
    | some e => simp
    | none =>
      simp only []
      obtain ⟨x, hx, hne⟩ := h
      rcases List.mem_cons.mp hx with rfl | hx'
      · exact absurd hw hne
      · exact retire_err now rest ⟨x, hx', hne⟩

/-- a trigger the code cannot evaluate ends the run on the first bar -/
theorem trigPhase_err (now : Int) (trigs : List Trig) (h : ∃ t ∈ trigs, ¬ WF t.k) : (trigPhase now trigs).2.2 ≠ none := by
  by_cases hw : ∀ t ∈ trigs, whenErr t.k = none
  · obtain ⟨x, hx, hnwf⟩ := h
    have hout : outErr x.k ≠ none := fun ho => hnwf ⟨hw x hx, ho⟩
    unfold trigPhase
    rw [fireLoop_ok' now trigs hw]
    simp only []
    apply retire_err
    exact ⟨stepTrig now x, List.mem_map_of_mem hx, by simp only [stepTrig]; rw [outErr_step]; exact hout⟩
  · have : ∃ t ∈ trigs, whenErr t.k ≠ none := by
      by_contra hc
      apply hw
      intro t ht
      by_contra hne
      exact hc ⟨t, ht, hne⟩
    have he := fireLoop_err now trigs this
    unfold trigPhase
    cases hq : (fireLoop now trigs).2.2 with
    | none => exact absurd hq he
    | some e => simp [hq]

theorem raises_iff_malformed (t : Int) (bars : List Int) (trigs : List Trig) (hn : (trigs.map (·.id)).Nodup) :
    (trigRun (t :: bars) trigs).2.2 ≠ none ↔ ∃ x ∈ trigs, ¬ WF x.k := by
  constructor
  · intro h
    by_contra hc
    have hwf : ∀ x ∈ trigs, WF x.k := by
      intro x hx
      by_contra hne
      exact hc ⟨x, hx, hne⟩
    exact h (trigRun_solo (t :: bars) trigs hwf hn).1
  · intro h
    have he := trigPhase_err t trigs h
    simp only [trigRun]
    cases hq : (trigPhase t trigs).2.2 with
    | none => exact absurd hq he
    | some e => simp

end Demeter.Core
