/-
  The long side of the Squeeth market (`buy_squeeth` / `sell_squeeth` = the oSQTH/WETH pool's `buy` / `sell` on the pool's view of the
  state): frame (vaults, positions and the id counter are never touched), atomicity (a rejected trade leaves the state as it was — from
  the pool model's own atomicity lemmas), and what an accepted trade does under exact arithmetic.
-/
import Proofs.Lemmas.Squeeth
import Proofs.Lemmas.UniAtomic
import Mathlib.Algebra.Order.Field.Rat
import Mathlib.Tactic.Linarith
namespace Demeter
namespace Squeeth
open Gen

theorem fromUni_frame (s : State) (r : Uni.Res) :
    (fromUni s r).st.vaults = s.vaults ∧ (fromUni s r).st.positions = s.positions ∧ (fromUni s r).st.maxId = s.maxId := by
  unfold fromUni
  cases r.1 <;> exact ⟨rfl, rfl, rfl⟩

theorem buy_frame (cx : NumCtx) (e : Env) (s : State) (o q : Option Rat) :
    (buySqueethOp cx e s o q).st.vaults = s.vaults ∧ (buySqueethOp cx e s o q).st.positions = s.positions ∧
    (buySqueethOp cx e s o q).st.maxId = s.maxId := by
  unfold buySqueethOp
  split
  · exact ⟨rfl, rfl, rfl⟩
  · exact ⟨rfl, rfl, rfl⟩
  · exact fromUni_frame _ _

theorem fromUni_rejected (e : Env) (s : State) (r : Uni.Res) (ha : Uni.Atomic r (uniView e s)) (h : (fromUni s r).err ≠ none) :
    (fromUni s r).st = s := by
  unfold fromUni at h ⊢
  cases hr : r.1 with
  | ok v => simp [hr] at h
  | error er =>
    have := ha.noop hr
    simp only [this, uniView, List.map_nil, List.append_nil, Res.fail_st]

theorem buy_rejected (cx : NumCtx) (e : Env) (s : State) (o q : Option Rat) (h : (buySqueethOp cx e s o q).err ≠ none) :
    (buySqueethOp cx e s o q).st = s := by
  unfold buySqueethOp at h ⊢
  split
  · rfl
  · rfl
  · rename_i a ha
    rw [ha] at h
    exact fromUni_rejected e s _ (Uni.buy_atomic ..) h

theorem sell_frame (cx : NumCtx) (e : Env) (s : State) (o q : Option Rat) :
    (sellSqueethOp cx e s o q).st.vaults = s.vaults ∧ (sellSqueethOp cx e s o q).st.positions = s.positions ∧
    (sellSqueethOp cx e s o q).st.maxId = s.maxId := by
  unfold sellSqueethOp
  split
  · exact ⟨rfl, rfl, rfl⟩
  · exact ⟨rfl, rfl, rfl⟩
  · exact fromUni_frame _ _

theorem sell_rejected (cx : NumCtx) (e : Env) (s : State) (o q : Option Rat) (h : (sellSqueethOp cx e s o q).err ≠ none) :
    (sellSqueethOp cx e s o q).st = s := by
  unfold sellSqueethOp at h ⊢
  split
  · rfl
  · rfl
  · rename_i a ha
    rw [ha] at h
    exact fromUni_rejected e s _ (Uni.sell_atomic ..) h

/-- both trades of the long side: vaults, pool positions and the id counter are what they were (accepted or rejected, any context) -/
theorem trade_frame (cx : NumCtx) (e : Env) (s : State) (op : Op) (hop : op.isTrade = true) :
    (step cx e s op).st.vaults = s.vaults ∧ (step cx e s op).st.positions = s.positions ∧ (step cx e s op).st.maxId = s.maxId := by
  cases op with
  | buy o q => exact buy_frame cx e s o q
  | sell o q => exact sell_frame cx e s o q
  | _ => simp [Op.isTrade] at hop
theorem longPool_base (e : Env) : (longPool e).baseTok = sqOsqthName := rfl
theorem longPool_quote (e : Env) : (longPool e).quoteTok = sqWethName := rfl
theorem longKern_cx (cx : NumCtx) : (longKern cx).cx = cx := rfl
theorem longPool_fee (e : Env) : (longPool e).feeRate = e.uniFee := rfl


/-- the pool's `swap` between the two pool tokens at a given non-zero price, on the pool's view of a Squeeth state -/
theorem swap_long (cx : NumCtx) (e : Env) (s : State) (amt price : Rat) (f t : String) (hp : price ≠ 0)
    (hft : (f = sqWethName ∧ t = sqOsqthName) ∨ (f = sqOsqthName ∧ t = sqWethName)) :
    Uni.swap (longKern cx) (longPool e) (uniView e s) amt f t (some price) false =
      if amt < 0 then (.error .demeter, uniView e s) else
      match Uni.debit cx s.wallet f amt false with
      | .error er => (.error er, uniView e s)
      | .ok w1 => (.ok (cx.mul amt e.uniFee, cx.mul (cx.sub amt (cx.mul amt e.uniFee)) price),
                    { uniView e s with wallet := Wallet.credit cx w1 t (cx.mul (cx.sub amt (cx.mul amt e.uniFee)) price) }) := by
  have hwo : (sqWethName == sqOsqthName) = false := by decide
  have how : (sqOsqthName == sqWethName) = false := by decide
  have hpb : (price != 0) = true := by simpa using hp
  unfold Uni.swap
  rcases hft with ⟨rfl, rfl⟩ | ⟨rfl, rfl⟩
  · simp only [hwo, longPool_base, longPool_quote, Uni.swapPrice, Uni.givenPrice, hpb, if_true, beq_self_eq_true, Bool.or_true,
      Bool.true_or, Bool.not_true, Bool.or_self, Bool.false_eq_true, if_false, longKern, Uni.Kern.std, uniView, longPool_fee]
    split
    · rfl
    · cases Uni.debit cx s.wallet _ amt false <;> rfl
  · simp only [how, longPool_base, longPool_quote, Uni.swapPrice, Uni.givenPrice, hpb, if_true, beq_self_eq_true, Bool.or_true,
      Bool.true_or, Bool.not_true, Bool.or_self, Bool.false_eq_true, if_false, longKern, Uni.Kern.std, uniView, longPool_fee]
    split
    · rfl
    · cases Uni.debit cx s.wallet _ amt false <;> rfl

/-- the pool's `swap` of oSQTH (the base token) for WETH at the pool's own price (`price if price else market price`: a zero price is
    replaced by the market price, which is the same number) -/
theorem swap_long_sell (cx : NumCtx) (e : Env) (s : State) (amt : Rat) :
    Uni.swap (longKern cx) (longPool e) (uniView e s) amt sqOsqthName sqWethName (some e.uniPrice) false =
      if amt < 0 then (.error .demeter, uniView e s) else
      match Uni.debit cx s.wallet sqOsqthName amt false with
      | .error er => (.error er, uniView e s)
      | .ok w1 => (.ok (cx.mul amt e.uniFee, cx.mul (cx.sub amt (cx.mul amt e.uniFee)) e.uniPrice),
                    { uniView e s with wallet := Wallet.credit cx w1 sqWethName (cx.mul (cx.sub amt (cx.mul amt e.uniFee)) e.uniPrice) }) := by
  by_cases hp : e.uniPrice = 0
  · have how : (sqOsqthName == sqWethName) = false := by decide
    unfold Uni.swap
    simp only [how, longPool_base, longPool_quote, Uni.swapPrice, Uni.givenPrice, hp, bne_self_eq_false, Bool.false_eq_true, if_false,
      beq_self_eq_true, Bool.or_true, Bool.true_or, Bool.not_true, Bool.or_self, if_true, longKern_cx, uniView, longPool_fee, Uni.priceOf]
    split
    · rfl
    · cases Uni.debit cx s.wallet _ amt false <;> rfl
  · exact swap_long cx e s amt e.uniPrice _ _ hp (Or.inr ⟨rfl, rfl⟩)

/-- WETH a buy of `a` oSQTH costs at the pool: `a · price / (1 − fee rate)` -/
def buyCost (e : Env) (a : Rat) : Rat := a * e.uniPrice / (1 - e.uniFee)

theorem buy_ok_exact (e : Env) (s : State) (o q : Option Rat) (h : (buySqueethOp NumCtx.exact e s o q).err = none) :
    ∃ a, longAmount NumCtx.exact e o q = .ok (some a) ∧
      ((a = 0 ∧ buySqueethOp NumCtx.exact e s o q = .ok s [0, 0, 0]) ∨
       (a ≠ 0 ∧ e.uniPrice ≠ 0 ∧ 1 - e.uniFee ≠ 0 ∧ 0 ≤ buyCost e a ∧
        ∃ w1 bb qb, Wallet.debit NumCtx.exact s.wallet sqWethName (buyCost e a) false = .ok w1 ∧
          (buySqueethOp NumCtx.exact e s o q).st.wallet =
            Wallet.credit NumCtx.exact w1 sqOsqthName ((buyCost e a - buyCost e a * e.uniFee) * (1 / e.uniPrice)) ∧
          (buySqueethOp NumCtx.exact e s o q).out =
            [buyCost e a * e.uniFee, buyCost e a, (buyCost e a - buyCost e a * e.uniFee) * (1 / e.uniPrice)] ∧
          (buySqueethOp NumCtx.exact e s o q).st.log = s.log ++ [.uniTrade "BuyAction"
            [bb, qb, a, e.uniPrice, buyCost e a * e.uniFee, (buyCost e a - buyCost e a * e.uniFee) * (1 / e.uniPrice), buyCost e a]])) := by
  unfold buySqueethOp at h ⊢
  cases hl : longAmount NumCtx.exact e o q with
  | error er => simp [hl] at h
  | ok oa =>
    cases oa with
    | none => simp [hl] at h
    | some a =>
      refine ⟨a, rfl, ?_⟩
      simp only [hl] at h ⊢
      by_cases ha : a = 0
      · left
        refine ⟨ha, ?_⟩
        subst ha
        simp [Uni.buy, fromUni, uniView, Res.ok]
      · right
        simp only [Uni.buy, ha, if_false, Uni.orMarketPrice, Uni.givenPrice, Uni.priceOf, longKern_cx,
          NumCtx.exact_sub, NumCtx.exact_mul, NumCtx.exact_div, longPool_base, longPool_quote, longPool_fee] at h ⊢
        simp only [uniView] at h ⊢
        by_cases hf : 1 - e.uniFee = 0
        · simp [hf, fromUni, Uni.fail] at h
        · by_cases hp : e.uniPrice = 0
          · simp [hf, hp, fromUni, Uni.fail] at h
          · have hp1 : (1 : Rat) / e.uniPrice ≠ 0 := one_div_ne_zero hp
            have hsw := swap_long NumCtx.exact e s (a * e.uniPrice / (1 - e.uniFee)) (1 / e.uniPrice) sqWethName sqOsqthName hp1 (Or.inl ⟨rfl, rfl⟩)
            simp only [uniView] at hsw
            simp only [hf, hp, if_false, hsw, NumCtx.exact_sub, NumCtx.exact_mul] at h ⊢
            clear hsw
            by_cases hneg : a * e.uniPrice / (1 - e.uniFee) < 0
            · simp [hneg, fromUni] at h
            · simp only [hneg, if_false] at h ⊢
              cases hd : Uni.debit NumCtx.exact s.wallet sqWethName (a * e.uniPrice / (1 - e.uniFee)) false with
              | error er => simp [hd, fromUni] at h
              | ok w1 =>
                simp only [hd] at h ⊢
                have hb1 : Uni.Has (Wallet.credit NumCtx.exact w1 sqOsqthName ((a * e.uniPrice / (1 - e.uniFee) - a * e.uniPrice / (1 - e.uniFee) * e.uniFee) * (1 / e.uniPrice))) sqOsqthName :=
                  Uni.has_credit _ _ _ _ _ (Or.inr rfl)
                have hb2 : Uni.Has (Wallet.credit NumCtx.exact w1 sqOsqthName ((a * e.uniPrice / (1 - e.uniFee) - a * e.uniPrice / (1 - e.uniFee) * e.uniFee) * (1 / e.uniPrice))) sqWethName :=
                  Uni.has_credit _ _ _ _ _ (Or.inl (Uni.has_debit hd _ (Or.inr rfl)))
                obtain ⟨bb, hbb⟩ := Uni.balanceOf_of_has hb1
                obtain ⟨qb, hqb⟩ := Uni.balanceOf_of_has hb2
                simp only [hbb, hqb]
                refine ⟨ha, hp, hf, not_lt.mp hneg, w1, bb, qb, ?_, rfl, rfl, rfl⟩
                unfold Uni.debit at hd
                cases hw : Wallet.debit NumCtx.exact s.wallet sqWethName (a * e.uniPrice / (1 - e.uniFee)) false with
                | error er => cases er <;> simp [hw] at hd
                | ok w => simp only [hw, Except.ok.injEq] at hd; rw [← hd]; exact hw

theorem sell_ok_exact (e : Env) (s : State) (o q : Option Rat) (h : (sellSqueethOp NumCtx.exact e s o q).err = none) :
    ∃ a, longAmount NumCtx.exact e o q = .ok (some a) ∧
      ((a = 0 ∧ sellSqueethOp NumCtx.exact e s o q = .ok s [0, 0, 0]) ∨
       (a ≠ 0 ∧ 0 ≤ a ∧
        ∃ w1 bb qb, Wallet.debit NumCtx.exact s.wallet sqOsqthName a false = .ok w1 ∧
          (sellSqueethOp NumCtx.exact e s o q).st.wallet = Wallet.credit NumCtx.exact w1 sqWethName ((a - a * e.uniFee) * e.uniPrice) ∧
          (sellSqueethOp NumCtx.exact e s o q).out = [a * e.uniFee, a, (a - a * e.uniFee) * e.uniPrice] ∧
          (sellSqueethOp NumCtx.exact e s o q).st.log = s.log ++ [.uniTrade "SellAction"
            [bb, qb, a, e.uniPrice, a * e.uniFee, a, (a - a * e.uniFee) * e.uniPrice]])) := by
  unfold sellSqueethOp at h ⊢
  cases hl : longAmount NumCtx.exact e o q with
  | error er => simp [hl] at h
  | ok oa =>
    cases oa with
    | none => simp [hl] at h
    | some a =>
      refine ⟨a, rfl, ?_⟩
      simp only [hl] at h ⊢
      by_cases ha : a = 0
      · left
        refine ⟨ha, ?_⟩
        subst ha
        simp [Uni.sell, fromUni, uniView, Res.ok]
      · right
        have hmp : Uni.orMarketPrice (uniView e s) (Uni.givenPrice none) = .ok e.uniPrice := rfl
        simp only [Uni.sell, ha, if_false, hmp, longPool_base, longPool_quote, swap_long_sell, NumCtx.exact_sub, NumCtx.exact_mul] at h ⊢
        simp only [uniView] at h ⊢
        by_cases hneg : a < 0
        · simp [hneg, fromUni] at h
        · simp only [hneg, if_false] at h ⊢
          cases hd : Uni.debit NumCtx.exact s.wallet sqOsqthName a false with
          | error er => simp [hd, fromUni] at h
          | ok w1 =>
            simp only [hd] at h ⊢
            have hb1 : Uni.Has (Wallet.credit NumCtx.exact w1 sqWethName ((a - a * e.uniFee) * e.uniPrice)) sqOsqthName :=
              Uni.has_credit _ _ _ _ _ (Or.inl (Uni.has_debit hd _ (Or.inr rfl)))
            have hb2 : Uni.Has (Wallet.credit NumCtx.exact w1 sqWethName ((a - a * e.uniFee) * e.uniPrice)) sqWethName :=
              Uni.has_credit _ _ _ _ _ (Or.inr rfl)
            obtain ⟨bb, hbb⟩ := Uni.balanceOf_of_has hb1
            obtain ⟨qb, hqb⟩ := Uni.balanceOf_of_has hb2
            simp only [hbb, hqb]
            refine ⟨ha, not_lt.mp hneg, w1, bb, qb, ?_, rfl, rfl, rfl⟩
            unfold Uni.debit at hd
            cases hw : Wallet.debit NumCtx.exact s.wallet sqOsqthName a false with
            | error er => cases er <;> simp [hw] at hd
            | ok w => simp only [hw, Except.ok.injEq] at hd; rw [← hd]
end Squeeth
end Demeter
