/-
  supply, borrow, repay, change_collateral, withdraw keep cache coherence (`Good`), accepted or rejected.
-/
import Proofs.Lemmas.AaveWrites
namespace Demeter.Aave
open Demeter M

variable {cx : ACtx} {env : Env}

/-- coherent, and the positions are the given ones -/
def Pin (cx : ACtx) (env : Env) (sup0 : AList String SupplyInfo) (bor0 : AList String BorrowInfo) (s : St) : Prop :=
  Good cx env s ∧ s.supplies = sup0 ∧ s.borrows = bor0

theorem Pin.good {sup0 : AList String SupplyInfo} {bor0 : AList String BorrowInfo} (s : St) (h : Pin cx env sup0 bor0 s) :
    Good cx env s := h.1

theorem readInv_pin (sup0 : AList String SupplyInfo) (bor0 : AList String BorrowInfo) :
    ReadInv cx env (Pin cx env sup0 bor0) := by
  have hg := readInv_good (cx := cx) (env := env)
  have hf : ∀ x, ReadInv cx env (fun s => s.frame = x) := readInv_frame
  have key : ∀ {α : Type} (m : M α), Inv (Good cx env) m → (∀ x, Inv (fun s => s.frame = x) m) →
      Inv (Pin cx env sup0 bor0) m := by
    intro α m h1 h2 s ⟨g, e1, e2⟩
    have := h2 s.frame s rfl
    exact ⟨h1 s g, (congrArg Frame.supplies this).trans e1, (congrArg Frame.borrows this).trans e2⟩
  exact { sv := key _ hg.sv (fun x => (hf x).sv), bv := key _ hg.bv (fun x => (hf x).bv),
          cv := key _ hg.cv (fun x => (hf x).cv), su := key _ hg.su (fun x => (hf x).su),
          bo := key _ hg.bo (fun x => (hf x).bo) }

/-! ### supply -/

theorem good_commitSupply {s : St} (hs : Good cx env s) {tok : String} (hd : HasData env tok) (info : SupplyInfo) :
    Good cx env (commitSupply tok info s).2 :=
  ⟨⟨nodup_set hs.1.nd _ _, covers_set hs.1.cv hd _, CohC.fresh _, CohC.fresh _, CohC.fresh _⟩,
   hs.2.congr rfl rfl rfl⟩

theorem inv_supply (hE : EnvOK env) (tok : String) (amount : Rat) (coll : Bool) :
    Inv (Good cx env) (supply cx env tok amount coll) := by
  have hwd := inv_walletDebit (cx := cx) (env := env) tok amount
  have hrec := fun a => inv_record (cx := cx) (env := env) a
  have hupd := inv_setUpdated (cx := cx) (env := env)
  unfold supply guardOpen checkCanCollateral checkFlag
  repeat (first
    | exact hrec _
    | exact Inv.modify _ (fun s hs => good_commitSupply hs (hE tok _ (by assumption)) _)
    | inv_step)

/-! ### borrow -/

theorem good_commitBorrow {s : St} (hs : Good cx env s) {tok : String} (hd : HasData env tok) (info : BorrowInfo)
    (amount : Rat) : Good cx env (commitBorrow cx tok info amount s).2 :=
  ⟨hs.1.congr rfl rfl rfl rfl, ⟨nodup_set hs.2.nd _ _, covers_set hs.2.cv hd _, CohC.fresh _, CohC.fresh _⟩⟩

theorem inv_borrow (hE : EnvOK env) (tok : String) (amount? : Option Rat) :
    Inv (Good cx env) (borrow cx env tok amount?) := by
  have hR := readInv_good (cx := cx) (env := env)
  have h1 := hR.sv; have h2 := hR.bv; have h3 := hR.cv; have h5 := hR.bo
  have h9 := hR.toReadInv3.healthFactor; have h10 := hR.toReadInv3.maxLtv
  have h11 := hR.toReadInv3.maxBorrowAmount tok
  have hrec := fun a => inv_record (cx := cx) (env := env) a
  have hupd := inv_setUpdated (cx := cx) (env := env)
  unfold borrow guardOpen borrowAmountOf
  repeat (first
    | exact hrec _
    | exact Inv.modify _ (fun s hs => good_commitBorrow hs (hE tok _ (by assumption)) _ _)
    | inv_step)

/-! ### repay -/

theorem inv_repay (tok : String) (amount? : Option Rat) (withColl : Bool) (collTok? : Option String) :
    Inv (Good cx env) (repay cx env tok amount? withColl collTok?) := by
  have hR := readInv_good (cx := cx) (env := env)
  have h1 := hR.sv; have h2 := hR.bv; have h4 := hR.su
  have h6 := fun k => hR.toReadInv3.getSupply k
  have h7 := fun k => hR.toReadInv3.getBorrow k
  have h12 := fun t a => inv_subSupplyAmount (cx := cx) (env := env) t a
  have h13 := fun t a => inv_subBorrowAmount (cx := cx) (env := env) t a
  have hwd := fun t a => inv_walletDebit (cx := cx) (env := env) t a
  have hrec := fun a => inv_record (cx := cx) (env := env) a
  have hupd := inv_setUpdated (cx := cx) (env := env)
  have hcap : ∀ t c a, Inv (Good cx env) (repayCollateralCap cx env t c a) := by
    intro t c a
    unfold repayCollateralCap
    repeat (first | exact h6 _ | inv_step)
  unfold repay guardOpen lookupBorrow repayAmountOf takeRepayment
  repeat (first | exact h7 _ | exact hcap _ _ _ | exact h12 _ _ | exact h13 _ _ | exact hwd _ _ | exact hrec _ | inv_step)

/-! ### change_collateral -/

theorem good_commitFlag {sup0 : AList String SupplyInfo} {bor0 : AList String BorrowInfo} {s : St}
    (hs : Pin cx env sup0 bor0 s) {tok : String} {info : SupplyInfo} (hg : AList.get? sup0 tok = some info) (c : Bool) :
    Pin cx env (AList.set sup0 tok { info with coll := c }) bor0 (commitFlag tok { info with coll := c } s).2 := by
  obtain ⟨⟨gs, gb⟩, e1, e2⟩ := hs
  have hg' : AList.get? s.supplies tok = some info := by rw [e1]; exact hg
  have hd : HasData env tok := gs.cv tok (aget_mem_keys hg')
  refine ⟨⟨⟨nodup_set gs.nd _ _, covers_set gs.cv hd _, ?_, CohC.fresh _, CohC.fresh _⟩, gb.congr rfl rfl rfl⟩,
          by show AList.set s.supplies _ _ = _; rw [e1], e2⟩
  show CohC s.supAmtC (specSupAmt cx env (AList.set s.supplies tok { info with coll := c }))
  rw [specSupAmt_set_flag c hg']; exact gs.sa

theorem inv_changeCollateral (tok : String) (coll : Bool) : Inv (Good cx env) (changeCollateral cx env tok coll) := by
  intro s hs
  have hid : ∀ sup b s, Pin cx env sup b s → Good cx env s := fun _ _ _ h => h.1
  have hupd : ∀ sup b, InvTo (Pin cx env sup b) (Good cx env) setUpdated :=
    fun sup b => InvTo.weaken (inv_setUpdated (cx := cx) (env := env)).to (hid sup b)
  refine (?_ : InvTo (Pin cx env s.supplies s.borrows) (Good cx env) _) s ⟨hs, rfl, rfl⟩
  unfold changeCollateral guardOpen lookupSupply
  refine InvTo.bind_require (fun _ => ?_) (hid _ _)
  refine InvTo.bind_queryPos (fun _ h => ⟨h.2.1, h.2.2⟩) (fun info hq => ?_) (hid _ _)
  have hg : AList.get? s.supplies tok = some info := by
    cases h : AList.get? s.supplies tok with
    | none => rw [h] at hq; cases hq
    | some i => rw [h] at hq; cases hq; rfl
  split
  · exact hupd _ _
  · -- the flag really changes: `_supplies_amount_cache` stays valid, the other two are reset
    refine InvTo.bind (R := Pin cx env s.supplies s.borrows)
      (fun s' hs' => by rw [checkCanCollateral_snd]; exact hs') (fun _ => ?_) (hid _ _)
    refine InvTo.bind (R := Pin cx env (AList.set s.supplies tok { info with coll := coll }) s.borrows)
      (InvTo.modify (fun s' hs' => good_commitFlag hs' hg coll)) (fun _ => ?_) (hid _ _)
    dsimp only
    split
    · have hback : ∀ s', Pin cx env (AList.set s.supplies tok { info with coll := coll }) s.borrows s' →
          Good cx env (commitFlag tok info s').2 := by
        intro s' hs'
        have hg1 : AList.get? (AList.set s.supplies tok { info with coll := coll }) tok
            = some { info with coll := coll } := aget_set_self _ _ _
        have h := (good_commitFlag hs' hg1 info.coll).1
        have e : ({ ({ info with coll := coll } : SupplyInfo) with coll := info.coll } : SupplyInfo) = info := by
          cases info; rfl
        rw [e] at h
        exact h
      refine InvTo.bind_onError (R := Pin cx env (AList.set s.supplies tok { info with coll := coll }) s.borrows)
        (readInv_pin _ _).toReadInv3.healthFactor (fun hf => ?_) hback
      split
      · -- revert: the original flag is written back and the same two caches are reset again
        refine InvTo.bind (R := Good cx env) (InvTo.modify (fun s' hs' => ?_))
          (fun _ => (Inv.bind (Inv.throw _) (fun _ => inv_setUpdated)).to) (fun _ h => h)
        have hg1 : AList.get? (AList.set s.supplies tok { info with coll := coll }) tok
            = some { info with coll := coll } := aget_set_self _ _ _
        have h := (good_commitFlag hs' hg1 info.coll).1
        have e : ({ ({ info with coll := coll } : SupplyInfo) with coll := info.coll } : SupplyInfo) = info := by
          cases info; rfl
        rw [e] at h
        exact h
      · exact hupd _ _
    · exact hupd _ _

end Demeter.Aave
