/-
  Lemmas about Demeter.Trigger (builder `core`): `max`, the skip loop of the period triggers, the lattice invariant
  of a due time, one trigger through the bar loop (`soloFires`), and the reduction of a list of triggers to
  independent single triggers (`trigRun_solo`).
-/
import Demeter.Trigger
import Mathlib.Tactic.Linarith
import Mathlib.Tactic.Ring
namespace Demeter.Core


theorem listMax_none {l : List Int} : listMax l = none ↔ l = [] := by
  cases l with
  | nil => simp [listMax]
  | cons a l =>
    simp only [listMax]
    cases listMax l <;> simp

theorem listMax_ge {l : List Int} {m x : Int} (h : listMax l = some m) (hx : x ∈ l) : x ≤ m := by
  induction l generalizing m with
  | nil => cases hx
  | cons a l ih =>
    simp only [listMax] at h
    cases hl : listMax l with
    | none =>
      rw [hl] at h
      have : l = [] := listMax_none.mp hl
      subst this
      simp at hx h
      omega
    | some m' =>
      rw [hl] at h
      simp only [Option.some.injEq] at h
      rcases List.mem_cons.mp hx with rfl | hx
      · split at h <;> omega
      · have := ih hl hx
        split at h <;> omega

theorem advanceFuel_spec (δ now : Int) (hδ : 0 < δ) : ∀ (f : Nat) (next : Int), (now - next).toNat ≤ f →
    (∃ m : Nat, advanceFuel f δ next now = next + m * δ) ∧
    (now ≤ next → advanceFuel f δ next now = next) ∧
    (next < now → now ≤ advanceFuel f δ next now ∧ advanceFuel f δ next now - δ < now)
  | 0, next, hf => by
    refine ⟨⟨0, by simp [advanceFuel]⟩, fun _ => rfl, fun h => ?_⟩
    omega
  | f + 1, next, hf => by
    by_cases h : next < now
    · obtain ⟨⟨m, hm⟩, h1, h2⟩ := advanceFuel_spec δ now hδ f (next + δ) (by omega)
      simp only [advanceFuel, if_pos h]
      refine ⟨⟨m + 1, by rw [hm]; push_cast; ring⟩, fun h' => by omega, fun _ => ?_⟩
      by_cases hc : next + δ < now
      · exact h2 hc
      · rw [h1 (by omega)]; constructor <;> omega
    · simp only [advanceFuel, if_neg h]
      exact ⟨⟨0, by simp⟩, by simp, fun h' => absurd h' h⟩

/-- the `while next < now: next += δ` loop lands on the first lattice point `≥ now` -/
theorem advance_spec (δ next now : Int) (hδ : 0 < δ) :
    (∃ m : Nat, advance δ next now = next + m * δ) ∧
    (now ≤ next → advance δ next now = next) ∧
    (next < now → now ≤ advance δ next now ∧ advance δ next now - δ < now) :=
  advanceFuel_spec δ now hδ _ next (le_refl _)

/-- `x = base + k·δ` for some `k ≥ 1` -/
def OnLat (δ base x : Int) : Prop := ∃ k : Nat, x = base + ((k : Int) + 1) * δ

/-- what is known about a due time after the bar at `t`: it is a lattice point, and no lattice point lies in `(t, next)` -/
def LatInv (base t δ next : Int) : Prop :=
  0 < δ ∧ OnLat δ base next ∧ (next = base + δ ∨ next - δ ≤ t)

theorem mul_lt_cancel {a b δ : Int} (hδ : 0 < δ) (h : a * δ < b * δ) : a < b := by
  by_contra hc
  have : b * δ ≤ a * δ := Int.mul_le_mul_of_nonneg_right (by omega) (le_of_lt hδ)
  omega

theorem stepOne_spec {base t δ next now : Int} (hinv : LatInv base t δ next) (ht : t < now) :
    ((stepOne now δ next).1 = true ↔ OnLat δ base now) ∧ LatInv base now δ (stepOne now δ next).2 := by
  obtain ⟨hδ, ⟨j, hj⟩, hgap⟩ := hinv
  obtain ⟨⟨m, hm⟩, h1, h2⟩ := advance_spec δ next now hδ
  unfold stepOne
  by_cases hr : advance δ next now = now
  · simp only [hr, if_true]
    have e1 : OnLat δ base now := ⟨j + m, by rw [← hr, hm, hj]; push_cast; ring⟩
    have e2 : OnLat δ base (now + δ) := ⟨j + m + 1, by rw [← hr, hm, hj]; push_cast; ring⟩
    exact ⟨iff_of_true trivial e1, hδ, e2, Or.inr (by omega)⟩
  · simp only [hr, if_false]
    have e2 : OnLat δ base (advance δ next now) := ⟨j + m, by rw [hm, hj]; push_cast; ring⟩
    refine ⟨iff_of_false (by simp) ?_, hδ, e2, ?_⟩
    · rintro ⟨k, hk⟩
      by_cases hc : now ≤ next
      · have hn := h1 hc
        have hlt : now < next := by omega
        -- (k+1)δ < (j+1)δ
        have : ((k : Int) + 1) * δ < ((j : Int) + 1) * δ := by omega
        have hkj := mul_lt_cancel hδ this
        rcases hgap with hg | hg
        · have : ((j : Int) + 1) * δ = 1 * δ := by omega
          have : (j : Int) * δ = 0 := by linarith
          have : ((k : Int) + 1) * δ < 1 * δ := by linarith
          have := mul_lt_cancel hδ this
          omega
        · have : ((j : Int)) * δ < ((k : Int) + 1) * δ := by
            have e : next - δ = base + (j : Int) * δ := by rw [hj]; ring
            omega
          have := mul_lt_cancel hδ this
          omega
      · obtain ⟨h3, h4⟩ := h2 (by omega)
        have hgt : now < advance δ next now := by omega
        rw [hm, hj] at hgt h4
        have a1 : ((k : Int) + 1) * δ < ((j : Int) + m + 1) * δ := by
          have : base + ((j : Int) + 1) * δ + (m : Int) * δ = base + ((j : Int) + m + 1) * δ := by ring
          omega
        have a2 : ((j : Int) + m) * δ < ((k : Int) + 1) * δ := by
          have : base + ((j : Int) + 1) * δ + (m : Int) * δ - δ = base + ((j : Int) + m) * δ := by ring
          omega
        have := mul_lt_cancel hδ a1
        have := mul_lt_cancel hδ a2
        omega
    · by_cases hc : now ≤ next
      · rw [h1 hc]
        rcases hgap with hg | hg
        · exact Or.inl hg
        · exact Or.inr (by omega)
      · obtain ⟨h3, h4⟩ := h2 (by omega)
        exact Or.inr (by omega)

theorem stepAll_spec {base t now : Int} (ht : t < now) :
    ∀ {δs ns : List Int}, List.Forall₂ (LatInv base t) δs ns →
      ((stepAll now δs ns).1 = true ↔ ∃ δ ∈ δs, OnLat δ base now) ∧
      List.Forall₂ (LatInv base now) δs (stepAll now δs ns).2
  | [], [], _ => by simp [stepAll]
  | δ :: δs, n :: ns, h => by
    cases h with
    | cons h1 h2 =>
      obtain ⟨a1, a2⟩ := stepOne_spec h1 ht
      obtain ⟨b1, b2⟩ := stepAll_spec ht h2
      simp only [stepAll, Bool.or_eq_true, List.mem_cons, exists_eq_or_imp]
      exact ⟨by rw [a1, b1], List.Forall₂.cons a2 b2⟩

theorem onLat_iff {δ base x : Int} (hδ : 0 < δ) : onLat δ base x = true ↔ OnLat δ base x := by
  unfold onLat OnLat
  simp only [Bool.and_eq_true, decide_eq_true_eq, beq_iff_eq]
  constructor
  · rintro ⟨⟨_, hm⟩, hge⟩
    obtain ⟨c, hc⟩ := Int.dvd_of_emod_eq_zero hm
    have hc1 : 1 ≤ c := by
      by_contra hcc
      have : δ * c ≤ δ * 0 := Int.mul_le_mul_of_nonneg_left (by omega) (le_of_lt hδ)
      omega
    refine ⟨(c - 1).toNat, ?_⟩
    have : (((c - 1).toNat : Nat) : Int) = c - 1 := Int.toNat_of_nonneg (by omega)
    rw [this]
    have : (c - 1 + 1) * δ = δ * c := by ring
    omega
  · rintro ⟨k, hk⟩
    have e : x - base = δ * ((k : Int) + 1) := by rw [hk]; ring
    refine ⟨⟨hδ, ?_⟩, ?_⟩
    · rw [e]; exact Int.mul_emod_right _ _
    · rw [e]
      have : δ * 1 ≤ δ * ((k : Int) + 1) := Int.mul_le_mul_of_nonneg_left (by omega) (le_of_lt hδ)
      omega



/-- one trigger through the bar loop: the bars on which its action is called (evaluation, then retirement) -/
def soloFires : List Int → TrigKind → List Int
  | [], _ => []
  | t :: bars, k =>
    (if (whenT t k).1 then [t] else []) ++ (if outOfDate t (whenT t k).2 then [] else soloFires bars (whenT t k).2)

/-- triggers without mutable state: retiring them is sound as soon as `is_out_date` implies `when` stays false -/
theorem solo_stateless (k : TrigKind) (hk : ∀ t, (whenT t k).2 = k)
    (hout : ∀ t t', outOfDate t k = true → t < t' → (whenT t' k).1 = false) :
    ∀ bars : List Int, bars.Pairwise (· < ·) → soloFires bars k = bars.filter (fun t => (whenT t k).1)
  | [], _ => rfl
  | t :: bars, hp => by
    have hp' := List.pairwise_cons.mp hp
    simp only [soloFires, hk, List.filter_cons]
    have ih := solo_stateless k hk hout bars hp'.2
    by_cases ho : outOfDate t k = true
    · have : bars.filter (fun t => (whenT t k).1) = [] := by
        apply List.filter_eq_nil_iff.mpr
        intro x hx
        rw [hout t x ho (hp'.1 x hx)]; simp
      rw [if_pos ho, this]
      split <;> simp
    · rw [if_neg ho, ih]
      split <;> simp

theorem out_sound_atTime (s t t' : Int) (h : outOfDate t (.atTime s) = true) (ht : t < t') :
    (whenT t' (.atTime s)).1 = false := by
  simp only [outOfDate, decide_eq_true_eq] at h
  simp only [whenT, beq_eq_false_iff_ne, ne_eq]
  omega

theorem out_sound_atTimes (ss : List Int) (t t' : Int) (h : outOfDate t (.atTimes ss) = true) (ht : t < t') :
    (whenT t' (.atTimes ss)).1 = false := by
  simp only [outOfDate] at h
  simp only [whenT]
  cases hm : listMax ss with
  | none => rw [hm] at h; cases h
  | some m =>
    rw [hm] at h
    simp only [decide_eq_true_eq] at h
    apply Bool.eq_false_iff.mpr
    intro hc
    have := listMax_ge hm (List.contains_iff_mem.mp hc)
    omega

theorem out_sound_range (s e t t' : Int) (h : outOfDate t (.range s e) = true) (ht : t < t') :
    (whenT t' (.range s e)).1 = false := by
  simp only [outOfDate, decide_eq_true_eq] at h
  simp only [whenT, Bool.and_eq_false_imp, decide_eq_true_eq, decide_eq_false_iff_not]
  omega

theorem out_sound_ranges (rs : List (Int × Int)) (t t' : Int) (h : outOfDate t (.ranges rs) = true) (ht : t < t') :
    (whenT t' (.ranges rs)).1 = false := by
  simp only [outOfDate] at h
  simp only [whenT]
  cases hm : listMax (rs.map (·.2)) with
  | none => rw [hm] at h; cases h
  | some m =>
    rw [hm] at h
    simp only [decide_eq_true_eq] at h
    apply Bool.eq_false_iff.mpr
    intro hc
    obtain ⟨r, hr, hr2⟩ := List.any_eq_true.mp hc
    simp only [Bool.and_eq_true, decide_eq_true_eq] at hr2
    have := listMax_ge hm (List.mem_map_of_mem (f := (·.2)) hr)
    omega

/-- the state of a period trigger after its first evaluation at `t0` satisfies the invariant -/
theorem latInv_init {δ t0 pend : Int} (hδ : 0 < δ) : LatInv (t0 + pend) t0 δ (t0 + δ + pend) :=
  ⟨hδ, ⟨0, by push_cast; ring⟩, Or.inl (by ring)⟩

theorem solo_period_rest (δ : Int) (imm : Bool) (pend t0 : Int) :
    ∀ (rest : List Int) (t next : Int), (t :: rest).Pairwise (· < ·) → t0 ≤ t → LatInv (t0 + pend) t δ next →
      soloFires rest (.period δ imm pend (some next)) = rest.filter (denotes t0 (.period δ imm pend))
  | [], _, _, _, _, _ => rfl
  | x :: rest, t, next, hp, ht0, hinv => by
    have hp' := List.pairwise_cons.mp hp
    have htx : t < x := hp'.1 x (List.mem_cons_self ..)
    obtain ⟨a1, a2⟩ := stepOne_spec hinv htx
    have ih := solo_period_rest δ imm pend t0 rest x (stepOne x δ next).2 hp'.2 (by omega) a2
    have hden : denotes t0 (.period δ imm pend) x = (stepOne x δ next).1 := by
      have hne : (x == t0) = false := by simp; omega
      simp only [denotes, hne, Bool.and_false, Bool.false_or]
      have : decide (t0 < x) = true := by simp; omega
      rw [this, Bool.true_and]
      apply Bool.eq_iff_iff.mpr
      rw [a1, onLat_iff hinv.1]
    simp only [soloFires, whenT, outOfDate, List.filter_cons, hden]
    rw [ih]
    by_cases hb : (stepOne x δ next).1 = true <;> simp [hb]

theorem solo_periods_rest (δs : List Int) (imm : Bool) (pend t0 : Int) :
    ∀ (rest : List Int) (t : Int) (ns : List Int), (t :: rest).Pairwise (· < ·) → t0 ≤ t →
      List.Forall₂ (LatInv (t0 + pend) t) δs ns →
      soloFires rest (.periods δs imm pend (some ns)) = rest.filter (denotes t0 (.periods δs imm pend))
  | [], _, _, _, _, _ => rfl
  | x :: rest, t, ns, hp, ht0, hinv => by
    have hp' := List.pairwise_cons.mp hp
    have htx : t < x := hp'.1 x (List.mem_cons_self ..)
    obtain ⟨a1, a2⟩ := stepAll_spec htx hinv
    have ih := solo_periods_rest δs imm pend t0 rest x (stepAll x δs ns).2 hp'.2 (by omega) a2
    have hpos : ∀ δ ∈ δs, 0 < δ := by
      intro δ hδ
      clear a1 a2 ih
      induction hinv with
      | nil => cases hδ
      | cons h _ ih' =>
        rcases List.mem_cons.mp hδ with rfl | h'
        · exact h.1
        · exact ih' h'
    have hden : denotes t0 (.periods δs imm pend) x = (stepAll x δs ns).1 := by
      have hne : (x == t0) = false := by simp; omega
      simp only [denotes, hne, Bool.and_false, Bool.false_or]
      have : decide (t0 < x) = true := by simp; omega
      rw [this, Bool.true_and]
      apply Bool.eq_iff_iff.mpr
      rw [a1, List.any_eq_true]
      constructor
      · rintro ⟨δ, hδ, h⟩; exact ⟨δ, hδ, (onLat_iff (hpos δ hδ)).mp h⟩
      · rintro ⟨δ, hδ, h⟩; exact ⟨δ, hδ, (onLat_iff (hpos δ hδ)).mpr h⟩
    simp only [soloFires, whenT, outOfDate, List.filter_cons, hden]
    rw [ih]
    by_cases hb : (stepAll x δs ns).1 = true <;> simp [hb]




/-- no exception can come out of `when` / `is_out_date` of this object -/
def WF (k : TrigKind) : Prop := whenErr k = none ∧ outErr k = none

def firesOf (i : Nat) (fs : List Fire) : List Fire := fs.filter (fun f => f.id == i)
def findTrig (i : Nat) (trigs : List Trig) : Option Trig := trigs.find? (fun t => t.id == i)
def stepTrig (now : Int) (t : Trig) : Trig := { t with k := (whenT now t.k).2 }
def fireOf (now : Int) (t : Trig) : Option Fire := if (whenT now t.k).1 then some ⟨now, t.id, t.kw⟩ else none

theorem whenErr_step (now : Int) (k : TrigKind) : whenErr (whenT now k).2 = whenErr k := by
  cases k with
  | period δ imm pend next => cases next <;> rfl
  | periods δs imm pend nexts => cases nexts <;> cases δs <;> rfl
  | _ => rfl

theorem outErr_step (now : Int) (k : TrigKind) : outErr (whenT now k).2 = outErr k := by
  cases k with
  | period δ imm pend next => cases next <;> rfl
  | periods δs imm pend nexts => cases nexts <;> rfl
  | _ => rfl

theorem WF_step (now : Int) {k : TrigKind} (h : WF k) : WF (whenT now k).2 :=
  ⟨by rw [whenErr_step]; exact h.1, by rw [outErr_step]; exact h.2⟩

theorem fireLoop_ok (now : Int) : ∀ trigs : List Trig, (∀ t ∈ trigs, WF t.k) →
    fireLoop now trigs = (trigs.filterMap (fireOf now), trigs.map (stepTrig now), none)
  | [], _ => rfl
  | t :: rest, h => by
    have ht := (h t (List.mem_cons_self ..)).1
    have ih := fireLoop_ok now rest (fun x hx => h x (List.mem_cons_of_mem _ hx))
    simp only [fireLoop, ht, ih, List.filterMap_cons, List.map_cons, fireOf, stepTrig]
    by_cases hb : (whenT now t.k).1 = true <;> simp [hb]

theorem retire_ok (now : Int) : ∀ trigs : List Trig, (∀ t ∈ trigs, WF t.k) →
    retire now trigs = (trigs.filter (fun t => !outOfDate now t.k), none)
  | [], _ => rfl
  | t :: rest, h => by
    have ht := (h t (List.mem_cons_self ..)).2
    have ih := retire_ok now rest (fun x hx => h x (List.mem_cons_of_mem _ hx))
    simp only [retire, ht, ih, List.filter_cons]
    by_cases hb : outOfDate now t.k = true <;> simp [hb]

def phaseTrigs (now : Int) (trigs : List Trig) : List Trig :=
  (trigs.map (stepTrig now)).filter (fun t => !outOfDate now t.k)

theorem WF_map_step (now : Int) {trigs : List Trig} (h : ∀ t ∈ trigs, WF t.k) :
    ∀ t ∈ trigs.map (stepTrig now), WF t.k := by
  intro t ht
  obtain ⟨x, hx, rfl⟩ := List.mem_map.mp ht
  exact WF_step now (h x hx)

theorem trigPhase_ok (now : Int) (trigs : List Trig) (h : ∀ t ∈ trigs, WF t.k) :
    trigPhase now trigs = (trigs.filterMap (fireOf now), phaseTrigs now trigs, none) := by
  simp only [trigPhase, fireLoop_ok now trigs h, retire_ok now _ (WF_map_step now h), phaseTrigs]

theorem WF_phase (now : Int) {trigs : List Trig} (h : ∀ t ∈ trigs, WF t.k) :
    ∀ t ∈ phaseTrigs now trigs, WF t.k := by
  intro t ht
  exact WF_map_step now h t (List.mem_filter.mp ht).1

theorem ids_phase (now : Int) (trigs : List Trig) :
    ((phaseTrigs now trigs).map (·.id)).Sublist (trigs.map (·.id)) := by
  have h1 : (trigs.map (stepTrig now)).map (·.id) = trigs.map (·.id) := by
    rw [List.map_map]; rfl
  rw [← h1]
  exact List.Sublist.map _ List.filter_sublist

theorem firesOf_nil_of_ids (now : Int) (i : Nat) : ∀ l : List Trig, (∀ x ∈ l, x.id ≠ i) →
    firesOf i (l.filterMap (fireOf now)) = []
  | [], _ => rfl
  | a :: l, h => by
    have ih := firesOf_nil_of_ids now i l (fun x hx => h x (List.mem_cons_of_mem _ hx))
    have ha := h a (List.mem_cons_self ..)
    simp only [List.filterMap_cons, fireOf]
    by_cases hb : (whenT now a.k).1 = true
    · simp only [hb, if_true, firesOf, List.filter_cons]
      have : ((a.id == i) = false) := by simp [ha]
      simp only [this]
      exact ih
    · simp only [hb]; exact ih

theorem firesOf_phase (now : Int) (i : Nat) : ∀ trigs : List Trig, (trigs.map (·.id)).Nodup →
    firesOf i (trigs.filterMap (fireOf now)) =
      match findTrig i trigs with
      | none => []
      | some x => if (whenT now x.k).1 then [⟨now, x.id, x.kw⟩] else []
  | [], _ => rfl
  | a :: l, hn => by
    have hn' : (∀ x ∈ l, ¬x.id = a.id) ∧ (l.map (·.id)).Nodup := by simpa using hn
    by_cases ha : a.id = i
    · have hl : ∀ x ∈ l, x.id ≠ i := by
        intro x hx hxi
        exact hn'.1 x hx (by rw [hxi, ha])
      have hnil := firesOf_nil_of_ids now i l hl
      have hf : findTrig i (a :: l) = some a := by simp [findTrig, ha]
      rw [hf]
      simp only [List.filterMap_cons, fireOf]
      by_cases hb : (whenT now a.k).1 = true
      · simp only [hb, if_true]
        show firesOf i (_ :: _) = _
        simp only [firesOf, List.filter_cons, ha, beq_self_eq_true, if_true]
        exact congrArg _ hnil
      · simp only [hb]; exact hnil
    · have hf : findTrig i (a :: l) = findTrig i l := by simp [findTrig, ha]
      rw [hf, ← firesOf_phase now i l hn'.2]
      simp only [List.filterMap_cons, fireOf]
      by_cases hb : (whenT now a.k).1 = true
      · simp only [hb, if_true, firesOf, List.filter_cons]
        have : ((a.id == i) = false) := by simp [ha]
        simp only [this]; rfl
      · simp [hb]

theorem findTrig_none_phase (now : Int) (i : Nat) : ∀ l : List Trig, (∀ x ∈ l, x.id ≠ i) →
    findTrig i (phaseTrigs now l) = none := by
  intro l h
  simp only [findTrig, phaseTrigs]
  apply List.find?_eq_none.mpr
  intro x hx
  have := (List.mem_filter.mp hx).1
  obtain ⟨y, hy, rfl⟩ := List.mem_map.mp this
  simp [stepTrig, h y hy]

theorem findTrig_phase (now : Int) (i : Nat) : ∀ trigs : List Trig, (trigs.map (·.id)).Nodup →
    findTrig i (phaseTrigs now trigs) =
      match findTrig i trigs with
      | none => none
      | some x => if outOfDate now (whenT now x.k).2 then none else some (stepTrig now x)
  | [], _ => rfl
  | a :: l, hn => by
    have hn' : (∀ x ∈ l, ¬x.id = a.id) ∧ (l.map (·.id)).Nodup := by simpa using hn
    have ih := findTrig_phase now i l hn'.2
    by_cases ha : a.id = i
    · have hl : ∀ x ∈ l, x.id ≠ i := by
        intro x hx hxi
        exact hn'.1 x hx (by rw [hxi, ha])
      have hnone := findTrig_none_phase now i l hl
      have hf : findTrig i (a :: l) = some a := by simp [findTrig, ha]
      rw [hf]
      simp only [phaseTrigs, findTrig] at hnone ⊢
      simp only [List.map_cons, List.filter_cons]
      by_cases hb : outOfDate now (whenT now a.k).2 = true
      · simp only [stepTrig, hb, Bool.not_true, if_true]
        simpa using hnone
      · simp only [stepTrig, hb]
        simp [ha]
    · have hf : findTrig i (a :: l) = findTrig i l := by simp [findTrig, ha]
      rw [hf, ← ih]
      simp only [phaseTrigs, findTrig, List.map_cons, List.filter_cons]
      by_cases hb : outOfDate now (stepTrig now a).k = true
      · simp [hb]
      · simp only [hb]
        simp [stepTrig, ha]

theorem trigRun_solo : ∀ (bars : List Int) (trigs : List Trig), (∀ t ∈ trigs, WF t.k) → (trigs.map (·.id)).Nodup →
    (trigRun bars trigs).2.2 = none ∧
    ∀ i, firesOf i (trigRun bars trigs).1 =
      match findTrig i trigs with
      | none => []
      | some x => (soloFires bars x.k).map (fun t => ⟨t, x.id, x.kw⟩)
  | [], trigs, _, _ => by
    refine ⟨rfl, fun i => ?_⟩
    simp only [trigRun, firesOf, List.filter_nil, soloFires, List.map_nil]
    cases findTrig i trigs <;> rfl
  | t :: bars, trigs, hwf, hn => by
    have hph := trigPhase_ok t trigs hwf
    have hn2 : ((phaseTrigs t trigs).map (·.id)).Nodup := List.Nodup.sublist (ids_phase t trigs) hn
    obtain ⟨ih1, ih2⟩ := trigRun_solo bars (phaseTrigs t trigs) (WF_phase t hwf) hn2
    simp only [trigRun, hph]
    refine ⟨ih1, fun i => ?_⟩
    have hsplit : firesOf i (trigs.filterMap (fireOf t) ++ (trigRun bars (phaseTrigs t trigs)).1) =
        firesOf i (trigs.filterMap (fireOf t)) ++ firesOf i (trigRun bars (phaseTrigs t trigs)).1 := by
      simp [firesOf]
    rw [hsplit, ih2 i, firesOf_phase t i trigs hn, findTrig_phase t i trigs hn]
    cases hfi : findTrig i trigs with
    | none => rfl
    | some x =>
      simp only [soloFires]
      by_cases hb : (whenT t x.k).1 = true <;> by_cases ho : outOfDate t (whenT t x.k).2 = true <;>
        simp [hb, ho, stepTrig]


end Demeter.Core
