/-
  The general model on a script whose hooks only issue operations is the basic model (`runG (ofScript sc) = run sc`).
-/
import Proofs.Lemmas.CoreHooks3
namespace Demeter.Core

/-! ### operations neither read nor write `strategy.triggers` and the account rows -/

theorem doOp_with (ts : Int) (h : Hook) (op : OpSpec) (st : St) (tr : List Trig) (rw_ : List (Int × Option Int)) :
    doOp ts h op { st with trigs := tr, rows := rw_ } =
      ((doOp ts h op st).1, { (doOp ts h op st).2 with trigs := tr, rows := rw_ }) := by
  unfold doOp
  simp only []
  split
  · rfl
  · split
    · split <;> rfl
    · split
      · rfl
      · split <;> rfl

theorem runOps_with (ts : Int) (h : Hook) : ∀ (ops : List OpSpec) (st : St) (tr : List Trig) (rw_ : List (Int × Option Int)),
    runOps ts h ops { st with trigs := tr, rows := rw_ } =
      ((runOps ts h ops st).1, { (runOps ts h ops st).2 with trigs := tr, rows := rw_ })
  | [], _, _, _ => rfl
  | op :: ops, st, tr, rw_ => by
    simp only [runOps]
    rw [doOp_with, runOps_with ts h ops]

theorem runStmts_plain (ts : Int) (h : Hook) : ∀ (ops : List OpSpec) (st : St),
    runStmts ts h (ops.map .op) st = ((runOps ts h ops st).1, (runOps ts h ops st).2, none)
  | [], _ => rfl
  | op :: ops, st => by
    simp only [List.map_cons, runStmts, doStmt, runOps]
    rw [andThen_ok rfl, runStmts_plain ts h ops]

theorem st_eta (st : St) : ({ st with trigs := st.trigs } : St) = st := by cases st; rfl

theorem runFires_with (sc : Script) (ts : Int) (row : Nat) : ∀ (fs : List Fire) (st : St) (tr : List Trig),
    runFires sc ts row fs { st with trigs := tr } = ((runFires sc ts row fs st).1, { (runFires sc ts row fs st).2 with trigs := tr })
  | [], _, _ => rfl
  | f :: fs, st, tr => by
    simp only [runFires]
    have h1 := runOps_with ts (.fire f.id) (sc.fire row f.id) st tr st.rows
    have e1 : ({ st with trigs := tr, rows := st.rows } : St) = { st with trigs := tr } := rfl
    rw [e1] at h1
    rw [h1]
    simp only []
    have e2 : ({ (runOps ts (.fire f.id) (sc.fire row f.id) st).2 with trigs := tr, rows := st.rows } : St) =
        { (runOps ts (.fire f.id) (sc.fire row f.id) st).2 with trigs := tr } := by
      have := (runOps_frame ts (.fire f.id) (sc.fire row f.id) st).1
      cases hq : (runOps ts (.fire f.id) (sc.fire row f.id) st).2
      rw [hq] at this
      simp only at this ⊢
      rw [this]
    rw [e2, runFires_with sc ts row fs]

theorem set_append_mid {α : Type} (done : List α) (t t' : α) (rest : List α) :
    (done ++ t :: rest).set done.length t' = (done ++ [t']) ++ rest := by
  induction done with
  | nil => rfl
  | cons a d ih => simp only [List.cons_append, List.length_cons, List.set_cons_succ, ih]

theorem getElem?_append_mid {α : Type} (done : List α) (t : α) (rest : List α) : (done ++ t :: rest)[done.length]? = some t := by
  induction done with
  | nil => rfl
  | cons a d ih => simpa using ih

/-- the trigger loop of a script whose actions only issue operations: `fireLoop`, the actions run in between -/
theorem fireLoopG_plain (sc : Script) (row : Nat) (ts : Int) : ∀ (todo done : List Trig) (st : St) (fuel : Nat),
    st.trigs = done ++ todo → todo.length ≤ fuel →
    fireLoopG ((ofScript sc).bar row) ts fuel done.length st =
      ((runFires sc ts row (fireLoop ts todo).1 st).1,
       { (runFires sc ts row (fireLoop ts todo).1 st).2 with trigs := done ++ (fireLoop ts todo).2.1 },
       (fireLoop ts todo).2.2)
  | [], done, st, fuel, hst, _ => by
    have hlen : st.trigs.length = done.length := by rw [hst]; simp
    have hstate : ({ st with trigs := done ++ [] } : St) = st := by rw [← hst]
    cases fuel with
    | zero =>
      simp only [fireLoopG, fireLoop, runFires, hlen, Nat.lt_irrefl, if_false]
      rw [hstate]
    | succ f =>
      unfold fireLoopG
      have : st.trigs[done.length]? = none := List.getElem?_eq_none_iff.mpr (by omega)
      simp only [this, fireLoop, runFires, hstate]
  | t :: rest, done, st, fuel, hst, hf => by
    cases fuel with
    | zero => simp at hf
    | succ f =>
      unfold fireLoopG
      have hget : st.trigs[done.length]? = some t := by rw [hst]; exact getElem?_append_mid done t rest
      simp only [hget]
      unfold fireLoop
      cases hw : whenErr t.k with
      | some e =>
        simp only [runFires]
        rw [← hst]
      | none =>
        simp only []
        have hset : st.trigs.set done.length { t with k := (whenT ts t.k).2 } = (done ++ [{ t with k := (whenT ts t.k).2 }]) ++ rest := by
          rw [hst]; exact set_append_mid done t _ rest
        have hlen' : (done ++ [{ t with k := (whenT ts t.k).2 }]).length = done.length + 1 := by simp
        cases hfire : (whenT ts t.k).1 with
        | false =>
          simp only [Bool.false_eq_true, if_false, List.nil_append]
          have ih := fireLoopG_plain sc row ts rest (done ++ [{ t with k := (whenT ts t.k).2 }])
            { st with trigs := st.trigs.set done.length { t with k := (whenT ts t.k).2 } } f hset (by simpa using hf)
          rw [hlen'] at ih
          rw [ih, runFires_with]
          simp only [List.append_assoc, List.singleton_append]
        | true =>
          simp only [if_true, List.singleton_append, runFires]
          rw [andThen_okRes]
          have hbody : ((ofScript sc).bar row).fire t.id = (sc.fire row t.id).map .op := rfl
          rw [hbody, runStmts_plain]
          rw [andThen_ok rfl]
          simp only []
          -- the state after the action: operations leave the trigger list alone
          have hw1 := runOps_with ts (.fire t.id) (sc.fire row t.id) st
            (st.trigs.set done.length { t with k := (whenT ts t.k).2 }) st.rows
          have e1 : ({ st with trigs := st.trigs.set done.length { t with k := (whenT ts t.k).2 }, rows := st.rows } : St) =
              { st with trigs := st.trigs.set done.length { t with k := (whenT ts t.k).2 } } := rfl
          rw [e1] at hw1
          rw [hw1]
          simp only []
          have hrows := (runOps_frame ts (.fire t.id) (sc.fire row t.id) st).1
          have e2 : ({ (runOps ts (.fire t.id) (sc.fire row t.id) st).2 with
                trigs := st.trigs.set done.length { t with k := (whenT ts t.k).2 }, rows := st.rows } : St) =
              { (runOps ts (.fire t.id) (sc.fire row t.id) st).2 with trigs := st.trigs.set done.length { t with k := (whenT ts t.k).2 } } := by
            cases hq : (runOps ts (.fire t.id) (sc.fire row t.id) st).2
            rw [hq] at hrows
            simp only at hrows ⊢
            rw [hrows]
          rw [e2]
          have ih := fireLoopG_plain sc row ts rest (done ++ [{ t with k := (whenT ts t.k).2 }])
            { (runOps ts (.fire t.id) (sc.fire row t.id) st).2 with trigs := st.trigs.set done.length { t with k := (whenT ts t.k).2 } }
            f hset (by simpa using hf)
          rw [hlen'] at ih
          rw [ih, runFires_with]
          simp only [List.append_assoc, List.singleton_append, List.cons_append, List.nil_append]

theorem runOpenFromG_plain (sc : Script) (row : Nat) (ts : Int) : ∀ (i : Nat) (ms : List MarketCfg) (st : St),
    runOpenFromG ((ofScript sc).bar row) ts i ms st = ((runOpenFrom sc ts row i ms st).1, (runOpenFrom sc ts row i ms st).2, none)
  | _, [], _ => rfl
  | i, mc :: rest, st => by
    unfold runOpenFromG runOpenFrom
    split
    · rw [andThen_okRes]
      have hbody : ((ofScript sc).bar row).openCb i = (sc.openCb row i).map .op := rfl
      rw [hbody, runStmts_plain, andThen_ok rfl]
      simp only []
      rw [runOpenFromG_plain sc row ts (i + 1) rest]
      simp only [List.singleton_append, List.cons_append, List.nil_append]
    · exact runOpenFromG_plain sc row ts (i + 1) rest st

theorem runUpdFromG_plain (sc : Script) (row : Nat) (ts : Int) : ∀ (i : Nat) (ms : List MarketCfg) (st : St),
    runUpdFromG ((ofScript sc).bar row) ts i ms st = runUpdFrom sc ts row i ms st
  | _, [], _ => rfl
  | i, _ :: rest, st => by
    simp only [runUpdFromG, runUpdFrom, runUpdFromG_plain sc row ts (i + 1) rest]
    rfl

theorem runNotifyG_plain (sc : Script) (row : Nat) (ts : Int) : ∀ (fuel i : Nat) (st : St),
    runNotifyG ((ofScript sc).bar row) ts fuel i st =
      ((runNotify sc ts row fuel i st).1, (runNotify sc ts row fuel i st).2.1,
       if (runNotify sc ts row fuel i st).2.2 then none else some .diverges)
  | 0, i, st => by
    simp only [runNotifyG, runNotify]
    rfl
  | fuel + 1, i, st => by
    unfold runNotifyG runNotify
    cases hc : st.cur[i]? with
    | none => rfl
    | some a =>
      simp only []
      rw [andThen_okRes]
      have hbody : ((ofScript sc).bar row).notify a.tag = (sc.notify row a.tag).map .op := rfl
      rw [hbody, runStmts_plain, andThen_ok rfl]
      simp only []
      rw [runNotifyG_plain sc row ts fuel (i + 1)]
      simp only [List.singleton_append, List.cons_append, List.nil_append]

end Demeter.Core
