/-
  The strategy's own trigger objects along a run of the general model: whatever the hooks install and remove and however the run ends, an object
  of the list the run started with is still itself (same position id, keyword arguments, constructor parameters) — so handing the list back and
  resetting gives the triggers the run started with.
-/
import Proofs.Lemmas.CoreHooks5
import Proofs.C02.Rerun
namespace Demeter.Core

/-- every installed trigger that carries the id of one of `T0` is that object (in some state) -/
def TInv (T0 l : List Trig) : Prop := ∀ t' ∈ l, ∀ t ∈ T0, t'.id = t.id → SameObj t' t

/-- a statement that installs a trigger installs a NEW object: its id is none of `ids` -/
def HStmt.fresh (ids : List Nat) : HStmt → Prop
  | .tadd t => t.id ∉ ids
  | _ => True

def BarScript.Fresh (b : BarScript) (ids : List Nat) : Prop :=
  (∀ s ∈ b.before, s.fresh ids) ∧ (∀ i, ∀ s ∈ b.fire i, s.fresh ids) ∧ (∀ m, ∀ s ∈ b.openCb m, s.fresh ids) ∧
  (∀ s ∈ b.on, s.fresh ids) ∧ (∀ s ∈ b.after, s.fresh ids) ∧ (∀ t, ∀ s ∈ b.notify t, s.fresh ids)

def GScript.Fresh (g : GScript) (ids : List Nat) : Prop := (∀ s ∈ g.init, s.fresh ids) ∧ ∀ row, (g.bar row).Fresh ids

theorem eraseId_sub (id : Nat) : ∀ (l : List Trig), ∀ t ∈ eraseId id l, t ∈ l
  | [], _, h => h
  | a :: l, t, h => by
    unfold eraseId at h
    split at h
    · exact List.mem_cons_of_mem _ h
    · rcases List.mem_cons.mp h with rfl | h'
      · exact List.mem_cons_self ..
      · exact List.mem_cons_of_mem _ (eraseId_sub id l t h')

/-- `P` of the state survives the stretch -/
def Pres (P : St → Prop) (k : St → Res) : Prop := ∀ st, P st → P (k st).2.1

theorem Pres.andThen {P : St → Prop} {r : Res} {k : St → Res} (h1 : P r.2.1) (h2 : Pres P k) : P (r.andThen k).2.1 := by
  cases hr : r.2.2 with
  | some e => rw [andThen_err hr]; exact h1
  | none => rw [andThen_ok hr]; exact h2 _ h1

theorem doOp_trigs (ts : Int) (h : Hook) (op : OpSpec) (st : St) : (doOp ts h op st).2.trigs = st.trigs := (doOp_frame ts h op st).2.1

theorem doStmt_tinv (T0 : List Trig) (ts : Int) (h : Hook) (s : HStmt) (hs : s.fresh (T0.map (·.id))) :
    Pres (fun st => TInv T0 st.trigs) (doStmt ts h s) := by
  intro st hinv
  cases s with
  | op o => show TInv T0 (doOp ts h o st).2.trigs; rw [doOp_trigs]; exact hinv
  | tadd t =>
    intro t' ht' t0 ht0 hid
    rcases List.mem_append.mp ht' with h1 | h1
    · exact hinv t' h1 t0 ht0 hid
    · rw [List.mem_singleton.mp h1] at hid
      exact absurd (List.mem_map.mpr ⟨t0, ht0, hid.symm⟩) hs
  | tdel id => exact fun t' ht' => hinv t' (eraseId_sub id _ t' ht')
  | boom e => exact hinv

theorem runStmts_tinv (T0 : List Trig) (ts : Int) (h : Hook) : ∀ (body : List HStmt), (∀ s ∈ body, s.fresh (T0.map (·.id))) →
    Pres (fun st => TInv T0 st.trigs) (runStmts ts h body)
  | [], _ => fun _ h => h
  | s :: ss, hb => fun st hinv => by
    simp only [runStmts]
    exact Pres.andThen (doStmt_tinv T0 ts h s (hb s (List.mem_cons_self ..)) st hinv)
      (runStmts_tinv T0 ts h ss (fun x hx => hb x (List.mem_cons_of_mem _ hx)))

theorem tinv_set (T0 l : List Trig) (i : Nat) (t : Trig) (now : Int) (hi : l[i]? = some t) (h : TInv T0 l) :
    TInv T0 (l.set i { t with k := (whenT now t.k).2 }) := by
  intro t' ht' t0 ht0 hid
  rcases List.mem_or_eq_of_mem_set ht' with h1 | h1
  · exact h t' h1 t0 ht0 hid
  · have hm : t ∈ l := List.mem_of_getElem? hi
    rw [h1] at hid ⊢
    obtain ⟨a1, a2, a3⟩ := h t hm t0 ht0 hid
    exact ⟨a1, a2, by show (whenT now t.k).2.reset = _; rw [rerun_when_reset]; exact a3⟩

theorem fireLoopG_tinv (T0 : List Trig) (b : BarScript) (hb : b.Fresh (T0.map (·.id))) (ts : Int) : ∀ (fuel i : Nat),
    Pres (fun st => TInv T0 st.trigs) (fireLoopG b ts fuel i)
  | 0, _ => fun _ h => h
  | fuel + 1, i => fun st hinv => by
    unfold fireLoopG
    split
    · exact hinv
    · rename_i t ht
      split
      · exact hinv
      · simp only []
        have h1 := tinv_set T0 st.trigs i t ts ht hinv
        split
        · exact Pres.andThen (Pres.andThen (r := Res.ok _ _) h1 (runStmts_tinv T0 ts _ _ (hb.2.1 t.id))) (fireLoopG_tinv T0 b hb ts fuel (i + 1))
        · exact fireLoopG_tinv T0 b hb ts fuel (i + 1) _ h1

theorem runOpenFromG_tinv (T0 : List Trig) (b : BarScript) (hb : b.Fresh (T0.map (·.id))) (ts : Int) : ∀ (i : Nat) (ms : List MarketCfg),
    Pres (fun st => TInv T0 st.trigs) (runOpenFromG b ts i ms)
  | _, [] => fun _ h => h
  | i, mc :: rest => fun st hinv => by
    unfold runOpenFromG
    split
    · exact Pres.andThen (Pres.andThen (r := Res.ok _ _) hinv (runStmts_tinv T0 ts _ _ (hb.2.2.1 i))) (runOpenFromG_tinv T0 b hb ts (i + 1) rest)
    · exact runOpenFromG_tinv T0 b hb ts (i + 1) rest st hinv

theorem runNotifyG_tinv (T0 : List Trig) (b : BarScript) (hb : b.Fresh (T0.map (·.id))) (ts : Int) : ∀ (fuel i : Nat),
    Pres (fun st => TInv T0 st.trigs) (runNotifyG b ts fuel i)
  | 0, _ => fun _ h => h
  | fuel + 1, i => fun st hinv => by
    unfold runNotifyG
    split
    · exact hinv
    · exact Pres.andThen (Pres.andThen (r := Res.ok _ _) hinv (runStmts_tinv T0 ts _ _ (hb.2.2.2.2.2 _))) (runNotifyG_tinv T0 b hb ts fuel (i + 1))

theorem midG_trigs (cfg : Cfg) (b : BarScript) (row : Nat) (ts : Int) (price : Option Int) (st : St) :
    (midG cfg b row ts price st).2.1.trigs = st.trigs := by
  unfold midG
  simp only []
  rw [runUpdFromG_eq b ts row]
  exact (runUpdFrom_frame (updScript b) ts row 0 cfg.markets _).2.1

theorem barStepG_tinv (T0 : List Trig) (cfg : Cfg) (b : BarScript) (hb : b.Fresh (T0.map (·.id))) (fuel tfuel row : Nat) (ts : Int) :
    Pres (fun st => TInv T0 st.trigs) (barStepG cfg b fuel tfuel row ts) := by
  intro st hinv
  have PA := @Pres.andThen (fun st => TInv T0 st.trigs)
  unfold barStepG
  split
  · exact hinv
  · refine PA ?_ ?_
    · unfold barHeadG
      refine PA (PA (PA (PA (PA (PA (PA (PA (r := Res.ok _ _) hinv ?_) ?_) ?_) ?_) ?_) ?_) ?_) ?_
      · exact runStmts_tinv T0 ts _ _ hb.1
      · exact fun st' h => fireLoopG_tinv T0 b hb ts _ 0 st' h
      · exact fun st' h t' ht' => h t' (rerun_retire_sub ts st'.trigs t' ht')
      · exact runOpenFromG_tinv T0 b hb ts 0 cfg.markets
      · exact fun st' h => h
      · exact runStmts_tinv T0 ts _ _ hb.2.2.2.1
      · exact fun st' h => by show TInv T0 (midG cfg b row ts _ st').2.1.trigs; rw [midG_trigs]; exact h
      · exact runStmts_tinv T0 ts _ _ hb.2.2.2.2.1
    · intro st' h
      unfold barTailG
      exact PA (PA (r := Res.ok _ _) h (fun st'' h'' => runNotifyG_tinv T0 b hb ts _ 0 st'' h'')) (fun _ h'' => h'')

theorem runBarsG_tinv (T0 : List Trig) (cfg : Cfg) (g : GScript) (hg : g.Fresh (T0.map (·.id))) : ∀ (bars : List Int) (row : Nat),
    Pres (fun st => TInv T0 st.trigs) (runBarsG cfg g row bars)
  | [], _ => fun _ h => h
  | ts :: bars, row => fun st hinv => by
    simp only [runBarsG]
    exact Pres.andThen (barStepG_tinv T0 cfg (g.bar row) (hg.2 row) g.fuel g.tfuel row ts st hinv) (runBarsG_tinv T0 cfg g hg bars (row + 1))

theorem tinv_self (T0 : List Trig) (hn : (T0.map (·.id)).Nodup) : TInv T0 T0 := by
  intro t' ht' t ht hid
  have := rerun_nodup_inj (·.id) T0 hn t' ht' t ht hid
  rw [this]; exact ⟨rfl, rfl, rfl⟩

/-- the triggers a run of the general model leaves installed (however it ended), as far as they carry ids of the list it started with -/
theorem runG_tinv (cfg : Cfg) (T0 : List Trig) (g : GScript) (hn : (T0.map (·.id)).Nodup) (hg : g.Fresh (T0.map (·.id))) :
    TInv T0 (runG cfg T0 g).trigsLeft := by
  unfold runG
  have h0 := tinv_self T0 hn
  cases checkBacktest cfg with
  | some e => exact h0
  | none =>
    dsimp only
    cases barIndex cfg with
    | nil => exact h0
    | cons ts0 bars =>
      dsimp only
      cases priceAt cfg ts0 with
      | none => exact h0
      | some pr =>
        dsimp only
        have hi : TInv T0 (initG cfg T0 g ts0).2.1.trigs := by
          unfold initG
          exact Pres.andThen (P := fun st => TInv T0 st.trigs) (r := Res.ok _ _) h0 (runStmts_tinv T0 ts0 .init g.init hg.1)
        have hc : TInv T0 (runCore cfg T0 g ts0 bars).1.2.1.trigs := by
          unfold runCore
          simp only []
          split
          · exact hi
          · exact Pres.andThen (P := fun st => TInv T0 st.trigs) hi (runBarsG_tinv T0 cfg g hg (ts0 :: bars) 0)
        split <;> exact hc

/-- handing the list back: an object found again under its id is put where it was; reset, the list is what it was -/
theorem handBack_reset_of_tinv (before live : List Trig) (hl : TInv before live) :
    (handBack before live).map Trig.reset = before.map Trig.reset := by
  unfold handBack
  rw [List.map_map]
  apply List.map_congr_left
  intro t ht
  simp only [Function.comp]
  cases hf : live.find? (fun t' => t'.id == t.id) with
  | none => rfl
  | some t' =>
    simp only [Option.getD_some]
    have hid : t'.id = t.id := by simpa using List.find?_some hf
    obtain ⟨h1, h2, h3⟩ := hl t' (List.mem_of_find?_eq_some hf) t ht hid
    unfold Trig.reset
    cases t'; cases t
    simp only [] at h1 h2 h3 ⊢
    subst h1 h2
    rw [h3]

end Demeter.Core
