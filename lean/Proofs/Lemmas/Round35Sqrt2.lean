/-
  Round35 — part 5b: `sqrtSig p x` is the correctly rounded square root.

  For `x > 0`:  `sqrtSig p x = roundSig p (sqrtY p n d)` where `n/d = x`, `k = p + 2 − ⌊(digits n − digits d)/2⌋`,
  `X = x·10^(2k)`, `s = ⌊√⌊X⌋⌋` and `sqrtY = s/10^k` if `s² = X`, else `(s + 1/2)/10^k`.
  On the magnitude range (`InRange x` and `InRange (sqrtY …)`), with `ε = (1/2)·10^(1−p)`:
        `0 ≤ r  ∧  x·(1−ε)² ≤ r² ≤ x·(1+ε)²`        (`r = sqrtSig p x`).
-/
import Proofs.Lemmas.Round35Sqrt
import Mathlib.Data.Nat.Sqrt
namespace Demeter.Numerics
open Demeter

local notation "T" => (10 : ℚ)

/-- the scaling exponent chosen by `sqrtSig` -/
def sqrtK (p n d : ℕ) : ℤ := (p:ℤ) + 2 - ((ndigits n : ℤ) - (ndigits d : ℤ)) / 2

/-- integer square root of the scaled radicand -/
noncomputable def sqrtS (p n d : ℕ) : ℕ := Nat.sqrt ⌊(n:ℚ) / d * T ^ (2 * sqrtK p n d)⌋₊

/-- the number handed to the final rounding -/
noncomputable def sqrtY (p n d : ℕ) : ℚ :=
  if ((sqrtS p n d : ℕ) : ℚ) ^ 2 = (n:ℚ) / d * T ^ (2 * sqrtK p n d)
  then (sqrtS p n d : ℚ) / T ^ sqrtK p n d
  else ((sqrtS p n d : ℚ) + 1 / 2) / T ^ sqrtK p n d

theorem sqrtSig_mag (p n d : ℕ) (hd : 0 < d) :
    (let a : Int := (ndigits n : Int) - (ndigits d : Int)
     let k : Int := (p : Int) + 2 - a / 2
     let (sn, sd) := scale10 n d (-(2 * k))
     let t := sn / sd
     let s := Nat.sqrt t
     let exact := (s * s * sd == sn)
     let num2 : Nat := 2 * s + (if exact then 0 else 1)
     let y : Rat := if k ≥ 0 then mkRat num2 (2 * pow10 k.toNat) else ((num2 * pow10 (-k).toNat : Nat) : Rat) / 2
     roundSig p y) = roundSig p (sqrtY p n d) := by
  have hdq : (0:ℚ) < d := by exact_mod_cast hd
  obtain ⟨sd_pos, sval⟩ := scale10_spec n d (-(2 * sqrtK p n d)) hd
  have hX : (n : ℚ) / d / T ^ (-(2 * sqrtK p n d)) = (n:ℚ) / d * T ^ (2 * sqrtK p n d) := by
    rw [zpow_neg, div_inv_eq_mul]
  rw [hX] at sval
  simp only []
  rw [show (p : Int) + 2 - ((ndigits n : Int) - (ndigits d : Int)) / 2 = sqrtK p n d from rfl]
  rcases hsc : scale10 n d (-(2 * sqrtK p n d)) with ⟨sn, sd⟩
  rw [hsc] at sd_pos sval
  simp only [] at sd_pos sval ⊢
  have hsdq : (0:ℚ) < sd := by exact_mod_cast sd_pos
  have hfl : sn / sd = ⌊(n:ℚ) / d * T ^ (2 * sqrtK p n d)⌋₊ := by
    rw [← sval]; exact (Nat.floor_div_eq_div sn sd).symm
  have hs : Nat.sqrt (sn / sd) = sqrtS p n d := by rw [hfl]; rfl
  rw [hs]
  unfold sqrtY
  generalize sqrtS p n d = s at *
  have hex : (s * s * sd == sn) = true ↔ ((s:ℕ):ℚ) ^ 2 = (n:ℚ) / d * T ^ (2 * sqrtK p n d) := by
    rw [beq_iff_eq, ← sval, eq_div_iff (ne_of_gt hsdq)]
    constructor
    · intro h; have : ((s * s * sd : ℕ) : ℚ) = sn := by exact_mod_cast h
      push_cast at this; rw [← this]; ring
    · intro h; have : ((s * s * sd : ℕ) : ℚ) = sn := by push_cast; rw [← h]; ring
      exact_mod_cast this
  congr 1
  generalize sqrtK p n d = k at *
  have hTk := Tz_pos k
  have hy : ∀ m : ℕ, (if k ≥ 0 then mkRat m (2 * pow10 k.toNat) else ((m * pow10 (-k).toNat : Nat) : Rat) / 2)
      = (m:ℚ) / 2 / T ^ k := by
    intro m
    unfold pow10
    split
    · rename_i h
      have : T ^ k = T ^ k.toNat := by
        rw [← zpow_natCast]; congr 1; omega
      rw [this, Rat.mkRat_eq_div]; push_cast; rw [div_div]
    · rename_i h
      have : T ^ k = (T ^ (-k).toNat)⁻¹ := by
        rw [← zpow_natCast, ← zpow_neg]; congr 1; omega
      rw [this]; push_cast; field_simp
  rw [hy]
  by_cases hc : (s * s * sd == sn) = true
  · rw [if_pos (hex.1 hc)]
    simp only [hc, if_true]
    push_cast; congr 1; ring
  · rw [if_neg (fun h => hc (hex.2 h))]
    simp only [hc]
    push_cast; congr 1; ring

theorem sqrtSig_pos_eq (p : ℕ) {x : ℚ} (hx : 0 < x) :
    sqrtSig p x = roundSig p (sqrtY p x.num.natAbs x.den) := by
  have hn : ¬ x.num ≤ 0 := not_le.2 (Rat.num_pos.2 hx)
  unfold sqrtSig
  rw [if_neg hn]
  exact sqrtSig_mag p x.num.natAbs x.den x.den_pos

theorem sqrtSig_nonpos (p : ℕ) {x : ℚ} (hx : x ≤ 0) : sqrtSig p x = 0 := by
  have hn : x.num ≤ 0 := Rat.num_nonpos.2 hx
  unfold sqrtSig
  rw [if_pos hn]

/-- the scaled radicand has more than `2p+3` digits -/
theorem sqrt_scaled_ge (p n d : ℕ) (hn : 0 < n) (hd : 0 < d)
    (hbn : n.log2 < LOG2_BOUND) (hbd : d.log2 < LOG2_BOUND) :
    T ^ (2 * (p:ℤ) + 3) ≤ (n:ℚ) / d * T ^ (2 * sqrtK p n d) := by
  obtain ⟨n1, _⟩ := ndigits_bounds_rat n hn hbn
  obtain ⟨_, d2⟩ := ndigits_bounds_rat d hd hbd
  have hdq : (0:ℚ) < d := by exact_mod_cast hd
  unfold sqrtK
  generalize (ndigits n : ℤ) = A at *
  generalize (ndigits d : ℤ) = B at *
  have hK := Tz_pos (2 * ((p:ℤ) + 2 - (A - B) / 2))
  have h1 : T ^ (A - 1 - B) ≤ (n:ℚ) / d := by
    rw [le_div_iff₀ hdq]
    calc T ^ (A - 1 - B) * (d:ℚ) ≤ T ^ (A - 1 - B) * T ^ B := by
          have := Tz_pos (A - 1 - B); gcongr
      _ = T ^ (A - 1) := by rw [← Tz_add]; congr 1; ring
      _ ≤ n := n1
  calc T ^ (2 * (p:ℤ) + 3) ≤ T ^ ((A - 1 - B) + 2 * ((p:ℤ) + 2 - (A - B) / 2)) := Tz_mono (by omega)
    _ = T ^ (A - 1 - B) * T ^ (2 * ((p:ℤ) + 2 - (A - B) / 2)) := Tz_add _ _
    _ ≤ (n:ℚ) / d * T ^ (2 * ((p:ℤ) + 2 - (A - B) / 2)) := by gcongr

/-- `s² ≤ X < (s+1)²` and `s ≥ 10^(p+1)` -/
theorem sqrtS_spec (p n d : ℕ) (hn : 0 < n) (hd : 0 < d)
    (hbn : n.log2 < LOG2_BOUND) (hbd : d.log2 < LOG2_BOUND) :
    ((sqrtS p n d : ℕ) : ℚ) ^ 2 ≤ (n:ℚ) / d * T ^ (2 * sqrtK p n d) ∧
    (n:ℚ) / d * T ^ (2 * sqrtK p n d) < ((sqrtS p n d : ℚ) + 1) ^ 2 ∧
    10 ^ (p + 1) ≤ sqrtS p n d := by
  have hge := sqrt_scaled_ge p n d hn hd hbn hbd
  unfold sqrtS
  generalize (n:ℚ) / d * T ^ (2 * sqrtK p n d) = X at *
  have hX0 : 0 ≤ X := le_trans (le_of_lt (Tz_pos _)) hge
  have f1 : (⌊X⌋₊ : ℚ) ≤ X := Nat.floor_le hX0
  have f2 : X < (⌊X⌋₊ : ℚ) + 1 := Nat.lt_floor_add_one X
  have s1 := Nat.sqrt_le' ⌊X⌋₊
  have s2 := Nat.lt_succ_sqrt' ⌊X⌋₊
  have hfl : 10 ^ (2 * p + 3) ≤ ⌊X⌋₊ := by
    apply Nat.le_floor
    have : (2 * (p:ℤ) + 3) = ((2 * p + 3 : ℕ) : ℤ) := by push_cast; ring
    rw [this, zpow_natCast] at hge
    push_cast; exact hge
  refine ⟨?_, ?_, ?_⟩
  · have : ((Nat.sqrt ⌊X⌋₊ ^ 2 : ℕ) : ℚ) ≤ (⌊X⌋₊ : ℚ) := by exact_mod_cast s1
    push_cast at this; linarith
  · have : ((⌊X⌋₊ + 1 : ℕ) : ℚ) ≤ (((Nat.sqrt ⌊X⌋₊).succ ^ 2 : ℕ) : ℚ) := by exact_mod_cast s2
    push_cast at this; linarith
  · by_contra hc
    have h1 : (Nat.sqrt ⌊X⌋₊).succ ≤ 10 ^ (p + 1) := by omega
    have h2 : (Nat.sqrt ⌊X⌋₊).succ ^ 2 ≤ (10 ^ (p + 1)) ^ 2 := Nat.pow_le_pow_left h1 2
    have h3 : (10 ^ (p + 1)) ^ 2 ≤ 10 ^ (2 * p + 3) := by
      rw [← Nat.pow_mul]; exact Nat.pow_le_pow_right (by decide) (by omega)
    omega

/-- **`sqrtSig` is correctly rounded** (stated on squares): `ε = epsP p = (1/2)·10^(1−p)` -/
theorem sqrtSig_spec (p : ℕ) (hp : 1 ≤ p) {x : ℚ} (hx : 0 < x) (hr : InRange x)
    (hry : InRange (sqrtY p x.num.natAbs x.den)) :
    0 ≤ sqrtSig p x ∧ x * (1 - epsP p) ^ 2 ≤ sqrtSig p x ^ 2 ∧ sqrtSig p x ^ 2 ≤ x * (1 + epsP p) ^ 2 := by
  have hn : 0 < x.num.natAbs := Int.natAbs_pos.2 (ne_of_gt (Rat.num_pos.2 hx))
  obtain ⟨s1, s2, s3⟩ := sqrtS_spec p x.num.natAbs x.den hn x.den_pos hr.1 hr.2
  rw [sqrtSig_pos_eq p hx]
  unfold sqrtY at hry ⊢
  rw [natAbs_div_den hx] at *
  generalize sqrtS p x.num.natAbs x.den = s at *
  generalize sqrtK p x.num.natAbs x.den = k at *
  have hTk := Tz_pos k
  have hT2 : T ^ (2 * k) = (T ^ k) ^ 2 := by
    have : 2 * k = k + k := by ring
    rw [this, Tz_add]; ring
  rw [hT2] at s1 s2 hry ⊢
  have hε := epsP_pos p
  have hε2 := epsP_le_half p hp
  have hsq : (0:ℚ) ≤ s := Nat.cast_nonneg s
  have hs10 : (10:ℚ) ^ p ≤ (s:ℚ) := by
    have : 10 ^ p ≤ s := le_trans (Nat.pow_le_pow_right (by decide) (by omega)) s3
    exact_mod_cast this
  have hspos : (0:ℚ) < s := lt_of_lt_of_le (by positivity) hs10
  split_ifs at hry ⊢ with hc
  · -- perfect square: one rounding of the exact root
    have hy0 : (0:ℚ) ≤ (s:ℚ) / T ^ k := by positivity
    have hyx : ((s:ℚ) / T ^ k) ^ 2 = x := by
      rw [div_pow, hc]; field_simp
    obtain ⟨b1, b2⟩ := roundSig_bounds p hy0 hry
    rw [show (1:ℚ) / 2 * T ^ (1 - (p:ℤ)) = epsP p from rfl] at b1 b2
    have hr0 := roundSig_nonneg p hy0
    generalize roundSig p ((s:ℚ) / T ^ k) = r at *
    generalize (s:ℚ) / T ^ k = y at *
    refine ⟨hr0, ?_, ?_⟩
    · rw [← hyx, ← mul_pow]
      exact pow_le_pow_left₀ (mul_nonneg hy0 (by linarith)) b1 2
    · rw [← hyx, ← mul_pow]
      exact pow_le_pow_left₀ hr0 b2 2
  · -- sticky half
    have hy0 : (0:ℚ) < ((s:ℚ) + 1 / 2) / T ^ k := by positivity
    have hs10' : 10 ^ p ≤ s := by exact_mod_cast hs10
    obtain ⟨c1, c2⟩ := sqrt_inexact_core p hp s hs10' k hry
    rw [roundSig_pos p hy0]
    have hr0 := rpos_nonneg p (((s:ℚ) + 1 / 2) / T ^ k)
    generalize rpos p (((s:ℚ) + 1 / 2) / T ^ k) = r at *
    have hR0 : 0 ≤ r * T ^ k := by positivity
    have hxX : x = (x * (T ^ k) ^ 2) / (T ^ k) ^ 2 := by field_simp
    have hrR : r ^ 2 = (r * T ^ k) ^ 2 / (T ^ k) ^ 2 := by field_simp
    generalize x * (T ^ k) ^ 2 = X at *
    have hTk2 : (0:ℚ) < (T ^ k) ^ 2 := by positivity
    refine ⟨hr0, ?_, ?_⟩
    · rw [hxX, hrR, div_mul_eq_mul_div, div_le_div_iff_of_pos_right hTk2]
      have h1 : ((s:ℚ) + 1) * (1 - epsP p) ≥ 0 := mul_nonneg (by linarith) (by linarith)
      have h2 := pow_le_pow_left₀ h1 c1 2
      have h3 : X * (1 - epsP p) ^ 2 ≤ ((s:ℚ) + 1) ^ 2 * (1 - epsP p) ^ 2 := by
        have : (0:ℚ) ≤ (1 - epsP p) ^ 2 := by positivity
        exact mul_le_mul_of_nonneg_right (le_of_lt s2) this
      rw [mul_pow] at h2; linarith
    · rw [hxX, hrR, div_mul_eq_mul_div, div_le_div_iff_of_pos_right hTk2]
      have h2 := pow_le_pow_left₀ hR0 c2 2
      have h3 : (s:ℚ) ^ 2 * (1 + epsP p) ^ 2 ≤ X * (1 + epsP p) ^ 2 := by
        have : (0:ℚ) ≤ (1 + epsP p) ^ 2 := by positivity
        exact mul_le_mul_of_nonneg_right s1 this
      rw [mul_pow] at h2; linarith

end Demeter.Numerics
