/-
  Inversion lemmas for the GMX v2 model instantiated at `Rat` (`ratOps pw`, any power function `pw`): what an `ok`
  result of each pricing function says in closed form.
-/
import Proofs.Lemmas.Gmx
import Mathlib.Tactic.FieldSimp
import Mathlib.Tactic.Ring
import Mathlib.Tactic.Positivity
import Mathlib.Tactic.NormNum
namespace Demeter.Gmx2
open Demeter Demeter.GmxV2 Demeter.Gmx

variable {pw : Rat → Rat → Rat}

/-- a pool row on which minting and redeeming are meaningful -/
structure PoolPos (ps : Pool Rat) : Prop where
  longPrice : 0 < ps.longPrice
  shortPrice : 0 < ps.shortPrice
  poolValue : 0 < ps.poolValue
  supply : 0 < ps.supply
  impactPool : 0 ≤ ps.impactPool

/-- fee factors are fractions -/
structure CfgOK (cfg : Config Rat) : Prop where
  dp0 : 0 ≤ cfg.depositFeePos
  dp1 : cfg.depositFeePos ≤ 1
  dn0 : 0 ≤ cfg.depositFeeNeg
  dn1 : cfg.depositFeeNeg ≤ 1
  wn0 : 0 ≤ cfg.withdrawFeeNeg
  wn1 : cfg.withdrawFeeNeg ≤ 1

theorem fdiv_ok {a b q : Rat} (h : fdiv (ratOps pw) a b = .ok q) : b ≠ 0 ∧ q = a / b := by
  unfold fdiv ratOps at h
  simp only [decide_eq_true_eq] at h
  split at h
  · cases h
  · cases h; exact ⟨by assumption, rfl⟩

/-- what a deposit is credited for its share of the price impact: a positive impact is paid from the impact pool and
    capped by it (`cap` = impact pool amount × price of the token it is paid in); a negative one is charged in full -/
def creditOf (impact cap : Rat) : Rat := if impact > 0 then min impact cap else impact

theorem creditOf_le_impact (impact cap : Rat) : creditOf impact cap ≤ impact := by
  unfold creditOf; split
  · exact min_le_left _ _
  · exact le_refl _

theorem creditOf_le_cap {impact cap : Rat} (h : 0 < impact) : creditOf impact cap ≤ cap := by
  unfold creditOf; rw [if_pos h]; exact min_le_right _ _

theorem creditOf_nonpos {impact cap : Rat} (h : impact ≤ 0) : creditOf impact cap ≤ 0 := by
  unfold creditOf; rw [if_neg (not_lt.mpr h)]; exact h

theorem creditOf_nonneg {impact cap : Rat} (h : 0 < impact) (hc : 0 ≤ cap) : 0 ≤ creditOf impact cap := by
  unfold creditOf; rw [if_pos h]; exact le_min (le_of_lt h) hc

theorem impactAmountWithCap_ok {price impact pool amt : Rat} {capped : Bool}
    (h : impactAmountWithCap (ratOps pw) price impact pool = .ok (amt, capped)) :
    price ≠ 0 ∧ amt = (if impact > 0 ∧ impact / price > pool then pool else impact / price) := by
  unfold impactAmountWithCap at h
  simp only [bind_ok] at h
  obtain ⟨a, ha, h⟩ := h
  obtain ⟨hne, rfl⟩ := fdiv_ok ha
  refine ⟨hne, ?_⟩
  by_cases hi : impact > 0
  · simp only [hi, if_true, true_and] at h ⊢
    by_cases hc : impact / price > pool
    · simp only [hc, if_true, pure, Except.pure, Except.ok.injEq, Prod.mk.injEq] at h ⊢; exact h.1.symm
    · simp only [hc, if_false, pure, Except.pure, Except.ok.injEq, Prod.mk.injEq] at h ⊢; exact h.1.symm
  · simp only [hi, if_false, false_and, pure, Except.pure, Except.ok.injEq, Prod.mk.injEq] at h ⊢; exact h.1.symm

theorem usdToGm_ok {usd pv sup m : Rat} (h : usdToGm (ratOps pw) usd pv sup = .ok m) : pv ≠ 0 ∧ m = sup * usd / pv := by
  unfold usdToGm at h; exact fdiv_ok h

/-- positive-impact part, as value: `mint × poolValue / supply = max 0 (capped impact)` -/
theorem positiveImpactMint_ok {ps : Pool Rat} (_hp : PoolPos ps) {priceOut impact pool mint : Rat} {capped : Bool} (hpo : 0 < priceOut)
    (h : positiveImpactMint (ratOps pw) ps priceOut impact pool = .ok (mint, capped)) :
    mint = ps.supply * (if impact > 0 then min impact (pool * priceOut) else 0) / ps.poolValue := by
  unfold positiveImpactMint at h
  by_cases hi : impact > 0
  · simp only [hi, if_true, bind_ok] at h ⊢
    obtain ⟨⟨amt, c⟩, ha, m, hm, hpure⟩ := h
    obtain ⟨_, hamt⟩ := impactAmountWithCap_ok ha
    obtain ⟨_, rfl⟩ := usdToGm_ok hm
    simp only [pure, Except.pure, Except.ok.injEq, Prod.mk.injEq] at hpure
    rw [← hpure.1, hamt]
    simp only [hi, true_and, zero_add]
    by_cases hc : impact / priceOut > pool
    · simp only [hc, if_true]
      have : pool * priceOut < impact := by rwa [gt_iff_lt, lt_div_iff₀ hpo] at hc
      rw [min_eq_right (le_of_lt this)]
    · simp only [hc, if_false]
      have : impact ≤ pool * priceOut := by rwa [gt_iff_lt, not_lt, div_le_iff₀ hpo] at hc
      rw [min_eq_left this]
      field_simp
  · simp only [hi, if_false, pure, Except.pure, Except.ok.injEq, Prod.mk.injEq] at h ⊢
    rw [← h.1]; simp

/-- negative-impact part: the amount after fees is reduced by `|impact| / priceIn` and stays non-negative -/
theorem afterNegativeImpact_ok {ps : Pool Rat} {priceIn after impact after' : Rat} (_hpi : 0 < priceIn)
    (h : afterNegativeImpact (ratOps pw) ps priceIn after impact = .ok after') :
    after' = after + (if impact < 0 then impact / priceIn else 0) ∧ (impact < 0 → 0 ≤ after') := by
  unfold afterNegativeImpact at h
  by_cases hi : impact < 0
  · simp only [hi, if_true, bind_ok] at h ⊢
    obtain ⟨⟨amt, c⟩, ha, h⟩ := h
    obtain ⟨_, hamt⟩ := impactAmountWithCap_ok ha
    have hnp : ¬ (impact > 0) := by linarith
    simp only [hnp, false_and, if_false] at hamt
    simp only [] at h
    split at h
    · cases h
    · rename_i hge
      simp only [pure, Except.pure, Except.ok.injEq] at h
      subst hamt
      constructor
      · rw [← h]; ring
      · intro _; rw [← h]; exact not_lt.mp hge
  · simp only [hi, if_false, pure, Except.pure, Except.ok.injEq] at h ⊢
    exact ⟨by rw [h]; ring, fun hc => absurd hc (by simp)⟩

/-- `calc_token_amount` as value per share: `mint × poolValue / supply = amount·(1 − fee factor)·priceIn + credited impact` -/
theorem calcTokenAmount_ok {cfg : Config Rat} {ps : Pool Rat} (hp : PoolPos ps) {pin pout amount impact pool mint fee : Rat}
    {capped : Bool} (hpi : 0 < pin) (hpo : 0 < pout)
    (h : calcTokenAmount (ratOps pw) cfg ps pin pout amount impact pool = .ok (mint, fee, capped)) :
    fee = (if impact > 0 then cfg.depositFeePos else cfg.depositFeeNeg) * amount ∧
    mint * (ps.poolValue / ps.supply) = (amount - fee) * pin + creditOf impact (pool * pout) ∧
    (impact < 0 → 0 ≤ (amount - fee) * pin + impact) := by
  unfold calcTokenAmount at h
  simp only [bind_ok] at h
  obtain ⟨⟨m1, c1⟩, h1, after, h2, m2, h3, hpure⟩ := h
  simp only [pure, Except.pure, Except.ok.injEq, Prod.mk.injEq] at hpure
  obtain ⟨rfl, rfl, rfl⟩ := hpure
  have hm1 := positiveImpactMint_ok hp hpo h1
  obtain ⟨hafter, hnn⟩ := afterNegativeImpact_ok hpi h2
  obtain ⟨_, rfl⟩ := usdToGm_ok h3
  have hpv := hp.poolValue
  have hs := hp.supply
  refine ⟨rfl, ?_, ?_⟩
  · rw [hm1, hafter]
    unfold creditOf
    by_cases hi : impact > 0
    · have hn : ¬ impact < 0 := by linarith
      simp only [hi, hn, if_true, if_false]
      field_simp
      ring
    · simp only [hi, if_false]
      by_cases hn : impact < 0
      · simp only [hn, if_true]; field_simp; ring
      · have h0 : impact = 0 := le_antisymm (not_lt.mp hi) (not_lt.mp hn)
        subst h0
        simp only [lt_irrefl, if_false]; field_simp; ring
  · intro hn
    have := hnn hn
    rw [hafter] at this
    simp only [hn, if_true] at this
    have h2 : 0 ≤ (amount - (if impact > 0 then cfg.depositFeePos else cfg.depositFeeNeg) * amount + impact / pin) * pin :=
      mul_nonneg this (le_of_lt hpi)
    have h3 : (amount - (if impact > 0 then cfg.depositFeePos else cfg.depositFeeNeg) * amount + impact / pin) * pin
        = (amount - (if impact > 0 then cfg.depositFeePos else cfg.depositFeeNeg) * amount) * pin + impact := by
      field_simp
    linarith

/-- the amount (in units of the token it is paid in) a positive impact share takes out of what is left of the impact pool -/
def paidOf (share priceOut pool : Rat) : Rat := if share > 0 then min (share / priceOut) pool else 0

theorem paidOf_nonneg {share priceOut pool : Rat} (hpo : 0 < priceOut) (hp : 0 ≤ pool) : 0 ≤ paidOf share priceOut pool := by
  unfold paidOf; split
  · rename_i hs; exact le_min (le_of_lt (div_pos hs hpo)) hp
  · exact le_refl _

theorem paidOf_le_pool {share priceOut pool : Rat} (hp : 0 ≤ pool) : paidOf share priceOut pool ≤ pool := by
  unfold paidOf; split
  · exact min_le_right _ _
  · exact hp

/-- the credited value of a positive share is the amount taken from the pool at the price of the token paid -/
theorem creditOf_eq_paid {share priceOut pool : Rat} (hpo : 0 < priceOut) (hs : 0 < share) :
    creditOf share (pool * priceOut) = paidOf share priceOut pool * priceOut := by
  unfold creditOf paidOf
  rw [if_pos hs, if_pos hs]
  by_cases hc : share / priceOut ≤ pool
  · have : share ≤ pool * priceOut := by rwa [div_le_iff₀ hpo] at hc
    rw [min_eq_left hc, min_eq_left this]; field_simp
  · have hc' : pool < share / priceOut := not_le.mp hc
    have : pool * priceOut < share := by rwa [lt_div_iff₀ hpo] at hc'
    rw [min_eq_right (le_of_lt hc'), min_eq_right (le_of_lt this)]

theorem poolLeft_ok {priceOut share pool left : Rat} (h : poolLeft (ratOps pw) priceOut share pool = .ok left) :
    left = pool - paidOf share priceOut pool := by
  unfold poolLeft at h
  unfold paidOf
  by_cases hs : share > 0
  · simp only [hs, if_true, bind_ok] at h ⊢
    obtain ⟨⟨amt, c⟩, ha, hpure⟩ := h
    obtain ⟨_, hamt⟩ := impactAmountWithCap_ok ha
    simp only [pure, Except.pure, Except.ok.injEq] at hpure
    rw [← hpure, hamt]
    simp only [hs, true_and]
    by_cases hc : share / priceOut > pool
    · simp only [hc, if_true]; rw [min_eq_right (le_of_lt hc)]
    · simp only [hc, if_false]; rw [min_eq_left (not_lt.mp hc)]
  · simp only [hs, if_false, pure, Except.pure, Except.ok.injEq] at h ⊢
    rw [← h]; ring

/-- value (in USD, at pool value per share) credited for one side of a deposit: amount after the deposit fee factor at
    the token's price, plus its share of the price impact, a positive share capped by what is left of the impact pool (`pool`) -/
def sideValue (cfg : Config Rat) (pool amount priceIn priceOut share : Rat) : Rat :=
  if amount > 0 then
    (amount - (if share > 0 then cfg.depositFeePos else cfg.depositFeeNeg) * amount) * priceIn
      + creditOf share (pool * priceOut)
  else 0

/-- what one side leaves of the impact pool -/
def sideLeft (pool amount priceOut share : Rat) : Rat := if amount > 0 then pool - paidOf share priceOut pool else pool

/-- GM minted by one side (0 when the side is absent) -/
def optMint : Option (Rat × Rat × Bool) → Rat
  | some (m, _, _) => m
  | none => 0

@[simp] theorem optMint_none : optMint none = 0 := rfl
@[simp] theorem optMint_some (m f : Rat) (c : Bool) : optMint (some (m, f, c)) = m := rfl

theorem sidePart_ok {cfg : Config Rat} {ps : Pool Rat} (hp : PoolPos ps) {pin pout amount usd total impact pool left : Rat}
    {res : Option (Rat × Rat × Bool)} (hpi : 0 < pin) (hpo : 0 < pout)
    (h : sidePart (ratOps pw) cfg ps pin pout amount usd total impact pool = .ok (res, left)) :
    optMint res * (ps.poolValue / ps.supply)
      = sideValue cfg pool amount pin pout (impact * usd / total) ∧
    left = sideLeft pool amount pout (impact * usd / total) ∧
    (amount > 0 → total ≠ 0) ∧ (res = none ↔ ¬ amount > 0) ∧
    (amount > 0 → impact * usd / total < 0 →
      0 ≤ (amount - (if impact * usd / total > 0 then cfg.depositFeePos else cfg.depositFeeNeg) * amount) * pin + impact * usd / total) := by
  unfold sidePart at h
  unfold sideValue sideLeft
  by_cases ha : amount > 0
  · simp only [ha, if_true, bind_ok] at h ⊢
    obtain ⟨share, hs, ⟨m, f, c⟩, hc, l, hl, hpure⟩ := h
    obtain ⟨hne, rfl⟩ := fdiv_ok hs
    simp only [pure, Except.pure, Except.ok.injEq, Prod.mk.injEq] at hpure
    obtain ⟨rfl, rfl⟩ := hpure
    obtain ⟨hf, hv, hnn⟩ := calcTokenAmount_ok hp hpi hpo hc
    simp only [optMint_some]
    refine ⟨?_, poolLeft_ok hl, fun _ => hne, by simp, fun _ hneg => ?_⟩
    · rw [hv, hf]
    · have := hnn hneg; rw [hf] at this; exact this
  · simp only [ha, if_false, pure, Except.pure, Except.ok.injEq, Prod.mk.injEq] at h ⊢
    obtain ⟨rfl, rfl⟩ := h
    simp

/-- `get_mint_amount` in closed form: the long side is capped by the impact pool, the short side by what the long side left -/
theorem mintAmount_ok {cfg : Config Rat} {ps : Pool Rat} (hp : PoolPos ps) {la sa : Rat} {r : LPResult Rat} {tag : String}
    (h : mintAmount (ratOps pw) cfg ps la sa = .ok (r, tag)) :
    ∃ tag0, priceImpactUsd (ratOps pw) cfg ps (la * ps.longPrice) (sa * ps.shortPrice) = .ok (r.priceImpactUsd, tag0) ∧
      r.longAmount = la ∧ r.shortAmount = sa ∧ r.totalUsd = la * ps.longPrice + sa * ps.shortPrice ∧
      r.gmAmount * (ps.poolValue / ps.supply)
        = sideValue cfg ps.impactPool la ps.longPrice ps.shortPrice
            (r.priceImpactUsd * (la * ps.longPrice) / (la * ps.longPrice + sa * ps.shortPrice))
        + sideValue cfg
            (sideLeft ps.impactPool la ps.shortPrice (r.priceImpactUsd * (la * ps.longPrice) / (la * ps.longPrice + sa * ps.shortPrice)))
            sa ps.shortPrice ps.longPrice
            (r.priceImpactUsd * (sa * ps.shortPrice) / (la * ps.longPrice + sa * ps.shortPrice)) ∧
      r.gmUsd = r.gmAmount * (ps.poolValue / ps.supply) ∧
      ((la > 0 ∨ sa > 0) → la * ps.longPrice + sa * ps.shortPrice ≠ 0) := by
  unfold mintAmount at h
  simp only [bind_ok] at h
  obtain ⟨⟨impact, tag0⟩, himp, ⟨lp, left⟩, hlp, ⟨sp, left2⟩, hsp, gp, hgp, hpure⟩ := h
  obtain ⟨hl, hleft, hlne, _, _⟩ := sidePart_ok hp hp.longPrice hp.shortPrice hlp
  obtain ⟨hs, _, hsne, _, _⟩ := sidePart_ok hp hp.shortPrice hp.longPrice hsp
  obtain ⟨_, rfl⟩ := fdiv_ok hgp
  simp only [pure, Except.pure, Except.ok.injEq, Prod.mk.injEq] at hpure
  obtain ⟨rfl, _⟩ := hpure
  refine ⟨tag0, himp, rfl, rfl, rfl, ?_, rfl, ?_⟩
  · simp only []
    rw [← hleft, ← hl, ← hs]
    cases lp with
    | none => cases sp with
      | none => simp
      | some q => obtain ⟨m, f, c⟩ := q; simp
    | some p =>
      obtain ⟨m, f, c⟩ := p
      cases sp with
      | none => simp
      | some q => obtain ⟨m', f', c'⟩ := q; simp; ring
  · rintro (h1 | h1)
    · exact hlne h1
    · exact hsne h1

/-- `getOutputAmount` in closed form: the redeemed value is the pool value of the shares less the withdraw fee factor,
    split between the two tokens in the pool's proportions -/
theorem outputAmount_ok {cfg : Config Rat} {ps : Pool Rat} {g : Rat} {r : LPResult Rat}
    (h : outputAmount (ratOps pw) cfg ps g = .ok r) :
    let total := ps.longAmount * ps.longPrice + ps.shortAmount * ps.shortPrice
    let usd := ps.poolValue * g / ps.supply
    ps.supply ≠ 0 ∧ total ≠ 0 ∧ ps.longPrice ≠ 0 ∧ ps.shortPrice ≠ 0 ∧ r.gmAmount = g ∧
      r.longAmount = (1 - cfg.withdrawFeeNeg) * (usd * (ps.longAmount * ps.longPrice) / total / ps.longPrice) ∧
      r.shortAmount = (1 - cfg.withdrawFeeNeg) * (usd * (ps.shortAmount * ps.shortPrice) / total / ps.shortPrice) ∧
      r.longAmount * ps.longPrice + r.shortAmount * ps.shortPrice = (1 - cfg.withdrawFeeNeg) * usd := by
  intro total usd
  unfold outputAmount at h
  simp only [bind_ok] at h
  obtain ⟨⟨l, s⟩, hls, gp, hgp, hpure⟩ := h
  unfold tokenAmountsFromGm at hls
  simp only [bind_ok] at hls
  obtain ⟨gu, hgu, lo, hlo, so, hso, l', hl', s', hs', hp2⟩ := hls
  obtain ⟨hsup, rfl⟩ := fdiv_ok hgu
  obtain ⟨htot, rfl⟩ := fdiv_ok hlo
  obtain ⟨_, rfl⟩ := fdiv_ok hso
  obtain ⟨hlp, rfl⟩ := fdiv_ok hl'
  obtain ⟨hsp, rfl⟩ := fdiv_ok hs'
  simp only [pure, Except.pure, Except.ok.injEq, Prod.mk.injEq] at hp2 hpure
  obtain ⟨rfl, rfl⟩ := hp2
  subst hpure
  refine ⟨hsup, htot, hlp, hsp, rfl, ?_, ?_, ?_⟩
  · simp only []; ring
  · simp only []; ring
  · simp only []
    show _ = (1 - cfg.withdrawFeeNeg) * (ps.poolValue * g / ps.supply)
    have htot' : ps.longAmount * ps.longPrice + ps.shortAmount * ps.shortPrice ≠ 0 := htot
    field_simp

end Demeter.Gmx2
