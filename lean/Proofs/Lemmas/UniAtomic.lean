/-
  Atomicity lemmas for the operations of the Uniswap market model: an operation that raises returns the state
  it was given.  `Atomic r s` is phrased as a disjunction so that it can be proved by splitting the definition.
-/
import Demeter.Uni.Step
import Proofs.Lemmas.UniWallet
namespace Demeter.Uni
open Demeter

/-- either nothing happened or the call was accepted -/
def Atomic {α : Type} (r : Except Err α × State) (s : State) : Prop := r.2 = s ∨ ∃ v, r.1 = .ok v

theorem Atomic.noop {α : Type} {r : Except Err α × State} {s : State} (h : Atomic r s) {e : Err}
    (he : r.1 = .error e) : r.2 = s := by
  rcases h with h | ⟨v, hv⟩
  · exact h
  · rw [hv] at he; cases he

/-- positions exist only together with both pool tokens in the wallet -/
def PosImpliesWallet (pool : Pool) (s : State) : Prop := s.positions ≠ [] → WalletHas pool s.wallet

theorem findPos_nil_of_empty {ps : List Pos} (h : ps = []) (lo up : Int) : findPos ps lo up = none := by
  subst h; rfl

theorem findPos_some_nonempty {ps : List Pos} {lo up : Int} {p : Pos} (h : findPos ps lo up = some p) : ps ≠ [] := by
  intro e; rw [findPos_nil_of_empty e] at h; cases h

/-! ### `_add_liquidity_by_tick` -/

theorem addRaw_post (K : Kern) (pool : Pool) (s : State) (a0 a1 : Rat) (lo up : Int) (sq : Option Nat) :
    (∃ e, (addRaw K pool s a0 a1 lo up sq).1 = .error e ∧ (addRaw K pool s a0 a1 lo up sq).2 = s) ∨
    ((∃ v, (addRaw K pool s a0 a1 lo up sq).1 = .ok v) ∧ WalletHas pool (addRaw K pool s a0 a1 lo up sq).2.wallet) := by
  unfold addRaw
  repeat' split
  all_goals first
    | exact Or.inl ⟨_, rfl, rfl⟩
    | skip
  rename_i h2
  exact Or.inr ⟨⟨_, rfl⟩, has_debit2 h2 _ (Or.inr (Or.inl rfl)), has_debit2 h2 _ (Or.inr (Or.inr rfl))⟩

theorem addRaw_atomic (K : Kern) (pool : Pool) (s : State) (a0 a1 : Rat) (lo up : Int) (sq : Option Nat) :
    Atomic (addRaw K pool s a0 a1 lo up sq) s := by
  rcases addRaw_post K pool s a0 a1 lo up sq with ⟨_, _, h⟩ | ⟨h, _⟩
  · exact Or.inl h
  · exact Or.inr h

theorem addAndLog_atomic (K : Kern) (pool : Pool) (s : State) (b q : Rat) (lo up : Int) (sq : Option Nat) (lp upp : Rat) :
    Atomic (addAndLog K pool s b q lo up sq lp upp) s := by
  unfold addAndLog
  have h := addRaw_post K pool s (pool.conv b q).1 (pool.conv b q).2 lo up sq
  simp only []
  split
  · rename_i e s' heq
    rw [heq] at h
    rcases h with ⟨_, _, h⟩ | ⟨⟨v, hv⟩, _⟩
    · exact Or.inl h
    · cases hv
  · rename_i lo' up' u0 u1 liq s' heq
    rw [heq] at h
    rcases h with ⟨_, hv, _⟩ | ⟨_, hw⟩
    · cases hv
    · obtain ⟨bb, hb⟩ := balanceOf_of_has hw.base
      obtain ⟨qb, hq⟩ := balanceOf_of_has hw.quote
      simp only [hb, hq]
      exact Or.inr ⟨_, rfl⟩

theorem addByTick_atomic (K : Kern) (pool : Pool) (s : State) (lo up : Int) (b q : Option Rat) (sq : Option Nat)
    (t : Option Int) (trim : Bool) : Atomic (addByTick K pool s lo up b q sq t trim) s := by
  unfold addByTick
  simp only []
  repeat' split
  all_goals first
    | exact Or.inl rfl
    | exact addAndLog_atomic ..

theorem addByPrice_atomic (K : Kern) (pool : Pool) (s : State) (lp up : Rat) (lt ut : Int) (q b : Option Rat) :
    Atomic (addByPrice K pool s lp up lt ut q b) s := by
  unfold addByPrice
  simp only []
  repeat' split
  all_goals first
    | exact Or.inl rfl
    | exact addAndLog_atomic ..

/-! ### collect / remove -/

theorem collectWallet_has (cx : NumCtx) (pool : Pool) (s : State) (tu : Bool) (f0 f1 : Rat) (lo up : Int) (p : Pos)
    (hf : findPos s.positions lo up = some p) (hw : tu = true ∨ PosImpliesWallet pool s) :
    WalletHas pool (collectWallet cx pool s.wallet tu f0 f1) := by
  unfold collectWallet
  split
  · exact ⟨has_credit _ _ _ _ _ (Or.inl (has_credit _ _ _ _ _ (Or.inr rfl))), has_credit _ _ _ _ _ (Or.inr rfl)⟩
  · rename_i hne
    rcases hw with h | h
    · exact absurd h hne
    · exact h (findPos_some_nonempty hf)

theorem collect_atomic (K : Kern) (pool : Pool) (s : State) (lo up : Int) (m0 m1 : Option Rat) (rd tu : Bool)
    (hw : tu = true ∨ PosImpliesWallet pool s) : Atomic (collect K pool s lo up m0 m1 rd tu) s := by
  unfold collect
  split
  · exact Or.inl rfl
  · split
    · exact Or.inl rfl
    · rename_i p hf
      split
      · exact Or.inl rfl
      · split
        · exact Or.inl rfl
        · have hWH := collectWallet_has K.cx pool s tu (capAt m0 p.pending0) (capAt m1 p.pending1) lo up p hf hw
          obtain ⟨bb, hb⟩ := balanceOf_of_has hWH.base
          obtain ⟨qb, hq⟩ := balanceOf_of_has hWH.quote
          simp only [hb, hq]
          exact Or.inr ⟨_, rfl⟩

/-- `remove_liquidity` up to the action record -/
theorem removeNoCollect_atomic (K : Kern) (pool : Pool) (s : State) (lo up : Int) (l : Option Int) (sq : Option Nat)
    (hw : PosImpliesWallet pool s) : Atomic (removeNoCollect K pool s lo up l sq) s := by
  unfold removeNoCollect
  split
  · exact Or.inl rfl
  · split
    · exact Or.inl rfl
    · split
      · exact Or.inl rfl
      · split
        · exact Or.inl rfl
        · split
          · exact Or.inl rfl
          · rename_i p hf
            split
            · exact Or.inl rfl
            · have hWH := hw (findPos_some_nonempty hf)
              obtain ⟨bb, hb⟩ := balanceOf_of_has hWH.base
              obtain ⟨qb, hq⟩ := balanceOf_of_has hWH.quote
              simp only [hb, hq]
              exact Or.inr ⟨_, rfl⟩

/-- `remove_liquidity(..., collect=False)` -/
theorem removeCore_atomic (K : Kern) (pool : Pool) (s : State) (lo up : Int) (l : Option Int) (sq : Option Nat) (rd : Bool)
    (hw : PosImpliesWallet pool s) : Atomic (remove K pool s lo up l false sq rd) s := by
  unfold remove
  have h := removeNoCollect_atomic K pool s lo up l sq hw
  split
  · rename_i heq; rw [heq] at h
    rcases h with h | ⟨_, hv⟩
    · exact Or.inl h
    · cases hv
  · simp only [Bool.false_eq_true, if_false]; exact Or.inr ⟨_, rfl⟩

/-! ### swaps -/

theorem swap_post (K : Kern) (pool : Pool) (s : State) (a : Rat) (f t : String) (p : Option Rat) (log : Bool) :
    (∃ e, (swap K pool s a f t p log).1 = .error e ∧ (swap K pool s a f t p log).2 = s) ∨
    ((∃ v, (swap K pool s a f t p log).1 = .ok v) ∧ Has (swap K pool s a f t p log).2.wallet pool.baseTok ∧
      Has (swap K pool s a f t p log).2.wallet pool.quoteTok) := by
  unfold swap
  split
  · exact Or.inl ⟨_, rfl, rfl⟩
  · split
    · exact Or.inl ⟨_, rfl, rfl⟩
    · rename_i hne htok
      split
      · exact Or.inl ⟨_, rfl, rfl⟩
      · split
        · exact Or.inl ⟨_, rfl, rfl⟩
        · simp only []
          split
          · exact Or.inl ⟨_, rfl, rfl⟩
          · rename_i w1 hd
            -- from and to are the two pool tokens, both present afterwards
            have hft : ∀ (amt : Rat) (x : String), (x = f ∨ x = t) → Has (Wallet.credit K.cx w1 t amt) x := by
              intro amt x hx
              rcases hx with hx | hx
              · subst hx; exact has_credit _ _ _ _ _ (Or.inl (has_debit hd _ (Or.inr rfl)))
              · subst hx; exact has_credit _ _ _ _ _ (Or.inr rfl)
            have hbq : (pool.baseTok = f ∨ pool.baseTok = t) ∧ (pool.quoteTok = f ∨ pool.quoteTok = t) := by
              have hne' : f ≠ t := by simpa using hne
              have h1 : f = pool.quoteTok ∨ f = pool.baseTok := by
                by_cases ha : f = pool.quoteTok
                · exact Or.inl ha
                · by_cases hb : f = pool.baseTok
                  · exact Or.inr hb
                  · exact absurd (by simp [ha, hb]) htok
              have h2 : t = pool.quoteTok ∨ t = pool.baseTok := by
                by_cases ha : t = pool.quoteTok
                · exact Or.inl ha
                · by_cases hb : t = pool.baseTok
                  · exact Or.inr hb
                  · exact absurd (by simp [ha, hb]) htok
              grind
            refine Or.inr ⟨?_, ?_, ?_⟩
            · split <;> exact ⟨_, rfl⟩
            · split <;> exact hft _ _ hbq.1
            · split <;> exact hft _ _ hbq.2

theorem swap_atomic (K : Kern) (pool : Pool) (s : State) (a : Rat) (f t : String) (p : Option Rat) (log : Bool) :
    Atomic (swap K pool s a f t p log) s := by
  rcases swap_post K pool s a f t p log with ⟨_, _, h⟩ | ⟨h, _⟩
  · exact Or.inl h
  · exact Or.inr h

theorem buy_atomic (K : Kern) (pool : Pool) (s : State) (a : Rat) (p : Option Rat) : Atomic (buy K pool s a p) s := by
  unfold buy
  split
  · exact Or.inr ⟨_, rfl⟩
  · split
    · exact Or.inl rfl
    · split
      · exact Or.inl rfl
      · simp only []
        split
        · exact Or.inl rfl
        · rename_i price _ _ _
          have h := swap_post K pool s (K.cx.div (K.cx.mul a price) (K.cx.sub 1 pool.feeRate)) pool.quoteTok pool.baseTok
            (some (K.cx.div 1 price)) false
          split
          · rename_i heq; rw [heq] at h
            rcases h with ⟨_, _, h⟩ | ⟨⟨v, hv⟩, _⟩
            · exact Or.inl h
            · cases hv
          · rename_i heq; rw [heq] at h
            rcases h with ⟨_, hv, _⟩ | ⟨_, hb, hq⟩
            · cases hv
            · obtain ⟨bb, hb⟩ := balanceOf_of_has hb
              obtain ⟨qb, hq⟩ := balanceOf_of_has hq
              simp only [hb, hq]
              exact Or.inr ⟨_, rfl⟩

theorem sell_atomic (K : Kern) (pool : Pool) (s : State) (a : Rat) (p : Option Rat) : Atomic (sell K pool s a p) s := by
  unfold sell
  split
  · exact Or.inr ⟨_, rfl⟩
  · split
    · exact Or.inl rfl
    · rename_i price _
      have h := swap_post K pool s a pool.baseTok pool.quoteTok (some price) false
      split
      · rename_i heq; rw [heq] at h
        rcases h with ⟨_, _, h⟩ | ⟨⟨v, hv⟩, _⟩
        · exact Or.inl h
        · cases hv
      · rename_i heq; rw [heq] at h
        rcases h with ⟨_, hv, _⟩ | ⟨_, hb, hq⟩
        · cases hv
        · obtain ⟨bb, hb⟩ := balanceOf_of_has hb
          obtain ⟨qb, hq⟩ := balanceOf_of_has hq
          simp only [hb, hq]
          exact Or.inr ⟨_, rfl⟩

theorem Atomic.ofEq {α β : Type} {r : Except Err α × State} {s s' : State} (h : Atomic r s) {x : Except Err α}
    (heq : r = (x, s')) : (∃ e, x = .error e ∧ s' = s) ∨ (∃ v, x = .ok v) := by
  rw [heq] at h
  rcases h with h | ⟨v, hv⟩
  · cases x with
    | error e => exact Or.inl ⟨e, rfl, h⟩
    | ok v => exact Or.inr ⟨v, rfl⟩
  · exact Or.inr ⟨v, hv⟩

theorem evenRebalance_atomic (K : Kern) (pool : Pool) (s : State) (p : Option Rat) :
    Atomic (evenRebalance K pool s p) s := by
  unfold evenRebalance
  simp only []
  repeat' split
  all_goals first
    | exact Or.inl rfl
    | exact Or.inr ⟨_, rfl⟩
    | (rename_i heq
       rcases Atomic.ofEq (β := Unit) (buy_atomic ..) heq with ⟨_, _, h⟩ | ⟨_, hv⟩
       · exact Or.inl h
       · cases hv)
    | (rename_i heq
       rcases Atomic.ofEq (β := Unit) (sell_atomic ..) heq with ⟨_, _, h⟩ | ⟨_, hv⟩
       · exact Or.inl h
       · cases hv)

theorem transferOut_atomic (s : State) (lo up : Int) : Atomic (transferOut s lo up) s := by
  unfold transferOut
  repeat' split
  all_goals first
    | exact Or.inl rfl
    | exact Or.inr ⟨_, rfl⟩

theorem transferIn_atomic (s : State) (lo up : Int) : Atomic (transferIn s lo up) s := by
  unfold transferIn
  repeat' split
  all_goals first
    | exact Or.inl rfl
    | exact Or.inr ⟨_, rfl⟩

end Demeter.Uni
