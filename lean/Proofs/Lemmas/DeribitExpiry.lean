/-
  Lemmas about `check_option_exercise` (Demeter/Deribit.lean: exerciseLoop / expireLoop / exercise), used by C16.
-/
import Proofs.Lemmas.Deribit
namespace Demeter.Deribit
open Demeter

/-- is the position due at the state's time? -/
def due (s : DState) (p : Position) : Bool := decide (s.now ≥ p.expiry)

/-- keys of the due positions, in dict order -/
def dueKeys (s : DState) (ps : List (String × Position)) : List String :=
  (ps.filter (fun kp => due s kp.2)).map Prod.fst

theorem exerciseLoop_keys (cx : DCtx) (c : TokenCfg) (s : DState) (ps : List (String × Position))
    (cash : Rat) (acts : List Action) (keys : List String) :
    (exerciseLoop cx c s ps (cash, acts, keys)).2.2 = keys ++ dueKeys s ps := by
  induction ps generalizing cash acts keys with
  | nil => simp [exerciseLoop, dueKeys]
  | cons kp ps ih =>
    obtain ⟨k, p⟩ := kp
    unfold exerciseLoop
    by_cases hd : s.now ≥ p.expiry
    · simp only [hd, if_true]
      have hdk : dueKeys s ((k, p) :: ps) = k :: dueKeys s ps := by simp [dueKeys, due, hd]
      split <;> (rw [ih, hdk]; simp)
    · simp only [hd, if_false]
      have hdk : dueKeys s ((k, p) :: ps) = dueKeys s ps := by simp [dueKeys, due, hd]
      rw [ih, hdk]

theorem expireLoop_positions (cx : DCtx) (c : TokenCfg) (s : DState) (ks : List String)
    (pos : AList String Position) (acts : List Action) :
    (expireLoop cx c s ks (pos, acts)).1 = pos.filter (fun kp => kp.1 ∉ ks) := by
  induction ks generalizing pos acts with
  | nil => simp [expireLoop]
  | cons k ks ih =>
    unfold expireLoop
    split
    · rename_i hnone
      rw [ih]
      apply List.filter_congr
      intro kp hkp
      have : kp.1 ≠ k := by
        intro h
        simp only [AList.get?, Option.map_eq_none_iff, List.find?_eq_none] at hnone
        exact absurd (by simp [h]) (hnone kp hkp)
      simp [this]
    · rw [ih]
      simp only [AList.erase, List.filter_filter]
      apply List.filter_congr
      intro kp _
      simp only [List.mem_cons, not_or, ne_eq, decide_not, Bool.decide_and]
      exact Bool.and_comm _ _

/-- positions after `check_option_exercise` -/
theorem exercise_positions (cx : DCtx) (c : TokenCfg) (s : DState) :
    (exercise cx c s).positions = s.positions.filter (fun kp => kp.1 ∉ dueKeys s s.positions) := by
  simp only [exercise, exerciseLoop_keys, expireLoop_positions, List.nil_append]

/-- net amount credited for one position at settlement (exact arithmetic) -/
def netPayoff (c : TokenCfg) (s : DState) (p : Position) : Rat :=
  match paidOf DCtx.exact c s p with
  | some gf => gf.1 - gf.2
  | none => 0

theorem exerciseLoop_cash (c : TokenCfg) (s : DState) (ps : List (String × Position))
    (cash : Rat) (acts : List Action) (keys : List String) :
    (exerciseLoop DCtx.exact c s ps (cash, acts, keys)).1 =
      cash + ((ps.filter (fun kp => due s kp.2)).map (fun kp => netPayoff c s kp.2)).sum := by
  induction ps generalizing cash acts keys with
  | nil => simp [exerciseLoop]
  | cons kp ps ih =>
    obtain ⟨k, p⟩ := kp
    unfold exerciseLoop
    by_cases hd : s.now ≥ p.expiry
    · simp only [hd, if_true]
      have hf : ((k, p) :: ps).filter (fun kp => due s kp.2) = (k, p) :: ps.filter (fun kp => due s kp.2) := by
        simp [due, hd]
      rw [hf]
      split
      · rename_i gf hgf
        rw [ih]
        simp only [List.map_cons, List.sum_cons, netPayoff, hgf, exact_num, NumCtx.exact_add, NumCtx.exact_sub]
        ring
      · rename_i hnone
        rw [ih]
        simp only [List.map_cons, List.sum_cons, netPayoff, hnone]
        ring
    · simp only [hd, if_false]
      have hf : ((k, p) :: ps).filter (fun kp => due s kp.2) = ps.filter (fun kp => due s kp.2) := by
        simp [due, hd]
      rw [hf, ih]

/-- the Deliver records, in dict order: one for each due position that is paid -/
def deliverRecs (cx : DCtx) (c : TokenCfg) (s : DState) (ps : List (String × Position)) : List Action :=
  (ps.filter (fun kp => due s kp.2)).filterMap (fun kp => (paidOf cx c s kp.2).map (deliverRec cx c s kp.1 kp.2))

theorem exerciseLoop_actions (cx : DCtx) (c : TokenCfg) (s : DState) (ps : List (String × Position))
    (cash : Rat) (acts : List Action) (keys : List String) :
    (exerciseLoop cx c s ps (cash, acts, keys)).2.1 = acts ++ deliverRecs cx c s ps := by
  induction ps generalizing cash acts keys with
  | nil => simp [exerciseLoop, deliverRecs]
  | cons kp ps ih =>
    obtain ⟨k, p⟩ := kp
    unfold exerciseLoop
    by_cases hd : s.now ≥ p.expiry
    · simp only [hd, if_true]
      have hf : ((k, p) :: ps).filter (fun kp => due s kp.2) = (k, p) :: ps.filter (fun kp => due s kp.2) := by
        simp [due, hd]
      split
      · rename_i gf hgf
        rw [ih]; simp [deliverRecs, hf, hgf]
      · rename_i hnone
        rw [ih]; simp [deliverRecs, hf, hnone]
    · simp only [hd, if_false]
      have hf : ((k, p) :: ps).filter (fun kp => due s kp.2) = ps.filter (fun kp => due s kp.2) := by
        simp [due, hd]
      rw [ih]; simp [deliverRecs, hf]

theorem AList_get_erase_ne (m : AList String Position) (k k' : String) (h : k' ≠ k) :
    AList.get? (AList.erase m k) k' = AList.get? m k' := by
  simp only [AList.erase, AList.get?, List.find?_filter]
  congr 2
  funext a
  by_cases hk : a.1 = k'
  · simp [hk, h]
  · simp [hk]

/-- the Expired records for a list of keys looked up in `pos` -/
def expiredRecs (cx : DCtx) (c : TokenCfg) (s : DState) (pos : AList String Position) (ks : List String) : List Action :=
  ks.filterMap (fun k => (AList.get? pos k).map (expiredRec cx c s k))

theorem expireLoop_actions (cx : DCtx) (c : TokenCfg) (s : DState) (ks : List String) (hk : ks.Nodup)
    (pos : AList String Position) (acts : List Action) :
    (expireLoop cx c s ks (pos, acts)).2 = acts ++ expiredRecs cx c s pos ks := by
  induction ks generalizing pos acts with
  | nil => simp [expireLoop, expiredRecs]
  | cons k ks ih =>
    have hk' := (List.nodup_cons.mp hk)
    unfold expireLoop
    split
    · rename_i hnone
      rw [ih hk'.2]; simp [expiredRecs, hnone]
    · rename_i p hsome
      rw [ih hk'.2]
      have : expiredRecs cx c s (AList.erase pos k) ks = expiredRecs cx c s pos ks := by
        unfold expiredRecs
        apply List.filterMap_congr
        intro k' hk'mem
        have : k' ≠ k := fun e => hk'.1 (e ▸ hk'mem)
        rw [AList_get_erase_ne _ _ _ this]
      rw [this]; simp [expiredRecs, hsome]


theorem AList_get_of_mem_nodup {m : AList String Position} (hn : (m.map Prod.fst).Nodup) {k : String} {p : Position}
    (h : (k, p) ∈ m) : AList.get? m k = some p := by
  induction m with
  | nil => simp at h
  | cons kv m ih =>
    obtain ⟨a, v⟩ := kv
    simp only [List.map_cons, List.nodup_cons] at hn
    rcases List.mem_cons.mp h with heq | hmem
    · simp only [Prod.mk.injEq] at heq
      obtain ⟨rfl, rfl⟩ := heq
      simp [AList.get?]
    · have hne : ¬ a = k := by
        intro e
        exact hn.1 (e ▸ List.mem_map_of_mem (f := Prod.fst) hmem)
      simp only [AList.get?, List.find?_cons, hne, decide_false]
      exact ih hn.2 hmem

theorem dueKeys_nodup {s : DState} {ps : List (String × Position)} (hn : (ps.map Prod.fst).Nodup) :
    (dueKeys s ps).Nodup := by
  unfold dueKeys
  exact List.Nodup.sublist (List.Sublist.map _ List.filter_sublist) hn

/-- with unique dict keys the Expired records are one per due position, in dict order -/
theorem expiredRecs_due (cx : DCtx) (c : TokenCfg) (s : DState) (hn : (s.positions.map Prod.fst).Nodup) :
    expiredRecs cx c s s.positions (dueKeys s s.positions) =
      (s.positions.filter (fun kp => due s kp.2)).map (fun kp => expiredRec cx c s kp.1 kp.2) := by
  unfold expiredRecs dueKeys
  rw [List.filterMap_map]
  rw [← List.filterMap_eq_map]
  apply List.filterMap_congr
  intro kp hkp
  obtain ⟨k, p⟩ := kp
  have hmem : (k, p) ∈ s.positions := (List.mem_filter.mp hkp).1
  simp [AList_get_of_mem_nodup hn hmem]

/-- actions after `check_option_exercise`: the old log, then the Deliver records, then the Expired records -/
theorem exercise_actions (cx : DCtx) (c : TokenCfg) (s : DState) (hn : (s.positions.map Prod.fst).Nodup) :
    (exercise cx c s).actions = s.actions ++ deliverRecs cx c s s.positions ++
      (s.positions.filter (fun kp => due s kp.2)).map (fun kp => expiredRec cx c s kp.1 kp.2) := by
  simp only [exercise, exerciseLoop_keys, List.nil_append]
  rw [expireLoop_actions cx c s _ (dueKeys_nodup hn), exerciseLoop_actions, expiredRecs_due cx c s hn]

theorem exercise_cash (c : TokenCfg) (s : DState) :
    (exercise DCtx.exact c s).cash =
      s.cash + ((s.positions.filter (fun kp => due s kp.2)).map (fun kp => netPayoff c s kp.2)).sum := by
  simp only [exercise, exerciseLoop_cash]

end Demeter.Deribit
