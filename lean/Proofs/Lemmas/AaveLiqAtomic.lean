/-
  `_do_liquidate` is atomic, `update()` is a sequence of atomic steps (any arithmetic context; coherent state; bar data that
  covers the held tokens, non-zero indices):

    * `doLiquidate_atomic`   — a call either returns normally, having appended exactly one `LiquidationAction`, or raises and
                               leaves positions, wallet, log and `has_update` exactly as they were (every `raise` precedes the
                               first mutation, and nothing after the first mutation can raise);
    * `liquidate_raise_frame` — if `update()` raises without having recorded a liquidation, nothing but caches has changed;
                               the log never shrinks.

  The reasoning kit is a Hoare triple with separate post-conditions for the normal and the error exit (`Tri`).
-/
import Proofs.Lemmas.AaveRefine
import Proofs.Lemmas.AaveLiqCoh
namespace Demeter.Aave
open Demeter M

variable {cx : ACtx} {env : Env}

/-- started in `P`: a normal exit with result `a` ends in `Rok a`, an error exit in `Rerr` -/
def Tri {α : Type} (P : St → Prop) (m : M α) (Rok : α → St → Prop) (Rerr : St → Prop) : Prop :=
  ∀ s, P s → PostR Rok Rerr (m s)

section
variable {α β : Type} {P : St → Prop} {E : St → Prop}

theorem Tri.bind {m : M α} {f : α → M β} {R : α → St → Prop} {Q : β → St → Prop}
    (hm : Tri P m R E) (hf : ∀ a, Tri (R a) (f a) Q E) : Tri P (m >>= f) Q E := by
  intro s hs
  have h1 := hm s hs
  rcases hms : m s with ⟨r, s1⟩
  rw [hms] at h1
  unfold PostR at h1
  cases r with
  | ok a => rw [run_bind_ok hms]; exact hf a s1 h1
  | error e => rw [run_bind_err hms]; exact h1

theorem Tri.ofInv {m : M α} (h : Inv P m) (he : ∀ s, P s → E s) : Tri P m (fun _ s' => P s') E := by
  intro s hs
  have := h.matchForm s hs
  rcases hm : m s with ⟨r, s1⟩
  rw [hm] at this
  unfold PostR at this ⊢
  cases r with
  | ok a => exact this
  | error e => exact he _ this

theorem Tri.bind_inv {m : M α} {f : α → M β} {Q : β → St → Prop} (h : Inv P m) (he : ∀ s, P s → E s)
    (hf : ∀ a, Tri P (f a) Q E) : Tri P (m >>= f) Q E :=
  Tri.bind (Tri.ofInv h he) hf

theorem Tri.bind_ofRes {r : Res α} {f : α → M β} {Q : β → St → Prop} (he : ∀ s, P s → E s)
    (h : ∀ a, r = .ok a → Tri P (f a) Q E) : Tri P (M.ofRes r >>= f) Q E := by
  intro s hs
  rw [run_bind]
  cases r with
  | ok a => exact h a rfl s hs
  | error e => exact he s hs

theorem Tri.bind_require {c : Bool} {e0 : Err} {f : Unit → M β} {Q : β → St → Prop} (he : ∀ s, P s → E s)
    (h : c = true → Tri P (f ()) Q E) : Tri P (M.require c e0 >>= f) Q E := by
  intro s hs
  rw [run_bind]
  cases c with
  | true => exact h rfl s hs
  | false => exact he s hs

theorem Tri.bind_queryPos {q : AList String SupplyInfo → AList String BorrowInfo → Res α} {f : α → M β}
    {Q : β → St → Prop} {sup0 : AList String SupplyInfo} {bor0 : AList String BorrowInfo} (he : ∀ s, P s → E s)
    (hpin : ∀ s, P s → s.supplies = sup0 ∧ s.borrows = bor0)
    (h : ∀ a, q sup0 bor0 = .ok a → Tri P (f a) Q E) : Tri P (M.queryPos q >>= f) Q E := by
  intro s hs
  obtain ⟨h1, h2⟩ := hpin s hs
  rw [run_bind, run_queryPos, h1, h2]
  cases hq : q sup0 bor0 with
  | ok a => exact h a hq s hs
  | error e => exact he s hs

end

/-! ### `_do_liquidate` -/

/-- `get_borrow(key).amount if key in _borrows else 0`: keeps the frame; a non-zero answer means the key is there -/
theorem liqDebtOf_tri (dtok : String) (x : Frame) :
    Tri (At cx env x) (liqDebtOf cx env dtok)
      (fun v s' => At cx env x s' ∧ (v ≠ 0 → AList.contains x.borrows dtok = true)) (fun s' => s'.frame = x) := by
  intro s hs
  have hR := readInv_at (cx := cx) (env := env) x
  unfold liqDebtOf
  rw [run_bind, run_queryPos]
  dsimp only
  rw [hs.bor]
  cases hc : AList.contains x.borrows dtok with
  | true =>
    simp only [if_true]
    have := (Inv.bind (hR.toReadInv3.getBorrow dtok) (fun b => Inv.pure b.amount)).matchForm s hs
    rcases hm : (getBorrow cx env dtok >>= fun b => (pure b.amount : M Rat)) s with ⟨r, s1⟩
    rw [hm] at this
    unfold PostR at this ⊢
    cases r with
    | ok v => exact ⟨this, fun _ => by first | rfl | trivial⟩
    | error e => exact this.2
  | false =>
    simp only [Bool.false_eq_true, if_false]
    unfold PostR
    exact ⟨hs, fun h => absurd rfl h⟩

/-- seize, repay, reset: cannot raise once the debt key, its status row and a non-zero borrow index are known; the log,
    the wallet and `has_update` are not touched -/
theorem liqCommit_run (hE : EnvOK env) {x : Frame} {s : St} (hs : At cx env x s)
    {ctok dtok : String} {info : SupplyInfo} {cst dst : TokStatus} (hcst : env.statusOf ctok = .ok cst)
    (hdst : env.statusOf dtok = .ok dst) (hnz : dst.varIdx ≠ 0) (hc : AList.contains x.borrows dtok = true)
    (nb debtLiq : Rat) :
    ∃ r s', liqCommit cx env ctok info nb dtok debtLiq s = (.ok r, s') ∧ Good cx env s' ∧ s'.actions = x.actions ∧
      s'.wallet = x.wallet ∧ s'.hasUpdate = x.hasUpdate := by
  have hpin : Pin cx env s.supplies s.borrows s := ⟨hs.1, rfl, rfl⟩
  have hc' : AList.contains s.borrows dtok = true := by rw [hs.bor]; exact hc
  have hg := good_liqCommit (cx := cx) hE hpin (ctok := ctok) (info := info) hcst hdst hnz hc' nb debtLiq
  obtain ⟨binfo, hbi⟩ := aget_of_contains hc'
  have hrun : liqCommit cx env ctok info nb dtok debtLiq s =
      (.ok (subBase cx binfo.base (cx.div debtLiq dst.varIdx)), (liqCommit cx env ctok info nb dtok debtLiq s).2) := by
    unfold liqCommit
    rw [run_bind]
    simp only [liqSeize, run_modify]
    rw [run_bind, subBorrowAmount_run debtLiq (by exact hbi) hdst hnz]
    simp only [run_bind, resetAll, run_modify, run_pure]
  refine ⟨_, _, hrun, hg, ?_, ?_, ?_⟩
  all_goals
    unfold liqCommit
    rw [run_bind]
    simp only [liqSeize, run_modify]
    rw [run_bind, subBorrowAmount_run debtLiq (by exact hbi) hdst hnz]
    simp only [run_bind, resetAll, run_modify, run_pure, commitSubBorrow]
  · exact congrArg Frame.actions hs.2
  · exact congrArg Frame.wallet hs.2
  · exact congrArg Frame.hasUpdate hs.2

/-- **`_do_liquidate` is atomic**: in a coherent state it either returns normally with exactly one record appended to the
    log (coherent again), or raises with positions, wallet, log and `has_update` untouched. -/
theorem doLiquidate_atomic (hE : EnvOK env) (hP : EnvPos env) (ck dk : Option String) (dv : Rat) (x : Frame) :
    Tri (At cx env x) (doLiquidate cx env ck dk dv)
      (fun _ s' => Good cx env s' ∧ s'.actions.length = x.actions.length + 1) (fun s' => s'.frame = x) := by
  have hR := readInv_at (cx := cx) (env := env) x
  have he : ∀ s, At cx env x s → s.frame = x := fun _ h => h.2
  unfold doLiquidate
  refine Tri.bind_inv hR.toReadInv3.healthFactor he (fun oldHf => ?_)
  refine Tri.bind_ofRes he (fun dtok _ => ?_)
  refine Tri.bind_ofRes he (fun dst hdst => ?_)
  refine Tri.bind_ofRes he (fun ctok _ => ?_)
  refine Tri.bind_ofRes he (fun cst hcst => ?_)
  refine Tri.bind_ofRes he (fun cr _ => ?_)
  refine Tri.bind (liqDebtOf_tri dtok x) (fun varDebt => ?_)
  have he2 : ∀ s, (At cx env x s ∧ (varDebt ≠ 0 → AList.contains x.borrows dtok = true)) → s.frame = x :=
    fun _ h => h.1.2
  have hen : Inv (fun s' => At cx env x s' ∧ (varDebt ≠ 0 → AList.contains x.borrows dtok = true)) (liqEnabled ctok cr) := by
    intro s' ⟨h1, h2⟩
    refine ⟨?_, h2⟩
    unfold liqEnabled lookupSupply
    split
    · exact Inv.bind (Inv.queryPos _) (fun _ => Inv.pure _) s' h1
    · exact h1
  refine Tri.bind_inv hen he2 (fun enabled => ?_)
  refine Tri.bind_require he2 (fun _ => ?_)
  refine Tri.bind_require he2 (fun hvd => ?_)
  have hvd' : varDebt ≠ 0 := by simpa using hvd
  unfold lookupSupply
  refine Tri.bind_queryPos he2 (fun s' h => ⟨h.1.sup, h.1.bor⟩) (fun info _ => ?_)
  refine Tri.bind_ofRes he2 (fun pd _ => ?_)
  refine Tri.bind_ofRes he2 (fun pc _ => ?_)
  refine Tri.bind_ofRes he2 (fun amts _ => ?_)
  refine Tri.bind_require he2 (fun _ => ?_)
  refine Tri.bind_ofRes he2 (fun dBase _ => ?_)
  -- from here on nothing raises
  intro s ⟨hs, hc⟩
  obtain ⟨r, s4, e4, g4, a4, _, _⟩ := liqCommit_run (cx := cx) hE hs (info := info) hcst hdst (hP dtok dst hdst).2 (hc hvd')
    (subBase cx info.base dBase) amts.2
  rw [run_bind_ok e4]
  obtain ⟨s5, e5, hat5⟩ := run_healthFactor (⟨g4, rfl⟩ : At cx env s4.frame s4)
  rw [run_bind_ok e5, run_bind, run_queryPos]
  dsimp only
  unfold PostR record
  simp only [run_modify]
  refine ⟨inv_record _ s5 hat5.1, ?_⟩
  show (s5.actions ++ [_]).length = _
  rw [List.length_append, show s5.actions = s4.actions from congrArg Frame.actions hat5.2, a4]
  rfl

/-! ### the loop and `update()` -/

/-- what one run of (a part of) `update()` guarantees, started in the coherent state `s`: coherent afterwards, the log did not
    shrink, and an error exit that recorded nothing left positions, wallet, log and `has_update` as they were -/
def LiqPost (cx : ACtx) (env : Env) (s : St) (r : Res Unit × St) : Prop :=
  Good cx env r.2 ∧ s.actions.length ≤ r.2.actions.length ∧
    (∀ e, r.1 = .error e → r.2.actions.length = s.actions.length → r.2.frame = s.frame)

theorem liqPost_of_frame {s s' : St} {r : Res Unit} (hg : Good cx env s') (hf : s'.frame = s.frame) :
    LiqPost cx env s (r, s') :=
  ⟨hg, by rw [show s'.actions = s.actions from congrArg Frame.actions hf]; exact Nat.le_refl _, fun _ _ _ => hf⟩

/-- transport along a prefix that kept the frame -/
theorem LiqPost.of_frame {s t : St} {r : Res Unit × St} (hf : t.frame = s.frame) (h : LiqPost cx env t r) :
    LiqPost cx env s r := by
  have ha : t.actions = s.actions := congrArg Frame.actions hf
  obtain ⟨g, l, k⟩ := h
  exact ⟨g, by rw [← ha]; exact l, fun e he hl => by rw [← hf]; exact k e he (by rw [ha]; exact hl)⟩

/-- after a step that appended a record, whatever follows cannot end with the log as short as at the start -/
theorem LiqPost.of_grown {s t : St} {r : Res Unit × St} (hl : t.actions.length = s.actions.length + 1)
    (h : LiqPost cx env t r) : LiqPost cx env s r := by
  obtain ⟨g, l, _⟩ := h
  exact ⟨g, by omega, fun _ _ hlen => by omega⟩

theorem liquidateLoop_post (hE : EnvOK env) (hP : EnvPos env) : ∀ (fuel : Nat) (done : List String) (hf : XRat) (s : St),
    Good cx env s → LiqPost cx env s (liquidateLoop cx env fuel done hf s) := by
  intro fuel
  induction fuel with
  | zero => intro done hf s hs; exact liqPost_of_frame hs rfl
  | succ n ih =>
    intro done hf s hs
    unfold liquidateLoop
    split
    rotate_left
    · exact liqPost_of_frame hs rfl
    -- the two listings keep the frame
    have hR := readInv_at (cx := cx) (env := env) s.frame
    have hat : At cx env s.frame s := ⟨hs, rfl⟩
    have h1 := hR.bo s hat
    rcases hb : borrowsView cx env s with ⟨r1, s1⟩
    rw [hb] at h1
    cases r1 with
    | error e => rw [run_bind_err hb]; exact liqPost_of_frame h1.1 h1.2
    | ok bv =>
      rw [run_bind_ok hb]
      have h2 := hR.su s1 h1
      rcases hsv : suppliesView cx env s1 with ⟨r2, s2⟩
      rw [hsv] at h2
      cases r2 with
      | error e => rw [run_bind_err hsv]; exact liqPost_of_frame h2.1 h2.2
      | ok sv =>
        rw [run_bind_ok hsv]
        dsimp only
        cases hpd : (pickDebt bv done).fst with
        | none => exact liqPost_of_frame (r := .ok ()) h2.1 h2.2
        | some d =>
          dsimp only
          -- one `_do_liquidate`, atomic
          have hstep := doLiquidate_atomic (cx := cx) hE hP (pickColl sv).1 (some d) (pickDebt bv done).2 s.frame s2 h2
          rcases hd : doLiquidate cx env (pickColl sv).1 (some d) (pickDebt bv done).2 s2 with ⟨r3, s3⟩
          rw [hd] at hstep
          unfold PostR at hstep
          have hg3 : Good cx env s3 := by
            have := (invE_doLiquidate (cx := cx) hE hP (pickColl sv).1 (some d) (pickDebt bv done).2).toInv s2 h2.1
            rw [hd] at this; exact this
          -- the health factor read after the step keeps the frame of `s3`
          have hR3 := readInv_at (cx := cx) (env := env) s3.frame
          have h4 := hR3.toReadInv3.healthFactor s3 ⟨hg3, rfl⟩
          have cont : LiqPost cx env s3
              ((healthFactor cx env >>= fun hf' => liquidateLoop cx env n (done ++ [d]) hf') s3) := by
            rcases hh : healthFactor cx env s3 with ⟨r4, s4⟩
            rw [hh] at h4
            cases r4 with
            | error e => rw [run_bind_err hh]; exact liqPost_of_frame h4.1 h4.2
            | ok hf' =>
              rw [run_bind_ok hh]
              exact (ih (done ++ [d]) hf' s4 h4.1).of_frame h4.2
          cases r3 with
          | ok u =>
            rw [run_bind_ok (show catchAssertion (doLiquidate cx env (pickColl sv).1 (some d) (pickDebt bv done).2) s2 = (.ok (), s3) by
              unfold catchAssertion; rw [hd])]
            exact cont.of_grown hstep.2
          | error e =>
            have hf3 : s3.frame = s.frame := hstep
            cases ha : e.isAssertion with
            | true =>
              rw [run_bind_ok (show catchAssertion (doLiquidate cx env (pickColl sv).1 (some d) (pickDebt bv done).2) s2 = (.ok (), s3) by
                unfold catchAssertion; rw [hd]; simp only [ha, if_true])]
              exact cont.of_frame hf3
            | false =>
              rw [run_bind_err (show catchAssertion (doLiquidate cx env (pickColl sv).1 (some d) (pickDebt bv done).2) s2 = (.error e, s3) by
                unfold catchAssertion; rw [hd]; simp only [ha, Bool.false_eq_true, if_false])]
              exact liqPost_of_frame hg3 hf3

/-- **`update()` that raises before it recorded a liquidation changes nothing** (but caches): positions, wallet, log and
    `has_update` are as before; and whatever happens the state stays coherent and the log does not shrink. -/
theorem liquidate_post (hE : EnvOK env) (hP : EnvPos env) {s : St} (hs : Good cx env s) :
    LiqPost cx env s (liquidate cx env s) := by
  unfold liquidate guardOpen
  cases hopen : env.isOpen with
  | false => rw [run_bind]; exact liqPost_of_frame hs rfl
  | true =>
    rw [run_bind]
    simp only [run_require_true]
    have hR := readInv_at (cx := cx) (env := env) s.frame
    have h1 := hR.toReadInv3.healthFactor s ⟨hs, rfl⟩
    rcases hh : healthFactor cx env s with ⟨r1, s1⟩
    rw [hh] at h1
    cases r1 with
    | error e => rw [run_bind_err hh]; exact liqPost_of_frame h1.1 h1.2
    | ok hf =>
      rw [run_bind_ok hh, run_bind, run_queryPos]
      dsimp only
      have hl := liquidateLoop_post (cx := cx) hE hP (s1.borrows.length + 1) [] hf s1 h1.1
      rcases hloop : liquidateLoop cx env (s1.borrows.length + 1) [] hf s1 with ⟨r2, s2⟩
      rw [hloop] at hl
      cases r2 with
      | error e => rw [run_bind_err hloop]; exact hl.of_frame h1.2
      | ok u =>
        rw [run_bind_ok hloop]
        obtain ⟨g, l, _⟩ := hl.of_frame h1.2
        exact ⟨inv_setUpdated s2 g, l, fun e he => by cases he⟩

end Demeter.Aave
