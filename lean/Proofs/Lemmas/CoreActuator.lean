/-
  Lemmas about Demeter.Actuator (builder `core`), part 1: which events each phase of a bar emits (`AllAt`), the
  decomposition of a bar that ended normally (`barStep_ok`), phase order inside a bar and across bars.
-/
import Demeter.Actuator
import Mathlib.Tactic.Linarith
namespace Demeter.Core


/-- every event of the list happened at `ts` in phase `c` -/
def AllAt (ts : Int) (c : Nat) (l : List Ev) : Prop := ∀ e ∈ l, e.ts = some ts ∧ e.phase = c

theorem AllAt.nil {ts c} : AllAt ts c [] := by intro e h; cases h
theorem AllAt.append {ts c l1 l2} (h1 : AllAt ts c l1) (h2 : AllAt ts c l2) : AllAt ts c (l1 ++ l2) := by
  intro e he
  rcases List.mem_append.mp he with h | h
  · exact h1 e h
  · exact h2 e h
theorem AllAt.cons {ts c e l} (he : e.ts = some ts ∧ e.phase = c) (h : AllAt ts c l) : AllAt ts c (e :: l) := by
  intro x hx
  rcases List.mem_cons.mp hx with rfl | h'
  · exact he
  · exact h x h'

theorem doOp_at (ts : Int) (h : Hook) (op : OpSpec) (st : St) : AllAt ts h.phase (doOp ts h op st).1 := by
  unfold doOp
  split
  · exact AllAt.nil
  · split
    · split
      · exact AllAt.cons ⟨rfl, rfl⟩ AllAt.nil
      · exact AllAt.cons ⟨rfl, rfl⟩ AllAt.nil
    · split
      · exact AllAt.cons ⟨rfl, rfl⟩ AllAt.nil
      · split
        · exact AllAt.cons ⟨rfl, rfl⟩ AllAt.nil
        · exact AllAt.cons ⟨rfl, rfl⟩ AllAt.nil

theorem runOps_at (ts : Int) (h : Hook) : ∀ (ops : List OpSpec) (st : St), AllAt ts h.phase (runOps ts h ops st).1
  | [], _ => AllAt.nil
  | op :: ops, st => AllAt.append (doOp_at ts h op st) (runOps_at ts h ops _)

def stagePhase (stage : Nat) : Nat := if stage = 0 then 0 else if stage = 1 then 3 else 10

theorem setAllFrom_at (cfg : Cfg) (ts : Int) (stage : Nat) : ∀ (i : Nat) (ms : List MarketCfg),
    AllAt ts (stagePhase stage) (setAllFrom cfg ts stage i ms).1
  | _, [] => AllAt.nil
  | i, _ :: rest => AllAt.cons ⟨rfl, rfl⟩ (setAllFrom_at cfg ts stage (i + 1) rest)

theorem setUpdatedFrom_at (cfg : Cfg) (ts : Int) : ∀ (i : Nat) (ms : List MarketCfg) (ss : List MSt),
    AllAt ts 10 (setUpdatedFrom cfg ts i ms ss).1
  | _, [], _ => by unfold setUpdatedFrom; exact AllAt.nil
  | _, _ :: _, [] => by unfold setUpdatedFrom; exact AllAt.nil
  | i, mc :: rest, s :: ss => by
    unfold setUpdatedFrom
    split
    · exact AllAt.cons ⟨rfl, rfl⟩ (setUpdatedFrom_at cfg ts (i + 1) rest ss)
    · exact setUpdatedFrom_at cfg ts (i + 1) rest ss

theorem runFires_at (sc : Script) (ts : Int) (row : Nat) : ∀ (fs : List Fire) (st : St), AllAt ts 6 (runFires sc ts row fs st).1
  | [], _ => AllAt.nil
  | f :: fs, st => AllAt.cons ⟨rfl, rfl⟩ (AllAt.append (runOps_at ts (.fire f.id) _ st) (runFires_at sc ts row fs _))

theorem runOpenFrom_at (sc : Script) (ts : Int) (row : Nat) : ∀ (i : Nat) (ms : List MarketCfg) (st : St),
    AllAt ts 7 (runOpenFrom sc ts row i ms st).1
  | _, [], _ => AllAt.nil
  | i, mc :: rest, st => by
    by_cases hc : (mc.openCb && st.openAt i) = true
    · simp only [runOpenFrom, hc, if_true]
      exact AllAt.cons ⟨rfl, rfl⟩ (AllAt.append (runOps_at ts (.openCb i) _ st) (runOpenFrom_at sc ts row (i + 1) rest _))
    · simp only [runOpenFrom, hc]
      exact runOpenFrom_at sc ts row (i + 1) rest st

theorem recUpd_at (ts : Int) (i : Nat) : ∀ (tags : List String) (st : St), AllAt ts 11 (recUpd ts i tags st).1
  | [], _ => AllAt.nil
  | _ :: tags, _ => AllAt.cons ⟨rfl, rfl⟩ (recUpd_at ts i tags _)

theorem runUpdFrom_at (sc : Script) (ts : Int) (row : Nat) : ∀ (i : Nat) (ms : List MarketCfg) (st : St),
    AllAt ts 11 (runUpdFrom sc ts row i ms st).1
  | _, [], _ => AllAt.nil
  | i, _ :: rest, st => AllAt.cons ⟨rfl, rfl⟩ (AllAt.append (recUpd_at ts i _ st) (runUpdFrom_at sc ts row (i + 1) rest _))



theorem barStep_ok {cfg : Cfg} {sc : Script} {row : Nat} {ts : Int} {st : St}
    (h : (barStep cfg sc row ts st).2.2 = none) :
    ∃ price, priceAt cfg ts = some price ∧ (barParts cfg sc row ts st price).tp.2.2 = none ∧
      barStep cfg sc row ts st = ((barParts cfg sc row ts st price).trace row ts, (barParts cfg sc row ts st price).final ts, none) := by
  unfold barStep at h ⊢
  cases hp : priceAt cfg ts with
  | none => rw [hp] at h; cases h
  | some price =>
    rw [hp] at h
    simp only [] at h ⊢
    cases htp : (barParts cfg sc row ts st price).tp.2.2 with
    | some e => rw [htp] at h; cases h
    | none =>
      rw [htp] at h
      simp only [] at h ⊢
      cases hnt : (barParts cfg sc row ts st price).nt.2.2 with
      | false => rw [hnt] at h; simp at h
      | true => exact ⟨price, rfl, htp, by simp⟩

/-- a bar that ends normally: its `notify` loop came to an end -/
theorem barStep_notify_done {cfg : Cfg} {sc : Script} {row : Nat} {ts : Int} {st : St} {price : Option Int}
    (h : (barStep cfg sc row ts st).2.2 = none) (hp : priceAt cfg ts = some price) :
    (barParts cfg sc row ts st price).nt.2.2 = true := by
  unfold barStep at h
  rw [hp] at h
  simp only [] at h
  cases htp : (barParts cfg sc row ts st price).tp.2.2 with
  | some e => rw [htp] at h; cases h
  | none =>
    rw [htp] at h
    simp only [] at h
    cases hnt : (barParts cfg sc row ts st price).nt.2.2 with
    | false => rw [hnt] at h; simp at h
    | true => rfl


/-- the order of the property: by bar, then by position in the fixed phase order of a bar -/
def KeyLe (a b : Ev) : Prop := a.ts.getD 0 < b.ts.getD 0 ∨ (a.ts.getD 0 = b.ts.getD 0 ∧ a.phase ≤ b.phase)

/-- a stretch of one bar's trace: in order, at `ts`, phases within `[lo, hi]` -/
def SegOK (ts : Int) (lo hi : Nat) (l : List Ev) : Prop :=
  l.Pairwise KeyLe ∧ ∀ e ∈ l, e.ts = some ts ∧ lo ≤ e.phase ∧ e.phase ≤ hi

theorem segOK_of_allAt {ts c l} (h : AllAt ts c l) : SegOK ts c c l := by
  refine ⟨?_, fun e he => ⟨(h e he).1, by rw [(h e he).2], by rw [(h e he).2]⟩⟩
  apply List.pairwise_of_forall_mem_list
  intro a ha b hb
  right
  rw [(h a ha).1, (h b hb).1, (h a ha).2, (h b hb).2]
  exact ⟨rfl, le_refl _⟩

theorem segOK_append {ts lo hi lo' hi' l1 l2} (h1 : SegOK ts lo hi l1) (h2 : SegOK ts lo' hi' l2)
    (h : hi ≤ lo') (hlo : lo ≤ lo') (hhi : hi ≤ hi') : SegOK ts lo hi' (l1 ++ l2) := by
  refine ⟨List.pairwise_append.mpr ⟨h1.1, h2.1, ?_⟩, ?_⟩
  · intro a ha b hb
    right
    obtain ⟨a1, _, a3⟩ := h1.2 a ha
    obtain ⟨b1, b2, _⟩ := h2.2 b hb
    rw [a1, b1]
    exact ⟨rfl, by omega⟩
  · intro e he
    rcases List.mem_append.mp he with h' | h'
    · obtain ⟨a1, a2, a3⟩ := h1.2 e h'; exact ⟨a1, a2, by omega⟩
    · obtain ⟨a1, a2, a3⟩ := h2.2 e h'; exact ⟨a1, by omega, a3⟩

theorem segOK_cons {ts c lo hi e l} (h1 : e.ts = some ts) (h2 : e.phase = c) (h : SegOK ts lo hi l) (hc : c ≤ lo) (hh : c ≤ hi) :
    SegOK ts c hi (e :: l) := by
  have : SegOK ts c c [e] := segOK_of_allAt (by intro x hx; rw [List.mem_singleton.mp hx]; exact ⟨h1, h2⟩)
  exact segOK_append this h hc hc hh

theorem segOK_nil {ts lo hi} : SegOK ts lo hi [] := ⟨List.Pairwise.nil, by intro e he; cases he⟩

/-- the `notify` loop: the deliveries and whatever the hook does all happen at the bar's timestamp, in phase 15 -/
theorem runNotify_at (sc : Script) (ts : Int) (row : Nat) : ∀ (fuel i : Nat) (st : St), AllAt ts 15 (runNotify sc ts row fuel i st).1
  | 0, _, _ => AllAt.nil
  | fuel + 1, i, st => by
    unfold runNotify
    split
    · exact AllAt.nil
    · exact AllAt.cons ⟨rfl, rfl⟩ (AllAt.append (runOps_at ts .notify _ _) (runNotify_at sc ts row fuel (i + 1) _))

/-- the trace of a bar is in phase order, and all of it happens at the bar's timestamp -/
theorem barTrace_sorted (cfg : Cfg) (sc : Script) (row : Nat) (ts : Int) (st : St) (price : Option Int) :
    SegOK ts 3 15 ((barParts cfg sc row ts st price).trace row ts) := by
  unfold BarParts.trace
  have hs1 : SegOK ts 3 3 (barParts cfg sc row ts st price).s1.1 := segOK_of_allAt (setAllFrom_at cfg ts 1 0 _)
  have hb : SegOK ts 5 5 (barParts cfg sc row ts st price).b.1 := segOK_of_allAt (runOps_at ts .before _ _)
  have hf : SegOK ts 6 6 (barParts cfg sc row ts st price).f.1 := segOK_of_allAt (runFires_at sc ts row _ _)
  have ho : SegOK ts 7 7 (barParts cfg sc row ts st price).o.1 := segOK_of_allAt (runOpenFrom_at sc ts row 0 _ _)
  have hn : SegOK ts 9 9 (barParts cfg sc row ts st price).n.1 := segOK_of_allAt (runOps_at ts .on _ _)
  have hs2 : SegOK ts 10 10 (barParts cfg sc row ts st price).s2.1 := segOK_of_allAt (setUpdatedFrom_at cfg ts 0 _ _)
  have hu : SegOK ts 11 11 (barParts cfg sc row ts st price).u.1 := segOK_of_allAt (runUpdFrom_at sc ts row 0 _ _)
  have ha : SegOK ts 13 13 (barParts cfg sc row ts st price).a.1 := segOK_of_allAt (runOps_at ts .after _ _)
  have hno : SegOK ts 15 15 (barParts cfg sc row ts st price).nt.1 := segOK_of_allAt (runNotify_at sc ts row _ _ _)
  have e1 := segOK_append hs1 (segOK_cons (c := 4) (e := .before ts row price) rfl rfl hb (by omega) (by omega)) (by omega) (by omega) (by omega)
  have e2 := segOK_append e1 hf (by omega) (by omega) (by omega)
  have e3 := segOK_append e2 ho (by omega) (by omega) (by omega)
  have e4 := segOK_append e3 (segOK_cons (c := 8) (e := .on ts row price) rfl rfl hn (by omega) (by omega)) (by omega) (by omega) (by omega)
  have e5 := segOK_append e4 hs2 (by omega) (by omega) (by omega)
  have e6 := segOK_append e5 hu (by omega) (by omega) (by omega)
  have e7 := segOK_append e6 (segOK_cons (c := 12) (e := .after ts row price) rfl rfl ha (by omega) (by omega)) (by omega) (by omega) (by omega)
  exact segOK_append e7 (segOK_cons (c := 14) (e := .row ts price) rfl rfl hno (by omega) (by omega)) (by omega) (by omega) (by omega)

theorem runBars_cons_ok {cfg : Cfg} {sc : Script} {row : Nat} {ts : Int} {bars : List Int} {st : St}
    (h : (runBars cfg sc row (ts :: bars) st).2.2 = none) :
    (barStep cfg sc row ts st).2.2 = none ∧
    (runBars cfg sc (row + 1) bars (barStep cfg sc row ts st).2.1).2.2 = none ∧
    runBars cfg sc row (ts :: bars) st =
      ((barStep cfg sc row ts st).1 ++ (runBars cfg sc (row + 1) bars (barStep cfg sc row ts st).2.1).1,
       (runBars cfg sc (row + 1) bars (barStep cfg sc row ts st).2.1).2.1, none) := by
  have heq : runBars cfg sc row (ts :: bars) st =
      match (barStep cfg sc row ts st).2.2 with
      | some e => ((barStep cfg sc row ts st).1, (barStep cfg sc row ts st).2.1, some e)
      | none => ((barStep cfg sc row ts st).1 ++ (runBars cfg sc (row + 1) bars (barStep cfg sc row ts st).2.1).1,
                 (runBars cfg sc (row + 1) bars (barStep cfg sc row ts st).2.1).2.1,
                 (runBars cfg sc (row + 1) bars (barStep cfg sc row ts st).2.1).2.2) := by
    rw [runBars]; rfl
  rw [heq] at h ⊢
  cases hb : (barStep cfg sc row ts st).2.2 with
  | some e => rw [hb] at h; cases h
  | none =>
    rw [hb] at h
    simp only [] at h ⊢
    exact ⟨trivial, h, by rw [h]⟩

/-- the loop's trace: bar by bar, each bar in phase order -/
theorem runBars_sorted (cfg : Cfg) (sc : Script) : ∀ (bars : List Int) (row : Nat) (st : St),
    bars.Pairwise (· < ·) → (runBars cfg sc row bars st).2.2 = none →
    (runBars cfg sc row bars st).1.Pairwise KeyLe ∧
    ∀ e ∈ (runBars cfg sc row bars st).1, ∃ t ∈ bars, e.ts = some t ∧ 3 ≤ e.phase ∧ e.phase ≤ 15
  | [], _, _, _, _ => ⟨List.Pairwise.nil, by intro e he; cases he⟩
  | ts :: bars, row, st, hp, h => by
    obtain ⟨h1, h2, h3⟩ := runBars_cons_ok h
    obtain ⟨price, _, _, hstep⟩ := barStep_ok h1
    have hp' := List.pairwise_cons.mp hp
    obtain ⟨ih1, ih2⟩ := runBars_sorted cfg sc bars (row + 1) _ hp'.2 h2
    have hbar := barTrace_sorted cfg sc row ts st price
    rw [h3]
    simp only []
    rw [hstep] at ih1 ih2 ⊢
    simp only [] at ih1 ih2 ⊢
    refine ⟨List.pairwise_append.mpr ⟨hbar.1, ih1, ?_⟩, ?_⟩
    · intro a ha b hb
      left
      obtain ⟨t, ht, b1, _⟩ := ih2 b hb
      rw [(hbar.2 a ha).1, b1]
      exact hp'.1 t ht
    · intro e he
      rcases List.mem_append.mp he with h' | h'
      · exact ⟨ts, List.mem_cons_self .., hbar.2 e h'⟩
      · obtain ⟨t, ht, r⟩ := ih2 e h'
        exact ⟨t, List.mem_cons_of_mem _ ht, r⟩


end Demeter.Core
