/-
  `Once`: every LP position of the oSQTH/WETH pool is held exactly once — by the pool (free, `transferred = false`,
  referenced by no vault) or by exactly one vault (`transferred = true`) — and its preservation by every operation
  of Demeter.Squeeth, in every arithmetic context.
-/
import Proofs.Lemmas.Squeeth
import Proofs.Lemmas.SqueethLong
import Mathlib.Tactic.SplitIfs
namespace Demeter
namespace Squeeth
open Gen

/-- **every LP position is held exactly once**: a position referenced by a vault exists in the pool and is flagged
    `transferred` (so the pool skips it); a flagged position is referenced by a vault; no two vaults reference the
    same position; vault keys never exceed the id counter (fresh ids are fresh). -/
structure Once (s : State) : Prop where
  ref_lent : ∀ vk v pos, AList.get? s.vaults vk = some v → v.nft = some pos →
    ∃ p, AList.get? s.positions pos = some p ∧ p.transferred = true
  lent_ref : ∀ pos p, AList.get? s.positions pos = some p → p.transferred = true →
    ∃ vk v, AList.get? s.vaults vk = some v ∧ v.nft = some pos
  inj : ∀ vk vk' v v' pos, AList.get? s.vaults vk = some v → AList.get? s.vaults vk' = some v' →
    v.nft = some pos → v'.nft = some pos → vk = vk'
  kbound : ∀ vk v, AList.get? s.vaults vk = some v → vk ≤ s.maxId

/-- two states with the same vault references, position flags and id counter -/
theorem Once.congr {s s' : State} (h : Once s) (hv : ∀ k, (AList.get? s'.vaults k).map (·.nft) = (AList.get? s.vaults k).map (·.nft))
    (hp : ∀ k, (AList.get? s'.positions k).map (·.transferred) = (AList.get? s.positions k).map (·.transferred))
    (hm : s'.maxId = s.maxId) : Once s' := by
  have vget : ∀ k v', AList.get? s'.vaults k = some v' → ∃ v, AList.get? s.vaults k = some v ∧ v.nft = v'.nft := by
    intro k v' hk
    have := hv k; rw [hk] at this
    cases hs : AList.get? s.vaults k with
    | none => rw [hs] at this; simp at this
    | some v => rw [hs] at this; simp at this; exact ⟨v, rfl, this.symm⟩
  have vget' : ∀ k v, AList.get? s.vaults k = some v → ∃ v', AList.get? s'.vaults k = some v' ∧ v'.nft = v.nft := by
    intro k v hk
    have := hv k; rw [hk] at this
    cases hs : AList.get? s'.vaults k with
    | none => rw [hs] at this; simp at this
    | some v' => rw [hs] at this; simp at this; exact ⟨v', rfl, this⟩
  have pget : ∀ k p', AList.get? s'.positions k = some p' → ∃ p, AList.get? s.positions k = some p ∧ p.transferred = p'.transferred := by
    intro k p' hk
    have := hp k; rw [hk] at this
    cases hs : AList.get? s.positions k with
    | none => rw [hs] at this; simp at this
    | some p => rw [hs] at this; simp at this; exact ⟨p, rfl, this.symm⟩
  have pget' : ∀ k p, AList.get? s.positions k = some p → ∃ p', AList.get? s'.positions k = some p' ∧ p'.transferred = p.transferred := by
    intro k p hk
    have := hp k; rw [hk] at this
    cases hs : AList.get? s'.positions k with
    | none => rw [hs] at this; simp at this
    | some p' => rw [hs] at this; simp at this; exact ⟨p', rfl, this⟩
  constructor
  · intro vk v' pos hk hn
    obtain ⟨v, hv1, hv2⟩ := vget vk v' hk
    obtain ⟨p, hp1, hp2⟩ := h.ref_lent vk v pos hv1 (hv2.trans hn)
    obtain ⟨p', hp3, hp4⟩ := pget' pos p hp1
    exact ⟨p', hp3, hp4.trans hp2⟩
  · intro pos p' hk ht
    obtain ⟨p, hp1, hp2⟩ := pget pos p' hk
    obtain ⟨vk, v, hv1, hv2⟩ := h.lent_ref pos p hp1 (hp2.trans ht)
    obtain ⟨v', hv3, hv4⟩ := vget' vk v hv1
    exact ⟨vk, v', hv3, hv4.trans hv2⟩
  · intro vk vk' v v' pos h1 h2 h3 h4
    obtain ⟨w, hw1, hw2⟩ := vget vk v h1
    obtain ⟨w', hw3, hw4⟩ := vget vk' v' h2
    exact h.inj vk vk' w w' pos hw1 hw3 (hw2.trans h3) (hw4.trans h4)
  · intro vk v' hk
    obtain ⟨v, hv1, _⟩ := vget vk v' hk
    rw [hm]; exact h.kbound vk v hv1


/-- same vault → LP references, same `transferred` flags, same id counter -/
structure SameRefs (s s' : State) : Prop where
  v : ∀ k, (AList.get? s'.vaults k).map (·.nft) = (AList.get? s.vaults k).map (·.nft)
  p : ∀ k, (AList.get? s'.positions k).map (·.transferred) = (AList.get? s.positions k).map (·.transferred)
  m : s'.maxId = s.maxId

theorem SameRefs.refl (s : State) : SameRefs s s := ⟨fun _ => rfl, fun _ => rfl, rfl⟩

theorem SameRefs.trans {a b c : State} (h1 : SameRefs a b) (h2 : SameRefs b c) : SameRefs a c :=
  ⟨fun k => (h2.v k).trans (h1.v k), fun k => (h2.p k).trans (h1.p k), h2.m.trans h1.m⟩

theorem Once.of_sameRefs {s s' : State} (h : Once s) (hs : SameRefs s s') : Once s' := h.congr hs.v hs.p hs.m

theorem sameRefs_setVault (s : State) (k : Nat) (v v' : Vault) (hv : AList.get? s.vaults k = some v) (hn : v'.nft = v.nft) :
    SameRefs s (s.setVault k v') := by
  refine ⟨fun k' => ?_, fun _ => rfl, rfl⟩
  unfold State.setVault
  by_cases hk : k' = k
  · subst hk; simp only [get?_set_self, hv, Option.map_some, hn]
  · simp only [get?_set_other _ _ _ _ hk]

theorem sameRefs_setVault' (s : State) (k : Nat) (v : Vault) (c sh : Rat) (hv : AList.get? s.vaults k = some v) :
    SameRefs s (s.setVault k { coll := c, short := sh, nft := v.nft }) := sameRefs_setVault s k v _ hv rfl

theorem sameRefs_setPos (s : State) (k : PosKey) (p p' : UPos) (hp : AList.get? s.positions k = some p)
    (ht : p'.transferred = p.transferred) : SameRefs s (s.setPos k p') := by
  refine ⟨fun _ => rfl, fun k' => ?_, rfl⟩
  unfold State.setPos
  by_cases hk : k' = k
  · subst hk; simp only [get?_set_self, hp, Option.map_some, ht]
  · simp only [get?_set_other _ _ _ _ hk]

theorem sameRefs_record (s : State) (a : Action) : SameRefs s (s.record a) := ⟨fun _ => rfl, fun _ => rfl, rfl⟩
theorem sameRefs_creditW (cx : NumCtx) (s : State) (t : String) (x : Rat) : SameRefs s (creditW cx s t x) :=
  ⟨fun _ => rfl, fun _ => rfl, rfl⟩

theorem sameRefs_debitW {cx : NumCtx} {s s' : State} {t : String} {x : Rat} (h : debitW cx s t x = .ok s') : SameRefs s s' := by
  unfold debitW at h
  cases hw : Wallet.debit cx s.wallet t x false with
  | error er => cases er <;> simp [hw] at h
  | ok w => simp only [hw, Except.ok.injEq] at h; subst h; exact ⟨fun _ => rfl, fun _ => rfl, rfl⟩

theorem sameRefs_checked (cx : NumCtx) (e : Env) (s : State) (vk : Nat) (o : List Rat) : SameRefs s (checked cx e s vk o).st := by
  unfold checked; cases checkVault cx e s vk <;> exact SameRefs.refl s

theorem sameRefs_andThen (s : State) (r : Res) (f : State → Res) (hr : SameRefs s r.st) (hf : ∀ t, SameRefs t (f t).st) :
    SameRefs s (r.andThen f).st := by
  unfold Res.andThen
  cases r.err with
  | some er => exact hr
  | none => exact hr.trans (hf _)

theorem sameRefs_mintBody (cx : NumCtx) (s : State) (vk : Nat) (m : Rat) : SameRefs s (mintBody cx s vk m).st := by
  unfold mintBody
  split_ifs
  · cases hv : AList.get? s.vaults vk with
    | none => exact SameRefs.refl s
    | some v =>
      exact ((sameRefs_setVault' s vk v _ _ hv).trans (sameRefs_creditW cx _ _ _)).trans (sameRefs_record _ _)
  · exact SameRefs.refl s

theorem sameRefs_depositBody (cx : NumCtx) (s : State) (vk : Nat) (eth : Rat) : SameRefs s (depositBody cx s vk eth).st := by
  unfold depositBody
  split_ifs
  · exact SameRefs.refl s
  · cases hv : AList.get? s.vaults vk with
    | none => exact SameRefs.refl s
    | some v =>
      simp only []
      cases hd : debitW cx (s.setVault vk { v with coll := cx.add v.coll eth }) sqWethName eth with
      | error er => exact sameRefs_setVault' s vk v _ _ hv
      | ok s2 => exact ((sameRefs_setVault' s vk v _ _ hv).trans (sameRefs_debitW hd)).trans (sameRefs_record _ _)

theorem sameRefs_withdrawCollBody (cx : NumCtx) (e : Env) (s : State) (vk : Nat) (a : Rat) :
    SameRefs s (withdrawCollBody cx e s vk a).st := by
  unfold withdrawCollBody
  cases hv : AList.get? s.vaults vk with
  | none => exact SameRefs.refl s
  | some v =>
    simp only []
    apply sameRefs_andThen
    · exact ((sameRefs_setVault' s vk v _ _ hv).trans (sameRefs_creditW cx _ _ _)).trans (sameRefs_checked cx e _ vk _)
    · intro t; exact sameRefs_record _ _

theorem sameRefs_burnBody (cx : NumCtx) (s : State) (vk : Nat) (b : Rat) : SameRefs s (burnBody cx s vk b).st := by
  unfold burnBody
  cases hv : AList.get? s.vaults vk with
  | none => exact SameRefs.refl s
  | some v =>
    simp only []
    by_cases hb : b > 0
    · simp only [hb, if_true]
      generalize (if v.short ≥ b then cx.sub v.short b else 0) = sh
      generalize (if v.short ≥ b then b else v.short) = removed
      cases hd : debitW cx (s.setVault vk { v with short := sh }) sqOsqthName removed with
      | error er => exact sameRefs_setVault' s vk v _ _ hv
      | ok s2 => exact ((sameRefs_setVault' s vk v _ _ hv).trans (sameRefs_debitW hd)).trans (sameRefs_record _ _)
    · simp only [hb, if_false]; exact SameRefs.refl s

theorem sameRefs_burnWithdrawBody (cx : NumCtx) (e : Env) (s : State) (vk : Nat) (b w : Rat) :
    SameRefs s (burnWithdrawBody cx e s vk b w).st := by
  unfold burnWithdrawBody
  apply sameRefs_andThen _ _ _ (sameRefs_burnBody cx s vk b)
  intro t
  apply sameRefs_andThen
  · split_ifs
    · exact sameRefs_withdrawCollBody cx e t vk w
    · exact SameRefs.refl t
  · intro t2; exact sameRefs_checked cx e t2 vk _

theorem sameRefs_liquidateInner (cx : NumCtx) (e : Env) (s : State) (vk : Nat) (m : Rat) :
    SameRefs s (liquidateInner cx e s vk m).st := by
  unfold liquidateInner
  cases hv : AList.get? s.vaults vk with
  | none => exact SameRefs.refl s
  | some v =>
    simp only []
    generalize liquidationResult cx e m v.short v.coll = r
    by_cases hlt : m < r.1
    · simp only [hlt, if_true]; exact SameRefs.refl s
    · simp only [hlt, if_false]
      have h1 := sameRefs_setVault' s vk v (cx.sub v.coll r.2) (cx.sub v.short r.1) hv
      generalize s.setVault vk { coll := cx.sub v.coll r.2, short := cx.sub v.short r.1, nft := v.nft } = s1 at h1 ⊢
      cases vaultStatus cx e s1 vk with
      | error er => exact h1
      | ok p =>
        obtain ⟨a, d⟩ := p
        simp only []
        cases d with
        | true => exact h1
        | false => exact h1.trans (sameRefs_record _ _)


/-! ### operations that move an LP position between the pool and a vault -/

theorem map_nft_eq_some {o : Option Vault} {n : Option PosKey} (h : o.map (·.nft) = some n) : ∃ v, o = some v ∧ v.nft = n := by
  cases o with
  | none => simp at h
  | some v => simp at h; exact ⟨v, rfl, h⟩

/-- a free position is lent to a vault that holds none -/
theorem Once.lend {s s' : State} (h : Once s) (vk : Nat) (pos : PosKey) (v v' : Vault) (p p' : UPos)
    (hv : AList.get? s.vaults vk = some v) (hvn : v.nft = none) (hp : AList.get? s.positions pos = some p) (hpt : p.transferred = false)
    (hv' : AList.get? s'.vaults vk = some v') (hvn' : v'.nft = some pos)
    (hvo : ∀ k, k ≠ vk → (AList.get? s'.vaults k).map (·.nft) = (AList.get? s.vaults k).map (·.nft))
    (hp' : AList.get? s'.positions pos = some p') (hpt' : p'.transferred = true)
    (hpo : ∀ k, k ≠ pos → (AList.get? s'.positions k).map (·.transferred) = (AList.get? s.positions k).map (·.transferred))
    (hm : s'.maxId = s.maxId) : Once s' := by
  -- helpers: transport lookups of the untouched keys
  have vold : ∀ k w', k ≠ vk → AList.get? s'.vaults k = some w' → ∃ w, AList.get? s.vaults k = some w ∧ w.nft = w'.nft := by
    intro k w' hk hg
    have := hvo k hk; rw [hg] at this
    obtain ⟨w, hw, hn⟩ := map_nft_eq_some this.symm
    exact ⟨w, hw, hn⟩
  have vnew : ∀ k w, k ≠ vk → AList.get? s.vaults k = some w → ∃ w', AList.get? s'.vaults k = some w' ∧ w'.nft = w.nft := by
    intro k w hk hg
    have := hvo k hk; rw [hg] at this
    obtain ⟨w', hw, hn⟩ := map_nft_eq_some this
    exact ⟨w', hw, hn⟩
  have pflag : ∀ k (q' : UPos), k ≠ pos → AList.get? s'.positions k = some q' → ∃ q, AList.get? s.positions k = some q ∧ q.transferred = q'.transferred := by
    intro k q' hk hg
    have := hpo k hk; rw [hg] at this
    cases hs : AList.get? s.positions k with
    | none => rw [hs] at this; simp at this
    | some q => rw [hs] at this; simp at this; exact ⟨q, rfl, this.symm⟩
  have pflag' : ∀ k (q : UPos), k ≠ pos → AList.get? s.positions k = some q → ∃ q', AList.get? s'.positions k = some q' ∧ q'.transferred = q.transferred := by
    intro k q hk hg
    have := hpo k hk; rw [hg] at this
    cases hs : AList.get? s'.positions k with
    | none => rw [hs] at this; simp at this
    | some q' => rw [hs] at this; simp at this; exact ⟨q', rfl, this⟩
  -- no vault referenced `pos` before (it was free)
  have nofree : ∀ k w, AList.get? s.vaults k = some w → w.nft ≠ some pos := by
    intro k w hg hn
    obtain ⟨q, hq, hqt⟩ := h.ref_lent k w pos hg hn
    rw [hp] at hq; cases hq; rw [hpt] at hqt; cases hqt
  constructor
  · intro k w' ps hg hn
    by_cases hk : k = vk
    · subst hk; rw [hv'] at hg; cases hg; rw [hvn'] at hn; cases hn; exact ⟨p', hp', hpt'⟩
    · obtain ⟨w, hw, hwn⟩ := vold k w' hk hg
      obtain ⟨q, hq, hqt⟩ := h.ref_lent k w ps hw (hwn.trans hn)
      have hne : ps ≠ pos := by
        intro he; subst he; exact nofree k w hw (hwn.trans hn)
      obtain ⟨q', hq', hqt'⟩ := pflag' ps q hne hq
      exact ⟨q', hq', hqt'.trans hqt⟩
  · intro ps q' hg ht
    by_cases hps : ps = pos
    · subst hps; exact ⟨vk, v', hv', hvn'⟩
    · obtain ⟨q, hq, hqt⟩ := pflag ps q' hps hg
      obtain ⟨k, w, hw, hwn⟩ := h.lent_ref ps q hq (hqt.trans ht)
      have hk : k ≠ vk := by
        intro he; subst he; rw [hv] at hw; cases hw; rw [hvn] at hwn; cases hwn
      obtain ⟨w', hw', hwn'⟩ := vnew k w hk hw
      exact ⟨k, w', hw', hwn'.trans hwn⟩
  · intro k k' w w' ps hg hg' hn hn'
    by_cases hk : k = vk
    · by_cases hk' : k' = vk
      · rw [hk, hk']
      · exfalso
        subst hk; rw [hv'] at hg; cases hg; rw [hvn'] at hn; cases hn
        obtain ⟨x, hx, hxn⟩ := vold k' w' hk' hg'
        exact nofree k' x hx (hxn.trans hn')
    · by_cases hk' : k' = vk
      · exfalso
        subst hk'; rw [hv'] at hg'; cases hg'; rw [hvn'] at hn'; cases hn'
        obtain ⟨x, hx, hxn⟩ := vold k w hk hg
        exact nofree k x hx (hxn.trans hn)
      · obtain ⟨x, hx, hxn⟩ := vold k w hk hg
        obtain ⟨x', hx', hxn'⟩ := vold k' w' hk' hg'
        exact h.inj k k' x x' ps hx hx' (hxn.trans hn) (hxn'.trans hn')
  · intro k w' hg
    rw [hm]
    by_cases hk : k = vk
    · subst hk; exact h.kbound k v hv
    · obtain ⟨w, hw, _⟩ := vold k w' hk hg
      exact h.kbound k w hw


theorem map_flag_eq_some {o : Option UPos} {b : Bool} (h : o.map (·.transferred) = some b) : ∃ q, o = some q ∧ q.transferred = b := by
  cases o with
  | none => simp at h
  | some q => simp at h; exact ⟨q, rfl, h⟩

/-- a vault gives its LP position back: the position is free again (or has been redeemed and deleted) -/
theorem Once.release {s s' : State} (h : Once s) (vk : Nat) (pos : PosKey) (v v' : Vault)
    (hv : AList.get? s.vaults vk = some v) (hvn : v.nft = some pos)
    (hv' : AList.get? s'.vaults vk = some v') (hvn' : v'.nft = none)
    (hvo : ∀ k, k ≠ vk → (AList.get? s'.vaults k).map (·.nft) = (AList.get? s.vaults k).map (·.nft))
    (hp' : ∀ p', AList.get? s'.positions pos = some p' → p'.transferred = false)
    (hpo : ∀ k, k ≠ pos → (AList.get? s'.positions k).map (·.transferred) = (AList.get? s.positions k).map (·.transferred))
    (hm : s'.maxId = s.maxId) : Once s' := by
  have vold : ∀ k w', k ≠ vk → AList.get? s'.vaults k = some w' → ∃ w, AList.get? s.vaults k = some w ∧ w.nft = w'.nft := by
    intro k w' hk hg
    have := hvo k hk; rw [hg] at this
    obtain ⟨w, hw, hn⟩ := map_nft_eq_some this.symm
    exact ⟨w, hw, hn⟩
  have vnew : ∀ k w, k ≠ vk → AList.get? s.vaults k = some w → ∃ w', AList.get? s'.vaults k = some w' ∧ w'.nft = w.nft := by
    intro k w hk hg
    have := hvo k hk; rw [hg] at this
    obtain ⟨w', hw, hn⟩ := map_nft_eq_some this
    exact ⟨w', hw, hn⟩
  have pflag : ∀ k (q' : UPos), k ≠ pos → AList.get? s'.positions k = some q' → ∃ q, AList.get? s.positions k = some q ∧ q.transferred = q'.transferred := by
    intro k q' hk hg
    have := hpo k hk; rw [hg] at this
    obtain ⟨q, hq, hqt⟩ := map_flag_eq_some this.symm
    exact ⟨q, hq, hqt⟩
  have pflag' : ∀ k (q : UPos), k ≠ pos → AList.get? s.positions k = some q → ∃ q', AList.get? s'.positions k = some q' ∧ q'.transferred = q.transferred := by
    intro k q hk hg
    have := hpo k hk; rw [hg] at this
    obtain ⟨q', hq, hqt⟩ := map_flag_eq_some this
    exact ⟨q', hq, hqt⟩
  -- only `vk` referenced `pos`
  have only : ∀ k w, k ≠ vk → AList.get? s.vaults k = some w → w.nft ≠ some pos := by
    intro k w hk hg hn
    exact hk (h.inj k vk w v pos hg hv hn hvn)
  constructor
  · intro k w' ps hg hn
    by_cases hk : k = vk
    · subst hk; rw [hv'] at hg; cases hg; rw [hvn'] at hn; cases hn
    · obtain ⟨w, hw, hwn⟩ := vold k w' hk hg
      obtain ⟨q, hq, hqt⟩ := h.ref_lent k w ps hw (hwn.trans hn)
      have hne : ps ≠ pos := by
        intro he; subst he; exact only k w hk hw (hwn.trans hn)
      obtain ⟨q', hq', hqt'⟩ := pflag' ps q hne hq
      exact ⟨q', hq', hqt'.trans hqt⟩
  · intro ps q' hg ht
    have hps : ps ≠ pos := by
      intro he; subst he; have := hp' q' hg; rw [this] at ht; cases ht
    obtain ⟨q, hq, hqt⟩ := pflag ps q' hps hg
    obtain ⟨k, w, hw, hwn⟩ := h.lent_ref ps q hq (hqt.trans ht)
    have hk : k ≠ vk := by
      intro he; subst he; rw [hv] at hw; cases hw; rw [hvn] at hwn; cases hwn; exact hps rfl
    obtain ⟨w', hw', hwn'⟩ := vnew k w hk hw
    exact ⟨k, w', hw', hwn'.trans hwn⟩
  · intro k k' w w' ps hg hg' hn hn'
    have hk : k ≠ vk := by
      intro he; subst he; rw [hv'] at hg; cases hg; rw [hvn'] at hn; cases hn
    have hk' : k' ≠ vk := by
      intro he; subst he; rw [hv'] at hg'; cases hg'; rw [hvn'] at hn'; cases hn'
    obtain ⟨x, hx, hxn⟩ := vold k w hk hg
    obtain ⟨x', hx', hxn'⟩ := vold k' w' hk' hg'
    exact h.inj k k' x x' ps hx hx' (hxn.trans hn) (hxn'.trans hn')
  · intro k w' hg
    rw [hm]
    by_cases hk : k = vk
    · subst hk; exact h.kbound k v hv
    · obtain ⟨w, hw, _⟩ := vold k w' hk hg
      exact h.kbound k w hw

/-- a *free* position is changed or deleted by the pool (remove_liquidity / collect_fee); vault references untouched -/
theorem Once.dropFree {s s' : State} (h : Once s) (pos : PosKey)
    (hfree : ∀ p, AList.get? s.positions pos = some p → p.transferred = false)
    (hv : ∀ k, (AList.get? s'.vaults k).map (·.nft) = (AList.get? s.vaults k).map (·.nft))
    (hp' : ∀ p', AList.get? s'.positions pos = some p' → p'.transferred = false)
    (hpo : ∀ k, k ≠ pos → (AList.get? s'.positions k).map (·.transferred) = (AList.get? s.positions k).map (·.transferred))
    (hm : s'.maxId = s.maxId) : Once s' := by
  have vold : ∀ k w', AList.get? s'.vaults k = some w' → ∃ w, AList.get? s.vaults k = some w ∧ w.nft = w'.nft := by
    intro k w' hg
    have := hv k; rw [hg] at this
    obtain ⟨w, hw, hn⟩ := map_nft_eq_some this.symm
    exact ⟨w, hw, hn⟩
  have vnew : ∀ k w, AList.get? s.vaults k = some w → ∃ w', AList.get? s'.vaults k = some w' ∧ w'.nft = w.nft := by
    intro k w hg
    have := hv k; rw [hg] at this
    obtain ⟨w', hw, hn⟩ := map_nft_eq_some this
    exact ⟨w', hw, hn⟩
  have notref : ∀ k w, AList.get? s.vaults k = some w → w.nft ≠ some pos := by
    intro k w hg hn
    obtain ⟨q, hq, hqt⟩ := h.ref_lent k w pos hg hn
    have := hfree q hq; rw [this] at hqt; cases hqt
  constructor
  · intro k w' ps hg hn
    obtain ⟨w, hw, hwn⟩ := vold k w' hg
    obtain ⟨q, hq, hqt⟩ := h.ref_lent k w ps hw (hwn.trans hn)
    have hne : ps ≠ pos := by
      intro he; subst he; exact notref k w hw (hwn.trans hn)
    have := hpo ps hne; rw [hq] at this
    obtain ⟨q', hq', hqt'⟩ := map_flag_eq_some this
    exact ⟨q', hq', hqt'.trans hqt⟩
  · intro ps q' hg ht
    have hps : ps ≠ pos := by
      intro he; subst he; have := hp' q' hg; rw [this] at ht; cases ht
    have := hpo ps hps; rw [hg] at this
    obtain ⟨q, hq, hqt⟩ := map_flag_eq_some this.symm
    obtain ⟨k, w, hw, hwn⟩ := h.lent_ref ps q hq (hqt.trans ht)
    obtain ⟨w', hw', hwn'⟩ := vnew k w hw
    exact ⟨k, w', hw', hwn'.trans hwn⟩
  · intro k k' w w' ps hg hg' hn hn'
    obtain ⟨x, hx, hxn⟩ := vold k w hg
    obtain ⟨x', hx', hxn'⟩ := vold k' w' hg'
    exact h.inj k k' x x' ps hx hx' (hxn.trans hn) (hxn'.trans hn')
  · intro k w' hg
    rw [hm]
    obtain ⟨w, hw, _⟩ := vold k w' hg
    exact h.kbound k w hw

/-- `open_deposit_mint` without a vault key creates vault `max_id + 1` — a key no vault has -/
theorem Once.openVault {s : State} (h : Once s) (vk? : Option Nat) : Once (Squeeth.openVault s vk?).1 := by
  cases vk? with
  | some k => exact h
  | none =>
    have hfresh : AList.get? s.vaults (s.maxId + 1) = none := by
      cases hg : AList.get? s.vaults (s.maxId + 1) with
      | none => rfl
      | some v => have := h.kbound _ v hg; omega
    have hget : ∀ k, k ≠ s.maxId + 1 → AList.get? (Squeeth.openVault s none).1.vaults k = AList.get? s.vaults k := by
      intro k hk; simp only [Squeeth.openVault, State.record]; exact get?_set_other _ _ _ _ hk
    have hnew : AList.get? (Squeeth.openVault s none).1.vaults (s.maxId + 1) = some { coll := 0, short := 0, nft := none } := by
      simp only [Squeeth.openVault, State.record]; exact get?_set_self _ _ _
    have hposs : (Squeeth.openVault s none).1.positions = s.positions := rfl
    have hmax : (Squeeth.openVault s none).1.maxId = s.maxId + 1 := rfl
    constructor
    · intro k w ps hg hn
      by_cases hk : k = s.maxId + 1
      · subst hk; rw [hnew] at hg; cases hg; cases hn
      · rw [hget k hk] at hg; rw [hposs]; exact h.ref_lent k w ps hg hn
    · intro ps q hg ht
      rw [hposs] at hg
      obtain ⟨k, w, hw, hwn⟩ := h.lent_ref ps q hg ht
      have hk : k ≠ s.maxId + 1 := by intro he; subst he; rw [hfresh] at hw; cases hw
      exact ⟨k, w, by rw [hget k hk]; exact hw, hwn⟩
    · intro k k' w w' ps hg hg' hn hn'
      have hk : k ≠ s.maxId + 1 := by intro he; subst he; rw [hnew] at hg; cases hg; cases hn
      have hk' : k' ≠ s.maxId + 1 := by intro he; subst he; rw [hnew] at hg'; cases hg'; cases hn'
      rw [hget k hk] at hg; rw [hget k' hk'] at hg'
      exact h.inj k k' w w' ps hg hg' hn hn'
    · intro k w hg
      rw [hmax]
      by_cases hk : k = s.maxId + 1
      · omega
      · rw [hget k hk] at hg; have := h.kbound k w hg; omega


theorem get?_erase_self' {κ ν : Type} [DecidableEq κ] (m : AList κ ν) (k : κ) : AList.get? (AList.erase m k) k = none := by
  unfold AList.get? AList.erase
  simp [List.find?_eq_none]

theorem get?_erase_other' {κ ν : Type} [DecidableEq κ] (m : AList κ ν) (k k' : κ) (h : k' ≠ k) :
    AList.get? (AList.erase m k) k' = AList.get? m k' := by
  induction m with
  | nil => rfl
  | cons a m ih =>
    have e1 : AList.erase (a :: m) k = if a.1 = k then AList.erase m k else a :: AList.erase m k := by
      unfold AList.erase
      by_cases h1 : a.1 = k <;> simp [List.filter, h1]
    rw [e1]
    by_cases h1 : a.1 = k
    · have h2 : a.1 ≠ k' := by rw [h1]; exact Ne.symm h
      simp only [h1, if_true, get?_cons]
      rw [ih]; rw [h1] at h2; simp [h2]
    · simp only [h1, if_false, get?_cons, ih]

/-! ### the operation bodies -/

theorem depositUniBody_once (s : State) (vk : Nat) (pos : PosKey) (h : Once s) (hok : (depositUniBody s vk pos).err = none) :
    Once (depositUniBody s vk pos).st := by
  unfold depositUniBody at hok ⊢
  cases hp : AList.get? s.positions pos with
  | none => simp [hp] at hok
  | some p =>
    simp only [hp] at hok ⊢
    by_cases hl : p.liquidity = 0
    · simp [hl] at hok
    · simp only [hl, if_false] at hok ⊢
      cases hv : AList.get? s.vaults vk with
      | none => simp [hv] at hok
      | some v =>
        simp only [hv] at hok ⊢
        by_cases hn : v.nft.isSome = true
        · simp [hn] at hok
        · simp only [hn, Bool.false_eq_true, if_false] at hok ⊢
          by_cases ht : p.transferred = true
          · simp [ht] at hok
          · simp only [ht, Bool.false_eq_true, if_false, Res.ok_st]
            have hvn : v.nft = none := by cases hx : v.nft with | none => rfl | some x => simp [hx] at hn
            have htf : p.transferred = false := by cases hx : p.transferred with | false => rfl | true => exact absurd hx ht
            apply h.lend vk pos v { v with nft := some pos } p { p with transferred := true } hv hvn hp htf
            · simp only [State.record, State.setPos, State.setVault, get?_set_self]
            · rfl
            · intro k hk; simp only [State.record, State.setPos, State.setVault, get?_set_other _ _ _ _ hk]
            · simp only [State.record, State.setPos, get?_set_self]
            · rfl
            · intro k hk; simp only [State.record, State.setPos, State.setVault, get?_set_other _ _ _ _ hk]
            · rfl

theorem withdrawUniBody_once (cx : NumCtx) (e : Env) (s : State) (vk : Nat) (pos : PosKey) (h : Once s)
    (hok : (withdrawUniBody cx e s vk pos).err = none) : Once (withdrawUniBody cx e s vk pos).st := by
  unfold withdrawUniBody at hok ⊢
  cases hv : AList.get? s.vaults vk with
  | none => simp [hv] at hok
  | some v =>
    simp only [hv] at hok ⊢
    by_cases hn : v.nft = some pos
    · simp only [hn, ne_eq, not_true_eq_false, if_false] at hok ⊢
      cases hp : AList.get? (s.setVault vk { v with nft := none }).positions pos with
      | none => simp [hp] at hok
      | some p =>
        simp only [hp] at hok ⊢
        by_cases ht : p.transferred = true
        · simp only [ht, Bool.not_true, Bool.false_eq_true, if_false] at hok ⊢
          obtain ⟨h1, _, e2⟩ := Res.andThen_ok hok
          rw [e2]
          have hst : (checked cx e ((s.setVault vk { v with nft := none }).setPos pos { p with transferred := false }) vk).st
              = (s.setVault vk { v with nft := none }).setPos pos { p with transferred := false } := by
            unfold checked; cases checkVault cx e _ vk <;> rfl
          simp only [Res.ok_st, hst]
          apply h.release vk pos v { v with nft := none } hv hn
          · simp only [State.record, State.setPos, State.setVault, get?_set_self]
          · rfl
          · intro k hk; simp only [State.record, State.setPos, State.setVault, get?_set_other _ _ _ _ hk]
          · intro p' hp'
            simp only [State.record, State.setPos, get?_set_self, Option.some.injEq] at hp'
            rw [← hp']
          · intro k hk; simp only [State.record, State.setPos, State.setVault, get?_set_other _ _ _ _ hk]
          · rfl
        · simp [ht] at hok
    · simp [hn] at hok

/-- what remove_liquidity + collect_fee do to the pool's books, in every context and whether or not they raise: only
    position `pos` is touched, its `transferred` flag is kept, it may disappear; vaults and id counter are untouched -/
theorem uniRedeem_frame (cx : NumCtx) (e : Env) (s : State) (pos : PosKey) (toUser : Bool) :
    (uniRedeem cx e s pos toUser).1.st.vaults = s.vaults ∧ (uniRedeem cx e s pos toUser).1.st.maxId = s.maxId ∧
    (∀ k, k ≠ pos → AList.get? (uniRedeem cx e s pos toUser).1.st.positions k = AList.get? s.positions k) ∧
    (∀ p', AList.get? (uniRedeem cx e s pos toUser).1.st.positions pos = some p' →
      ∃ p, AList.get? s.positions pos = some p ∧ p'.transferred = p.transferred) := by
  unfold uniRedeem
  split
  · exact ⟨rfl, rfl, fun _ _ => rfl, fun p' hp' => ⟨p', hp', rfl⟩⟩
  · split
    · rename_i hp
      exact ⟨rfl, rfl, fun _ _ => rfl, fun p' hp' => by simp only [Res.fail_st] at hp'; rw [hp] at hp'; cases hp'⟩
    · rename_i p hp
      simp only []
      split
      · -- both tokens in the wallet
        split
        · -- after the (optional) credit both tokens are still there
          cases toUser <;>
          (refine ⟨?_, ?_, fun k hk => ?_, fun p' hp' => ?_⟩ <;>
           first
            | (split <;> rfl)
            | (split <;> simp only [Res.ok_st, State.record, State.setPos, creditW, get?_erase_other' _ _ _ hk, get?_set_other _ _ _ _ hk, Bool.false_eq_true, if_false, if_true])
            | (split at hp' <;>
               simp only [Res.ok_st, State.record, State.setPos, creditW, get?_erase_self', get?_set_self, Option.some.injEq, Bool.false_eq_true, if_false, if_true] at hp' <;>
               first | exact ⟨p, hp, by cases hp'; rfl⟩ | cases hp'))
        · cases toUser <;>
          (refine ⟨rfl, rfl, fun k hk => ?_, fun p' hp' => ?_⟩ <;>
           first
            | simp only [Res.fail_st, State.record, State.setPos, creditW, get?_set_other _ _ _ _ hk, Bool.false_eq_true, if_false, if_true]
            | (simp only [Res.fail_st, State.record, State.setPos, creditW, get?_set_self, Option.some.injEq, Bool.false_eq_true, if_false, if_true] at hp'
               exact ⟨p, hp, by cases hp'; rfl⟩))
      · refine ⟨rfl, rfl, fun k hk => ?_, fun p' hp' => ?_⟩
        · simp only [Res.fail_st, State.setPos, get?_set_other _ _ _ _ hk]
        · simp only [Res.fail_st, State.setPos, get?_set_self, Option.some.injEq] at hp'
          exact ⟨p, hp, by cases hp'; rfl⟩


theorem reduceDebtBody_once (cx : NumCtx) (e : Env) (s : State) (vk : Nat) (pb : Bool) (h : Once s)
    (hok : (reduceDebtBody cx e s vk pb).1.err = none) : Once (reduceDebtBody cx e s vk pb).1.st := by
  unfold reduceDebtBody at hok ⊢
  cases hv : AList.get? s.vaults vk with
  | none => simp [hv] at hok
  | some v =>
    simp only [hv] at hok ⊢
    cases hn : v.nft with
    | none => simp only [hn]; exact h
    | some pos =>
      simp only [hn] at hok ⊢
      cases hp : AList.get? s.positions pos with
      | none => simp [hp] at hok
      | some p =>
        simp only [hp] at hok ⊢
        by_cases ht : p.transferred = true
        · simp only [ht, Bool.not_true, Bool.false_eq_true, if_false] at hok ⊢
          obtain ⟨fv, fm, fo, fp⟩ := uniRedeem_frame cx e (s.setPos pos { p with transferred := false }) pos false
          generalize uniRedeem cx e (s.setPos pos { p with transferred := false }) pos false = u at hok fv fm fo fp ⊢
          obtain ⟨⟨er, s1, o⟩, f0, f1⟩ := u
          cases er with
          | some er => simp at hok
          | none =>
            simp only [] at fv fm fo fp ⊢
            generalize hv' : ({ coll := _, short := _, nft := none } : Vault) = v' at *
            apply h.release vk pos v { v' with nft := none } hv hn
            · split_ifs <;> simp only [Res.ok_st, State.record, creditW, State.setVault, get?_set_self] <;> rw [← hv']
            · rfl
            · intro k hk
              split_ifs <;> simp only [Res.ok_st, State.record, creditW, State.setVault, get?_set_other _ _ _ _ hk, fv] <;> rfl
            · intro p' hp'
              have hp'' : AList.get? s1.positions pos = some p' := by
                split_ifs at hp' <;> simpa only [Res.ok_st, State.record, creditW, State.setVault] using hp'
              obtain ⟨q, hq, hqt⟩ := fp p' hp''
              simp only [State.setPos, get?_set_self, Option.some.injEq] at hq
              rw [hqt, ← hq]
            · intro k hk
              have : AList.get? s1.positions k = AList.get? s.positions k := by
                rw [fo k hk]; simp only [State.setPos, get?_set_other _ _ _ _ hk]
              split_ifs <;> simp only [Res.ok_st, State.record, creditW, State.setVault, this]
            · split_ifs <;> simp only [Res.ok_st, State.record, creditW, State.setVault, fm] <;> rfl
        · simp [ht] at hok


theorem liquidateBody_once (cx : NumCtx) (e : Env) (s : State) (vk : Nat) (h : Once s)
    (hok : (liquidateBody cx e s vk).err = none) : Once (liquidateBody cx e s vk).st := by
  unfold liquidateBody at hok ⊢
  cases hv : AList.get? s.vaults vk with
  | none => simp [hv] at hok
  | some v0 =>
    simp only [hv] at hok ⊢
    cases hst : vaultStatus cx e s vk with
    | error er => simp [hst] at hok
    | ok p =>
      obtain ⟨safe, d⟩ := p
      simp only [hst] at hok ⊢
      cases safe with
      | true => simp at hok
      | false =>
        simp only [Bool.false_eq_true, if_false] at hok ⊢
        obtain ⟨h1, h2, e2⟩ := Res.andThen_ok hok
        rw [e2] at hok ⊢
        have ho := reduceDebtBody_once cx e s vk true h h1
        generalize (reduceDebtBody cx e s vk true).1.st = t at hok ho ⊢
        generalize (reduceDebtBody cx e s vk true).2 = b at hok ⊢
        cases vaultStatus cx e t vk with
        | error er => exact ho
        | ok p =>
          obtain ⟨safe1, d1⟩ := p
          simp only [] at hok ⊢
          cases safe1 with
          | true => exact ho
          | false =>
            simp only [Bool.false_eq_true, if_false] at hok ⊢
            cases hg : AList.get? t.vaults vk with
            | none => exact ho
            | some v =>
              simp only []
              exact ho.of_sameRefs ((sameRefs_setVault' t vk v _ _ hg).trans (sameRefs_liquidateInner cx e _ vk _))

theorem atomic_once (s : State) (r : Res) (h : Once s) (hr : r.err = none → Once r.st) : Once (atomic s r).st := by
  unfold atomic
  cases he : r.err with
  | some er => exact h
  | none => exact hr he

theorem updateGo_once (cx : NumCtx) (e : Env) (ks : List Nat) (s : State) (h : Once s) :
    Once (updateGo (liquidateOp cx e) cx e ks s).st := by
  induction ks generalizing s with
  | nil => exact h
  | cons k rest ih =>
    rw [updateGo]
    cases vaultStatus cx e s k with
    | error er => exact h
    | ok p =>
      obtain ⟨safe, d⟩ := p
      simp only []
      cases safe with
      | true => simp only [if_true]; exact ih s h
      | false =>
        simp only [Bool.false_eq_true, if_false]
        have hl : Once (liquidateOp cx e s k).st := atomic_once _ _ h (liquidateBody_once cx e s k h)
        unfold Res.andThen
        cases (liquidateOp cx e s k).err with
        | some er => exact hl
        | none => exact ih _ hl

theorem uniRemoveOp_once (cx : NumCtx) (e : Env) (s : State) (pos : PosKey) (h : Once s) : Once (uniRemoveOp cx e s pos).st := by
  unfold uniRemoveOp
  obtain ⟨fv, fm, fo, fp⟩ := uniRedeem_frame cx e s pos true
  have key : (∀ p, AList.get? s.positions pos = some p → p.transferred = false) → Once (uniRedeem cx e s pos true).1.st := by
    intro hfree
    apply h.dropFree pos hfree
    · intro k; rw [fv]
    · intro p' hp'
      obtain ⟨p, hp, hpt⟩ := fp p' hp'
      rw [hpt]; exact hfree p hp
    · intro k hk; rw [fo k hk]
    · exact fm
  cases hp : AList.get? s.positions pos with
  | none => exact key (fun p hp' => by rw [hp] at hp'; cases hp')
  | some p =>
    simp only []
    by_cases ht : p.transferred = true
    · simp only [ht, if_true]; exact h
    · simp only [ht, if_false]
      apply key
      intro q hq
      rw [hp] at hq; cases hq
      cases hx : p.transferred with
      | false => rfl
      | true => exact absurd hx ht

theorem openBody_once (cx : NumCtx) (e : Env) (s : State) (d m : Rat) (vk? : Option Nat) (pos? : Option PosKey) (h : Once s)
    (hok : (openBody cx e s d m vk? pos?).err = none) : Once (openBody cx e s d m vk? pos?).st := by
  unfold openBody at hok ⊢
  simp only [] at hok ⊢
  have h0 := h.openVault vk?
  generalize (openVault s vk?).1 = s0 at hok h0 ⊢
  generalize (openVault s vk?).2 = vk at hok ⊢
  obtain ⟨_, _, e2⟩ := Res.andThen_ok hok
  rw [e2] at hok ⊢
  have h1 : Once (mintBody cx s0 vk m).st := h0.of_sameRefs (sameRefs_mintBody cx s0 vk m)
  generalize (mintBody cx s0 vk m).st = s1 at hok h1 ⊢
  obtain ⟨_, _, e4⟩ := Res.andThen_ok hok
  rw [e4] at hok ⊢
  have h2 : Once (if d > 0 then depositBody cx s1 vk d else Res.ok s1).st := by
    split_ifs
    · exact h1.of_sameRefs (sameRefs_depositBody cx s1 vk d)
    · exact h1
  generalize (if d > 0 then depositBody cx s1 vk d else Res.ok s1).st = s2 at hok h2 ⊢
  obtain ⟨h5, _, e6⟩ := Res.andThen_ok hok
  rw [e6]
  have h3 : Once (match pos? with | some p => depositUniBody s2 vk p | none => Res.ok s2).st := by
    cases pos? with
    | none => exact h2
    | some p => exact depositUniBody_once s2 vk p h2 h5
  exact h3.of_sameRefs (sameRefs_checked cx e _ vk _)

/-- the long side never touches vault references, position flags or the id counter -/
theorem sameRefs_of_frame {s s' : State} (h : s'.vaults = s.vaults ∧ s'.positions = s.positions ∧ s'.maxId = s.maxId) : SameRefs s s' :=
  ⟨fun _ => by rw [h.1], fun _ => by rw [h.2.1], h.2.2⟩

/-- every operation body, when it is accepted, keeps "every LP position is held exactly once" -/
theorem stepBody_once_of_ok (cx : NumCtx) (e : Env) (s : State) (op : Op) (h : Once s) (hok : (stepBody cx e s op).err = none) :
    Once (stepBody cx e s op).st := by
  cases op with
  | openMint d m vk pos => exact openBody_once cx e s d m vk pos h hok
  | deposit vk eth => exact h.of_sameRefs (sameRefs_depositBody cx s vk eth)
  | depositUni vk pos => exact depositUniBody_once s vk pos h hok
  | withdrawUni vk pos => exact withdrawUniBody_once cx e s vk pos h hok
  | burnWithdraw vk b w => exact h.of_sameRefs (sameRefs_burnWithdrawBody cx e s vk b w)
  | liquidate vk => exact liquidateBody_once cx e s vk h hok
  | update => exact updateGo_once cx e _ s h
  | reduceDebt vk pb => exact reduceDebtBody_once cx e s vk pb h hok
  | uniRemove pos => exact uniRemoveOp_once cx e s pos h
  | buy o q => exact h.of_sameRefs (sameRefs_of_frame (buy_frame cx e s o q))
  | sell o q => exact h.of_sameRefs (sameRefs_of_frame (sell_frame cx e s o q))

end Squeeth
end Demeter
