import Proofs.Lemmas.CoreActuator3
namespace Demeter.Core

/-- two markets (of two configurations) look the same to the loop at time `ts`: same open callback, same `is_open`, same row -/
def MEq (c₁ c₂ : Cfg) (ts : Int) (m₁ m₂ : MarketCfg) : Prop :=
  m₁.openCb = m₂.openCb ∧ marketOpen c₁ m₁ ts = marketOpen c₂ m₂ ts ∧
  frameSrc c₁.resample c₁.Δ m₁.idx ts = frameSrc c₂.resample c₂.Δ m₂.idx ts

/-- two configurations supply the same data for the bar at `ts` -/
def AgreeAt (c₁ c₂ : Cfg) (ts : Int) : Prop :=
  priceAt c₁ ts = priceAt c₂ ts ∧ List.Forall₂ (MEq c₁ c₂ ts) c₁.markets c₂.markets

theorem forall₂_len {α β : Type} {R : α → β → Prop} : ∀ {l₁ : List α} {l₂ : List β}, List.Forall₂ R l₁ l₂ → l₁.length = l₂.length
  | [], [], _ => rfl
  | _ :: _, _ :: _, h => by cases h with | cons _ hl => simp [forall₂_len hl]

theorem setAllFrom_agree (c₁ c₂ : Cfg) (ts : Int) (stage : Nat) : ∀ (i : Nat) (l₁ l₂ : List MarketCfg),
    List.Forall₂ (MEq c₁ c₂ ts) l₁ l₂ → setAllFrom c₁ ts stage i l₁ = setAllFrom c₂ ts stage i l₂
  | _, [], [], _ => rfl
  | i, a :: l₁, b :: l₂, h => by
    cases h with
    | cons hab hl =>
      simp only [setAllFrom, setEv, hab.2.1, hab.2.2, setAllFrom_agree c₁ c₂ ts stage (i + 1) l₁ l₂ hl]

theorem setUpdatedFrom_agree (c₁ c₂ : Cfg) (ts : Int) : ∀ (i : Nat) (l₁ l₂ : List MarketCfg) (ss : List MSt),
    List.Forall₂ (MEq c₁ c₂ ts) l₁ l₂ → setUpdatedFrom c₁ ts i l₁ ss = setUpdatedFrom c₂ ts i l₂ ss
  | _, [], [], ss, _ => by unfold setUpdatedFrom; rfl
  | _, a :: l₁, b :: l₂, [], _ => by unfold setUpdatedFrom; rfl
  | i, a :: l₁, b :: l₂, s :: ss, h => by
    cases h with
    | cons hab hl =>
      unfold setUpdatedFrom
      simp only [setEv, hab.2.1, hab.2.2, setUpdatedFrom_agree c₁ c₂ ts (i + 1) l₁ l₂ ss hl]

theorem runOpenFrom_agree (c₁ c₂ : Cfg) (sc : Script) (ts : Int) (row : Nat) : ∀ (i : Nat) (l₁ l₂ : List MarketCfg) (st : St),
    List.Forall₂ (MEq c₁ c₂ ts) l₁ l₂ → runOpenFrom sc ts row i l₁ st = runOpenFrom sc ts row i l₂ st
  | _, [], [], _, _ => rfl
  | i, a :: l₁, b :: l₂, st, h => by
    cases h with
    | cons hab hl =>
      simp only [runOpenFrom, hab.1]
      split
      · rw [runOpenFrom_agree c₁ c₂ sc ts row (i + 1) l₁ l₂ _ hl]
      · exact runOpenFrom_agree c₁ c₂ sc ts row (i + 1) l₁ l₂ st hl

theorem runUpdFrom_agree (sc : Script) (ts : Int) (row : Nat) : ∀ (i : Nat) (l₁ l₂ : List MarketCfg) (st : St),
    l₁.length = l₂.length → runUpdFrom sc ts row i l₁ st = runUpdFrom sc ts row i l₂ st
  | _, [], [], _, _ => rfl
  | _, [], _ :: _, _, h => by simp at h
  | _, _ :: _, [], _, h => by simp at h
  | i, _ :: l₁, _ :: l₂, st, h => by
    simp only [runUpdFrom]
    rw [runUpdFrom_agree sc ts row (i + 1) l₁ l₂ _ (by simpa using h)]

/-- one iteration of the loop consults the configuration only through the data of its own bar -/
theorem barStep_agree (c₁ c₂ : Cfg) (sc : Script) (row : Nat) (ts : Int) (st : St) (h : AgreeAt c₁ c₂ ts) :
    barStep c₁ sc row ts st = barStep c₂ sc row ts st := by
  obtain ⟨hp, hm⟩ := h
  have hlen : c₁.markets.length = c₂.markets.length := forall₂_len hm
  have hparts : ∀ price, barParts c₁ sc row ts st price = barParts c₂ sc row ts st price := by
    intro price
    simp only [barParts, setAllFrom_agree c₁ c₂ ts 1 0 _ _ hm, runOpenFrom_agree c₁ c₂ sc ts row 0 _ _ _ hm,
      setUpdatedFrom_agree c₁ c₂ ts 0 _ _ _ hm, runUpdFrom_agree sc ts row 0 _ _ _ hlen]
  unfold barStep
  rw [hp]
  cases priceAt c₂ ts with
  | none => rfl
  | some price => simp only [hparts price]

/-- the loop over the bars `bars` consults the configuration only through the data of those bars -/
theorem runBars_agree (c₁ c₂ : Cfg) (sc : Script) : ∀ (bars : List Int) (row : Nat) (st : St),
    (∀ t ∈ bars, AgreeAt c₁ c₂ t) → runBars c₁ sc row bars st = runBars c₂ sc row bars st
  | [], _, _, _ => rfl
  | ts :: bars, row, st, h => by
    have hs := barStep_agree c₁ c₂ sc row ts st (h ts (List.mem_cons_self ..))
    simp only [runBars, hs]
    cases (barStep c₂ sc row ts st).2.2 with
    | some e => rfl
    | none =>
      simp only []
      rw [runBars_agree c₁ c₂ sc bars (row + 1) _ (fun t ht => h t (List.mem_cons_of_mem _ ht))]

/-- the trace of the first bars does not depend on how many bars follow -/
theorem runBars_append (cfg : Cfg) (sc : Script) : ∀ (pre suf : List Int) (row : Nat) (st : St),
    (runBars cfg sc row pre st).2.2 = none →
    runBars cfg sc row (pre ++ suf) st =
      ((runBars cfg sc row pre st).1 ++ (runBars cfg sc (row + pre.length) suf (runBars cfg sc row pre st).2.1).1,
       (runBars cfg sc (row + pre.length) suf (runBars cfg sc row pre st).2.1).2.1,
       (runBars cfg sc (row + pre.length) suf (runBars cfg sc row pre st).2.1).2.2)
  | [], suf, row, st, _ => by simp [runBars]
  | ts :: pre, suf, row, st, h => by
    obtain ⟨h1, h2, h3⟩ := runBars_cons_ok h
    have ih := runBars_append cfg sc pre suf (row + 1) _ h2
    have e : row + 1 + pre.length = row + (ts :: pre).length := by simp; omega
    rw [h3]
    simp only [List.cons_append]
    rw [runBars]
    simp only [h1, ih, e, List.append_assoc]

end Demeter.Core
