/-
  Lemmas for C11: the risk figures in the exact context as plain sums over `_supplies` / `_borrows`, their signs
  for a well-formed portfolio, and the unfolding of the modelled user operations.
-/
import Proofs.Lemmas.AaveRiskStep
namespace Demeter.AaveRisk
open Demeter

/-- RiskParamsSane: the loan-to-value of every supplied token does not exceed its liquidation threshold (true for the
    risk tables under /repo/tests/aave_risk_parameters; re-checked by the harness on every run) -/
def Portfolio.Sane (p : Portfolio) : Prop := ∀ s ∈ p.supplies, s.row.ltv ≤ s.row.lt

/-- contribution of one supply to `Σ value × LT` -/
def gLt (s : Supply) : Rat := if s.coll then s.value NumCtx.exact * s.row.lt else 0
/-- contribution of one supply to `Σ value × LTV` -/
def gLtv (s : Supply) : Rat := if s.coll then s.value NumCtx.exact * s.row.ltv else 0
/-- contribution of one supply to the collateral value -/
def gColl (s : Supply) : Rat := if s.coll then s.value NumCtx.exact else 0

theorem weightedLt_sum (p : Portfolio) : weightedLt NumCtx.exact p = (p.supplies.map gLt).sum := by
  unfold weightedLt collaterals; rw [dsum_exact, sum_filter_map]; rfl

theorem weightedLtv_sum (p : Portfolio) : weightedLtv NumCtx.exact p = (p.supplies.map gLtv).sum := by
  unfold weightedLtv collaterals; rw [dsum_exact, sum_filter_map]; rfl

theorem totalCollateral_sum (p : Portfolio) : totalCollateral NumCtx.exact p = (p.supplies.map gColl).sum := by
  unfold totalCollateral collaterals; rw [dsum_exact, sum_filter_map]; rfl

theorem totalDebt_sum (p : Portfolio) : totalDebt NumCtx.exact p = (p.debts.map (fun d => d.value NumCtx.exact)).sum := by
  unfold totalDebt; rw [dsum_exact]

theorem totalSupply_sum (p : Portfolio) : totalSupply NumCtx.exact p = (p.supplies.map (fun s => s.value NumCtx.exact)).sum := by
  unfold totalSupply; rw [dsum_exact]

section signs
variable {p : Portfolio} (hwf : p.WF)
include hwf

theorem Portfolio.WF.gLt_nonneg {s : Supply} (hs : s ∈ p.supplies) : 0 ≤ gLt s := by
  unfold gLt; split
  · have := hwf.supply_value_nonneg hs; have := (hwf.sup s hs).2.1.lt_nonneg; positivity
  · exact le_refl _

theorem Portfolio.WF.gLtv_nonneg {s : Supply} (hs : s ∈ p.supplies) : 0 ≤ gLtv s := by
  unfold gLtv; split
  · have := hwf.supply_value_nonneg hs; have := (hwf.sup s hs).2.1.ltv_nonneg; positivity
  · exact le_refl _

theorem Portfolio.WF.gColl_nonneg {s : Supply} (hs : s ∈ p.supplies) : 0 ≤ gColl s := by
  unfold gColl; split
  · exact hwf.supply_value_nonneg hs
  · exact le_refl _

theorem Portfolio.WF.weightedLt_nonneg : 0 ≤ weightedLt NumCtx.exact p := by
  rw [weightedLt_sum]; exact sum_map_nonneg _ _ (fun s hs => hwf.gLt_nonneg hs)

theorem Portfolio.WF.weightedLtv_nonneg : 0 ≤ weightedLtv NumCtx.exact p := by
  rw [weightedLtv_sum]; exact sum_map_nonneg _ _ (fun s hs => hwf.gLtv_nonneg hs)

theorem Portfolio.WF.totalCollateral_nonneg : 0 ≤ totalCollateral NumCtx.exact p := by
  rw [totalCollateral_sum]; exact sum_map_nonneg _ _ (fun s hs => hwf.gColl_nonneg hs)

theorem Portfolio.WF.totalDebt_nonneg : 0 ≤ totalDebt NumCtx.exact p := by
  rw [totalDebt_sum]; exact sum_map_nonneg _ _ (fun d hd => hwf.debt_value_nonneg hd)

theorem Portfolio.WF.weightedLtv_le_weightedLt (hs : p.Sane) : weightedLtv NumCtx.exact p ≤ weightedLt NumCtx.exact p := by
  rw [weightedLtv_sum, weightedLt_sum]
  apply sum_map_le_sum_map
  intro s hsm
  unfold gLtv gLt
  split
  · have := hwf.supply_value_nonneg hsm
    exact mul_le_mul_of_nonneg_left (hs s hsm) this
  · exact le_refl _

end signs

/-- the health factor in the exact context: the Aave v3 definition -/
theorem healthFactor_exact (p : Portfolio) :
    healthFactor NumCtx.exact p =
      if totalDebt NumCtx.exact p = 0 then none else some (weightedLt NumCtx.exact p / totalDebt NumCtx.exact p) := rfl

theorem hf_ge_one_of_le {p : Portfolio} (hpos : 0 < totalDebt NumCtx.exact p)
    (h : totalDebt NumCtx.exact p ≤ weightedLt NumCtx.exact p) :
    ∃ x, healthFactor NumCtx.exact p = some x ∧ 1 ≤ x := by
  rw [healthFactor_exact, if_neg (ne_of_gt hpos)]
  exact ⟨_, rfl, by rw [le_div_iff₀ hpos]; linarith⟩

theorem hf_not_lt_one_of_le {p : Portfolio} (hnn : 0 ≤ totalDebt NumCtx.exact p)
    (h : totalDebt NumCtx.exact p ≤ weightedLt NumCtx.exact p) :
    (healthFactor NumCtx.exact p).ltB Gen.arHfLiqThreshold = false := by
  rw [healthFactor_exact]
  split
  · rfl
  · rename_i hne
    have hpos : 0 < totalDebt NumCtx.exact p := lt_of_le_of_ne hnn (Ne.symm hne)
    simp only [XRat.ltB, decide_eq_false_iff_not, not_lt]
    have hT : Gen.arHfLiqThreshold = 1 := rfl
    rw [hT, le_div_iff₀ hpos]; linarith

theorem le_of_hf_not_lt_one {p : Portfolio} (hnn : 0 ≤ totalDebt NumCtx.exact p)
    (h : (healthFactor NumCtx.exact p).ltB Gen.arHfLiqThreshold = false) :
    totalDebt NumCtx.exact p = 0 ∨ totalDebt NumCtx.exact p ≤ weightedLt NumCtx.exact p := by
  rw [healthFactor_exact] at h
  split at h
  · rename_i h0; exact Or.inl h0
  · rename_i hne
    right
    have hpos : 0 < totalDebt NumCtx.exact p := lt_of_le_of_ne hnn (Ne.symm hne)
    simp only [XRat.ltB, decide_eq_false_iff_not, not_lt] at h
    have hT : Gen.arHfLiqThreshold = 1 := rfl
    rw [hT, le_div_iff₀ hpos] at h; linarith

theorem hf_lt_one_of_lt {p : Portfolio} (hpos : 0 < totalDebt NumCtx.exact p)
    (h : weightedLt NumCtx.exact p < totalDebt NumCtx.exact p) :
    (healthFactor NumCtx.exact p).ltB Gen.arHfLiqThreshold = true := by
  rw [healthFactor_exact, if_neg (ne_of_gt hpos)]
  simp only [XRat.ltB, decide_eq_true_eq]
  have hT : Gen.arHfLiqThreshold = 1 := rfl
  rw [hT, div_lt_iff₀ hpos]; linarith

/-- Σ over the entries other than the one with `c`'s key -/
theorem sum_filter_ne {α : Type} (key : α → String) (g : α → Rat) {l : List α} (hn : (l.map key).Nodup) {c : α} (hc : c ∈ l) :
    ((l.filter (fun x => decide (key x ≠ key c))).map g).sum = (l.map g).sum - g c := by
  induction l with
  | nil => simp at hc
  | cons x r ih =>
    by_cases hk : key x = key c
    · have : x = c := eq_of_mem_of_key_eq key hn (by simp) hc hk
      subst this
      rw [List.map_cons, List.nodup_cons] at hn
      have hfil : r.filter (fun y => decide (key y ≠ key x)) = r := by
        rw [List.filter_eq_self]
        intro y hy
        simp only [ne_eq, decide_not, Bool.not_eq_eq_eq_not, Bool.not_true, decide_eq_false_iff_not]
        intro e
        exact hn.1 (e ▸ List.mem_map_of_mem (f := key) hy)
      rw [List.filter_cons_of_neg (by simp), hfil]
      simp
    · have hcr : c ∈ r := by
        rcases List.mem_cons.mp hc with rfl | h
        · exact absurd rfl hk
        · exact h
      rw [List.map_cons, List.nodup_cons] at hn
      rw [List.filter_cons_of_pos (by simp [hk])]
      simp only [List.map_cons, List.sum_cons]
      rw [ih hn.2 hcr]; ring

/-- `get_min_withdraw_kept_amount`'s loop: the weighted threshold of the *other* collaterals -/
theorem othersLt_exact {p : Portfolio} (hn : (p.supplies.map (·.tok)).Nodup) {s : Supply} (hs : s ∈ p.supplies) :
    othersLt NumCtx.exact p s.tok = weightedLt NumCtx.exact p - gLt s := by
  unfold othersLt collaterals
  rw [dsum_exact, weightedLt_sum, List.filter_filter, sum_filter_map]
  have h1 : (p.supplies.map (fun x => if (decide (x.tok ≠ s.tok) && x.coll) = true
        then NumCtx.exact.mul x.row.lt (x.value NumCtx.exact) else 0)).sum
      = ((p.supplies.filter (fun x => decide (Supply.tok x ≠ Supply.tok s))).map gLt).sum := by
    rw [sum_filter_map]
    congr 1
    apply List.map_congr_left
    intro x _
    unfold gLt
    by_cases h1 : x.tok = s.tok <;> by_cases h2 : x.coll = true <;> simp [h1, h2, mul_comm]
  rw [h1, sum_filter_ne Supply.tok gLt hn hs]

end Demeter.AaveRisk
