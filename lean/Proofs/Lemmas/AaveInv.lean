/-
  Inversion of accepted calls: what must have been true, and what the core looks like afterwards, when
  supply / borrow / withdraw / repay return normally.  (Any arithmetic context.)
-/
import Proofs.Lemmas.AaveReject2
namespace Demeter.Aave
open Demeter M

variable {cx : ACtx} {env : Env}

section
variable {α β : Type}

theorem bind_ok_inv {m : M α} {f : α → M β} {s s2 : St} {b : β} (h : (m >>= f) s = (.ok b, s2)) :
    ∃ a s1, m s = (.ok a, s1) ∧ f a s1 = (.ok b, s2) := by
  rw [run_bind] at h
  rcases hm : m s with ⟨r, s1⟩
  rw [hm] at h
  cases r with
  | ok a => exact ⟨a, s1, rfl, h⟩
  | error e => simp at h

theorem require_ok_inv {c : Bool} {e : Err} {s s' : St} {u : Unit} (h : M.require c e s = (.ok u, s')) :
    c = true ∧ s = s' := by
  cases c with
  | true => simp at h; exact ⟨rfl, h⟩
  | false => simp at h

theorem ofRes_ok_inv {r : Res α} {s s' : St} {a : α} (h : M.ofRes r s = (.ok a, s')) : r = .ok a ∧ s = s' := by
  simp only [run_ofRes, Prod.mk.injEq] at h
  exact ⟨h.1, h.2⟩

theorem queryPos_ok_inv {q : AList String SupplyInfo → AList String BorrowInfo → Res α} {s s' : St} {a : α}
    (h : M.queryPos q s = (.ok a, s')) : q s.supplies s.borrows = .ok a ∧ s = s' := by
  simp only [run_queryPos, Prod.mk.injEq] at h
  exact ⟨h.1, h.2⟩

theorem modify_ok_inv {g : St → St} {s s' : St} {u : Unit} (h : M.modify g s = (.ok u, s')) : g s = s' := by
  simp only [run_modify, Prod.mk.injEq] at h
  exact h.2

theorem pure_ok_inv {a b : α} {s s' : St} (h : (pure a : M α) s = (.ok b, s')) : a = b ∧ s = s' := by
  simp only [run_pure, Prod.mk.injEq, Except.ok.injEq] at h
  exact ⟨h.1, h.2⟩

/-- a computation that never changes the core, run to a normal end -/
theorem kcp_ok {c0 : Core} {m : M α} (hk : KCP c0 m) {s s' : St} {a : α} (hs : s.core = c0) (h : m s = (.ok a, s')) :
    s'.core = c0 := by
  have := hk s hs
  rw [h] at this; exact this

end

/-! ### supply -/

theorem divE_ok_eq {a b x : Rat} (h : divE cx a b = .ok x) : b ≠ 0 ∧ x = cx.div a b := by
  have hb := divE_ok_ne h
  unfold divE at h
  simp only [hb, if_false] at h
  cases h
  exact ⟨hb, rfl⟩

theorem walletDebit_ok_inv {s s' : St} {tok : String} {amount : Rat} {u : Unit}
    (h : walletDebit cx tok amount s = (.ok u, s')) :
    ∃ w', Wallet.debit cx.toNumCtx s.wallet tok amount false = .ok w' ∧ s' = { s with wallet := w' } := by
  unfold walletDebit at h
  split at h
  · rename_i w hw; exact ⟨w, hw, by cases h; rfl⟩
  · cases h
  · cases h

theorem checkCanCollateral_ok_inv {s s' : St} {tok : String} {coll : Bool} {u : Unit}
    (h : checkCanCollateral env tok coll s = (.ok u, s')) : s = s' := by
  unfold checkCanCollateral at h
  split at h
  · obtain ⟨_, s2, h2, h⟩ := bind_ok_inv h
    obtain ⟨_, rfl⟩ := ofRes_ok_inv h2
    exact (require_ok_inv h).2
  · exact (pure_ok_inv h).2

theorem checkFlag_ok_inv {s s' : St} {old : Option SupplyInfo} {coll : Bool} {u : Unit}
    (h : checkFlag old coll s = (.ok u, s')) : (∀ info, old = some info → info.coll = coll) ∧ s = s' := by
  unfold checkFlag at h
  cases old with
  | none => exact ⟨fun _ hi => (by cases hi), (pure_ok_inv h).2⟩
  | some i =>
    obtain ⟨hc, e⟩ := require_ok_inv h
    refine ⟨fun info hi => ?_, e⟩
    cases hi
    simpa using hc

theorem supply_inv {s s' : St} {tok : String} {amount : Rat} {coll : Bool}
    (h : supply cx env tok amount coll s = (.ok (), s')) :
    ∃ st w', env.isOpen = true ∧ amount > 0 ∧ env.statusOf tok = .ok st ∧ st.liqIdx ≠ 0 ∧
      (∀ info, AList.get? s.supplies tok = some info → info.coll = coll) ∧
      Wallet.debit cx.toNumCtx s.wallet tok amount false = .ok w' ∧
      s'.core = ⟨AList.set s.supplies tok (supplyEntry cx (AList.get? s.supplies tok) (cx.div amount st.liqIdx) coll st.liqIdx),
                 s.borrows, w',
                 s.actions ++ [.supply tok amount coll
                   (cx.mul (supplyEntry cx (AList.get? s.supplies tok) (cx.div amount st.liqIdx) coll st.liqIdx).base st.liqIdx)]⟩ := by
  unfold supply guardOpen at h
  obtain ⟨_, s1, h1, h⟩ := bind_ok_inv h
  obtain ⟨hopen, rfl⟩ := require_ok_inv h1
  obtain ⟨_, s1, h1, h⟩ := bind_ok_inv h
  obtain ⟨hpos, rfl⟩ := require_ok_inv h1
  have hpos' : amount > 0 := by simpa using hpos
  obtain ⟨_, s1, h1, h⟩ := bind_ok_inv h
  obtain rfl := checkCanCollateral_ok_inv h1
  obtain ⟨st, s1, h1, h⟩ := bind_ok_inv h
  obtain ⟨hst, rfl⟩ := ofRes_ok_inv h1
  obtain ⟨poolAmt, s1, h1, h⟩ := bind_ok_inv h
  obtain ⟨hpa, rfl⟩ := ofRes_ok_inv h1
  obtain ⟨hnz, hpa'⟩ := divE_ok_eq hpa
  obtain ⟨old, s1, h1, h⟩ := bind_ok_inv h
  obtain ⟨hold, rfl⟩ := queryPos_ok_inv h1
  have hold' : old = AList.get? s.supplies tok := by cases hold; rfl
  obtain ⟨_, s2, h1, h⟩ := bind_ok_inv h
  obtain ⟨hfl0, rfl⟩ := checkFlag_ok_inv h1
  have hfl : ∀ info, AList.get? s.supplies tok = some info → info.coll = coll :=
    fun info hi => hfl0 info (by rw [hold', hi])
  obtain ⟨_, s3, h1, h⟩ := bind_ok_inv h
  obtain ⟨w', hw', rfl⟩ := walletDebit_ok_inv h1
  obtain ⟨_, s3, h1, h⟩ := bind_ok_inv h
  have e1 := modify_ok_inv h1
  obtain ⟨_, s4, h2, h⟩ := bind_ok_inv h
  have e2 := modify_ok_inv h2
  have e3 := modify_ok_inv h
  refine ⟨st, w', hopen, hpos', hst, hnz, hfl, hw', ?_⟩
  rw [← e3, ← e2, ← e1, hold', hpa']
  rfl

/-! ### borrow -/

theorem borrow_inv {s s' : St} {tok : String} {amount? : Option Rat}
    (h : borrow cx env tok amount? s = (.ok (), s')) :
    ∃ amount st, env.isOpen = true ∧ amount > 0 ∧ (∀ a, amount? = some a → amount = a) ∧
      env.statusOf tok = .ok st ∧ st.varIdx ≠ 0 ∧
      s'.core = ⟨s.supplies,
                 AList.set s.borrows tok (borrowEntry cx (AList.get? s.borrows tok) (cx.div amount st.varIdx) st.varIdx),
                 Wallet.credit cx.toNumCtx s.wallet tok amount,
                 s.actions ++ [.borrow tok amount
                   (cx.mul (borrowEntry cx (AList.get? s.borrows tok) (cx.div amount st.varIdx) st.varIdx).base st.varIdx)]⟩ := by
  have hR := readInv_core (cx := cx) (env := env) s.core
  unfold borrow guardOpen at h
  obtain ⟨_, s1, h1, h⟩ := bind_ok_inv h
  obtain ⟨hopen, rfl⟩ := require_ok_inv h1
  obtain ⟨amount, s1, h1, h⟩ := bind_ok_inv h
  have ha : (∀ a, amount? = some a → amount = a) ∧ s1.core = s.core := by
    unfold borrowAmountOf at h1
    cases amount? with
    | some a =>
      obtain ⟨e, rfl⟩ := pure_ok_inv h1
      exact ⟨fun a' ha' => by cases ha'; exact e.symm, rfl⟩
    | none => exact ⟨fun a' ha' => (by cases ha'), kcp_ok (hR.toReadInv3.maxBorrowAmount tok) rfl h1⟩
  obtain ⟨ha, c1⟩ := ha
  obtain ⟨_, s2, h1, h⟩ := bind_ok_inv h
  obtain ⟨hpos, rfl⟩ := require_ok_inv h1
  have hpos' : amount > 0 := by simpa using hpos
  obtain ⟨st, s2, h1, h⟩ := bind_ok_inv h
  obtain ⟨hst, rfl⟩ := ofRes_ok_inv h1
  obtain ⟨r, s2, h1, h⟩ := bind_ok_inv h
  obtain ⟨_, rfl⟩ := ofRes_ok_inv h1
  obtain ⟨_, s2, h1, h⟩ := bind_ok_inv h
  obtain ⟨_, rfl⟩ := require_ok_inv h1
  obtain ⟨cv, s2, h1, h⟩ := bind_ok_inv h
  have c2 : s2.core = s.core := kcp_ok hR.cv c1 h1
  obtain ⟨_, s3, h1, h⟩ := bind_ok_inv h
  obtain ⟨_, rfl⟩ := require_ok_inv h1
  obtain ⟨ml, s3, h1, h⟩ := bind_ok_inv h
  have c3 : s3.core = s.core := kcp_ok hR.toReadInv3.maxLtv c2 h1
  obtain ⟨_, s4, h1, h⟩ := bind_ok_inv h
  obtain ⟨_, rfl⟩ := require_ok_inv h1
  obtain ⟨hf, s4, h1, h⟩ := bind_ok_inv h
  have c4 : s4.core = s.core := kcp_ok hR.toReadInv3.healthFactor c3 h1
  obtain ⟨_, s5, h1, h⟩ := bind_ok_inv h
  obtain ⟨_, rfl⟩ := require_ok_inv h1
  obtain ⟨p, s5, h1, h⟩ := bind_ok_inv h
  obtain ⟨_, rfl⟩ := ofRes_ok_inv h1
  obtain ⟨bv, s5, h1, h⟩ := bind_ok_inv h
  have c5 : s5.core = s.core := kcp_ok hR.bo c4 h1
  obtain ⟨needed, s6, h1, h⟩ := bind_ok_inv h
  obtain ⟨_, rfl⟩ := ofRes_ok_inv h1
  obtain ⟨_, s6, h1, h⟩ := bind_ok_inv h
  obtain ⟨_, rfl⟩ := require_ok_inv h1
  obtain ⟨base, s6, h1, h⟩ := bind_ok_inv h
  obtain ⟨hb, rfl⟩ := ofRes_ok_inv h1
  obtain ⟨hnz, hb'⟩ := divE_ok_eq hb
  obtain ⟨old, s6, h1, h⟩ := bind_ok_inv h
  obtain ⟨hold, rfl⟩ := queryPos_ok_inv h1
  have hold' : old = AList.get? s5.borrows tok := by cases hold; rfl
  obtain ⟨_, s6, h1, h⟩ := bind_ok_inv h
  have e1 := modify_ok_inv h1
  obtain ⟨_, s7, h2, h⟩ := bind_ok_inv h
  have e2 := modify_ok_inv h2
  have e3 := modify_ok_inv h
  refine ⟨amount, st, hopen, hpos', ha, hst, hnz, ?_⟩
  have q1 : s5.supplies = s.supplies := congrArg Core.supplies c5
  have q2 : s5.borrows = s.borrows := congrArg Core.borrows c5
  have q3 : s5.wallet = s.wallet := congrArg Core.wallet c5
  have q4 : s5.actions = s.actions := congrArg Core.actions c5
  rw [← e3, ← e2, ← e1, hold', hb']
  show (⟨s5.supplies, AList.set s5.borrows tok _, Wallet.credit cx.toNumCtx s5.wallet tok amount, s5.actions ++ _⟩ : Core) = _
  rw [q1, q2, q3, q4]

/-! ### `__sub_supply_amount`, `__sub_borrow_amount` -/

theorem subSupplyAmount_ok_inv {s s' : St} {tok : String} {amt nb : Rat} {info : SupplyInfo}
    (h : subSupplyAmount cx env tok amt s = (.ok nb, s')) (hg : AList.get? s.supplies tok = some info) :
    ∃ st, env.statusOf tok = .ok st ∧ st.liqIdx ≠ 0 ∧ nb = subBase cx info.base (cx.div amt st.liqIdx) ∧
      s' = (commitSubSupply tok info nb s).2 := by
  unfold subSupplyAmount at h
  obtain ⟨old, s1, h1, h⟩ := bind_ok_inv h
  obtain ⟨hold, rfl⟩ := queryPos_ok_inv h1
  have : old = some info := by cases hold; exact hg
  subst this
  dsimp only at h
  obtain ⟨st, s1, h1, h⟩ := bind_ok_inv h
  obtain ⟨hst, rfl⟩ := ofRes_ok_inv h1
  obtain ⟨d, s1, h1, h⟩ := bind_ok_inv h
  obtain ⟨hd, rfl⟩ := ofRes_ok_inv h1
  obtain ⟨hnz, rfl⟩ := divE_ok_eq hd
  obtain ⟨_, s1, h1, h⟩ := bind_ok_inv h
  obtain ⟨e1, e2⟩ := pure_ok_inv h
  refine ⟨st, hst, hnz, e1.symm, ?_⟩
  rw [← e2, ← modify_ok_inv h1, ← e1]
  rfl

theorem subBorrowAmount_ok_inv {s s' : St} {tok : String} {amt nb : Rat} {info : BorrowInfo}
    (h : subBorrowAmount cx env tok amt s = (.ok nb, s')) (hg : AList.get? s.borrows tok = some info) :
    ∃ st, env.statusOf tok = .ok st ∧ st.varIdx ≠ 0 ∧ nb = subBase cx info.base (cx.div amt st.varIdx) ∧
      s' = (commitSubBorrow tok info nb s).2 := by
  unfold subBorrowAmount at h
  obtain ⟨old, s1, h1, h⟩ := bind_ok_inv h
  obtain ⟨hold, rfl⟩ := queryPos_ok_inv h1
  have : old = some info := by cases hold; exact hg
  subst this
  dsimp only at h
  obtain ⟨st, s1, h1, h⟩ := bind_ok_inv h
  obtain ⟨hst, rfl⟩ := ofRes_ok_inv h1
  obtain ⟨d, s1, h1, h⟩ := bind_ok_inv h
  obtain ⟨hd, rfl⟩ := ofRes_ok_inv h1
  obtain ⟨hnz, rfl⟩ := divE_ok_eq hd
  obtain ⟨_, s1, h1, h⟩ := bind_ok_inv h
  obtain ⟨e1, e2⟩ := pure_ok_inv h
  refine ⟨st, hst, hnz, e1.symm, ?_⟩
  rw [← e2, ← modify_ok_inv h1, ← e1]
  rfl

/-! ### withdraw -/

theorem getSupply_ok_good {s s1 : St} (hs : Good cx env s) {tok : String} {sv : SupplyV}
    (h : getSupply cx env tok s = (.ok sv, s1)) :
    ∃ info st, AList.get? s.supplies tok = some info ∧ env.statusOf tok = .ok st ∧
      sv.amount = cx.mul info.base st.liqIdx ∧ s1.core = s.core := by
  obtain ⟨r1, _, _, _⟩ := reads_getSupply (cx := cx) (env := env) tok s hs
  rw [h] at r1
  dsimp only at r1
  have hc := kcp_ok ((readInv_core (cx := cx) (env := env) s.core).toReadInv3.getSupply tok) rfl h
  unfold specGetSupply at r1
  cases hg : AList.get? s.supplies tok with
  | none => rw [hg] at r1; cases r1
  | some info =>
    rw [hg] at r1
    unfold specSupplyOf at r1
    cases hst : env.statusOf tok with
    | error e => simp [optRes, hst, bind, Except.bind] at r1
    | ok st =>
      cases hv : supValOf cx env tok info with
      | error e => simp [optRes, hst, hv, bind, Except.bind] at r1
      | ok v =>
        simp only [optRes, hst, hv, bind, Except.bind, pure, Except.pure, Except.ok.injEq] at r1
        refine ⟨info, st, rfl, rfl, ?_, hc⟩
        rw [r1]

theorem kcp_checkWithdrawHf {c0 : Core} {tok : String} {info : SupplyInfo} (hg : AList.get? c0.supplies tok = some info)
    (amount idx : Rat) : KCP c0 (checkWithdrawHf cx env tok info amount idx) := by
  unfold checkWithdrawHf
  split
  · exact Inv.bind (Inv.ofRes _) (fun _ => Inv.bind (kcp_trial hg _) (fun _ => Inv.require _ _))
  · exact Inv.pure _

/-- `_supplies` after `__sub_supply_amount` left the scaled balance `nb` -/
def supAfterSub (sup : AList String SupplyInfo) (tok : String) (info : SupplyInfo) (nb : Rat) : AList String SupplyInfo :=
  if nb = 0 then AList.erase sup tok else AList.set sup tok { info with base := nb }

/-- `_borrows` after `__sub_borrow_amount` left the scaled balance `nb` -/
def borAfterSub (bor : AList String BorrowInfo) (tok : String) (info : BorrowInfo) (nb : Rat) : AList String BorrowInfo :=
  if nb = 0 then AList.erase bor tok else AList.set bor tok { info with base := nb }

theorem withdraw_inv {s s' : St} (hs : Good cx env s) {tok : String} {amount? : Option Rat}
    (h : withdraw cx env tok amount? s = (.ok (), s')) :
    ∃ st info amount nb, env.isOpen = true ∧ env.statusOf tok = .ok st ∧ st.liqIdx ≠ 0 ∧
      AList.get? s.supplies tok = some info ∧
      amount = amount?.getD (cx.mul info.base st.liqIdx) ∧ amount > 0 ∧ amount ≤ cx.mul info.base st.liqIdx ∧
      nb = subBase cx info.base (cx.div amount st.liqIdx) ∧
      s'.core = ⟨supAfterSub s.supplies tok info nb, s.borrows, Wallet.credit cx.toNumCtx s.wallet tok amount,
                 s.actions ++ [.withdraw tok amount (cx.mul nb st.liqIdx)]⟩ := by
  unfold withdraw guardOpen lookupSupply at h
  obtain ⟨_, s1, h1, h⟩ := bind_ok_inv h
  obtain ⟨hopen, rfl⟩ := require_ok_inv h1
  obtain ⟨st, s1, h1, h⟩ := bind_ok_inv h
  obtain ⟨hst, rfl⟩ := ofRes_ok_inv h1
  obtain ⟨sv, s1, h1, h⟩ := bind_ok_inv h
  obtain ⟨info, st', hg, hst', hamt, c1⟩ := getSupply_ok_good hs h1
  rw [hst] at hst'; cases hst'
  dsimp only at h
  rw [hamt] at h
  obtain ⟨_, s2, h1, h⟩ := bind_ok_inv h
  obtain ⟨hpos, rfl⟩ := require_ok_inv h1
  obtain ⟨_, s2, h1, h⟩ := bind_ok_inv h
  obtain ⟨hle, rfl⟩ := require_ok_inv h1
  obtain ⟨info2, s2, h1, h⟩ := bind_ok_inv h
  obtain ⟨hq, rfl⟩ := queryPos_ok_inv h1
  have q1 : s1.supplies = s.supplies := congrArg Core.supplies c1
  have : info = info2 := by
    rw [q1, hg] at hq; simp only [optRes] at hq; cases hq; rfl
  subst this
  obtain ⟨_, s2, h1, h⟩ := bind_ok_inv h
  have c2 : s2.core = s.core := kcp_ok (kcp_checkWithdrawHf (c0 := s.core) hg _ _) c1 h1
  obtain ⟨fin, s3, h1, h⟩ := bind_ok_inv h
  have q2 : s2.supplies = s.supplies := congrArg Core.supplies c2
  obtain ⟨st2, hst2, hnz, hfin, e3⟩ := subSupplyAmount_ok_inv h1 (by rw [q2]; exact hg)
  rw [hst] at hst2; cases hst2
  obtain ⟨_, s4, h1, h⟩ := bind_ok_inv h
  have e4 := modify_ok_inv h1
  obtain ⟨_, s5, h2, h⟩ := bind_ok_inv h
  have e5 := modify_ok_inv h2
  have e6 := modify_ok_inv h
  refine ⟨st, info, _, _, hopen, hst, hnz, hg, rfl, by simpa using hpos, by simpa using hle, rfl, ?_⟩
  rw [← e6, ← e5, ← e4, e3, hfin]
  have q3 : s2.borrows = s.borrows := congrArg Core.borrows c2
  have q4 : s2.wallet = s.wallet := congrArg Core.wallet c2
  have q5 : s2.actions = s.actions := congrArg Core.actions c2
  show (⟨supAfterSub s2.supplies tok info _, s2.borrows,
         Wallet.credit cx.toNumCtx s2.wallet tok _, s2.actions ++ _⟩ : Core) = _
  rw [q2, q3, q4, q5]

/-! ### repay -/

theorem getBorrow_ok_good {s s1 : St} (hs : Good cx env s) {tok : String} {bv : BorrowV}
    (h : getBorrow cx env tok s = (.ok bv, s1)) :
    ∃ info st, AList.get? s.borrows tok = some info ∧ env.statusOf tok = .ok st ∧
      bv.amount = cx.mul info.base st.varIdx ∧ s1.core = s.core ∧ Good cx env s1 := by
  obtain ⟨r1, g1, _, _⟩ := reads_getBorrow (cx := cx) (env := env) tok s hs
  rw [h] at r1 g1
  dsimp only at r1 g1
  have hc := kcp_ok ((readInv_core (cx := cx) (env := env) s.core).toReadInv3.getBorrow tok) rfl h
  unfold specGetBorrow at r1
  cases hg : AList.get? s.borrows tok with
  | none => rw [hg] at r1; cases r1
  | some info =>
    rw [hg] at r1
    unfold specBorrowOf at r1
    cases hst : env.statusOf tok with
    | error e => simp [optRes, hst, bind, Except.bind] at r1
    | ok st =>
      cases hv : borValOf cx env tok info with
      | error e => simp [optRes, hst, hv, bind, Except.bind] at r1
      | ok v =>
        simp only [optRes, hst, hv, bind, Except.bind, pure, Except.pure, Except.ok.injEq] at r1
        refine ⟨info, st, rfl, rfl, ?_, hc, g1⟩
        rw [r1]

theorem mem_keys_of_contains {ν : Type} {m : AList String ν} {k : String} (h : AList.contains m k = true) : k ∈ keys m := by
  obtain ⟨v, hv⟩ := aget_of_contains h
  exact aget_mem_keys hv

/-- a successful `repay_with_collateral` pre-check: the collateral token is supplied -/
theorem repayCollateralCap_ok_good {s s1 : St} (hs : Good cx env s) {tok ctok : String} {a0 p : Rat}
    (h : repayCollateralCap cx env tok ctok a0 s = (.ok p, s1)) : ∃ cinfo, AList.get? s.supplies ctok = some cinfo := by
  unfold repayCollateralCap at h
  obtain ⟨sv, s2, h1, h⟩ := bind_ok_inv h
  obtain ⟨r1, _, _, _⟩ := reads_suppliesView (cx := cx) (env := env) s hs
  rw [h1] at r1
  dsimp only at r1
  obtain ⟨_, s3, h2, h⟩ := bind_ok_inv h
  obtain ⟨hc, _⟩ := require_ok_inv h2
  have hk : ctok ∈ keys sv := mem_keys_of_contains hc
  rw [scratchMap_keys r1.symm] at hk
  exact aget_some_of_mem_keys hk

theorem repay_inv {s s' : St} (hs : Good cx env s) {tok : String} {amount? : Option Rat} {withColl : Bool}
    {collTok? : Option String} (h : repay cx env tok amount? withColl collTok? s = (.ok (), s')) :
    ∃ st info payback nb, env.isOpen = true ∧ env.statusOf tok = .ok st ∧ st.varIdx ≠ 0 ∧
      AList.get? s.borrows tok = some info ∧
      (withColl = false → payback = amount?.getD (cx.mul info.base st.varIdx)) ∧
      cx.div payback st.varIdx > 0 ∧
      nb = subBase cx info.base (cx.div payback st.varIdx) ∧
      (withColl = false → ∃ w', Wallet.debit cx.toNumCtx s.wallet tok payback false = .ok w' ∧
        s'.core = ⟨s.supplies, borAfterSub s.borrows tok info nb, w',
                   s.actions ++ [.repay tok payback (cx.mul nb st.varIdx)]⟩) ∧
      (withColl = true → ∃ cinfo cst inColl cnb, AList.get? s.supplies (collTok?.getD tok) = some cinfo ∧
        env.statusOf (collTok?.getD tok) = .ok cst ∧ cst.liqIdx ≠ 0 ∧
        swapAmount cx env tok (collTok?.getD tok) payback = .ok inColl ∧
        cnb = subBase cx cinfo.base (cx.div inColl cst.liqIdx) ∧
        s'.core = ⟨supAfterSub s.supplies (collTok?.getD tok) cinfo cnb, borAfterSub s.borrows tok info nb, s.wallet,
                   s.actions ++ [.repay tok payback (cx.mul nb st.varIdx)]⟩) := by
  have hR := readInv_core (cx := cx) (env := env) s.core
  unfold repay guardOpen lookupBorrow at h
  obtain ⟨_, s1, h1, h⟩ := bind_ok_inv h
  obtain ⟨hopen, rfl⟩ := require_ok_inv h1
  obtain ⟨st, s1, h1, h⟩ := bind_ok_inv h
  obtain ⟨hst, rfl⟩ := ofRes_ok_inv h1
  obtain ⟨bv, s1, h1, h⟩ := bind_ok_inv h
  obtain ⟨info, st', hg, hst', hamt, c1, g1⟩ := getBorrow_ok_good hs h1
  rw [hst] at hst'; cases hst'
  dsimp only at h
  rw [hamt] at h
  obtain ⟨payback, s2, h1, h⟩ := bind_ok_inv h
  have hpb : (withColl = false → payback = amount?.getD (cx.mul info.base st.varIdx)) ∧ s2.core = s.core ∧
      (withColl = true → ∃ cinfo, AList.get? s.supplies (collTok?.getD tok) = some cinfo) := by
    unfold repayAmountOf at h1
    cases withColl with
    | false =>
      simp only [Bool.false_eq_true, if_false] at h1
      obtain ⟨e, rfl⟩ := pure_ok_inv h1
      exact ⟨fun _ => e.symm, c1, fun hc => (by cases hc)⟩
    | true =>
      simp only [if_true] at h1
      refine ⟨fun hc => (by cases hc), ?_, fun _ => ?_⟩
      · have hk : KCP s.core (repayCollateralCap cx env tok (collTok?.getD tok) (amount?.getD (cx.mul info.base st.varIdx))) := by
          have h4 : KCP s.core (suppliesView cx env) := hR.su
          have h6 : ∀ k, KCP s.core (getSupply cx env k) := fun k => hR.toReadInv3.getSupply k
          unfold repayCollateralCap
          repeat (first | exact h6 _ | inv_step)
        exact kcp_ok hk c1 h1
      · obtain ⟨cinfo, hci⟩ := repayCollateralCap_ok_good g1 h1
        have q : s1.supplies = s.supplies := congrArg Core.supplies c1
        rw [q] at hci
        exact ⟨cinfo, hci⟩
  obtain ⟨hpay, c2, hcoll⟩ := hpb
  obtain ⟨pbBase, s3, h1, h⟩ := bind_ok_inv h
  obtain ⟨hpbb, rfl⟩ := ofRes_ok_inv h1
  obtain ⟨hnz, rfl⟩ := divE_ok_eq hpbb
  obtain ⟨_, s3, h1, h⟩ := bind_ok_inv h
  obtain ⟨hpos, rfl⟩ := require_ok_inv h1
  obtain ⟨info2, s3, h1, h⟩ := bind_ok_inv h
  obtain ⟨hq, rfl⟩ := queryPos_ok_inv h1
  have q2b : s2.borrows = s.borrows := congrArg Core.borrows c2
  have : info = info2 := by
    rw [q2b, hg] at hq; simp only [optRes] at hq; cases hq; rfl
  subst this
  obtain ⟨_, s3, h1, h⟩ := bind_ok_inv h
  obtain ⟨_, rfl⟩ := require_ok_inv h1
  obtain ⟨rr, s3, h1, h⟩ := bind_ok_inv h
  obtain ⟨_, rfl⟩ := ofRes_ok_inv h1
  obtain ⟨_, s3, h1, h⟩ := bind_ok_inv h
  obtain ⟨_, rfl⟩ := require_ok_inv h1
  obtain ⟨_, s3, h1, h⟩ := bind_ok_inv h
  obtain ⟨debt, s4, h2, h⟩ := bind_ok_inv h
  obtain ⟨_, s5, h3, h⟩ := bind_ok_inv h
  have e5 := modify_ok_inv h3
  have e6 := modify_ok_inv h
  have q2s : s2.supplies = s.supplies := congrArg Core.supplies c2
  have q2w : s2.wallet = s.wallet := congrArg Core.wallet c2
  have q2a : s2.actions = s.actions := congrArg Core.actions c2
  refine ⟨st, info, payback, _, hopen, hst, hnz, hg, hpay, by simpa using hpos, rfl, ?_, ?_⟩
  · intro hw
    subst hw
    unfold takeRepayment at h1
    simp only [Bool.false_eq_true, if_false] at h1
    obtain ⟨w', hw', rfl⟩ := walletDebit_ok_inv h1
    obtain ⟨st2, hst2, _, hdebt, e4⟩ := subBorrowAmount_ok_inv h2 (show AList.get? s2.borrows tok = some info by rw [q2b]; exact hg)
    rw [hst] at hst2; cases hst2
    refine ⟨w', by rw [← q2w]; exact hw', ?_⟩
    rw [← e6, ← e5, e4, hdebt]
    show (⟨s2.supplies, borAfterSub s2.borrows tok info _, w', s2.actions ++ _⟩ : Core) = _
    rw [q2s, q2b, q2a]
  · intro hw
    subst hw
    obtain ⟨cinfo, hci⟩ := hcoll rfl
    unfold takeRepayment at h1
    simp only [if_true] at h1
    obtain ⟨inColl, s6, h4, h1⟩ := bind_ok_inv h1
    obtain ⟨hsw, rfl⟩ := ofRes_ok_inv h4
    obtain ⟨cnb, s6, h4, h1⟩ := bind_ok_inv h1
    obtain ⟨_, rfl⟩ := pure_ok_inv h1
    obtain ⟨cst, hcst, hcnz, hcnb, e3⟩ := subSupplyAmount_ok_inv h4 (show AList.get? s2.supplies _ = some cinfo by rw [q2s]; exact hci)
    have hb3 : s6.borrows = s2.borrows := by rw [e3]; rfl
    obtain ⟨st2, hst2, _, hdebt, e4⟩ := subBorrowAmount_ok_inv h2 (show AList.get? s6.borrows tok = some info by rw [hb3, q2b]; exact hg)
    rw [hst] at hst2; cases hst2
    refine ⟨cinfo, cst, inColl, cnb, hci, hcst, hcnz, hsw, hcnb, ?_⟩
    rw [← e6, ← e5, e4, hdebt, e3]
    show (⟨supAfterSub s2.supplies _ cinfo cnb, borAfterSub s2.borrows tok info _, s2.wallet, s2.actions ++ _⟩ : Core) = _
    rw [q2s, q2b, q2w, q2a]

end Demeter.Aave
