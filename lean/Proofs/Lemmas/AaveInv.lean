/-
  Inversion of accepted calls: what must have been true, and what the core looks like afterwards, when
  supply / borrow / withdraw / repay return normally.  (Any arithmetic context.)
-/
import Proofs.Lemmas.AaveReject2
namespace Demeter.Aave
open Demeter M

variable {cx : ACtx} {env : Env}

section
variable {α β : Type}

theorem bind_ok_inv {m : M α} {f : α → M β} {s s2 : St} {b : β} (h : (m >>= f) s = (.ok b, s2)) :
    ∃ a s1, m s = (.ok a, s1) ∧ f a s1 = (.ok b, s2) := by
  rw [run_bind] at h
  rcases hm : m s with ⟨r, s1⟩
  rw [hm] at h
  cases r with
  | ok a => exact ⟨a, s1, rfl, h⟩
  | error e => simp at h

theorem require_ok_inv {c : Bool} {e : Err} {s s' : St} {u : Unit} (h : M.require c e s = (.ok u, s')) :
    c = true ∧ s' = s := by
  cases c with
  | true => simp at h; exact ⟨rfl, h.symm⟩
  | false => simp at h

theorem ofRes_ok_inv {r : Res α} {s s' : St} {a : α} (h : M.ofRes r s = (.ok a, s')) : r = .ok a ∧ s' = s := by
  simp only [run_ofRes, Prod.mk.injEq] at h
  exact ⟨h.1, h.2.symm⟩

theorem queryPos_ok_inv {q : AList String SupplyInfo → AList String BorrowInfo → Res α} {s s' : St} {a : α}
    (h : M.queryPos q s = (.ok a, s')) : q s.supplies s.borrows = .ok a ∧ s' = s := by
  simp only [run_queryPos, Prod.mk.injEq] at h
  exact ⟨h.1, h.2.symm⟩

theorem modify_ok_inv {g : St → St} {s s' : St} {u : Unit} (h : M.modify g s = (.ok u, s')) : s' = g s := by
  simp only [run_modify, Prod.mk.injEq] at h
  exact h.2.symm

theorem pure_ok_inv {a b : α} {s s' : St} (h : (pure a : M α) s = (.ok b, s')) : b = a ∧ s' = s := by
  simp only [run_pure, Prod.mk.injEq, Except.ok.injEq] at h
  exact ⟨h.1.symm, h.2.symm⟩

/-- a computation that never changes the core, run to a normal end -/
theorem kcp_ok {c0 : Core} {m : M α} (hk : KCP c0 m) {s s' : St} {a : α} (hs : s.core = c0) (h : m s = (.ok a, s')) :
    s'.core = c0 := by
  have := hk s hs
  rw [h] at this; exact this

end

/-! ### supply -/

/-- the entry `supply` writes -/
def supplyEntry (cx : ACtx) (old : Option SupplyInfo) (poolAmt : Rat) (coll : Bool) (idx : Rat) : SupplyInfo :=
  match old with
  | some info => { info with base := cx.add info.base poolAmt }
  | none => { base := cx.add 0 poolAmt, coll := coll, beginIdx := idx }

theorem supply_inv {s s' : St} {tok : String} {amount : Rat} {coll : Bool}
    (h : supply cx env tok amount coll s = (.ok (), s')) :
    ∃ st w', env.isOpen = true ∧ amount > 0 ∧ env.statusOf tok = .ok st ∧ st.liqIdx ≠ 0 ∧
      (∀ info, AList.get? s.supplies tok = some info → info.coll = coll) ∧
      Wallet.debit cx.toNumCtx s.wallet tok amount false = .ok w' ∧
      s'.core = ⟨AList.set s.supplies tok (supplyEntry cx (AList.get? s.supplies tok) (cx.div amount st.liqIdx) coll st.liqIdx),
                 s.borrows, w',
                 s.actions ++ [.supply tok amount coll
                   (cx.mul (supplyEntry cx (AList.get? s.supplies tok) (cx.div amount st.liqIdx) coll st.liqIdx).base st.liqIdx)]⟩ := by
  unfold supply guardOpen at h
  obtain ⟨_, s1, h1, h⟩ := bind_ok_inv h
  obtain ⟨hopen, rfl⟩ := require_ok_inv h1
  obtain ⟨_, s1, h1, h⟩ := bind_ok_inv h
  obtain ⟨hpos, rfl⟩ := require_ok_inv h1
  have hpos' : amount > 0 := by simpa using hpos
  -- the optional collateral-capability check leaves the state alone
  have key : ∀ s0, (do
      let st ← ofRes (env.statusOf tok)
      let poolAmt ← ofRes (divE cx amount st.liqIdx)
      let old ← queryPos (fun sup _ => .ok (AList.get? sup tok))
      match old with
        | some info => require (info.coll == coll) .flagMismatch
        | none => pure ()
      walletDebit cx tok amount
      let info : SupplyInfo := match old with
        | some info => { info with base := cx.add info.base poolAmt }
        | none => { base := cx.add 0 poolAmt, coll := coll, beginIdx := st.liqIdx }
      commitSupply tok info
      record (.supply tok amount coll (cx.mul info.base st.liqIdx))
      setUpdated : M Unit) s0 = (.ok (), s') → s0 = s → _ := by
    intro s0 h hs0
    subst hs0
    obtain ⟨st, s1, h1, h⟩ := bind_ok_inv h
    obtain ⟨hst, rfl⟩ := ofRes_ok_inv h1
    obtain ⟨poolAmt, s1, h1, h⟩ := bind_ok_inv h
    obtain ⟨hpa, rfl⟩ := ofRes_ok_inv h1
    have hnz : st.liqIdx ≠ 0 := divE_ok_ne hpa
    have hpa' : poolAmt = cx.div amount st.liqIdx := by
      unfold divE at hpa; simp only [hnz, if_false] at hpa; cases hpa; rfl
    obtain ⟨old, s1, h1, h⟩ := bind_ok_inv h
    obtain ⟨hold, rfl⟩ := queryPos_ok_inv h1
    have hold' : old = AList.get? s0.supplies tok := by cases hold; rfl
    obtain ⟨_, s1, h1, h⟩ := bind_ok_inv h
    have hflag : (∀ info, AList.get? s0.supplies tok = some info → info.coll = coll) ∧ s1 = s0 := by
      cases hoc : old with
      | none =>
        rw [hoc] at h1
        obtain ⟨_, rfl⟩ := pure_ok_inv h1
        refine ⟨fun info hi => ?_, rfl⟩
        rw [← hold', hoc] at hi; cases hi
      | some i =>
        rw [hoc] at h1
        obtain ⟨hc, rfl⟩ := require_ok_inv h1
        refine ⟨fun info hi => ?_, rfl⟩
        rw [← hold', hoc] at hi; cases hi
        simpa using hc
    obtain ⟨hfl, rfl⟩ := hflag
    obtain ⟨_, s1, h1, h⟩ := bind_ok_inv h
    have hw : ∃ w', Wallet.debit cx.toNumCtx s0.wallet tok amount false = .ok w' ∧ s1 = { s0 with wallet := w' } := by
      unfold walletDebit at h1
      split at h1
      · rename_i w hw; exact ⟨w, hw, by cases h1; rfl⟩
      · cases h1
      · cases h1
    obtain ⟨w', hw', rfl⟩ := hw
    obtain ⟨_, s1, h1, h⟩ := bind_ok_inv h
    have e1 := modify_ok_inv h1
    obtain ⟨_, s2, h2, h⟩ := bind_ok_inv h
    have e2 := modify_ok_inv h2
    have e3 := modify_ok_inv h
    refine ⟨st, w', hst, hnz, hfl, hw', ?_⟩
    rw [e3, e2, e1, hold', hpa']
    rfl
  dsimp only at h
  split at h
  · obtain ⟨r, s1, h1, h⟩ := bind_ok_inv h
    obtain ⟨_, rfl⟩ := ofRes_ok_inv h1
    obtain ⟨_, s1, h1, h⟩ := bind_ok_inv h
    obtain ⟨_, rfl⟩ := require_ok_inv h1
    obtain ⟨st, w', x⟩ := key _ h rfl
    exact ⟨st, w', hopen, hpos', x⟩
  · obtain ⟨st, w', x⟩ := key _ h rfl
    exact ⟨st, w', hopen, hpos', x⟩

end Demeter.Aave
