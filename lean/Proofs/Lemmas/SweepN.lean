/-
  Binary-splitting exhaustive checker over a `Nat` interval, with its soundness lemma; and the two per-tick
  predicates the TickMath sweeps evaluate in the kernel (`decide +kernel`, no `native_decide`).
-/
import Demeter.Gen.TickTable
namespace Demeter
open Gen

def chkN (p : Nat → Bool) (lo : Nat) : Nat → Bool
  | 0 => p lo
  | d + 1 => chkN p lo d && chkN p (lo + 2 ^ d) d

theorem chkN_sound (p : Nat → Bool) : ∀ (d lo : Nat), chkN p lo d = true →
    ∀ t, lo ≤ t → t < lo + 2 ^ d → p t = true := by
  intro d
  induction d with
  | zero =>
    intro lo h t h1 h2
    have : t = lo := by simp at h2; omega
    subst this; simpa [chkN] using h
  | succ d ih =>
    intro lo h t h1 h2
    simp only [chkN, Bool.and_eq_true] at h
    have hp : 2 ^ (d + 1) = 2 ^ d + 2 ^ d := by rw [Nat.pow_succ]; omega
    by_cases hlt : t < lo + 2 ^ d
    · exact ih lo h.1 t h1 hlt
    · exact ih _ h.2 t (by omega) (by omega)

/-- strict monotonicity at |tick| = a on both sides (vacuous beyond the last tick pair) -/
def monoPred (a : Nat) : Bool :=
  Nat.ble tickBound a ||
    (Nat.blt (sqrtNegU (a + 1)) (sqrtNegU a) && Nat.blt (sqrtPosU a) (sqrtPosU (a + 1)))

/-- reciprocity of the Q96 values at ±a: `|s(−a)·s(a) − 2^192| ≤ 2·max(s(−a), s(a))` -/
def recipPred (a : Nat) : Bool :=
  Nat.blt tickBound a ||
    (let n := sqrtNegU a
     let p := sqrtPosU a
     let m := Nat.add (Nat.mul 2 (if Nat.ble n p then p else n)) 0
     Nat.ble (Nat.mul n p) (Nat.add 6277101735386680763835789423207666416102355444464034512896 m) &&
     Nat.ble 6277101735386680763835789423207666416102355444464034512896 (Nat.add (Nat.mul n p) m))

def sweepPred (a : Nat) : Bool := monoPred a && recipPred a

def shardBits : Nat := 15
def shardCount : Nat := 28

end Demeter
