/-
  Helper lemmas for the Squeeth proofs: association lists, `Res.andThen`, the transaction wrapper.
-/
import Demeter.Squeeth
import Demeter.Squeeth.Views
import Proofs.Lemmas.Exact
namespace Demeter.Squeeth
open Demeter

/-! ### association lists -/
section alist
variable {κ ν : Type} [DecidableEq κ]

theorem get?_nil (k : κ) : AList.get? ([] : AList κ ν) k = none := rfl

theorem get?_cons (a : κ × ν) (m : AList κ ν) (k : κ) :
    AList.get? (a :: m) k = if a.1 = k then some a.2 else AList.get? m k := by
  unfold AList.get?
  by_cases h : a.1 = k <;> simp [List.find?, h]

theorem get?_set_self (m : AList κ ν) (k : κ) (v : ν) : AList.get? (AList.set m k v) k = some v := by
  induction m with
  | nil => simp [AList.set, get?_cons]
  | cons a m ih =>
    obtain ⟨k', v'⟩ := a
    unfold AList.set
    by_cases h : k' = k
    · simp [h, get?_cons]
    · simp [h, get?_cons, ih]

theorem get?_set_other (m : AList κ ν) (k k' : κ) (v : ν) (h : k' ≠ k) :
    AList.get? (AList.set m k v) k' = AList.get? m k' := by
  induction m with
  | nil => simp [AList.set, get?_cons, get?_nil, Ne.symm h]
  | cons a m ih =>
    obtain ⟨k₁, v₁⟩ := a
    unfold AList.set
    by_cases h1 : k₁ = k
    · subst h1; simp [get?_cons, Ne.symm h]
    · simp only [h1, if_false, get?_cons]; rw [ih]

theorem mem_of_get? {m : AList κ ν} {k : κ} {v : ν} (h : AList.get? m k = some v) : (k, v) ∈ m := by
  induction m with
  | nil => simp [get?_nil] at h
  | cons a m ih =>
    rw [get?_cons] at h
    by_cases h1 : a.1 = k
    · simp [h1] at h; subst h; subst h1; simp
    · simp [h1] at h; exact List.mem_cons_of_mem _ (ih h)

theorem mem_set {m : AList κ ν} {k : κ} {v : ν} {a : κ × ν} (h : a ∈ AList.set m k v) : a = (k, v) ∨ a ∈ m := by
  induction m with
  | nil => simp [AList.set] at h; exact Or.inl h
  | cons b m ih =>
    obtain ⟨k', v'⟩ := b
    unfold AList.set at h
    by_cases h1 : k' = k
    · simp [h1] at h
      rcases h with h | h
      · exact Or.inl h
      · exact Or.inr (List.mem_cons_of_mem _ h)
    · simp [h1] at h
      rcases h with h | h
      · exact Or.inr (by rw [h]; simp)
      · rcases ih h with h2 | h2
        · exact Or.inl h2
        · exact Or.inr (List.mem_cons_of_mem _ h2)

theorem mem_erase {m : AList κ ν} {k : κ} {a : κ × ν} (h : a ∈ AList.erase m k) : a ∈ m := by
  unfold AList.erase at h
  exact (List.mem_filter.mp h).1

/-- every value of the map satisfies `P` -/
def AllVals (P : ν → Prop) (m : AList κ ν) : Prop := ∀ a ∈ m, P a.2

theorem AllVals.set {P : ν → Prop} {m : AList κ ν} (h : AllVals P m) (k : κ) {v : ν} (hv : P v) :
    AllVals P (AList.set m k v) := by
  intro a ha
  rcases mem_set ha with h1 | h1
  · rw [h1]; exact hv
  · exact h a h1

theorem AllVals.erase {P : ν → Prop} {m : AList κ ν} (h : AllVals P m) (k : κ) : AllVals P (AList.erase m k) :=
  fun a ha => h a (mem_erase ha)

theorem AllVals.get {P : ν → Prop} {m : AList κ ν} (h : AllVals P m) {k : κ} {v : ν}
    (hg : AList.get? m k = some v) : P v := h (k, v) (mem_of_get? hg)

theorem keys_set_of_mem (m : AList κ ν) (k : κ) (v v' : ν) (h : AList.get? m k = some v') :
    (AList.set m k v).map (·.1) = m.map (·.1) := by
  induction m with
  | nil => simp [get?_nil] at h
  | cons a m ih =>
    obtain ⟨k₁, v₁⟩ := a
    unfold AList.set
    by_cases h1 : k₁ = k
    · simp [h1]
    · rw [get?_cons] at h
      simp only [h1, if_false] at h
      simp [h1, ih h]

end alist

/-! ### results -/

@[simp] theorem Res.ok_err (s : State) (o : List Rat) : (Res.ok s o).err = none := rfl
@[simp] theorem Res.ok_st (s : State) (o : List Rat) : (Res.ok s o).st = s := rfl
@[simp] theorem Res.fail_err (e : Err) (s : State) : (Res.fail e s).err = some e := rfl
@[simp] theorem Res.fail_st (e : Err) (s : State) : (Res.fail e s).st = s := rfl

theorem Res.andThen_ok {r : Res} {f : State → Res} (h : (r.andThen f).err = none) :
    r.err = none ∧ (f r.st).err = none ∧ r.andThen f = f r.st := by
  unfold Res.andThen at h ⊢
  cases hr : r.err with
  | some e => simp [hr] at h
  | none => simp [hr] at h ⊢; exact h

theorem Res.andThen_of_ok {r : Res} (f : State → Res) (h : r.err = none) : r.andThen f = f r.st := by
  unfold Res.andThen; simp [h]

theorem Res.andThen_of_err {r : Res} (f : State → Res) {e : Err} (h : r.err = some e) : r.andThen f = r := by
  unfold Res.andThen; simp [h]

/-- the transaction wrapper: a rejected operation returns the state it started from -/
theorem atomic_rejected (s : State) (r : Res) (h : (atomic s r).err ≠ none) : (atomic s r).st = s := by
  unfold atomic at h ⊢
  cases hr : r.err with
  | some e => simp
  | none => simp [hr] at h

theorem atomic_ok {s : State} {r : Res} (h : (atomic s r).err = none) : r.err = none ∧ atomic s r = r := by
  unfold atomic at h ⊢
  cases hr : r.err with
  | some e => simp [hr] at h
  | none => simp

theorem atomic_err (s : State) (r : Res) : (atomic s r).err = r.err := by
  unfold atomic
  cases hr : r.err <;> simp [hr]

theorem checked_ok {cx : NumCtx} {e : Env} {s : State} {vk : Nat} {o : List Rat}
    (h : (checked cx e s vk o).err = none) :
    vaultStatus cx e s vk = .ok (true, false) ∧ (checked cx e s vk o).st = s := by
  unfold checked checkVault at h ⊢
  cases hv : vaultStatus cx e s vk with
  | error er => simp [hv] at h
  | ok p =>
    obtain ⟨safe, dust⟩ := p
    cases safe <;> cases dust <;> simp [hv] at h ⊢

end Demeter.Squeeth
