/-
  Lemmas about Demeter.Actuator (builder `core`), part 6: projections of the whole trace onto the loop; the trigger part of a
  run is `trigRun`.
-/
import Proofs.Lemmas.CoreActuator5
namespace Demeter.Core

/-- a projection of a loop phase (3..15) sees, of the whole trace, only the loop's part -/
theorem core_run_fm_loop {α : Type} (P : Ev → Option α) (c : Nat) (hP : ∀ e, (P e).isSome → e.phase = c)
    (hc : 3 ≤ c ∧ c ≤ 15) (cfg : Cfg) (trigs : List Trig) (sc : Script) (h : (run cfg trigs sc).err = none) :
    ∃ ts0 bars, barIndex cfg = ts0 :: bars ∧ (loopRun cfg trigs sc ts0 bars).2.2 = none ∧
      (run cfg trigs sc).trace.filterMap P = (loopRun cfg trigs sc ts0 bars).1.filterMap P ∧
      (run cfg trigs sc).trigsLeft = (loopRun cfg trigs sc ts0 bars).2.1.trigs := by
  obtain ⟨ts0, bars, hb, _, _, hl, htr, _, _, hleft⟩ := run_ok h
  refine ⟨ts0, bars, hb, hl, ?_, hleft⟩
  rw [htr]
  have k0 := fm_nil_of_allAt hP (setAllFrom_at cfg ts0 0 0 cfg.markets) (c' := stagePhase 0) (by simp [stagePhase]; omega)
  have k2 : List.filterMap P (initRun cfg trigs sc ts0).1 = [] :=
    fm_nil_of_allAt hP (runOps_at ts0 .init sc.init (initSt cfg trigs ts0)) (by simp [Hook.phase]; omega)
  have k1 : P (Ev.initialize ts0) = none := by
    cases hq : P (Ev.initialize ts0) with
    | none => rfl
    | some x => have := hP _ (by rw [hq]; rfl); simp [Ev.phase] at this; omega
  have k3 : P (Ev.finalize ((ts0 :: bars).getLast?.getD ts0)) = none := by
    cases hq : P (Ev.finalize ((ts0 :: bars).getLast?.getD ts0)) with
    | none => rfl
    | some x => have := hP _ (by rw [hq]; rfl); simp [Ev.phase] at this; omega
  simp only [List.filterMap_append, List.filterMap_cons, k0, k1, k2, k3, List.nil_append, List.filterMap_nil, List.append_nil]

/-- the trigger part of a run that ends normally is `trigRun` over the bar index -/
theorem core_run_trig (cfg : Cfg) (trigs : List Trig) (sc : Script) (h : (run cfg trigs sc).err = none) :
    (run cfg trigs sc).trace.filterMap fireOfEv = (trigRun (barIndex cfg) trigs).1 ∧
    (run cfg trigs sc).trigsLeft = (trigRun (barIndex cfg) trigs).2.1 ∧
    (trigRun (barIndex cfg) trigs).2.2 = none := by
  obtain ⟨ts0, bars, hb, hl, htr, hleft⟩ := core_run_fm_loop fireOfEv 6 fireOfEv_phase (by omega) cfg trigs sc h
  obtain ⟨r1, r2, r3⟩ := runBars_trig cfg sc (ts0 :: bars) 0 _ hl
  have ht : (initRun cfg trigs sc ts0).2.trigs = trigs := (runOps_frame ts0 .init sc.init (initSt cfg trigs ts0)).2.1
  rw [ht] at r1 r2 r3
  rw [htr, hleft, hb]
  exact ⟨r1, r2, r3⟩

end Demeter.Core
