/-
  Non-vacuity of the hypotheses of C06 (e): a concrete arithmetic (`demoTn`) that satisfies `Exact`, `Approx _ 10⁻⁹`
  and `LgSound _ 10⁻⁹` simultaneously: no rounding of `+ − × ÷`, exact `** 2`, exact powers of ten, a square root
  computed with `Nat.sqrt` on a 10-digit scaling (exact on perfect squares, relative error ≤ 10⁻¹⁰ otherwise) and the
  true floor logarithm (which exists by the Archimedean property).
-/
import Proofs.Lemmas.TickInv
import Mathlib.Algebra.Order.Archimedean.Basic
import Mathlib.Data.Nat.Sqrt
namespace Demeter.TickInv
open Demeter Gen

def demoK : Nat := 10000000000

/-- `√(n/d) ≈ ⌊√(n·d·K²)⌋ / (d·K)` -/
def demoSqrt (y : Rat) : Rat :=
  ((Nat.sqrt (y.num.natAbs * y.den * (demoK * demoK)) : Nat) : Rat) / ((y.den * demoK : Nat) : Rat)

theorem demoK_pos : (0 : Rat) < (demoK : Rat) := by
  have : 0 < demoK := by decide
  exact_mod_cast this

theorem exists_floor_log (y : Rat) (hy : 0 < y) : ∃ e : Int, rho ^ e ≤ y ^ 2 ∧ y ^ 2 < rho ^ (e + 1) := by
  obtain ⟨n, hn⟩ := exists_mem_Ico_zpow (x := y ^ 2) (y := rho) (by positivity) one_lt_rho
  exact ⟨n, hn.1, hn.2⟩

open Classical in
/-- the true floor logarithm to base √1.0001 -/
noncomputable def demoLg (y : Rat) : Int := if h : 0 < y then Classical.choose (exists_floor_log y h) else 0

noncomputable def demoTn : TickNum :=
  { cx := { rnd := id, dsqrt := demoSqrt }, sq := fun x => x * x, fac := fun e => (10 : Rat) ^ e, lg := demoLg }

theorem demoSqrt_facts (y : Rat) (hy : 0 ≤ y) :
    0 ≤ demoSqrt y ∧ demoSqrt y ^ 2 ≤ y ∧ y * (1 - 1 / 1000000000) ^ 2 ≤ demoSqrt y ^ 2 := by
  have hn : 0 ≤ y.num := Rat.num_nonneg.2 hy
  set n := y.num.natAbs with hnn
  set d := y.den with hdd
  have hd : 0 < d := y.den_pos
  have hyv : y = (n : Rat) / (d : Rat) := by
    have : (y.num : Rat) = (n : Rat) := by
      have : y.num = (n : Int) := by rw [hnn]; omega
      rw [this]; simp
    rw [← this]; exact (Rat.num_div_den y).symm
  set m := n * d * (demoK * demoK) with hm
  set r := Nat.sqrt m with hr
  have r1 : r * r ≤ m := Nat.sqrt_le m
  have r2 : m < (r + 1) * (r + 1) := Nat.lt_succ_sqrt m
  have hK : (0 : Rat) < (demoK : Rat) := demoK_pos
  have hdq : (0 : Rat) < (d : Rat) := by exact_mod_cast hd
  have hden : (0 : Rat) < ((d * demoK : Nat) : Rat) := by push_cast; exact mul_pos hdq hK
  have ev : demoSqrt y = (r : Rat) / ((d * demoK : Nat) : Rat) := rfl
  have hsq : demoSqrt y ^ 2 * ((d : Rat) * demoK) ^ 2 = (r : Rat) * r := by
    rw [ev]; push_cast; field_simp
  have hym : y * ((d : Rat) * demoK) ^ 2 = (m : Rat) := by
    rw [hyv, hm]; push_cast; field_simp
  have hD2 : (0 : Rat) < ((d : Rat) * demoK) ^ 2 := pow_pos (mul_pos hdq hK) 2
  refine ⟨by rw [ev]; exact div_nonneg (Nat.cast_nonneg _) (Nat.cast_nonneg _), ?_, ?_⟩
  · have : demoSqrt y ^ 2 * ((d : Rat) * demoK) ^ 2 ≤ y * ((d : Rat) * demoK) ^ 2 := by
      rw [hsq, hym]; exact_mod_cast r1
    exact le_of_mul_le_mul_right this hD2
  · by_cases hn0 : n = 0
    · have : y = 0 := by rw [hyv, hn0]; simp
      rw [this, zero_mul]; exact sq_nonneg _
    · -- r ≥ K, so r ≥ (r+1)(1 − 10⁻⁹)
      have hmK : demoK * demoK ≤ m := by
        rw [hm]
        have : 1 ≤ n * d := Nat.mul_pos (Nat.pos_of_ne_zero hn0) hd
        calc demoK * demoK = 1 * (demoK * demoK) := by ring
          _ ≤ n * d * (demoK * demoK) := Nat.mul_le_mul_right _ this
      have hrK : demoK ≤ r := by
        by_contra hc
        have : r + 1 ≤ demoK := by omega
        have : (r + 1) * (r + 1) ≤ demoK * demoK := Nat.mul_le_mul this this
        omega
      have hrq : (10000000000 : Rat) ≤ (r : Rat) := by
        have : ((demoK : Nat) : Rat) ≤ (r : Rat) := by exact_mod_cast hrK
        unfold demoK at this; exact_mod_cast this
      have hstep : ((r : Rat) + 1) * (1 - 1 / 1000000000) ≤ (r : Rat) := by nlinarith
      have h2 : (m : Rat) * (1 - 1 / 1000000000) ^ 2 ≤ (r : Rat) * r := by
        have hm2 : (m : Rat) ≤ ((r : Rat) + 1) * ((r : Rat) + 1) := by exact_mod_cast (le_of_lt r2)
        have h0 : (0 : Rat) ≤ ((r : Rat) + 1) * (1 - 1 / 1000000000) := by
          have hr0 : (0 : Rat) ≤ (r : Rat) := Nat.cast_nonneg r
          apply mul_nonneg (by linarith); norm_num
        calc (m : Rat) * (1 - 1 / 1000000000) ^ 2
            ≤ ((r : Rat) + 1) * ((r : Rat) + 1) * (1 - 1 / 1000000000) ^ 2 :=
              mul_le_mul_of_nonneg_right hm2 (sq_nonneg _)
          _ = (((r : Rat) + 1) * (1 - 1 / 1000000000)) * (((r : Rat) + 1) * (1 - 1 / 1000000000)) := by ring
          _ ≤ (r : Rat) * r := mul_le_mul hstep hstep h0 (Nat.cast_nonneg r)
      have : y * (1 - 1 / 1000000000) ^ 2 * ((d : Rat) * demoK) ^ 2 ≤ demoSqrt y ^ 2 * ((d : Rat) * demoK) ^ 2 := by
        rw [hsq, mul_right_comm, hym]; exact h2
      exact le_of_mul_le_mul_right this hD2

theorem demoSqrt_sq (y : Rat) (hy : 0 ≤ y) : demoSqrt (y * y) = y := by
  have hn : 0 ≤ y.num := Rat.num_nonneg.2 hy
  have e1 : (y * y).num = y.num * y.num := Rat.mul_self_num y
  have e2 : (y * y).den = y.den * y.den := Rat.mul_self_den y
  have hd : 0 < y.den := y.den_pos
  unfold demoSqrt
  rw [e1, e2, Int.natAbs_mul]
  have : y.num.natAbs * y.num.natAbs * (y.den * y.den) * (demoK * demoK)
      = (y.num.natAbs * y.den * demoK) * (y.num.natAbs * y.den * demoK) := by ring
  rw [this, Nat.sqrt_eq]
  have hK : (0 : Rat) < (demoK : Rat) := demoK_pos
  have hdq : (0 : Rat) < (y.den : Rat) := by exact_mod_cast hd
  have hyv : (y.num.natAbs : Rat) = y * (y.den : Rat) := by
    have h1 : ((y.num.natAbs : Nat) : Int) = y.num := Int.natAbs_of_nonneg hn
    have h2 : (y.num : Rat) = y * (y.den : Rat) := by
      have := Rat.num_div_den y
      field_simp at this ⊢
      linarith
    rw [← h2, ← h1, Int.cast_natCast, Int.natAbs_natCast]
  push_cast
  rw [hyv]
  field_simp

theorem demo_exact : Exact demoTn :=
  { rnd := fun _ => rfl, sq := fun _ => rfl, sqrt := demoSqrt_sq, fac_pos := fun e => by
      show (0 : Rat) < (10 : Rat) ^ e
      exact zpow_pos (by norm_num) e }

theorem demo_approx : Approx demoTn (1 / 1000000000) :=
  { eps_nonneg := by norm_num
    eps_small := le_refl _
    rnd := fun x hx => by
      show x * (1 - 1 / 1000000000) ≤ x ∧ x ≤ x * (1 + 1 / 1000000000)
      constructor <;> nlinarith
    sq := fun x => by
      show x * x * (1 - 1 / 1000000000) ^ 2 ≤ x * x ∧ x * x ≤ x * x * (1 + 1 / 1000000000) ^ 2
      have : 0 ≤ x * x := mul_self_nonneg x
      constructor <;> nlinarith
    sqrt := fun y hy => by
      obtain ⟨a, b, c⟩ := demoSqrt_facts y hy
      refine ⟨a, c, le_trans b ?_⟩
      nlinarith
    fac_pos := fun e => by
      show (0 : Rat) < (10 : Rat) ^ e
      exact zpow_pos (by norm_num) e }

theorem demo_lg : LgSound demoTn (1 / 1000000000) := by
  intro y hy
  show rho ^ demoLg y ≤ _ ∧ _ < rho ^ (demoLg y + 1)
  unfold demoLg
  rw [dif_pos hy]
  obtain ⟨a, b⟩ := Classical.choose_spec (exists_floor_log y hy)
  constructor
  · refine le_trans a ?_
    exact pow_le_pow_left₀ (le_of_lt hy) (by nlinarith) 2
  · refine lt_of_le_of_lt ?_ b
    exact pow_le_pow_left₀ (by nlinarith) (by nlinarith) 2

end Demeter.TickInv
