/-
  Insertion-ordered dictionaries (`AList String ν`) as the Aave model uses them: `get?`, `set`, `erase`,
  `keys`, and "no duplicate keys" as the representation invariant of a Python dict.
-/
import Demeter.Aave
namespace Demeter.Aave
open Demeter

section
variable {ν : Type}

@[simp] theorem keys_nil : keys ([] : AList String ν) = [] := rfl
@[simp] theorem keys_cons (k : String) (v : ν) (m : AList String ν) : keys ((k, v) :: m) = k :: keys m := rfl
@[simp] theorem keys_append (a b : AList String ν) : keys (a ++ b) = keys a ++ keys b := by
  unfold keys; simp

@[simp] theorem aget_nil (k : String) : AList.get? ([] : AList String ν) k = none := rfl

theorem aget_cons (k' k : String) (v : ν) (m : AList String ν) :
    AList.get? ((k', v) :: m) k = if k' = k then some v else AList.get? m k := by
  unfold AList.get?
  by_cases h : k' = k <;> simp [List.find?, h]

@[simp] theorem aget_cons_self (k : String) (v : ν) (m : AList String ν) :
    AList.get? ((k, v) :: m) k = some v := by rw [aget_cons]; simp

theorem aget_cons_ne {k' k : String} (h : k' ≠ k) (v : ν) (m : AList String ν) :
    AList.get? ((k', v) :: m) k = AList.get? m k := by rw [aget_cons]; simp [h]

@[simp] theorem aset_nil (k : String) (v : ν) : AList.set ([] : AList String ν) k v = [(k, v)] := rfl

theorem aset_cons (k' k : String) (v' v : ν) (m : AList String ν) :
    AList.set ((k', v') :: m) k v = if k' = k then (k, v) :: m else (k', v') :: AList.set m k v := rfl

theorem aget_mem_keys {m : AList String ν} {k : String} {v : ν} (h : AList.get? m k = some v) : k ∈ keys m := by
  induction m with
  | nil => simp at h
  | cons p m ih =>
    obtain ⟨k', v'⟩ := p
    rw [aget_cons] at h
    by_cases hk : k' = k
    · simp [hk]
    · simp only [hk, if_false] at h
      simp [ih h]

theorem aget_none_of_not_mem {m : AList String ν} {k : String} (h : k ∉ keys m) : AList.get? m k = none := by
  cases hg : AList.get? m k with
  | none => rfl
  | some v => exact absurd (aget_mem_keys hg) h

theorem aget_some_of_mem_keys {m : AList String ν} {k : String} (h : k ∈ keys m) : ∃ v, AList.get? m k = some v := by
  induction m with
  | nil => simp at h
  | cons p m ih =>
    obtain ⟨k', v'⟩ := p
    by_cases hk : k' = k
    · exact ⟨v', by rw [aget_cons]; simp [hk]⟩
    · simp only [keys_cons, List.mem_cons] at h
      rcases h with h | h
      · exact absurd h.symm hk
      · obtain ⟨v, hv⟩ := ih h
        exact ⟨v, by rw [aget_cons]; simp [hk, hv]⟩

theorem aget_of_mem {m : AList String ν} (hnd : (keys m).Nodup) {k : String} {v : ν} (h : (k, v) ∈ m) :
    AList.get? m k = some v := by
  induction m with
  | nil => simp at h
  | cons p m ih =>
    obtain ⟨k', v'⟩ := p
    simp only [keys_cons, List.nodup_cons] at hnd
    simp only [List.mem_cons, Prod.mk.injEq] at h
    rcases h with ⟨h1, h2⟩ | h
    · subst h1; subst h2; simp
    · have hk : k' ≠ k := by
        intro e; subst e
        exact hnd.1 (by unfold keys; exact List.mem_map.mpr ⟨(k', v), h, rfl⟩)
      rw [aget_cons_ne hk]; exact ih hnd.2 h

theorem mem_of_aget {m : AList String ν} {k : String} {v : ν} (h : AList.get? m k = some v) : (k, v) ∈ m := by
  induction m with
  | nil => simp at h
  | cons p m ih =>
    obtain ⟨k', v'⟩ := p
    rw [aget_cons] at h
    by_cases hk : k' = k
    · simp only [hk, if_true, Option.some.injEq] at h; subst h; subst hk; simp
    · simp only [hk, if_false] at h
      exact List.mem_cons_of_mem _ (ih h)

theorem keys_set (m : AList String ν) (k : String) (v : ν) :
    keys (AList.set m k v) = if k ∈ keys m then keys m else keys m ++ [k] := by
  induction m with
  | nil => simp
  | cons p m ih =>
    obtain ⟨k', v'⟩ := p
    rw [aset_cons]
    by_cases hk : k' = k
    · simp [hk]
    · simp only [hk, if_false, keys_cons, ih, List.mem_cons]
      have : ¬ k = k' := fun e => hk e.symm
      by_cases hm : k ∈ keys m <;> simp [hm, this]

theorem nodup_set {m : AList String ν} (h : (keys m).Nodup) (k : String) (v : ν) : (keys (AList.set m k v)).Nodup := by
  rw [keys_set]
  split
  · exact h
  · rename_i hk
    rw [List.nodup_append]
    refine ⟨h, by simp, ?_⟩
    intro a ha b hb
    simp only [List.mem_singleton] at hb
    subst hb
    intro e; subst e; exact hk ha

theorem mem_keys_set {m : AList String ν} {k k' : String} {v : ν} :
    k' ∈ keys (AList.set m k v) ↔ k' = k ∨ k' ∈ keys m := by
  rw [keys_set]
  split
  · rename_i h
    constructor
    · intro h'; exact Or.inr h'
    · rintro (h' | h')
      · subst h'; exact h
      · exact h'
  · simp only [List.mem_append, List.mem_singleton]
    constructor
    · rintro (h' | h')
      · exact Or.inr h'
      · exact Or.inl h'
    · rintro (h' | h')
      · exact Or.inr h'
      · exact Or.inl h'

@[simp] theorem aget_set_self (m : AList String ν) (k : String) (v : ν) : AList.get? (AList.set m k v) k = some v := by
  induction m with
  | nil => simp
  | cons p m ih =>
    obtain ⟨k', v'⟩ := p
    rw [aset_cons]
    by_cases hk : k' = k
    · simp [hk]
    · simp only [hk, if_false]; rw [aget_cons_ne hk]; exact ih

theorem aget_set_ne (m : AList String ν) {k k' : String} (h : k ≠ k') (v : ν) :
    AList.get? (AList.set m k v) k' = AList.get? m k' := by
  induction m with
  | nil => simp [aget_cons, h]
  | cons p m ih =>
    obtain ⟨k'', v''⟩ := p
    rw [aset_cons]
    by_cases hk : k'' = k
    · subst hk; simp only [if_true]; rw [aget_cons_ne h, aget_cons_ne h]
    · simp only [hk, if_false]; rw [aget_cons, aget_cons, ih]

theorem aset_of_get {m : AList String ν} {k : String} {v : ν} (h : AList.get? m k = some v) : AList.set m k v = m := by
  induction m with
  | nil => simp at h
  | cons p m ih =>
    obtain ⟨k', v'⟩ := p
    rw [aset_cons]
    rw [aget_cons] at h
    by_cases hk : k' = k
    · simp only [hk, if_true, Option.some.injEq] at h ⊢; subst h; subst hk; rfl
    · simp only [hk, if_false] at h ⊢; rw [ih h]

@[simp] theorem aset_aset (m : AList String ν) (k : String) (v w : ν) :
    AList.set (AList.set m k v) k w = AList.set m k w := by
  induction m with
  | nil => simp [aset_cons]
  | cons p m ih =>
    obtain ⟨k', v'⟩ := p
    rw [aset_cons, aset_cons]
    by_cases hk : k' = k
    · simp [hk, aset_cons]
    · simp only [hk, if_false]; rw [aset_cons]; simp only [hk, if_false]; rw [ih]

theorem aset_not_mem {m : AList String ν} {k : String} (h : k ∉ keys m) (v : ν) : AList.set m k v = m ++ [(k, v)] := by
  induction m with
  | nil => simp
  | cons p m ih =>
    obtain ⟨k', v'⟩ := p
    simp only [keys_cons, List.mem_cons, not_or] at h
    rw [aset_cons]
    have : ¬ k' = k := fun e => h.1 e.symm
    simp only [this, if_false, List.cons_append]; rw [ih h.2]

theorem keys_erase_sublist (m : AList String ν) (k : String) : (keys (AList.erase m k)).Sublist (keys m) := by
  unfold keys AList.erase
  exact List.Sublist.map _ List.filter_sublist

theorem nodup_erase {m : AList String ν} (h : (keys m).Nodup) (k : String) : (keys (AList.erase m k)).Nodup :=
  h.sublist (keys_erase_sublist m k)

theorem mem_keys_erase {m : AList String ν} {k k' : String} (h : k' ∈ keys (AList.erase m k)) : k' ∈ keys m :=
  (keys_erase_sublist m k).subset h

theorem erase_cons (k' k : String) (v' : ν) (m : AList String ν) :
    AList.erase ((k', v') :: m) k = if k' = k then AList.erase m k else (k', v') :: AList.erase m k := by
  unfold AList.erase
  by_cases hk : k' = k <;> simp [List.filter, hk]

theorem erase_set (m : AList String ν) (k : String) (v : ν) : AList.erase (AList.set m k v) k = AList.erase m k := by
  induction m with
  | nil => simp [erase_cons, AList.erase]
  | cons p m ih =>
    obtain ⟨k', v'⟩ := p
    rw [aset_cons]
    by_cases hk : k' = k
    · simp [hk, erase_cons]
    · simp only [hk, if_false, erase_cons, ih]

theorem mem_erase {m : AList String ν} {k : String} {p : String × ν} (h : p ∈ AList.erase m k) : p ∈ m ∧ p.1 ≠ k := by
  unfold AList.erase at h
  have := List.mem_filter.mp h
  exact ⟨this.1, by simpa using this.2⟩

end
end Demeter.Aave
