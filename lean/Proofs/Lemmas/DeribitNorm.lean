/-
  `normalize_order_list` (helper.py; model: `sortSide`, `mergeSide`, `normSide` in Demeter/Deribit.lean): the side
  `check_transaction` matches against is the raw side of the data sorted best price first (stable) with the levels of
  one price merged.  Facts proved here, for every raw side (unsorted, duplicate prices):
    * the result is strictly sorted, best first (`normSide_sortedLt`), hence its prices are distinct;
    * it has exactly the prices of the raw side (`normSide_prices`);
    * under exact arithmetic the size shown at a price is the sum of the raw sizes at that price (`normSide_size`);
    * non-negative raw sizes stay non-negative (`normSide_nonneg`);
    * a side that already is strictly sorted is left as it is (`normSide_fixed`).
-/
import Proofs.Lemmas.DeribitBook
namespace Demeter.Deribit
open Demeter

/-! ### `better asc` is a strict total order on prices -/

theorem better_irrefl (asc : Bool) (a : Rat) : better asc a a = false := by
  unfold better; cases asc <;> simp

theorem better_trans {asc : Bool} {a b c : Rat} (h1 : better asc a b = true) (h2 : better asc b c = true) :
    better asc a c = true := by
  unfold better at *
  cases asc <;> simp only [Bool.false_eq_true, if_false, if_true, decide_eq_true_eq] at * <;> linarith

theorem better_tri (asc : Bool) (a b : Rat) : a = b ∨ better asc a b = true ∨ better asc b a = true := by
  unfold better
  rcases lt_trichotomy a b with h | h | h
  · cases asc <;> simp [h]
  · exact Or.inl h
  · cases asc <;> simp [h]

theorem better_asymm {asc : Bool} {a b : Rat} (h : better asc a b = true) : better asc b a = false := by
  unfold better at *
  cases asc <;> simp only [Bool.false_eq_true, if_false, if_true, decide_eq_true_eq, decide_eq_false_iff_not, not_lt] at * <;>
    exact le_of_lt h

/-- `¬ (y better x)`, `¬ (x better l)` ⇒ `¬ (y better l)` -/
theorem not_better_trans {asc : Bool} {y x l : Rat} (h1 : better asc y x = false) (h2 : better asc x l = false) :
    better asc y l = false := by
  unfold better at *
  cases asc <;> simp only [Bool.false_eq_true, if_false, if_true, decide_eq_false_iff_not, not_lt] at * <;> linarith

/-- `a better b`, `¬ (c better b)` ⇒ `a better c` -/
theorem better_of_not {asc : Bool} {a b c : Rat} (h1 : better asc a b = true) (h2 : better asc c b = false) :
    better asc a c = true := by
  unfold better at *
  cases asc <;> simp only [Bool.false_eq_true, if_false, if_true, decide_eq_true_eq, decide_eq_false_iff_not, not_lt] at * <;>
    linarith

/-- best price first, equal prices allowed -/
def SortedLe (asc : Bool) (ls : List Level) : Prop := ls.Pairwise (fun a b => better asc b.price a.price = false)
/-- strictly best price first: one level per price -/
def SortedLt (asc : Bool) (ls : List Level) : Prop := ls.Pairwise (fun a b => better asc a.price b.price = true)

/-! ### the stable sort -/

theorem insLevel_perm (asc : Bool) (l : Level) (xs : List Level) : (insLevel asc l xs).Perm (l :: xs) := by
  induction xs with
  | nil => simp [insLevel]
  | cons x xs ih =>
    unfold insLevel
    split
    · exact (List.Perm.cons x ih).trans (List.Perm.swap l x xs)
    · exact List.Perm.refl _

theorem sortSide_perm (asc : Bool) (ls : List Level) : (sortSide asc ls).Perm ls := by
  induction ls with
  | nil => simp [sortSide]
  | cons l ls ih => unfold sortSide; exact (insLevel_perm asc l _).trans (List.Perm.cons l ih)

theorem insLevel_sorted {asc : Bool} {l : Level} {xs : List Level} (h : SortedLe asc xs) :
    SortedLe asc (insLevel asc l xs) := by
  induction xs with
  | nil => simp [insLevel, SortedLe]
  | cons x xs ih =>
    unfold insLevel
    have hx := List.pairwise_cons.mp h
    split
    · rename_i hb
      apply List.pairwise_cons.mpr
      refine ⟨?_, ih hx.2⟩
      intro y hy
      have hy' := (insLevel_perm asc l xs).mem_iff.mp hy
      rcases List.mem_cons.mp hy' with rfl | hy''
      · exact better_asymm hb
      · exact hx.1 y hy''
    · rename_i hb
      have hb' : better asc x.price l.price = false := by simpa using hb
      apply List.pairwise_cons.mpr
      refine ⟨?_, h⟩
      intro y hy
      rcases List.mem_cons.mp hy with rfl | hy'
      · exact hb'
      · exact not_better_trans (hx.1 y hy') hb'

theorem sortSide_sorted (asc : Bool) (ls : List Level) : SortedLe asc (sortSide asc ls) := by
  induction ls with
  | nil => simp [sortSide, SortedLe]
  | cons l ls ih => unfold sortSide; exact insLevel_sorted ih

/-! ### the merge of equal prices -/

theorem addSize_price (cx : DCtx) (a b : Level) : (addSize cx a b).price = a.price := by
  unfold addSize; split <;> rfl

theorem addSize_size_exact (a b : Level) : (addSize DCtx.exact a b).size = a.size + b.size := by
  unfold addSize; split <;> simp

theorem sortedLe_addSize {cx : DCtx} {asc : Bool} {cur x : Level} {xs : List Level} (h : SortedLe asc (cur :: x :: xs)) :
    SortedLe asc (addSize cx cur x :: xs) := by
  have h1 := List.pairwise_cons.mp h
  have h2 := List.pairwise_cons.mp h1.2
  apply List.pairwise_cons.mpr
  refine ⟨?_, h2.2⟩
  intro y hy
  rw [addSize_price]
  exact h1.1 y (List.mem_cons_of_mem _ hy)

theorem mergeGo_prices (cx : DCtx) (cur : Level) (xs : List Level) (p : Rat) :
    p ∈ (mergeGo cx cur xs).map (·.price) ↔ p ∈ (cur :: xs).map (·.price) := by
  induction xs generalizing cur with
  | nil => simp [mergeGo]
  | cons x xs ih =>
    unfold mergeGo
    split
    · rename_i heq
      rw [ih]
      simp only [List.map_cons, List.mem_cons, addSize_price]
      constructor
      · rintro (h | h)
        · exact Or.inl h
        · exact Or.inr (Or.inr h)
      · rintro (h | h | h)
        · exact Or.inl h
        · exact Or.inl (h.trans heq.symm)
        · exact Or.inr h
    · simp only [List.map_cons, List.mem_cons]
      rw [ih]
      simp only [List.map_cons, List.mem_cons]

/-- on a sorted side the merge leaves strictly improving… worsening prices: one level per price -/
theorem mergeGo_strict {cx : DCtx} {asc : Bool} (xs : List Level) (cur : Level) (h : SortedLe asc (cur :: xs)) :
    SortedLt asc (mergeGo cx cur xs) ∧
    ∀ y ∈ mergeGo cx cur xs, y.price = cur.price ∨ better asc cur.price y.price = true := by
  induction xs generalizing cur with
  | nil => simp [mergeGo, SortedLt]
  | cons x xs ih =>
    unfold mergeGo
    have h1 := List.pairwise_cons.mp h
    split
    · obtain ⟨ha, hb⟩ := ih (addSize cx cur x) (sortedLe_addSize h)
      refine ⟨ha, ?_⟩
      intro y hy
      have := hb y hy
      rwa [addSize_price] at this
    · rename_i hne
      obtain ⟨ha, hb⟩ := ih x h1.2
      have hcx : better asc cur.price x.price = true := by
        rcases better_tri asc cur.price x.price with e | e | e
        · exact absurd e hne
        · exact e
        · have := h1.1 x List.mem_cons_self; rw [this] at e; exact absurd e (by simp)
      have hall : ∀ y ∈ mergeGo cx x xs, better asc cur.price y.price = true := by
        intro y hy
        rcases hb y hy with e | e
        · rw [e]; exact hcx
        · exact better_trans hcx e
      refine ⟨List.pairwise_cons.mpr ⟨hall, ha⟩, ?_⟩
      intro y hy
      rcases List.mem_cons.mp hy with rfl | hy'
      · exact Or.inl rfl
      · exact Or.inr (hall y hy')

theorem mergeGo_nonneg (xs : List Level) (cur : Level) (hc : 0 ≤ cur.size) (hx : ∀ x ∈ xs, 0 ≤ x.size) :
    ∀ y ∈ mergeGo DCtx.exact cur xs, 0 ≤ y.size := by
  induction xs generalizing cur with
  | nil => intro y hy; simp only [mergeGo, List.mem_singleton] at hy; rw [hy]; exact hc
  | cons x xs ih =>
    unfold mergeGo
    have hx0 := hx x List.mem_cons_self
    have hxs : ∀ z ∈ xs, 0 ≤ z.size := fun z hz => hx z (List.mem_cons_of_mem _ hz)
    split
    · exact ih _ (by rw [addSize_size_exact]; linarith) hxs
    · intro y hy
      rcases List.mem_cons.mp hy with rfl | hy'
      · exact hc
      · exact ih x hx0 hxs y hy'

/-- what the raw data shows at price `p`: the sum of the sizes of all its levels priced `p` -/
def rawAt (ls : List Level) (p : Rat) : Rat := ((ls.filter (fun l => l.price = p)).map (·.size)).sum

theorem rawAt_cons (l : Level) (ls : List Level) (p : Rat) :
    rawAt (l :: ls) p = (if l.price = p then l.size else 0) + rawAt ls p := by
  by_cases h : l.price = p <;> simp [rawAt, h]

theorem rawAt_eq_zero {ls : List Level} {p : Rat} (h : ∀ z ∈ ls, z.price ≠ p) : rawAt ls p = 0 := by
  induction ls with
  | nil => simp [rawAt]
  | cons l ls ih =>
    rw [rawAt_cons, if_neg (h l List.mem_cons_self), ih (fun z hz => h z (List.mem_cons_of_mem _ hz))]; simp

theorem rawAt_perm {a b : List Level} (h : a.Perm b) (p : Rat) : rawAt a p = rawAt b p := by
  induction h with
  | nil => rfl
  | cons x _ ih => rw [rawAt_cons, rawAt_cons, ih]
  | swap x y l => rw [rawAt_cons, rawAt_cons, rawAt_cons, rawAt_cons]; ring
  | trans _ _ ih1 ih2 => rw [ih1, ih2]

theorem rawAt_nonneg {ls : List Level} (h : ∀ l ∈ ls, 0 ≤ l.size) (p : Rat) : 0 ≤ rawAt ls p := by
  induction ls with
  | nil => simp [rawAt]
  | cons l ls ih =>
    rw [rawAt_cons]
    have := ih (fun z hz => h z (List.mem_cons_of_mem _ hz))
    have := h l List.mem_cons_self
    split <;> linarith

/-- **one level per price shows the total of that price** (exact arithmetic, sorted input) -/
theorem mergeGo_size {asc : Bool} (xs : List Level) (cur : Level) (h : SortedLe asc (cur :: xs)) :
    ∀ y ∈ mergeGo DCtx.exact cur xs, y.size = rawAt (cur :: xs) y.price := by
  induction xs generalizing cur with
  | nil =>
    intro y hy
    simp only [mergeGo, List.mem_singleton] at hy
    rw [hy, rawAt_cons]; simp [rawAt]
  | cons x xs ih =>
    unfold mergeGo
    have h1 := List.pairwise_cons.mp h
    split
    · rename_i heq
      intro y hy
      rw [ih _ (sortedLe_addSize h) y hy, rawAt_cons, rawAt_cons, rawAt_cons, addSize_price, addSize_size_exact, ← heq]
      split <;> ring
    · rename_i hne
      have hcx : better asc cur.price x.price = true := by
        rcases better_tri asc cur.price x.price with e | e | e
        · exact absurd e hne
        · exact e
        · have := h1.1 x List.mem_cons_self; rw [this] at e; exact absurd e (by simp)
      have h2 := List.pairwise_cons.mp h1.2
      have hworse : ∀ z ∈ x :: xs, z.price ≠ cur.price := by
        intro z hz e
        have hb : better asc cur.price z.price = true := by
          rcases List.mem_cons.mp hz with rfl | hz'
          · exact hcx
          · exact better_of_not hcx (h2.1 z hz')
        rw [e, better_irrefl] at hb
        exact absurd hb (by simp)
      intro y hy
      rcases List.mem_cons.mp hy with rfl | hy'
      · rw [rawAt_cons, if_pos rfl, rawAt_eq_zero hworse]; ring
      · have hyp : y.price ∈ (x :: xs).map (·.price) :=
          (mergeGo_prices DCtx.exact x xs y.price).mp (List.mem_map_of_mem (f := (·.price)) hy')
        obtain ⟨z, hz, hzp⟩ := List.mem_map.mp hyp
        have hne' : ¬ cur.price = y.price := fun e => hworse z hz (hzp.trans e.symm)
        rw [ih x h1.2 y hy', rawAt_cons (l := cur), if_neg hne']; ring

/-! ### `normSide` -/

theorem normSide_sortedLt (cx : DCtx) (asc : Bool) (ls : List Level) : SortedLt asc (normSide cx asc ls) := by
  unfold normSide
  have hs := sortSide_sorted asc ls
  cases hl : sortSide asc ls with
  | nil => simp [mergeSide, SortedLt]
  | cons l rest => rw [hl] at hs; simp only [mergeSide]; exact (mergeGo_strict rest l hs).1

theorem normSide_prices (cx : DCtx) (asc : Bool) (ls : List Level) (p : Rat) :
    p ∈ (normSide cx asc ls).map (·.price) ↔ p ∈ ls.map (·.price) := by
  unfold normSide
  have hp := sortSide_perm asc ls
  have : p ∈ (sortSide asc ls).map (·.price) ↔ p ∈ ls.map (·.price) := (hp.map _).mem_iff
  rw [← this]
  cases hl : sortSide asc ls with
  | nil => simp [mergeSide]
  | cons l rest => simp only [mergeSide]; exact mergeGo_prices cx l rest p

theorem normSide_mem_price {cx : DCtx} {asc : Bool} {ls : List Level} {l : Level} (h : l ∈ normSide cx asc ls) :
    ∃ l0 ∈ ls, l0.price = l.price := by
  have := (normSide_prices cx asc ls l.price).mp (List.mem_map_of_mem (f := (·.price)) h)
  obtain ⟨l0, h0, hp⟩ := List.mem_map.mp this
  exact ⟨l0, h0, hp⟩

theorem normSide_nonneg {asc : Bool} {ls : List Level} (h : ∀ l ∈ ls, 0 ≤ l.size) :
    ∀ y ∈ normSide DCtx.exact asc ls, 0 ≤ y.size := by
  unfold normSide
  have hp := sortSide_perm asc ls
  cases hl : sortSide asc ls with
  | nil => simp [mergeSide]
  | cons l rest =>
    rw [hl] at hp
    simp only [mergeSide]
    exact mergeGo_nonneg rest l (h l (hp.mem_iff.mp List.mem_cons_self))
      (fun x hx => h x (hp.mem_iff.mp (List.mem_cons_of_mem _ hx)))

/-- **the normalised side shows, at each of its prices, the total size the data has at that price** -/
theorem normSide_size (asc : Bool) (ls : List Level) :
    ∀ y ∈ normSide DCtx.exact asc ls, y.size = rawAt ls y.price := by
  unfold normSide
  have hp := sortSide_perm asc ls
  have hs := sortSide_sorted asc ls
  cases hl : sortSide asc ls with
  | nil => simp [mergeSide]
  | cons l rest =>
    rw [hl] at hp hs
    simp only [mergeSide]
    intro y hy
    rw [mergeGo_size rest l hs y hy, rawAt_perm hp]

theorem sortedLt_nodup {asc : Bool} {ls : List Level} (h : SortedLt asc ls) : PricesNodup ls := by
  unfold PricesNodup
  rw [List.nodup_iff_pairwise_ne, List.pairwise_map]
  apply List.Pairwise.imp _ h
  intro a b hab e
  rw [e, better_irrefl] at hab
  exact absurd hab (by simp)

/-- the side an order is matched against is in good shape whenever the raw sizes are non-negative -/
theorem sideOk_normSide {asc : Bool} {ls : List Level} (h : ∀ l ∈ ls, 0 ≤ l.size) : SideOk (normSide DCtx.exact asc ls) :=
  ⟨sortedLt_nodup (normSide_sortedLt _ asc ls), normSide_nonneg h⟩

theorem sortSide_fixed {asc : Bool} {ls : List Level} (h : SortedLt asc ls) : sortSide asc ls = ls := by
  induction ls with
  | nil => rfl
  | cons l ls ih =>
    have h1 := List.pairwise_cons.mp h
    unfold sortSide
    rw [ih h1.2]
    cases ls with
    | nil => rfl
    | cons x xs =>
      unfold insLevel
      rw [better_asymm (h1.1 x List.mem_cons_self)]
      simp

theorem mergeGo_fixed {cx : DCtx} {asc : Bool} (xs : List Level) (cur : Level) (h : SortedLt asc (cur :: xs)) :
    mergeGo cx cur xs = cur :: xs := by
  induction xs generalizing cur with
  | nil => rfl
  | cons x xs ih =>
    have h1 := List.pairwise_cons.mp h
    unfold mergeGo
    have hne : ¬ cur.price = x.price := by
      intro e
      have := h1.1 x List.mem_cons_self
      rw [e, better_irrefl] at this
      exact absurd this (by simp)
    rw [if_neg hne, ih x h1.2]

/-- **a side that is already best-first with one level per price is matched as it stands** (every context) -/
theorem normSide_fixed {cx : DCtx} {asc : Bool} {ls : List Level} (h : SortedLt asc ls) : normSide cx asc ls = ls := by
  unfold normSide
  rw [sortSide_fixed h]
  cases ls with
  | nil => rfl
  | cons l rest => simp only [mergeSide]; exact mergeGo_fixed rest l h

/-- instrument-level view -/
@[simp] theorem normInstr_name (cx : DCtx) (i : Instr) : (normInstr cx i).name = i.name := rfl
@[simp] theorem normInstr_mark (cx : DCtx) (i : Instr) : (normInstr cx i).mark = i.mark := rfl
@[simp] theorem normInstr_asks (cx : DCtx) (i : Instr) : (normInstr cx i).asks = normSide cx true i.asks := rfl
@[simp] theorem normInstr_bids (cx : DCtx) (i : Instr) : (normInstr cx i).bids = normSide cx false i.bids := rfl

end Demeter.Deribit
