/-
  A reflexive–transitive relation that holds across the primitive transactions of the Uniswap market model
  (`_add_liquidity_by_tick`, collect, remove, swap, transfers, action records) holds across every operation,
  accepted or rejected, and across every operation list.
-/
import Demeter.Uni.Step
namespace Demeter.Uni
open Demeter

structure StepRel (K : Kern) (pool : Pool) (R : State → State → Prop) : Prop where
  refl : ∀ s, R s s
  trans : ∀ {a b c}, R a b → R b c → R a c
  record : ∀ s a, R s (Uni.record s a)
  addRaw : ∀ s a0 a1 lo up sq, R s (addRaw K pool s a0 a1 lo up sq).2
  collect : ∀ s lo up m0 m1 rd tu, R s (collect K pool s lo up m0 m1 rd tu).2
  remove : ∀ s lo up l c sq rd, R s (remove K pool s lo up l c sq rd).2
  swap : ∀ s a f t p log, R s (swap K pool s a f t p log).2
  transferOut : ∀ s lo up, R s (transferOut s lo up).2
  transferIn : ∀ s lo up, R s (transferIn s lo up).2

namespace StepRel
variable {K : Kern} {pool : Pool} {R : State → State → Prop} (H : StepRel K pool R)
include H

theorem ofEq {α : Type} {s s' : State} {r : α × State} {x : α} (h : R s r.2) (heq : r = (x, s')) : R s s' := by
  rw [heq] at h; exact h

theorem addAndLog (s : State) (b q : Rat) (lo up : Int) (sq : Option Nat) (lp upp : Rat) :
    R s (addAndLog K pool s b q lo up sq lp upp).2 := by
  unfold Uni.addAndLog
  have h := H.addRaw s (pool.conv b q).1 (pool.conv b q).2 lo up sq
  simp only []
  split
  · rename_i heq; exact H.ofEq h heq
  · rename_i heq
    have h' := H.ofEq h heq
    repeat' split
    all_goals first
      | exact h'
      | exact H.trans h' (H.record ..)

theorem addByTick (s : State) (lo up : Int) (b q : Option Rat) (sq : Option Nat) (t : Option Int) (trim : Bool) :
    R s (addByTick K pool s lo up b q sq t trim).2 := by
  unfold Uni.addByTick
  try simp only []
  repeat' split
  all_goals first
    | exact H.refl s
    | exact H.addAndLog ..

theorem addByPrice (s : State) (lp up : Rat) (lt ut : Int) (q b : Option Rat) :
    R s (addByPrice K pool s lp up lt ut q b).2 := by
  unfold Uni.addByPrice
  try simp only []
  repeat' split
  all_goals first
    | exact H.refl s
    | exact H.addAndLog ..

theorem removeAllLoop : ∀ (ks : List (Int × Int)) (s : State), R s (removeAllLoop K pool ks s).2
  | [], s => H.refl s
  | (lo, up) :: ks, s => by
    unfold Uni.removeAllLoop
    have h := H.remove s lo up none true none true
    split
    · rename_i heq; exact H.ofEq h heq
    · rename_i heq; exact H.trans (H.ofEq h heq) (removeAllLoop ks _)

theorem buy (s : State) (a : Rat) (p : Option Rat) : R s (buy K pool s a p).2 := by
  unfold Uni.buy
  split
  · exact H.refl s
  · split
    · exact H.refl s
    · split
      · exact H.refl s
      · simp only []
        split
        · exact H.refl s
        · rename_i price _ _ _
          have h := H.swap s (K.cx.div (K.cx.mul a price) (K.cx.sub 1 pool.feeRate)) pool.quoteTok pool.baseTok
            (some (K.cx.div 1 price)) false
          split
          · rename_i heq; exact H.ofEq h heq
          · rename_i heq
            have h' := H.ofEq h heq
            repeat' split
            all_goals first
              | exact h'
              | exact H.trans h' (H.record ..)

theorem sell (s : State) (a : Rat) (p : Option Rat) : R s (sell K pool s a p).2 := by
  unfold Uni.sell
  split
  · exact H.refl s
  · split
    · exact H.refl s
    · rename_i price _
      have h := H.swap s a pool.baseTok pool.quoteTok (some price) false
      split
      · rename_i heq; exact H.ofEq h heq
      · rename_i heq
        have h' := H.ofEq h heq
        repeat' split
        all_goals first
          | exact h'
          | exact H.trans h' (H.record ..)

theorem evenRebalance (s : State) (p : Option Rat) : R s (evenRebalance K pool s p).2 := by
  unfold Uni.evenRebalance
  try simp only []
  repeat' split
  all_goals first
    | exact H.refl s
    | (rename_i heq; exact H.ofEq (H.buy ..) heq)
    | (rename_i heq; exact H.ofEq (H.sell ..) heq)

theorem optSwapFee (s : State) (c : Bool) (a : Rat) (f t : String) : R s (optSwapFee K pool s c a f t).2 := by
  unfold Uni.optSwapFee
  split
  · have h := H.swap s a f t none true
    split
    · rename_i heq; exact H.ofEq h heq
    · rename_i heq; exact H.ofEq h heq
  · exact H.refl s

theorem swapValue (s : State) (b : Bool) (v p : Rat) : R s (swapValue K pool s b v p).2 := by
  unfold Uni.swapValue
  repeat' split
  all_goals first
    | exact H.refl s
    | exact H.swap ..

theorem addValues (s : State) (lo up : Int) (p a b : Rat) : R s (addValues K pool s lo up p a b).2 := by
  unfold Uni.addValues
  split
  · exact H.refl s
  · exact H.addByTick ..

theorem addByValueInRange (s : State) (lo up t : Int) (p v r : Rat) :
    R s (addByValueInRange K pool s lo up t p v r).2 := by
  unfold Uni.addByValueInRange
  try simp only []
  repeat' split
  all_goals first
    | exact H.refl s
    | exact H.addValues ..
    | (rename_i heq; exact H.ofEq (H.swapValue ..) heq)
    | (rename_i heq; exact H.trans (H.ofEq (H.swapValue ..) heq) (H.addValues ..))

theorem addByValue (me : Rat) (s : State) (lo up : Int) (v : Option Rat) (trim : Bool) (o : ByValueOracle) :
    R s (addByValue K pool me s lo up v trim o).2 := by
  unfold Uni.addByValue
  try simp only []
  repeat' split
  all_goals first
    | exact H.refl s
    | exact H.addByValueInRange ..
    | (rename_i heq; exact H.ofEq (H.optSwapFee ..) heq)
    | (rename_i heq; exact H.trans (H.ofEq (H.optSwapFee ..) heq) (H.addByTick ..))

theorem step (me : Rat) (s : State) (op : Op) : R s (step K pool me s op).2 := by
  cases op <;> simp only [Uni.step]
  case addRaw a0 a1 lo up sq =>
    have h := H.addRaw s a0 a1 lo up sq
    split <;> (rename_i heq; exact H.ofEq h heq)
  case swap a f t p log =>
    have h := H.swap s a f t p log
    split <;> (rename_i heq; exact H.ofEq h heq)
  case addByTick => exact H.addByTick ..
  case addByPrice => exact H.addByPrice ..
  case remove => exact H.remove ..
  case collect => exact H.collect ..
  case removeAll => exact H.removeAllLoop ..
  case buy => exact H.buy ..
  case sell => exact H.sell ..
  case evenRebalance => exact H.evenRebalance ..
  case addByValue => exact H.addByValue ..
  case transferOut => exact H.transferOut ..
  case transferIn => exact H.transferIn ..

theorem runOps (me : Rat) : ∀ (ops : List Op) (s : State), R s (runOps K pool me s ops)
  | [], s => H.refl s
  | op :: ops, s => H.trans (H.step me s op) (runOps me ops _)

end StepRel
end Demeter.Uni
