/-
  The round trip  sqrt price s  →  base-unit price  →  Decimal sqrt price  →  sqrt price x96  under an arithmetic with
  relative error ≤ ε per operation: the Decimal sqrt price is within (1−ε)^15 … (1+ε)^16 of s/2^96, the integer
  sqrt price within (1−ε)^16·s − 1 … (1+ε)^17·s.  Both token orientations, all decimals.
-/
import Proofs.Lemmas.TickInv
namespace Demeter.TickInv
open Demeter Gen
set_option linter.unusedSectionVars false

variable {tn : TickNum} {ε : Rat}

theorem q96Rat_pos : (0 : Rat) < q96Rat := by unfold q96Rat; positivity

/-- forward: `_from_x96(s) ** 2 * Decimal(10 ** e)` -/
theorem pool_rel (h : Approx tn ε) (s : Nat) (hs : 0 < s) (e : Int) :
    RelLU ε 5 5 ((s : Rat) / q96Rat * ((s : Rat) / q96Rat) * tn.fac e)
      (tn.cx.mul (tn.sq (fromX96 tn s)) (tn.fac e)) := by
  have h0 := h.eps_nonneg
  have h1 := h.eps_small
  have hq := q96Rat_pos
  have hsq : (0 : Rat) < (s : Rat) := by exact_mod_cast hs
  set S : Rat := (s : Rat) / q96Rat with hS
  have hSpos : 0 < S := div_pos hsq hq
  have hF := h.fac_pos e
  have hsub := one_sub_pos h0 h1
  have hadd := one_add_pos h0 h1
  -- x1 = rnd(S)
  have r1 : RelLU ε 1 1 S (fromX96 tn s) :=
    rel_step h0 h1 (le_of_lt hSpos) (rel_refl h0 h1 S) (h.rnd S (le_of_lt hSpos))
  have hx1 : 0 < fromX96 tn s := rel_pos h0 h1 hSpos r1
  -- x2 = x1 ** 2
  have r2 : RelLU ε 4 4 (S * S) (tn.sq (fromX96 tn s)) := by
    obtain ⟨a, b⟩ := h.sq (fromX96 tn s)
    have l1 : S * (1 - ε) ^ 1 ≤ fromX96 tn s := r1.1
    have u1 : fromX96 tn s ≤ S * (1 + ε) ^ 1 := r1.2
    have l2 : (S * (1 - ε) ^ 1) * (S * (1 - ε) ^ 1) ≤ fromX96 tn s * fromX96 tn s :=
      mul_self_le_mul_self (by positivity) l1
    have u2 : fromX96 tn s * fromX96 tn s ≤ (S * (1 + ε) ^ 1) * (S * (1 + ε) ^ 1) :=
      mul_self_le_mul_self (le_of_lt hx1) u1
    constructor
    · calc S * S * (1 - ε) ^ 4 = (S * (1 - ε) ^ 1) * (S * (1 - ε) ^ 1) * (1 - ε) ^ 2 := by ring
        _ ≤ fromX96 tn s * fromX96 tn s * (1 - ε) ^ 2 := mul_le_mul_of_nonneg_right l2 (by positivity)
        _ ≤ _ := a
    · calc tn.sq (fromX96 tn s) ≤ fromX96 tn s * fromX96 tn s * (1 + ε) ^ 2 := b
        _ ≤ (S * (1 + ε) ^ 1) * (S * (1 + ε) ^ 1) * (1 + ε) ^ 2 := mul_le_mul_of_nonneg_right u2 (by positivity)
        _ = S * S * (1 + ε) ^ 4 := by ring
  have hx2 : 0 < tn.sq (fromX96 tn s) := rel_pos h0 h1 (by positivity) r2
  -- x3 = rnd(x2 * F)
  have r3 := rel_mul_const h0 h1 (tn.fac e) (le_of_lt hF) r2
  exact rel_step h0 h1 (by positivity) r3 (h.rnd _ (by positivity))

/-- `Decimal(1 / x) if q0 else x` on a positive value -/
theorem invIf_rel (h : Approx tn ε) (q0 : Bool) {i j : Nat} {A x : Rat} (hA : 0 < A) (r : RelLU ε i j A x) :
    ∃ p, invIf tn q0 x = .ok p ∧
      (q0 = false → RelLU ε i j A p) ∧ (q0 = true → RelLU ε (j + 1) (2 * i + 1) (1 / A) p) := by
  have h0 := h.eps_nonneg
  have h1 := h.eps_small
  have hx : 0 < x := rel_pos h0 h1 hA r
  cases q0 with
  | false => exact ⟨x, by simp [invIf], fun _ => r, fun hc => (by cases hc)⟩
  | true =>
    refine ⟨tn.cx.div 1 x, by simp [invIf, ne_of_gt hx], fun hc => (by cases hc), fun _ => ?_⟩
    have ri := rel_inv h0 h1 hA r
    have hix : 0 ≤ 1 / x := by positivity
    exact rel_step h0 h1 (by positivity) ri (h.rnd _ hix)

/-- the whole round trip up to the Decimal sqrt price -/
theorem roundtrip_sqrt (h : Approx tn ε) (s : Nat) (hs : 0 < s) (d0 d1 : Nat) (q0 : Bool) :
    ∃ p y, sqrtX96ToPrice tn s d0 d1 q0 = .ok p ∧ priceToSqrt tn p d0 d1 q0 = .ok y ∧
      RelLU ε 15 16 ((s : Rat) / q96Rat) y := by
  have h0 := h.eps_nonneg
  have h1 := h.eps_small
  have hq := q96Rat_pos
  have hsq : (0 : Rat) < (s : Rat) := by exact_mod_cast hs
  set e : Int := (d0 : Int) - (d1 : Int) with he
  set S : Rat := (s : Rat) / q96Rat with hS
  have hSpos : 0 < S := div_pos hsq hq
  have hF := h.fac_pos e
  set A : Rat := S * S * tn.fac e with hA
  have hApos : 0 < A := by positivity
  have r3 := pool_rel h s hs e
  -- forward `invIf`
  obtain ⟨p, hp, hpf, hpt⟩ := invIf_rel h q0 hApos r3
  -- backward `invIf`: in both orientations y1 is within (12, 13) of A
  have hy1 : ∃ y1, invIf tn q0 p = .ok y1 ∧ RelLU ε 12 13 A y1 := by
    cases hq0 : q0 with
    | false =>
      have rp := hpf hq0
      obtain ⟨y1, e1, f1, _⟩ := invIf_rel h false hApos rp
      exact ⟨y1, e1, rel_weaken h0 h1 (le_of_lt hApos) (by omega) (by omega) (f1 rfl)⟩
    | true =>
      have rp := hpt hq0
      obtain ⟨y1, e1, _, t1⟩ := invIf_rel h true (by positivity : 0 < 1 / A) rp
      have := t1 rfl
      rw [one_div_one_div] at this
      exact ⟨y1, e1, rel_weaken h0 h1 (le_of_lt hApos) (by omega) (by omega) this⟩
  obtain ⟨y1, ey1, ry1⟩ := hy1
  have hy1pos : 0 < y1 := rel_pos h0 h1 hApos ry1
  -- atomic = rnd(y1 / F)
  have r4 := rel_div_const h0 h1 (tn.fac e) hF ry1
  have eAF : A / tn.fac e = S * S := by rw [hA]; field_simp
  rw [eAF] at r4
  have r5 : RelLU ε 13 14 (S * S) (tn.cx.div y1 (tn.fac e)) :=
    rel_step h0 h1 (by positivity) r4 (h.rnd _ (by positivity))
  have hat : 0 < tn.cx.div y1 (tn.fac e) := rel_pos h0 h1 (by positivity) r5
  -- y = sqrt(atomic)
  obtain ⟨sq0, sq1, sq2⟩ := h.sqrt _ (le_of_lt hat)
  have hsub := one_sub_pos h0 h1
  have r6 : RelLU ε 15 16 (S * S) (tn.cx.dsqrt (tn.cx.div y1 (tn.fac e)) ^ 2) := by
    constructor
    · calc S * S * (1 - ε) ^ 15 = S * S * (1 - ε) ^ 13 * (1 - ε) ^ 2 := by ring
        _ ≤ tn.cx.div y1 (tn.fac e) * (1 - ε) ^ 2 := mul_le_mul_of_nonneg_right r5.1 (by positivity)
        _ ≤ _ := sq1
    · calc _ ≤ tn.cx.div y1 (tn.fac e) * (1 + ε) ^ 2 := sq2
        _ ≤ S * S * (1 + ε) ^ 14 * (1 + ε) ^ 2 := mul_le_mul_of_nonneg_right r5.2 (by positivity)
        _ = S * S * (1 + ε) ^ 16 := by ring
  have r7 := rel_sqrt h0 h1 hSpos sq0 r6
  refine ⟨p, _, ?_, ?_, r7⟩
  · unfold sqrtX96ToPrice
    exact hp
  · unfold priceToSqrt
    simp only [ey1]
    rw [if_neg (not_lt.2 (le_of_lt hat))]

/-- … and down to the integer `base_unit_price_to_sqrt_price_x96` returns -/
theorem roundtrip_x96 (h : Approx tn ε) (s : Nat) (hs : 0 < s) (d0 d1 : Nat) (q0 : Bool) :
    ∃ p x, sqrtX96ToPrice tn s d0 d1 q0 = .ok p ∧ priceToSqrtX96 tn p d0 d1 q0 = .ok x ∧ 0 ≤ x ∧
      (s : Rat) * (1 - ε) ^ 16 - 1 < (x : Rat) ∧ (x : Rat) ≤ (s : Rat) * (1 + ε) ^ 17 := by
  have h0 := h.eps_nonneg
  have h1 := h.eps_small
  have hq := q96Rat_pos
  have hsq : (0 : Rat) < (s : Rat) := by exact_mod_cast hs
  obtain ⟨p, y, e1, e2, r⟩ := roundtrip_sqrt h s hs d0 d1 q0
  have hy : 0 < y := rel_pos h0 h1 (div_pos hsq hq) r
  have r8 := rel_mul_const h0 h1 q96Rat (le_of_lt hq) r
  have es : (s : Rat) / q96Rat * q96Rat = s := by field_simp
  rw [es] at r8
  have r9 : RelLU ε 16 17 (s : Rat) (tn.cx.mul y q96Rat) :=
    rel_step h0 h1 (le_of_lt hsq) r8 (h.rnd _ (by positivity))
  have hy4 : 0 < tn.cx.mul y q96Rat := rel_pos h0 h1 hsq r9
  obtain ⟨t1, t2, t3⟩ := truncInt_bounds _ (le_of_lt hy4)
  refine ⟨p, toX96 tn y, e1, ?_, t3, ?_, ?_⟩
  · unfold priceToSqrtX96; simp only [e2]
  · have := r9.1
    unfold toX96; linarith
  · have := r9.2
    unfold toX96; linarith

end Demeter.TickInv
