/-
  The lifting kit of `UniStepRel`, generalised in two directions:

  * the relation is *graded* by a natural number (a budget that adds up along a composition: here the number of
    wallet-debiting transactions an operation can perform), and
  * the primitive transactions may be *restricted* (`Allow`): which `sqrt_price_x96` arguments of
    `_add_liquidity_by_tick` / `remove_liquidity` are admitted, which execution prices of `swap`, and whether the
    two transfers are admitted at all.

  A graded relation that holds across the admitted primitive transactions holds across every admitted operation of
  the public interface, accepted or rejected, with the operation's budget, and across every list of them.
-/
import Demeter.Uni.Step
namespace Demeter.Uni
open Demeter

/-- which primitive calls are admitted -/
structure Allow where
  /-- the `sqrt_price_x96` argument of `_add_liquidity_by_tick` -/
  addSqrt : Option Nat → Prop
  /-- the `sqrt_price_x96` argument of `remove_liquidity` -/
  remSqrt : Option Nat → Prop
  /-- the `price` argument of `swap` (in a state, for a spent token) -/
  swapPx : State → String → Option Rat → Prop
  /-- `transfer_position_out` / `transfer_position_in` -/
  transfer : Prop

/-- everything admitted -/
def Allow.all : Allow := { addSqrt := fun _ => True, remSqrt := fun _ => True, swapPx := fun _ _ _ => True, transfer := True }

/-- the number of dust rounds of an operation: `_add_liquidity_by_tick` (two debits, of two different tokens) and
    `swap` (one debit) are one round each -/
def Op.debits : Op → Nat
  | .addRaw .. => 1 | .addByTick .. => 1 | .addByPrice .. => 1
  | .remove .. => 0 | .collect .. => 0 | .removeAll => 0
  | .swap .. => 1 | .buy .. => 1 | .sell .. => 1 | .evenRebalance .. => 1
  | .addByValue .. => 2
  | .transferOut .. => 0 | .transferIn .. => 0

/-- the operations of the public interface all of whose primitive calls are admitted -/
def Op.allowed (al : Allow) : Op → Prop
  | .addRaw _ _ _ _ sq => al.addSqrt sq
  | .addByTick _ _ _ _ sq t _ => (sq = none ∧ t = none ∧ al.addSqrt none) ∨ (∀ x, al.addSqrt x)
  | .addByPrice .. => al.addSqrt none
  | .remove _ _ _ _ sq _ => al.remSqrt sq
  | .collect .. => True
  | .removeAll => al.remSqrt none
  | .swap _ f _ p _ => ∀ s, al.swapPx s f p
  | .buy _ p => givenPrice p = none ∨ (∀ s f q, al.swapPx s f q)
  | .sell _ p => givenPrice p = none ∨ (∀ s f q, al.swapPx s f q)
  | .evenRebalance _ => True
  | .addByValue .. => al.addSqrt none
  | .transferOut .. => al.transfer
  | .transferIn .. => al.transfer

structure GStepRel (K : Kern) (pool : Pool) (al : Allow) (R : Nat → State → State → Prop) : Prop where
  refl : ∀ s, R 0 s s
  trans : ∀ {n m a b c}, R n a b → R m b c → R (n + m) a c
  mono : ∀ {n m a b}, n ≤ m → R n a b → R m a b
  record : ∀ s a, R 0 s (Uni.record s a)
  addRaw : ∀ s a0 a1 lo up sq, al.addSqrt sq → R 1 s (addRaw K pool s a0 a1 lo up sq).2
  collect : ∀ s lo up m0 m1 rd tu, R 0 s (collect K pool s lo up m0 m1 rd tu).2
  remove : ∀ s lo up l c sq rd, al.remSqrt sq → R 0 s (remove K pool s lo up l c sq rd).2
  swap : ∀ s a f t p log, al.swapPx s f p → R 1 s (swap K pool s a f t p log).2
  transferOut : al.transfer → ∀ s lo up, R 0 s (transferOut s lo up).2
  transferIn : al.transfer → ∀ s lo up, R 0 s (transferIn s lo up).2
  /-- the market price is always an admitted execution price: not given, … -/
  px_none : ∀ s f, al.swapPx s f none
  /-- … or given as what `buy` passes (the reciprocal of the market price, spending the quote token), … -/
  px_buy : ∀ s price, priceOf s = .ok price → price ≠ 0 → al.swapPx s pool.quoteTok (some (K.cx.div 1 price))
  /-- … or as what `sell` passes (the market price, spending the base token) -/
  px_sell : ∀ s price, priceOf s = .ok price → al.swapPx s pool.baseTok (some price)

/-- total budget of an operation list -/
def debitsOf : List Op → Nat
  | [] => 0
  | op :: ops => op.debits + debitsOf ops

namespace GStepRel
variable {K : Kern} {pool : Pool} {al : Allow} {R : Nat → State → State → Prop} (H : GStepRel K pool al R)
include H

set_option linter.unusedSectionVars false in
theorem ofEq {α : Type} {n : Nat} {s s' : State} {r : α × State} {x : α} (h : R n s r.2) (heq : r = (x, s')) : R n s s' := by
  rw [heq] at h; exact h

theorem refl' (n : Nat) (s : State) : R n s s := H.mono (Nat.zero_le n) (H.refl s)

theorem addAndLog (s : State) (b q : Rat) (lo up : Int) (sq : Option Nat) (lp upp : Rat) (hs : al.addSqrt sq) :
    R 1 s (addAndLog K pool s b q lo up sq lp upp).2 := by
  unfold Uni.addAndLog
  have h := H.addRaw s (pool.conv b q).1 (pool.conv b q).2 lo up sq hs
  simp only []
  split
  · rename_i heq; exact H.ofEq h heq
  · rename_i heq
    have h' := H.ofEq h heq
    repeat' split
    all_goals first
      | exact h'
      | exact H.trans h' (H.record ..)

theorem addByTickNone (s : State) (lo up : Int) (b q : Option Rat) (trim : Bool) (hs : al.addSqrt none) :
    R 1 s (addByTick K pool s lo up b q none none trim).2 := by
  unfold Uni.addByTick sqrtOrTick
  try simp only []
  repeat' split
  all_goals first
    | exact H.refl' 1 s
    | exact H.addAndLog _ _ _ _ _ _ _ _ hs

theorem addByTickAny (s : State) (lo up : Int) (b q : Option Rat) (sq : Option Nat) (t : Option Int) (trim : Bool)
    (hs : ∀ x, al.addSqrt x) : R 1 s (addByTick K pool s lo up b q sq t trim).2 := by
  unfold Uni.addByTick
  try simp only []
  repeat' split
  all_goals first
    | exact H.refl' 1 s
    | exact H.addAndLog _ _ _ _ _ _ _ _ (hs _)

theorem addByPrice (s : State) (lp up : Rat) (lt ut : Int) (q b : Option Rat) (hs : al.addSqrt none) :
    R 1 s (addByPrice K pool s lp up lt ut q b).2 := by
  unfold Uni.addByPrice
  try simp only []
  repeat' split
  all_goals first
    | exact H.refl' 1 s
    | exact H.addAndLog _ _ _ _ _ _ _ _ hs

theorem removeAllLoop (hs : al.remSqrt none) : ∀ (ks : List (Int × Int)) (s : State), R 0 s (removeAllLoop K pool ks s).2
  | [], s => H.refl s
  | (lo, up) :: ks, s => by
    unfold Uni.removeAllLoop
    have h := H.remove s lo up none true none true hs
    split
    · rename_i heq; exact H.ofEq h heq
    · rename_i heq; exact H.trans (H.ofEq h heq) (removeAllLoop hs ks _)

/-- `buy` with an execution price that is admitted for the swap it performs -/
theorem buyOf (s : State) (a : Rat) (p : Option Rat)
    (hp : ∀ price, orMarketPrice s (givenPrice p) = .ok price → price ≠ 0 →
      al.swapPx s pool.quoteTok (some (K.cx.div 1 price))) : R 1 s (buy K pool s a p).2 := by
  unfold Uni.buy
  split
  · exact H.refl' 1 s
  · split
    · exact H.refl' 1 s
    · split
      · exact H.refl' 1 s
      · simp only []
        split
        · exact H.refl' 1 s
        · rename_i price hprice _ hne
          have h := H.swap s (K.cx.div (K.cx.mul a price) (K.cx.sub 1 pool.feeRate)) pool.quoteTok pool.baseTok
            (some (K.cx.div 1 price)) false (hp price hprice hne)
          split
          · rename_i heq; exact H.ofEq h heq
          · rename_i heq
            have h' := H.ofEq h heq
            repeat' split
            all_goals first
              | exact h'
              | exact H.trans h' (H.record ..)

theorem sellOf (s : State) (a : Rat) (p : Option Rat)
    (hp : ∀ price, orMarketPrice s (givenPrice p) = .ok price → al.swapPx s pool.baseTok (some price)) :
    R 1 s (sell K pool s a p).2 := by
  unfold Uni.sell
  split
  · exact H.refl' 1 s
  · split
    · exact H.refl' 1 s
    · rename_i price hprice
      have h := H.swap s a pool.baseTok pool.quoteTok (some price) false (hp price hprice)
      split
      · rename_i heq; exact H.ofEq h heq
      · rename_i heq
        have h' := H.ofEq h heq
        repeat' split
        all_goals first
          | exact h'
          | exact H.trans h' (H.record ..)

theorem buyNone (s : State) (a : Rat) : R 1 s (buy K pool s a none).2 :=
  H.buyOf s a none (fun price hp hne => H.px_buy s price hp hne)

theorem sellNone (s : State) (a : Rat) : R 1 s (sell K pool s a none).2 :=
  H.sellOf s a none (fun price hp => H.px_sell s price hp)

theorem buy (s : State) (a : Rat) (p : Option Rat) (hp : givenPrice p = none ∨ (∀ s f q, al.swapPx s f q)) :
    R 1 s (buy K pool s a p).2 := by
  rcases hp with hp | hp
  · apply H.buyOf; rw [hp]; exact fun price h hne => H.px_buy s price h hne
  · exact H.buyOf s a p (fun _ _ _ => hp _ _ _)

theorem sell (s : State) (a : Rat) (p : Option Rat) (hp : givenPrice p = none ∨ (∀ s f q, al.swapPx s f q)) :
    R 1 s (sell K pool s a p).2 := by
  rcases hp with hp | hp
  · apply H.sellOf; rw [hp]; exact fun price h => H.px_sell s price h
  · exact H.sellOf s a p (fun _ _ => hp _ _ _)

theorem evenRebalance (s : State) (p : Option Rat) : R 1 s (evenRebalance K pool s p).2 := by
  unfold Uni.evenRebalance
  try simp only []
  repeat' split
  all_goals first
    | exact H.refl' 1 s
    | (rename_i heq; exact H.ofEq (H.buyNone ..) heq)
    | (rename_i heq; exact H.ofEq (H.sellNone ..) heq)

theorem optSwapFee (s : State) (c : Bool) (a : Rat) (f t : String) : R 1 s (optSwapFee K pool s c a f t).2 := by
  unfold Uni.optSwapFee
  split
  · have h := H.swap s a f t none true (H.px_none s f)
    split
    · rename_i heq; exact H.ofEq h heq
    · rename_i heq; exact H.ofEq h heq
  · exact H.refl' 1 s

theorem swapValue (s : State) (b : Bool) (v p : Rat) : R 1 s (swapValue K pool s b v p).2 := by
  unfold Uni.swapValue
  repeat' split
  all_goals first
    | exact H.refl' 1 s
    | exact H.swap _ _ _ _ _ _ (H.px_none ..)

theorem addValues (s : State) (lo up : Int) (p a b : Rat) (hs : al.addSqrt none) :
    R 1 s (addValues K pool s lo up p a b).2 := by
  unfold Uni.addValues
  split
  · exact H.refl' 1 s
  · exact H.addByTickNone _ _ _ _ _ _ hs

theorem addByValueInRange (s : State) (lo up t : Int) (p v r : Rat) (hs : al.addSqrt none) :
    R 2 s (addByValueInRange K pool s lo up t p v r).2 := by
  unfold Uni.addByValueInRange
  try simp only []
  repeat' split
  all_goals first
    | exact H.refl' 2 s
    | exact H.mono (by omega) (H.addValues _ _ _ _ _ _ hs)
    | (rename_i heq; exact H.mono (by omega) (H.ofEq (H.swapValue ..) heq))
    | (rename_i heq; exact H.trans (H.ofEq (H.swapValue ..) heq) (H.addValues _ _ _ _ _ _ hs))

theorem addByValue (me : Rat) (s : State) (lo up : Int) (v : Option Rat) (trim : Bool) (o : ByValueOracle)
    (hs : al.addSqrt none) : R 2 s (addByValue K pool me s lo up v trim o).2 := by
  unfold Uni.addByValue
  try simp only []
  repeat' split
  all_goals first
    | exact H.refl' 2 s
    | exact H.addByValueInRange _ _ _ _ _ _ _ hs
    | (rename_i heq; exact H.mono (by omega) (H.ofEq (H.optSwapFee ..) heq))
    | (rename_i heq; exact H.trans (H.ofEq (H.optSwapFee ..) heq) (H.addByTickNone _ _ _ _ _ _ hs))

/-- every admitted operation, accepted or rejected, with its own budget -/
theorem step (me : Rat) (s : State) (op : Op) (hop : op.allowed al) : R op.debits s (step K pool me s op).2 := by
  cases op <;> simp only [Uni.step, Op.debits] <;> simp only [Op.allowed] at hop
  case addRaw a0 a1 lo up sq =>
    have h := H.addRaw s a0 a1 lo up sq hop
    split <;> (rename_i heq; exact H.ofEq h heq)
  case swap a f t p log =>
    have h := H.swap s a f t p log (hop s)
    split <;> (rename_i heq; exact H.ofEq h heq)
  case addByTick lo up b q sq t trim =>
    rcases hop with ⟨h1, h2, h3⟩ | h
    · subst h1; subst h2; exact H.addByTickNone _ _ _ _ _ _ h3
    · exact H.addByTickAny _ _ _ _ _ _ _ _ h
  case addByPrice => exact H.addByPrice _ _ _ _ _ _ _ hop
  case remove => exact H.remove _ _ _ _ _ _ _ hop
  case collect => exact H.collect ..
  case removeAll => exact H.removeAllLoop hop ..
  case buy => exact H.buy _ _ _ hop
  case sell => exact H.sell _ _ _ hop
  case evenRebalance => exact H.evenRebalance ..
  case addByValue => exact H.addByValue _ _ _ _ _ _ _ hop
  case transferOut => exact H.transferOut hop ..
  case transferIn => exact H.transferIn hop ..

theorem runOps (me : Rat) : ∀ (ops : List Op) (s : State), (∀ op ∈ ops, op.allowed al) →
    R (debitsOf ops) s (runOps K pool me s ops)
  | [], s, _ => H.refl s
  | op :: ops, s, h =>
    H.trans (H.step me s op (h op (List.mem_cons_self ..)))
      (runOps me ops _ (fun o ho => h o (List.mem_cons_of_mem _ ho)))

end GStepRel

theorem debitsOf_le (ops : List Op) : debitsOf ops ≤ 2 * ops.length := by
  induction ops with
  | nil => simp [debitsOf]
  | cons op ops ih =>
    have : op.debits ≤ 2 := by cases op <;> simp [Op.debits]
    simp only [debitsOf, List.length_cons]; omega

end Demeter.Uni
