/-
  Lemmas for C09: how the building blocks of the Uniswap market model commute with the token-order mirror.
-/
import Demeter.Uni.Mirror
import Proofs.Lemmas.UniWallet
namespace Demeter.Uni
open Demeter

@[simp] theorem mPool_conv {α : Type} (p : Pool) (x0 x1 : α) : (mPool p).conv x1 x0 = p.conv x0 x1 := by
  unfold Pool.conv mPool; cases p.q0 <;> rfl

@[simp] theorem mPool_baseTok (p : Pool) : (mPool p).baseTok = p.baseTok := by
  unfold Pool.baseTok mPool; cases p.q0 <;> rfl
@[simp] theorem mPool_quoteTok (p : Pool) : (mPool p).quoteTok = p.quoteTok := by
  unfold Pool.quoteTok mPool; cases p.q0 <;> rfl
@[simp] theorem mPool_tok0 (p : Pool) : (mPool p).tok0 = p.tok1 := rfl
@[simp] theorem mPool_tok1 (p : Pool) : (mPool p).tok1 = p.tok0 := rfl
@[simp] theorem mPool_feeRate (p : Pool) : (mPool p).feeRate = p.feeRate := rfl
@[simp] theorem mPool_spacing (p : Pool) : (mPool p).spacing = p.spacing := rfl

@[simp] theorem mState_isOpen (s : State) : (mState s).isOpen = s.isOpen := rfl
@[simp] theorem mState_wallet (s : State) : (mState s).wallet = s.wallet := rfl
@[simp] theorem mState_allowNeg (s : State) : (mState s).allowNeg = s.allowNeg := rfl
@[simp] theorem mState_positions (s : State) : (mState s).positions = s.positions.map mPos := rfl
@[simp] theorem mState_actions (s : State) : (mState s).actions = s.actions := rfl

theorem mPos_hasKey (p : Pos) (lo up : Int) : (mPos p).hasKey (-up) (-lo) = p.hasKey lo up := by
  unfold Pos.hasKey mPos
  rw [Bool.eq_iff_iff]
  simp only [Bool.and_eq_true, beq_iff_eq, Int.neg_inj]
  exact and_comm

theorem findPos_mirror (ps : List Pos) (lo up : Int) :
    findPos (ps.map mPos) (-up) (-lo) = (findPos ps lo up).map mPos := by
  unfold findPos
  induction ps with
  | nil => rfl
  | cons p ps ih =>
    simp only [List.map_cons, List.find?_cons, mPos_hasKey]
    cases p.hasKey lo up <;> simp [ih]

theorem mapPos_mirror (ps : List Pos) (lo up : Int) (f g : Pos → Pos) (h : ∀ p, g (mPos p) = mPos (f p)) :
    mapPos (ps.map mPos) (-up) (-lo) g = (mapPos ps lo up f).map mPos := by
  unfold mapPos
  induction ps with
  | nil => rfl
  | cons p ps ih =>
    simp only [List.map_cons, mPos_hasKey, ih]
    cases p.hasKey lo up <;> simp [h]

theorem erasePos_mirror (ps : List Pos) (lo up : Int) :
    erasePos (ps.map mPos) (-up) (-lo) = (erasePos ps lo up).map mPos := by
  unfold erasePos
  induction ps with
  | nil => rfl
  | cons p ps ih =>
    simp only [List.map_cons, List.filter_cons, mPos_hasKey, ih]
    cases p.hasKey lo up <;> simp

@[simp] theorem mPos_transferred (p : Pos) : (mPos p).transferred = p.transferred := rfl
@[simp] theorem mPos_liq (p : Pos) : (mPos p).liq = p.liq := rfl
@[simp] theorem mPos_liqDec (p : Pos) : (mPos p).liqDec = p.liqDec := rfl
@[simp] theorem mPos_pending0 (p : Pos) : (mPos p).pending0 = p.pending1 := rfl
@[simp] theorem mPos_pending1 (p : Pos) : (mPos p).pending1 = p.pending0 := rfl

theorem isTransferred_mirror (ps : List Pos) (lo up : Int) :
    isTransferred (ps.map mPos) (-up) (-lo) = isTransferred ps lo up := by
  unfold isTransferred
  rw [findPos_mirror]
  cases findPos ps lo up <;> rfl

/-- the outcome of an operation on the mirror, expressed through the outcome on the original -/
def mRes (r : Res) : Res := (r.1, mState r.2)

theorem record_mirror (s : State) (a : Act) : Uni.record (mState s) a = mState (Uni.record s a) := rfl
theorem markUpdate_mirror (s : State) : markUpdate (mState s) = mState (markUpdate s) := rfl

theorem collectPos_mirror (cx : NumCtx) (p : Pos) (f0 f1 : Rat) :
    collectPos cx (mPos p) f1 f0 = mPos (collectPos cx p f0 f1) := rfl

/-! ### wallet updates on distinct present tokens commute -/

theorem alist_set_comm (w : Wallet) (k1 k2 : String) (v1 v2 : Rat) (hne : k1 ≠ k2) (h1 : Has w k1) (h2 : Has w k2) :
    AList.set (AList.set w k1 v1) k2 v2 = AList.set (AList.set w k2 v2) k1 v1 := by
  induction w with
  | nil => simp [Has, AList.get?] at h1
  | cons p ps ih =>
    obtain ⟨k, v⟩ := p
    by_cases e1 : k = k1
    · subst e1
      have e2 : k ≠ k2 := hne
      simp [AList.set, e2]
    · by_cases e2 : k = k2
      · subst e2
        simp [AList.set, e1]
      · have h1' : Has ps k1 := by
          unfold Has AList.get? at h1 ⊢; simpa [List.find?_cons, e1] using h1
        have h2' : Has ps k2 := by
          unfold Has AList.get? at h2 ⊢; simpa [List.find?_cons, e2] using h2
        simp [AList.set, e1, e2, ih h1' h2']

theorem has_iff_get {w : Wallet} {k : String} : Has w k ↔ ∃ b, AList.get? w k = some b := by
  unfold Has; cases AList.get? w k <;> simp

theorem credit_of_has {cx : NumCtx} {w : Wallet} {k : String} {b : Rat} (a : Rat) (h : AList.get? w k = some b) :
    Wallet.credit cx w k a = AList.set w k (assetAdd cx b a) := by
  unfold Wallet.credit; rw [h]

theorem credit_comm (cx : NumCtx) (w : Wallet) (k1 k2 : String) (a1 a2 : Rat) (hne : k1 ≠ k2) (h1 : Has w k1) (h2 : Has w k2) :
    Wallet.credit cx (Wallet.credit cx w k1 a1) k2 a2 = Wallet.credit cx (Wallet.credit cx w k2 a2) k1 a1 := by
  obtain ⟨b1, e1⟩ := has_iff_get.mp h1
  obtain ⟨b2, e2⟩ := has_iff_get.mp h2
  rw [credit_of_has a1 e1, credit_of_has a2 e2,
    credit_of_has a2 (by rw [alist_get_set_other _ _ _ _ hne.symm]; exact e2),
    credit_of_has a1 (by rw [alist_get_set_other _ _ _ _ hne]; exact e1)]
  exact alist_set_comm w k1 k2 _ _ hne h1 h2

theorem debit_of_has {cx : NumCtx} {w : Wallet} {k : String} {b : Rat} (a : Rat) (neg : Bool) (h : AList.get? w k = some b) :
    debit cx w k a neg = match assetSub cx b a neg with
      | some b' => .ok (AList.set w k b')
      | none => .error .assertion := by
  unfold debit Wallet.debit; rw [h]; simp only []; cases hs : assetSub cx b a neg <;> simp only []

theorem debit2_comm (cx : NumCtx) (w : Wallet) (k1 k2 : String) (a1 a2 : Rat) (neg : Bool) (hne : k1 ≠ k2)
    (h1 : Has w k1) (h2 : Has w k2) : debit2 cx w k1 a1 k2 a2 neg = debit2 cx w k2 a2 k1 a1 neg := by
  obtain ⟨b1, e1⟩ := has_iff_get.mp h1
  obtain ⟨b2, e2⟩ := has_iff_get.mp h2
  unfold debit2
  rw [debit_of_has a1 neg e1, debit_of_has a2 neg e2]
  cases hs1 : assetSub cx b1 a1 neg with
  | none =>
    cases hs2 : assetSub cx b2 a2 neg with
    | none => rfl
    | some b2' =>
      simp only []
      rw [debit_of_has a1 neg (by rw [alist_get_set_other _ _ _ _ hne]; exact e1), hs1]
  | some b1' =>
    simp only []
    rw [debit_of_has a2 neg (by rw [alist_get_set_other _ _ _ _ hne.symm]; exact e2)]
    cases hs2 : assetSub cx b2 a2 neg with
    | none => rfl
    | some b2' =>
      simp only []
      rw [debit_of_has a1 neg (by rw [alist_get_set_other _ _ _ _ hne]; exact e1), hs1]
      simp only []
      rw [alist_set_comm w k1 k2 _ _ hne h1 h2]

/-! ### collect -/

theorem collectWallet_mirror (cx : NumCtx) (pool : Pool) (w : Wallet) (tu : Bool) (f0 f1 : Rat)
    (hw : WalletHas pool w) (hne : pool.tok0 ≠ pool.tok1) :
    collectWallet cx (mPool pool) w tu f1 f0 = collectWallet cx pool w tu f0 f1 := by
  unfold collectWallet
  cases tu with
  | false => rfl
  | true => simp only [if_true, mPool_tok0, mPool_tok1]; exact credit_comm cx w _ _ _ _ hne.symm hw.2 hw.1

theorem isDry_mirror (p : Pos) (rd : Bool) : isDry (mPos p) rd = isDry p rd := by
  unfold isDry
  simp only [mPos_pending0, mPos_pending1, mPos_liq]
  cases (p.pending0 == 0) <;> cases (p.pending1 == 0) <;> rfl

theorem collectCore_mirror (K K' : Kern) (hcx : K'.cx = K.cx) (pool : Pool) (s : State) (lo up : Int) (p : Pos) (f0 f1 : Rat)
    (tu : Bool) (hw : WalletHas pool s.wallet) (hne : pool.tok0 ≠ pool.tok1) :
    collectCore K' (mPool pool) (mState s) (-up) (-lo) (mPos p) f1 f0 tu = mState (collectCore K pool s lo up p f0 f1 tu) := by
  unfold collectCore
  rw [hcx]
  simp only [mState_positions, mState_wallet]
  rw [mapPos_mirror s.positions lo up (fun _ => collectPos K.cx p f0 f1) (fun _ => collectPos K.cx (mPos p) f1 f0)
      (fun _ => collectPos_mirror K.cx p f0 f1),
    collectWallet_mirror K.cx pool s.wallet tu f0 f1 hw hne]
  rfl

theorem collectFinish_mirror (K K' : Kern) (hcx : K'.cx = K.cx) (pool : Pool) (s : State) (lo up : Int) (p : Pos) (f0 f1 : Rat)
    (rd tu : Bool) (bb qb : Rat) (hw : WalletHas pool s.wallet) (hne : pool.tok0 ≠ pool.tok1) :
    collectFinish K' (mPool pool) (mState s) (-up) (-lo) (mPos p) f1 f0 rd tu bb qb =
      mState (collectFinish K pool s lo up p f0 f1 rd tu bb qb) := by
  unfold collectFinish
  simp only [collectCore_mirror K K' hcx pool s lo up p f0 f1 tu hw hne, mPool_conv, hcx, collectPos_mirror, isDry_mirror,
    record_mirror]
  split
  · simp only [mState_positions, erasePos_mirror]; rfl
  · rfl

theorem collect_mirror {K K' : Kern} {pool : Pool} {ms : Nat → Nat} (hk : KernMirror K K' pool ms) (s : State)
    (lo up : Int) (m0 m1 : Option Rat) (rd tu : Bool) (hw : WalletHas pool s.wallet) (hne : pool.tok0 ≠ pool.tok1) :
    collect K' (mPool pool) (mState s) (-up) (-lo) m1 m0 rd tu = mRes (collect K pool s lo up m0 m1 rd tu) := by
  unfold collect
  rw [Bool.or_comm (negGiven m1) (negGiven m0)]
  simp only [mState_positions, findPos_mirror]
  split
  · rfl
  · cases hf : findPos s.positions lo up with
    | none => rfl
    | some p =>
      simp only [Option.map_some, mPos_transferred, mState_isOpen, mPos_pending0, mPos_pending1, mState_wallet, hk.cx,
        collectWallet_mirror K.cx pool s.wallet tu (capAt m0 p.pending0) (capAt m1 p.pending1) hw hne, mPool_baseTok,
        mPool_quoteTok, mPool_conv]
      split
      · rfl
      · split
        · rfl
        · split
          · simp only [mRes, collectFinish_mirror K K' hk.cx pool s lo up p _ _ rd tu _ _ hw hne]
          · simp only [mRes, collectCore_mirror K K' hk.cx pool s lo up p _ _ tu hw hne]
          · simp only [mRes, collectCore_mirror K K' hk.cx pool s lo up p _ _ tu hw hne]

/-! ### remove -/

@[simp] theorem priceOf_mirror (s : State) : priceOf (mState s) = priceOf s := by
  unfold priceOf mState
  cases s.row <;> rfl

theorem resolveSqrt_mirror {K K' : Kern} {pool : Pool} {ms : Nat → Nat} (hk : KernMirror K K' pool ms) (s : State) :
    resolveSqrt K' (mPool pool) (mState s) none = (resolveSqrt K pool s none).map ms := by
  unfold resolveSqrt
  simp only [priceOf_mirror]
  cases priceOf s with
  | error e => rfl
  | ok x => simp only [hk.priceToSqrt]

theorem removeDelta_mirror (l : Option Int) (p : Pos) : removeDelta l (mPos p) = removeDelta l p := by
  unfold removeDelta; cases l <;> rfl

theorem removePos_mirror (cx : NumCtx) (p : Pos) (d : Int) (dd : Bool) (g0 g1 : Rat) :
    removePos cx (mPos p) d dd g1 g0 = mPos (removePos cx p d dd g0 g1) := rfl

theorem removeCore_mirror (K K' : Kern) (hcx : K'.cx = K.cx) (s : State) (lo up : Int) (p : Pos) (d : Int) (dd : Bool) (g0 g1 : Rat) :
    removeCore K' (mState s) (-up) (-lo) (mPos p) d dd g1 g0 = mState (removeCore K s lo up p d dd g0 g1) := by
  unfold removeCore
  rw [hcx]
  simp only [mState_positions]
  rw [mapPos_mirror s.positions lo up (fun _ => removePos K.cx p d dd g0 g1) (fun _ => removePos K.cx (mPos p) d dd g1 g0)
      (fun _ => removePos_mirror K.cx p d dd g0 g1)]
  rfl

theorem removeAct_mirror (pool : Pool) (p' : Pos) (d : Int) (g0 g1 bb qb : Rat) :
    removeAct (mPool pool) (mPos p') d g1 g0 bb qb = removeAct pool p' d g0 g1 bb qb := by
  unfold removeAct; simp only [mPool_conv, mPos_liq]

theorem removeNoCollect_wallet (K : Kern) (pool : Pool) (s : State) (lo up : Int) (l : Option Int) (sq : Option Nat) :
    (removeNoCollect K pool s lo up l sq).2.wallet = s.wallet := by
  unfold removeNoCollect
  repeat' split
  all_goals rfl

theorem removeNoCollect_mirror {K K' : Kern} {pool : Pool} {ms : Nat → Nat} (hk : KernMirror K K' pool ms) (s : State)
    (lo up : Int) (l : Option Int) :
    removeNoCollect K' (mPool pool) (mState s) (-up) (-lo) l none = mRes (removeNoCollect K pool s lo up l none) := by
  unfold removeNoCollect
  simp only [mState_positions, isTransferred_mirror, mState_isOpen, resolveSqrt_mirror hk, findPos_mirror]
  split
  · rfl
  · split
    · rfl
    · split
      · rfl
      · cases hr : resolveSqrt K pool s none with
        | error e => rfl
        | ok sqrt =>
          simp only [Except.map]
          cases hf : findPos s.positions lo up with
          | none => rfl
          | some p =>
            simp only [Option.map_some, removeDelta_mirror, hk.amounts]
            cases ha : K.amounts pool sqrt lo up (removeDelta l p).1 (removeDelta l p).2 with
            | error e => rfl
            | ok g =>
              obtain ⟨g0, g1⟩ := g
              simp only [Except.map, mState_wallet, mPool_baseTok, mPool_quoteTok, mPool_conv, hk.cx, removePos_mirror,
                removeAct_mirror, removeCore_mirror K K' hk.cx, record_mirror]
              split <;> rfl

theorem remove_mirror {K K' : Kern} {pool : Pool} {ms : Nat → Nat} (hk : KernMirror K K' pool ms) (s : State)
    (lo up : Int) (l : Option Int) (c rd : Bool)
    (hw : WalletHas pool s.wallet) (hne : pool.tok0 ≠ pool.tok1) :
    remove K' (mPool pool) (mState s) (-up) (-lo) l c none rd = mRes (remove K pool s lo up l c none rd) := by
  unfold remove
  rw [removeNoCollect_mirror hk]
  cases hr : removeNoCollect K pool s lo up l none with
  | mk out s2 =>
    cases out with
    | error e => rfl
    | ok v =>
      simp only [mRes]
      cases c with
      | false => rfl
      | true =>
        simp only [if_true]
        have hw2 : WalletHas pool s2.wallet := by
          have := removeNoCollect_wallet K pool s lo up l none
          rw [hr] at this; rw [this]; exact hw
        exact collect_mirror hk s2 lo up none none rd true hw2 hne

/-! ### add -/

theorem pyMod_neg_zero (a : Int) (m : Nat) : (pyMod (-a) m == 0) = (pyMod a m == 0) := by
  unfold pyMod
  rw [Bool.eq_iff_iff]
  simp only [beq_iff_eq]
  rw [Int.emod_eq_zero_iff_dvd... ]

end Demeter.Uni
