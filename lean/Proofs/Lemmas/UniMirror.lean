/-
  Lemmas for C09: how the building blocks of the Uniswap market model commute with the token-order mirror.
-/
import Demeter.Uni.Mirror
import Proofs.Lemmas.UniWallet
import Proofs.Lemmas.UniInv
import Mathlib.Tactic.Linarith
namespace Demeter.Uni
open Demeter

@[simp] theorem mPool_conv {α : Type} (p : Pool) (x0 x1 : α) : (mPool p).conv x1 x0 = p.conv x0 x1 := by
  unfold Pool.conv mPool; cases p.q0 <;> rfl

@[simp] theorem mPool_baseTok (p : Pool) : (mPool p).baseTok = p.baseTok := by
  unfold Pool.baseTok mPool; cases p.q0 <;> rfl
@[simp] theorem mPool_quoteTok (p : Pool) : (mPool p).quoteTok = p.quoteTok := by
  unfold Pool.quoteTok mPool; cases p.q0 <;> rfl
@[simp] theorem mPool_tok0 (p : Pool) : (mPool p).tok0 = p.tok1 := rfl
@[simp] theorem mPool_tok1 (p : Pool) : (mPool p).tok1 = p.tok0 := rfl
@[simp] theorem mPool_feeRate (p : Pool) : (mPool p).feeRate = p.feeRate := rfl
@[simp] theorem mPool_spacing (p : Pool) : (mPool p).spacing = p.spacing := rfl

@[simp] theorem mState_isOpen (s : State) : (mState s).isOpen = s.isOpen := rfl
@[simp] theorem mState_wallet (s : State) : (mState s).wallet = s.wallet := rfl
@[simp] theorem mState_allowNeg (s : State) : (mState s).allowNeg = s.allowNeg := rfl
@[simp] theorem mState_positions (s : State) : (mState s).positions = s.positions.map mPos := rfl
@[simp] theorem mState_actions (s : State) : (mState s).actions = s.actions := rfl

theorem mPos_hasKey (p : Pos) (lo up : Int) : (mPos p).hasKey (-up) (-lo) = p.hasKey lo up := by
  unfold Pos.hasKey mPos
  rw [Bool.eq_iff_iff]
  simp only [Bool.and_eq_true, beq_iff_eq, Int.neg_inj]
  exact and_comm

theorem findPos_mirror (ps : List Pos) (lo up : Int) :
    findPos (ps.map mPos) (-up) (-lo) = (findPos ps lo up).map mPos := by
  unfold findPos
  induction ps with
  | nil => rfl
  | cons p ps ih =>
    simp only [List.map_cons, List.find?_cons, mPos_hasKey]
    cases p.hasKey lo up <;> simp [ih]

theorem mapPos_mirror (ps : List Pos) (lo up : Int) (f g : Pos → Pos) (h : ∀ p, g (mPos p) = mPos (f p)) :
    mapPos (ps.map mPos) (-up) (-lo) g = (mapPos ps lo up f).map mPos := by
  unfold mapPos
  induction ps with
  | nil => rfl
  | cons p ps ih =>
    simp only [List.map_cons, mPos_hasKey, ih]
    cases p.hasKey lo up <;> simp [h]

theorem erasePos_mirror (ps : List Pos) (lo up : Int) :
    erasePos (ps.map mPos) (-up) (-lo) = (erasePos ps lo up).map mPos := by
  unfold erasePos
  induction ps with
  | nil => rfl
  | cons p ps ih =>
    simp only [List.map_cons, List.filter_cons, mPos_hasKey, ih]
    cases p.hasKey lo up <;> simp

@[simp] theorem mPos_transferred (p : Pos) : (mPos p).transferred = p.transferred := rfl
@[simp] theorem mPos_liq (p : Pos) : (mPos p).liq = p.liq := rfl
@[simp] theorem mPos_liqDec (p : Pos) : (mPos p).liqDec = p.liqDec := rfl
@[simp] theorem mPos_pending0 (p : Pos) : (mPos p).pending0 = p.pending1 := rfl
@[simp] theorem mPos_pending1 (p : Pos) : (mPos p).pending1 = p.pending0 := rfl

theorem isTransferred_mirror (ps : List Pos) (lo up : Int) :
    isTransferred (ps.map mPos) (-up) (-lo) = isTransferred ps lo up := by
  unfold isTransferred
  rw [findPos_mirror]
  cases findPos ps lo up <;> rfl

/-- the outcome of an operation on the mirror, expressed through the outcome on the original -/
def mRes (r : Res) : Res := (r.1, mState r.2)

theorem record_mirror (s : State) (a : Act) : Uni.record (mState s) a = mState (Uni.record s a) := rfl
theorem markUpdate_mirror (s : State) : markUpdate (mState s) = mState (markUpdate s) := rfl

theorem collectPos_mirror (cx : NumCtx) (p : Pos) (f0 f1 : Rat) :
    collectPos cx (mPos p) f1 f0 = mPos (collectPos cx p f0 f1) := rfl

/-! ### wallet updates on distinct present tokens commute -/

theorem alist_set_comm (w : Wallet) (k1 k2 : String) (v1 v2 : Rat) (hne : k1 ≠ k2) (h1 : Has w k1) (h2 : Has w k2) :
    AList.set (AList.set w k1 v1) k2 v2 = AList.set (AList.set w k2 v2) k1 v1 := by
  induction w with
  | nil => simp [Has, AList.get?] at h1
  | cons p ps ih =>
    obtain ⟨k, v⟩ := p
    by_cases e1 : k = k1
    · subst e1
      have e2 : k ≠ k2 := hne
      simp [AList.set, e2]
    · by_cases e2 : k = k2
      · subst e2
        simp [AList.set, e1]
      · have h1' : Has ps k1 := by
          unfold Has AList.get? at h1 ⊢; simpa [List.find?_cons, e1] using h1
        have h2' : Has ps k2 := by
          unfold Has AList.get? at h2 ⊢; simpa [List.find?_cons, e2] using h2
        simp [AList.set, e1, e2, ih h1' h2']

theorem has_iff_get {w : Wallet} {k : String} : Has w k ↔ ∃ b, AList.get? w k = some b := by
  unfold Has; cases AList.get? w k <;> simp

theorem credit_of_has {cx : NumCtx} {w : Wallet} {k : String} {b : Rat} (a : Rat) (h : AList.get? w k = some b) :
    Wallet.credit cx w k a = AList.set w k (assetAdd cx b a) := by
  unfold Wallet.credit; rw [h]

theorem credit_comm (cx : NumCtx) (w : Wallet) (k1 k2 : String) (a1 a2 : Rat) (hne : k1 ≠ k2) (h1 : Has w k1) (h2 : Has w k2) :
    Wallet.credit cx (Wallet.credit cx w k1 a1) k2 a2 = Wallet.credit cx (Wallet.credit cx w k2 a2) k1 a1 := by
  obtain ⟨b1, e1⟩ := has_iff_get.mp h1
  obtain ⟨b2, e2⟩ := has_iff_get.mp h2
  rw [credit_of_has a1 e1, credit_of_has a2 e2,
    credit_of_has a2 (by rw [alist_get_set_other _ _ _ _ hne.symm]; exact e2),
    credit_of_has a1 (by rw [alist_get_set_other _ _ _ _ hne]; exact e1)]
  exact alist_set_comm w k1 k2 _ _ hne h1 h2

theorem debit_of_has {cx : NumCtx} {w : Wallet} {k : String} {b : Rat} (a : Rat) (neg : Bool) (h : AList.get? w k = some b) :
    debit cx w k a neg = match assetSub cx b a neg with
      | some b' => .ok (AList.set w k b')
      | none => .error .assertion := by
  unfold debit Wallet.debit; rw [h]; simp only []; cases hs : assetSub cx b a neg <;> simp only []

theorem debit2_comm (cx : NumCtx) (w : Wallet) (k1 k2 : String) (a1 a2 : Rat) (neg : Bool) (hne : k1 ≠ k2)
    (h1 : Has w k1) (h2 : Has w k2) : debit2 cx w k1 a1 k2 a2 neg = debit2 cx w k2 a2 k1 a1 neg := by
  obtain ⟨b1, e1⟩ := has_iff_get.mp h1
  obtain ⟨b2, e2⟩ := has_iff_get.mp h2
  unfold debit2
  rw [debit_of_has a1 neg e1, debit_of_has a2 neg e2]
  cases hs1 : assetSub cx b1 a1 neg with
  | none =>
    cases hs2 : assetSub cx b2 a2 neg with
    | none => rfl
    | some b2' =>
      simp only []
      rw [debit_of_has a1 neg (by rw [alist_get_set_other _ _ _ _ hne]; exact e1), hs1]
  | some b1' =>
    simp only []
    rw [debit_of_has a2 neg (by rw [alist_get_set_other _ _ _ _ hne.symm]; exact e2)]
    cases hs2 : assetSub cx b2 a2 neg with
    | none => rfl
    | some b2' =>
      simp only []
      rw [debit_of_has a1 neg (by rw [alist_get_set_other _ _ _ _ hne]; exact e1), hs1]
      simp only []
      rw [alist_set_comm w k1 k2 _ _ hne h1 h2]

/-! ### collect -/

theorem collectWallet_mirror (cx : NumCtx) (pool : Pool) (w : Wallet) (tu : Bool) (f0 f1 : Rat)
    (hw : WalletHas pool w) (hne : pool.tok0 ≠ pool.tok1) :
    collectWallet cx (mPool pool) w tu f1 f0 = collectWallet cx pool w tu f0 f1 := by
  unfold collectWallet
  cases tu with
  | false => rfl
  | true => simp only [if_true, mPool_tok0, mPool_tok1]; exact credit_comm cx w _ _ _ _ hne.symm hw.2 hw.1

theorem isDry_mirror (p : Pos) (rd : Bool) : isDry (mPos p) rd = isDry p rd := by
  unfold isDry
  simp only [mPos_pending0, mPos_pending1, mPos_liq]
  cases (p.pending0 == 0) <;> cases (p.pending1 == 0) <;> rfl

theorem collectCore_mirror (K K' : Kern) (hcx : K'.cx = K.cx) (pool : Pool) (s : State) (lo up : Int) (p : Pos) (f0 f1 : Rat)
    (tu : Bool) (hw : WalletHas pool s.wallet) (hne : pool.tok0 ≠ pool.tok1) :
    collectCore K' (mPool pool) (mState s) (-up) (-lo) (mPos p) f1 f0 tu = mState (collectCore K pool s lo up p f0 f1 tu) := by
  unfold collectCore
  rw [hcx]
  simp only [mState_positions, mState_wallet]
  rw [mapPos_mirror s.positions lo up (fun _ => collectPos K.cx p f0 f1) (fun _ => collectPos K.cx (mPos p) f1 f0)
      (fun _ => collectPos_mirror K.cx p f0 f1),
    collectWallet_mirror K.cx pool s.wallet tu f0 f1 hw hne]
  rfl

theorem collectFinish_mirror (K K' : Kern) (hcx : K'.cx = K.cx) (pool : Pool) (s : State) (lo up : Int) (p : Pos) (f0 f1 : Rat)
    (rd tu : Bool) (bb qb : Rat) (hw : WalletHas pool s.wallet) (hne : pool.tok0 ≠ pool.tok1) :
    collectFinish K' (mPool pool) (mState s) (-up) (-lo) (mPos p) f1 f0 rd tu bb qb =
      mState (collectFinish K pool s lo up p f0 f1 rd tu bb qb) := by
  unfold collectFinish
  simp only [collectCore_mirror K K' hcx pool s lo up p f0 f1 tu hw hne, mPool_conv, hcx, collectPos_mirror, isDry_mirror,
    record_mirror]
  split
  · simp only [mState_positions, erasePos_mirror]; rfl
  · rfl

theorem collect_mirror {K K' : Kern} {pool : Pool} {ms : Nat → Nat} (hk : KernMirror K K' pool ms) (s : State)
    (lo up : Int) (m0 m1 : Option Rat) (rd tu : Bool) (hw : WalletHas pool s.wallet) (hne : pool.tok0 ≠ pool.tok1) :
    collect K' (mPool pool) (mState s) (-up) (-lo) m1 m0 rd tu = mRes (collect K pool s lo up m0 m1 rd tu) := by
  unfold collect
  rw [Bool.or_comm (negGiven m1) (negGiven m0)]
  simp only [mState_positions, findPos_mirror]
  split
  · rfl
  · cases hf : findPos s.positions lo up with
    | none => rfl
    | some p =>
      simp only [Option.map_some, mPos_transferred, mState_isOpen, mPos_pending0, mPos_pending1, mState_wallet, hk.cx,
        collectWallet_mirror K.cx pool s.wallet tu (capAt m0 p.pending0) (capAt m1 p.pending1) hw hne, mPool_baseTok,
        mPool_quoteTok, mPool_conv]
      split
      · rfl
      · split
        · rfl
        · split
          · simp only [mRes, collectFinish_mirror K K' hk.cx pool s lo up p _ _ rd tu _ _ hw hne]
          · simp only [mRes, collectCore_mirror K K' hk.cx pool s lo up p _ _ tu hw hne]
          · simp only [mRes, collectCore_mirror K K' hk.cx pool s lo up p _ _ tu hw hne]

/-! ### remove -/

@[simp] theorem priceOf_mirror (s : State) : priceOf (mState s) = priceOf s := by
  unfold priceOf mState
  cases s.row <;> rfl

theorem resolveSqrt_mirror {K K' : Kern} {pool : Pool} {ms : Nat → Nat} (hk : KernMirror K K' pool ms) (s : State) :
    resolveSqrt K' (mPool pool) (mState s) none = (resolveSqrt K pool s none).map ms := by
  unfold resolveSqrt
  simp only [priceOf_mirror]
  cases priceOf s with
  | error e => rfl
  | ok x => simp only [hk.priceToSqrt]

theorem removeDelta_mirror (l : Option Int) (p : Pos) : removeDelta l (mPos p) = removeDelta l p := by
  unfold removeDelta; cases l <;> rfl

theorem removePos_mirror (cx : NumCtx) (p : Pos) (d : Int) (dd : Bool) (g0 g1 : Rat) :
    removePos cx (mPos p) d dd g1 g0 = mPos (removePos cx p d dd g0 g1) := rfl

theorem removeCore_mirror (K K' : Kern) (hcx : K'.cx = K.cx) (s : State) (lo up : Int) (p : Pos) (d : Int) (dd : Bool) (g0 g1 : Rat) :
    removeCore K' (mState s) (-up) (-lo) (mPos p) d dd g1 g0 = mState (removeCore K s lo up p d dd g0 g1) := by
  unfold removeCore
  rw [hcx]
  simp only [mState_positions]
  rw [mapPos_mirror s.positions lo up (fun _ => removePos K.cx p d dd g0 g1) (fun _ => removePos K.cx (mPos p) d dd g1 g0)
      (fun _ => removePos_mirror K.cx p d dd g0 g1)]
  rfl

theorem removeAct_mirror (pool : Pool) (p' : Pos) (d : Int) (g0 g1 bb qb : Rat) :
    removeAct (mPool pool) (mPos p') d g1 g0 bb qb = removeAct pool p' d g0 g1 bb qb := by
  unfold removeAct; simp only [mPool_conv, mPos_liq]

theorem removeNoCollect_wallet (K : Kern) (pool : Pool) (s : State) (lo up : Int) (l : Option Int) (sq : Option Nat) :
    (removeNoCollect K pool s lo up l sq).2.wallet = s.wallet := by
  unfold removeNoCollect
  repeat' split
  all_goals rfl

theorem removeNoCollect_mirror {K K' : Kern} {pool : Pool} {ms : Nat → Nat} (hk : KernMirror K K' pool ms) (s : State)
    (lo up : Int) (l : Option Int) :
    removeNoCollect K' (mPool pool) (mState s) (-up) (-lo) l none = mRes (removeNoCollect K pool s lo up l none) := by
  unfold removeNoCollect
  simp only [mState_positions, isTransferred_mirror, mState_isOpen, resolveSqrt_mirror hk, findPos_mirror]
  split
  · rfl
  · split
    · rfl
    · split
      · rfl
      · cases hr : resolveSqrt K pool s none with
        | error e => rfl
        | ok sqrt =>
          simp only [Except.map]
          cases hf : findPos s.positions lo up with
          | none => rfl
          | some p =>
            simp only [Option.map_some, removeDelta_mirror, hk.amounts]
            cases ha : K.amounts pool sqrt lo up (removeDelta l p).1 (removeDelta l p).2 with
            | error e => rfl
            | ok g =>
              obtain ⟨g0, g1⟩ := g
              simp only [Except.map, mState_wallet, mPool_baseTok, mPool_quoteTok, mPool_conv, hk.cx, removePos_mirror,
                removeAct_mirror, removeCore_mirror K K' hk.cx, record_mirror]
              split <;> rfl

theorem remove_mirror {K K' : Kern} {pool : Pool} {ms : Nat → Nat} (hk : KernMirror K K' pool ms) (s : State)
    (lo up : Int) (l : Option Int) (c rd : Bool)
    (hw : WalletHas pool s.wallet) (hne : pool.tok0 ≠ pool.tok1) :
    remove K' (mPool pool) (mState s) (-up) (-lo) l c none rd = mRes (remove K pool s lo up l c none rd) := by
  unfold remove
  rw [removeNoCollect_mirror hk]
  cases hr : removeNoCollect K pool s lo up l none with
  | mk out s2 =>
    cases out with
    | error e => rfl
    | ok v =>
      simp only [mRes]
      cases c with
      | false => rfl
      | true =>
        simp only [if_true]
        have hw2 : WalletHas pool s2.wallet := by
          have := removeNoCollect_wallet K pool s lo up l none
          rw [hr] at this; rw [this]; exact hw
        exact collect_mirror hk s2 lo up none none rd true hw2 hne

/-! ### add -/

theorem pyMod_neg_zero (a : Int) (m : Nat) : (pyMod (-a) m == 0) = (pyMod a m == 0) := by
  unfold pyMod
  rw [Bool.eq_iff_iff]
  simp only [beq_iff_eq]
  constructor <;> intro h
  · exact Int.emod_eq_zero_of_dvd ((Int.dvd_neg).mp (Int.dvd_of_emod_eq_zero h))
  · exact Int.emod_eq_zero_of_dvd ((Int.dvd_neg).mpr (Int.dvd_of_emod_eq_zero h))

/-- errors of `tick_to_base_unit_price` are the tick-bound assertion -/
def TickErr (K : Kern) (pool : Pool) : Prop := ∀ t e, K.tickToPrice pool t = .error e → e = Err.assertion

theorem mkPos_mirror (lo up liq : Int) (lp upp ip : Rat) : mPos (mkPos lo up liq lp upp ip) = mkPos (-up) (-lo) liq lp upp ip := rfl

theorem newEntity_mirror {K K' : Kern} {pool : Pool} {ms : Nat → Nat} (hk : KernMirror K K' pool ms) (ht : TickErr K pool)
    (s : State) (lo up liq : Int) (sqrt : Nat) :
    newEntity K' (mPool pool) (mState s) (-up) (-lo) liq (ms sqrt) = (newEntity K pool s lo up liq sqrt).map (Option.map mPos) := by
  unfold newEntity
  simp only [mState_positions, findPos_mirror, hk.tickToPrice, hk.sqrtToPrice]
  cases hf : findPos s.positions lo up with
  | some p => rfl
  | none =>
    simp only [Option.map_none]
    cases h1 : K.tickToPrice pool lo with
    | error e1 =>
      have := ht _ _ h1; subst this
      cases h2 : K.tickToPrice pool up with
      | error e2 => have := ht _ _ h2; subst this; rfl
      | ok upp => rfl
    | ok lp =>
      cases h2 : K.tickToPrice pool up with
      | error e2 => rfl
      | ok upp =>
        cases h3 : K.sqrtToPrice pool sqrt with
        | error e3 => rfl
        | ok ip =>
          simp only [Except.map, Option.map_some, mPool]
          by_cases hq : pool.q0 = true
          · simp only [hq, Bool.not_true, Bool.false_eq_true, if_false, if_true, mkPos_mirror]
          · have hq' : pool.q0 = false := by simpa using hq
            simp only [hq', Bool.not_false, if_true, Bool.false_eq_true, if_false, mkPos_mirror]

theorem addToPositions_mirror (ps : List Pos) (lo up liq : Int) (ent : Option Pos) :
    addToPositions (ps.map mPos) (-up) (-lo) liq (ent.map mPos) = (addToPositions ps lo up liq ent).map mPos := by
  cases ent with
  | none =>
    simp only [addToPositions, Option.map_none]
    exact mapPos_mirror ps lo up _ _ (fun _ => rfl)
  | some p => simp [addToPositions]

theorem addRaw_mirror {K K' : Kern} {pool : Pool} {ms : Nat → Nat} (hk : KernMirror K K' pool ms) (ht : TickErr K pool)
    (s : State) (a0 a1 : Rat) (lo up : Int) (hw : WalletHas pool s.wallet) (hne : pool.tok0 ≠ pool.tok1) :
    addRaw K' (mPool pool) (mState s) a1 a0 (-up) (-lo) none =
      ((addRaw K pool s a0 a1 lo up none).1.map (fun r => (-r.2.1, -r.1, r.2.2.2.1, r.2.2.1, r.2.2.2.2)),
       mState (addRaw K pool s a0 a1 lo up none).2) := by
  unfold addRaw
  have hgt : (-up > -lo) ↔ (lo > up) := by constructor <;> intro h <;> omega
  simp only [mState_isOpen, mPool_spacing, pyMod_neg_zero, resolveSqrt_mirror hk, hgt,
    Bool.and_comm (pyMod up pool.spacing == 0), Bool.or_comm (decide (a1 < 0))]
  split
  · rfl
  · split
    · rfl
    · cases hr : resolveSqrt K pool s none with
      | error e => rfl
      | ok sqrt =>
        simp only [Except.map]
        split
        · rfl
        · split
          · rfl
          · simp only [hk.newPos]
            cases hn : K.newPos pool sqrt lo up a0 a1 with
            | error e => rfl
            | ok r =>
              obtain ⟨u0, u1, liq⟩ := r
              simp only [Except.map, newEntity_mirror hk ht]
              cases he : newEntity K pool s lo up liq sqrt with
              | error e => rfl
              | ok ent =>
                simp only [Except.map, hk.cx, mState_wallet, mState_allowNeg, mPool_tok0, mPool_tok1,
                  debit2_comm K.cx s.wallet pool.tok1 pool.tok0 u1 u0 s.allowNeg hne.symm hw.2 hw.1]
                cases hd : debit2 K.cx s.wallet pool.tok0 u0 pool.tok1 u1 s.allowNeg with
                | error e => rfl
                | ok w2 =>
                  simp only [Except.map, mState_positions, addToPositions_mirror]
                  rfl

theorem addRaw_wallet_has {K : Kern} {pool : Pool} {s s' : State} {a0 a1 : Rat} {lo up : Int} {sq : Option Nat}
    {v : Int × Int × Rat × Rat × Int} (h : addRaw K pool s a0 a1 lo up sq = (.ok v, s')) : True := trivial

theorem roundHalfEvenNat_zero (d : Nat) : roundHalfEvenNat 0 d = 0 := by
  unfold roundHalfEvenNat
  simp only [Nat.zero_div, Nat.zero_mod, Nat.mul_zero]
  split
  · rfl
  · split
    · rename_i h; omega
    · rfl

theorem roundDivHalfEven_neg (t : Int) (sp : Nat) : roundDivHalfEven (-t) sp = -roundDivHalfEven t sp := by
  unfold roundDivHalfEven
  simp only [Int.natAbs_neg]
  by_cases h0 : t = 0
  · subst h0; simp [roundHalfEvenNat_zero]
  · by_cases hneg : t < 0
    · have h1 : ¬ (-t < 0) := by omega
      simp only [hneg, h1, if_true, if_false, Int.neg_neg]
    · have h1 : -t < 0 := by omega
      simp only [hneg, h1, if_true, if_false]

theorem clamp_neg (r sp : Int) (B : Nat) :
    (if -r < -(B : Int) then -r + sp else if -r > (B : Int) then -r - sp else -r) =
      -(if r < -(B : Int) then r + sp else if r > (B : Int) then r - sp else r) := by
  split <;> split <;> (try split) <;> (try split) <;> omega

theorem nearestUsable_neg (t : Int) (sp : Nat) : nearestUsable (-t) sp = -nearestUsable t sp := by
  unfold nearestUsable minTick maxTick
  simp only [roundDivHalfEven_neg, Int.neg_mul]
  exact clamp_neg _ _ _

theorem mPool_conv' {α : Type} (p : Pool) (b q : α) : (mPool p).conv b q = ((p.conv b q).2, (p.conv b q).1) := by
  unfold Pool.conv mPool; cases p.q0 <;> rfl

theorem stripLog_mState (s : State) : stripLog (mState s) = mState (stripLog s) := rfl
theorem stripLog_record (s : State) (a : Act) : stripLog (Uni.record s a) = stripLog s := rfl

theorem addRaw_ok_walletHas {K : Kern} {pool : Pool} {s s' : State} {a0 a1 : Rat} {lo up : Int} {sq : Option Nat}
    {v : Int × Int × Rat × Rat × Int} (h : addRaw K pool s a0 a1 lo up sq = (.ok v, s')) (hw : WalletHas pool s.wallet) :
    WalletHas pool s'.wallet := by
  have := addRaw_wrel K pool s a0 a1 lo up sq
  rw [h] at this
  exact ⟨this.1 _ hw.1, this.1 _ hw.2⟩

theorem addRaw_key {K : Kern} {pool : Pool} {s s' : State} {a0 a1 : Rat} {lo up : Int} {sq : Option Nat}
    {l u : Int} {u0 u1 : Rat} {liq : Int} (h : addRaw K pool s a0 a1 lo up sq = (.ok (l, u, u0, u1, liq), s')) :
    l = lo ∧ u = up := by
  unfold addRaw at h
  repeat' split at h
  all_goals first
    | (injection h with h1 _; cases h1 <;> exact ⟨rfl, rfl⟩)

/-- `addAndLog` on the mirror: same outcome (position key mirrored), mirrored state; the action record carries
    whatever prices the caller passes -/
theorem addAndLog_mirror {K K' : Kern} {pool : Pool} {ms : Nat → Nat} (hk : KernMirror K K' pool ms) (ht : TickErr K pool)
    (s : State) (b q : Rat) (lo up : Int) (lp upp lp' upp' : Rat) (hw : WalletHas pool s.wallet) (hne : pool.tok0 ≠ pool.tok1) :
    (addAndLog K' (mPool pool) (mState s) b q (-up) (-lo) none lp' upp').1 =
        (addAndLog K pool s b q lo up none lp upp).1.map mKeyResult ∧
    stripLog (addAndLog K' (mPool pool) (mState s) b q (-up) (-lo) none lp' upp').2 =
        stripLog (mState (addAndLog K pool s b q lo up none lp upp).2) ∧
    ((lp' = lp ∧ upp' = upp) → (addAndLog K' (mPool pool) (mState s) b q (-up) (-lo) none lp' upp').2 =
        mState (addAndLog K pool s b q lo up none lp upp).2) := by
  unfold addAndLog
  simp only [mPool_conv' pool b q]
  rw [addRaw_mirror hk ht s (pool.conv b q).1 (pool.conv b q).2 lo up hw hne]
  cases hr : addRaw K pool s (pool.conv b q).1 (pool.conv b q).2 lo up none with
  | mk out s1 =>
    cases out with
    | error e => exact ⟨rfl, rfl, fun _ => rfl⟩
    | ok v =>
      obtain ⟨l, u, u0, u1, liq⟩ := v
      simp only [Except.map, mPool_conv, mState_wallet, mPool_baseTok, mPool_quoteTok]
      cases hb : balanceOf s1.wallet pool.baseTok with
      | error e => exact ⟨rfl, rfl, fun _ => rfl⟩
      | ok bb =>
        cases hq : balanceOf s1.wallet pool.quoteTok with
        | error e => exact ⟨rfl, rfl, fun _ => rfl⟩
        | ok qb =>
          refine ⟨?_, rfl, ?_⟩
          · have hv := addRaw_key hr
            simp only [Except.map, mKeyResult, hv.1, hv.2, Int.cast_neg]
          · rintro ⟨rfl, rfl⟩; rfl

/-- outcome and economic state of an operation on the mirror vs. on the original -/
def MirrorStep (op : Op) (r r' : Res) : Prop :=
  r'.1 = r.1.map (mResult op) ∧ stripLog r'.2 = stripLog (mState r.2)

theorem MirrorStep.ofEq {op : Op} {r r' : Res} (h : r' = mRes r) (hres : ∀ v, r.1 = .ok v → mResult op v = v) : MirrorStep op r r' := by
  subst h
  refine ⟨?_, rfl⟩
  cases hr : r.1 with
  | error e => simp [mRes, hr, Except.map]
  | ok v => simp [mRes, hr, Except.map, hres v hr]

theorem addByTick_mirror {K K' : Kern} {pool : Pool} {ms : Nat → Nat} (hk : KernMirror K K' pool ms) (ht : TickErr K pool)
    (s : State) (lo up : Int) (b q : Option Rat) (trim : Bool) (hw : WalletHas pool s.wallet) (hne : pool.tok0 ≠ pool.tok1) :
    MirrorStep (.addByTick lo up b q none none trim) (addByTick K pool s lo up b q none none trim)
      (addByTick K' (mPool pool) (mState s) (-up) (-lo) b q none none trim) := by
  unfold addByTick
  -- the ticks after trimming and ordering are mirrored
  have key : ∀ (l u : Int),
      (if -u > -l then (-l, -u) else (-u, -l)) = (-(if l > u then (u, l) else (l, u)).2, -(if l > u then (u, l) else (l, u)).1) := by
    intro l u; by_cases h : l > u
    · have : -u > -l := by omega
      simp [h, this]
    · have : ¬ (-u > -l) := by omega
      simp [h, this]
  simp only [mPool_spacing, sqrtOrTick, mState_wallet, mPool_baseTok, mPool_quoteTok]
  cases trim with
  | true =>
    simp only [if_true, nearestUsable_neg, key]
    cases hb : orBalance s.wallet pool.baseTok b with
    | error e => exact ⟨rfl, rfl⟩
    | ok bv =>
      cases hq : orBalance s.wallet pool.quoteTok q with
      | error e => exact ⟨rfl, rfl⟩
      | ok qv =>
        simp only []
        have h := addAndLog_mirror hk ht s bv qv
          (if nearestUsable lo pool.spacing > nearestUsable up pool.spacing then (nearestUsable up pool.spacing, nearestUsable lo pool.spacing) else (nearestUsable lo pool.spacing, nearestUsable up pool.spacing)).1
          (if nearestUsable lo pool.spacing > nearestUsable up pool.spacing then (nearestUsable up pool.spacing, nearestUsable lo pool.spacing) else (nearestUsable lo pool.spacing, nearestUsable up pool.spacing)).2
        exact ⟨(h _ _ _ _ hw hne).1, (h _ _ _ _ hw hne).2.1⟩
  | false =>
    simp only [Bool.false_eq_true, if_false, key]
    cases hb : orBalance s.wallet pool.baseTok b with
    | error e => exact ⟨rfl, rfl⟩
    | ok bv =>
      cases hq : orBalance s.wallet pool.quoteTok q with
      | error e => exact ⟨rfl, rfl⟩
      | ok qv =>
        simp only []
        have h := addAndLog_mirror hk ht s bv qv (if lo > up then (up, lo) else (lo, up)).1 (if lo > up then (up, lo) else (lo, up)).2
        exact ⟨(h _ _ _ _ hw hne).1, (h _ _ _ _ hw hne).2.1⟩

theorem addByPrice_mirror {K K' : Kern} {pool : Pool} {ms : Nat → Nat} (hk : KernMirror K K' pool ms) (ht : TickErr K pool)
    (s : State) (lp up : Rat) (lt ut : Int) (q b : Option Rat) (hw : WalletHas pool s.wallet) (hne : pool.tok0 ≠ pool.tok1) :
    MirrorStep (.addByPrice lp up lt ut q b) (addByPrice K pool s lp up lt ut q b)
      (addByPrice K' (mPool pool) (mState s) lp up (-lt) (-ut) q b) := by
  unfold addByPrice
  simp only [mPool_spacing, mState_wallet, mPool_baseTok, mPool_quoteTok]
  cases hb : orBalance s.wallet pool.baseTok b with
  | error e => exact ⟨rfl, rfl⟩
  | ok bv =>
    cases hq : orBalance s.wallet pool.quoteTok q with
    | error e => exact ⟨rfl, rfl⟩
    | ok qv =>
      simp only []
      have key : (if (mPool pool).q0 = true then (-ut, -lt) else (-lt, -ut)) =
          (-(if pool.q0 = true then (ut, lt) else (lt, ut)).2, -(if pool.q0 = true then (ut, lt) else (lt, ut)).1) := by
        unfold mPool; cases pool.q0 <;> rfl
      rw [key]
      simp only [nearestUsable_neg]
      have h := addAndLog_mirror hk ht s bv qv
        (nearestUsable (if pool.q0 = true then (ut, lt) else (lt, ut)).1 pool.spacing)
        (nearestUsable (if pool.q0 = true then (ut, lt) else (lt, ut)).2 pool.spacing) lp up lp up hw hne
      exact ⟨h.1, h.2.1⟩

theorem swapPrice_mirror {K K' : Kern} (hcx : K'.cx = K.cx) (pool : Pool) (s : State) (f : String) (g : Option Rat) :
    swapPrice K' (mPool pool) (mState s) f g = swapPrice K pool s f g := by
  unfold swapPrice
  cases g with
  | some p => rfl
  | none => simp only [priceOf_mirror, mPool_baseTok, hcx]

theorem swap_mirror {K K' : Kern} (hcx : K'.cx = K.cx) (pool : Pool) (s : State) (a : Rat) (f t : String) (p : Option Rat)
    (log : Bool) :
    swap K' (mPool pool) (mState s) a f t p log = ((swap K pool s a f t p log).1, mState (swap K pool s a f t p log).2) := by
  unfold swap
  simp only [mPool_baseTok, mPool_quoteTok, swapPrice_mirror hcx, mState_wallet, mState_allowNeg, hcx, mPool_feeRate]
  repeat' split
  all_goals rfl

theorem orMarketPrice_mirror (s : State) (g : Option Rat) : orMarketPrice (mState s) g = orMarketPrice s g := by
  unfold orMarketPrice; cases g <;> simp

theorem buy_mirror {K K' : Kern} (hcx : K'.cx = K.cx) (pool : Pool) (s : State) (a : Rat) (p : Option Rat) :
    buy K' (mPool pool) (mState s) a p = mRes (buy K pool s a p) := by
  unfold buy
  simp only [mPool_baseTok, mPool_quoteTok, mPool_feeRate, hcx, swap_mirror hcx, mState_wallet, orMarketPrice_mirror]
  split
  · rfl
  · cases orMarketPrice s (givenPrice p) with
    | error e => rfl
    | ok price =>
      simp only []
      split
      · rfl
      · split
        · rfl
        · generalize swap K pool s (K.cx.div (K.cx.mul a price) (K.cx.sub 1 pool.feeRate)) pool.quoteTok pool.baseTok
            (some (K.cx.div 1 price)) false = r
          obtain ⟨out, s1⟩ := r
          cases out with
          | error e => rfl
          | ok v =>
            obtain ⟨fee, got⟩ := v
            simp only [mState_wallet]
            cases balanceOf s1.wallet pool.baseTok <;> cases balanceOf s1.wallet pool.quoteTok <;> rfl

theorem sell_mirror {K K' : Kern} (hcx : K'.cx = K.cx) (pool : Pool) (s : State) (a : Rat) (p : Option Rat) :
    sell K' (mPool pool) (mState s) a p = mRes (sell K pool s a p) := by
  unfold sell
  simp only [mPool_baseTok, mPool_quoteTok, mPool_feeRate, hcx, swap_mirror hcx, mState_wallet, orMarketPrice_mirror]
  split
  · rfl
  · cases orMarketPrice s (givenPrice p) with
    | error e => rfl
    | ok price =>
      simp only []
      generalize swap K pool s a pool.baseTok pool.quoteTok (some price) false = r
      obtain ⟨out, s1⟩ := r
      cases out with
      | error e => rfl
      | ok v =>
        obtain ⟨fee, got⟩ := v
        simp only [mState_wallet]
        cases balanceOf s1.wallet pool.baseTok <;> cases balanceOf s1.wallet pool.quoteTok <;> rfl

theorem evenRebalance_mirror {K K' : Kern} (hcx : K'.cx = K.cx) (pool : Pool) (s : State) (p : Option Rat) :
    evenRebalance K' (mPool pool) (mState s) p = mRes (evenRebalance K pool s p) := by
  unfold evenRebalance
  simp only [orMarketPrice_mirror, mPool_baseTok, mPool_quoteTok, mPool_feeRate, hcx, mState_wallet, buy_mirror hcx, sell_mirror hcx]
  cases orMarketPrice s p with
  | error e => rfl
  | ok price =>
    simp only []
    cases balanceOf s.wallet pool.quoteTok with
    | error e => rfl
    | ok q =>
      cases balanceOf s.wallet pool.baseTok with
      | error e => rfl
      | ok b =>
        simp only []
        split
        · rfl
        · split
          · generalize buy K pool s _ none = r
            obtain ⟨out, s1⟩ := r
            cases out <;> rfl
          · split
            · generalize sell K pool s _ none = r
              obtain ⟨out, s1⟩ := r
              cases out <;> rfl
            · rfl

theorem transferOut_mirror (s : State) (lo up : Int) : transferOut (mState s) (-up) (-lo) = mRes (transferOut s lo up) := by
  unfold transferOut
  simp only [mState_positions, findPos_mirror]
  cases hf : findPos s.positions lo up with
  | none => rfl
  | some p =>
    simp only [Option.map_some, mPos_transferred]
    by_cases ht : p.transferred = true
    · simp only [ht, Bool.not_true, Bool.false_eq_true, if_false]; rfl
    · have ht' : p.transferred = false := by simpa using ht
      simp only [ht', Bool.not_false, if_true, mRes]
      rw [mapPos_mirror s.positions lo up (fun p => { p with transferred := true }) (fun p => { p with transferred := true }) (fun _ => rfl)]
      rfl

theorem transferIn_mirror (s : State) (lo up : Int) : transferIn (mState s) (-up) (-lo) = mRes (transferIn s lo up) := by
  unfold transferIn
  simp only [mState_positions, findPos_mirror]
  cases hf : findPos s.positions lo up with
  | none => rfl
  | some p =>
    simp only [Option.map_some, mPos_transferred]
    by_cases ht : p.transferred = true
    · simp only [ht, if_true, mRes]
      rw [mapPos_mirror s.positions lo up (fun p => { p with transferred := false }) (fun p => { p with transferred := false }) (fun _ => rfl)]
      rfl
    · have ht' : p.transferred = false := by simpa using ht
      simp only [ht', Bool.false_eq_true, if_false]; rfl

end Demeter.Uni
