/-
  Round35 — part 1: `ilog10` / `ndigits` are exact on the magnitude range `n.log2 < 150000`
  (i.e. `n < 2^150000 ≈ 10^45154`).

  `ilog10 n` estimates `⌊log10 n⌋` by `k = n.log2 * 1233 / 4096` and corrects upward by at most one.  That is right
  exactly when `10^k ≤ n < 10^(k+2)`.  The lower bound holds for every `n` because `1233/4096 < log10 2`
  (`10^1233 ≤ 2^4096`); the upper bound needs `(L+1)·log10 2 < ⌊1233·L/4096⌋ + 2`, which fails from
  `L ≈ 151 838` on (the estimate drifts by `0.0000046` per bit).  We prove it for `L < 150000` from the
  convergent `12655/42039 > log10 2` (`2^42039 ≤ 10^12655`, checked by the kernel with GMP arithmetic) and `omega`.
-/
import Demeter.Num
import Mathlib.Tactic.Linarith
import Mathlib.Tactic.NormNum
namespace Demeter.Numerics
open Demeter
-- (the elaborator may evaluate the literal powers below while unifying; harmless, GMP arithmetic)
set_option exponentiation.threshold 200000

/-- the magnitude bound under which `ilog10` is proved exact: `n < 2^150000` -/
abbrev LOG2_BOUND : Nat := 150000

theorem two_pow_le_ten_pow : 2 ^ 42039 ≤ 10 ^ 12655 := by decide +kernel
theorem ten_pow_le_two_pow : 10 ^ 1233 ≤ 2 ^ 4096 := by decide +kernel

/-- `10^e < 2^m → e/m < 12655/42039` -/
theorem exp_lt_of_ten_lt_two {e m : Nat} (h : 10 ^ e < 2 ^ m) : 42039 * e < 12655 * m := by
  have h1 : (10 ^ e) ^ 42039 < (2 ^ m) ^ 42039 := Nat.pow_lt_pow_left h (by omega)
  have h2 : (2 ^ m) ^ 42039 ≤ 10 ^ (12655 * m) := by
    rewrite [← Nat.pow_mul, Nat.mul_comm m, Nat.pow_mul, Nat.pow_mul]
    exact Nat.pow_le_pow_left two_pow_le_ten_pow m
  have h3 : 10 ^ (e * 42039) < 10 ^ (12655 * m) := by
    rw [Nat.pow_mul]; exact Nat.lt_of_lt_of_le h1 h2
  have := (Nat.pow_lt_pow_iff_right (by decide : 1 < 10)).1 h3
  omega

/-- `2^m < 10^e → 1233/4096 < e/m` -/
theorem exp_lt_of_two_lt_ten {e m : Nat} (h : 2 ^ m < 10 ^ e) : 1233 * m < 4096 * e := by
  have h1 : (2 ^ m) ^ 4096 < (10 ^ e) ^ 4096 := Nat.pow_lt_pow_left h (by omega)
  have h2 : 10 ^ (1233 * m) ≤ (2 ^ m) ^ 4096 := by
    rewrite [← Nat.pow_mul, Nat.mul_comm m, Nat.pow_mul, Nat.pow_mul]
    exact Nat.pow_le_pow_left ten_pow_le_two_pow m
  have h3 : 10 ^ (1233 * m) < 10 ^ (e * 4096) := by
    rw [Nat.pow_mul 10 e]; exact Nat.lt_of_le_of_lt h2 h1
  have := (Nat.pow_lt_pow_iff_right (by decide : 1 < 10)).1 h3
  omega

/-- the estimate never overshoots (no magnitude bound needed) -/
theorem ilog10_est_le (n : Nat) (hn : 0 < n) : 10 ^ (n.log2 * 1233 / 4096) ≤ n := by
  have hL : 2 ^ n.log2 ≤ n := Nat.log2_self_le (by omega)
  refine Nat.le_trans ?_ hL
  by_contra hc
  have := exp_lt_of_two_lt_ten (Nat.lt_of_not_le hc)
  omega

/-- the estimate is at most one short, on the magnitude range -/
theorem ilog10_est_lt (n : Nat) (hb : n.log2 < LOG2_BOUND) :
    n < 10 ^ (n.log2 * 1233 / 4096 + 2) := by
  have hL : n < 2 ^ (n.log2 + 1) := Nat.lt_log2_self
  refine Nat.lt_of_lt_of_le hL ?_
  by_contra hc
  have := exp_lt_of_ten_lt_two (Nat.lt_of_not_le hc)
  unfold LOG2_BOUND at hb
  omega

/-- **`ilog10` is `⌊log10 n⌋`** for `0 < n < 2^150000`. -/
theorem ilog10_spec (n : Nat) (hn : 0 < n) (hb : n.log2 < LOG2_BOUND) :
    10 ^ ilog10 n ≤ n ∧ n < 10 ^ (ilog10 n + 1) := by
  have h1 := ilog10_est_le n hn
  have h2 := ilog10_est_lt n hb
  unfold ilog10 pow10
  rw [if_neg (by omega)]
  simp only []
  split
  · exact ⟨by assumption, h2⟩
  · exact ⟨h1, by omega⟩

/-- lower half of `ilog10_spec` needs no magnitude bound -/
theorem ilog10_le (n : Nat) (hn : 0 < n) : 10 ^ ilog10 n ≤ n := by
  have h1 := ilog10_est_le n hn
  unfold ilog10 pow10
  rw [if_neg (by omega)]
  simp only []
  split
  · assumption
  · exact h1

/-- uniqueness: `ilog10 n` is the only `k` with `10^k ≤ n < 10^(k+1)` -/
theorem ilog10_eq_of_bounds (n k : Nat) (hb : n.log2 < LOG2_BOUND)
    (h1 : 10 ^ k ≤ n) (h2 : n < 10 ^ (k + 1)) : ilog10 n = k := by
  have hn : 0 < n := Nat.lt_of_lt_of_le (Nat.pow_pos (by decide)) h1
  obtain ⟨a, b⟩ := ilog10_spec n hn hb
  have c1 : 10 ^ k < 10 ^ (ilog10 n + 1) := Nat.lt_of_le_of_lt h1 b
  have c2 : 10 ^ ilog10 n < 10 ^ (k + 1) := Nat.lt_of_le_of_lt a h2
  have := (Nat.pow_lt_pow_iff_right (by decide : 1 < 10)).1 c1
  have := (Nat.pow_lt_pow_iff_right (by decide : 1 < 10)).1 c2
  omega

theorem ndigits_spec (n : Nat) (hn : 0 < n) (hb : n.log2 < LOG2_BOUND) :
    10 ^ (ndigits n - 1) ≤ n ∧ n < 10 ^ ndigits n := by
  simpa [ndigits] using ilog10_spec n hn hb

theorem ndigits_pos (n : Nat) : 0 < ndigits n := by unfold ndigits; omega

theorem ten_pow_45000_le : 10 ^ 45000 ≤ 2 ^ 150000 := by decide +kernel

/-- a decimal way to meet the bound: `n < 10^45000` -/
theorem log2_lt_of_lt_ten_pow (n : Nat) (h : n < 10 ^ 45000) : n.log2 < LOG2_BOUND := by
  by_cases hn : n = 0
  · subst hn; decide
  · exact (Nat.log2_lt hn).2 (Nat.lt_of_lt_of_le h ten_pow_45000_le)

/-- symbolic evaluation of `ilog10` from a known bit length (keeps `Nat.log2` of huge literals away from the kernel) -/
theorem ilog10_eval (n L : Nat) (hn : n ≠ 0) (hL : n.log2 = L) :
    ilog10 n = if 10 ^ (L * 1233 / 4096 + 1) ≤ n then L * 1233 / 4096 + 1 else L * 1233 / 4096 := by
  subst hL; unfold ilog10 pow10; rw [if_neg hn]

end Demeter.Numerics
