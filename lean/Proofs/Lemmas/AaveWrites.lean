/-
  Every write operation of the Aave model keeps cache coherence (`Good`), accepted or rejected: one lemma per
  write, listing exactly the caches the code resets and why the ones it does not reset stay valid.
-/
import Proofs.Lemmas.AaveReadSpec
namespace Demeter.Aave
open Demeter M

variable {cx : ACtx} {env : Env}

/-! ### pre/post reasoning with state-only assertions -/

/-- from `P` before to `Q` after, whatever is returned or raised -/
def InvTo (P Q : St → Prop) {α : Type} (m : M α) : Prop := ∀ s, P s → Q (m s).2

theorem Inv.to {I : St → Prop} {α : Type} {m : M α} (h : Inv I m) : InvTo I I m := h

section
variable {P Q R : St → Prop} {α β : Type}

theorem InvTo.bind {m : M α} {f : α → M β} (hm : InvTo P R m) (hf : ∀ a, InvTo R Q (f a))
    (he : ∀ s, R s → Q s) : InvTo P Q (m >>= f) := by
  intro s hs
  have h1 := hm s hs
  rcases hms : m s with ⟨r, s1⟩
  rw [hms] at h1
  cases r with
  | ok a => rw [run_bind_ok hms]; exact hf a s1 h1
  | error e => rw [run_bind_err hms]; exact he s1 h1

/-- `try: m except: fin; raise` followed by `f`: the repair `fin` must lead from what `m` leaves to the goal -/
theorem InvTo.bind_onError {m : M α} {fin : St → St} {f : α → M β} (hm : InvTo P R m) (hf : ∀ a, InvTo R Q (f a))
    (he : ∀ s, R s → Q (fin s)) : InvTo P Q (onError m fin >>= f) := by
  intro s hs
  have h1 := hm s hs
  rcases hms : m s with ⟨r, s1⟩
  rw [hms] at h1
  cases r with
  | ok a => rw [run_bind_ok (run_onError_ok hms)]; exact hf a s1 h1
  | error e => rw [run_bind_err (run_onError_err hms)]; exact he s1 h1

theorem InvTo.bind_ofRes {r : Res α} {f : α → M β} (h : ∀ a, r = .ok a → InvTo P Q (f a))
    (he : ∀ s, P s → Q s) : InvTo P Q (M.ofRes r >>= f) := by
  intro s hs
  rw [run_bind]
  cases r with
  | ok a => exact h a rfl s hs
  | error e => exact he s hs

theorem InvTo.bind_require {c : Bool} {e : Err} {f : Unit → M β} (h : c = true → InvTo P Q (f ()))
    (he : ∀ s, P s → Q s) : InvTo P Q (M.require c e >>= f) := by
  intro s hs
  rw [run_bind]
  cases c with
  | true => exact h rfl s hs
  | false => exact he s hs

theorem InvTo.bind_queryPos {q : AList String SupplyInfo → AList String BorrowInfo → Res α} {f : α → M β}
    {sup0 : AList String SupplyInfo} {bor0 : AList String BorrowInfo}
    (hpin : ∀ s, P s → s.supplies = sup0 ∧ s.borrows = bor0)
    (h : ∀ a, q sup0 bor0 = .ok a → InvTo P Q (f a)) (he : ∀ s, P s → Q s) :
    InvTo P Q (M.queryPos q >>= f) := by
  intro s hs
  obtain ⟨h1, h2⟩ := hpin s hs
  rw [run_bind, run_queryPos, h1, h2]
  cases hq : q sup0 bor0 with
  | ok a => exact h a hq s hs
  | error e => exact he s hs

theorem InvTo.modify {g : St → St} (h : ∀ s, P s → Q (g s)) : InvTo P Q (M.modify g) := fun s hs => h s hs
theorem InvTo.pure (a : α) (h : ∀ s, P s → Q s) : InvTo P Q (pure a : M α) := fun s hs => h s hs
theorem InvTo.throw (e : Err) (h : ∀ s, P s → Q s) : InvTo P Q (M.throw e : M α) := fun s hs => h s hs
theorem InvTo.weaken {P' : St → Prop} {m : M α} (h : InvTo P Q m) (hp : ∀ s, P' s → P s) : InvTo P' Q m :=
  fun s hs => h s (hp s hs)

end

/-! ### how the recomputations react to an update of the positions -/

theorem covers_set {ν : Type} {m : AList String ν} (h : Covers env m) {k : String} (hk : HasData env k) (v : ν) :
    Covers env (AList.set m k v) := by
  intro k' hk'
  rcases mem_keys_set.mp hk' with e | h'
  · subst e; exact hk
  · exact h k' h'

theorem covers_erase {ν : Type} {m : AList String ν} (h : Covers env m) (k : String) : Covers env (AList.erase m k) :=
  fun k' hk' => h k' (mem_keys_erase hk')

theorem scratchMap_set_congr {ν μ : Type} {f : String → ν → Res μ} {m : AList String ν} {k : String} {v v' : ν}
    (hg : AList.get? m k = some v) (hf : f k v' = f k v) : scratchMap f (AList.set m k v') = scratchMap f m := by
  induction m with
  | nil => simp at hg
  | cons p m ih =>
    obtain ⟨k0, v0⟩ := p
    rw [aset_cons]
    rw [aget_cons] at hg
    by_cases hk : k0 = k
    · simp only [hk, if_true, Option.some.injEq] at hg ⊢
      subst hg
      rw [scratchMap_cons, scratchMap_cons, hf]
    · simp only [hk, if_false] at hg ⊢
      rw [scratchMap_cons, scratchMap_cons, ih hg]

/-- the collateral flag does not enter the supply values -/
theorem specSupAmt_set_flag {sup : AList String SupplyInfo} {k : String} {info : SupplyInfo} (c : Bool)
    (hg : AList.get? sup k = some info) :
    specSupAmt cx env (AList.set sup k { info with coll := c }) = specSupAmt cx env sup :=
  scratchMap_set_congr hg rfl

theorem collEntries_cons (k : String) (v : SupplyInfo) (m : AList String SupplyInfo) :
    collEntries ((k, v) :: m) = if v.coll then (k, v) :: collEntries m else collEntries m := by
  unfold collEntries
  cases h : v.coll <;> simp [List.filter, h]

theorem collEntries_set_noncoll {sup : AList String SupplyInfo} {k : String} {info info' : SupplyInfo}
    (hg : AList.get? sup k = some info) (h1 : info.coll = false) (h2 : info'.coll = false) :
    collEntries (AList.set sup k info') = collEntries sup := by
  induction sup with
  | nil => simp at hg
  | cons p m ih =>
    obtain ⟨k0, v0⟩ := p
    rw [aset_cons]
    rw [aget_cons] at hg
    by_cases hk : k0 = k
    · simp only [hk, if_true, Option.some.injEq] at hg ⊢
      subst hg
      rw [collEntries_cons, collEntries_cons, h1, h2]
      simp
    · simp only [hk, if_false] at hg ⊢
      rw [collEntries_cons, collEntries_cons, ih hg]

theorem erase_not_mem {ν : Type} {m : AList String ν} {k : String} (h : k ∉ keys m) : AList.erase m k = m := by
  induction m with
  | nil => rfl
  | cons p m ih =>
    obtain ⟨k0, v0⟩ := p
    simp only [keys_cons, List.mem_cons, not_or] at h
    rw [erase_cons]
    have : ¬ k0 = k := fun e => h.1 e.symm
    simp only [this, if_false, ih h.2]

theorem collEntries_erase_noncoll {sup : AList String SupplyInfo} {k : String} {info : SupplyInfo}
    (hnd : (keys sup).Nodup) (hg : AList.get? sup k = some info) (h1 : info.coll = false) :
    collEntries (AList.erase sup k) = collEntries sup := by
  induction sup with
  | nil => simp at hg
  | cons p m ih =>
    obtain ⟨k0, v0⟩ := p
    simp only [keys_cons, List.nodup_cons] at hnd
    rw [erase_cons]
    rw [aget_cons] at hg
    by_cases hk : k0 = k
    · simp only [hk, if_true, Option.some.injEq] at hg ⊢
      subst hg; subst hk
      rw [collEntries_cons, h1, erase_not_mem hnd.1]
      simp
    · simp only [hk, if_false] at hg ⊢
      rw [collEntries_cons, collEntries_cons, ih hnd.2 hg]

/-! ### `Good` does not look at wallet, action log, `has_update` -/

theorem GoodS.congr {s s' : St} (g : GoodS cx env s) (h1 : s'.supplies = s.supplies) (h2 : s'.supAmtC = s.supAmtC)
    (h3 : s'.collC = s.collC) (h4 : s'.supC = s.supC) : GoodS cx env s' :=
  ⟨h1 ▸ g.nd, h1 ▸ g.cv, by rw [h1, h2]; exact g.sa, by rw [h1, h3]; exact g.co, by rw [h1, h4]; exact g.su⟩

theorem GoodB.congr {s s' : St} (g : GoodB cx env s) (h1 : s'.borrows = s.borrows) (h2 : s'.borAmtC = s.borAmtC)
    (h3 : s'.borC = s.borC) : GoodB cx env s' :=
  ⟨h1 ▸ g.nd, h1 ▸ g.cv, by rw [h1, h2]; exact g.ba, by rw [h1, h3]; exact g.bo⟩

theorem inv_setUpdated : Inv (Good cx env) setUpdated :=
  Inv.modify _ (fun _ ⟨gs, gb⟩ => ⟨gs.congr rfl rfl rfl rfl, gb.congr rfl rfl rfl⟩)

theorem inv_record (a : Action) : Inv (Good cx env) (record a) :=
  Inv.modify _ (fun _ ⟨gs, gb⟩ => ⟨gs.congr rfl rfl rfl rfl, gb.congr rfl rfl rfl⟩)

theorem inv_walletCredit (tok : String) (amt : Rat) : Inv (Good cx env) (walletCredit cx tok amt) :=
  Inv.modify _ (fun _ ⟨gs, gb⟩ => ⟨gs.congr rfl rfl rfl rfl, gb.congr rfl rfl rfl⟩)

theorem inv_walletDebit (tok : String) (amt : Rat) : Inv (Good cx env) (walletDebit cx tok amt) := by
  intro s ⟨gs, gb⟩
  unfold walletDebit
  split
  · exact ⟨gs.congr rfl rfl rfl rfl, gb.congr rfl rfl rfl⟩
  · exact ⟨gs, gb⟩
  · exact ⟨gs, gb⟩

theorem inv_guardOpen : Inv (Good cx env) (guardOpen env) := Inv.require _ _

theorem inv_newBar {env' : Env} {s : St} (nd1 : (keys s.supplies).Nodup) (nd2 : (keys s.borrows).Nodup)
    (c1 : Covers env' s.supplies) (c2 : Covers env' s.borrows) : Good cx env' (newBar s).2 :=
  ⟨⟨nd1, c1, CohC.fresh _, CohC.fresh _, CohC.fresh _⟩, ⟨nd2, c2, CohC.fresh _, CohC.fresh _⟩⟩

/-! ### `__sub_supply_amount`, `__sub_borrow_amount` -/

theorem good_commitSubSupply {s : St} (hs : Good cx env s) {tok : String} {info : SupplyInfo}
    (hg : AList.get? s.supplies tok = some info) (nb : Rat) :
    Good cx env (commitSubSupply tok info nb s).2 := by
  obtain ⟨gs, gb⟩ := hs
  have hd : HasData env tok := gs.cv tok (aget_mem_keys hg)
  refine ⟨⟨?_, ?_, CohC.fresh _, ?_, CohC.fresh _⟩, gb.congr rfl rfl rfl⟩
  · show (keys (if nb = 0 then _ else _)).Nodup
    split
    · exact nodup_erase gs.nd _
    · exact nodup_set gs.nd _ _
  · show Covers env (if nb = 0 then _ else _)
    split
    · exact covers_erase gs.cv _
    · exact covers_set gs.cv hd _
  · show CohC (if info.coll then Cache.fresh else s.collC) (specColl cx env (if nb = 0 then _ else _))
    rcases Bool.eq_false_or_eq_true info.coll with hc | hc
    · simp only [hc, if_true]; exact CohC.fresh _
    · have : specColl cx env (if nb = 0 then AList.erase s.supplies tok
          else AList.set s.supplies tok { info with base := nb }) = specColl cx env s.supplies := by
        unfold specColl
        split
        · rw [collEntries_erase_noncoll gs.nd hg hc]
        · rw [collEntries_set_noncoll (info' := { info with base := nb }) hg hc hc]
      rw [this]
      simp only [hc, Bool.false_eq_true, if_false]; exact gs.co

theorem inv_subSupplyAmount (tok : String) (amt : Rat) : Inv (Good cx env) (subSupplyAmount cx env tok amt) := by
  intro s hs
  unfold subSupplyAmount
  rw [run_bind, run_queryPos]
  dsimp only
  cases hg : AList.get? s.supplies tok with
  | none =>
    dsimp only
    split <;> exact hs
  | some info =>
    dsimp only
    refine InvTo.bind_ofRes (P := fun s' => s' = s) (fun st _ => InvTo.bind_ofRes (fun d _ => ?_) ?_) ?_ s rfl
    · refine InvTo.bind (R := Good cx env) ?_ (fun _ => InvTo.pure _ (fun _ h => h)) (fun _ h => h)
      intro s' e; subst e
      exact good_commitSubSupply hs hg _
    · intro s' e; subst e; exact hs
    · intro s' e; subst e; exact hs

theorem good_commitSubBorrow {s : St} (hs : Good cx env s) {tok : String} {info : BorrowInfo}
    (hg : AList.get? s.borrows tok = some info) (nb : Rat) :
    Good cx env (commitSubBorrow tok info nb s).2 := by
  obtain ⟨gs, gb⟩ := hs
  have hd : HasData env tok := gb.cv tok (aget_mem_keys hg)
  refine ⟨gs.congr rfl rfl rfl rfl, ⟨?_, ?_, CohC.fresh _, CohC.fresh _⟩⟩
  · show (keys (if nb = 0 then _ else _)).Nodup
    split
    · exact nodup_erase gb.nd _
    · exact nodup_set gb.nd _ _
  · show Covers env (if nb = 0 then _ else _)
    split
    · exact covers_erase gb.cv _
    · exact covers_set gb.cv hd _

theorem inv_subBorrowAmount (tok : String) (amt : Rat) : Inv (Good cx env) (subBorrowAmount cx env tok amt) := by
  intro s hs
  unfold subBorrowAmount
  rw [run_bind, run_queryPos]
  dsimp only
  cases hg : AList.get? s.borrows tok with
  | none =>
    dsimp only
    split <;> exact hs
  | some info =>
    dsimp only
    refine InvTo.bind_ofRes (P := fun s' => s' = s) (fun st _ => InvTo.bind_ofRes (fun d _ => ?_) ?_) ?_ s rfl
    · refine InvTo.bind (R := Good cx env) ?_ (fun _ => InvTo.pure _ (fun _ h => h)) (fun _ h => h)
      intro s' e; subst e
      exact good_commitSubBorrow hs hg _
    · intro s' e; subst e; exact hs
    · intro s' e; subst e; exact hs

end Demeter.Aave
