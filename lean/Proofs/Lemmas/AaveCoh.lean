/-
  Cache coherence of the Aave model: the state predicate `Good` (dict representation invariant, the bar's data
  covers every held token, each of the five caches is cold or holds the from-scratch recomputation) and what
  the cache-filling reads do to a coherent state.
-/
import Proofs.Lemmas.AaveScratch
namespace Demeter.Aave
open Demeter M

/-- the bar has an index/rate row, a price and a risk-table row for token `k` -/
def HasData (env : Env) (k : String) : Prop :=
  (∃ st, env.statusOf k = .ok st) ∧ (∃ p, env.priceOf k = .ok p) ∧ (∃ r, env.riskOf k = .ok r)

/-- every token the bar's data lists also has a price and risk parameters -/
def EnvOK (env : Env) : Prop := ∀ k st, env.statusOf k = .ok st → HasData env k

/-- every key of the dictionary is a token the bar has data for -/
def Covers {ν : Type} (env : Env) (m : AList String ν) : Prop := ∀ k ∈ keys m, HasData env k

variable (cx : ACtx) (env : Env)

/-- supply side: `_supplies` is a dict over known tokens, its three caches are coherent -/
structure GoodS (s : St) : Prop where
  nd : (keys s.supplies).Nodup
  cv : Covers env s.supplies
  sa : CohC s.supAmtC (specSupAmt cx env s.supplies)
  co : CohC s.collC (specColl cx env s.supplies)
  su : CohC s.supC (specSupplies cx env s.supplies)

/-- borrow side -/
structure GoodB (s : St) : Prop where
  nd : (keys s.borrows).Nodup
  cv : Covers env s.borrows
  ba : CohC s.borAmtC (specBorAmt cx env s.borrows)
  bo : CohC s.borC (specBorrows cx env s.borrows)

def Good (s : St) : Prop := GoodS cx env s ∧ GoodB cx env s

variable {cx env}

/-! ### the recomputations succeed on covered dictionaries -/

theorem mem_keys_of_mem {ν : Type} {m : AList String ν} {p : String × ν} (h : p ∈ m) : p.1 ∈ keys m := by
  unfold keys; exact List.mem_map.mpr ⟨p, h, rfl⟩

theorem supValOf_ok {k : String} (h : HasData env k) (v : SupplyInfo) : ∃ x, supValOf cx env k v = .ok x := by
  obtain ⟨⟨st, h1⟩, ⟨p, h2⟩, _⟩ := h
  exact ⟨_, by unfold supValOf; rw [h1, h2]; rfl⟩

theorem borValOf_ok {k : String} (h : HasData env k) (v : BorrowInfo) : ∃ x, borValOf cx env k v = .ok x := by
  obtain ⟨⟨st, h1⟩, ⟨p, h2⟩, _⟩ := h
  exact ⟨_, by unfold borValOf; rw [h1, h2]; rfl⟩

theorem specSupplyOf_ok {k : String} (h : HasData env k) (v : SupplyInfo) : ∃ x, specSupplyOf cx env k v = .ok x := by
  obtain ⟨x, hx⟩ := supValOf_ok (cx := cx) h v
  obtain ⟨⟨st, h1⟩, _, _⟩ := h
  exact ⟨_, by unfold specSupplyOf; rw [h1, hx]; rfl⟩

theorem specBorrowOf_ok {k : String} (h : HasData env k) (v : BorrowInfo) : ∃ x, specBorrowOf cx env k v = .ok x := by
  obtain ⟨x, hx⟩ := borValOf_ok (cx := cx) h v
  obtain ⟨⟨st, h1⟩, _, _⟩ := h
  exact ⟨_, by unfold specBorrowOf; rw [h1, hx]; rfl⟩

theorem specSupAmt_ok {sup : AList String SupplyInfo} (h : Covers env sup) : ∃ vs, specSupAmt cx env sup = .ok vs :=
  scratchMap_exists (fun p hp => supValOf_ok (h p.1 (mem_keys_of_mem hp)) p.2)

theorem specBorAmt_ok {bor : AList String BorrowInfo} (h : Covers env bor) : ∃ vs, specBorAmt cx env bor = .ok vs :=
  scratchMap_exists (fun p hp => borValOf_ok (h p.1 (mem_keys_of_mem hp)) p.2)

theorem collEntries_sub {sup : AList String SupplyInfo} {p : String × SupplyInfo} (h : p ∈ collEntries sup) : p ∈ sup := by
  unfold collEntries at h; exact (List.mem_filter.mp h).1

theorem collEntries_nodup {sup : AList String SupplyInfo} (h : (keys sup).Nodup) : (keys (collEntries sup)).Nodup := by
  unfold collEntries keys at *
  exact h.sublist (List.Sublist.map _ List.filter_sublist)

theorem specColl_ok {sup : AList String SupplyInfo} (h : Covers env sup) : ∃ vs, specColl cx env sup = .ok vs :=
  scratchMap_exists (fun p hp => supValOf_ok (h p.1 (mem_keys_of_mem (collEntries_sub hp))) p.2)

theorem specSupplies_ok {sup : AList String SupplyInfo} (h : Covers env sup) : ∃ vs, specSupplies cx env sup = .ok vs :=
  scratchMap_exists (fun p hp => specSupplyOf_ok (h p.1 (mem_keys_of_mem hp)) p.2)

theorem specBorrows_ok {bor : AList String BorrowInfo} (h : Covers env bor) : ∃ vs, specBorrows cx env bor = .ok vs :=
  scratchMap_exists (fun p hp => specBorrowOf_ok (h p.1 (mem_keys_of_mem hp)) p.2)

/-! ### `supplies_value`, `borrows_value` -/

theorem suppliesValue_run {s : St} (nd : (keys s.supplies).Nodup) (cv : Covers env s.supplies)
    (sa : CohC s.supAmtC (specSupAmt cx env s.supplies)) :
    ∃ vs, specSupAmt cx env s.supplies = .ok vs ∧
      suppliesValue cx env s = (.ok vs, { s with supAmtC := cacheOf vs }) := by
  obtain ⟨vs, hvs⟩ := specSupAmt_ok (cx := cx) cv
  refine ⟨vs, hvs, ?_⟩
  rcases sa.cases hvs with h | ⟨h, he⟩
  · unfold suppliesValue
    have he : s.supAmtC.empty = true := by rw [h]; rfl
    simp only [he, if_true]
    rw [h, fillLoop_fresh hvs nd]
    simp
  · unfold suppliesValue
    simp only [he, Bool.false_eq_true, if_false]
    rw [h]; simp
    rw [← h]

theorem borrowsValue_run {s : St} (nd : (keys s.borrows).Nodup) (cv : Covers env s.borrows)
    (ba : CohC s.borAmtC (specBorAmt cx env s.borrows)) :
    ∃ vs, specBorAmt cx env s.borrows = .ok vs ∧
      borrowsValue cx env s = (.ok vs, { s with borAmtC := cacheOf vs }) := by
  obtain ⟨vs, hvs⟩ := specBorAmt_ok (cx := cx) cv
  refine ⟨vs, hvs, ?_⟩
  rcases ba.cases hvs with h | ⟨h, he⟩
  · unfold borrowsValue
    have he : s.borAmtC.empty = true := by rw [h]; rfl
    simp only [he, if_true]
    rw [h, fillLoop_fresh hvs nd]
    simp
  · unfold borrowsValue
    simp only [he, Bool.false_eq_true, if_false]
    rw [h]; simp
    rw [← h]

/-! ### `collateral_value` -/

/-- what the supplies-amount cache can be after a read: untouched, or filled with the recomputation -/
def SAStep (cx : ACtx) (env : Env) (s : St) (c' : Cache Rat) : Prop :=
  c' = s.supAmtC ∨ ∃ vs, specSupAmt cx env s.supplies = .ok vs ∧ c' = cacheOf vs

theorem SAStep.coh {s : St} {c' : Cache Rat} (h : SAStep cx env s c')
    (sa : CohC s.supAmtC (specSupAmt cx env s.supplies)) : CohC c' (specSupAmt cx env s.supplies) := by
  rcases h with h | ⟨vs, h1, h2⟩
  · rw [h]; exact sa
  · rw [h2]; exact CohC.of h1

theorem collateralValue_run {s : St} (nd : (keys s.supplies).Nodup) (cv : Covers env s.supplies)
    (sa : CohC s.supAmtC (specSupAmt cx env s.supplies)) (co : CohC s.collC (specColl cx env s.supplies)) :
    ∃ cs c', specColl cx env s.supplies = .ok cs ∧ SAStep cx env s c' ∧
      collateralValue cx env s = (.ok cs, { s with supAmtC := c', collC := cacheOf cs }) := by
  obtain ⟨cs, hcs⟩ := specColl_ok (cx := cx) cv
  rcases co.cases hcs with h | ⟨h, he⟩
  · -- cold cache
    have he : s.collC.empty = true := by rw [h]; rfl
    cases hce : collEntries s.supplies with
    | nil =>
      refine ⟨cs, s.supAmtC, hcs, Or.inl rfl, ?_⟩
      have : cs = [] := by
        unfold specColl at hcs; rw [hce] at hcs; simp at hcs; cases hcs; rfl
      subst this
      unfold collateralValue
      simp only [he, if_true, hce]
      rw [h]; simp
      rw [← h]
    | cons p rest =>
      obtain ⟨vs, hvs, hrun⟩ := suppliesValue_run nd cv sa
      refine ⟨cs, cacheOf vs, hcs, Or.inr ⟨vs, hvs, rfl⟩, ?_⟩
      unfold collateralValue
      simp only [he, if_true, hce]
      rw [hrun]
      simp only []
      have hcongr : ∀ q ∈ collEntries s.supplies,
          (fun k (_ : SupplyInfo) => optRes (AList.get? vs k) Err.keyCache) q.1 q.2 = supValOf cx env q.1 q.2 := by
        intro q hq
        obtain ⟨x, hx1, hx2⟩ := scratchMap_get hvs nd (collEntries_sub hq)
        simp only [hx2, hx1, optRes]
      rw [← hce, fillLoop_congr hcongr, h, fillLoop_fresh hcs (collEntries_nodup nd)]
      simp
  · refine ⟨cs, s.supAmtC, hcs, Or.inl rfl, ?_⟩
    unfold collateralValue
    simp only [he, Bool.false_eq_true, if_false]
    rw [h]; simp
    rw [← h]

/-! ### `get_supply`, `supplies` -/

theorem getSupply_run {s : St} (nd : (keys s.supplies).Nodup) (cv : Covers env s.supplies)
    (sa : CohC s.supAmtC (specSupAmt cx env s.supplies)) {k : String} {info : SupplyInfo}
    (hk : AList.get? s.supplies k = some info) :
    ∃ sv vs, specSupplyOf cx env k info = .ok sv ∧ specSupAmt cx env s.supplies = .ok vs ∧
      getSupply cx env k s = (.ok sv, { s with supAmtC := cacheOf vs }) := by
  obtain ⟨vs, hvs, hrun⟩ := suppliesValue_run nd cv sa
  obtain ⟨⟨st, hst⟩, _, _⟩ := cv k (aget_mem_keys hk)
  obtain ⟨x, hx1, hx2⟩ := scratchMap_get hvs nd (mem_of_aget hk)
  refine ⟨{ base := info.base, coll := info.coll, amount := cx.mul info.base st.liqIdx,
            apy := rateToApy cx st.liqRate, value := x, beginIdx := info.beginIdx }, vs, ?_, hvs, ?_⟩
  · unfold specSupplyOf; rw [hst, hx1]; rfl
  · unfold getSupply
    rw [run_bind_ok (a := info) (s' := s) (by simp [hk, optRes])]
    rw [run_bind_ok (a := st) (s' := s) (by simp [hst])]
    rw [run_bind_ok hrun]
    simp only [run_ofRes]
    unfold supplyOf; rw [hst, hx2]; rfl

theorem fillSupLoop_run : ∀ (entries : AList String SupplyInfo) (s : St) (r : AList String SupplyV),
    (keys s.supplies).Nodup → Covers env s.supplies → CohC s.supAmtC (specSupAmt cx env s.supplies) →
    (∀ p ∈ entries, p ∈ s.supplies) → (keys entries).Nodup → (∀ k ∈ keys entries, k ∉ keys s.supC.val) →
    scratchMap (specSupplyOf cx env) entries = .ok r →
    ∃ c', SAStep cx env s c' ∧
      fillSupLoop cx env (keys entries) s =
        (.ok (), { s with supAmtC := c', supC := ⟨s.supC.empty && r.isEmpty, s.supC.val ++ r⟩ }) := by
  intro entries
  induction entries with
  | nil =>
    intro s r _ _ _ _ _ _ hr
    simp at hr; cases hr
    exact ⟨s.supAmtC, Or.inl rfl, by simp [fillSupLoop]⟩
  | cons p rest ih =>
    intro s r nd cv sa hsub hnd hdis hr
    obtain ⟨k, info⟩ := p
    obtain ⟨sv, r', h1, h2, h3⟩ := scratchMap_cons_inv hr
    subst h3
    have hk : AList.get? s.supplies k = some info := aget_of_mem nd (hsub (k, info) (List.mem_cons_self ..))
    obtain ⟨sv', vs, hsv, hvs, hrun⟩ := getSupply_run nd cv sa hk
    rw [h1] at hsv; cases hsv
    simp only [keys_cons, List.nodup_cons] at hnd
    have hkc : k ∉ keys s.supC.val := hdis k (by simp)
    let s2 : St := { s with supAmtC := cacheOf vs, supC := s.supC.set k sv }
    have ih' := ih s2 r' nd cv (CohC.of hvs) (fun q hq => hsub q (List.mem_cons_of_mem _ hq)) hnd.2
      (by
        intro k' hk'
        simp only [s2, Cache.set, aset_not_mem hkc, keys_append, keys_cons, keys_nil, List.mem_append,
          List.mem_singleton, not_or]
        exact ⟨hdis k' (by simp [hk']), fun e => hnd.1 (e ▸ hk')⟩) h2
    obtain ⟨c', hc', hloop⟩ := ih'
    refine ⟨c', ?_, ?_⟩
    · rcases hc' with hc' | hc'
      · exact Or.inr ⟨vs, hvs, hc'⟩
      · exact Or.inr hc'
    · simp only [keys_cons, fillSupLoop]
      rw [run_bind_ok hrun]
      rw [run_bind_ok (a := ()) (s' := s2) (by simp [s2])]
      rw [hloop]
      simp [s2, Cache.set, aset_not_mem hkc]

theorem suppliesView_run {s : St} (nd : (keys s.supplies).Nodup) (cv : Covers env s.supplies)
    (sa : CohC s.supAmtC (specSupAmt cx env s.supplies)) (su : CohC s.supC (specSupplies cx env s.supplies)) :
    ∃ svs c', specSupplies cx env s.supplies = .ok svs ∧ SAStep cx env s c' ∧
      suppliesView cx env s = (.ok svs, { s with supAmtC := c', supC := cacheOf svs }) := by
  obtain ⟨svs, hsvs⟩ := specSupplies_ok (cx := cx) cv
  rcases su.cases hsvs with h | ⟨h, he⟩
  · have he : s.supC.empty = true := by rw [h]; rfl
    obtain ⟨c', hc', hloop⟩ := fillSupLoop_run s.supplies s svs nd cv sa (fun _ hp => hp) nd
      (by rw [h]; simp [Cache.fresh]) hsvs
    refine ⟨svs, c', hsvs, hc', ?_⟩
    unfold suppliesView
    simp only [he, if_true]
    rw [hloop]
    simp only [h, Cache.fresh, Bool.true_and, List.nil_append]
    cases svs <;> simp [cacheOf, Cache.fresh]
  · refine ⟨svs, s.supAmtC, hsvs, Or.inl rfl, ?_⟩
    unfold suppliesView
    simp only [he, Bool.false_eq_true, if_false]
    rw [h]; simp
    rw [← h]

/-! ### `get_borrow`, `borrows` -/

theorem getBorrow_run {s : St} (nd : (keys s.borrows).Nodup) (cv : Covers env s.borrows)
    (ba : CohC s.borAmtC (specBorAmt cx env s.borrows)) {k : String} {info : BorrowInfo}
    (hk : AList.get? s.borrows k = some info) :
    ∃ bv vs, specBorrowOf cx env k info = .ok bv ∧ specBorAmt cx env s.borrows = .ok vs ∧
      getBorrow cx env k s = (.ok bv, { s with borAmtC := cacheOf vs }) := by
  obtain ⟨vs, hvs, hrun⟩ := borrowsValue_run nd cv ba
  obtain ⟨⟨st, hst⟩, _, _⟩ := cv k (aget_mem_keys hk)
  obtain ⟨x, hx1, hx2⟩ := scratchMap_get hvs nd (mem_of_aget hk)
  refine ⟨{ base := info.base, amount := cx.mul info.base st.varIdx,
            apy := rateToApy cx st.varRate, value := x, beginIdx := info.beginIdx }, vs, ?_, hvs, ?_⟩
  · unfold specBorrowOf; rw [hst, hx1]; rfl
  · unfold getBorrow
    rw [run_bind_ok (a := info) (s' := s) (by simp [hk, optRes])]
    rw [run_bind_ok (a := st) (s' := s) (by simp [hst])]
    rw [run_bind_ok hrun]
    simp only [run_ofRes]
    unfold borrowOf; rw [hst, hx2]; rfl

/-- what the borrows-amount cache can be after a read -/
def BAStep (cx : ACtx) (env : Env) (s : St) (c' : Cache Rat) : Prop :=
  c' = s.borAmtC ∨ ∃ vs, specBorAmt cx env s.borrows = .ok vs ∧ c' = cacheOf vs

theorem BAStep.coh {s : St} {c' : Cache Rat} (h : BAStep cx env s c')
    (ba : CohC s.borAmtC (specBorAmt cx env s.borrows)) : CohC c' (specBorAmt cx env s.borrows) := by
  rcases h with h | ⟨vs, h1, h2⟩
  · rw [h]; exact ba
  · rw [h2]; exact CohC.of h1

theorem fillBorLoop_run : ∀ (entries : AList String BorrowInfo) (s : St) (r : AList String BorrowV),
    (keys s.borrows).Nodup → Covers env s.borrows → CohC s.borAmtC (specBorAmt cx env s.borrows) →
    (∀ p ∈ entries, p ∈ s.borrows) → (keys entries).Nodup → (∀ k ∈ keys entries, k ∉ keys s.borC.val) →
    scratchMap (specBorrowOf cx env) entries = .ok r →
    ∃ c', BAStep cx env s c' ∧
      fillBorLoop cx env (keys entries) s =
        (.ok (), { s with borAmtC := c', borC := ⟨s.borC.empty && r.isEmpty, s.borC.val ++ r⟩ }) := by
  intro entries
  induction entries with
  | nil =>
    intro s r _ _ _ _ _ _ hr
    simp at hr; cases hr
    exact ⟨s.borAmtC, Or.inl rfl, by simp [fillBorLoop]⟩
  | cons p rest ih =>
    intro s r nd cv ba hsub hnd hdis hr
    obtain ⟨k, info⟩ := p
    obtain ⟨bv, r', h1, h2, h3⟩ := scratchMap_cons_inv hr
    subst h3
    have hk : AList.get? s.borrows k = some info := aget_of_mem nd (hsub (k, info) (List.mem_cons_self ..))
    obtain ⟨bv', vs, hbv, hvs, hrun⟩ := getBorrow_run nd cv ba hk
    rw [h1] at hbv; cases hbv
    simp only [keys_cons, List.nodup_cons] at hnd
    have hkc : k ∉ keys s.borC.val := hdis k (by simp)
    let s2 : St := { s with borAmtC := cacheOf vs, borC := s.borC.set k bv }
    have ih' := ih s2 r' nd cv (CohC.of hvs) (fun q hq => hsub q (List.mem_cons_of_mem _ hq)) hnd.2
      (by
        intro k' hk'
        simp only [s2, Cache.set, aset_not_mem hkc, keys_append, keys_cons, keys_nil, List.mem_append,
          List.mem_singleton, not_or]
        exact ⟨hdis k' (by simp [hk']), fun e => hnd.1 (e ▸ hk')⟩) h2
    obtain ⟨c', hc', hloop⟩ := ih'
    refine ⟨c', ?_, ?_⟩
    · rcases hc' with hc' | hc'
      · exact Or.inr ⟨vs, hvs, hc'⟩
      · exact Or.inr hc'
    · simp only [keys_cons, fillBorLoop]
      rw [run_bind_ok hrun]
      rw [run_bind_ok (a := ()) (s' := s2) (by simp [s2])]
      rw [hloop]
      simp [s2, Cache.set, aset_not_mem hkc]

theorem borrowsView_run {s : St} (nd : (keys s.borrows).Nodup) (cv : Covers env s.borrows)
    (ba : CohC s.borAmtC (specBorAmt cx env s.borrows)) (bo : CohC s.borC (specBorrows cx env s.borrows)) :
    ∃ bvs c', specBorrows cx env s.borrows = .ok bvs ∧ BAStep cx env s c' ∧
      borrowsView cx env s = (.ok bvs, { s with borAmtC := c', borC := cacheOf bvs }) := by
  obtain ⟨bvs, hbvs⟩ := specBorrows_ok (cx := cx) cv
  rcases bo.cases hbvs with h | ⟨h, he⟩
  · have he : s.borC.empty = true := by rw [h]; rfl
    obtain ⟨c', hc', hloop⟩ := fillBorLoop_run s.borrows s bvs nd cv ba (fun _ hp => hp) nd
      (by rw [h]; simp [Cache.fresh]) hbvs
    refine ⟨bvs, c', hbvs, hc', ?_⟩
    unfold borrowsView
    simp only [he, if_true]
    rw [hloop]
    simp only [h, Cache.fresh, Bool.true_and, List.nil_append]
    cases bvs <;> simp [cacheOf, Cache.fresh]
  · refine ⟨bvs, s.borAmtC, hbvs, Or.inl rfl, ?_⟩
    unfold borrowsView
    simp only [he, Bool.false_eq_true, if_false]
    rw [h]; simp
    rw [← h]

end Demeter.Aave
