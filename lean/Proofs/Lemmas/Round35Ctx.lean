/-
  Round35 — part 7: `round35` / `dsqrt35` specialisations (`p = 35`, `ε = EPS35 = 5·10⁻³⁵`) and the guarded context.

  `NumCtx.pyG` is `NumCtx.py` on the magnitude range `InRange` (numerator and denominator `< 2^150000`) and a harmless
  fallback outside it (identity for `rnd`, a 36-digit integer-square-root quotient for `dsqrt`).  Hence
     * `pyG` agrees with the context the compiled drivers run on every number with fewer than 45 154 digits, and
     * `pyG` satisfies the ε-hypotheses of the robust theorems for **all** rationals, with no side condition.
-/
import Proofs.Lemmas.Round35Range
namespace Demeter.Numerics
open Demeter

local notation "T" => (10 : ℚ)

/-- CPython's unit roundoff at `prec = 35`: half a unit in the 35th significant digit -/
def EPS35 : ℚ := 5 / 10 ^ 35

theorem epsP_35 : epsP 35 = EPS35 := by
  unfold epsP EPS35; norm_num

theorem EPS35_pos : 0 < EPS35 := by unfold EPS35; norm_num
theorem EPS35_small : EPS35 ≤ 1 / 1000000000 := by unfold EPS35; norm_num

/-! ### `round35` -/

theorem round35_rel_err (x : ℚ) (hr : InRange x) : |round35 x - x| ≤ EPS35 * |x| := by
  have := roundSig_rel_err 35 x hr
  rwa [show (1:ℚ) / 2 * T ^ (1 - ((35:ℕ):ℤ)) = epsP 35 from rfl, epsP_35] at this

theorem round35_bounds {x : ℚ} (hx : 0 ≤ x) (hr : InRange x) :
    x * (1 - EPS35) ≤ round35 x ∧ round35 x ≤ x * (1 + EPS35) := by
  have := roundSig_bounds 35 hx hr
  rwa [show (1:ℚ) / 2 * T ^ (1 - ((35:ℕ):ℤ)) = epsP 35 from rfl, epsP_35] at this

theorem round35_zero : round35 0 = 0 := roundSig_zero 35
theorem round35_nonneg {x : ℚ} (hx : 0 ≤ x) : 0 ≤ round35 x := roundSig_nonneg 35 hx
theorem round35_nonpos {x : ℚ} (hx : x ≤ 0) : round35 x ≤ 0 := roundSig_nonpos 35 hx
theorem round35_neg (x : ℚ) : round35 (-x) = - round35 x := roundSig_neg_eq 35 x

theorem round35_pos {x : ℚ} (hx : 0 < x) (hr : InRange x) : 0 < round35 x := by
  unfold round35; rw [roundSig_pos 35 hx]; exact rpos_pos 35 (by decide) hx hr

theorem round35_mono {x y : ℚ} (hxy : x ≤ y) (hrx : InRange x) (hry : InRange y) : round35 x ≤ round35 y :=
  roundSig_mono 35 (by decide) hxy hrx hry

theorem round35_idem (x : ℚ) (hr : InRange x) (hr' : InRange (round35 x)) : round35 (round35 x) = round35 x :=
  roundSig_idem 35 (by decide) x hr hr'

theorem round35_idem' (x : ℚ) (h1 : x.num.natAbs < 10 ^ 45000) (h2 : x.den < 10 ^ 45000) :
    round35 (round35 x) = round35 x :=
  roundSig_idem' 35 (by decide) (by decide) x h1 h2

/-- a decimal `c·10^e` with at most 35 significant digits is returned unchanged -/
theorem round35_fix (c e : ℤ) (hc : c.natAbs < 10 ^ 35) (hr : InRange ((c:ℚ) * T ^ e)) :
    round35 ((c:ℚ) * T ^ e) = (c:ℚ) * T ^ e :=
  roundSig_fix 35 (by decide) c e hc hr

/-! ### `dsqrt35` -/

theorem dsqrt35_spec {x : ℚ} (hx : 0 ≤ x) (hr : InRange x) :
    0 ≤ dsqrt35 x ∧ x * (1 - EPS35) ^ 2 ≤ dsqrt35 x ^ 2 ∧ dsqrt35 x ^ 2 ≤ x * (1 + EPS35) ^ 2 := by
  rcases eq_or_lt_of_le hx with h | h
  · subst h
    have : dsqrt35 0 = 0 := sqrtSig_nonpos 35 (le_refl 0)
    rw [this]; simp
  · have := sqrtSig_spec' 35 (by decide) (by decide) h hr
    rwa [epsP_35] at this

theorem dsqrt35_nonpos {x : ℚ} (hx : x ≤ 0) : dsqrt35 x = 0 := sqrtSig_nonpos 35 hx

/-! ### the guarded context -/

/-- a rational within `10⁻³⁶` (relative) below `√y`, for any `y > 0` — only used outside the magnitude range -/
def sqrtFallback (y : ℚ) : ℚ :=
  (Nat.sqrt (y.num.natAbs * y.den * (10 ^ 36) ^ 2) : ℚ) / ((y.den : ℚ) * 10 ^ 36)

theorem sqrtFallback_spec {y : ℚ} (hy : 0 < y) :
    0 ≤ sqrtFallback y ∧ y * (1 - EPS35) ^ 2 ≤ sqrtFallback y ^ 2 ∧ sqrtFallback y ^ 2 ≤ y * (1 + EPS35) ^ 2 := by
  have hn : 0 < y.num.natAbs := Int.natAbs_pos.2 (ne_of_gt (Rat.num_pos.2 hy))
  have hd := y.den_pos
  have hyd := natAbs_div_den hy
  unfold sqrtFallback
  generalize y.num.natAbs = n at *
  generalize y.den = d at *
  have hnq : (1:ℚ) ≤ n := by exact_mod_cast hn
  have hdq : (1:ℚ) ≤ d := by exact_mod_cast hd
  have s1 := Nat.sqrt_le' (n * d * (10 ^ 36) ^ 2)
  have s2 := Nat.lt_succ_sqrt' (n * d * (10 ^ 36) ^ 2)
  generalize Nat.sqrt (n * d * (10 ^ 36) ^ 2) = s at *
  have s1' : (s:ℚ) ^ 2 ≤ (n:ℚ) * d * (10 ^ 36) ^ 2 := by exact_mod_cast s1
  have s2' : (n:ℚ) * d * (10 ^ 36) ^ 2 < ((s:ℚ) + 1) ^ 2 := by
    have : ((n * d * (10 ^ 36) ^ 2 : ℕ) : ℚ) < ((s.succ ^ 2 : ℕ) : ℚ) := by exact_mod_cast s2
    push_cast at this; exact this
  -- s ≥ 10^36
  have hs : 10 ^ 36 ≤ s := by
    by_contra hc
    have h1 : s.succ ≤ 10 ^ 36 := by omega
    have h2 : s.succ ^ 2 ≤ (10 ^ 36) ^ 2 := Nat.pow_le_pow_left h1 2
    have h3 : 1 * (10 ^ 36) ^ 2 ≤ n * d * (10 ^ 36) ^ 2 :=
      Nat.mul_le_mul_right _ (Nat.mul_pos hn hd)
    omega
  have hsq : (10:ℚ) ^ 36 ≤ (s:ℚ) := by exact_mod_cast hs
  have hD : (0:ℚ) < (d:ℚ) * 10 ^ 36 := by positivity
  have hy' : y = (n:ℚ) * d * (10 ^ 36) ^ 2 / ((d:ℚ) * 10 ^ 36) ^ 2 := by
    rw [← hyd]; field_simp
  have hD2 : (0:ℚ) < ((d:ℚ) * 10 ^ 36) ^ 2 := by positivity
  refine ⟨by positivity, ?_, ?_⟩
  · rw [div_pow, hy', div_mul_eq_mul_div, div_le_div_iff_of_pos_right hD2]
    -- s ≥ (s+1)(1-ε)
    have hε : ((s:ℚ) + 1) * (1 - EPS35) ≤ s := by unfold EPS35; nlinarith
    have h0 : 0 ≤ ((s:ℚ) + 1) * (1 - EPS35) := by unfold EPS35; positivity
    have h2 := pow_le_pow_left₀ h0 hε 2
    have h3 : (n:ℚ) * d * (10 ^ 36) ^ 2 * (1 - EPS35) ^ 2 ≤ ((s:ℚ) + 1) ^ 2 * (1 - EPS35) ^ 2 :=
      mul_le_mul_of_nonneg_right (le_of_lt s2') (by positivity)
    rw [mul_pow] at h2; linarith
  · rw [div_pow, hy', div_mul_eq_mul_div, div_le_div_iff_of_pos_right hD2]
    have : (1:ℚ) ≤ (1 + EPS35) ^ 2 := by unfold EPS35; norm_num
    nlinarith

end Demeter.Numerics

namespace Demeter
open Demeter.Numerics

/-- `NumCtx.py` guarded by the magnitude range: identical to the drivers' context on every number whose numerator
    and denominator are below `2^150000` (45 154 digits). -/
def NumCtx.pyG : NumCtx :=
  { rnd := fun x => if InRange x then round35 x else x
    dsqrt := fun x => if InRange x then dsqrt35 x else sqrtFallback x }

theorem NumCtx.pyG_rnd_eq {x : ℚ} (h : InRange x) : NumCtx.pyG.rnd x = NumCtx.py.rnd x := by
  show (if InRange x then round35 x else x) = round35 x
  rw [if_pos h]

theorem NumCtx.pyG_dsqrt_eq {x : ℚ} (h : InRange x) : NumCtx.pyG.dsqrt x = NumCtx.py.dsqrt x := by
  show (if InRange x then dsqrt35 x else sqrtFallback x) = dsqrt35 x
  rw [if_pos h]

end Demeter
