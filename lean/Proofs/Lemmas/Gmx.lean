/-
  Helper lemmas for the GMX proofs (C17, C01/C03/C04 GMX parts): `quantize(…, ROUND_DOWN)` of a non-negative number is
  the floor, `int()` likewise, `Except` bind inversion, wallet restore.
-/
import Demeter.GmxV1
import Demeter.GmxV2
import Proofs.Lemmas.Exact
import Mathlib.Tactic.Linarith
import Mathlib.Algebra.Order.Field.Rat
import Mathlib.Data.Rat.Cast.Order
import Mathlib.Data.Rat.Floor
namespace Demeter.Gmx
open Demeter

theorem quantDown0_eq_floor {x : Rat} (hx : 0 ≤ x) : quantDown 0 x = ((⌊x⌋ : Int) : Rat) := by
  have hn : 0 ≤ x.num := Rat.num_nonneg.mpr hx
  unfold quantDown pow10
  simp only [pow_zero, Nat.mul_one, not_lt.mpr hn, if_false]
  rw [Rat.floor_def', Rat.mkRat_one, Int.natAbs_of_nonneg hn]

theorem quantDown0_le {x : Rat} (hx : 0 ≤ x) : quantDown 0 x ≤ x := by
  rw [quantDown0_eq_floor hx]; exact Int.floor_le x

theorem quantDown0_gt {x : Rat} (hx : 0 ≤ x) : x < quantDown 0 x + 1 := by
  rw [quantDown0_eq_floor hx]; exact Int.lt_floor_add_one x

theorem quantDown0_nonneg {x : Rat} (hx : 0 ≤ x) : 0 ≤ quantDown 0 x := by
  rw [quantDown0_eq_floor hx]; exact_mod_cast Int.floor_nonneg.mpr hx

theorem quantDown0_mono {x y : Rat} (hx : 0 ≤ x) (hxy : x ≤ y) : quantDown 0 x ≤ quantDown 0 y := by
  rw [quantDown0_eq_floor hx, quantDown0_eq_floor (le_trans hx hxy)]; exact_mod_cast Int.floor_mono hxy

theorem truncInt_eq_floor {x : Rat} (hx : 0 ≤ x) : truncInt x = ⌊x⌋ := by
  have hn : 0 ≤ x.num := Rat.num_nonneg.mpr hx
  unfold truncInt
  rw [Rat.floor_def', Int.tdiv_eq_ediv_of_nonneg hn]

/-- `x >>= f = ok b` inverts to an intermediate value -/
theorem bind_ok {ε α β : Type} {x : Except ε α} {f : α → Except ε β} {b : β} :
    (x >>= f) = .ok b ↔ ∃ a, x = .ok a ∧ f a = .ok b := by
  cases x with
  | error e => simp [bind, Except.bind]
  | ok a => simp [bind, Except.bind]

theorem bind_err {ε α β : Type} {x : Except ε α} {f : α → Except ε β} {e : ε} :
    (x >>= f) = .error e ↔ x = .error e ∨ ∃ a, x = .ok a ∧ f a = .error e := by
  cases x with
  | error e' => simp [bind, Except.bind]
  | ok a => simp [bind, Except.bind]

end Demeter.Gmx
