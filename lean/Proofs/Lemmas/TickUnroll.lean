/-
  The generated, unrolled raw-`Nat` form of TickMath equals the model's list fold, for every tick.
-/
import Demeter.TickMath
namespace Demeter
open Gen

theorem tickStepU_eq (a mask c r : Nat) :
    tickStepU a mask c r = (if a &&& mask != 0 then (r * c) >>> tickShift else r) := by
  unfold tickStepU tickShift
  by_cases h : a &&& mask = 0
  · have : Nat.land a mask = 0 := h
    simp [h]
  · have h' : Nat.land a mask ≠ 0 := h
    have hb : Nat.beq (Nat.land a mask) 0 = false := by
      cases hbe : Nat.beq (Nat.land a mask) 0 with
      | false => rfl
      | true => exact absurd (Nat.eq_of_beq_eq_true hbe) h'
    simp only [hb, cond_false]
    have : (a &&& mask != 0) = true := by simpa using h
    simp only [this, if_true]
    rfl

theorem tickRatioAbsU_eq (a : Nat) :
    tickRatioAbsU a = tickFold a tickTable (if a &&& 1 != 0 then tickStartOdd else tickStartEven) := by
  have hstart : (cond (Nat.beq (Nat.land a 1) 0) tickStartEven tickStartOdd)
      = (if a &&& 1 != 0 then tickStartOdd else tickStartEven) := by
    by_cases h : a &&& 1 = 0
    · have : Nat.land a 1 = 0 := h
      simp [h]
    · have h' : Nat.land a 1 ≠ 0 := h
      have hb : Nat.beq (Nat.land a 1) 0 = false := by
        cases hbe : Nat.beq (Nat.land a 1) 0 with
        | false => rfl
        | true => exact absurd (Nat.eq_of_beq_eq_true hbe) h'
      have : (a &&& 1 != 0) = true := by simpa using h
      simp only [hb, cond_false, this, if_true]
  unfold tickRatioAbsU
  simp only [tickTable, tickFold, ← tickStepU_eq]
  rw [← hstart]
  rfl

theorem tickRoundU_eq (r : Nat) :
    tickRoundU r = (r >>> tickFinalShift) + (if r % tickFinalMod = 0 then 0 else 1) := by
  unfold tickRoundU tickFinalShift tickFinalMod
  by_cases h : r % 4294967296 = 0
  · have h2 : Nat.mod r 4294967296 = 0 := h
    simp [h, h2]
  · have h' : Nat.mod r 4294967296 ≠ 0 := h
    have hb : Nat.beq (Nat.mod r 4294967296) 0 = false := by
      cases hbe : Nat.beq (Nat.mod r 4294967296) 0 with
      | false => rfl
      | true => exact absurd (Nat.eq_of_beq_eq_true hbe) h'
    simp only [hb, cond_false, h, if_false]; rfl

/-- the model on non-positive ticks -/
theorem sqrtAt_neg (a : Nat) : sqrtAt (-(a : Int)) = sqrtNegU a := by
  unfold sqrtAt tickRatio sqrtNegU
  have h1 : (-(a : Int)).natAbs = a := by simp
  have h2 : ¬ (-(a : Int) > 0) := by omega
  simp only [h1, h2, if_false, tickRoundU_eq, tickRatioAbsU_eq]

/-- the model on positive ticks -/
theorem sqrtAt_pos (a : Nat) (h : 0 < a) : sqrtAt (a : Int) = sqrtPosU a := by
  unfold sqrtAt tickRatio sqrtPosU
  have h1 : ((a : Int)).natAbs = a := by simp
  have h2 : ((a : Int) > 0) := by omega
  simp only [h1, h2, if_true, tickRoundU_eq, tickRatioAbsU_eq]
  rfl

end Demeter
