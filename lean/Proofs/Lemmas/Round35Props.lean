/-
  Round35 — part 4: order properties of `roundSig` on the magnitude range.

  * sign preservation (no magnitude hypothesis), `roundSig p 0 = 0`;
  * two-sided bounds `x·(1−ε) ≤ roundSig p x ≤ x·(1+ε)` for `x ≥ 0`, `ε = (1/2)·10^(1−p)`;
  * monotone (`p ≥ 1`);
  * fixed points: every `q·10^e` with `0 < q < 10^p` is returned unchanged, hence idempotent.
-/
import Proofs.Lemmas.Round35Err
namespace Demeter.Numerics
open Demeter

local notation "T" => (10 : ℚ)

/-! ### sign -/

theorem roundSig_nonneg (p : ℕ) {x : ℚ} (hx : 0 ≤ x) : 0 ≤ roundSig p x := by
  rcases eq_or_lt_of_le hx with h | h
  · subst h; rw [roundSig_zero]
  · rw [roundSig_pos p h]; exact rpos_nonneg p x

theorem roundSig_nonpos (p : ℕ) {x : ℚ} (hx : x ≤ 0) : roundSig p x ≤ 0 := by
  have := roundSig_nonneg p (neg_nonneg.2 hx)
  rw [roundSig_neg_eq] at this
  linarith

/-- the mantissa is a `p`-digit number (or `10^p` after a carry) -/
theorem rpos_mantissa (p : ℕ) (hp : 1 ≤ p) {y : ℚ} (hy : 0 < y) (hr : InRange y) :
    10 ^ (p - 1) ≤ rheQ (y / T ^ sexp p y) ∧ rheQ (y / T ^ sexp p y) ≤ 10 ^ p := by
  obtain ⟨h1, h2⟩ := sexp_spec p hy hr
  have hv : 0 ≤ y / T ^ sexp p y := le_trans (le_of_lt (Tz_pos _)) h1
  constructor
  · apply rheQ_ge
    have : ((p:ℤ) - 1) = ((p - 1 : ℕ) : ℤ) := by omega
    rw [this, zpow_natCast] at h1
    push_cast; exact h1
  · apply rheQ_le hv
    rw [zpow_natCast] at h2
    push_cast; exact le_of_lt h2

theorem rpos_pos (p : ℕ) (hp : 1 ≤ p) {y : ℚ} (hy : 0 < y) (hr : InRange y) : 0 < rpos p y := by
  obtain ⟨h1, _⟩ := rpos_mantissa p hp hy hr
  have : 0 < rheQ (y / T ^ sexp p y) := Nat.lt_of_lt_of_le (Nat.pow_pos (by decide)) h1
  have hq : (0:ℚ) < (rheQ (y / T ^ sexp p y) : ℚ) := by exact_mod_cast this
  unfold rpos
  exact mul_pos hq (Tz_pos _)

/-! ### two-sided bounds -/

theorem roundSig_bounds (p : ℕ) {x : ℚ} (hx : 0 ≤ x) (hr : InRange x) :
    x * (1 - 1 / 2 * T ^ (1 - (p : ℤ))) ≤ roundSig p x ∧ roundSig p x ≤ x * (1 + 1 / 2 * T ^ (1 - (p : ℤ))) := by
  have := roundSig_rel_err p x hr
  rw [abs_of_nonneg hx, abs_le] at this
  constructor <;> nlinarith [this.1, this.2]

/-! ### monotone -/

theorem sexp_mono (p : ℕ) {x y : ℚ} (hx : 0 < x) (hxy : x ≤ y) (hrx : InRange x) (hry : InRange y) :
    sexp p x ≤ sexp p y := by
  obtain ⟨x1, _⟩ := sexp_spec p hx hrx
  obtain ⟨_, y2⟩ := sexp_spec p (lt_of_lt_of_le hx hxy) hry
  rw [le_div_iff₀ (Tz_pos _), ← Tz_add] at x1
  rw [div_lt_iff₀ (Tz_pos _), ← Tz_add] at y2
  have := Tz_lt_iff.1 (lt_of_le_of_lt (le_trans x1 hxy) y2)
  omega

theorem rpos_mono (p : ℕ) (hp : 1 ≤ p) {x y : ℚ} (hx : 0 < x) (hxy : x ≤ y)
    (hrx : InRange x) (hry : InRange y) : rpos p x ≤ rpos p y := by
  have hy : 0 < y := lt_of_lt_of_le hx hxy
  rcases lt_or_eq_of_le (sexp_mono p hx hxy hrx hry) with hlt | heq
  · -- different decades: rpos x ≤ 10^(p+ex) ≤ 10^(p-1+ey) ≤ rpos y
    obtain ⟨_, qx⟩ := rpos_mantissa p hp hx hrx
    obtain ⟨qy, _⟩ := rpos_mantissa p hp hy hry
    have qx' : (rheQ (x / T ^ sexp p x) : ℚ) ≤ T ^ (p:ℤ) := by
      rw [zpow_natCast]; exact_mod_cast qx
    have qy' : T ^ ((p:ℤ) - 1) ≤ (rheQ (y / T ^ sexp p y) : ℚ) := by
      have : ((p:ℤ) - 1) = ((p - 1 : ℕ) : ℤ) := by omega
      rw [this, zpow_natCast]; exact_mod_cast qy
    have hTx := Tz_pos (sexp p x)
    have hTy := Tz_pos (sexp p y)
    unfold rpos
    calc (rheQ (x / T ^ sexp p x) : ℚ) * T ^ sexp p x
        ≤ T ^ (p:ℤ) * T ^ sexp p x := by gcongr
      _ = T ^ ((p:ℤ) + sexp p x) := (Tz_add _ _).symm
      _ ≤ T ^ (((p:ℤ) - 1) + sexp p y) := Tz_mono (by omega)
      _ = T ^ ((p:ℤ) - 1) * T ^ sexp p y := Tz_add _ _
      _ ≤ (rheQ (y / T ^ sexp p y) : ℚ) * T ^ sexp p y := by gcongr
  · unfold rpos
    rw [heq]
    have hT := Tz_pos (sexp p y)
    have hv : 0 ≤ x / T ^ sexp p y := by positivity
    have : x / T ^ sexp p y ≤ y / T ^ sexp p y := by gcongr
    have := rheQ_mono hv this
    have : (rheQ (x / T ^ sexp p y) : ℚ) ≤ (rheQ (y / T ^ sexp p y) : ℚ) := by exact_mod_cast this
    gcongr

/-- **`roundSig p` is monotone** on the magnitude range -/
theorem roundSig_mono (p : ℕ) (hp : 1 ≤ p) {x y : ℚ} (hxy : x ≤ y) (hrx : InRange x) (hry : InRange y) :
    roundSig p x ≤ roundSig p y := by
  rcases lt_trichotomy x 0 with hx | hx | hx
  · rcases lt_trichotomy y 0 with hy | hy | hy
    · rw [roundSig_neg p hx, roundSig_neg p hy]
      have := rpos_mono p hp (neg_pos.2 hy) (neg_le_neg hxy) (InRange_neg hry) (InRange_neg hrx)
      linarith
    · exact le_trans (roundSig_nonpos p (le_of_lt hx)) (roundSig_nonneg p (le_of_eq hy.symm))
    · exact le_trans (roundSig_nonpos p (le_of_lt hx)) (roundSig_nonneg p (le_of_lt hy))
  · subst hx; rw [roundSig_zero]; exact roundSig_nonneg p hxy
  · rw [roundSig_pos p hx, roundSig_pos p (lt_of_lt_of_le hx hxy)]
    exact rpos_mono p hp hx hxy hrx hry

/-! ### fixed points -/

/-- a normalised `p`-digit decimal is a fixed point -/
theorem rpos_fix_norm (p : ℕ) (hp : 1 ≤ p) (q : ℕ) (e : ℤ) (h1 : 10 ^ (p - 1) ≤ q) (h2 : q < 10 ^ p)
    (hr : InRange ((q:ℚ) * T ^ e)) : rpos p ((q:ℚ) * T ^ e) = (q:ℚ) * T ^ e := by
  have hq : 0 < q := Nat.lt_of_lt_of_le (Nat.pow_pos (by decide)) h1
  have hqq : (0:ℚ) < q := by exact_mod_cast hq
  have hT := Tz_pos e
  have hy : (0:ℚ) < (q:ℚ) * T ^ e := mul_pos hqq hT
  have hv : (q:ℚ) * T ^ e / T ^ e = q := by field_simp
  have he : sexp p ((q:ℚ) * T ^ e) = e := by
    apply sexp_unique p hy hr
    · rw [hv]
      have : ((p:ℤ) - 1) = ((p - 1 : ℕ) : ℤ) := by omega
      rw [this, zpow_natCast]; exact_mod_cast h1
    · rw [hv, zpow_natCast]; exact_mod_cast h2
  unfold rpos
  rw [he, hv, rheQ_natCast]

/-- any decimal with at most `p` significant digits is a fixed point -/
theorem rpos_fix_aux (p : ℕ) (hp : 1 ≤ p) (j : ℕ) : ∀ (q : ℕ) (e : ℤ), 0 < q → 10 ^ (p - 1 - j) ≤ q → q < 10 ^ p →
    InRange ((q:ℚ) * T ^ e) → rpos p ((q:ℚ) * T ^ e) = (q:ℚ) * T ^ e := by
  induction j with
  | zero => intro q e _ h1 h2 hr; exact rpos_fix_norm p hp q e h1 h2 hr
  | succ j ih =>
    intro q e hq h1 h2 hr
    by_cases hc : 10 ^ (p - 1 - j) ≤ q
    · exact ih q e hq hc h2 hr
    · have hlt : q < 10 ^ (p - 1 - j) := Nat.lt_of_not_le hc
      have hpos : 1 ≤ p - 1 - j := by
        by_contra h0
        have : p - 1 - j = 0 := by omega
        rw [this] at hlt; simp at hlt; omega
      have e1 : p - 1 - j = (p - 1 - (j + 1)) + 1 := by omega
      have eq : (q:ℚ) * T ^ e = ((10 * q : ℕ) : ℚ) * T ^ (e - 1) := by
        have : T ^ e = T ^ (e - 1) * 10 := by rw [← Tz_succ]; congr 1; ring
        rw [this]; push_cast; ring
      rw [eq] at hr ⊢
      apply ih (10 * q) (e - 1) (by omega) _ _ hr
      · rw [e1, Nat.pow_succ]; omega
      · have : 10 ^ (p - 1 - j) ≤ 10 ^ (p - 1) := Nat.pow_le_pow_right (by decide) (by omega)
        have e2 : p = (p - 1) + 1 := by omega
        rw [e2, Nat.pow_succ]; omega

theorem rpos_fix (p : ℕ) (hp : 1 ≤ p) (q : ℕ) (e : ℤ) (hq : 0 < q) (h2 : q < 10 ^ p)
    (hr : InRange ((q:ℚ) * T ^ e)) : rpos p ((q:ℚ) * T ^ e) = (q:ℚ) * T ^ e := by
  apply rpos_fix_aux p hp (p - 1) q e hq _ h2 hr
  have : p - 1 - (p - 1) = 0 := by omega
  rw [this]; simp; omega

/-- **decimals with at most `p` significant digits are not changed by `roundSig p`** -/
theorem roundSig_fix (p : ℕ) (hp : 1 ≤ p) (c : ℤ) (e : ℤ) (hc : c.natAbs < 10 ^ p)
    (hr : InRange ((c:ℚ) * T ^ e)) : roundSig p ((c:ℚ) * T ^ e) = (c:ℚ) * T ^ e := by
  have hT := Tz_pos e
  rcases lt_trichotomy c 0 with h | h | h
  · have hcq : (c:ℚ) < 0 := by exact_mod_cast h
    have hneg : (c:ℚ) * T ^ e < 0 := mul_neg_of_neg_of_pos hcq hT
    have e1 : -((c:ℚ) * T ^ e) = ((c.natAbs : ℕ) : ℚ) * T ^ e := by
      have : ((c.natAbs : ℕ) : ℚ) = -(c:ℚ) := by
        rw [← Int.cast_natCast, Int.ofNat_natAbs_of_nonpos (le_of_lt h)]; push_cast; ring
      rw [this]; ring
    rw [roundSig_neg p hneg, e1, rpos_fix p hp c.natAbs e (Int.natAbs_pos.2 (ne_of_lt h)) hc, ← e1, neg_neg]
    rw [← e1]; exact InRange_neg hr
  · subst h; simp [roundSig_zero]
  · have hcq : (0:ℚ) < c := by exact_mod_cast h
    have hpos : 0 < (c:ℚ) * T ^ e := mul_pos hcq hT
    have e1 : (c:ℚ) * T ^ e = ((c.natAbs : ℕ) : ℚ) * T ^ e := by
      have : ((c.natAbs : ℕ) : ℚ) = (c:ℚ) := by
        rw [← Int.cast_natCast, Int.natAbs_of_nonneg (le_of_lt h)]
      rw [this]
    rw [roundSig_pos p hpos]
    rw [e1] at hr ⊢
    exact rpos_fix p hp c.natAbs e (Int.natAbs_pos.2 (ne_of_gt h)) hc hr

/-- `rpos` is idempotent -/
theorem rpos_idem (p : ℕ) (hp : 1 ≤ p) {y : ℚ} (hy : 0 < y) (hr : InRange y) (hr' : InRange (rpos p y)) :
    rpos p (rpos p y) = rpos p y := by
  obtain ⟨h1, h2⟩ := rpos_mantissa p hp hy hr
  have h0 : 0 < rheQ (y / T ^ sexp p y) := Nat.lt_of_lt_of_le (Nat.pow_pos (by decide)) h1
  rcases Nat.lt_or_eq_of_le h2 with hlt | heq
  · exact rpos_fix p hp _ _ h0 hlt hr'
  · -- carry: the result is `10^p · 10^e = 1 · 10^(p+e)`
    have e1 : rpos p y = ((1 : ℕ) : ℚ) * T ^ ((p:ℤ) + sexp p y) := by
      unfold rpos; rw [heq, Tz_add, zpow_natCast]; push_cast; ring
    rw [e1] at hr' ⊢
    exact rpos_fix p hp 1 _ (by decide) (Nat.one_lt_pow (by omega) (by decide)) hr'

/-- **`roundSig p` is idempotent** -/
theorem roundSig_idem (p : ℕ) (hp : 1 ≤ p) (x : ℚ) (hr : InRange x) (hr' : InRange (roundSig p x)) :
    roundSig p (roundSig p x) = roundSig p x := by
  rcases lt_trichotomy x 0 with h | h | h
  · have hy : 0 < -x := neg_pos.2 h
    rw [roundSig_neg p h] at hr' ⊢
    have hr'' : InRange (rpos p (-x)) := by simpa using InRange_neg hr'
    rw [roundSig_neg_eq, roundSig_pos p (rpos_pos p hp hy (InRange_neg hr)),
      rpos_idem p hp hy (InRange_neg hr) hr'']
  · subst h; simp [roundSig_zero]
  · rw [roundSig_pos p h] at hr' ⊢
    rw [roundSig_pos p (rpos_pos p hp h hr), rpos_idem p hp h hr hr']

end Demeter.Numerics
