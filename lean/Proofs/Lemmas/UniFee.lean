/-
  Helper lemmas for C08 (Demeter.Uni.Fee): the four-tick sort of `update_fee` against the interval-overlap
  specification, and the shape of `updateFee` / `updateLoop` under the exact context.
-/
import Demeter.Uni.Fee
import Proofs.Lemmas.Exact
import Mathlib.Tactic.Linarith
import Mathlib.Tactic.FieldSimp
import Mathlib.Tactic.Ring
import Mathlib.Tactic.Positivity
import Mathlib.Algebra.Order.Field.Rat
import Mathlib.Data.Rat.Cast.Order
namespace Demeter.Uni
open Demeter

/-- length of `[min prev close, max prev close] ∩ [lower, upper]` (negative = disjoint) -/
def overlap (prev close lower upper : Int) : Int :=
  min (max prev close) upper - max (min prev close) lower

/-- the tick is inside the position's range (`lower ≤ t < upper`: the code's class 0) -/
def inside (lower upper t : Int) : Prop := lower ≤ t ∧ t < upper

instance (lower upper t : Int) : Decidable (inside lower upper t) := by unfold inside; infer_instance

/-- what `update_fee` should decide, stated with interval overlap instead of a sort -/
def feeSpec (prev close lower upper : Int) : FeeCase :=
  if inside lower upper prev ∧ inside lower upper close then .full
  else if overlap prev close lower upper ≤ 0 then .skip
  else .part (overlap prev close lower upper) (intAbs (prev - close))

theorem feeCase_eq_spec (prev close lower upper : Int) (h : lower < upper) :
    feeCase (some prev) close lower upper = feeSpec prev close lower upper := by
  simp only [feeCase, feeSpec, overlap, inside, inRange, sortInts, insertSorted, intAbs]
  grind (splits := 80) [insertSorted]

/-- the weight as a rational number -/
def weightOf : FeeCase → Rat
  | .skip => 0
  | .full => 1
  | .part n d => (n : Rat) / (d : Rat)
  | .nanError => 0

/-- fraction of the tick path `[prev, close]` that lies inside `[lower, upper]`; a stationary tick counts
    fully when inside and not at all when outside -/
def pathFraction (prev close lower upper : Int) : Rat :=
  if prev = close then (if inside lower upper close then 1 else 0)
  else ((max 0 (overlap prev close lower upper) : Int) : Rat) / ((intAbs (close - prev) : Int) : Rat)

theorem intAbs_pos {x : Int} (h : x ≠ 0) : 0 < intAbs x := by unfold intAbs; split <;> omega
theorem intAbs_comm (x y : Int) : intAbs (x - y) = intAbs (y - x) := by unfold intAbs; split <;> split <;> omega

theorem overlap_le_abs (prev close lower upper : Int) (h : lower < upper) :
    overlap prev close lower upper ≤ intAbs (prev - close) := by
  unfold overlap intAbs; split <;> omega

theorem overlap_inside (prev close lower upper : Int)
    (h1 : inside lower upper prev) (h2 : inside lower upper close) :
    overlap prev close lower upper = intAbs (prev - close) := by
  unfold inside at h1 h2; unfold overlap intAbs; split <;> omega

theorem weightOf_feeSpec (prev close lower upper : Int) (h : lower < upper) :
    weightOf (feeSpec prev close lower upper) = pathFraction prev close lower upper := by
  unfold feeSpec pathFraction
  by_cases hin : inside lower upper prev ∧ inside lower upper close
  · rw [if_pos hin]
    by_cases he : prev = close
    · rw [if_pos he, if_pos hin.2]; rfl
    · rw [if_neg he, overlap_inside _ _ _ _ hin.1 hin.2]
      have hp : 0 < intAbs (prev - close) := intAbs_pos (by omega)
      rw [max_eq_right (le_of_lt hp), intAbs_comm close prev]
      have : ((intAbs (prev - close) : Int) : Rat) ≠ 0 := by exact_mod_cast (ne_of_gt hp)
      simp [weightOf, div_self this]
  · rw [if_neg hin]
    by_cases he : prev = close
    · subst he
      rw [if_pos rfl]
      have h0 : overlap prev prev lower upper ≤ 0 := by
        unfold inside at hin; unfold overlap; omega
      rw [if_pos h0]
      have : ¬ inside lower upper prev := fun hh => hin ⟨hh, hh⟩
      rw [if_neg this]; rfl
    · rw [if_neg he]
      by_cases h0 : overlap prev close lower upper ≤ 0
      · rw [if_pos h0, max_eq_left h0]; simp [weightOf]
      · rw [if_neg h0, max_eq_right (by omega), intAbs_comm close prev]; rfl

/-- every weight the code can compute lies in `[0, 1]` -/
theorem weightOf_feeSpec_bounds (prev close lower upper : Int) (h : lower < upper) :
    0 ≤ weightOf (feeSpec prev close lower upper) ∧ weightOf (feeSpec prev close lower upper) ≤ 1 := by
  unfold feeSpec
  split
  · simp [weightOf]
  · split
    · simp [weightOf]
    · rename_i _ h0
      have hle := overlap_le_abs prev close lower upper h
      have hpos : 0 < overlap prev close lower upper := by omega
      have hd : (0 : Rat) < ((intAbs (prev - close) : Int) : Rat) := by exact_mod_cast (by omega : 0 < intAbs (prev - close))
      have hn : (0 : Rat) ≤ ((overlap prev close lower upper : Int) : Rat) := by exact_mod_cast le_of_lt hpos
      have hnd : ((overlap prev close lower upper : Int) : Rat) ≤ ((intAbs (prev - close) : Int) : Rat) := by exact_mod_cast hle
      simp only [weightOf]
      exact ⟨div_nonneg hn (le_of_lt hd), (div_le_one hd).mpr hnd⟩

/-- the amount `calc_amounts` adds for one token -/
def feeInc (w inAmt : Rat) (d : Nat) (liq : Int) (curLiq feeRate : Rat) : Rat :=
  w * (((truncInt inAmt : Int) : Rat) / ((pow10 d : Nat) : Rat)) * ((liq : Rat) / curLiq) * feeRate

theorem calcAmounts_exact (pool : Pool) (row : Row) (p : Pos) (w : Rat) (hc : row.curLiq ≠ 0) :
    calcAmounts NumCtx.exact pool row p w =
      .ok { p with pending0 := p.pending0 + feeInc w row.in0 pool.d0 p.liq row.curLiq pool.feeRate,
                   pending1 := p.pending1 + feeInc w row.in1 pool.d1 p.liq row.curLiq pool.feeRate } := by
  unfold calcAmounts
  rw [if_neg hc]
  simp [feeInc, fromAtomic]

theorem feeInc_zero (inAmt : Rat) (d : Nat) (liq : Int) (c f : Rat) : feeInc 0 inAmt d liq c f = 0 := by
  simp [feeInc]

/-- `updateFee` under the exact context, by the case `feeSpec` selects -/
theorem updateFee_exact (pool : Pool) (prev : Int) (row : Row) (p : Pos) (hlu : p.lower < p.upper)
    (hc : row.curLiq ≠ 0) :
    updateFee NumCtx.exact pool (some prev) row p =
      .ok { p with
        pending0 := p.pending0 + feeInc (pathFraction prev row.closeTick p.lower p.upper) row.in0 pool.d0 p.liq row.curLiq pool.feeRate,
        pending1 := p.pending1 + feeInc (pathFraction prev row.closeTick p.lower p.upper) row.in1 pool.d1 p.liq row.curLiq pool.feeRate } := by
  have hw := weightOf_feeSpec prev row.closeTick p.lower p.upper hlu
  have hb := weightOf_feeSpec_bounds prev row.closeTick p.lower p.upper hlu
  unfold updateFee
  rw [feeCase_eq_spec _ _ _ _ hlu]
  rw [← hw]
  cases hcase : feeSpec prev row.closeTick p.lower p.upper with
  | skip => simp [weightOf, feeInc_zero]
  | full => simp only [weightOf]; exact calcAmounts_exact pool row p 1 hc
  | nanError => unfold feeSpec at hcase; split at hcase <;> (try split at hcase) <;> cases hcase
  | part n d =>
    rw [hcase] at hb
    simp only [weightOf] at hb ⊢
    have : ¬ (NumCtx.exact.div (n : Rat) (d : Rat) > Gen.uniWeightAlarm) := by
      rw [NumCtx.exact_div]; exact not_lt.mpr hb.2
    rw [if_neg this, NumCtx.exact_div]
    exact calcAmounts_exact pool row p _ hc

end Demeter.Uni
