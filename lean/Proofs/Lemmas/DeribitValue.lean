/-
  Value bookkeeping of the Deribit model (used by C03 and C01): value of the positions at rounded mark and how
  it moves when the book or the position dict is updated; properties of the fills of an accepted order.
-/
import Proofs.C15
import Proofs.Lemmas.DeribitInv
import Mathlib.Tactic.FieldSimp
namespace Demeter.Deribit
open Demeter

/-- value of one position at (rounded) mark -/
def posValue (c : TokenCfg) (book : List Instr) (p : Position) : Rat :=
  match findInstr book p.name with
  | some ins => p.amount * roundDec c.feeExp ins.mark
  | none => 0

theorem markValue_eq (c : TokenCfg) (book : List Instr) (ps : List (String × Position)) :
    markValue c book ps = (ps.map (fun kp => posValue c book kp.2)).sum := rfl

theorem findInstr_setAsks (book : List Instr) (n k : String) (ls : List Level) :
    findInstr (setAsks book n ls) k =
      (findInstr book k).map (fun i => if i.name = n then { i with asks := ls } else i) := by
  unfold findInstr setAsks
  rw [List.find?_map]
  congr 2
  funext i
  simp only [Function.comp]
  split <;> rfl

theorem findInstr_setBids (book : List Instr) (n k : String) (ls : List Level) :
    findInstr (setBids book n ls) k =
      (findInstr book k).map (fun i => if i.name = n then { i with bids := ls } else i) := by
  unfold findInstr setBids
  rw [List.find?_map]
  congr 2
  funext i
  simp only [Function.comp]
  split <;> rfl

theorem posValue_setAsks (c : TokenCfg) (book : List Instr) (n : String) (ls : List Level) (p : Position) :
    posValue c (setAsks book n ls) p = posValue c book p := by
  unfold posValue
  rw [findInstr_setAsks]
  cases findInstr book p.name with
  | none => rfl
  | some i => simp only [Option.map_some]; split <;> rfl

theorem posValue_setBids (c : TokenCfg) (book : List Instr) (n : String) (ls : List Level) (p : Position) :
    posValue c (setBids book n ls) p = posValue c book p := by
  unfold posValue
  rw [findInstr_setBids]
  cases findInstr book p.name with
  | none => rfl
  | some i => simp only [Option.map_some]; split <;> rfl

theorem markValue_setAsks (c : TokenCfg) (book : List Instr) (n : String) (ls : List Level) (ps : List (String × Position)) :
    markValue c (setAsks book n ls) ps = markValue c book ps := by
  simp only [markValue_eq, posValue_setAsks]

theorem markValue_setBids (c : TokenCfg) (book : List Instr) (n : String) (ls : List Level) (ps : List (String × Position)) :
    markValue c (setBids book n ls) ps = markValue c book ps := by
  simp only [markValue_eq, posValue_setBids]

/-- value held under key `k` -/
def heldValue (c : TokenCfg) (book : List Instr) (ps : AList String Position) (k : String) : Rat :=
  match AList.get? ps k with
  | some p => posValue c book p
  | none => 0

theorem markValue_set (c : TokenCfg) (book : List Instr) (ps : AList String Position) (k : String) (p' : Position)
    (hn : (ps.map Prod.fst).Nodup) :
    markValue c book (AList.set ps k p') = markValue c book ps - heldValue c book ps k + posValue c book p' := by
  induction ps with
  | nil => simp [AList.set, markValue_eq, heldValue, AList.get?]
  | cons kv ps ih =>
    obtain ⟨a, v⟩ := kv
    simp only [List.map_cons, List.nodup_cons] at hn
    unfold AList.set
    by_cases h : a = k
    · subst h
      simp only [if_true, markValue_eq, List.map_cons, List.sum_cons, heldValue, AList.get?, List.find?_cons, decide_true,
        Option.map_some]
      ring
    · simp only [h, if_false]
      have ih' := ih hn.2
      simp only [markValue_eq, List.map_cons, List.sum_cons, heldValue, AList.get?, List.find?_cons, h, decide_false] at ih' ⊢
      rw [ih']; ring

theorem markValue_erase (c : TokenCfg) (book : List Instr) (ps : AList String Position) (k : String)
    (hn : (ps.map Prod.fst).Nodup) :
    markValue c book (AList.erase ps k) = markValue c book ps - heldValue c book ps k := by
  induction ps with
  | nil => simp [AList.erase, markValue_eq, heldValue, AList.get?]
  | cons kv ps ih =>
    obtain ⟨a, v⟩ := kv
    simp only [List.map_cons, List.nodup_cons] at hn
    by_cases h : a = k
    · subst h
      have hnot : ∀ kp ∈ ps, kp.1 ≠ a := fun kp hkp e => hn.1 (e ▸ List.mem_map_of_mem (f := Prod.fst) hkp)
      have : AList.erase ((a, v) :: ps) a = ps := by
        simp only [AList.erase, List.filter_cons, ne_eq, not_true_eq_false, decide_false, Bool.false_eq_true, if_false]
        apply List.filter_eq_self.mpr
        intro kp hkp; simpa using hnot kp hkp
      rw [this]
      simp only [markValue_eq, List.map_cons, List.sum_cons, heldValue, AList.get?, List.find?_cons, decide_true, Option.map_some]
      ring
    · have : AList.erase ((a, v) :: ps) k = (a, v) :: AList.erase ps k := by
        simp [AList.erase, List.filter_cons, h]
      rw [this]
      have ih' := ih hn.2
      simp only [markValue_eq, List.map_cons, List.sum_cons, heldValue, AList.get?, List.find?_cons, h, decide_false] at ih' ⊢
      rw [ih']; ring

theorem deductMarket_amount_nonneg (ls : List Level) (rem : Rat) (hs : ∀ l ∈ ls, 0 ≤ l.size) (hr : 0 ≤ rem) :
    ∀ f ∈ deductMarket DCtx.exact rem ls, 0 ≤ f.amount := by
  induction ls generalizing rem with
  | nil => simp [deductMarket]
  | cons l ls ih =>
    have hs' : ∀ l' ∈ ls, 0 ≤ l'.size := fun l' h => hs l' (List.mem_cons_of_mem _ h)
    have hl : 0 ≤ l.size := hs l List.mem_cons_self
    rw [deductMarket_exact_cons]
    split
    · exact ih rem hs' hr
    · intro f hf
      rcases List.mem_cons.mp hf with rfl | hf
      · exact le_min hl hr
      · split at hf
        · simp at hf
        · exact ih _ hs' (by linarith [min_le_right l.size rem]) f hf

/-- the fills of an accepted order under exact arithmetic on a side in good shape: they add up to the
    (rounded) amount, are non-negative, and sit at prices of levels the order may touch -/
theorem fills_props {c : TokenCfg} {book : List Instr} {r : Req} {isBuy : Bool} {ck : Checked}
    (hck : checkTx DCtx.exact c book r isBuy = .ok ck) (side : List Level) (f : Level → Bool)
    (hav : availSide DCtx.exact ck.ins r.mult isBuy = .ok (side.filter f)) (ho : SideOk side) :
    fillSum (deduct DCtx.exact ck.amount (side.filter f) ck.price) = ck.amount ∧ 0 ≤ ck.amount ∧
    ∀ x ∈ deduct DCtx.exact ck.amount (side.filter f) ck.price, 0 ≤ x.amount ∧ ∃ l ∈ side, f l = true ∧ x.price = l.price := by
  obtain ⟨_, _, hmin, hamt, avail, ha, hcase⟩ := checkTx_ok hck
  have hav' := hav
  rw [hav] at ha
  simp only [Except.ok.injEq] at ha
  subst ha
  have hnn : 0 ≤ ck.amount := by
    rw [hamt]; exact roundDec_nonneg _ (le_trans (minAmount_pos c).le hmin)
  have hsz : ∀ l ∈ side.filter f, 0 ≤ l.size := fun l hl => ho.2 l (List.mem_filter.mp hl).1
  have hprice : ∀ x ∈ deduct DCtx.exact ck.amount (side.filter f) ck.price, ∃ l ∈ side, f l = true ∧ x.price = l.price := by
    intro x hx
    obtain ⟨l, hl, hp⟩ := fills_from_avail hck hav' hx
    exact ⟨l, (List.mem_filter.mp hl).1, (List.mem_filter.mp hl).2, by simpa using hp⟩
  rcases hcase with ⟨_, hp, hle⟩ | ⟨p, l, rest, _, hfa, hp, hle⟩
  · rw [sumSizes_exact] at hle
    refine ⟨?_, hnn, ?_⟩
    · rw [hp]; exact C15_market_fill_total _ _ hsz hnn hle
    · intro x hx
      refine ⟨?_, hprice x hx⟩
      rw [hp] at hx
      exact deductMarket_amount_nonneg _ _ hsz hnn x hx
  · have hl : l ∈ findAvailable DCtx.exact p (side.filter f) := by rw [hfa]; exact List.mem_cons_self
    have hl' : l ∈ side.filter f := (List.mem_filter.mp hl).1
    have hsingle : deduct DCtx.exact ck.amount (side.filter f) ck.price = [⟨l.price, ck.amount⟩] := by
      rw [hp]
      have := deductLimit_single DCtx.exact ck.amount (side.filter f) l hl'
        (by simpa [PricesNodup] using nodup_filter_prices ho.1 f)
      simpa [deduct] using this
    refine ⟨?_, hnn, ?_⟩
    · rw [hsingle]; simp [fillSum]
    · intro x hx
      refine ⟨?_, hprice x hx⟩
      rw [hsingle] at hx
      simp only [List.mem_singleton] at hx
      rw [hx]; exact hnn

/-- Σ price × size against a price bound -/
theorem fillCost_ge (fs : List Fill) (m : Rat) (h : ∀ x ∈ fs, 0 ≤ x.amount ∧ m ≤ x.price) : m * fillSum fs ≤ fillCost fs := by
  induction fs with
  | nil => simp [fillSum, fillCost]
  | cons x fs ih =>
    have hx := h x List.mem_cons_self
    have := ih (fun y hy => h y (List.mem_cons_of_mem _ hy))
    simp only [fillSum, fillCost, List.map_cons, List.sum_cons] at this ⊢
    nlinarith [mul_le_mul_of_nonneg_left hx.2 hx.1]

theorem fillCost_le (fs : List Fill) (m : Rat) (h : ∀ x ∈ fs, 0 ≤ x.amount ∧ x.price ≤ m) : fillCost fs ≤ m * fillSum fs := by
  induction fs with
  | nil => simp [fillSum, fillCost]
  | cons x fs ih =>
    have hx := h x List.mem_cons_self
    have := ih (fun y hy => h y (List.mem_cons_of_mem _ hy))
    simp only [fillSum, fillCost, List.map_cons, List.sum_cons] at this ⊢
    nlinarith [mul_le_mul_of_nonneg_left hx.2 hx.1]

theorem fillCost_nonneg (fs : List Fill) (h : ∀ x ∈ fs, 0 ≤ x.amount ∧ 0 ≤ x.price) : 0 ≤ fillCost fs := by
  have := fillCost_ge fs 0 h
  simpa using this

theorem alist_get_set {ν : Type} (m : AList String ν) (k : String) (v : ν) : AList.get? (AList.set m k v) k = some v := by
  induction m with
  | nil => simp [AList.set, AList.get?]
  | cons kv m ih =>
    obtain ⟨k', v'⟩ := kv
    unfold AList.set
    by_cases h : k' = k
    · simp [h, AList.get?]
    · simp only [h, if_false]
      simp only [AList.get?, List.find?_cons, h, decide_false] at ih ⊢
      exact ih

theorem alist_mem_set {ν : Type} (m : AList String ν) (k : String) (v : ν) (kp : String × ν) (h : kp ∈ AList.set m k v) :
    kp = (k, v) ∨ kp ∈ m := by
  induction m with
  | nil => simp [AList.set] at h; exact Or.inl h
  | cons kv m ih =>
    obtain ⟨k', v'⟩ := kv
    unfold AList.set at h
    by_cases hk : k' = k
    · simp only [hk, if_true] at h
      rcases List.mem_cons.mp h with h | h
      · exact Or.inl h
      · exact Or.inr (List.mem_cons_of_mem _ h)
    · simp only [hk, if_false] at h
      rcases List.mem_cons.mp h with h | h
      · exact Or.inr (h ▸ List.mem_cons_self)
      · rcases ih h with h | h
        · exact Or.inl h
        · exact Or.inr (List.mem_cons_of_mem _ h)

theorem alist_keys_set {ν : Type} (m : AList String ν) (k : String) (v : ν) (hn : (m.map Prod.fst).Nodup) :
    ((AList.set m k v).map Prod.fst).Nodup := by
  induction m with
  | nil => simp [AList.set]
  | cons kv m ih =>
    obtain ⟨k', v'⟩ := kv
    simp only [List.map_cons, List.nodup_cons] at hn
    unfold AList.set
    by_cases hk : k' = k
    · simp only [hk, if_true, List.map_cons, List.nodup_cons]
      exact ⟨hk ▸ hn.1, hn.2⟩
    · simp only [hk, if_false, List.map_cons, List.nodup_cons]
      refine ⟨?_, ih hn.2⟩
      intro hmem
      obtain ⟨kp, hkp, hkey⟩ := List.mem_map.mp hmem
      rcases alist_mem_set m k v kp hkp with h | h
      · rw [h] at hkey; exact hk hkey.symm
      · exact hn.1 (hkey ▸ List.mem_map_of_mem (f := Prod.fst) h)

theorem assetDust_lt_one : assetDust < 1 := by
  unfold assetDust Gen.assetSubDust; norm_num
theorem assetDust_nonneg : 0 ≤ assetDust := by
  unfold assetDust Gen.assetSubDust; norm_num

theorem ratAbs_eq_abs (x : Rat) : ratAbs x = |x| := by
  unfold ratAbs
  split
  · rename_i h; rw [abs_of_neg h]
  · rename_i h; rw [abs_of_nonneg (not_lt.mp h)]

/-- `Asset.sub` under exact arithmetic: the new balance never exceeds `balance − amount` by more than the dust -/
theorem assetSub_exact {b a b' : Rat} {neg : Bool} (h : assetSub NumCtx.exact b a neg = some b') :
    b' ≤ b - a + assetDust * |b| ∧ (neg = false → 0 ≤ b → 0 ≤ b') := by
  have hd := assetDust_nonneg
  have habs := abs_nonneg b
  unfold assetSub at h
  simp only [NumCtx.exact_sub, NumCtx.exact_div] at h
  by_cases hb : b = 0
  · subst hb
    simp only [ne_eq, not_true_eq_false, if_false, zero_sub] at h
    by_cases ha : a = 0
    · subst ha; simp at h; subst h; simp
    · simp only [ha, if_false] at h
      by_cases hneg : neg = true
      · simp only [hneg, if_true, Option.some.injEq] at h
        subst h; exact ⟨by simp, fun hn => by simp [hn] at hneg⟩
      · simp only [hneg, Bool.false_eq_true, if_false] at h
        have hsn : ¬ ratAbs (-a / a) < assetDust := by
          rw [ratAbs_eq_abs, abs_div, abs_neg, div_self (abs_ne_zero.mpr ha)]
          linarith [assetDust_lt_one]
        simp only [hsn, if_false] at h
        by_cases hlt : -a < 0
        · simp [hlt] at h
        · simp only [hlt, if_false, Option.some.injEq] at h
          subst h; exact ⟨by simp, fun _ _ => not_lt.mp hlt⟩
  · simp only [ne_eq, hb, not_false_eq_true, if_true, if_false] at h
    by_cases hneg : neg = true
    · simp only [hneg, if_true, Option.some.injEq] at h
      subst h; exact ⟨by nlinarith, fun hn => by simp [hn] at hneg⟩
    · simp only [hneg, Bool.false_eq_true, if_false] at h
      by_cases hsn : ratAbs ((b - a) / b) < assetDust
      · simp only [hsn, if_true, Option.some.injEq] at h
        subst h
        refine ⟨?_, fun _ _ => le_refl _⟩
        rw [ratAbs_eq_abs, abs_div, div_lt_iff₀ (abs_pos.mpr hb)] at hsn
        have := neg_abs_le (b - a)
        linarith
      · simp only [hsn, if_false] at h
        by_cases hlt : b - a < 0
        · simp [hlt] at h
        · simp only [hlt, if_false, Option.some.injEq] at h
          subst h; exact ⟨by nlinarith, fun _ _ => not_lt.mp hlt⟩

theorem roundHalfUpNat_le (N d : Nat) : roundHalfUpNat N d * d ≤ 2 * N := by
  unfold roundHalfUpNat
  have hN := Nat.div_add_mod' N d
  simp only []
  split
  · omega
  · rename_i h
    rw [Nat.add_mul]
    omega

/-- rounding half-up never more than doubles a non-negative number -/
theorem quantHalfUp_le_two (k : Nat) {x : Rat} (hx : 0 ≤ x) : quantHalfUp k x ≤ 2 * x := by
  unfold quantHalfUp
  have hn : ¬ x.num < 0 := not_lt.mpr (Rat.num_nonneg.mpr hx)
  simp only [hn, if_false]
  have hden : (0 : Rat) < (x.den : Rat) := by exact_mod_cast x.den_pos
  have hp : (0 : Rat) < ((pow10 k : Nat) : Rat) := by unfold pow10; positivity
  set A : Nat := x.num.natAbs with hA
  set D : Nat := x.den with hD
  have hxe : (A : Rat) / (D : Rat) = x := by
    have h2 : ((A : Nat) : Rat) = ((x.num : Int) : Rat) := by
      rw [hA, ← Int.cast_natCast, Int.natAbs_of_nonneg (Rat.num_nonneg.mpr hx)]
    rw [h2]; exact Rat.num_div_den x
  have hle := roundHalfUpNat_le (A * pow10 k) D
  have hle' : ((roundHalfUpNat (A * pow10 k) D : Nat) : Rat) * (D : Rat) ≤ 2 * ((A : Rat) * ((pow10 k : Nat) : Rat)) := by
    exact_mod_cast hle
  rw [Rat.mkRat_eq_div]
  push_cast
  rw [div_le_iff₀ hp]
  calc ((roundHalfUpNat (A * pow10 k) D : Nat) : Rat)
      = ((roundHalfUpNat (A * pow10 k) D : Nat) : Rat) * (D : Rat) / (D : Rat) := by field_simp
    _ ≤ 2 * ((A : Rat) * ((pow10 k : Nat) : Rat)) / (D : Rat) := by
        apply div_le_div_of_nonneg_right hle' hden.le
    _ = 2 * ((A : Rat) / (D : Rat)) * ((pow10 k : Nat) : Rat) := by field_simp
    _ = 2 * x * ((pow10 k : Nat) : Rat) := by rw [hxe]

theorem roundDec_le_two (e : Int) {x : Rat} (hx : 0 ≤ x) : roundDec e x ≤ 2 * x := by
  unfold roundDec
  split
  · exact quantHalfUp_le_two _ hx
  · have ht := tenPow_pos e
    have := quantHalfUp_le_two 0 (div_nonneg hx ht.le)
    calc quantHalfUp 0 (x / tenPow e) * tenPow e ≤ 2 * (x / tenPow e) * tenPow e :=
          mul_le_mul_of_nonneg_right this ht.le
      _ = 2 * x := by field_simp

end Demeter.Deribit
