/-
  Round35 — part 2: `scale10` and `sigExp`.

  For `0 < n, d < 2^150000` and any `p`, the exponent `e = sigExp p n d` normalises `n/d` to `p` digits:
        10^(p-1) ≤ (n/d) / 10^e < 10^p ,
  stated both on rationals (`sigExp_spec_rat`) and as integer inequalities on the pair returned by `scale10`
  (`sigExp_spec`).  It is the *only* such exponent (`sigExp_unique`).
-/
import Proofs.Lemmas.Round35
import Mathlib.Tactic.Ring
import Mathlib.Tactic.Positivity
import Mathlib.Tactic.FieldSimp
import Mathlib.Algebra.Order.Field.Rat
import Mathlib.Algebra.Order.Field.Power
import Mathlib.Data.Rat.Cast.Order
namespace Demeter.Numerics
open Demeter

/-- `T = 10` as a rational -/
local notation "T" => (10 : ℚ)

theorem T_pos : (0:ℚ) < T := by norm_num
theorem T_ne : T ≠ 0 := by norm_num
theorem Tz_pos (e : ℤ) : (0:ℚ) < T ^ e := zpow_pos T_pos e
theorem Tz_add (a b : ℤ) : T ^ (a + b) = T ^ a * T ^ b := zpow_add₀ T_ne a b
theorem Tz_succ (a : ℤ) : T ^ (a + 1) = T ^ a * 10 := by rw [Tz_add, zpow_one]
theorem Tz_mono {a b : ℤ} (h : a ≤ b) : T ^ a ≤ T ^ b := zpow_le_zpow_right₀ (by norm_num) h
theorem Tz_lt_iff {a b : ℤ} : T ^ a < T ^ b ↔ a < b := zpow_lt_zpow_iff_right₀ (by norm_num)

/-- value of the pair returned by `scale10` -/
theorem scale10_spec (n d : Nat) (e : Int) (hd : 0 < d) :
    0 < (scale10 n d e).2 ∧
    ((scale10 n d e).1 : ℚ) / ((scale10 n d e).2 : ℚ) = (n : ℚ) / d / T ^ e := by
  have hdq : (0:ℚ) < d := by exact_mod_cast hd
  unfold scale10 pow10
  split
  · rename_i h
    refine ⟨Nat.mul_pos hd (Nat.pow_pos (by decide)), ?_⟩
    have : T ^ e = T ^ e.toNat := by
      rw [← zpow_natCast]; congr 1; omega
    simp only [Nat.cast_mul, Nat.cast_pow, Nat.cast_ofNat]
    rw [this, div_div]
  · rename_i h
    refine ⟨hd, ?_⟩
    have : T ^ e = (T ^ (-e).toNat)⁻¹ := by
      rw [← zpow_natCast, ← zpow_neg]; congr 1; omega
    simp only [Nat.cast_mul, Nat.cast_pow, Nat.cast_ofNat]
    rw [this]
    field_simp

/-- digit-count bounds as rational `zpow` inequalities -/
theorem ndigits_bounds_rat (n : Nat) (hn : 0 < n) (hb : n.log2 < LOG2_BOUND) :
    T ^ ((ndigits n : ℤ) - 1) ≤ (n : ℚ) ∧ (n : ℚ) < T ^ (ndigits n : ℤ) := by
  obtain ⟨h1, h2⟩ := ndigits_spec n hn hb
  have hp := ndigits_pos n
  constructor
  · have : ((ndigits n : ℤ) - 1) = ((ndigits n - 1 : ℕ) : ℤ) := by omega
    rw [this, zpow_natCast]
    exact_mod_cast h1
  · rw [zpow_natCast]
    exact_mod_cast h2

/-- **`sigExp` normalises to `p` digits** (rational form) -/
theorem sigExp_spec_rat (p n d : Nat) (hn : 0 < n) (hd : 0 < d)
    (hbn : n.log2 < LOG2_BOUND) (hbd : d.log2 < LOG2_BOUND) :
    T ^ ((p : ℤ) - 1) ≤ (n : ℚ) / d / T ^ (sigExp p n d) ∧
    (n : ℚ) / d / T ^ (sigExp p n d) < T ^ (p : ℤ) := by
  obtain ⟨n1, n2⟩ := ndigits_bounds_rat n hn hbn
  obtain ⟨d1, d2⟩ := ndigits_bounds_rat d hd hbd
  have hdq : (0:ℚ) < d := by exact_mod_cast hd
  have hnq : (0:ℚ) < n := by exact_mod_cast hn
  generalize hA : (ndigits n : ℤ) = A at *
  generalize hB : (ndigits d : ℤ) = B at *
  -- candidate exponent
  have key_lo : T ^ ((p:ℤ) - 1) < (n:ℚ) / d / T ^ (A - B - p) := by
    rw [div_div, lt_div_iff₀ (mul_pos hdq (Tz_pos _))]
    calc T ^ ((p:ℤ) - 1) * ((d:ℚ) * T ^ (A - B - p))
        < T ^ ((p:ℤ) - 1) * (T ^ B * T ^ (A - B - p)) := by
          have := Tz_pos ((p:ℤ) - 1); have := Tz_pos (A - B - p)
          gcongr
      _ = T ^ (A - 1) := by rw [← Tz_add, ← Tz_add]; congr 1; ring
      _ ≤ n := n1
  have key_hi : (n:ℚ) / d / T ^ (A - B - p) < T ^ ((p:ℤ) + 1) := by
    rw [div_div, div_lt_iff₀ (mul_pos hdq (Tz_pos _))]
    calc (n:ℚ) < T ^ A := n2
      _ = T ^ ((p:ℤ) + 1) * (T ^ (B - 1) * T ^ (A - B - p)) := by
          rw [← Tz_add, ← Tz_add]; congr 1; ring
      _ ≤ T ^ ((p:ℤ) + 1) * ((d:ℚ) * T ^ (A - B - p)) := by
          have := Tz_pos ((p:ℤ) + 1); have := Tz_pos (A - B - p)
          gcongr
  obtain ⟨sd_pos, sval⟩ := scale10_spec n d (A - B - p) hd
  unfold sigExp
  simp only [hA, hB]
  have hsdq : (0:ℚ) < ((scale10 n d (A - B - p)).2 : ℚ) := by exact_mod_cast sd_pos
  split
  · rename_i hge
    -- v0 ≥ 10^p : use e0 + 1
    have hge' : T ^ (p:ℤ) ≤ (n:ℚ) / d / T ^ (A - B - p) := by
      rw [← sval, le_div_iff₀ hsdq, zpow_natCast]
      have : (scale10 n d (A - B - p)).2 * pow10 p ≤ (scale10 n d (A - B - p)).1 := hge
      unfold pow10 at this
      have h2 : (((scale10 n d (A - B - p)).2 * 10 ^ p : ℕ) : ℚ) ≤ ((scale10 n d (A - B - p)).1 : ℚ) := by
        exact_mod_cast this
      rw [mul_comm]; push_cast at h2; exact h2
    rw [Tz_succ, ← div_div]
    have e1 : T ^ (p:ℤ) = T ^ ((p:ℤ) - 1) * 10 := by rw [← Tz_succ]; congr 1; ring
    have e2 : T ^ ((p:ℤ) + 1) = T ^ (p:ℤ) * 10 := Tz_succ _
    constructor
    · rw [le_div_iff₀ (by norm_num)]; rw [← e1]; exact hge'
    · rw [div_lt_iff₀ (by norm_num)]; rw [← e2]; exact key_hi
  · rename_i hlt
    have hlt' : (n:ℚ) / d / T ^ (A - B - p) < T ^ (p:ℤ) := by
      rw [← sval, div_lt_iff₀ hsdq, zpow_natCast]
      have : (scale10 n d (A - B - p)).1 < (scale10 n d (A - B - p)).2 * pow10 p := Nat.lt_of_not_le hlt
      unfold pow10 at this
      have h2 : ((scale10 n d (A - B - p)).1 : ℚ) < (((scale10 n d (A - B - p)).2 * 10 ^ p : ℕ) : ℚ) := by
        exact_mod_cast this
      rw [mul_comm]; push_cast at h2; exact h2
    exact ⟨le_of_lt key_lo, hlt'⟩

/-- the normalising exponent is unique -/
theorem sigExp_unique_aux (x : ℚ) (p : ℤ) (e e' : ℤ) (_hx : 0 < x)
    (h1 : T ^ (p - 1) ≤ x / T ^ e) (h2 : x / T ^ e' < T ^ p) : e ≤ e' := by
  rw [le_div_iff₀ (Tz_pos _), ← Tz_add] at h1
  rw [div_lt_iff₀ (Tz_pos _), ← Tz_add] at h2
  have := Tz_lt_iff.1 (lt_of_le_of_lt h1 h2)
  omega

theorem sigExp_unique (p n d : Nat) (hn : 0 < n) (hd : 0 < d)
    (hbn : n.log2 < LOG2_BOUND) (hbd : d.log2 < LOG2_BOUND) (e : ℤ)
    (h1 : T ^ ((p : ℤ) - 1) ≤ (n : ℚ) / d / T ^ e) (h2 : (n : ℚ) / d / T ^ e < T ^ (p : ℤ)) :
    sigExp p n d = e := by
  obtain ⟨s1, s2⟩ := sigExp_spec_rat p n d hn hd hbn hbd
  have hx : (0:ℚ) < (n:ℚ) / d := by
    have : (0:ℚ) < d := by exact_mod_cast hd
    have : (0:ℚ) < n := by exact_mod_cast hn
    positivity
  exact le_antisymm (sigExp_unique_aux _ _ _ _ hx s1 h2) (sigExp_unique_aux _ _ _ _ hx h1 s2)

/-- **`sigExp_spec`**: integer form on the scaled numerator / denominator, `p ≥ 1` -/
theorem sigExp_spec (p n d : Nat) (hp : 0 < p) (hn : 0 < n) (hd : 0 < d)
    (hbn : n.log2 < LOG2_BOUND) (hbd : d.log2 < LOG2_BOUND) :
    let s := scale10 n d (sigExp p n d)
    0 < s.2 ∧ s.2 * 10 ^ (p - 1) ≤ s.1 ∧ s.1 < s.2 * 10 ^ p := by
  intro s
  obtain ⟨s1, s2⟩ := sigExp_spec_rat p n d hn hd hbn hbd
  obtain ⟨sd_pos, sval⟩ := scale10_spec n d (sigExp p n d) hd
  have hsdq : (0:ℚ) < (s.2 : ℚ) := by exact_mod_cast sd_pos
  rw [← sval] at s1 s2
  refine ⟨sd_pos, ?_, ?_⟩
  · have : ((p:ℤ) - 1) = ((p - 1 : ℕ) : ℤ) := by omega
    rw [this, zpow_natCast, le_div_iff₀ hsdq] at s1
    have : ((s.2 * 10 ^ (p - 1) : ℕ) : ℚ) ≤ (s.1 : ℚ) := by push_cast; rw [mul_comm]; exact s1
    exact_mod_cast this
  · rw [zpow_natCast, div_lt_iff₀ hsdq] at s2
    have : (s.1 : ℚ) < ((s.2 * 10 ^ p : ℕ) : ℚ) := by push_cast; rw [mul_comm]; exact s2
    exact_mod_cast this

end Demeter.Numerics
